(* Driver.v — one line in, one line out: runs model and spec functions for the correspondence check. *)
From Coq Require Import List NArith ZArith Bool Arith.
From Coq Require Import Strings.Byte Strings.String.
Require Import CU.model.Prim CU.model.Types CU.model.Unicode CU.model.Card.
Require Import CU.model.Block CU.model.Vbs CU.gen.GenConfig.
Require Import CU.spec.LuhnSpec CU.spec.FramingSpec.
Require Import CU.extract.Text CU.extract.DriverIso CU.extract.DriverParam CU.extract.DriverInfo CU.extract.DriverPin CU.extract.DriverCsv.
Import ListNotations.


Definition digits_of_text (s : str) : list nat := map (fun c => N.to_nat (c - 48)) s.

Definition run_card (op : text) (args : list text) : option text :=
  if text_eqb op (T "luhn_calc") then
    match args with [s] => Some (opt (p_str s) (fun s => pr_result pr_str (calculate_check_digit s))) | _ => Some bad_input end
  else if text_eqb op (T "luhn_validate") then
    match args with [s] => Some (opt (p_str s) (fun s => pr_result (fun _ => T "-") (validate_check_digit Normal s))) | _ => Some bad_input end
  else if text_eqb op (T "luhn_add") then
    match args with [s] => Some (opt (p_str s) (fun s => pr_result pr_str (add_check_digit s))) | _ => Some bad_input end
  else if text_eqb op (T "luhn_valid_spec") then   (* spec, on ASCII digit strings *)
    match args with [s] => Some (opt (p_str s) (fun s => T "OK " ++ pr_bool (luhn_validb (digits_of_text s)))) | _ => Some bad_input end
  else if text_eqb op (T "mask") then
    match args with [s; c] => Some (opt (p_str s) (fun s => opt (p_str c) (fun c => T "OK " ++ pr_str (mask s c)))) | _ => Some bad_input end
  else None.

(* ---------- framing ---------- *)
Definition BSZ : nat := 1012.
Definition blk_run (ws : list bytes) : bytes :=
  fdata (bfile (bfinalise BSZ (fold_left (bwrite BSZ) ws (binit BSZ fempty)))).
Definition p_wop (t : text) : option wop :=
  match t with
  | c :: r => if Byte.eqb c "W"%byte then option_map WWrite (p_bytes_e r)
              else if text_eqb t (T "C") then Some WClose
              else if text_eqb t (T "X") then Some WExit else None
  | [] => None
  end.
Definition p_wop2 (t : text) : option wop2 :=
  match t with
  | c :: r => if Byte.eqb c "T"%byte then option_map W2Touch (p_nat r) else option_map W2Op (p_wop t)
  | [] => None
  end.
Definition pr_rend (x : list bytes * rend) : text :=
  pr_list pr_bytes_e (fst x) ++ T "|" ++
  match snd x with End => T "END" | ErrData n ctx => T "ERR:" ++ pr_nat n ++ T ":" ++ pr_bytes ctx end.

Definition run_framing (op : text) (args : list text) : option text :=
  if text_eqb op (T "blk") then
    match args with [ws] => Some (opt (p_list p_bytes_e ws) (fun ws => T "OK " ++ pr_bytes (blk_run ws))) | _ => Some bad_input end
  else if text_eqb op (T "blk1") then
    match args with [d] => Some (opt (p_bytes d) (fun d => T "OK " ++ pr_bytes (block_oneshot BSZ d))) | _ => Some bad_input end
  else if text_eqb op (T "blk1_spec") then
    match args with [d] => Some (opt (p_bytes d) (fun d => T "OK " ++ pr_bytes (blocked_oneshot BSZ d))) | _ => Some bad_input end
  else if text_eqb op (T "payload_spec") then
    match args with [d] => Some (opt (p_bytes d) (fun d => T "OK " ++ pr_bytes (payload BSZ d))) | _ => Some bad_input end
  else if text_eqb op (T "unblk_reads") then
    match args with [f; ns] => Some (opt (p_bytes f) (fun f => opt (p_list p_nat ns) (fun ns =>
        pr_result (pr_list pr_bytes_e) (ureads BSZ (uinit (fopen f)) ns)))) | _ => Some bad_input end
  else if text_eqb op (T "unblk1") then
    match args with [f] => Some (opt (p_bytes f) (fun f => pr_result pr_bytes (unblock_oneshot BSZ f))) | _ => Some bad_input end
  else if text_eqb op (T "vbs_write") then
    match args with [b; ops] => Some (opt (p_bool b) (fun b => opt (p_list p_wop ops) (fun ops =>
        T "OK " ++ pr_bytes (file_of (writer_run BSZ b ops))))) | _ => Some bad_input end
  else if text_eqb op (T "vbs_write2") then
    match args with [b; ops] => Some (opt (p_bool b) (fun b => opt (p_list p_wop2 ops) (fun ops =>
        T "OK " ++ pr_bytes (file_of (writer_run2 BSZ b ops))))) | _ => Some bad_input end
  else if text_eqb op (T "vbs_l2b") then
    match args with [b; rs] => Some (opt (p_bool b) (fun b => opt (p_list p_bytes_e rs) (fun rs =>
        T "OK " ++ pr_bytes (vbs_list_to_bytes BSZ b rs)))) | _ => Some bad_input end
  else if text_eqb op (T "vbs_readm") then      (* with the configured maximum record length given (changed at run time) *)
    match args with [m; b; f] => Some (opt (p_N m) (fun m => opt (p_bool b) (fun b => opt (p_bytes f) (fun f =>
        pr_result pr_rend (read_all BSZ m f b))))) | _ => Some bad_input end
  else if text_eqb op (T "vbs_read") then
    match args with [b; f] => Some (opt (p_bool b) (fun b => opt (p_bytes f) (fun f =>
        pr_result pr_rend (read_all BSZ max_vbs_record_length f b)))) | _ => Some bad_input end
  else None.

Definition run_line (line : text) : text :=
  match split " "%byte line with
  | op :: args =>
    match run_card op args with
    | Some r => r
    | None =>
    match run_framing op args with
    | Some r => r
    | None =>
    match run_iso op args with
    | Some r => r
    | None =>
    match run_param op args with
    | Some r => r
    | None =>
    match run_info op args with
    | Some r => r
    | None =>
    match run_pin op args with
    | Some r => r
    | None =>
    match run_csv op args with
    | Some r => r
    | None => T "BADOP"
    end end end end end end end
  | [] => T "BADOP"
  end.
