(* Driver.v — one line in, one line out: runs model and spec functions for the correspondence check. *)
From Coq Require Import List NArith ZArith Bool Arith.
From Coq Require Import Strings.Byte Strings.String.
Require Import CU.model.Prim CU.model.Types CU.model.Unicode CU.model.Card.
Require Import CU.spec.LuhnSpec.
Require Import CU.extract.Text.
Import ListNotations.

Definition opt {A} (o : option A) (k : A -> text) : text := match o with Some a => k a | None => bad_input end.

Definition digits_of_text (s : str) : list nat := map (fun c => N.to_nat (c - 48)) s.

Definition run_card (op : text) (args : list text) : option text :=
  if text_eqb op (T "luhn_calc") then
    match args with [s] => Some (opt (p_str s) (fun s => pr_result pr_str (calculate_check_digit s))) | _ => Some bad_input end
  else if text_eqb op (T "luhn_validate") then
    match args with [s] => Some (opt (p_str s) (fun s => pr_result (fun _ => T "-") (validate_check_digit Normal s))) | _ => Some bad_input end
  else if text_eqb op (T "luhn_add") then
    match args with [s] => Some (opt (p_str s) (fun s => pr_result pr_str (add_check_digit s))) | _ => Some bad_input end
  else if text_eqb op (T "luhn_valid_spec") then   (* spec, on ASCII digit strings *)
    match args with [s] => Some (opt (p_str s) (fun s => T "OK " ++ pr_bool (luhn_validb (digits_of_text s)))) | _ => Some bad_input end
  else if text_eqb op (T "mask") then
    match args with [s; c] => Some (opt (p_str s) (fun s => opt (p_str c) (fun c => T "OK " ++ pr_str (mask s c)))) | _ => Some bad_input end
  else None.

Definition run_line (line : text) : text :=
  match split " "%byte line with
  | op :: args =>
    match run_card op args with
    | Some r => r
    | None => T "BADOP"
    end
  | [] => T "BADOP"
  end.
