(* DriverCsv.v — line protocol for the csv model (model/Csv.v). *)
From Coq Require Import List NArith ZArith Bool Arith.
From Coq Require Import Strings.Byte Strings.String.
Require Import CU.model.Prim CU.model.Types CU.model.Codec CU.model.Csv CU.gen.GenConfig.
Require Import CU.extract.Text CU.extract.DriverIso.
Import ListNotations.

(* tables: rows joined by "/", a row without fields is ".", otherwise its cells joined by "," with "_" for an empty cell *)
Definition p_crow (t : text) : option (list str) :=
  if text_eqb t (T ".") then Some [] else all_some (map p_str_e (split ","%byte t)).
Definition p_ctable (t : text) : option (list (list str)) :=
  if is_dash t then Some [] else all_some (map p_crow (split "/"%byte t)).
Definition pr_crow (r : list str) : text := match r with [] => T "." | _ => join (T ",") (map pr_str_e r) end.
Definition pr_ctable (l : list (list str)) : text := match l with [] => T "-" | _ => join (T "/") (map pr_crow l) end.

Definition run_csv (op : text) (args : list text) : option text :=
  if text_eqb op (T "csv_parse") then
    match args with [nl; t] => Some (opt (p_bool nl) (fun nl => opt (p_str t) (fun t =>
        pr_result pr_ctable (csv_parse (if nl then universal_nl t else t))))) | _ => Some bad_input end
  else if text_eqb op (T "csv_table") then
    match args with [t] => Some (opt (p_ctable t) (fun rows => T "OK " ++ pr_str (csv_table rows))) | _ => Some bad_input end
  else if text_eqb op (T "csv_text_to_ipm") then
    match args with [cd; bl; t] => Some (opt (p_codec cd) (fun cd => opt (p_bool bl) (fun bl => opt (p_str t) (fun t =>
        pr_result pr_bytes (csv_text_to_ipm 1012 packaged_bit_config cd bl t))))) | _ => Some bad_input end
  else if text_eqb op (T "ipm_to_csv_text") then
    match args with [cd; bl; cols; f] => Some (opt (p_codec cd) (fun cd => opt (p_bool bl) (fun bl =>
        opt (p_list p_key cols) (fun cols => opt (p_bytes f) (fun f =>
        pr_result pr_str (ipm_to_csv_text 1012 max_vbs_record_length packaged_bit_config cd bl cols f)))))) | _ => Some bad_input end
  else if text_eqb op (T "csv_limit") then
    match args with [] => Some (T "OK " ++ pr_N csv_field_limit) | _ => Some bad_input end
  else if text_eqb op (T "key_of_name") then
    match args with [t] => Some (opt (p_str t) (fun t => T "OK " ++ pr_key (key_of_name t))) | _ => Some bad_input end
  else None.
