(* DriverInfo.v — line protocol for ipm_info. *)
From Coq Require Import List NArith Bool Arith.
From Coq Require Import Strings.Byte Strings.String.
Require Import CU.model.Prim CU.model.Types CU.model.Codec CU.model.Info CU.gen.GenConfig CU.gen.GenCodec.
Require Import CU.extract.Text.
Import ListNotations.

Definition pr_info (i : info) : text :=
  match i with
  | Invalid r => T "INVALID " ++ pr_nat r
  | Valid b e => T "VALID " ++ pr_bool b ++ T " " ++ match e with GLatin1 => T "latin1" | GCp037 => T "cp037" | GUnknown => T "unknown" end
  end.

Definition run_info (op : text) (args : list text) : option text :=
  if text_eqb op (T "ipm_info") then
    match args with
    | [f] => Some (match p_bytes f with
                   | Some f => T "OK " ++ pr_info (ipm_info 1012 packaged_bit_config max_vbs_record_length
                                                           (mkcodec tbl_latin_1) (mkcodec tbl_cp037) f)
                   | None => bad_input end)
    | _ => Some bad_input
    end
  else None.
