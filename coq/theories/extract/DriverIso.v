(* DriverIso.v — line protocol for the ISO8583 model. *)
From Coq Require Import List NArith ZArith Bool Arith.
From Coq Require Import Strings.Byte Strings.String.
Require Import CU.model.Prim CU.model.Types CU.model.Unicode CU.model.Codec CU.model.Dates CU.model.Iso CU.gen.GenConfig.
Require Import CU.model.Block CU.model.Vbs CU.model.Ipm CU.model.Tools CU.spec.IsoSpec.
Require Import CU.extract.Text.
Import ListNotations.

Definition opt {A} (o : option A) (k : A -> text) : text := match o with Some a => k a | None => bad_input end.
Definition obind {A B} (o : option A) (f : A -> option B) : option B := match o with Some a => f a | None => None end.

(* ---- keys ---- *)
Definition p_key (t : text) : option key :=
  match t with
  | c :: r =>
    if Byte.eqb c "M"%byte then Some KMTI
    else if Byte.eqb c "D"%byte then option_map KDE (p_nat r)
    else if Byte.eqb c "P"%byte then option_map KPDS (p_str r)
    else if Byte.eqb c "T"%byte then option_map KTAG (p_str r)
    else if Byte.eqb c "I"%byte then Some KICC
    else if Byte.eqb c "O"%byte then option_map KOther (p_str r)
    else None
  | [] => None
  end.
Definition pr_key (k : key) : text :=
  match k with
  | KMTI => T "M" | KDE n => T "D" ++ pr_nat n | KPDS s => T "P" ++ pr_str s | KTAG s => T "T" ++ pr_str s
  | KICC => T "I" | KOther s => T "O" ++ pr_str s
  end.
(* ---- values ---- *)
Definition p_date (t : text) : option datetime :=
  match all_some (map p_N (split "."%byte t)) with
  | Some [y; m; d; h; n; s] => Some (mkdt y m d h n s)
  | _ => None
  end.
Definition p_value (t : text) : option value :=
  match t with
  | c :: r =>
    if Byte.eqb c "s"%byte then option_map VStr (p_str r)
    else if Byte.eqb c "i"%byte then option_map VInt (p_Z r)
    else if Byte.eqb c "b"%byte then option_map VBytes (p_bytes r)
    else if Byte.eqb c "d"%byte then option_map VDate (p_date r)
    else if Byte.eqb c "c"%byte then option_map VStr (p_str r)      (* a decimal.Decimal, as its text str(d): model/Dec.v *)
    else None
  | [] => None
  end.
Definition pr_value (v : value) : text :=
  match v with
  | VStr s => T "s" ++ pr_str s
  | VInt z => T "i" ++ pr_Z z
  | VBytes b => T "b" ++ pr_bytes b
  | VDate d => T "d" ++ join (T ".") (map pr_N [dt_Y d; dt_m d; dt_d d; dt_H d; dt_M d; dt_S d])
  end.
Definition p_entry (t : text) : option (key * value) :=
  match split "="%byte t with
  | [k; v] => obind (p_key k) (fun k => option_map (fun v => (k, v)) (p_value v))
  | _ => None
  end.
Definition p_dict (t : text) : option dict :=
  if is_dash t then Some [] else all_some (map p_entry (split ";"%byte t)).
Definition pr_dict (d : dict) : text :=
  match d with [] => T "-" | _ => join (T ";") (map (fun kv => pr_key (fst kv) ++ T "=" ++ pr_value (snd kv)) d) end.

(* ---- configuration ---- *)
Definition p_ftype (t : text) : option ftype :=
  if text_eqb t (T "F") then Some FIXED else if text_eqb t (T "L2") then Some LLVAR
  else if text_eqb t (T "L3") then Some LLLVAR else if text_eqb t (T "O") then Some FTOther else None.
Definition p_ptype (t : text) : option ptype :=
  if text_eqb t (T "S") then Some PTStr else if text_eqb t (T "I") then Some PTInt
  else if text_eqb t (T "D") then Some PTDec else if text_eqb t (T "T") then Some PTDate else None.
Definition p_proc (t : text) : option proc :=
  if text_eqb t (T "N") then Some PNone else if text_eqb t (T "P") then Some PPAN
  else if text_eqb t (T "X") then Some PPANPREFIX else if text_eqb t (T "I") then Some PICC
  else if text_eqb t (T "S") then Some PPDS else if text_eqb t (T "4") then Some PDE43 else None.
Definition p_optnat (t : text) : option (option nat) :=
  if text_eqb t (T "N") then Some None else option_map Some (p_nat t).
(* the regex fragment (harness/rx.py `proto`): tokens separated by "."
     a<q>                any character        s<neg><items>q<q>   a set: items separated by "_": L<c> R<lo>t<hi> W<neg> N<neg>
     g<hex name> ... e   a group              z<strict>  end anchor      b  start anchor        <q> = <min>x<max|i><g|l> *)
Definition p_quant (t : text) : option (nat * option nat * bool) :=
  match split "x"%byte t with
  | [mn; r] =>
    match rev r with
    | gl :: mxr =>
      let mx := rev mxr in
      obind (p_nat mn) (fun mn =>
      obind (if Byte.eqb gl "g"%byte then Some true else if Byte.eqb gl "l"%byte then Some false else None) (fun g =>
      if text_eqb mx (T "i") then Some (mn, None, g) else option_map (fun m => (mn, Some m, g)) (p_nat mx)))
    | [] => None
    end
  | _ => None
  end.
Definition p_ci (t : text) : option cls_item :=
  match t with
  | c :: r =>
    if Byte.eqb c "L"%byte then option_map CILit (p_N r)
    else if Byte.eqb c "R"%byte then
      match split "t"%byte r with
      | [lo; hi] => obind (p_N lo) (fun lo => option_map (CIRange lo) (p_N hi))
      | _ => None
      end
    else if Byte.eqb c "W"%byte then option_map CISpace (p_bool r)
    else if Byte.eqb c "N"%byte then option_map CIDigit (p_bool r)
    else None
  | [] => None
  end.
Fixpoint p_re_toks (toks : list text) (stack : list (option str * list re)) (cur : list re) : option regex :=
  match toks with
  | [] => match stack with [] => Some (rev cur) | _ => None end
  | t :: rest =>
    match t with
    | c :: r =>
      if Byte.eqb c "a"%byte then
        obind (p_quant r) (fun q => let '(mn, mx, g) := q in p_re_toks rest stack (RChar CAny mn mx g :: cur))
      else if Byte.eqb c "s"%byte then
        match r with
        | ng :: r' =>
          match split "q"%byte r' with
          | [items; q] =>
            obind (p_bool [ng]) (fun ng =>
            obind (match items with [] => Some [] | _ => all_some (map p_ci (split "_"%byte items)) end) (fun items =>
            obind (p_quant q) (fun q => let '(mn, mx, g) := q in
              p_re_toks rest stack (RChar (CSet ng items) mn mx g :: cur))))
          | _ => None
          end
        | [] => None
        end
      else if Byte.eqb c "g"%byte then
        obind (match r with [] => Some None | _ => option_map (@Some str) (p_str r) end) (fun nm =>
          p_re_toks rest ((nm, cur) :: stack) [])
      else if Byte.eqb c "e"%byte then
        match r, stack with
        | [], (nm, outer) :: st => p_re_toks rest st (RGroup nm (rev cur) :: outer)
        | _, _ => None
        end
      else if Byte.eqb c "z"%byte then obind (p_bool r) (fun b => p_re_toks rest stack (REnd b :: cur))
      else if text_eqb t (T "b") then p_re_toks rest stack (RStart :: cur)
      else None
    | [] => None
    end
  end.
Definition p_de43 (t : text) : option de43cfg :=
  if text_eqb t (T "0") then Some D43None
  else if text_eqb t (T "U") then Some D43Unsupported
  else match t with
       | c :: r => if Byte.eqb c "r"%byte
                   then match r with [] => Some (D43Re []) | _ => option_map D43Re (p_re_toks (split "."%byte r) [] []) end
                   else None
       | [] => None
       end.

Definition p_fieldcfg (t : text) : option (nat * fieldcfg) :=
  match split ":"%byte t with
  | [b; ft; fl; pt; df; pr; pc] =>
    obind (p_nat b) (fun b => obind (p_ftype ft) (fun ft => obind (p_optnat fl) (fun fl =>
    obind (p_ptype pt) (fun pt => obind (p_str df) (fun df => obind (p_proc pr) (fun pr =>
    option_map (fun pc => (b, mkfc ft fl pt df pr pc)) (p_de43 pc)))))))
  | _ => None
  end.
Definition p_cfg (t : text) : option cfgT :=
  if text_eqb t (T "packaged") then Some packaged_bit_config
  else if is_dash t then Some []
  else all_some (map p_fieldcfg (split ";"%byte t)).
Definition p_codec (t : text) : option codec := obind (p_str t) codec_named.

(* lists of dicts: separated by "/" ; "-" alone is the empty list, an empty dict inside a list is "~" *)
Definition p_dict_e (t : text) : option dict := if text_eqb t (T "~") then Some [] else p_dict t.
Definition pr_dict_e (d : dict) : text := match d with [] => T "~" | _ => pr_dict d end.
Definition p_dicts (t : text) : option (list dict) :=
  if is_dash t then Some [] else all_some (map p_dict_e (split "/"%byte t)).
Definition pr_dicts (l : list dict) : text := match l with [] => T "-" | _ => join (T "/") (map pr_dict_e l) end.
Definition pr_irend (x : list dict * rend) : text :=
  pr_dicts (fst x) ++ T "|" ++
  match snd x with End => T "END" | ErrData n ctx => T "ERR:" ++ pr_nat n ++ T ":" ++ pr_bytes ctx end.

Definition pr_ievents (l : list ievent) : text :=
  match l with [] => T "-"
  | _ => join (T "/") (map (fun e => match e with
                                     | EvRec d => T "R" ++ pr_dict_e d
                                     | EvErr n ctx => T "E" ++ pr_nat n ++ T ":" ++ pr_bytes ctx
                                     end) l) end.

(* CSV rows: rows separated by "/", cells by ","; an empty cell is "_"; "-" is no rows; a cell the model cannot print is "?" *)
Definition p_rows (t : text) : option (list (list str)) :=
  if is_dash t then Some [] else all_some (map (fun r => all_some (map p_str_e (split ","%byte r))) (split "/"%byte t)).
Definition pr_orows (l : list (list (option str))) : text :=
  match l with [] => T "-"
  | _ => join (T "/") (map (fun r => join (T ",") (map (fun c => match c with Some s => pr_str_e s | None => T "?" end) r)) l) end.

Definition run_iso (op : text) (args : list text) : option text :=
  if text_eqb op (T "dumps") then
    match args with [cf; cd; hb; d] => Some (opt (p_cfg cf) (fun cf => opt (p_codec cd) (fun cd => opt (p_bool hb) (fun hb =>
        opt (p_dict d) (fun d => pr_result pr_bytes (dumps cf cd hb d)))))) | _ => Some bad_input end
  else if text_eqb op (T "loads") then
    match args with [cf; cd; hb; b] => Some (opt (p_cfg cf) (fun cf => opt (p_codec cd) (fun cd => opt (p_bool hb) (fun hb =>
        opt (p_bytes b) (fun b => pr_result pr_dict (loads cf cd hb b)))))) | _ => Some bad_input end
  else if text_eqb op (T "pds_to_de") then
    match args with [d] => Some (opt (p_dict d) (fun d => pr_result (pr_list pr_str_e) (pds_to_de d))) | _ => Some bad_input end
  else if text_eqb op (T "pds_to_dict") then
    match args with [s] => Some (opt (p_str s) (fun s => pr_result pr_dict (pds_to_dict s))) | _ => Some bad_input end
  else if text_eqb op (T "icc_to_dict") then
    match args with [b] => Some (opt (p_bytes b) (fun b => pr_result pr_dict (icc_to_dict b))) | _ => Some bad_input end
  else if text_eqb op (T "wf_msg") then        (* spec: is the message in the domain of C01? (also wf_cfg) *)
    match args with [cf; cd; d] => Some (opt (p_cfg cf) (fun cf => opt (p_codec cd) (fun cd => opt (p_dict d) (fun d =>
        T "OK " ++ pr_bool (wf_cfgb cf) ++ pr_bool (codec_okb cd) ++ pr_bool (wf_msgb cf cd d))))) | _ => Some bad_input end
  else if text_eqb op (T "ipm_convert") then   (* mode 0: mci_ipm_encode; 1: mideu convert — both read without PDS processors *)
    match args with [md; ca; cb; fa; fb; f] => Some (opt (p_bool md) (fun md => opt (p_codec ca) (fun ca => opt (p_codec cb) (fun cb =>
        opt (p_bool fa) (fun fa => opt (p_bool fb) (fun fb => opt (p_bytes f) (fun f =>
        pr_result pr_bytes (convert 1012 max_vbs_record_length
            (cfg_nopds packaged_bit_config) packaged_bit_config ca cb fa fb f)))))))) | _ => Some bad_input end
  else if text_eqb op (T "pconvert") then
    match args with [ca; cb; fa; fb; f] => Some (opt (p_codec ca) (fun ca => opt (p_codec cb) (fun cb =>
        opt (p_bool fa) (fun fa => opt (p_bool fb) (fun fb => opt (p_bytes f) (fun f =>
        pr_result pr_bytes (pconvert 1012 max_vbs_record_length ca cb fa fb f))))))) | _ => Some bad_input end
  else if text_eqb op (T "csv_to_ipm") then
    match args with [cd; bl; cols; rows] => Some (opt (p_codec cd) (fun cd => opt (p_bool bl) (fun bl =>
        opt (p_list p_key cols) (fun cols => opt (p_rows rows) (fun rows =>
        pr_result pr_bytes (csv_to_ipm 1012 packaged_bit_config cd bl cols rows)))))) | _ => Some bad_input end
  else if text_eqb op (T "ipm_to_rows") then
    match args with [cd; bl; cols; f] => Some (opt (p_codec cd) (fun cd => opt (p_bool bl) (fun bl =>
        opt (p_list p_key cols) (fun cols => opt (p_bytes f) (fun f =>
        pr_result pr_orows (ipm_to_rows 1012 max_vbs_record_length packaged_bit_config cd bl cols f)))))) | _ => Some bad_input end
  else if text_eqb op (T "ipm_read") then
    match args with [cf; cd; bl; f] => Some (opt (p_cfg cf) (fun cf => opt (p_codec cd) (fun cd => opt (p_bool bl) (fun bl =>
        opt (p_bytes f) (fun f => pr_result pr_irend (iread_all 1012 max_vbs_record_length cf cd f bl)))))) | _ => Some bad_input end
  else if text_eqb op (T "ipm_events") then
    match args with [cf; cd; bl; f] => Some (opt (p_cfg cf) (fun cf => opt (p_codec cd) (fun cd => opt (p_bool bl) (fun bl =>
        opt (p_bytes f) (fun f => pr_result pr_ievents (ievents 1012 max_vbs_record_length cf cd f bl)))))) | _ => Some bad_input end
  else if text_eqb op (T "ipm_write") then
    match args with [cf; cd; bl; ms] => Some (opt (p_cfg cf) (fun cf => opt (p_codec cd) (fun cd => opt (p_bool bl) (fun bl =>
        opt (p_dicts ms) (fun ms => pr_result pr_bytes (ipm_file 1012 cf cd bl ms)))))) | _ => Some bad_input end
  else None.
