(* DriverParam.v — line protocol operations for the IpmParamReader model and the C18 spec (used by harness/props/c18.py).

   param_read     <codec> <table> <expanded 0/1> <blocked 0/1> <file>            packaged layouts (GenConfig)
   param_read_cfg <codec> <table> <expanded 0/1> <blocked 0/1> <layouts> <file>  layouts given on the line
   param_csv      <codec> <table> <expanded 0/1> <blocked 0/1> <layouts> <file>  columns / cells of mci_ipm_param_to_csv
   param_spec     <codec> <table> <expanded 0/1> <layouts> <irows> <tail> <rows> spec: records of the file and expected rows

   <codec>, <table>: str (4 hex digits per code point, "-" = empty); <file>: bytes (2 hex digits each, "-" = empty)
   <layouts>: "-" or tables separated by ";", each <name>:<fields>, <fields> "-" or <field>.<start>.<end> separated by ","
   <irows>:   "-" or <pre>.<table>.<mid>.<sub>.<post> separated by ","      (all str)
   <rows>:    "-" or <ts>.<code>.<key>.<body> separated by ","              (all str)
   answers:
     param_read*: OK <rows>|END   or   OK <rows>|RAISE <class>   or   RAISE <class> (constructor)   or   UNMODELLED
                  <rows>: "-" or rows separated by "/", a row = <name>=<value> separated by ";" (str)
     param_csv:   OK <names sep ";">|<"-" or rows sep "/", cells sep ";">|END...   (same ends as above)
     param_spec:  OK <records: bytes sep ",">|<rows>                               (RAISE OTHER:UnicodeError = not encodable) *)
From Coq Require Import List NArith ZArith Bool Arith.
From Coq Require Import Strings.Byte Strings.String.
Require Import CU.model.Prim CU.model.Codec CU.model.Block CU.model.Vbs CU.model.Param CU.gen.GenConfig.
Require Import CU.spec.ParamSpec.
Require Import CU.extract.Text.
Import ListNotations.

Definition popt {A} (o : option A) (k : A -> text) : text := match o with Some a => k a | None => bad_input end.
Definition PBSZ : nat := 1012.

(* ---------- parsing ---------- *)
Definition p_pfield (t : text) : option (str * (nat * nat)) :=
  match split "."%byte t with
  | [n; s; e] =>
    match p_str n, p_nat s, p_nat e with
    | Some n, Some s, Some e => Some (n, (s, e))
    | _, _, _ => None
    end
  | _ => None
  end.
Definition p_playout (t : text) : option (str * playout) :=
  match split ":"%byte t with
  | [n; fs] =>
    match p_str n, p_list p_pfield fs with
    | Some n, Some fs => Some (n, fs)
    | _, _ => None
    end
  | _ => None
  end.
Definition p_playouts (t : text) : option playouts :=
  if is_dash t then Some [] else all_some (map p_playout (split ";"%byte t)).

Definition p_irow (t : text) : option irow :=
  match split "."%byte t with
  | [a; b; c; d; e] =>
    match p_str a, p_str b, p_str c, p_str d, p_str e with
    | Some a, Some b, Some c, Some d, Some e => Some (mkirow a b c d e)
    | _, _, _, _, _ => None
    end
  | _ => None
  end.
Definition p_drow (t : text) : option drow :=
  match split "."%byte t with
  | [a; b; c; d] =>
    match p_str a, p_str b, p_str c, p_str d with
    | Some a, Some b, Some c, Some d => Some (mkdrow a b c d)
    | _, _, _, _ => None
    end
  | _ => None
  end.

(* ---------- printing ---------- *)
Definition pr_prow (d : prow) : text :=
  join (T ";") (map (fun kv => pr_str (fst kv) ++ T "=" ++ pr_str (snd kv)) d).
Definition pr_prows (l : list prow) : text :=
  match l with [] => T "-" | _ => join (T "/") (map pr_prow l) end.
Definition pr_pend (e : pend) : text :=
  match e with PEnd => T "END" | PRaise x => T "RAISE " ++ exn_name x end.
Definition pr_pout (x : list prow * pend) : text := pr_prows (fst x) ++ T "|" ++ pr_pend (snd x).
Definition pr_cells (l : list str) : text := join (T ";") (map pr_str l).
Definition pr_pcsv (x : list str * list (list str) * pend) : text :=
  let '(names, rows, pe) := x in
  pr_cells names ++ T "|" ++ (match rows with [] => T "-" | _ => join (T "/") (map pr_cells rows) end)
  ++ T "|" ++ pr_pend pe.

(* ---------- running ---------- *)
Definition param_run (ls : playouts) (cn table : str) (expanded blocked : bool) (file : bytes) : text :=
  popt (codec_named cn) (fun c =>
    pr_result pr_pout
      (do x <- read_all PBSZ max_vbs_record_length file blocked;
       param_read ls c table expanded (fst x) (snd x))).
Definition param_csv_run (ls : playouts) (cn table : str) (expanded blocked : bool) (file : bytes) : text :=
  popt (codec_named cn) (fun c =>
    pr_result pr_pcsv
      (do x <- read_all PBSZ max_vbs_record_length file blocked;
       param_to_csv ls c table expanded (fst x) (snd x))).
Definition param_spec_run (ls : playouts) (cn table : str) (expanded : bool)
                          (irows : list irow) (tail : str) (rows : list drow) : text :=
  popt (codec_named cn) (fun c =>
    pr_result (fun x => x)
      (do recs <- param_file c irows tail rows;
       Ok (pr_list pr_bytes_e recs ++ T "|" ++
           pr_prows (match playout_get ls table with
                     | Some lay => expected_rows lay expanded (index_of irows) table rows
                     | None => []
                     end)))).

Definition run_param (op : text) (args : list text) : option text :=
  if text_eqb op (T "param_read") then
    match args with
    | [cn; tb; ex; bl; f] => Some (
        popt (p_str cn) (fun cn => popt (p_str tb) (fun tb => popt (p_bool ex) (fun ex => popt (p_bool bl) (fun bl =>
        popt (p_bytes f) (fun f => param_run packaged_param_tables cn tb ex bl f))))))
    | _ => Some bad_input
    end
  else if text_eqb op (T "param_read_cfg") then
    match args with
    | [cn; tb; ex; bl; ls; f] => Some (
        popt (p_str cn) (fun cn => popt (p_str tb) (fun tb => popt (p_bool ex) (fun ex => popt (p_bool bl) (fun bl =>
        popt (p_playouts ls) (fun ls => popt (p_bytes f) (fun f => param_run ls cn tb ex bl f)))))))
    | _ => Some bad_input
    end
  else if text_eqb op (T "param_csv") then
    match args with
    | [cn; tb; ex; bl; ls; f] => Some (
        popt (p_str cn) (fun cn => popt (p_str tb) (fun tb => popt (p_bool ex) (fun ex => popt (p_bool bl) (fun bl =>
        popt (p_playouts ls) (fun ls => popt (p_bytes f) (fun f => param_csv_run ls cn tb ex bl f)))))))
    | _ => Some bad_input
    end
  else if text_eqb op (T "param_spec") then
    match args with
    | [cn; tb; ex; ls; irs; tl; rs] => Some (
        popt (p_str cn) (fun cn => popt (p_str tb) (fun tb => popt (p_bool ex) (fun ex =>
        popt (p_playouts ls) (fun ls => popt (p_list p_irow irs) (fun irs => popt (p_str tl) (fun tl =>
        popt (p_list p_drow rs) (fun rs => param_spec_run ls cn tb ex irs tl rs))))))))
    | _ => Some bad_input
    end
  else None.
