(* DriverPin.v — driver operations for cardutil/pinblock.py and cardutil/key.py (model/Pin.v, spec/PinSpec.v).
   Argument formats: <str> 4 hex digits per code point ("-" empty), <bytes> 2 hex digits per byte ("-" empty),
   <n> decimal, <alg> tdes|aes, <tbl> a finite cipher table "key:data:out,key:data:out,..." (bytes; "_" for an
   empty byte string, "-" for the empty table) standing for the external cipher at the points the harness
   computed with its reference implementation (any other point gives the empty byte string). *)
From Coq Require Import List NArith ZArith Bool Arith.
From Coq Require Import Strings.Byte Strings.String.
Require Import CU.model.Prim CU.model.Pin CU.model.Des CU.model.Aes CU.spec.PinSpec.
Require Import CU.extract.Text.
Import ListNotations.

Definition optp {A} (o : option A) (k : A -> text) : text := match o with Some a => k a | None => bad_input end.

(* ASCII digit string -> digit values *)
Definition p_digits (t : text) : option (list N) :=
  match p_str t with
  | Some s => if forallb (fun c => (48 <=? c)%N && (c <=? 57)%N) s then Some (map (fun c => (c - 48)%N) s) else None
  | None => None
  end.
Definition p_alg (t : text) : option alg :=
  if text_eqb t (T "tdes") then Some TDES else if text_eqb t (T "aes") then Some AES else None.

Definition p_triple (t : text) : option (bytes * bytes * bytes) :=
  match split ":"%byte t with
  | [k; d; o] => match p_bytes_e k, p_bytes_e d, p_bytes_e o with
                 | Some k, Some d, Some o => Some (k, d, o) | _, _, _ => None end
  | _ => None
  end.
Fixpoint tbl_cipher (tbl : list (bytes * bytes * bytes)) (k d : bytes) : bytes :=
  match tbl with
  | [] => []
  | (k', d', o) :: r => if bytes_eqb k k' && bytes_eqb d d' then o else tbl_cipher r k d
  end.
(* the cipher: a table of (key, data, result) answers supplied by the harness, or the Triple-DES / AES model itself *)
Definition p_tbl (t : text) : option (bytes -> bytes -> bytes) :=
  if text_eqb t (T "TDES") then Some tdes_ecb_enc
  else if text_eqb t (T "TDESD") then Some tdes_ecb_dec
  else if text_eqb t (T "AES") then Some aes_ecb_enc
  else if text_eqb t (T "AESD") then Some aes_ecb_dec
  else option_map tbl_cipher (p_list p_triple t).

Definition pr_pair (x : str * str) : text := pr_str_e (fst x) ++ T "," ++ pr_str_e (snd x).
Definition ok_str (s : str) : text := T "OK " ++ pr_str s.
Definition ok_bytes (b : bytes) : text := T "OK " ++ pr_bytes b.

Definition run_pin (op : text) (args : list text) : option text :=
  (* ---- clear PIN blocks: model ---- *)
  if text_eqb op (T "pin0_to") then
    match args with [pin; pan] => Some (optp (p_str pin) (fun pin => optp (p_str pan) (fun pan =>
        pr_result pr_bytes (iso0_to_bytes pin pan)))) | _ => Some bad_input end
  else if text_eqb op (T "pin0_from") then
    match args with [blk; pan] => Some (optp (p_bytes blk) (fun blk => optp (p_str pan) (fun pan =>
        pr_result pr_str (iso0_from_bytes blk pan)))) | _ => Some bad_input end
  else if text_eqb op (T "pin4_to") then
    match args with [pin; rnd] => Some (optp (p_str pin) (fun pin => optp (p_N rnd) (fun rnd =>
        pr_result pr_bytes (iso4_to_bytes pin rnd)))) | _ => Some bad_input end
  else if text_eqb op (T "pin4_from") then
    match args with [blk] => Some (optp (p_bytes blk) (fun blk => pr_result pr_str (iso4_from_bytes blk))) | _ => Some bad_input end
  (* ---- clear PIN blocks: nibble specification (digit strings only) ---- *)
  else if text_eqb op (T "pin0_spec") then
    match args with [pin; pan] => Some (optp (p_digits pin) (fun pin => optp (p_digits pan) (fun pan =>
        ok_bytes (bytes_of_nibbles (spec0 pin pan))))) | _ => Some bad_input end
  else if text_eqb op (T "pin4_spec") then
    match args with [pin; rnd] => Some (optp (p_digits pin) (fun pin => optp (p_N rnd) (fun rnd =>
        ok_bytes (bytes_of_nibbles (spec4 pin rnd))))) | _ => Some bad_input end
  (* ---- encrypted forms: model, the cipher given as a table ---- *)
  else if text_eqb op (T "pin0_enc") then
    match args with [a; tbl; key; pin; pan] => Some (optp (p_alg a) (fun a => optp (p_tbl tbl) (fun E => optp (p_str key) (fun key =>
        optp (p_str pin) (fun pin => optp (p_str pan) (fun pan => pr_result pr_bytes (iso0_to_enc a E key pin pan)))))))
    | _ => Some bad_input end
  else if text_eqb op (T "pin0_dec") then
    match args with [a; tbl; key; enc; pan] => Some (optp (p_alg a) (fun a => optp (p_tbl tbl) (fun D => optp (p_str key) (fun key =>
        optp (p_bytes enc) (fun enc => optp (p_str pan) (fun pan => pr_result pr_str (iso0_from_enc a D key enc pan)))))))
    | _ => Some bad_input end
  else if text_eqb op (T "pin4_enc") then
    match args with [a; tbl; key; pin; rnd] => Some (optp (p_alg a) (fun a => optp (p_tbl tbl) (fun E => optp (p_str key) (fun key =>
        optp (p_str pin) (fun pin => optp (p_N rnd) (fun rnd => pr_result pr_bytes (iso4_to_enc a E key pin rnd)))))))
    | _ => Some bad_input end
  else if text_eqb op (T "pin4_dec") then
    match args with [a; tbl; key; enc] => Some (optp (p_alg a) (fun a => optp (p_tbl tbl) (fun D => optp (p_str key) (fun key =>
        optp (p_bytes enc) (fun enc => pr_result pr_str (iso4_from_enc a D key enc))))))
    | _ => Some bad_input end
  (* ---- Visa PVV ---- *)
  else if text_eqb op (T "cipher") then         (* a cipher model alone: TDES | TDESD | ..., key, data *)
    match args with [dir; k; d] => Some (optp (p_tbl dir) (fun F => optp (p_bytes k) (fun k => optp (p_bytes d) (fun d =>
        ok_bytes (F k d))))) | _ => Some bad_input end
  else if text_eqb op (T "tsp") then
    match args with [pan; kidx; pin] => Some (optp (p_str pan) (fun pan => optp (p_N kidx) (fun kidx => optp (p_str pin) (fun pin =>
        ok_str (get_tsp pan kidx pin))))) | _ => Some bad_input end
  else if text_eqb op (T "tsp_spec") then
    match args with [pan; kidx; pin] => Some (optp (p_digits pan) (fun pan => optp (p_N kidx) (fun kidx => optp (p_digits pin) (fun pin =>
        ok_str (dstr (tsp_spec pan kidx pin)))))) | _ => Some bad_input end
  else if text_eqb op (T "pvv_ct") then
    match args with [ct] => Some (optp (p_bytes ct) (fun ct => ok_str (pvv_of_ct ct))) | _ => Some bad_input end
  else if text_eqb op (T "pvv_spec") then
    match args with [ct] => Some (optp (p_bytes ct) (fun ct => ok_str (dstr (visa_spec (nibbles_of_bytes ct))))) | _ => Some bad_input end
  else if text_eqb op (T "pvv") then
    match args with [tbl; pin; key; kidx; pan] => Some (optp (p_tbl tbl) (fun E => optp (p_str pin) (fun pin => optp (p_str key) (fun key =>
        optp (p_N kidx) (fun kidx => optp (p_str pan) (fun pan => pr_result pr_str (calculate_pvv E pin key kidx pan)))))))
    | _ => Some bad_input end
  else if text_eqb op (T "to_pvv") then
    match args with [tbl; pin; key; kidx; pan] => Some (optp (p_tbl tbl) (fun E => optp (p_str pin) (fun pin => optp (p_str key) (fun key =>
        optp (p_N kidx) (fun kidx => optp (p_str pan) (fun pan => pr_result pr_str (to_pvv E pin key kidx pan)))))))
    | _ => Some bad_input end
  (* ---- key components, key check value ---- *)
  else if text_eqb op (T "xor_parts") then
    match args with [ps] => Some (optp (p_list p_str_e ps) (fun ps => pr_result pr_str (zmk_combine ps))) | _ => Some bad_input end
  else if text_eqb op (T "xor_spec") then     (* nibble-wise, for components of 32 hex digits *)
    match args with [ps] => Some (optp (p_list p_str_e ps) (fun ps =>
        if forallb (fun s => Nat.eqb (List.length s) 32 && forallb is_hex s) ps
        then ok_str (map hexch (combine_fields (map nibs_of_hex ps))) else bad_input)) | _ => Some bad_input end
  else if text_eqb op (T "kcv_ct") then
    match args with [ct; n] => Some (optp (p_bytes ct) (fun ct => optp (p_nat n) (fun n => ok_str (kcv_of_ct ct n)))) | _ => Some bad_input end
  else if text_eqb op (T "kcv") then
    match args with [tbl; key; n] => Some (optp (p_tbl tbl) (fun E => optp (p_bytes key) (fun key => optp (p_nat n) (fun n =>
        pr_result pr_str (calculate_kcv E key n))))) | _ => Some bad_input end
  else if text_eqb op (T "zmk") then
    match args with [tbl; ps] => Some (optp (p_tbl tbl) (fun E => optp (p_list p_str_e ps) (fun ps =>
        pr_result pr_pair (get_zone_master_key E ps)))) | _ => Some bad_input end
  else if text_eqb op (T "enc_zmk") then
    match args with [tbl; mk; ps] => Some (optp (p_tbl tbl) (fun E => optp (p_str mk) (fun mk => optp (p_list p_str_e ps) (fun ps =>
        pr_result pr_pair (get_enc_zone_master_key E mk ps))))) | _ => Some bad_input end
  else None.
