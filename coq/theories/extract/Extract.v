(* Extract.v — extraction of the driver to OCaml.  ExtrOcamlBasic only; nat, N, Z, positive, byte stay
   extracted datatypes; no Extract Constant / Extract Inductive of our own. *)
Require Coq.extraction.Extraction.
Require Import Coq.extraction.ExtrOcamlBasic.
From Coq Require Import Strings.Byte.
Require Import CU.extract.Driver.
Extraction Language OCaml.
Extraction "../ocaml/model.ml" run_line Byte.of_N Byte.to_N.
