(* Text.v — line protocol helpers for the extracted driver (parsing/printing of cases), in Gallina so that
   the OCaml glue stays a dozen lines.  Part of the trusted correspondence harness, not of the model. *)
From Coq Require Import List NArith ZArith Bool Arith.
From Coq Require Import Strings.Byte Strings.String.
Require Import CU.model.Prim CU.model.Types.
Import ListNotations.

Definition text := list byte.
Definition T (s : string) : text := list_byte_of_string s.

Fixpoint split_aux (sep : byte) (l : text) (cur : text) : list text :=
  match l with
  | [] => [rev_append cur []]
  | c :: r => if Byte.eqb c sep then rev_append cur [] :: split_aux sep r [] else split_aux sep r (c :: cur)
  end.
Definition split (sep : byte) (l : text) : list text := split_aux sep l [].
Definition text_eqb (a b : text) : bool := list_eqb Byte.eqb a b.
Definition is_dash (t : text) : bool := text_eqb t (T "-").

Fixpoint join (sep : text) (l : list text) : text :=
  match l with [] => [] | [x] => x | x :: r => x ++ sep ++ join sep r end.

Definition hexv (b : byte) : option N := hexval (Byte.to_N b).
Definition hexc (d : N) : byte := byte_of_N (hexch d).

(* bytes: 2 hex digits each; "-" is the empty string *)
Fixpoint unhex2 (t : text) : option bytes :=
  match t with
  | [] => Some []
  | a :: b :: r => match hexv a, hexv b, unhex2 r with
                   | Some x, Some y, Some l => Some (byte_of_N (x * 16 + y) :: l)
                   | _, _, _ => None end
  | _ => None
  end.
Definition p_bytes (t : text) : option bytes := if is_dash t then Some [] else unhex2 t.
(* str: 4 hex digits per code point *)
Fixpoint unhex4 (t : text) : option str :=
  match t with
  | [] => Some []
  | a :: b :: c :: d :: r =>
    match hexv a, hexv b, hexv c, hexv d, unhex4 r with
    | Some w, Some x, Some y, Some z, Some l => Some ((((w * 16 + x) * 16 + y) * 16 + z)%N :: l)
    | _, _, _, _, _ => None end
  | _ => None
  end.
Definition p_str (t : text) : option str := if is_dash t then Some [] else unhex4 t.

Definition pr_bytes (b : bytes) : text :=
  match b with [] => T "-" | _ => flat_map (fun x => let n := Byte.to_N x in [hexc (n / 16); hexc (n mod 16)]%N) b end.
Definition pr_str (s : str) : text :=
  match s with [] => T "-"
  | _ => flat_map (fun c => [hexc ((c / 4096) mod 16); hexc ((c / 256) mod 16); hexc ((c / 16) mod 16); hexc (c mod 16)]%N) s end.

Definition digv (b : byte) : option N :=
  let n := Byte.to_N b in if (48 <=? n)%N && (n <=? 57)%N then Some (n - 48)%N else None.
Fixpoint p_N_aux (t : text) (acc : N) : option N :=
  match t with [] => Some acc | c :: r => match digv c with Some d => p_N_aux r (acc * 10 + d)%N | None => None end end.
Definition p_N (t : text) : option N := match t with [] => None | _ => p_N_aux t 0%N end.
Definition p_nat (t : text) : option nat := option_map N.to_nat (p_N t).
Definition p_Z (t : text) : option Z :=
  match t with
  | c :: r => if Byte.eqb c "-"%byte then option_map (fun n => (- Z.of_N n)%Z) (p_N r) else option_map Z.of_N (p_N t)
  | [] => None
  end.
Definition p_bool (t : text) : option bool :=
  if text_eqb t (T "1") then Some true else if text_eqb t (T "0") then Some false else None.

Definition pr_N (n : N) : text := map (fun d => byte_of_N (48 + d)) (dec_digits n).
Definition pr_nat (n : nat) : text := pr_N (N.of_nat n).
Definition pr_Z (z : Z) : text := match z with Zneg p => "-"%byte :: pr_N (Npos p) | _ => pr_N (Z.to_N z) end.
Definition pr_bool (b : bool) : text := if b then T "1" else T "0".

Fixpoint all_some {A} (l : list (option A)) : option (list A) :=
  match l with
  | [] => Some []
  | Some a :: r => option_map (cons a) (all_some r)
  | None :: _ => None
  end.
(* comma separated lists; "-" is the empty list; elements may themselves be "-"-free only *)
Definition p_list {A} (p : text -> option A) (t : text) : option (list A) :=
  if is_dash t then Some [] else all_some (map p (split ","%byte t)).
Definition pr_list {A} (pr : A -> text) (l : list A) : text :=
  match l with [] => T "-" | _ => join (T ",") (map pr l) end.
(* lists of possibly empty byte strings: empty element printed as "_" *)
Definition p_bytes_e (t : text) : option bytes := if text_eqb t (T "_") then Some [] else unhex2 t.
Definition pr_bytes_e (b : bytes) : text := match b with [] => T "_" | _ => pr_bytes b end.
Definition p_str_e (t : text) : option str := if text_eqb t (T "_") then Some [] else unhex4 t.
Definition pr_str_e (s : str) : text := match s with [] => T "_" | _ => pr_str s end.

Definition exn_name (e : exn) : text :=
  match e with
  | EData => T "DATAERR" | EValue => T "OTHER:ValueError" | EStruct => T "OTHER:error"
  | EBinascii => T "OTHER:Error" | EIndex => T "OTHER:IndexError" | EKey => T "OTHER:KeyError"
  | EType => T "OTHER:TypeError" | EUnicode => T "OTHER:UnicodeError" | EAssert => T "ASSERT"
  | EOther => T "OTHER:?"
  end.
Definition pr_result {A} (pr : A -> text) (r : result A) : text :=
  match r with
  | Ok a => T "OK " ++ pr a
  | Raise e => T "RAISE " ++ exn_name e
  | OutOfFuel => T "FUEL"
  | Unmodelled => T "UNMODELLED"
  end.
Definition bad_input : text := T "BADINPUT".
