(* Aes.v — executable model of AES-128/192/256 (FIPS 197) in ECB mode.  Definitions only (no proofs).
   A byte is Coq's Byte.byte; the field arithmetic of GF(2^8) is done on its 8 bits (Byte.to_bits, least
   significant bit first), the S-box and its inverse are the FIPS 197 tables (Figures 7 and 14).
   The state is the list of its 16 bytes in input order, i.e. column-major: byte r + 4c is row r, column c.
   Every step is a total function on lists of any length (what does not fit the expected shape is copied),
   so that the inverse laws of proofs/AesProofs.v hold without side conditions. *)
From Coq Require Import List Bool Arith.
From Coq Require Import Strings.Byte.
Require Import CU.model.Prim.
Import ListNotations.

(* ---------- GF(2^8) on the bits of a byte ---------- *)

Definition bits8 := (bool * (bool * (bool * (bool * (bool * (bool * (bool * bool)))))))%type.

Definition xor8 (a b : bits8) : bits8 :=
  let '(a0, (a1, (a2, (a3, (a4, (a5, (a6, a7))))))) := a in
  let '(b0, (b1, (b2, (b3, (b4, (b5, (b6, b7))))))) := b in
  (xorb a0 b0, (xorb a1 b1, (xorb a2 b2, (xorb a3 b3, (xorb a4 b4, (xorb a5 b5, (xorb a6 b6, xorb a7 b7))))))).

(* multiplication by x modulo x^8 + x^4 + x^3 + x + 1: shift left, then xor 1b when bit 7 was set *)
Definition xtime8 (a : bits8) : bits8 :=
  let '(a0, (a1, (a2, (a3, (a4, (a5, (a6, a7))))))) := a in
  (a7, (xorb a0 a7, (a1, (xorb a2 a7, (xorb a3 a7, (a4, (a5, a6))))))).

Definition bxor (a b : byte) : byte := of_bits (xor8 (to_bits a) (to_bits b)).
Definition xtime (a : byte) : byte := of_bits (xtime8 (to_bits a)).
Definition bx4 (a b c d : byte) : byte := bxor (bxor a b) (bxor c d).

(* multiplication by the constants of MixColumns (02 03) and InvMixColumns (09 0b 0d 0e) *)
Definition mul2 (a : byte) : byte := xtime a.
Definition mul3 (a : byte) : byte := bxor (xtime a) a.
Definition mul9 (a : byte) : byte := bxor (xtime (xtime (xtime a))) a.
Definition mul11 (a : byte) : byte := bxor (bxor (xtime (xtime (xtime a))) (xtime a)) a.
Definition mul13 (a : byte) : byte := bxor (bxor (xtime (xtime (xtime a))) (xtime (xtime a))) a.
Definition mul14 (a : byte) : byte := bxor (bxor (xtime (xtime (xtime a))) (xtime (xtime a))) (xtime a).

(* ---------- S-box (FIPS 197 Figure 7) and inverse S-box (Figure 14) ---------- *)

Definition sbox (b : byte) : byte :=
  match b with
  | x00 => x63 | x01 => x7c | x02 => x77 | x03 => x7b | x04 => xf2 | x05 => x6b | x06 => x6f | x07 => xc5
  | x08 => x30 | x09 => x01 | x0a => x67 | x0b => x2b | x0c => xfe | x0d => xd7 | x0e => xab | x0f => x76
  | x10 => xca | x11 => x82 | x12 => xc9 | x13 => x7d | x14 => xfa | x15 => x59 | x16 => x47 | x17 => xf0
  | x18 => xad | x19 => xd4 | x1a => xa2 | x1b => xaf | x1c => x9c | x1d => xa4 | x1e => x72 | x1f => xc0
  | x20 => xb7 | x21 => xfd | x22 => x93 | x23 => x26 | x24 => x36 | x25 => x3f | x26 => xf7 | x27 => xcc
  | x28 => x34 | x29 => xa5 | x2a => xe5 | x2b => xf1 | x2c => x71 | x2d => xd8 | x2e => x31 | x2f => x15
  | x30 => x04 | x31 => xc7 | x32 => x23 | x33 => xc3 | x34 => x18 | x35 => x96 | x36 => x05 | x37 => x9a
  | x38 => x07 | x39 => x12 | x3a => x80 | x3b => xe2 | x3c => xeb | x3d => x27 | x3e => xb2 | x3f => x75
  | x40 => x09 | x41 => x83 | x42 => x2c | x43 => x1a | x44 => x1b | x45 => x6e | x46 => x5a | x47 => xa0
  | x48 => x52 | x49 => x3b | x4a => xd6 | x4b => xb3 | x4c => x29 | x4d => xe3 | x4e => x2f | x4f => x84
  | x50 => x53 | x51 => xd1 | x52 => x00 | x53 => xed | x54 => x20 | x55 => xfc | x56 => xb1 | x57 => x5b
  | x58 => x6a | x59 => xcb | x5a => xbe | x5b => x39 | x5c => x4a | x5d => x4c | x5e => x58 | x5f => xcf
  | x60 => xd0 | x61 => xef | x62 => xaa | x63 => xfb | x64 => x43 | x65 => x4d | x66 => x33 | x67 => x85
  | x68 => x45 | x69 => xf9 | x6a => x02 | x6b => x7f | x6c => x50 | x6d => x3c | x6e => x9f | x6f => xa8
  | x70 => x51 | x71 => xa3 | x72 => x40 | x73 => x8f | x74 => x92 | x75 => x9d | x76 => x38 | x77 => xf5
  | x78 => xbc | x79 => xb6 | x7a => xda | x7b => x21 | x7c => x10 | x7d => xff | x7e => xf3 | x7f => xd2
  | x80 => xcd | x81 => x0c | x82 => x13 | x83 => xec | x84 => x5f | x85 => x97 | x86 => x44 | x87 => x17
  | x88 => xc4 | x89 => xa7 | x8a => x7e | x8b => x3d | x8c => x64 | x8d => x5d | x8e => x19 | x8f => x73
  | x90 => x60 | x91 => x81 | x92 => x4f | x93 => xdc | x94 => x22 | x95 => x2a | x96 => x90 | x97 => x88
  | x98 => x46 | x99 => xee | x9a => xb8 | x9b => x14 | x9c => xde | x9d => x5e | x9e => x0b | x9f => xdb
  | xa0 => xe0 | xa1 => x32 | xa2 => x3a | xa3 => x0a | xa4 => x49 | xa5 => x06 | xa6 => x24 | xa7 => x5c
  | xa8 => xc2 | xa9 => xd3 | xaa => xac | xab => x62 | xac => x91 | xad => x95 | xae => xe4 | xaf => x79
  | xb0 => xe7 | xb1 => xc8 | xb2 => x37 | xb3 => x6d | xb4 => x8d | xb5 => xd5 | xb6 => x4e | xb7 => xa9
  | xb8 => x6c | xb9 => x56 | xba => xf4 | xbb => xea | xbc => x65 | xbd => x7a | xbe => xae | xbf => x08
  | xc0 => xba | xc1 => x78 | xc2 => x25 | xc3 => x2e | xc4 => x1c | xc5 => xa6 | xc6 => xb4 | xc7 => xc6
  | xc8 => xe8 | xc9 => xdd | xca => x74 | xcb => x1f | xcc => x4b | xcd => xbd | xce => x8b | xcf => x8a
  | xd0 => x70 | xd1 => x3e | xd2 => xb5 | xd3 => x66 | xd4 => x48 | xd5 => x03 | xd6 => xf6 | xd7 => x0e
  | xd8 => x61 | xd9 => x35 | xda => x57 | xdb => xb9 | xdc => x86 | xdd => xc1 | xde => x1d | xdf => x9e
  | xe0 => xe1 | xe1 => xf8 | xe2 => x98 | xe3 => x11 | xe4 => x69 | xe5 => xd9 | xe6 => x8e | xe7 => x94
  | xe8 => x9b | xe9 => x1e | xea => x87 | xeb => xe9 | xec => xce | xed => x55 | xee => x28 | xef => xdf
  | xf0 => x8c | xf1 => xa1 | xf2 => x89 | xf3 => x0d | xf4 => xbf | xf5 => xe6 | xf6 => x42 | xf7 => x68
  | xf8 => x41 | xf9 => x99 | xfa => x2d | xfb => x0f | xfc => xb0 | xfd => x54 | xfe => xbb | xff => x16
  end.

Definition inv_sbox (b : byte) : byte :=
  match b with
  | x00 => x52 | x01 => x09 | x02 => x6a | x03 => xd5 | x04 => x30 | x05 => x36 | x06 => xa5 | x07 => x38
  | x08 => xbf | x09 => x40 | x0a => xa3 | x0b => x9e | x0c => x81 | x0d => xf3 | x0e => xd7 | x0f => xfb
  | x10 => x7c | x11 => xe3 | x12 => x39 | x13 => x82 | x14 => x9b | x15 => x2f | x16 => xff | x17 => x87
  | x18 => x34 | x19 => x8e | x1a => x43 | x1b => x44 | x1c => xc4 | x1d => xde | x1e => xe9 | x1f => xcb
  | x20 => x54 | x21 => x7b | x22 => x94 | x23 => x32 | x24 => xa6 | x25 => xc2 | x26 => x23 | x27 => x3d
  | x28 => xee | x29 => x4c | x2a => x95 | x2b => x0b | x2c => x42 | x2d => xfa | x2e => xc3 | x2f => x4e
  | x30 => x08 | x31 => x2e | x32 => xa1 | x33 => x66 | x34 => x28 | x35 => xd9 | x36 => x24 | x37 => xb2
  | x38 => x76 | x39 => x5b | x3a => xa2 | x3b => x49 | x3c => x6d | x3d => x8b | x3e => xd1 | x3f => x25
  | x40 => x72 | x41 => xf8 | x42 => xf6 | x43 => x64 | x44 => x86 | x45 => x68 | x46 => x98 | x47 => x16
  | x48 => xd4 | x49 => xa4 | x4a => x5c | x4b => xcc | x4c => x5d | x4d => x65 | x4e => xb6 | x4f => x92
  | x50 => x6c | x51 => x70 | x52 => x48 | x53 => x50 | x54 => xfd | x55 => xed | x56 => xb9 | x57 => xda
  | x58 => x5e | x59 => x15 | x5a => x46 | x5b => x57 | x5c => xa7 | x5d => x8d | x5e => x9d | x5f => x84
  | x60 => x90 | x61 => xd8 | x62 => xab | x63 => x00 | x64 => x8c | x65 => xbc | x66 => xd3 | x67 => x0a
  | x68 => xf7 | x69 => xe4 | x6a => x58 | x6b => x05 | x6c => xb8 | x6d => xb3 | x6e => x45 | x6f => x06
  | x70 => xd0 | x71 => x2c | x72 => x1e | x73 => x8f | x74 => xca | x75 => x3f | x76 => x0f | x77 => x02
  | x78 => xc1 | x79 => xaf | x7a => xbd | x7b => x03 | x7c => x01 | x7d => x13 | x7e => x8a | x7f => x6b
  | x80 => x3a | x81 => x91 | x82 => x11 | x83 => x41 | x84 => x4f | x85 => x67 | x86 => xdc | x87 => xea
  | x88 => x97 | x89 => xf2 | x8a => xcf | x8b => xce | x8c => xf0 | x8d => xb4 | x8e => xe6 | x8f => x73
  | x90 => x96 | x91 => xac | x92 => x74 | x93 => x22 | x94 => xe7 | x95 => xad | x96 => x35 | x97 => x85
  | x98 => xe2 | x99 => xf9 | x9a => x37 | x9b => xe8 | x9c => x1c | x9d => x75 | x9e => xdf | x9f => x6e
  | xa0 => x47 | xa1 => xf1 | xa2 => x1a | xa3 => x71 | xa4 => x1d | xa5 => x29 | xa6 => xc5 | xa7 => x89
  | xa8 => x6f | xa9 => xb7 | xaa => x62 | xab => x0e | xac => xaa | xad => x18 | xae => xbe | xaf => x1b
  | xb0 => xfc | xb1 => x56 | xb2 => x3e | xb3 => x4b | xb4 => xc6 | xb5 => xd2 | xb6 => x79 | xb7 => x20
  | xb8 => x9a | xb9 => xdb | xba => xc0 | xbb => xfe | xbc => x78 | xbd => xcd | xbe => x5a | xbf => xf4
  | xc0 => x1f | xc1 => xdd | xc2 => xa8 | xc3 => x33 | xc4 => x88 | xc5 => x07 | xc6 => xc7 | xc7 => x31
  | xc8 => xb1 | xc9 => x12 | xca => x10 | xcb => x59 | xcc => x27 | xcd => x80 | xce => xec | xcf => x5f
  | xd0 => x60 | xd1 => x51 | xd2 => x7f | xd3 => xa9 | xd4 => x19 | xd5 => xb5 | xd6 => x4a | xd7 => x0d
  | xd8 => x2d | xd9 => xe5 | xda => x7a | xdb => x9f | xdc => x93 | xdd => xc9 | xde => x9c | xdf => xef
  | xe0 => xa0 | xe1 => xe0 | xe2 => x3b | xe3 => x4d | xe4 => xae | xe5 => x2a | xe6 => xf5 | xe7 => xb0
  | xe8 => xc8 | xe9 => xeb | xea => xbb | xeb => x3c | xec => x83 | xed => x53 | xee => x99 | xef => x61
  | xf0 => x17 | xf1 => x2b | xf2 => x04 | xf3 => x7e | xf4 => xba | xf5 => x77 | xf6 => xd6 | xf7 => x26
  | xf8 => xe1 | xf9 => x69 | xfa => x14 | xfb => x63 | xfc => x55 | xfd => x21 | xfe => x0c | xff => x7d
  end.

(* ---------- the four transformations and their inverses ---------- *)

Definition sub_bytes (s : bytes) : bytes := map sbox s.
Definition inv_sub_bytes (s : bytes) : bytes := map inv_sbox s.

(* row r is rotated left by r columns: s'[r, c] = s[r, (c + r) mod 4] *)
Definition shift_rows (s : bytes) : bytes :=
  match s with
  | [s0; s1; s2; s3; s4; s5; s6; s7; s8; s9; s10; s11; s12; s13; s14; s15] =>
    [s0; s5; s10; s15; s4; s9; s14; s3; s8; s13; s2; s7; s12; s1; s6; s11]
  | _ => s
  end.
(* s'[r, (c + r) mod 4] = s[r, c] *)
Definition inv_shift_rows (s : bytes) : bytes :=
  match s with
  | [t0; t1; t2; t3; t4; t5; t6; t7; t8; t9; t10; t11; t12; t13; t14; t15] =>
    [t0; t13; t10; t7; t4; t1; t14; t11; t8; t5; t2; t15; t12; t9; t6; t3]
  | _ => s
  end.

(* one column times the matrix 02 03 01 01 / 01 02 03 01 / 01 01 02 03 / 03 01 01 02 *)
Definition mc0 (a b c d : byte) : byte := bx4 (mul2 a) (mul3 b) c d.
Definition mc1 (a b c d : byte) : byte := bx4 a (mul2 b) (mul3 c) d.
Definition mc2 (a b c d : byte) : byte := bx4 a b (mul2 c) (mul3 d).
Definition mc3 (a b c d : byte) : byte := bx4 (mul3 a) b c (mul2 d).
(* one column times the matrix 0e 0b 0d 09 / 09 0e 0b 0d / 0d 09 0e 0b / 0b 0d 09 0e *)
Definition imc0 (a b c d : byte) : byte := bx4 (mul14 a) (mul11 b) (mul13 c) (mul9 d).
Definition imc1 (a b c d : byte) : byte := bx4 (mul9 a) (mul14 b) (mul11 c) (mul13 d).
Definition imc2 (a b c d : byte) : byte := bx4 (mul13 a) (mul9 b) (mul14 c) (mul11 d).
Definition imc3 (a b c d : byte) : byte := bx4 (mul11 a) (mul13 b) (mul9 c) (mul14 d).

Fixpoint mix_columns (s : bytes) : bytes :=
  match s with
  | a :: b :: c :: d :: r => mc0 a b c d :: mc1 a b c d :: mc2 a b c d :: mc3 a b c d :: mix_columns r
  | _ => s
  end.
Fixpoint inv_mix_columns (s : bytes) : bytes :=
  match s with
  | a :: b :: c :: d :: r => imc0 a b c d :: imc1 a b c d :: imc2 a b c d :: imc3 a b c d :: inv_mix_columns r
  | _ => s
  end.

(* bytewise xor of a with k, over the length of a (bytes of a beyond the end of k are copied) *)
Fixpoint xor_bytes (a k : bytes) : bytes :=
  match a, k with
  | x :: a', y :: k' => bxor x y :: xor_bytes a' k'
  | _, _ => a
  end.
Definition add_round_key (s k : bytes) : bytes := xor_bytes s k.

(* ---------- Cipher and InvCipher (FIPS 197 5.1, 5.3) on a list of round keys w = [w0; w1; ...; wNr] ---------- *)

Definition enc_round (k s : bytes) : bytes := add_round_key (mix_columns (shift_rows (sub_bytes s))) k.
Definition enc_final (k s : bytes) : bytes := add_round_key (shift_rows (sub_bytes s)) k.
Definition dec_round (k s : bytes) : bytes := inv_sub_bytes (inv_shift_rows (inv_mix_columns (add_round_key s k))).
Definition dec_final (k s : bytes) : bytes := inv_sub_bytes (inv_shift_rows (add_round_key s k)).

(* rounds 1 .. Nr: the last one has no MixColumns *)
Fixpoint enc_rounds (ks : list bytes) (s : bytes) : bytes :=
  match ks with
  | [] => s
  | k :: ks' => match ks' with [] => enc_final k s | _ :: _ => enc_rounds ks' (enc_round k s) end
  end.
(* the same round keys, undone from the last to the first *)
Fixpoint dec_rounds (ks : list bytes) (s : bytes) : bytes :=
  match ks with
  | [] => s
  | k :: ks' => match ks' with [] => dec_final k s | _ :: _ => dec_round k (dec_rounds ks' s) end
  end.

Definition aes_block_enc (w : list bytes) (blk : bytes) : bytes :=
  match w with [] => blk | k0 :: ks => enc_rounds ks (add_round_key blk k0) end.
Definition aes_block_dec (w : list bytes) (blk : bytes) : bytes :=
  match w with [] => blk | k0 :: ks => add_round_key (dec_rounds ks blk) k0 end.

(* ---------- KeyExpansion (FIPS 197 5.2) ---------- *)

Definition rot_word (w : bytes) : bytes := match w with a :: r => r ++ [a] | [] => [] end.
Fixpoint words4 (l : bytes) : list bytes :=
  match l with a :: b :: c :: d :: r => [a; b; c; d] :: words4 r | _ => [] end.
Fixpoint group4 (ws : list bytes) : list bytes :=
  match ws with a :: b :: c :: d :: r => (a ++ b ++ c ++ d) :: group4 r | _ => [] end.

(* acc holds w[i-1], w[i-2], ... (latest first); rc is Rcon[i / Nk] = x^(i/Nk - 1), a word rc 00 00 00.
   temp = w[i-1];  i mod Nk = 0: temp = SubWord(RotWord(temp)) xor Rcon;  Nk > 6 and i mod Nk = 4: temp = SubWord(temp);
   w[i] = w[i-Nk] xor temp *)
Fixpoint expand (fuel nk i : nat) (rc : byte) (acc : list bytes) : list bytes :=
  match fuel with
  | O => acc
  | S f =>
    let prev := hd [] acc in
    let old := nth (nk - 1) acc [] in
    let j := Nat.modulo i nk in
    if Nat.eqb j 0 then
      expand f nk (S i) (xtime rc) (xor_bytes old (xor_bytes (map sbox (rot_word prev)) [rc]) :: acc)
    else if Nat.ltb 6 nk && Nat.eqb j 4 then
      expand f nk (S i) rc (xor_bytes old (map sbox prev) :: acc)
    else
      expand f nk (S i) rc (xor_bytes old prev :: acc)
  end.

(* Nk for a key of n bytes: 16 -> 4, 24 -> 6, 32 -> 8.  To stay total, any other length is first padded with x00
   up to the next admissible size (truncated to 32 bytes beyond it); cardutil never gets there: the cryptography
   package rejects such keys (model/Pin.v: key_size_ok). *)
Definition key_nk (n : nat) : nat := if n <=? 16 then 4 else if n <=? 24 then 6 else 8.
Definition norm_key (k : bytes) : bytes :=
  let m := 4 * key_nk (length k) in firstn m (k ++ repeat x00 (m - length k)).

(* the Nr + 1 round keys of 16 bytes, Nr = Nk + 6 *)
Definition key_schedule (k : bytes) : list bytes :=
  let nk := key_nk (length k) in
  group4 (rev (expand (4 * (nk + 7) - nk) nk nk x01 (rev (words4 (norm_key k))))).

(* ---------- ECB ---------- *)

(* f on each of the first n blocks of 16 bytes; what follows is copied *)
Fixpoint ecb_blocks (f : bytes -> bytes) (n : nat) (data : bytes) : bytes :=
  match n with
  | O => data
  | S n' => f (firstn 16 data) ++ ecb_blocks f n' (skipn 16 data)
  end.
Definition ecb (f : bytes -> bytes) (data : bytes) : bytes := ecb_blocks f (length data / 16) data.

(* key bytes -> data -> data.  A trailing partial block (cardutil never passes one: ecb_apply raises first) is
   left as it is. *)
Definition aes_ecb_enc (k data : bytes) : bytes := let w := key_schedule k in ecb (aes_block_enc w) data.
Definition aes_ecb_dec (k data : bytes) : bytes := let w := key_schedule k in ecb (aes_block_dec w) data.
