(* Block.v — model of the file object, Block1014, Unblock1014, block_1014 and unblock_1014 of
   cardutil/mciipm.py (no proofs).  Generic in the payload size B (1012 in the code); block = B + 2. *)
From Coq Require Import List NArith Bool Arith.
From Coq Require Import Strings.Byte.
Require Import CU.model.Prim.
Import ListNotations.

(* ---------- file object: io.BytesIO / a binary file opened for writing or reading ---------- *)
Record fobj := mkf { fdata : bytes; fpos : nat }.
Definition fempty : fobj := mkf [] 0.
Definition fopen (d : bytes) : fobj := mkf d 0.
(* write at the current position: overwrite, extend at the end (zero-fill if beyond the end) *)
Definition fwrite (f : fobj) (b : bytes) : fobj :=
  let d := fdata f in
  let p := fpos f in
  let head := firstn p d ++ repeat x00 (p - length d) in
  mkf (head ++ b ++ skipn (p + length b) d) (p + length b).
Definition fseek (f : fobj) (p : nat) : fobj := mkf (fdata f) p.
(* read(n) *)
Definition fread (f : fobj) (n : nat) : bytes * fobj :=
  let out := firstn n (skipn (fpos f) (fdata f)) in (out, mkf (fdata f) (fpos f + length out)).
(* read() *)
Definition freadall (f : fobj) : bytes * fobj :=
  let out := skipn (fpos f) (fdata f) in (out, mkf (fdata f) (fpos f + length out)).

Definition pad : byte := x40.
Definition trailer : bytes := [pad; pad].

Section Blocking.
Variable B : nat.                       (* payload bytes per block *)

(* ---------- Block1014 ---------- *)
Record blocker := mkb { bfile : fobj; brem : nat }.
Definition binit (f : fobj) : blocker := mkb f B.

(* the `while len(bytes_to_write) > 1012` loop; fuel = length of the argument suffices *)
Fixpoint wloop (fuel : nat) (f : fobj) (b : bytes) : fobj * bytes :=
  match fuel with
  | 0 => (f, b)
  | S k => if B <? length b
           then wloop k (fwrite (fwrite f (firstn B b)) trailer) (skipn B b)
           else (f, b)
  end.

Definition bwrite (s : blocker) (b : bytes) : blocker :=
  if length b <? brem s then mkb (fwrite (bfile s) b) (brem s - length b)
  else
    let f1 := fwrite (fwrite (bfile s) (firstn (brem s) b)) trailer in
    let rest := skipn (brem s) b in
    let '(f2, l) := wloop (length rest) f1 rest in
    mkb (fwrite f2 l) (B - length l).

Definition bfinalise (s : blocker) : blocker :=
  mkb (fwrite (bfile s) (repeat pad (brem s + 2))) B.
Definition bseek (s : blocker) (p : nat) : blocker :=
  let s' := bfinalise s in mkb (fseek (bfile s') p) (brem s').

(* ---------- block_1014(input, output): one-shot ---------- *)
Fixpoint block_loop (fuel : nat) (inp out : fobj) : fobj * fobj :=
  match fuel with
  | 0 => (inp, out)
  | S k =>
    let '(rec, inp') := fread inp B in
    match rec with
    | [] => (inp', out)
    | _ => let rec' := rec ++ repeat pad (B - length rec) in
           block_loop k inp' (fwrite out (rec' ++ trailer))
    end
  end.
(* returns the output file's bytes *)
Definition block_oneshot (d : bytes) : bytes :=
  fdata (snd (block_loop (S (length d)) (fopen d) fempty)).

(* ---------- unblock_1014(input, output): one-shot, validating ---------- *)
Fixpoint unblock_loop (fuel : nat) (inp out : fobj) : result fobj :=
  match fuel with
  | 0 => OutOfFuel
  | S k =>
    let '(rec, inp') := fread inp (B + 2) in
    match rec with
    | [] => Ok out
    | _ => if negb (Nat.eqb (length rec) (B + 2)) then Raise EData
           else if negb (bytes_eqb (lastn 2 rec) trailer) then Raise EData
           else unblock_loop k inp' (fwrite out (firstn B rec))
    end
  end.
Definition unblock_oneshot (d : bytes) : result bytes :=
  do out <- unblock_loop (S (length d)) (fopen d) fempty; Ok (fdata out).

(* ---------- Unblock1014 ---------- *)
Record unblocker := mku { ufile : fobj; ubuf : bytes }.
Definition uinit (f : fobj) : unblocker := mku f [].

Fixpoint refill (fuel : nat) (n : nat) (readall : bool) (f : fobj) (buf : bytes) : result (fobj * bytes) :=
  match fuel with
  | 0 => OutOfFuel
  | S k => if readall || (length buf <=? n) then
             let '(block, f') := fread f (B + 2) in
             match block with
             | [] => Ok (f', buf)                             (* eof *)
             | _ => refill k n readall f' (buf ++ firstn B block)
             end
           else Ok (f, buf)
  end.

(* read(n); n = 0 is "no size given": everything that remains *)
Definition uread (u : unblocker) (n : nat) : result (bytes * unblocker) :=
  let readall := Nat.eqb n 0 in
  do fb <- refill (S (length (fdata (ufile u)) - fpos (ufile u))) n readall (ufile u) (ubuf u);
  let '(f', buf') := fb in
  let k := if readall then length buf' else n in
  Ok (firstn k buf', mku f' (skipn k buf')).

(* a sequence of reads, collecting what each returns *)
Fixpoint ureads (u : unblocker) (ns : list nat) : result (list bytes) :=
  match ns with
  | [] => Ok []
  | n :: r => do x <- uread u n; let '(b, u') := x in do t <- ureads u' r; Ok (b :: t)
  end.

End Blocking.
