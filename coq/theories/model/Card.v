(* Card.v — model of cardutil/card.py (no proofs). *)
From Coq Require Import List NArith ZArith Bool Arith.
Require Import CU.model.Prim CU.model.Unicode.
Import ListNotations.

Inductive mode := Normal | Optimised.       (* python / python -O *)

(* digits = [int(d) for d in card_number if d.isdigit()] *)
Fixpoint digits_of (s : str) : result (list nat) :=
  match s with
  | [] => Ok []
  | c :: r =>
    if is_digit c then
      match decimal_of c with
      | Some d => do ds <- digits_of r; Ok (N.to_nat d :: ds)
      | None => Raise EValue                 (* e.g. int('²') *)
      end
    else digits_of r
  end.

Definition dsum (x : nat) : nat := x / 10 + x mod 10.                  (* sum(divmod(x, 10)) *)
Definition lf (w2 : bool) (d : nat) : nat := dsum ((if w2 then 2 else 1) * d).
(* zip(digits[::-1], cycle([2, 1])): rds = digits from the right, weights 2,1,2,1,... *)
Fixpoint wsum (w2 : bool) (rds : list nat) : nat :=
  match rds with [] => 0 | d :: r => lf w2 d + wsum (negb w2) r end.
Definition calc (ds : list nat) : nat := (wsum true (rev ds) * 9) mod 10.

Definition calculate_check_digit (s : str) : result str :=
  do ds <- digits_of s; Ok [dch (N.of_nat (calc ds))].

(* card_number[0:-1] and card_number[-1] *)
Definition validate_check_digit (m : mode) (s : str) : result unit :=
  match rev s with
  | [] => do _ <- calculate_check_digit []; Raise EIndex          (* ''[-1] *)
  | last :: _ =>
    do c <- calculate_check_digit (removelast s);
    if str_eqb c [last] then Ok tt else Raise EAssert              (* explicit raise: mode is irrelevant *)
  end.

Definition add_check_digit (s : str) : result str :=
  do c <- calculate_check_digit s; Ok (s ++ c).

(* card_number[0:6] + mask_char * (len(card_number)-10) + card_number[-4:] *)
Definition mask (s : str) (mc : str) : str :=
  firstn 6 s ++ concat (repeat mc (length s - 10)) ++ lastn 4 s.
Definition star : str := [42%N].
