(* Codec.v — single-byte text codecs as (partial) tables generated from CPython (no proofs). *)
From Coq Require Import List NArith Bool Arith.
From Coq Require Import Strings.Byte.
Require Import CU.model.Prim CU.gen.GenCodec.
Import ListNotations.

Record codec := mkcodec { ctable : list (option N) }.     (* 256 entries: byte -> code point, None = undefined *)

Definition cdec (c : codec) (b : byte) : option N := nth (N.to_nat (Byte.to_N b)) (ctable c) None.

(* the byte that encodes ch: the LAST table position holding it (CPython's charmap_build lets later entries win;
   only cp875 has a code point — U+001A — at several positions) *)
Fixpoint find_idx (t : list (option N)) (ch : N) (i : N) (acc : option N) : option N :=
  match t with
  | [] => acc
  | Some x :: r => find_idx r ch (i + 1)%N (if (x =? ch)%N then Some i else acc)
  | None :: r => find_idx r ch (i + 1)%N acc
  end.
Definition cenc (c : codec) (ch : N) : option byte := option_map byte_of_N (find_idx (ctable c) ch 0%N None).

(* bytes.decode(encoding) — strict: any undecodable byte raises UnicodeDecodeError *)
Fixpoint decode (c : codec) (b : bytes) : result str :=
  match b with
  | [] => Ok []
  | x :: r => match cdec c x with
              | Some ch => do t <- decode c r; Ok (ch :: t)
              | None => Raise EUnicode
              end
  end.
(* str.encode(encoding) — strict *)
Fixpoint encode (c : codec) (s : str) : result bytes :=
  match s with
  | [] => Ok []
  | ch :: r => match cenc c ch with
               | Some x => do t <- encode c r; Ok (x :: t)
               | None => Raise EUnicode
               end
  end.

(* lookup by Python codec name among the generated tables *)
Fixpoint codec_named_in (l : list (str * list (option N))) (name : str) : option codec :=
  match l with
  | [] => None
  | (n, t) :: r => if str_eqb n name then Some (mkcodec t) else codec_named_in r name
  end.
Definition codec_named (name : str) : option codec := codec_named_in codec_tables name.

(* boolean well-formedness of a table *)
Fixpoint nodup_opt (t : list (option N)) : bool :=
  match t with
  | [] => true
  | None :: r => nodup_opt r
  | Some x :: r => negb (existsb (fun y => match y with Some z => (z =? x)%N | None => false end) r) && nodup_opt r
  end.
Definition codec_okb (c : codec) : bool := Nat.eqb (length (ctable c)) 256.            (* decode (encode s) = s *)
Definition codec_injb (c : codec) : bool := codec_okb c && nodup_opt (ctable c).       (* and encode (decode b) = b *)
