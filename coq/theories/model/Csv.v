(* Csv.v — CPython's csv module as the tools use it (no proofs):
     csv.writer(f, lineterminator="\n")          (mci_ipm_to_csv.dicts_to_csv, mideu.dicts_to_csv: excel dialect, QUOTE_MINIMAL)
     csv.reader(f) / csv.DictReader(f)           (mci_csv_to_ipm: excel dialect, not strict)
   transcribed from Modules/_csv.c (join_append_data, parse_process_char, Reader_iternext) and Lib/csv.py, and the two CSV
   tools on top of them AT TEXT LEVEL.  The transcription is tied to CPython by the correspondence run (C20: random and
   malformed texts through csv.reader, random rows through csv.writer, and the tools' own CSV texts). *)
From Coq Require Import List NArith ZArith Bool Arith.
Require Import CU.model.Prim CU.model.Types CU.model.Unicode CU.model.Codec CU.model.Dates CU.model.Block CU.model.Vbs CU.model.Iso CU.model.Ipm CU.model.Tools.
Import ListNotations.
Open Scope N_scope.

Definition c_comma : N := 44.
Definition c_quote : N := 34.
Definition c_lf : N := 10.
Definition c_cr : N := 13.
Definition csv_field_limit : N := 131072.        (* csv.field_size_limit() default *)

(* ---------- csv.writer(f, lineterminator="\n").writerow ---------- *)
(* join_append_data: a field is quoted when it holds the delimiter, the quote character or a character of the line
   terminator (here only LF: CPython 3.12 does not quote a CR when the terminator is "\n") *)
Definition csv_special (c : N) : bool := (c =? c_comma) || (c =? c_quote) || (c =? c_lf).
Definition csv_escape (s : str) : str := flat_map (fun c => if c =? c_quote then [c_quote; c_quote] else [c]) s.
Definition csv_field (s : str) : str := if existsb csv_special s then c_quote :: csv_escape s ++ [c_quote] else s.
Fixpoint csv_join (fs : list str) : str :=
  match fs with
  | [] => []
  | [f] => f
  | f :: r => f ++ c_comma :: csv_join r
  end.
(* csv_writerow: a record of one empty field is written as "" (an empty line would read back as no fields) *)
Definition csv_row (cells : list str) : str :=
  let rec := csv_join (map csv_field cells) in
  (match cells, rec with _ :: _, [] => [c_quote; c_quote] | _, _ => rec end) ++ [c_lf].
Definition csv_table (rows : list (list str)) : str := flat_map csv_row rows.

(* ---------- csv.reader ---------- *)
Inductive cstate := SRec | SField | SInField | SInQuoted | SQuoteInQuoted | SEatCRNL.
Record rdr := mkrdr {
  r_st : cstate;
  r_fld : str;            (* the field being collected, reversed *)
  r_flen : N;             (* its length (field_len) *)
  r_row : list str        (* the fields of the record so far, reversed *)
}.
Definition rdr0 : rdr := mkrdr SRec [] 0 [].
Definition r_set (r : rdr) (st : cstate) : rdr := mkrdr st (r_fld r) (r_flen r) (r_row r).
(* parse_save_field *)
Definition r_save (r : rdr) (st : cstate) : rdr := mkrdr st [] 0 (rev (r_fld r) :: r_row r).
(* parse_add_char: _csv.Error "field larger than field limit" *)
Definition r_add (r : rdr) (st : cstate) (c : N) : result rdr :=
  if r_flen r <? csv_field_limit then Ok (mkrdr st (c :: r_fld r) (r_flen r + 1) (r_row r)) else Raise EOther.
Definition is_nl (c : N) : bool := (c =? c_lf) || (c =? c_cr).

(* parse_process_char for a character of the line *)
Definition step_char (r : rdr) (c : N) : result rdr :=
  match r_st r with
  | SRec =>
      if is_nl c then Ok (r_set r SEatCRNL)
      else if c =? c_quote then Ok (r_set r SInQuoted)
      else if c =? c_comma then Ok (r_save r SField)
      else r_add r SInField c
  | SField =>
      if is_nl c then Ok (r_save r SEatCRNL)
      else if c =? c_quote then Ok (r_set r SInQuoted)
      else if c =? c_comma then Ok (r_save r SField)
      else r_add r SInField c
  | SInField =>
      if is_nl c then Ok (r_save r SEatCRNL)
      else if c =? c_comma then Ok (r_save r SField)
      else r_add r SInField c
  | SInQuoted =>
      if c =? c_quote then Ok (r_set r SQuoteInQuoted) else r_add r SInQuoted c
  | SQuoteInQuoted =>
      if c =? c_quote then r_add r SInQuoted c
      else if c =? c_comma then Ok (r_save r SField)
      else if is_nl c then Ok (r_save r SEatCRNL)
      else r_add r SInField c                               (* not strict: the character joins the field *)
  | SEatCRNL =>
      if is_nl c then Ok r else Raise EOther                (* _csv.Error "new-line character seen in unquoted field" *)
  end.
(* parse_process_char for the end-of-line event that follows the characters of every line *)
Definition step_eol (r : rdr) : rdr :=
  match r_st r with
  | SRec => r
  | SField | SInField | SQuoteInQuoted => r_save r SRec
  | SInQuoted => r
  | SEatCRNL => r_set r SRec
  end.
Definition st_eqb (a b : cstate) : bool :=
  match a, b with
  | SRec, SRec | SField, SField | SInField, SInField | SInQuoted, SInQuoted | SQuoteInQuoted, SQuoteInQuoted | SEatCRNL, SEatCRNL => true
  | _, _ => false
  end.

(* list(csv.reader(f)) over the text of f, whose lines end at LF: one pass; after every LF (and at the end of a last line
   without one) comes the end-of-line event; a record is complete when the state is back at SRec after an end of line;
   when the lines run out inside a quoted field the field collected so far closes the last record (Reader_iternext).
   `mid`: characters of the current line have been seen.  `acc`: the finished records, reversed. *)
Fixpoint csv_go (t : str) (r : rdr) (mid : bool) (acc : list (list str)) : result (list (list str)) :=
  match t with
  | [] =>
      let r' := if mid then step_eol r else r in
      match r_st r' with
      | SInQuoted => Ok (rev (rev (r_row (r_save r' SRec)) :: acc))
      | _ => if mid then Ok (rev (rev (r_row r') :: acc)) else Ok (rev acc)
      end
  | c :: t' =>
      do r1 <- step_char r c;
      if c =? c_lf then
        let r2 := step_eol r1 in
        if st_eqb (r_st r2) SRec then csv_go t' rdr0 false (rev (r_row r2) :: acc) else csv_go t' r2 false acc
      else csv_go t' r1 true acc
  end.
Definition csv_parse (t : str) : result (list (list str)) := csv_go t rdr0 false [].

(* a text file opened with newline=None (open(name, 'r')): CRLF and CR read as LF *)
Fixpoint universal_nl (t : str) : str :=
  match t with
  | [] => []
  | c :: t' => if c =? c_cr then c_lf :: (match t' with d :: t'' => if d =? c_lf then universal_nl t'' else universal_nl t' | [] => [] end)
               else c :: universal_nl t'
  end.
Close Scope N_scope.

(* ---------- column names ---------- *)
Definition n_MTI : str := [77; 84; 73]%N.
Definition n_DE : str := [68; 69]%N.
Definition n_PDS : str := [80; 68; 83]%N.
Definition n_TAG : str := [84; 65; 71]%N.
Definition n_ICC : str := [73; 67; 67; 95; 68; 65; 84; 65]%N.
Definition starts (p s : str) : bool := str_eqb (firstn (length p) s) p.
(* the dictionary key a column name is ("DE" + the plain decimal numeral of n is the key of element n) *)
Definition key_of_name (s : str) : key :=
  if str_eqb s n_MTI then KMTI
  else if str_eqb s n_ICC then KICC
  else if starts n_DE s && negb (Nat.eqb (length s) 2) && Nat.leb (length s) 6 && all_ascii_digits (skipn 2 s)
          && str_eqb (str_of_N (num_of (skipn 2 s))) (skipn 2 s)
       then KDE (N.to_nat (num_of (skipn 2 s)))
  else if starts n_PDS s then KPDS (skipn 3 s)
  else if starts n_TAG s then KTAG (skipn 3 s)
  else KOther s.
Definition name_of_key (k : key) : str :=
  match k with
  | KMTI => n_MTI
  | KDE n => n_DE ++ str_of_N (N.of_nat n)
  | KPDS t => n_PDS ++ t
  | KTAG t => n_TAG ++ t
  | KICC => n_ICC
  | KOther s => s
  end.

(* ---------- the tools at text level ---------- *)
Section CsvTools.
Variable B : nat.
Variable maxlen : N.

(* csv.DictReader: dict(zip(fieldnames, row)) - a repeated name keeps its first place and its last value -, then the
   tool's `{k: v for k, v in row.items() if v}`.  A row with MORE cells than names puts them under the key None, on which
   the encoder fails with AttributeError: outside the model. *)
Definition zip_dict (names cells : list str) : dict :=
  fold_left (fun d kc => dset d (key_of_name (fst kc)) (VStr (snd kc))) (combine names cells) [].
Definition csv_record (names cells : list str) : result dict :=
  if Nat.ltb (length names) (length cells) then Unmodelled
  else Ok (filter (fun kv => match snd kv with VStr [] => false | _ => true end) (zip_dict names cells)).
Fixpoint csv_records (names : list str) (rows : list (list str)) : result (list dict) :=
  match rows with
  | [] => Ok []
  | [] :: t => csv_records names t                          (* DictReader skips rows without fields *)
  | r :: t => do d <- csv_record names r; do ds <- csv_records names t; Ok (d :: ds)
  end.
(* mci_csv_to_ipm(in_csv, out_ipm, config, out_encoding, no1014blocking) on the text of in_csv *)
Definition csv_text_to_ipm (cfg : cfgT) (cd : codec) (blocked : bool) (text : str) : result bytes :=
  do rows <- csv_parse text;
  match rows with
  | [] => ipm_file B cfg cd blocked []
  | names :: rest => do recs <- csv_records names rest; ipm_file B cfg cd blocked recs
  end.

(* mci_ipm_to_csv / mideu extract with the column list `cols`: the text written to out_csv *)
Fixpoint all_cells (row : list (option str)) : result (list str) :=
  match row with
  | [] => Ok []
  | Some s :: t => do u <- all_cells t; Ok (s :: u)
  | None :: _ => Unmodelled                                  (* repr() of a bytes value *)
  end.
Fixpoint all_rows (rows : list (list (option str))) : result (list (list str)) :=
  match rows with
  | [] => Ok []
  | r :: t => do c <- all_cells r; do u <- all_rows t; Ok (c :: u)
  end.
Definition ipm_to_csv_text (cfg : cfgT) (cd : codec) (blocked : bool) (cols : list key) (file : bytes) : result str :=
  do rows <- ipm_to_rows B maxlen cfg cd blocked cols file;
  do cells <- all_rows rows;
  Ok (csv_table (map name_of_key cols :: cells)).
End CsvTools.
