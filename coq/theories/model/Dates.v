(* Dates.v — the part of datetime.strptime / strftime (format(dt, fmt)) that the model executes:
   formats made only of the directives %y %Y %m %d %H %M %S (each at most once), on strings of ASCII digits
   of exactly the full width.  Everything else answers Unmodelled (never a made-up value).  No proofs. *)
From Coq Require Import List NArith Bool Arith.
Require Import CU.model.Prim CU.model.Types.
Import ListNotations.
Open Scope N_scope.

Inductive dirv := Dy | DY | Dm | Dd | DH | DM | DS.
Definition dirv_eqb (a b : dirv) : bool :=
  match a, b with Dy, Dy | DY, DY | Dm, Dm | Dd, Dd | DH, DH | DM, DM | DS, DS => true | _, _ => false end.

Definition dir_of_char (c : N) : option dirv :=
  if c =? 121 then Some Dy else if c =? 89 then Some DY else if c =? 109 then Some Dm else if c =? 100 then Some Dd
  else if c =? 72 then Some DH else if c =? 77 then Some DM else if c =? 83 then Some DS else None.

(* "%y%m%d" -> [Dy; Dm; Dd]; None: the format uses anything else (literals, other directives) *)
Fixpoint parse_fmt (f : str) : option (list dirv) :=
  match f with
  | [] => Some []
  | p :: c :: r => if p =? 37 then
                     match dir_of_char c, parse_fmt r with
                     | Some d, Some t => Some (d :: t)
                     | _, _ => None
                     end
                   else None
  | _ => None
  end.
Fixpoint nodup_dirs (l : list dirv) : bool :=
  match l with [] => true | d :: r => negb (existsb (dirv_eqb d) r) && nodup_dirs r end.
(* %y and %Y together are not modelled either *)
Definition fmt_ok (l : list dirv) : bool :=
  nodup_dirs l && negb (existsb (dirv_eqb Dy) l && existsb (dirv_eqb DY) l).

Definition dwidth (d : dirv) : nat := match d with DY => 4 | _ => 2 end.

Definition is_leap (y : N) : bool := ((y mod 4 =? 0) && negb (y mod 100 =? 0)) || (y mod 400 =? 0).
Definition days_in_month (y m : N) : N :=
  if (m =? 4) || (m =? 6) || (m =? 9) || (m =? 11) then 30
  else if m =? 2 then (if is_leap y then 29 else 28) else 31.
Definition valid_dt (d : datetime) : bool :=
  (1 <=? dt_Y d) && (dt_Y d <=? 9999) && (1 <=? dt_m d) && (dt_m d <=? 12) && (1 <=? dt_d d)
  && (dt_d d <=? days_in_month (dt_Y d) (dt_m d)) && (dt_H d <=? 23) && (dt_M d <=? 59) && (dt_S d <=? 59).

(* ---------- strftime ---------- *)
Definition fmt_dir (d : dirv) (t : datetime) : str :=
  match d with
  | Dy => map dch (digs 2 (dt_Y t mod 100))
  | DY => map dch (digs 4 (dt_Y t))
  | Dm => map dch (digs 2 (dt_m t))
  | Dd => map dch (digs 2 (dt_d t))
  | DH => map dch (digs 2 (dt_H t))
  | DM => map dch (digs 2 (dt_M t))
  | DS => map dch (digs 2 (dt_S t))
  end.
(* format(dt, fmt): modelled for years 1000..9999 (platform strftime pads smaller years differently) *)
Definition strftime_m (fmt : str) (t : datetime) : result str :=
  match parse_fmt fmt with
  | Some ds => if fmt_ok ds && (1000 <=? dt_Y t) && (dt_Y t <=? 9999) then Ok (flat_map (fun d => fmt_dir d t) ds) else Unmodelled
  | None => Unmodelled
  end.

(* ---------- strptime ---------- *)
Definition all_ascii_digits (s : str) : bool := forallb (fun c => (48 <=? c) && (c <=? 57)) s.
Definition num_of (s : str) : N := Prim.value (map (fun c => c - 48) s).

Record partial := mkp { pY : option N; pm : option N; pd : option N; pH : option N; pM : option N; pS : option N }.
Definition pempty := mkp None None None None None None.

(* the regex alternatives of each directive, restricted to full-width matches *)
Definition dir_accepts (d : dirv) (v : N) : bool :=
  match d with
  | Dy | DY => true
  | Dm => (1 <=? v) && (v <=? 12)
  | Dd => (1 <=? v) && (v <=? 31)
  | DH => v <=? 23
  | DM => v <=? 59
  | DS => v <=? 61
  end.
Definition pset (p : partial) (d : dirv) (v : N) : partial :=
  match d with
  | Dy => mkp (Some (if v <=? 68 then 2000 + v else 1900 + v)) (pm p) (pd p) (pH p) (pM p) (pS p)
  | DY => mkp (Some v) (pm p) (pd p) (pH p) (pM p) (pS p)
  | Dm => mkp (pY p) (Some v) (pd p) (pH p) (pM p) (pS p)
  | Dd => mkp (pY p) (pm p) (Some v) (pH p) (pM p) (pS p)
  | DH => mkp (pY p) (pm p) (pd p) (Some v) (pM p) (pS p)
  | DM => mkp (pY p) (pm p) (pd p) (pH p) (Some v) (pS p)
  | DS => mkp (pY p) (pm p) (pd p) (pH p) (pM p) (Some v)
  end.
Fixpoint scan (ds : list dirv) (s : str) (p : partial) : option partial :=   (* None = ValueError *)
  match ds with
  | [] => Some p
  | d :: r => let v := num_of (firstn (dwidth d) s) in
              if dir_accepts d v then scan r (skipn (dwidth d) s) (pset p d v) else None
  end.
Definition dflt (o : option N) (d : N) : N := match o with Some v => v | None => d end.

(* datetime.strptime(s, fmt): Ok dt | Raise EValue | Unmodelled *)
Definition strptime_m (fmt : str) (s : str) : result datetime :=
  match parse_fmt fmt with
  | None => Unmodelled
  | Some ds =>
    if negb (fmt_ok ds) then Unmodelled
    else if negb (all_ascii_digits s && Nat.eqb (length s) (list_sum (map dwidth ds))) then Unmodelled
    else match scan ds s pempty with
         | None => Raise EValue
         | Some p =>
           let t := mkdt (dflt (pY p) 1900) (dflt (pm p) 1) (dflt (pd p) 1) (dflt (pH p) 0) (dflt (pM p) 0) (dflt (pS p) 0) in
           if valid_dt t then Ok t else Raise EValue
         end
  end.

(* "YYYY-MM-DD HH:MM:SS" (what dateutil / fromisoformat are given by the CSV tools): Some dt, or None = not canonical *)
Definition parse_iso (s : str) : option datetime :=
  match s with
  | [y1; y2; y3; y4; 45; m1; m2; 45; d1; d2; 32; h1; h2; 58; n1; n2; 58; s1; s2] =>
    if all_ascii_digits [y1; y2; y3; y4; m1; m2; d1; d2; h1; h2; n1; n2; s1; s2] then
      let t := mkdt (num_of [y1; y2; y3; y4]) (num_of [m1; m2]) (num_of [d1; d2]) (num_of [h1; h2]) (num_of [n1; n2]) (num_of [s1; s2]) in
      if valid_dt t then Some t else None
    else None
  | _ => None
  end.
(* str(datetime) for microsecond = 0 *)
Definition iso_of (t : datetime) : str :=
  map dch (digs 4 (dt_Y t)) ++ [45] ++ map dch (digs 2 (dt_m t)) ++ [45] ++ map dch (digs 2 (dt_d t)) ++ [32]
  ++ map dch (digs 2 (dt_H t)) ++ [58] ++ map dch (digs 2 (dt_M t)) ++ [58] ++ map dch (digs 2 (dt_S t)).

(* The other plain ISO 8601 spellings of a date-time that dateutil.parser.parse and datetime.fromisoformat (3.12) both
   read, with the same meaning: 'T' instead of the blank, no seconds (= second 0), the date alone (= midnight).
   iso_canon: the canonical 19-character text of one of the five spellings; None: another length, or something other
   than a blank / 'T' at index 10.  (The fields themselves are checked by parse_iso on the canonical text.) *)
Definition iso_sep (c : N) : bool := (c =? 32) || (c =? 84).
Definition iso_canon (s : str) : option str :=
  match length s with
  | 10%nat => Some (s ++ [32; 48; 48; 58; 48; 48; 58; 48; 48])
  | 16%nat => if iso_sep (nth 10 s 0) then Some (firstn 10 s ++ [32] ++ skipn 11 s ++ [58; 48; 48]) else None
  | 19%nat => if iso_sep (nth 10 s 0) then Some (firstn 10 s ++ [32] ++ skipn 11 s) else None
  | _ => None
  end.
Definition parse_iso_any (s : str) : option datetime :=
  match iso_canon s with Some c => parse_iso c | None => None end.
Close Scope N_scope.
