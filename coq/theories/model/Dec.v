(* Dec.v — the plain fixed-point sub-domain of Python's decimal.Decimal, as text (no proofs).
   A Decimal value is carried through the ISO8583 model BY ITS TEXT (`VStr (str(d))`); this file has
   the constructor from text (`decimal.Decimal(s)`), `str(d)` and `format(d, '0<w>f')` for decimals whose
   exponent is <= 0.  Everything else (exponent notation, Infinity / NaN, underscores, non-ASCII
   characters) is outside: `DUnmodelled`. *)
From Coq Require Import List NArith ZArith Bool Arith.
Require Import CU.model.Prim CU.model.Unicode.
Import ListNotations.

(* Decimal.as_tuple(): sign, digits (values 0..9, most significant first; zero is the single digit 0),
   exponent = - d_scale *)
Record dec := mkdec { d_neg : bool; d_digits : list N; d_scale : nat }.

Inductive dparse :=
| DPlain (d : dec)        (* a plain numeral: [sign] digits [. digits] *)
| DInvalid                (* decimal.InvalidOperation (ConversionSyntax), decided *)
| DUnmodelled.            (* anything this model does not decide *)

Open Scope N_scope.

Definition chr_dot : N := 46.
Definition is_dig (c : N) : bool := (48 <=? c) && (c <=? 57).             (* ASCII '0'..'9' *)
Definition dig_val (c : N) : N := c - 48.

(* the characters of a plain numeral *)
Definition plain_char (c : N) : bool := is_dig c || (c =? chr_plus) || (c =? chr_minus) || (c =? chr_dot).
(* other ASCII characters that occur in SOME valid Decimal literal: '_' (removed by the constructor) and the
   letters of e/E exponents, inf, infinity, nan, snan in either case: a e f i n s t y *)
Definition lower_ascii (c : N) : N := if (65 <=? c) && (c <=? 90) then c + 32 else c.
Definition literal_letter (c : N) : bool :=
  existsb (N.eqb (lower_ascii c)) [97; 101; 102; 105; 110; 115; 116; 121].
Definition maybe_char (c : N) : bool := plain_char c || (c =? chr_us) || literal_letter c.
Definition is_ascii (c : N) : bool := c <? 128.

(* longest prefix of ASCII digits, and the rest *)
Fixpoint span_digits (s : str) : str * str :=
  match s with
  | c :: r => if is_dig c then let '(a, b) := span_digits r in (c :: a, b) else ([], s)
  | [] => ([], [])
  end.

Fixpoint drop_zeros (l : list N) : list N :=
  match l with
  | 0 :: r => drop_zeros r
  | _ => l
  end.
Definition norm_coeff (l : list N) : list N := match drop_zeros l with [] => [0] | l' => l' end.

(* a text over the plain characters only (already stripped): the numeral, or invalid *)
Definition parse_plain (t : str) : dparse :=
  let '(neg, body) := match t with
                      | c :: r => if c =? chr_minus then (true, r) else if c =? chr_plus then (false, r) else (false, t)
                      | [] => (false, [])
                      end in
  let '(ip, rest) := span_digits body in
  let finish (fr : str) :=
    match ip ++ fr with
    | [] => DInvalid                                   (* no digit at all: '', '+', '.', '-.' *)
    | ds => DPlain (mkdec neg (norm_coeff (map dig_val ds)) (length fr))
    end in
  match rest with
  | [] => finish []
  | c :: r => if (c =? chr_dot) && forallb is_dig r then finish r else DInvalid    (* second dot / inner sign *)
  end.

(* decimal.Decimal(s) for a str.  The constructor strips what str.strip() strips (str.isspace characters, not
   the smaller set of int()), then removes underscores, maps every Unicode decimal digit to ASCII and parses.
   Decided here, on the stripped text t:
     - a non-ASCII character anywhere in t: not decided (it may be white space outside the table of
       Unicode.v, or a decimal digit of another script, which Python accepts);
     - otherwise an ASCII character that occurs in no valid literal (inner white space, NUL, '$', 'x', ...): invalid;
     - otherwise only sign / digit / dot characters: the plain grammar decides (numeral or invalid);
     - otherwise (letters of exponent / inf / nan forms, underscores): not decided. *)
Definition dec_parse (s : str) : dparse :=
  let t := strip s in
  if negb (forallb is_ascii t) then DUnmodelled
  else if negb (forallb maybe_char t) then DInvalid
  else if forallb plain_char t then parse_plain t
  else DUnmodelled.

Close Scope N_scope.

(* integer part and fraction digits: the coefficient padded with zeros on the left to scale + 1 digits, cut `scale`
   digits from the right *)
Definition dec_body (d : dec) : list N := repeat 0%N (S (d_scale d) - length (d_digits d)) ++ d_digits d.
Definition dec_int_part (d : dec) : list N := firstn (length (dec_body d) - d_scale d) (dec_body d).
Definition dec_frac_part (d : dec) : list N := skipn (length (dec_body d) - d_scale d) (dec_body d).
(* the unsigned fixed-point text: integer part, and if scale > 0 a '.' and exactly scale digits *)
Definition dec_text (d : dec) : str :=
  map dch (dec_int_part d) ++ match d_scale d with O => [] | S _ => chr_dot :: map dch (dec_frac_part d) end.
Definition dec_sign (d : dec) : str := if d_neg d then [chr_minus] else [].

(* str(d) when Python prints it without exponent notation: exponent <= 0 (always here) and adjusted exponent
   (length digits - 1 - scale) >= -6; None otherwise ('1E-7', '0E-7') *)
Definition dec_str (d : dec) : option str :=
  if d_scale d <=? length (d_digits d) + 5 then Some (dec_sign d ++ dec_text d) else None.

(* format(d, '0<w>f') for w >= 1: sign-aware zero padding to at least w characters; never exponent notation *)
Definition dec_fmt (w : nat) (d : dec) : str :=
  let body := dec_text d in
  let sg := dec_sign d in
  sg ++ repeat chr_zero (w - (length sg + length body)) ++ body.

(* decimal.Decimal(z) for an int *)
Definition dec_of_Z (z : Z) : dec := mkdec (z <? 0)%Z (dec_digits (Z.abs_N z)) 0.

(* digits are digit values; no leading zero unless the coefficient is the single digit 0 *)
Definition wf_decb (d : dec) : bool :=
  forallb (fun x => (x <? 10)%N) (d_digits d) &&
  match d_digits d with
  | [] => false
  | [_] => true
  | x :: _ => negb (x =? 0)%N
  end.
