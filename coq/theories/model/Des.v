(* Des.v — executable model of the Data Encryption Standard (FIPS 46-3) and of two/three-key Triple-DES
   (TDEA, FIPS 46-3 / SP 800-67) in ECB mode.  Definitions only (no proofs): the inverse and length laws are in
   proofs/DesProofs.v, the known-answer vectors too.
   Bits are booleans, most significant bit first, and FIPS numbers them from 1: every table below is the list of
   1-based positions exactly as printed in the standard, read row by row. *)
From Coq Require Import List Bool Arith.
From Coq Require Import Strings.Byte.
Require Import CU.model.Prim.
Import ListNotations.
Open Scope nat_scope.

Definition bits := list bool.

(* ---------- bytes <-> bits, most significant bit first (Byte.to_bits / of_bits are least significant first) ---------- *)
Definition bits_of_byte (b : byte) : bits :=
  let '(b0, (b1, (b2, (b3, (b4, (b5, (b6, b7))))))) := Byte.to_bits b in [b7; b6; b5; b4; b3; b2; b1; b0].
Definition bits_of_bytes (l : bytes) : bits := flat_map bits_of_byte l.
(* eight bits at a time; fewer than eight trailing bits are dropped *)
Fixpoint bytes_of_bits (l : bits) : bytes :=
  match l with
  | b7 :: b6 :: b5 :: b4 :: b3 :: b2 :: b1 :: b0 :: r =>
      Byte.of_bits (b0, (b1, (b2, (b3, (b4, (b5, (b6, b7))))))) :: bytes_of_bits r
  | _ => []
  end.

(* ---------- the tables of FIPS 46-3 ---------- *)

(* initial permutation IP *)
Definition IP : list nat :=
  [58; 50; 42; 34; 26; 18; 10; 2;
   60; 52; 44; 36; 28; 20; 12; 4;
   62; 54; 46; 38; 30; 22; 14; 6;
   64; 56; 48; 40; 32; 24; 16; 8;
   57; 49; 41; 33; 25; 17;  9; 1;
   59; 51; 43; 35; 27; 19; 11; 3;
   61; 53; 45; 37; 29; 21; 13; 5;
   63; 55; 47; 39; 31; 23; 15; 7].

(* final permutation IP^-1 *)
Definition FP : list nat :=
  [40; 8; 48; 16; 56; 24; 64; 32;
   39; 7; 47; 15; 55; 23; 63; 31;
   38; 6; 46; 14; 54; 22; 62; 30;
   37; 5; 45; 13; 53; 21; 61; 29;
   36; 4; 44; 12; 52; 20; 60; 28;
   35; 3; 43; 11; 51; 19; 59; 27;
   34; 2; 42; 10; 50; 18; 58; 26;
   33; 1; 41;  9; 49; 17; 57; 25].

(* E bit-selection table: 32 -> 48 bits *)
Definition Etab : list nat :=
  [32;  1;  2;  3;  4;  5;
    4;  5;  6;  7;  8;  9;
    8;  9; 10; 11; 12; 13;
   12; 13; 14; 15; 16; 17;
   16; 17; 18; 19; 20; 21;
   20; 21; 22; 23; 24; 25;
   24; 25; 26; 27; 28; 29;
   28; 29; 30; 31; 32;  1].

(* permutation P: 32 -> 32 bits *)
Definition Ptab : list nat :=
  [16;  7; 20; 21;
   29; 12; 28; 17;
    1; 15; 23; 26;
    5; 18; 31; 10;
    2;  8; 24; 14;
   32; 27;  3;  9;
   19; 13; 30;  6;
   22; 11;  4; 25].

(* permuted choice 1: 64 -> 56 bits (drops the parity bits 8, 16, ..., 64) *)
Definition PC1 : list nat :=
  [57; 49; 41; 33; 25; 17;  9;
    1; 58; 50; 42; 34; 26; 18;
   10;  2; 59; 51; 43; 35; 27;
   19; 11;  3; 60; 52; 44; 36;
   63; 55; 47; 39; 31; 23; 15;
    7; 62; 54; 46; 38; 30; 22;
   14;  6; 61; 53; 45; 37; 29;
   21; 13;  5; 28; 20; 12;  4].

(* permuted choice 2: 56 -> 48 bits *)
Definition PC2 : list nat :=
  [14; 17; 11; 24;  1;  5;
    3; 28; 15;  6; 21; 10;
   23; 19; 12;  4; 26;  8;
   16;  7; 27; 20; 13;  2;
   41; 52; 31; 37; 47; 55;
   30; 40; 51; 45; 33; 48;
   44; 49; 39; 56; 34; 53;
   46; 42; 50; 36; 29; 32].

(* number of left shifts in iterations 1..16 of the key schedule *)
Definition shifts : list nat := [1; 1; 2; 2; 2; 2; 2; 2; 1; 2; 2; 2; 2; 2; 2; 1].

(* selection functions S1..S8: 4 rows (0..3) of 16 columns (0..15), row after row *)
Definition S1 : list nat :=
  [14;  4; 13;  1;  2; 15; 11;  8;  3; 10;  6; 12;  5;  9;  0;  7;
    0; 15;  7;  4; 14;  2; 13;  1; 10;  6; 12; 11;  9;  5;  3;  8;
    4;  1; 14;  8; 13;  6;  2; 11; 15; 12;  9;  7;  3; 10;  5;  0;
   15; 12;  8;  2;  4;  9;  1;  7;  5; 11;  3; 14; 10;  0;  6; 13].
Definition S2 : list nat :=
  [15;  1;  8; 14;  6; 11;  3;  4;  9;  7;  2; 13; 12;  0;  5; 10;
    3; 13;  4;  7; 15;  2;  8; 14; 12;  0;  1; 10;  6;  9; 11;  5;
    0; 14;  7; 11; 10;  4; 13;  1;  5;  8; 12;  6;  9;  3;  2; 15;
   13;  8; 10;  1;  3; 15;  4;  2; 11;  6;  7; 12;  0;  5; 14;  9].
Definition S3 : list nat :=
  [10;  0;  9; 14;  6;  3; 15;  5;  1; 13; 12;  7; 11;  4;  2;  8;
   13;  7;  0;  9;  3;  4;  6; 10;  2;  8;  5; 14; 12; 11; 15;  1;
   13;  6;  4;  9;  8; 15;  3;  0; 11;  1;  2; 12;  5; 10; 14;  7;
    1; 10; 13;  0;  6;  9;  8;  7;  4; 15; 14;  3; 11;  5;  2; 12].
Definition S4 : list nat :=
  [ 7; 13; 14;  3;  0;  6;  9; 10;  1;  2;  8;  5; 11; 12;  4; 15;
   13;  8; 11;  5;  6; 15;  0;  3;  4;  7;  2; 12;  1; 10; 14;  9;
   10;  6;  9;  0; 12; 11;  7; 13; 15;  1;  3; 14;  5;  2;  8;  4;
    3; 15;  0;  6; 10;  1; 13;  8;  9;  4;  5; 11; 12;  7;  2; 14].
Definition S5 : list nat :=
  [ 2; 12;  4;  1;  7; 10; 11;  6;  8;  5;  3; 15; 13;  0; 14;  9;
   14; 11;  2; 12;  4;  7; 13;  1;  5;  0; 15; 10;  3;  9;  8;  6;
    4;  2;  1; 11; 10; 13;  7;  8; 15;  9; 12;  5;  6;  3;  0; 14;
   11;  8; 12;  7;  1; 14;  2; 13;  6; 15;  0;  9; 10;  4;  5;  3].
Definition S6 : list nat :=
  [12;  1; 10; 15;  9;  2;  6;  8;  0; 13;  3;  4; 14;  7;  5; 11;
   10; 15;  4;  2;  7; 12;  9;  5;  6;  1; 13; 14;  0; 11;  3;  8;
    9; 14; 15;  5;  2;  8; 12;  3;  7;  0;  4; 10;  1; 13; 11;  6;
    4;  3;  2; 12;  9;  5; 15; 10; 11; 14;  1;  7;  6;  0;  8; 13].
Definition S7 : list nat :=
  [ 4; 11;  2; 14; 15;  0;  8; 13;  3; 12;  9;  7;  5; 10;  6;  1;
   13;  0; 11;  7;  4;  9;  1; 10; 14;  3;  5; 12;  2; 15;  8;  6;
    1;  4; 11; 13; 12;  3;  7; 14; 10; 15;  6;  8;  0;  5;  9;  2;
    6; 11; 13;  8;  1;  4; 10;  7;  9;  5;  0; 15; 14;  2;  3; 12].
Definition S8 : list nat :=
  [13;  2;  8;  4;  6; 15; 11;  1; 10;  9;  3; 14;  5;  0; 12;  7;
    1; 15; 13;  8; 10;  3;  7;  4; 12;  5;  6; 11;  0; 14;  9;  2;
    7; 11;  4;  1;  9; 12; 14;  2;  0;  6; 10; 13; 15;  3;  5;  8;
    2;  1; 14;  7;  4; 10;  8; 13; 15; 12;  9;  0;  3;  5;  6; 11].
Definition sboxes : list (list nat) := [S1; S2; S3; S4; S5; S6; S7; S8].

(* ---------- bit-level operations ---------- *)

(* output bit j is input bit tbl[j] (1-based) *)
Definition permute (tbl : list nat) (x : bits) : bits := map (fun i => nth (i - 1) x false) tbl.

(* bitwise exclusive or, as long as its first argument (where the second runs out the first is kept) *)
Fixpoint lxor (a b : bits) : bits :=
  match a, b with
  | x :: a', y :: b' => xorb x y :: lxor a' b'
  | _, _ => a
  end.

Definition b2n (b : bool) : nat := if b then 1 else 0.
(* the four bits of a number 0..15, most significant first *)
Definition nibble_bits (n : nat) : bits := [Nat.testbit n 3; Nat.testbit n 2; Nat.testbit n 1; Nat.testbit n 0].

(* one selection function on a 6-bit block b1..b6: row = b1 b6, column = b2 b3 b4 b5 *)
Definition sbox (tbl : list nat) (b1 b2 b3 b4 b5 b6 : bool) : bits :=
  let row := 2 * b2n b1 + b2n b6 in
  let col := 8 * b2n b2 + 4 * b2n b3 + 2 * b2n b4 + b2n b5 in
  nibble_bits (nth (16 * row + col) tbl 0).

(* S1(B1) S2(B2) ... S8(B8) on successive 6-bit blocks *)
Fixpoint sbox_layer (tbls : list (list nat)) (x : bits) : bits :=
  match tbls, x with
  | t :: ts, b1 :: b2 :: b3 :: b4 :: b5 :: b6 :: r => sbox t b1 b2 b3 b4 b5 b6 ++ sbox_layer ts r
  | _, _ => []
  end.

(* the cipher function f(R, K) = P(S1(B1) ... S8(B8)) where B1 ... B8 = K xor E(R) *)
Definition feistel_f (r k : bits) : bits := permute Ptab (sbox_layer sboxes (lxor (permute Etab r) k)).

(* ---------- key schedule: sixteen 48-bit subkeys K1..K16 from a 64-bit key ---------- *)
Definition rotl (n : nat) (l : bits) : bits := skipn n l ++ firstn n l.
Fixpoint key_rounds (sh : list nat) (c d : bits) : list bits :=
  match sh with
  | [] => []
  | s :: sh' => let c' := rotl s c in let d' := rotl s d in permute PC2 (c' ++ d') :: key_rounds sh' c' d'
  end.
Definition subkeys (key64 : bits) : list bits :=
  let cd := permute PC1 key64 in key_rounds shifts (firstn 28 cd) (skipn 28 cd).

(* ---------- the Feistel network ---------- *)

(* L_n = R_(n-1),  R_n = L_(n-1) xor f(R_(n-1), K_n)   — for any round function f *)
Definition feistel_round (f : bits -> bits -> bits) (lr : bits * bits) (k : bits) : bits * bits :=
  (snd lr, lxor (fst lr) (f (snd lr) k)).
Fixpoint feistel (f : bits -> bits -> bits) (ks : list bits) (lr : bits * bits) : bits * bits :=
  match ks with
  | [] => lr
  | k :: ks' => feistel f ks' (feistel_round f lr k)
  end.

(* IP, the rounds under the given subkeys in the given order, the pre-output block R16 L16, IP^-1 *)
Definition des_core (ks : list bits) (block64 : bits) : bits :=
  let x := permute IP block64 in
  let lr := feistel feistel_f ks (firstn 32 x, skipn 32 x) in
  permute FP (snd lr ++ fst lr).

(* deciphering is the same computation with K16 used first and K1 last *)
Definition des_block (decrypt : bool) (key64 block64 : bits) : bits :=
  let ks := subkeys key64 in des_core (if decrypt then rev ks else ks) block64.

(* ---------- byte level: total functions ---------- *)

(* a key that is not 8 bytes long is padded with x00 / truncated to 8 bytes *)
Definition des_key (k : bytes) : bits := bits_of_bytes (firstn 8 (k ++ repeat x00 8)).
Definition enc_sched (k : bytes) : list bits := subkeys (des_key k).
Definition dec_sched (k : bytes) : list bits := rev (subkeys (des_key k)).

(* one block under a ready key schedule; a block that is not 8 bytes long is returned unchanged *)
Definition des_with (ks : list bits) (b : bytes) : bytes :=
  if Nat.eqb (length b) 8 then bytes_of_bits (des_core ks (bits_of_bytes b)) else b.

Definition des_enc (k b : bytes) : bytes := des_with (enc_sched k) b.
Definition des_dec (k b : bytes) : bytes := des_with (dec_sched k) b.

(* ---------- Triple-DES ---------- *)

(* keying options of SP 800-67: 24 bytes = K1 K2 K3, 16 bytes = K1 K2 with K3 = K1, 8 bytes = K1 = K2 = K3
   (single DES, as the cryptography package accepts); any other length is zero-padded / truncated to 24 bytes *)
Definition tdes_keys (k : bytes) : bytes * bytes * bytes :=
  if Nat.eqb (length k) 8 then (k, k, k)
  else if Nat.eqb (length k) 16 then (firstn 8 k, skipn 8 k, firstn 8 k)
  else let k' := firstn 24 (k ++ repeat x00 24) in (firstn 8 k', firstn 8 (skipn 8 k'), skipn 16 k').

(* ECB: f on successive 8-byte blocks; a trailing partial block is copied unchanged *)
Fixpoint ecb8 (f : bytes -> bytes) (x : bytes) : bytes :=
  match x with
  | a :: b :: c :: d :: e :: g :: h :: i :: r => f [a; b; c; d; e; g; h; i] ++ ecb8 f r
  | _ => x
  end.

(* one block: encipher E_K3(D_K2(E_K1 b)), decipher D_K1(E_K2(D_K3 b)) *)
Definition tdes_block_enc (k1 k2 k3 b : bytes) : bytes := des_enc k3 (des_dec k2 (des_enc k1 b)).
Definition tdes_block_dec (k1 k2 k3 b : bytes) : bytes := des_dec k1 (des_enc k2 (des_dec k3 b)).

(* the same two functions under ready key schedules (each schedule is computed once for all blocks) *)
Definition tdes_with (s1 s2 s3 : list bits) (b : bytes) : bytes := des_with s3 (des_with s2 (des_with s1 b)).

Definition tdes_ecb_enc (k x : bytes) : bytes :=
  let '(k1, k2, k3) := tdes_keys k in
  let s1 := enc_sched k1 in let s2 := dec_sched k2 in let s3 := enc_sched k3 in
  ecb8 (tdes_with s1 s2 s3) x.
Definition tdes_ecb_dec (k x : bytes) : bytes :=
  let '(k1, k2, k3) := tdes_keys k in
  let s3 := dec_sched k3 in let s2 := enc_sched k2 in let s1 := dec_sched k1 in
  ecb8 (tdes_with s3 s2 s1) x.
