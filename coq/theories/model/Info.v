(* Info.v — model of ipm_info / block_1014_check / bitmap_check / encoding_check of cardutil/mciipm.py (no proofs). *)
From Coq Require Import List NArith Bool Arith.
From Coq Require Import Strings.Byte.
Require Import CU.model.Prim CU.model.Types CU.model.Unicode CU.model.Codec CU.model.Block CU.model.Iso.
Import ListNotations.

Inductive encguess := GLatin1 | GCp037 | GUnknown.
Inductive info :=
| Invalid (reason : nat)       (* 1: fewer than 24 bytes; 2: first length above the maximum; 3: bitmap uses an unconfigured element *)
| Valid (blocked : bool) (enc : encguess).

Definition sample_size : nat := 2500.

(* block_1014_check on the sample *)
Definition block_check (B : nat) (s : bytes) : bool :=
  if length s <? B + 2 then false
  else if bytes_eqb (slice B (B + 2) s) trailer then
         if Nat.eqb (length s) (B + 2) then true
         else if (2 * (B + 2) <=? length s) && bytes_eqb (slice (2 * B + 2) (2 * B + 4) s) trailer then true
         else false
       else false.

(* bitmap_check: every set bit 2..128 must have a configuration entry *)
Definition bitmap_ok (cfg : cfgT) (bm : bytes) : bool :=
  let bits := bits_of_bytes bm in
  forallb (fun i => negb (nth i bits false) || match cfg_get cfg (S i) with Some _ => true | None => false end)
          (seq 1 (length bits - 1)).

(* str.isnumeric() of a decoded MTI: non-empty and every character numeric *)
Definition numeric_under (c : codec) (b : bytes) : bool :=
  match decode c b with
  | Ok s => match s with [] => false | _ => forallb is_numeric s end
  | _ => false
  end.
Definition encoding_check (latin1 cp037 : codec) (mti : bytes) : encguess :=
  if numeric_under latin1 mti then GLatin1 else if numeric_under cp037 mti then GCp037 else GUnknown.

Definition ipm_info (B : nat) (cfg : cfgT) (maxlen : N) (latin1 cp037 : codec) (file : bytes) : info :=
  let s := firstn sample_size file in
  if length s <? 24 then Invalid 1
  else if (maxlen <? unbe (firstn 4 s))%N then Invalid 2
  else if negb (bitmap_ok cfg (slice 8 24 s)) then Invalid 3
  else Valid (block_check B s) (encoding_check latin1 cp037 (slice 4 8 s)).
