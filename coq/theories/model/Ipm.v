(* Ipm.v — model of IpmReader / IpmWriter of cardutil/mciipm.py (no proofs): VBS framing + ISO8583 codec. *)
From Coq Require Import List NArith Bool Arith.
From Coq Require Import Strings.Byte.
Require Import CU.model.Prim CU.model.Types CU.model.Codec CU.model.Block CU.model.Vbs CU.model.Iso.
Import ListNotations.

Section Ipm.
Variable B : nat.
Variable maxlen : N.
Variable cfg : cfgT.
Variable cd : codec.

Inductive iout :=
| IRec (d : dict)
| IStop
| IErr (recno : nat) (ctx : bytes).

(* IpmReader.__next__: VbsReader.__next__, then iso8583.loads; a library error from loads is re-raised as
   MciIpmDataError carrying last_record and the number of the record just read *)
Definition inext (r : reader) : result (reader * iout) :=
  do x <- rnext B maxlen r;
  let '(r', o) := x in
  match o with
  | RStop => Ok (r', IStop)
  | RErr n ctx => Ok (r', IErr n ctx)
  | RRec rec =>
    match loads cfg cd false rec with
    | Ok d => Ok (r', IRec d)
    | Raise EData => Ok (r', IErr (rrecno r' - 1) (match rlast r' with Some b => b | None => [] end))
    | Raise e => Raise e
    | OutOfFuel => OutOfFuel
    | Unmodelled => Unmodelled
    end
  end.

Fixpoint iread_all_fuel (fuel : nat) (r : reader) (acc : list dict) : result (list dict * rend) :=
  match fuel with
  | 0 => OutOfFuel
  | S k =>
    do x <- inext r;
    let '(r', o) := x in
    match o with
    | IRec d => iread_all_fuel k r' (acc ++ [d])
    | IStop => Ok (acc, End)
    | IErr n ctx => Ok (acc, ErrData n ctx)
    end
  end.
Definition iread_all (file : bytes) (blocked : bool) : result (list dict * rend) :=
  iread_all_fuel (S (length file)) (rinit file blocked) [].

(* a consumer that keeps the SAME reader after a data error and goes on calling next() until StopIteration:
     while True:
         try: d = next(reader)            -> EvRec d
         except MciIpmDataError as ex: ... -> EvErr ex.record_number ex.binary_context_data
         except StopIteration: break
   every call reads at least one byte or stops, so the file length + 1 bounds the number of events *)
Inductive ievent := EvRec (d : dict) | EvErr (recno : nat) (ctx : bytes).
Fixpoint ievents_fuel (fuel : nat) (r : reader) (acc : list ievent) : result (list ievent) :=
  match fuel with
  | 0 => OutOfFuel
  | S k =>
    do x <- inext r;
    let '(r', o) := x in
    match o with
    | IRec d => ievents_fuel k r' (acc ++ [EvRec d])
    | IStop => Ok acc
    | IErr n ctx => ievents_fuel k r' (acc ++ [EvErr n ctx])
    end
  end.
Definition ievents (file : bytes) (blocked : bool) : result (list ievent) :=
  ievents_fuel (S (length file)) (rinit file blocked) [].

(* IpmWriter.write(obj) *)
Definition iwrite (w : writer) (m : dict) : result writer :=
  do b <- dumps cfg cd false m; Ok (wwrite B w b).
Fixpoint iwrite_many (w : writer) (ms : list dict) : result writer :=
  match ms with [] => Ok w | m :: r => do w' <- iwrite w m; iwrite_many w' r end.
(* with IpmWriter(f, blocked=...) as w: w.write_many(ms) *)
Definition ipm_file (blocked : bool) (ms : list dict) : result bytes :=
  do w <- iwrite_many (winit B fempty blocked) ms; Ok (file_of (wclose B w)).
End Ipm.
