(* Iso.v — model of cardutil/iso8583.py and cardutil/BitArray.py as used by it (no proofs).
   Mirrors the code of the current /repo function by function; exceptions are values of `result`. *)
From Coq Require Import List NArith ZArith Bool Arith.
From Coq Require Import Strings.Byte.
Require Import CU.model.Prim CU.model.Types CU.model.Unicode CU.model.Regex CU.model.Codec CU.model.Card CU.model.Dates CU.model.Dec.
Import ListNotations.

(* ---------- BitArray: 128 flags <-> 16 bytes, most significant bit first ---------- *)
Definition bits_of_byte (b : byte) : list bool :=
  let n := Byte.to_N b in
  map (fun i => N.testbit n i) [7; 6; 5; 4; 3; 2; 1; 0]%N.
Definition bits_of_bytes (bs : bytes) : list bool := flat_map bits_of_byte bs.
Definition N_of_bits (l : list bool) : N := fold_left (fun a (b : bool) => (2 * a + if b then 1 else 0)%N) l 0%N.
Fixpoint bytes_of_bits (l : list bool) : bytes :=
  match l with
  | b7 :: b6 :: b5 :: b4 :: b3 :: b2 :: b1 :: b0 :: r => byte_of_N (N_of_bits [b7; b6; b5; b4; b3; b2; b1; b0]) :: bytes_of_bits r
  | _ => []
  end.

(* ---------- value helpers ---------- *)
Definition truthy (v : value) : bool :=            (* `if v or v == 0` in _dict_to_iso8583 *)
  match v with VStr [] => false | VBytes [] => false | _ => true end.

(* ---------- _pytype_to_string ---------- *)
Definition pytype_to_string (v : value) (c : fieldcfg) : result value :=
  match f_ptype c with
  | PTStr => Ok v
  | PTInt =>
    match f_len c with
    | None => Unmodelled
    | Some w =>
      match v with
      | VInt z => Ok (VStr (fmt0Z w z))
      | VStr s => match py_int s with Some z => Ok (VStr (fmt0Z w z)) | None => Raise EValue end
      | VBytes _ => Unmodelled
      | VDate _ => Raise EType
      end
    end
  | PTDec =>                                   (* format(decimal.Decimal(v), '0' + str(w) + 'f'); a Decimal is its text *)
    match f_len c with
    | None => Unmodelled
    | Some w =>
      (* the Decimal is built first, then formatted: '00f' is "ValueError: invalid format string" *)
      let fmt (d : dec) : result value := match w with O => Raise EValue | S _ => Ok (VStr (dec_fmt w d)) end in
      match v with
      | VStr s => match dec_parse s with
                  | DPlain d => fmt d
                  | DInvalid => Raise EOther   (* decimal.InvalidOperation: an ArithmeticError, not caught by dumps *)
                  | DUnmodelled => Unmodelled
                  end
      | VInt z => fmt (dec_of_Z z)
      | VBytes _ => Unmodelled
      | VDate _ => Raise EType                 (* conversion from datetime.datetime to Decimal is not supported *)
      end
    end
  | PTDate =>
    match v with
    | VDate d => do s <- strftime_m (f_datefmt c) d; Ok (VStr s)
    | VStr s => match parse_iso_any s with      (* _get_date_from_string: the plain ISO 8601 spellings only *)
                | Some d => do t <- strftime_m (f_datefmt c) d; Ok (VStr t)
                | None => Unmodelled
                end
    | _ => Unmodelled
    end
  end.

(* format(s[:n], '<' + str(n)) *)
Definition ljust (n : nat) (s : str) : str := firstn n s ++ repeat chr_space (n - length s).

(* ---------- _field_to_iso8583 ---------- *)
Definition field_to_iso (c : fieldcfg) (v : value) (cd : codec) : result bytes :=
  do fv <- pytype_to_string v c;
  let ls := psize (f_type c) in
  match fv with
  | VStr s =>
    if 0 <? ls then
      let n := length s in
      if (10 ^ N.of_nat ls <=? N.of_nat n)%N then Raise EData
      else do p <- encode cd (fmt0 ls (N.of_nat n)); do b <- encode cd (ljust n s); Ok (p ++ b)
    else match f_len c with
         | Some n => encode cd (ljust n s)
         | None => Unmodelled
         end
  | VBytes b =>
    if 0 <? ls then
      let n := length b in
      if (10 ^ N.of_nat ls <=? N.of_nat n)%N then Raise EData
      else do p <- encode cd (fmt0 ls (N.of_nat n)); Ok (p ++ b)
    else match f_len c with
         | Some n => Ok (firstn n b)
         | None => Unmodelled
         end
  | _ => Raise EType                       (* len() / slicing of an int or datetime *)
  end.

(* ---------- _pds_to_de ---------- *)
(* insertion sort of (tag-suffix, value) by the key string ("PDS" ++ suffix: same order as the suffixes) *)
Fixpoint ins (x : str * value) (l : list (str * value)) : list (str * value) :=
  match l with
  | [] => [x]
  | y :: r => if str_leb (fst x) (fst y) then x :: l else y :: ins x r
  end.
Definition sort_pds (l : list (str * value)) : list (str * value) := fold_right ins [] l.

Definition pds_entries (m : dict) : list (str * value) :=
  flat_map (fun kv => match fst kv with KPDS t => [(t, snd kv)] | _ => [] end) m.

(* f'{tag:04}{length:03}{value}' *)
Definition pds_sub (tag : Z) (v : str) : str := fmt0Z 4 tag ++ fmt0 3 (N.of_nat (length v)) ++ v.

Fixpoint pds_pack (l : list (str * value)) (output : str) (outputs : list str) : result (list str) :=
  match l with
  | [] => Ok (match output with [] => outputs | _ => outputs ++ [output] end)
  | (t, v) :: r =>
    match py_int t with
    | None => Raise EValue
    | Some tag =>
      match v with
      | VStr s =>
        let add := pds_sub tag s in
        if 999 <? length (output ++ add) then pds_pack r add (outputs ++ [output])
        else pds_pack r (output ++ add) outputs
      | VInt _ => Raise EType               (* len(int) *)
      | _ => Unmodelled                     (* f-string of bytes / datetime *)
      end
    end
  end.
Definition pds_to_de (m : dict) : result (list str) := pds_pack (sort_pds (pds_entries m)) [] [].

(* ---------- _pds_to_dict ---------- *)
Fixpoint pds_walk (fuel : nat) (fd : str) (ptr : nat) (acc : dict) : result dict :=
  match fuel with
  | 0 => OutOfFuel
  | S k =>
    if ptr <? length fd then
      let tag := slice ptr (ptr + 4) fd in
      match py_int (slice (ptr + 4) (ptr + 7) fd) with
      | None => Raise EData
      | Some L =>
        if (L <? 0)%Z then Raise EData
        else let n := Z.to_nat L in
             pds_walk k fd (ptr + 7 + n) (dset acc (KPDS tag) (VStr (slice (ptr + 7) (ptr + 7 + n) fd)))
      end
    else Ok acc
  end.
Definition pds_to_dict (fd : str) : result dict := pds_walk (S (length fd)) fd 0 [].

(* ---------- _icc_to_dict ---------- *)
Definition two_byte_prefix (b : byte) : bool := Byte.eqb b x9f || Byte.eqb b x5f.
Fixpoint icc_walk (fuel : nat) (fd : bytes) (ptr : nat) (acc : dict) : result dict :=
  match fuel with
  | 0 => OutOfFuel
  | S k =>
    if ptr <? length fd then
      let t1 := slice ptr (ptr + 1) fd in
      let '(tag, ptr1) := match t1 with
                          | [b] => if two_byte_prefix b then (slice ptr (ptr + 2) fd, ptr + 2) else (t1, ptr + 1)
                          | _ => (t1, ptr + 1)
                          end in
      let disp := hexlify tag in
      if str_eqb disp [48; 48]%N then Ok acc                        (* low values tag: stop *)
      else match slice ptr1 (ptr1 + 1) fd with
           | [lb] =>
             let n := N.to_nat (Byte.to_N lb) in
             icc_walk k fd (ptr1 + 1 + n)
                      (dset acc (KTAG (upper disp)) (VStr (hexlify (slice (ptr1 + 1) (ptr1 + n + 1) fd))))
           | _ => Raise EData                                        (* missing length byte *)
           end
    else Ok acc
  end.
Definition icc_to_dict (fd : bytes) : result dict :=
  icc_walk (S (length fd)) fd 0 [(KICC, VStr (hexlify fd))].

(* ---------- _string_to_pytype ---------- *)
Definition string_to_pytype (s : str) (c : fieldcfg) : result value :=
  match f_ptype c with
  | PTStr => Ok (VStr s)
  | PTInt => match py_int s with Some z => Ok (VInt z) | None => Raise EValue end
  | PTDec =>                                   (* decimal.Decimal(s), returned as its text str(d) *)
    match dec_parse s with
    | DPlain d => match dec_str d with Some t => Ok (VStr t) | None => Unmodelled end   (* None: exponent notation *)
    | DInvalid => Raise EValue                 (* decimal.InvalidOperation: caught by the caller with ValueError *)
    | DUnmodelled => Unmodelled
    end
  | PTDate => do d <- strptime_m (f_datefmt c) s; Ok (VDate d)
  end.

(* ---------- _iso8583_to_field: returns (entries, increment) ---------- *)
Definition to_edata {A} (r : result A) : result A := catch r (fun _ => true) EData.

Definition iso_to_field (bit : nat) (c : fieldcfg) (data : bytes) (cd : codec) : result (dict * nat) :=
  match f_len c with
  | None => Raise EKey                                   (* bit_config['field_length'] *)
  | Some fl0 =>
    let ls := psize (f_type c) in
    do fl <- (if 0 <? ls then
                do s <- catch (decode cd (firstn ls data)) (exn_eqb EUnicode) EData;
                match py_int s with
                | None => Raise EData
                | Some z => if (z <? 0)%Z then Raise EData else Ok (Z.to_nat z)
                end
              else Ok fl0);
    let raw := slice ls (ls + fl) data in
    match f_proc c with
    | PICC =>
      match f_ptype c with
      | PTStr =>
        do sub <- icc_to_dict raw;
        Ok (dupdate [(KDE bit, VBytes raw)] sub, fl + ls)
      | _ => Unmodelled                                  (* int(bytes) etc. *)
      end
    | p =>
      do s0 <- catch (decode cd raw) (exn_eqb EUnicode) EData;
      let s := match p with PPAN => mask s0 star | PPANPREFIX => firstn 9 s0 | _ => s0 end in
      do v <- catch (string_to_pytype s c) is_valueerror EData;
      match p with
      | PPDS =>
        match v with
        | VStr t => do sub <- pds_to_dict t; Ok (dupdate [(KDE bit, v)] sub, fl + ls)
        | _ => Unmodelled
        end
      | PDE43 =>                                          (* return_values.update(_get_de43_fields(value, config)) *)
        match v with
        | VStr t =>
          match de43_fields (f_de43 c) t with
          | Some gs => Ok (dupdate [(KDE bit, v)] (map (fun nv => (KOther (fst nv), VStr (snd nv))) gs), fl + ls)
          | None => Unmodelled                             (* a pattern outside the modelled regex fragment *)
          end
        | _ => match f_de43 c with
               | D43None => Ok ([(KDE bit, v)], fl + ls)    (* `if not processor_config: return dict()` *)
               | _ => Raise EType                          (* re.match on an int / datetime: TypeError *)
               end
        end
      | _ => Ok ([(KDE bit, v)], fl + ls)
      end
    end
  end.

(* ---------- _iso8583_to_dict ---------- *)
Fixpoint dec_fields (cfg : cfgT) (cd : codec) (present : nat -> bool) (bits : list nat)
         (data : bytes) (ptr : nat) (acc : dict) : result (dict * nat) :=
  match bits with
  | [] => Ok (acc, ptr)
  | b :: bs =>
    if present b then
      match cfg_get cfg b with
      | None => Raise EData                               (* no bit config *)
      | Some c =>
        do x <- iso_to_field b c (skipn ptr data) cd;
        let '(entries, inc) := x in
        dec_fields cfg cd present bs data (ptr + inc) (dupdate acc entries)
      end
    else dec_fields cfg cd present bs data ptr acc
  end.

Definition bit_range : list nat := seq 2 126.           (* range(2, 128) *)
Definition ascii_str (b : bytes) : str := map Byte.to_N b.

Definition loads (cfg : cfgT) (cd : codec) (hexbm : bool) (msg : bytes) : result dict :=
  let hdr := if hexbm then 36 else 20 in
  if length msg <? hdr then Raise EData                   (* struct.error *)
  else
    let mti_raw := firstn 4 msg in
    do bitmap <- (if hexbm then match unhexlify (ascii_str (slice 4 36 msg)) with
                                | Some b => Ok b
                                | None => Raise EData    (* binascii.Error *)
                                end
                  else Ok (slice 4 20 msg));
    let data := skipn hdr msg in
    do mti <- catch (decode cd mti_raw) (exn_eqb EUnicode) EData;
    match py_int mti with
    | None => Raise EData
    | Some _ =>
      let bl := bits_of_bytes bitmap in
      let present := fun b => nth (b - 1) bl false in
      do r <- dec_fields cfg cd present bit_range data 0 [(KMTI, VStr mti)];
      let '(d, ptr) := r in
      if Nat.eqb ptr (length data) then Ok d else Raise EData
    end.

(* ---------- _dict_to_iso8583 ---------- *)
Definition pds_bits (cfg : cfgT) : list nat :=             (* ascending: what successive pop()s return *)
  filter (fun b => match cfg_get cfg b with Some c => proc_eqb (f_proc c) PPDS | None => false end)
         (seq 0 200).
(* NB: the code sorts the configured keys; keys outside 0..199 cannot be bitmap elements anyway *)

Fixpoint assign_pds (m : dict) (chunks : list str) (fields : list nat) : result dict :=
  match chunks with
  | [] => Ok m
  | c :: cs => match fields with
               | [] => Raise EIndex                        (* pop from empty list *)
               | f :: fs => assign_pds (dset m (KDE f) (VStr c)) cs fs
               end
  end.

Fixpoint enc_fields (cfg : cfgT) (cd : codec) (m : dict) (bits : list nat) : result (list nat * bytes) :=
  match bits with
  | [] => Ok ([], [])
  | b :: bs =>
    match lookup m (KDE b) with
    | Some v =>
      if truthy v then
        match cfg_get cfg b with
        | None => Raise EKey
        | Some c => do e <- field_to_iso c v cd;
                    do r <- enc_fields cfg cd m bs;
                    Ok (b :: fst r, e ++ snd r)
        end
      else enc_fields cfg cd m bs
    | None => enc_fields cfg cd m bs
    end
  end.

Definition bitmap_of (present : list nat) : bytes :=
  bytes_of_bits (map (fun i => Nat.eqb i 1 || existsb (Nat.eqb i) present) (seq 1 128)).

Definition dumps (cfg : cfgT) (cd : codec) (hexbm : bool) (m : dict) : result bytes :=
  do chunks <- pds_to_de m;
  do m1 <- assign_pds m chunks (pds_bits cfg);
  do r <- enc_fields cfg cd m1 bit_range;
  let bm := bitmap_of (fst r) in
  let bmb := if hexbm then map byte_of_N (hexlify bm) else bm in
  do mti <- match lookup m (KMTI) with
            | Some (VStr []) | None => Ok []
            | Some (VStr s) => encode cd s
            | Some (VBytes []) => Ok []
            | Some _ => Unmodelled
            end;
  Ok (mti ++ bmb ++ snd r).
