(* Param.v — model of IpmParamReader (cardutil/mciipm.py) and of the column handling of the tool function
   mci_ipm_param_to_csv (cardutil/cli/mci_ipm_param_to_csv.py).  Executable definitions only (no proofs).

   The model works on what VbsReader delivers: the list of VBS records of the file and the way the
   iteration over them ended (Vbs.read_all : list bytes * rend).  Framing itself is modelled in Vbs.v / Block.v. *)
From Coq Require Import List NArith Bool Arith.
From Coq Require Import Strings.Byte.
Require Import CU.model.Prim CU.model.Codec CU.model.Block CU.model.Vbs.
Import ListNotations.

(* ---------- configuration: config['mci_parameter_tables'] ---------- *)
(* table name -> ordered dict of field name -> {"start": s, "end": e} (same shape as GenConfig.packaged_param_tables) *)
Definition playout := list (str * (nat * nat)).
Definition playouts := list (str * playout).

(* param_config.get(table_id) *)
Fixpoint playout_get (ls : playouts) (t : str) : option playout :=
  match ls with
  | [] => None
  | (n, l) :: r => if str_eqb n t then Some l else playout_get r t
  end.

(* ---------- an ordered dict of str -> str (the record returned by __next__) ---------- *)
Definition prow := list (str * str).
(* d[k] = v : an existing key keeps its position and gets the new value, a new key goes last *)
Fixpoint prow_set (k v : str) (d : prow) : prow :=
  match d with
  | [] => [(k, v)]
  | (k', v') :: r => if str_eqb k' k then (k', v) :: r else (k', v') :: prow_set k v r
  end.
(* d.get(k) *)
Fixpoint prow_get (k : str) (d : prow) : option str :=
  match d with
  | [] => None
  | (k', v') :: r => if str_eqb k' k then Some v' else prow_get k r
  end.

(* ---------- string constants ---------- *)
(* 'IP0000T1' *)
Definition k_ip0000t1 : str := [73; 80; 48; 48; 48; 48; 84; 49]%N.
(* 'TRAILER RECORD IP0000T1' *)
Definition k_trailer : str :=
  [84; 82; 65; 73; 76; 69; 82; 32; 82; 69; 67; 79; 82; 68; 32; 73; 80; 48; 48; 48; 48; 84; 49]%N.
(* 'table_id', 'effective_timestamp', 'active_inactive_code' *)
Definition k_table_id : str := [116; 97; 98; 108; 101; 95; 105; 100]%N.
Definition k_effective_timestamp : str :=
  [101; 102; 102; 101; 99; 116; 105; 118; 101; 95; 116; 105; 109; 101; 115; 116; 97; 109; 112]%N.
Definition k_active_inactive_code : str :=
  [97; 99; 116; 105; 118; 101; 95; 105; 110; 97; 99; 116; 105; 118; 101; 95; 99; 111; 100; 101]%N.

(* s.startswith(p) *)
Fixpoint starts_with (p s : str) : bool :=
  match p, s with
  | [], _ => true
  | _ :: _, [] => false
  | x :: p', y :: s' => N.eqb x y && starts_with p' s'
  end.

(* ---------- the table index: dict sub-id -> table id; the newest assignment is kept in front ---------- *)
Definition pindex := list (str * str).
Definition pindex_get (ix : pindex) (k : str) : option str := prow_get k ix.

(* __init__, "load the table index": consumes records up to and including the trailer record.
   Some rest = trailer found, rest = the records after it; None = the records ran out first. *)
Fixpoint load_index (c : codec) (recs : list bytes) (ix : pindex) : result (pindex * option (list bytes)) :=
  match recs with
  | [] => Ok (ix, None)
  | r :: rest =>
    do t <- decode c r;                                          (* vbs_record.decode(self.encoding) *)
    let ix' := if str_eqb (slice 11 19 t) k_ip0000t1
               then (slice 243 246 t, slice 19 27 t) :: ix       (* table_index[sub id] = table id *)
               else ix in
    if starts_with k_trailer t then Ok (ix', Some rest)
    else load_index c rest ix'
  end.

(* ---------- __next__ ---------- *)
(* how the iteration over the reader ended: StopIteration, or an exception out of __next__ *)
Inductive pend := PEnd | PRaise (e : exn).

(* the loop `for field in self.param_config[record_table_id]: record_dict[field] = self._get_param_field(record, field)`
   off = 0 (expanded) or 8 (compressed, field_offset = -8); slices are taken on the bytes and then decoded *)
Fixpoint param_fields (c : codec) (off : nat) (r : bytes) (lay : playout) (d : prow) : result prow :=
  match lay with
  | [] => Ok d
  | (f, (s, e)) :: rest =>
    do v <- decode c (slice (s - off) (e - off) r);
    param_fields c off r rest (prow_set f v d)
  end.

Definition pend_of_rend (e : rend) : pend := match e with End => PEnd | ErrData _ _ => PRaise EData end.

(* one record: None = not a row of the requested table (the `while True` loop goes on), Some d = the row *)
Definition param_row (c : codec) (table : str) (lay : playout) (expanded : bool) (ix : pindex) (r : bytes)
  : result (option prow) :=
  do tid <- (if expanded then do t <- decode c (slice 11 19 r); Ok (Some t)
             else do k <- decode c (slice 8 11 r); Ok (pindex_get ix k));
  do ts <- decode c (if expanded then slice 0 10 r else slice 0 7 r);
  do code <- decode c (if expanded then slice 10 11 r else slice 7 8 r);
  match tid with
  | None => Ok None
  | Some t =>
    if str_eqb t table then
      do d <- param_fields c (if expanded then 0 else 8) r lay
                [(k_table_id, t); (k_effective_timestamp, ts); (k_active_inactive_code, code)];
      Ok (Some d)
    else Ok None
  end.

(* list(reader): the rows delivered before the iteration ends, and how it ends *)
Fixpoint param_rows (c : codec) (table : str) (lay : playout) (expanded : bool) (ix : pindex)
                    (recs : list bytes) (e : rend) : list prow * pend :=
  match recs with
  | [] => ([], pend_of_rend e)                (* StopIteration, or VbsReader's MciIpmDataError *)
  | r :: rest =>
    match param_row c table lay expanded ix r with
    | Ok None => param_rows c table lay expanded ix rest e
    | Ok (Some d) => let '(ds, pe) := param_rows c table lay expanded ix rest e in (d :: ds, pe)
    | Raise x => ([], PRaise x)
    | OutOfFuel => ([], PRaise EOther)        (* not reachable: nothing here is fuelled *)
    | Unmodelled => ([], PRaise EOther)       (* not reachable: decided before the first record *)
    end
  end.

(* compressed rows are read with field_offset = -8: a position below 8 becomes a negative index (Python counts
   it from the end of the record).  Such layouts are outside the modelled domain in compressed mode. *)
Definition layout_modelled (expanded : bool) (lay : playout) : bool :=
  expanded || forallb (fun f => (8 <=? fst (snd f)) && (8 <=? snd (snd f))) lay.

(* IpmParamReader(file, table_id, encoding, param_config, expanded) followed by list(reader).
   recs, e: what VbsReader delivers for the file (Vbs.read_all).
   Raise ... = the constructor raised; Ok (rows, end) = rows delivered and how the iteration ended. *)
Definition param_read (ls : playouts) (c : codec) (table : str) (expanded : bool)
                      (recs : list bytes) (e : rend) : result (list prow * pend) :=
  match playout_get ls table with
  | None => Raise EData                               (* `if not self.param_config.get(table_id)` *)
  | Some [] => Raise EData                            (* an empty dict is falsy as well *)
  | Some lay =>
    if negb (layout_modelled expanded lay) then Unmodelled
    else
      do x <- load_index c recs [];
      let '(ix, rest) := x in
      match rest with
      | None => Raise EData                           (* a framing error or 'missing IP0000T1 trailer record' *)
      | Some rest => Ok (param_rows c table lay expanded ix rest e)
      end
  end.

(* ---------- mci_ipm_param_to_csv: the columns handed to csv.DictWriter ---------- *)
(* fieldnames = ["table_id", "effective_timestamp", "active_inactive_code"] + list(config[table_id].keys()) *)
Definition param_fieldnames (lay : playout) : list str :=
  [k_table_id; k_effective_timestamp; k_active_inactive_code] ++ map fst lay.
(* DictWriter._dict_to_list with extrasaction="ignore", restval="" *)
Definition param_cells (names : list str) (d : prow) : list str :=
  map (fun k => match prow_get k d with Some v => v | None => [] end) names.
(* header row, cell rows written before the end, and how writerows ended (csv quoting is the csv module's business) *)
Definition param_to_csv (ls : playouts) (c : codec) (table : str) (expanded : bool)
                        (recs : list bytes) (e : rend) : result (list str * list (list str) * pend) :=
  do x <- param_read ls c table expanded recs e;
  let '(rows, pe) := x in
  match playout_get ls table with
  | Some lay => let names := param_fieldnames lay in Ok (names, map (param_cells names) rows, pe)
  | None => Raise EKey
  end.
