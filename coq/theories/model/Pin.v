(* Pin.v — model of cardutil/pinblock.py and cardutil/key.py (no proofs).
   The string and integer manipulations follow the Python text line by line (hex string -> big integer ->
   xor -> bytes).  The external ciphers (cryptography's TripleDES / AES in ECB mode) are not modelled as
   code: every function that calls one takes it as an argument  F : key bytes -> data bytes -> bytes. *)
From Coq Require Import List NArith ZArith Bool Arith.
From Coq Require Import Strings.Byte.
Require Import CU.model.Prim CU.model.Unicode.
Import ListNotations.

(* ---------- Python primitives used by the two modules ---------- *)

(* s[-a:-b] for literals a, b > 0: start = max(len-a, 0), stop = max(len-b, 0)  (nat subtraction truncates) *)
Definition py_slice_neg {A} (a b : nat) (s : list A) : list A := slice (length s - a) (length s - b) s.

(* f'{s:c<w}' : pad on the right with c up to width w *)
Definition pad_right (c : N) (w : nat) (s : str) : str := s ++ repeat c (w - length s).

Open Scope N_scope.

(* the w low-order hex digits of n, most significant first *)
Fixpoint hexdigs (w : nat) (n : N) : list N :=
  match w with O => [] | S w' => hexdigs w' (n / 16) ++ [n mod 16] end.
Fixpoint hex_aux (fuel : nat) (n : N) (acc : list N) : list N :=
  match fuel with
  | O => acc
  | S f => if n <? 16 then n :: acc else hex_aux f (n / 16) (n mod 16 :: acc)
  end.
Definition hex_digits (n : N) : list N := hex_aux (S (N.size_nat n)) n [].
(* format(n, 'x') for n >= 0 *)
Definition fmt_x (n : N) : str := map hexch (hex_digits n).
(* f'{n:0<w>x}' for n >= 0 *)
Definition fmt_0x (w : nat) (n : N) : str :=
  if n <? 16 ^ N.of_nat w then map hexch (hexdigs w n) else fmt_x n.

(* int(s, 16).  A non-empty string of hex digits has its value; the empty string and every string with an
   ASCII character that int() can never accept raise ValueError.  Characters that int() may accept or strip
   (whitespace, '_', sign, the x of a 0x prefix, any non-ASCII character: Unicode digits and spaces) are
   outside the modelled domain. *)
Definition is_hex (c : N) : bool := match hexval c with Some _ => true | None => false end.
Definition int16_maybe (c : N) : bool :=
  (128 <=? c) || ((9 <=? c) && (c <=? 13)) || ((28 <=? c) && (c <=? 32))
  || (c =? 95) || (c =? 43) || (c =? 45) || (c =? 120) || (c =? 88).
Definition hexnum (s : str) : N :=
  fold_left (fun a c => a * 16 + match hexval c with Some v => v | None => 0 end) s 0.
Definition py_int16 (s : str) : result N :=
  match s with
  | [] => Raise EValue
  | _ =>
    if forallb is_hex s then Ok (hexnum s)
    else if existsb (fun c => negb (is_hex c) && negb (int16_maybe c)) s then Raise EValue
    else Unmodelled
  end.

(* n.to_bytes(w, 'big') for n >= 0; OverflowError (no constructor of its own) is EOther *)
Fixpoint be_bytes (w : nat) (n : N) : bytes :=
  match w with O => [] | S w' => be_bytes w' (n / 256) ++ [byte_of_N n] end.
Definition int_to_bytes (w : nat) (n : N) : result bytes :=
  if n <? 256 ^ N.of_nat w then Ok (be_bytes w n) else Raise EOther.

(* binascii.unhexlify(s) for a str: non-ASCII -> ValueError, odd length / non-hex -> binascii.Error *)
Definition unhexlify_str (s : str) : result bytes :=
  if existsb (fun c => 128 <=? c) s then Raise EValue
  else match unhexlify s with Some b => Ok b | None => Raise EBinascii end.

Definition c0 : N := 48.   Definition c4 : N := 52.
Definition cf : N := 102.  Definition ca : N := 97.

(* ---------- Iso0PinBlock ---------- *)

(* rightmost_12 = self.card_number[-13:-1]
   p1 = f'{"0" + format(len(self.pin), "x") + self.pin:f<16}'
   p2 = f'0000{rightmost_12}'
   pin_block = int(p1, 16) ^ int(p2, 16)
   return pin_block.to_bytes(8, byteorder='big') *)
Definition iso0_to_bytes (pin card : str) : result bytes :=
  let rightmost_12 := py_slice_neg 13 1 card in
  let p1 := pad_right cf 16 ([c0] ++ fmt_x (N.of_nat (length pin)) ++ pin) in
  let p2 := [c0; c0; c0; c0] ++ rightmost_12 in
  do a <- py_int16 p1;
  do b <- py_int16 p2;
  int_to_bytes 8 (N.lxor a b).

(* rightmost_12 = card_number[-13:-1]
   p2 = f'0000{rightmost_12}'
   p1_bytes = int.from_bytes(pin_block, byteorder='big') ^ int(p2, 16)
   p1 = f'{p1_bytes:016x}'
   pin_length = int(p1[1:2], 16)
   pin = p1[2:2 + pin_length] *)
Definition iso0_from_bytes (blk : bytes) (card : str) : result str :=
  let rightmost_12 := py_slice_neg 13 1 card in
  let p2 := [c0; c0; c0; c0] ++ rightmost_12 in
  do b <- py_int16 p2;
  let p1 := fmt_0x 16 (N.lxor (unbe blk) b) in
  do n <- py_int16 (slice 1 2 p1);
  Ok (slice 2 (2 + N.to_nat n) p1).

(* ---------- Iso4PinBlock (rnd = self.random_value) ---------- *)

(* binascii.unhexlify(f'{"4" + format(len(self.pin), "x") + self.pin:a<16}{self.random_value:016x}') *)
Definition iso4_to_bytes (pin : str) (rnd : N) : result bytes :=
  unhexlify_str (pad_right ca 16 ([c4] ++ fmt_x (N.of_nat (length pin)) ++ pin) ++ fmt_0x 16 rnd).

(* p1 = binascii.hexlify(pin_block); pin_length = int(p1[1:2], 16); pin = p1[2:2+pin_length]; pin.decode() *)
Definition iso4_from_bytes (blk : bytes) : result str :=
  let p1 := hexlify blk in
  do n <- py_int16 (slice 1 2 p1);
  Ok (slice 2 (2 + N.to_nat n) p1).

Close Scope N_scope.

(* ---------- encryption mix-ins ---------- *)

(* what the code relies on from an algorithm object: accepted key sizes and block size, in bytes *)
Record alg := mk_alg { alg_keys : list nat; alg_block : nat }.
Definition TDES : alg := mk_alg [8; 16; 24]%nat 8%nat.
Definition AES : alg := mk_alg [16; 24; 32]%nat 16%nat.
Definition key_size_ok (a : alg) (k : bytes) : bool := existsb (Nat.eqb (length k)) (alg_keys a).

(* binary_key = binascii.unhexlify(key); cipher = Cipher(Alg(binary_key), modes.ECB(), ...)   ValueError: key size
   op = cipher.encryptor() / decryptor(); return op.update(data) + op.finalize()              ValueError: length *)
Definition ecb_apply (a : alg) (F : bytes -> bytes -> bytes) (key : str) (data : bytes) : result bytes :=
  do k <- unhexlify_str key;
  if key_size_ok a k then
    if Nat.eqb (Nat.modulo (length data) (alg_block a)) 0 then Ok (F k data) else Raise EValue
  else Raise EValue.

(* to_enc_bytes: self.encrypt(key, self.to_bytes());  from_enc_bytes: cls.from_bytes(cls.decrypt(key, enc), ...) *)
Definition iso0_to_enc (a : alg) (E : bytes -> bytes -> bytes) (key pin card : str) : result bytes :=
  do d <- iso0_to_bytes pin card; ecb_apply a E key d.
Definition iso0_from_enc (a : alg) (D : bytes -> bytes -> bytes) (key : str) (enc : bytes) (card : str) : result str :=
  do d <- ecb_apply a D key enc; iso0_from_bytes d card.
Definition iso4_to_enc (a : alg) (E : bytes -> bytes -> bytes) (key pin : str) (rnd : N) : result bytes :=
  do d <- iso4_to_bytes pin rnd; ecb_apply a E key d.
Definition iso4_from_enc (a : alg) (D : bytes -> bytes -> bytes) (key : str) (enc : bytes) : result str :=
  do d <- ecb_apply a D key enc; iso4_from_bytes d.

(* ---------- Visa PVV ---------- *)

(* rightmost_11 = card_number[-12:-1]; return f'{rightmost_11}{key_table_index}{pin[:4]}'   (index: an int >= 0) *)
Definition get_tsp (card : str) (kidx : N) (pin : str) : str :=
  py_slice_neg 12 1 card ++ str_of_N kidx ++ firstn 4 pin.

(* values_pass1 = [value for value in hexlify(ct).decode() if value.isdigit()]
   if len(values_pass1) < 4:
       values_pass2 = [str(int(value, 16) - 10) for value in hexlify(ct).decode() if value.isalpha()]
       values_pass1 += values_pass2
   return ''.join(values_pass1[0:4])
   (the characters come from hexlify: an alphabetic one is a..f, so int(value, 16) - 10 is 0..5) *)
Definition pvv_pass2 (c : N) : list str :=
  if is_alpha c then match hexval c with Some v => [str_of_N (v - 10)%N] | None => [] end else [].
Definition pvv_of_ct (ct : bytes) : str :=
  let h := hexlify ct in
  let pass1 := map (fun c => [c]) (filter is_digit h) in
  let vals := if Nat.ltb (length pass1) 4 then pass1 ++ flat_map pvv_pass2 h else pass1 in
  concat (firstn 4 vals).

(* tsp = _get_tsp(card_number, key_index, pin); bin_pvv_key = unhexlify(pvv_key); cipher = Cipher(TripleDES(..))
   ct = encryptor.update(unhexlify(tsp)) + encryptor.finalize(); ... *)
Definition calculate_pvv (E : bytes -> bytes -> bytes) (pin key : str) (kidx : N) (card : str) : result str :=
  let tsp := get_tsp card kidx pin in
  do k <- unhexlify_str key;
  if key_size_ok TDES k then
    do d <- unhexlify_str tsp;
    if Nat.eqb (Nat.modulo (length d) 8) 0 then Ok (pvv_of_ct (E k d)) else Raise EValue
  else Raise EValue.

(* VisaPVVPinBlockMixin.to_pvv on a block object that has a card number: "if not card_number: raise ValueError" *)
Definition to_pvv (E : bytes -> bytes -> bytes) (pin key : str) (kidx : N) (card : str) : result str :=
  match card with [] => Raise EValue | _ => calculate_pvv E pin key kidx card end.

(* ---------- key.py ---------- *)

(* p1 = '00' * 16
   for key_part in key_parts: p1 = f'{int(p1, 16) ^ int(key_part, 16):032x}' *)
Fixpoint zmk_fold (p1 : str) (parts : list str) : result str :=
  match parts with
  | [] => Ok p1
  | part :: r => do a <- py_int16 p1; do b <- py_int16 part; zmk_fold (fmt_0x 32 (N.lxor a b)) r
  end.
Definition zmk_combine (parts : list str) : result str := zmk_fold (repeat c0 32) parts.

(* hexlify(ct)[0:kvc_length].decode()   (length >= 0) *)
Definition kcv_of_ct (ct : bytes) (n : nat) : str := slice 0 n (hexlify ct).
(* cipher = Cipher(TripleDES(binary_key), ECB); ct = encryptor.update(b'\x00' * 16) + encryptor.finalize() *)
Definition calculate_kcv (E : bytes -> bytes -> bytes) (k : bytes) (n : nat) : result str :=
  if key_size_ok TDES k then Ok (kcv_of_ct (E k (repeat x00 16)) n) else Raise EValue.

Definition get_zone_master_key (E : bytes -> bytes -> bytes) (parts : list str) : result (str * str) :=
  do p1 <- zmk_combine parts;
  do k <- unhexlify_str p1;
  do kcv <- calculate_kcv E k 6;
  Ok (p1, kcv).

(* binary_key = unhexlify(master_key); binary_data = unhexlify(key_to_encrypt); Cipher(TripleDES(binary_key), ECB) ... *)
Definition encrypt_key (E : bytes -> bytes -> bytes) (key_to_encrypt master_key : str) : result bytes :=
  do mk <- unhexlify_str master_key;
  do d <- unhexlify_str key_to_encrypt;
  if key_size_ok TDES mk then
    if Nat.eqb (Nat.modulo (length d) 8) 0 then Ok (E mk d) else Raise EValue
  else Raise EValue.

Definition get_enc_zone_master_key (E : bytes -> bytes -> bytes) (master_key : str) (parts : list str)
  : result (str * str) :=
  do pk <- get_zone_master_key E parts;
  do e <- encrypt_key E (fst pk) master_key;
  Ok (hexlify e, snd pk).
