(* Prim.v — Python primitives that cardutil relies on, as total Gallina functions.
   Executable definitions only (no proofs): this file must keep compiling when a proof breaks. *)
From Coq Require Import List NArith ZArith Bool Arith.
From Coq Require Import Strings.Byte.
Import ListNotations.

Definition str := list N.          (* a Python str: list of code points *)
Definition bytes := list byte.     (* a Python bytes object *)

(* ---------- outcomes ---------- *)
Inductive exn := EData | EValue | EStruct | EBinascii | EIndex | EKey | EType | EUnicode
               | EAssert | EOther.
Inductive result (A : Type) :=
| Ok (a : A)
| Raise (e : exn)
| OutOfFuel            (* a fuelled loop ran out: excluded by a lemma wherever it matters *)
| Unmodelled.          (* input outside the modelled sub-domain: the comparer skips it *)
Arguments Ok {A}. Arguments Raise {A}. Arguments OutOfFuel {A}. Arguments Unmodelled {A}.

Definition bind {A B} (r : result A) (f : A -> result B) : result B :=
  match r with Ok a => f a | Raise e => Raise e | OutOfFuel => OutOfFuel | Unmodelled => Unmodelled end.
Notation "'do' x <- r ; k" := (bind r (fun x => k)) (at level 200, x pattern, right associativity).

(* except <classes> as ex: raise <e'> *)
Definition catch {A} (r : result A) (which : exn -> bool) (e' : exn) : result A :=
  match r with Raise e => if which e then Raise e' else Raise e | _ => r end.

Definition exn_eqb (a b : exn) : bool :=
  match a, b with
  | EData, EData | EValue, EValue | EStruct, EStruct | EBinascii, EBinascii | EIndex, EIndex
  | EKey, EKey | EType, EType | EUnicode, EUnicode | EAssert, EAssert | EOther, EOther => true
  | _, _ => false
  end.
(* UnicodeError is a subclass of ValueError *)
Definition is_valueerror (e : exn) : bool := match e with EValue | EUnicode => true | _ => false end.

(* ---------- slicing x[a:b] with 0 <= a ---------- *)
Definition slice {A} (a b : nat) (l : list A) : list A := firstn (b - a) (skipn a l).
Definition lastn {A} (n : nat) (l : list A) : list A := skipn (length l - n) l.

Fixpoint list_eqb {A} (eqb : A -> A -> bool) (a b : list A) : bool :=
  match a, b with
  | [], [] => true
  | x :: a', y :: b' => eqb x y && list_eqb eqb a' b'
  | _, _ => false
  end.
Definition str_eqb : str -> str -> bool := list_eqb N.eqb.
Definition byte_eqb (a b : byte) : bool := Byte.eqb a b.
Definition bytes_eqb : bytes -> bytes -> bool := list_eqb byte_eqb.

(* lexicographic order on str (Python's str comparison: by code point) *)
Fixpoint str_leb (a b : str) : bool :=
  match a, b with
  | [], _ => true
  | _ :: _, [] => false
  | x :: a', y :: b' => if (x <? y)%N then true else if (y <? x)%N then false else str_leb a' b'
  end.

(* ---------- decimal numerals ---------- *)
Open Scope N_scope.

(* the w low-order decimal digits of n, most significant first *)
Fixpoint digs (w : nat) (n : N) : list N :=
  match w with O => [] | S w' => digs w' (n / 10) ++ [n mod 10] end.
Definition value (l : list N) : N := fold_left (fun a d => a * 10 + d) l 0.

Fixpoint dec_aux (fuel : nat) (n : N) (acc : list N) : list N :=
  match fuel with
  | O => acc
  | S f => if n <? 10 then n :: acc else dec_aux f (n / 10) (n mod 10 :: acc)
  end.
(* the decimal digits of n without padding: str(n) *)
Definition dec_digits (n : N) : list N := dec_aux (S (N.size_nat n)) n [].

Definition dch (d : N) : N := 48 + d.                          (* digit -> '0'..'9' *)
Definition chr_minus : N := 45.  Definition chr_plus : N := 43.
Definition chr_us : N := 95.     Definition chr_space : N := 32.
Definition chr_zero : N := 48.

(* format(n, '0<w>d') / f'{n:0<w>}' for n >= 0 *)
Definition fmt0 (w : nat) (n : N) : str :=
  if (n <? 10 ^ N.of_nat w) && (0 <? N.of_nat w) then map dch (digs w n)
  else map dch (dec_digits n).
Definition str_of_N (n : N) : str := map dch (dec_digits n).

(* format(z, '0<w>d') for any integer: the sign counts in the width *)
Definition fmt0Z (w : nat) (z : Z) : str :=
  match z with
  | Zneg p => chr_minus :: fmt0 (w - 1) (Npos p)
  | _ => fmt0 w (Z.to_N z)
  end.

(* one hex digit *)
Definition hexch (d : N) : N := if d <? 10 then 48 + d else 87 + d.       (* lowercase *)
Definition hexval (c : N) : option N :=
  if (48 <=? c) && (c <=? 57) then Some (c - 48)
  else if (97 <=? c) && (c <=? 102) then Some (c - 87)
  else if (65 <=? c) && (c <=? 70) then Some (c - 55)
  else None.

Close Scope N_scope.

(* ---------- bytes <-> numbers ---------- *)
Definition byte_of_N (n : N) : byte := match Byte.of_N (n mod 256) with Some b => b | None => x00 end.
Definition N_of_byte (b : byte) : N := Byte.to_N b.

(* struct.pack(">I", n) *)
Definition be32 (n : N) : bytes :=
  [byte_of_N (n / 16777216); byte_of_N (n / 65536); byte_of_N (n / 256); byte_of_N n].
(* struct.unpack(">I", b) / int.from_bytes(b, 'big') *)
Definition unbe (l : bytes) : N := fold_left (fun a b => (a * 256 + N_of_byte b)%N) l 0%N.

(* binascii.hexlify as str (lowercase) *)
Definition hexlify (b : bytes) : str :=
  flat_map (fun x => let n := N_of_byte x in [hexch (n / 16); hexch (n mod 16)]%N) b.
(* binascii.unhexlify on a str of hex digits: None = binascii.Error *)
Fixpoint unhexlify (s : str) : option bytes :=
  match s with
  | [] => Some []
  | [_] => None
  | a :: b :: r =>
    match hexval a, hexval b, unhexlify r with
    | Some x, Some y, Some t => Some (byte_of_N (x * 16 + y) :: t)
    | _, _, _ => None
    end
  end.
Definition upper (s : str) : str := map (fun c => if (97 <=? c)%N && (c <=? 122)%N then (c - 32)%N else c) s.
