(* Regex.v — the fragment of Python's `re` that a DE43 splitting pattern uses, as a backtracking matcher with
   Python's priorities (no proofs in this file).

   cardutil calls  re.match(field_processor_config, value)  and takes  .groupdict().  The pattern is data (it is part of
   the configuration), so it is translated on every run by harness/gen_coq.py (through CPython's own regex parser) into
   the AST below; patterns outside the fragment are translated to D43Unsupported and decoding such an element is
   `Unmodelled`.  The fragment: a sequence of
     - single-character atoms  . (no DOTALL: everything but \n), a literal, \s \S \d \D, [...] sets of literals,
       ranges and the classes \s \S \d \D, possibly negated, each with a quantifier {min,max} / * / + / ?, greedy or lazy;
     - named groups (?P<name>...) and plain / non-capturing groups, not quantified, whose body is again such a sequence;
     - the anchors $ and \Z (end of string; $ also before one final \n) and ^ / \A.
   No alternation, no back references, no flags.  re.match anchors at the start; a leftmost match with Python's
   backtracking priorities is returned (greedy: longest first, lazy: shortest first). *)
From Coq Require Import List NArith Bool Arith.
Require Import CU.model.Prim CU.model.Types CU.model.Unicode.
Import ListNotations.

Definition cls_item_match (i : cls_item) (ch : N) : bool :=
  match i with
  | CILit c => N.eqb c ch
  | CIRange lo hi => (lo <=? ch)%N && (ch <=? hi)%N
  | CISpace neg => xorb neg (is_space ch)                 (* \s : Py_UNICODE_ISSPACE *)
  | CIDigit neg => xorb neg (match decimal_of ch with Some _ => true | None => false end)   (* \d : Unicode decimal digit *)
  end.

Definition cmatch (c : cclass) (ch : N) : bool :=
  match c with
  | CAny => negb (N.eqb ch 10)                             (* . without DOTALL *)
  | CSet neg items => xorb neg (existsb (fun i => cls_item_match i ch) items)
  end.

(* captures: group name -> (start, end) positions in the subject, most recent first *)
Definition caps := list (str * (nat * nat)).
Definition K := str -> nat -> caps -> option caps.          (* continuation: rest of subject, position, captures *)

(* c{mn,mx} greedy/lazy followed by k.  Structural on the subject. *)
Fixpoint rep (c : cclass) (mn : nat) (mx : option nat) (greedy : bool) (k : K) (s : str) (pos : nat) (cp : caps)
  {struct s} : option caps :=
  let more (_ : unit) : option caps :=
    match s with
    | [] => None
    | ch :: s' =>
      if match mx with Some 0 => false | _ => cmatch c ch end
      then rep c (pred mn) (option_map pred mx) greedy k s' (S pos) cp
      else None
    end in
  if 0 <? mn then more tt
  else if greedy then match more tt with Some r => Some r | None => k s pos cp end
       else match k s pos cp with Some r => Some r | None => more tt end.

Fixpoint m_re (r : re) (k : K) {struct r} : K :=
  match r with
  | RChar c mn mx g => rep c mn mx g k
  | RGroup name body =>
    fun s pos cp =>
      (fix seq (l : list re) (k' : K) {struct l} : K :=
         match l with [] => k' | x :: t => m_re x (seq t k') end)
        body (fun s' pos' cp' => k s' pos' (match name with Some n => (n, (pos, pos')) :: cp' | None => cp' end)) s pos cp
  | REnd strict =>
    fun s pos cp =>
      match s with
      | [] => k s pos cp
      | [ch] => if negb strict && N.eqb ch 10 then k s pos cp else None
      | _ => None
      end
  | RStart => fun s pos cp => if Nat.eqb pos 0 then k s pos cp else None
  end.

Fixpoint m_seq (l : list re) (k : K) : K :=
  match l with [] => k | x :: t => m_re x (m_seq t k) end.

(* re.match(pattern, s): captures of the first (highest priority) match at position 0, or None *)
Definition re_match (p : regex) (s : str) : option caps := m_seq p (fun _ _ cp => Some cp) s 0 [].

(* names of the named groups, in order of their opening parenthesis (= groupdict order) *)
Fixpoint re_groups (r : re) : list str :=
  match r with
  | RGroup name body =>
    (match name with Some n => [n] | None => [] end) ++
    (fix gs (l : list re) : list str := match l with [] => [] | x :: t => re_groups x ++ gs t end) body
  | _ => []
  end.
Definition regex_groups (p : regex) : list str := flat_map re_groups p.

Fixpoint cap_get (cp : caps) (n : str) : option (nat * nat) :=
  match cp with [] => None | (m, se) :: r => if str_eqb m n then Some se else cap_get r n end.

Definition rstrip (s : str) : str := rev (lstrip (rev s)).
Definition de43_postcode : str := [68; 69; 52; 51; 95; 80; 79; 83; 84; 67; 79; 68; 69]%N.   (* "DE43_POSTCODE" *)

(* _get_de43_fields(value, processor_config) for a str value; None = the pattern is outside the fragment.
   No configuration, or no match: no entries.  Groups that did not take part in the match cannot occur in the fragment
   (no alternation, no optional groups), so every named group has a capture. *)
Definition de43_fields (d : de43cfg) (s : str) : option (list (str * str)) :=
  match d with
  | D43None => Some []
  | D43Unsupported => None
  | D43Re p =>
    match re_match p s with
    | None => Some []
    | Some cp =>
      Some (flat_map (fun n => match cap_get cp n with
                               | Some (a, b) =>
                                 let v := slice a b s in
                                 [(n, if str_eqb n de43_postcode then (match v with [] => v | _ => rstrip v end) else v)]
                               | None => []
                               end) (regex_groups p))
    end
  end.
