(* Tools.v — model of the conversion / CSV tool functions of cardutil/cli (no proofs): compositions of the
   readers, writers and codecs.  csv parsing/printing itself is CPython's (oracle); the model works on rows. *)
From Coq Require Import List NArith ZArith Bool Arith.
From Coq Require Import Strings.Byte Strings.String.
Require Import CU.model.Prim CU.model.Types CU.model.Unicode CU.model.Codec CU.model.Dates CU.model.Block CU.model.Vbs CU.model.Iso CU.model.Ipm.
Import ListNotations.

Section Tools.
Variable B : nat.
Variable maxlen : N.

(* mci_ipm_encode.get_config(): the packaged configuration with the PDS processors removed *)
Definition cfg_nopds (cfg : cfgT) : cfgT :=
  map (fun bc => (fst bc, let c := snd bc in
                          if proc_eqb (f_proc c) PPDS then mkfc (f_type c) (f_len c) (f_ptype c) (f_datefmt c) PNone (f_de43 c) else c)) cfg.

(* with IpmWriter(out, encoding=B, blocked=fb[, iso_config]) as w: w.write_many(IpmReader(in, encoding=A, blocked=fa, iso_config=rcfg))
   - mci_ipm_encode and mideu convert: rcfg = cfg_nopds packaged, wcfg = packaged.
   A data error while reading propagates (the tool reports it): Raise EData. *)
Definition convert (rcfg wcfg : cfgT) (cdA cdB : codec) (fa fb : bool) (file : bytes) : result bytes :=
  do x <- iread_all B maxlen rcfg cdA file fa;
  match snd x with
  | End => ipm_file B wcfg cdB fb (fst x)
  | ErrData _ _ => Raise EData
  end.

(* mci_ipm_param_encode / paramconv: VbsReader -> decode(A) -> encode(B) -> VbsWriter *)
Fixpoint recode_all (cdA cdB : codec) (rs : list bytes) : result (list bytes) :=
  match rs with
  | [] => Ok []
  | r :: t => do s <- decode cdA r; do b <- encode cdB s; do u <- recode_all cdA cdB t; Ok (b :: u)
  end.
Definition pconvert (cdA cdB : codec) (fa fb : bool) (file : bytes) : result bytes :=
  do x <- read_all B maxlen file fa;
  match snd x with
  | End => do rs <- recode_all cdA cdB (fst x);
           Ok (file_of (writer_run B fb (map WWrite rs ++ [WClose])))
  | ErrData _ _ => Raise EData
  end.

(* ---------- CSV cells ---------- *)
(* what csv.DictWriter writes for a value: str(v) *)
Definition cell_of (v : value) : option str :=
  match v with
  | VStr s => Some s
  | VInt z => Some (match z with Zneg p => chr_minus :: str_of_N (Npos p) | _ => str_of_N (Z.to_N z) end)
  | VDate d => Some (iso_of d)
  | VBytes _ => None                       (* repr of bytes: not a CSV round-trip value *)
  end.

(* mci_csv_to_ipm: each row is a dict of the non-empty cells (all strings) *)
Definition row_dict (cols : list key) (cells : list str) : dict :=
  flat_map (fun kc => match snd kc with [] => [] | s => [(fst kc, VStr s)] end) (combine cols cells).
Definition csv_to_ipm (cfg : cfgT) (cd : codec) (blocked : bool) (cols : list key) (rows : list (list str)) : result bytes :=
  ipm_file B cfg cd blocked (map (row_dict cols) rows).

(* mci_ipm_to_csv restricted to a column list: the cell of every record for every column ('' when absent) *)
Definition ipm_to_rows (cfg : cfgT) (cd : codec) (blocked : bool) (cols : list key) (file : bytes) : result (list (list (option str))) :=
  do x <- iread_all B maxlen cfg cd file blocked;
  match snd x with
  | End => Ok (map (fun d => map (fun k => match lookup d k with Some v => cell_of v | None => Some [] end) cols) (fst x))
  | ErrData _ _ => Raise EData
  end.
(* ---------- what the operator sees when a reading tool stops on a data error ---------- *)
(* cli.print_exception_details(err): `if err.record_number: print(f'Error detected in record {err.record_number}')` *)
Definition error_prefix : str := map (fun b => Byte.to_N b) (list_byte_of_string "Error detected in record ").
Definition error_line (recno : nat) : option str :=
  if Nat.eqb recno 0 then None else Some (error_prefix ++ str_of_N (N.of_nat recno)).
(* mci_ipm_to_csv / mideu extract: `try: ... IpmReader ... except MciIpmDataError as err: print_exception_details(err); return -1`:
   the records (then written as CSV), or the records read so far and the operator line *)
Definition tool_read (cfg : cfgT) (cd : codec) (blocked : bool) (file : bytes) : result (list dict * option (option str)) :=
  do x <- iread_all B maxlen cfg cd file blocked;
  match snd x with
  | End => Ok (fst x, None)
  | ErrData n _ => Ok (fst x, Some (error_line n))
  end.
End Tools.
