(* Types.v — configuration and value types of the ISO8583 model (no proofs). *)
From Coq Require Import List NArith ZArith Bool.
Require Import CU.model.Prim.
Import ListNotations.

Inductive ftype := FIXED | LLVAR | LLLVAR | FTOther.          (* field_type; FTOther: any other string *)
Inductive ptype := PTStr | PTInt | PTDec | PTDate.             (* field_python_type ("int"/"long" -> PTInt) *)
Inductive proc := PNone | PPAN | PPANPREFIX | PICC | PPDS | PDE43.   (* field_processor *)

(* the regex fragment of a DE43 splitting pattern (data only; the matcher is model/Regex.v) *)
Inductive cls_item :=
| CILit (c : N)                 (* a literal character *)
| CIRange (lo hi : N)           (* a-z *)
| CISpace (neg : bool)          (* \s / \S *)
| CIDigit (neg : bool).         (* \d / \D *)
Inductive cclass :=
| CAny                          (* . *)
| CSet (neg : bool) (items : list cls_item).   (* a literal, an escape class, or [...] / [^...] *)
Inductive re :=
| RChar (c : cclass) (mn : nat) (mx : option nat) (greedy : bool)   (* a single-character atom with its quantifier *)
| RGroup (name : option str) (body : list re)                       (* (?P<name>...) / (...) / (?:...) *)
| REnd (strict : bool)                                              (* \Z (strict) / $ *)
| RStart.                                                           (* ^ / \A *)
Definition regex := list re.
Inductive de43cfg :=
| D43None                       (* field_processor_config missing or empty *)
| D43Re (p : regex)
| D43Unsupported.               (* a pattern outside the fragment: decoding the element is Unmodelled *)

Record fieldcfg := mkfc {
  f_type : ftype;
  f_len : option nat;          (* field_length (None: key missing) *)
  f_ptype : ptype;
  f_datefmt : str;             (* field_date_format, default "%y%m%d" *)
  f_proc : proc;
  f_de43 : de43cfg             (* field_processor_config, translated (used by the DE43 processor only) *)
}.
Definition cfgT := list (nat * fieldcfg).

Fixpoint cfg_get (cfg : cfgT) (bit : nat) : option fieldcfg :=
  match cfg with
  | [] => None
  | (b, c) :: r => if Nat.eqb b bit then Some c else cfg_get r bit
  end.

Definition proc_eqb (a b : proc) : bool :=
  match a, b with
  | PNone, PNone | PPAN, PPAN | PPANPREFIX, PPANPREFIX | PICC, PICC | PPDS, PPDS | PDE43, PDE43 => true
  | _, _ => false
  end.

(* _get_field_length *)
Definition psize (t : ftype) : nat := match t with LLVAR => 2 | LLLVAR => 3 | _ => 0 end.

(* naive datetime *)
Record datetime := mkdt { dt_Y : N; dt_m : N; dt_d : N; dt_H : N; dt_M : N; dt_S : N }.

Inductive value :=
| VStr (s : str)
| VInt (z : Z)
| VBytes (b : bytes)
| VDate (d : datetime).

(* dictionary keys, structured; `key_str` in the driver prints them as the Python key strings *)
Inductive key :=
| KMTI
| KDE (n : nat)
| KPDS (tag : str)         (* "PDS" + tag *)
| KTAG (hex : str)         (* "TAG" + upper-case hex of the tag bytes *)
| KICC                     (* "ICC_DATA" *)
| KOther (s : str).        (* any other key (ignored by the encoder) *)

Definition key_eqb (a b : key) : bool :=
  match a, b with
  | KMTI, KMTI => true
  | KDE n, KDE m => Nat.eqb n m
  | KPDS s, KPDS t => str_eqb s t
  | KTAG s, KTAG t => str_eqb s t
  | KICC, KICC => true
  | KOther s, KOther t => str_eqb s t
  | _, _ => false
  end.

Definition dict := list (key * value).
Fixpoint lookup (d : dict) (k : key) : option value :=
  match d with
  | [] => None
  | (k', v) :: r => if key_eqb k' k then Some v else lookup r k
  end.
(* d[k] = v : replace in place or append (insertion order is kept, as in Python) *)
Fixpoint dset (d : dict) (k : key) (v : value) : dict :=
  match d with
  | [] => [(k, v)]
  | (k', v') :: r => if key_eqb k' k then (k', v) :: r else (k', v') :: dset r k v
  end.
Definition dupdate (d e : dict) : dict := fold_left (fun acc kv => dset acc (fst kv) (snd kv)) e d.
