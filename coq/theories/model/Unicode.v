(* Unicode.v — str predicates and int() over the generated Unicode tables (no proofs). *)
From Coq Require Import List NArith ZArith Bool.
Require Import CU.model.Prim CU.gen.GenUnicode.
Import ListNotations.
Open Scope N_scope.

Definition mem (c : N) (l : list N) : bool := existsb (N.eqb c) l.
Definition is_space (c : N) : bool := mem c uni_space.          (* str.isspace / Py_UNICODE_ISSPACE *)
Definition is_digit (c : N) : bool := mem c uni_isdigit.        (* str.isdigit *)
Definition is_numeric (c : N) : bool := mem c uni_isnumeric.    (* str.isnumeric *)
Definition is_alpha (c : N) : bool := mem c uni_isalpha.        (* str.isalpha *)
Fixpoint assoc (c : N) (l : list (N * N)) : option N :=
  match l with [] => None | (k, v) :: r => if k =? c then Some v else assoc c r end.
Definition decimal_of (c : N) : option N := assoc c uni_decimal.   (* unicodedata.decimal *)

Fixpoint lstrip (s : str) : str :=
  match s with c :: r => if is_space c then lstrip r else s | [] => [] end.
Definition strip (s : str) : str := rev (lstrip (rev (lstrip s))).

(* the whitespace int() strips is not str.isspace(): U+001C..U+001F are isspace() but make int() fail (table generated
   from int() itself) *)
Definition is_intspace (c : N) : bool := mem c uni_intspace.
Fixpoint lstrip_int (s : str) : str :=
  match s with c :: r => if is_intspace c then lstrip_int r else s | [] => [] end.
Definition strip_int (s : str) : str := rev (lstrip_int (rev (lstrip_int s))).

(* digits with single underscores between them; acc = value so far; prev_us = last char was '_' *)
Fixpoint int_digits (s : str) (acc : N) (prev_us : bool) : option N :=
  match s with
  | [] => if prev_us then None else Some acc
  | c :: r =>
    if c =? chr_us then (if prev_us then None else int_digits r acc true)
    else match decimal_of c with
         | Some d => int_digits r (acc * 10 + d) false
         | None => None
         end
  end.

(* int(s) for a str, base 10: None = ValueError *)
Definition py_int (s : str) : option Z :=
  let t := strip_int s in
  let '(neg, body) := match t with
                      | c :: r => if c =? chr_minus then (true, r) else if c =? chr_plus then (false, r) else (false, t)
                      | [] => (false, [])
                      end in
  match body with
  | [] => None
  | c :: _ =>
    if c =? chr_us then None
    else match int_digits body 0 false with
         | Some n => Some (if neg then (- Z.of_N n)%Z else Z.of_N n)
         | None => None
         end
  end.
Close Scope N_scope.
