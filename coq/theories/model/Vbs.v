(* Vbs.v — model of VbsWriter / VbsReader (and the list/bytes convenience functions) of
   cardutil/mciipm.py (no proofs). *)
From Coq Require Import List NArith Bool Arith.
From Coq Require Import Strings.Byte.
Require Import CU.model.Prim CU.model.Block.
Import ListNotations.

Section Vbs.
Variable B : nat.          (* 1012 *)
Variable maxlen : N.       (* config MAX_VBS_RECORD_LENGTH *)

(* ---------- VbsWriter ---------- *)
Inductive outfile := OPlain (f : fobj) | OBlocked (b : blocker).
Record writer := mkw { wout : outfile; wfinalised : bool }.

Definition winit (f : fobj) (blocked : bool) : writer :=
  mkw (if blocked then OBlocked (binit B f) else OPlain f) false.

Definition owrite (o : outfile) (b : bytes) : outfile :=
  match o with OPlain f => OPlain (fwrite f b) | OBlocked s => OBlocked (bwrite B s b) end.
Definition oseek (o : outfile) (p : nat) : outfile :=
  match o with OPlain f => OPlain (fseek f p) | OBlocked s => OBlocked (bseek B s p) end.
Definition ofile (o : outfile) : fobj := match o with OPlain f => f | OBlocked s => bfile s end.

(* write(record): 4-byte big-endian length, then the record *)
Definition wwrite (w : writer) (r : bytes) : writer :=
  mkw (owrite (owrite (wout w) (be32 (N.of_nat (length r)))) r) (wfinalised w).
(* close(): zero length terminator, rewind; idempotent *)
Definition wclose (w : writer) : writer :=
  if wfinalised w then w
  else mkw (oseek (owrite (wout w) (be32 0)) 0) true.

Inductive wop := WWrite (r : bytes) | WClose | WExit.      (* __exit__ calls close() *)
Definition wstep (w : writer) (o : wop) : writer :=
  match o with WWrite r => wwrite w r | WClose => wclose w | WExit => wclose w end.
Definition writer_run (blocked : bool) (ops : list wop) : writer := fold_left wstep ops (winit fempty blocked).
Definition file_of (w : writer) : bytes := fdata (ofile (wout w)).

(* histories in which the caller also uses the wrapped file object between finalisations (f.seek(p), or reading from
   it, which moves its position): the writer itself is not told *)
Definition otouch (o : outfile) (p : nat) : outfile :=
  match o with OPlain f => OPlain (fseek f p) | OBlocked s => OBlocked (mkb (fseek (bfile s) p) (brem s)) end.
Inductive wop2 := W2Op (o : wop) | W2Touch (p : nat).
Definition wstep2 (w : writer) (o : wop2) : writer :=
  match o with W2Op o => wstep w o | W2Touch p => mkw (otouch (wout w) p) (wfinalised w) end.
Definition writer_run2 (blocked : bool) (ops : list wop2) : writer := fold_left wstep2 ops (winit fempty blocked).

(* vbs_list_to_bytes(records, blocked=...): write all, close, file_out.read() *)
Definition vbs_list_to_bytes (blocked : bool) (rs : list bytes) : bytes :=
  let w := writer_run blocked (map WWrite rs ++ [WClose]) in
  fst (freadall (ofile (wout w))).

(* ---------- streams the reader pulls from ---------- *)
Inductive stream := SPlain (f : fobj) | SUnblock (u : unblocker).
Definition sopen (d : bytes) (blocked : bool) : stream :=
  if blocked then SUnblock (uinit (fopen d)) else SPlain (fopen d).
(* read(n), n > 0 *)
Definition sread (s : stream) (n : nat) : result (bytes * stream) :=
  match s with
  | SPlain f => let '(b, f') := fread f n in Ok (b, SPlain f')
  | SUnblock u => do bu <- uread B u n; let '(b, u') := bu in Ok (b, SUnblock u')
  end.

(* ---------- VbsReader ---------- *)
Record reader := mkr { rstream : stream; rrecno : nat; rlast : option bytes }.
Definition rinit (d : bytes) (blocked : bool) : reader := mkr (sopen d blocked) 1 None.

Inductive rout :=
| RRec (r : bytes)                       (* a record *)
| RStop                                  (* StopIteration *)
| RErr (recno : nat) (ctx : bytes).      (* MciIpmDataError(record_number, binary_context_data) *)

Definition rnext (r : reader) : result (reader * rout) :=
  do x <- sread (rstream r) 4;
  let '(raw, s1) := x in
  if negb (Nat.eqb (length raw) 4) then Ok (mkr s1 (rrecno r) (rlast r), RStop)
  else
    let L := unbe raw in
    if (maxlen <? L)%N then Ok (mkr s1 (rrecno r) (rlast r), RErr (rrecno r) raw)
    else if (L =? 0)%N then Ok (mkr s1 (rrecno r) (rlast r), RStop)
    else
      do y <- sread s1 (N.to_nat L);
      let '(rec, s2) := y in
      if negb (Nat.eqb (length rec) (N.to_nat L)) then Ok (mkr s2 (rrecno r) (rlast r), RErr (rrecno r) (raw ++ rec))
      else Ok (mkr s2 (S (rrecno r)) (Some (raw ++ rec)), RRec rec).

Inductive rend := End | ErrData (recno : nat) (ctx : bytes).

(* [record for record in reader]: fuel = bytes in the file + 1 (every record consumes at least 4) *)
Fixpoint read_all_fuel (fuel : nat) (r : reader) (acc : list bytes) : result (list bytes * rend) :=
  match fuel with
  | 0 => OutOfFuel
  | S k =>
    do x <- rnext r;
    let '(r', o) := x in
    match o with
    | RRec rec => read_all_fuel k r' (acc ++ [rec])
    | RStop => Ok (acc, End)
    | RErr n ctx => Ok (acc, ErrData n ctx)
    end
  end.
Definition read_all (d : bytes) (blocked : bool) : result (list bytes * rend) :=
  read_all_fuel (S (length d)) (rinit d blocked) [].

End Vbs.
