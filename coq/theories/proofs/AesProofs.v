(* AesProofs.v — InvCipher undoes Cipher (model/Aes.v), for every key, every data; known-answer vectors.
   Plan: each transformation has an unconditional inverse on lists of any length:
     InvSubBytes/SubBytes      inv_sbox (sbox b) = b, 256 cases;
     InvShiftRows/ShiftRows    the two index permutations of a 16-element list;
     AddRoundKey               (a xor k) xor k = a, bit by bit;
     InvMixColumns/MixColumns  by linearity: multiplication by a constant is additive over xor (from xtime, on bits),
                               a 4x4 regrouping of xor terms (only the interchange law (a+b)+(c+d) = (a+c)+(b+d)),
                               and the 16 entries of InvM * M = I over GF(2^8), each a 256-case check.
   Then the rounds by induction on the list of round keys (nothing is needed from the key schedule), and ECB
   block by block (every step keeps the length, so the blocks stay aligned). *)
From Coq Require Import List Bool Arith Lia.
From Coq Require Import Strings.Byte.
Require Import CU.model.Prim CU.model.Aes.
Import ListNotations.

(* ---------- xor and xtime on bits ---------- *)

Lemma xorb_inter a b c d : xorb (xorb a b) (xorb c d) = xorb (xorb a c) (xorb b d).
Proof. destruct a, b, c, d; reflexivity. Qed.
Lemma xorb_cancel a b : xorb (xorb a b) b = a.
Proof. destruct a, b; reflexivity. Qed.

Ltac bits8 x := destruct x as [?x0 [?x1 [?x2 [?x3 [?x4 [?x5 [?x6 ?x7]]]]]]].
Ltac pairs := repeat match goal with |- (_, _) = (_, _) => f_equal end.

Lemma xor8_inter a b c d : xor8 (xor8 a b) (xor8 c d) = xor8 (xor8 a c) (xor8 b d).
Proof. bits8 a; bits8 b; bits8 c; bits8 d. cbn [xor8]. pairs; apply xorb_inter. Qed.
Lemma xor8_cancel a b : xor8 (xor8 a b) b = a.
Proof. bits8 a; bits8 b. cbn [xor8]. pairs; apply xorb_cancel. Qed.
Lemma xtime8_add a b : xtime8 (xor8 a b) = xor8 (xtime8 a) (xtime8 b).
Proof. bits8 a; bits8 b. cbn [xor8 xtime8]. pairs; first [reflexivity | apply xorb_inter]. Qed.

Lemma bxor_inter a b c d : bxor (bxor a b) (bxor c d) = bxor (bxor a c) (bxor b d).
Proof. unfold bxor. rewrite !to_bits_of_bits. f_equal. apply xor8_inter. Qed.
Lemma bxor_cancel a b : bxor (bxor a b) b = a.
Proof. unfold bxor. rewrite to_bits_of_bits, xor8_cancel. apply of_bits_to_bits. Qed.

(* ---------- additive maps of GF(2^8) ---------- *)

Definition additive (f : byte -> byte) : Prop := forall a b, f (bxor a b) = bxor (f a) (f b).

Lemma xtime_add : additive xtime.
Proof. intros a b. unfold xtime, bxor. rewrite !to_bits_of_bits. f_equal. apply xtime8_add. Qed.
Lemma mul2_add : additive mul2.
Proof. exact xtime_add. Qed.
Lemma mul3_add : additive mul3.
Proof. intros a b. unfold mul3. rewrite xtime_add. apply bxor_inter. Qed.
Lemma mul9_add : additive mul9.
Proof. intros a b. unfold mul9. rewrite !xtime_add. apply bxor_inter. Qed.
Lemma mul11_add : additive mul11.
Proof.
  intros a b. unfold mul11. rewrite !xtime_add.
  rewrite (bxor_inter (xtime (xtime (xtime a))) (xtime (xtime (xtime b)))). apply bxor_inter.
Qed.
Lemma mul13_add : additive mul13.
Proof.
  intros a b. unfold mul13. rewrite !xtime_add.
  rewrite (bxor_inter (xtime (xtime (xtime a))) (xtime (xtime (xtime b)))). apply bxor_inter.
Qed.
Lemma mul14_add : additive mul14.
Proof.
  intros a b. unfold mul14. rewrite !xtime_add.
  rewrite (bxor_inter (xtime (xtime (xtime a))) (xtime (xtime (xtime b)))). apply bxor_inter.
Qed.

Lemma additive_bx4 f : additive f -> forall a b c d, f (bx4 a b c d) = bx4 (f a) (f b) (f c) (f d).
Proof. intros H a b c d. unfold bx4. rewrite !H. reflexivity. Qed.

(* the sum of four 4-term sums, regrouped by position: rows <-> columns *)
Lemma bx4_transpose a1 a2 a3 a4 b1 b2 b3 b4 c1 c2 c3 c4 d1 d2 d3 d4 :
  bx4 (bx4 a1 a2 a3 a4) (bx4 b1 b2 b3 b4) (bx4 c1 c2 c3 c4) (bx4 d1 d2 d3 d4)
  = bx4 (bx4 a1 b1 c1 d1) (bx4 a2 b2 c2 d2) (bx4 a3 b3 c3 d3) (bx4 a4 b4 c4 d4).
Proof.
  unfold bx4.
  rewrite (bxor_inter (bxor a1 a2) (bxor a3 a4) (bxor b1 b2) (bxor b3 b4)).
  rewrite (bxor_inter a1 a2 b1 b2), (bxor_inter a3 a4 b3 b4).
  rewrite (bxor_inter (bxor c1 c2) (bxor c3 c4) (bxor d1 d2) (bxor d3 d4)).
  rewrite (bxor_inter c1 c2 d1 d2), (bxor_inter c3 c4 d3 d4).
  rewrite (bxor_inter (bxor (bxor a1 b1) (bxor a2 b2)) (bxor (bxor a3 b3) (bxor a4 b4))
                      (bxor (bxor c1 d1) (bxor c2 d2)) (bxor (bxor c3 d3) (bxor c4 d4))).
  rewrite (bxor_inter (bxor a1 b1) (bxor a2 b2) (bxor c1 d1) (bxor c2 d2)).
  rewrite (bxor_inter (bxor a3 b3) (bxor a4 b4) (bxor c3 d3) (bxor c4 d4)).
  reflexivity.
Qed.

(* ---------- the 256-case facts ---------- *)

Lemma inv_sbox_sbox b : inv_sbox (sbox b) = b.
Proof. destruct b; reflexivity. Qed.
Lemma sbox_inv_sbox b : sbox (inv_sbox b) = b.
Proof. destruct b; reflexivity. Qed.

Lemma bx4_1 a : bx4 a x00 x00 x00 = a. Proof. destruct a; reflexivity. Qed.
Lemma bx4_2 a : bx4 x00 a x00 x00 = a. Proof. destruct a; reflexivity. Qed.
Lemma bx4_3 a : bx4 x00 x00 a x00 = a. Proof. destruct a; reflexivity. Qed.
Lemma bx4_4 a : bx4 x00 x00 x00 a = a. Proof. destruct a; reflexivity. Qed.

(* ---------- InvMixColumns after MixColumns, one column ---------- *)

(* after regrouping, the coefficient of each input byte is one entry of InvM * M, checked on its 256 values *)
Ltac entries a b c d :=
  f_equal; [clear; destruct a | clear; destruct b | clear; destruct c | clear; destruct d]; reflexivity.
Ltac regroup :=
  rewrite (additive_bx4 mul9 mul9_add), (additive_bx4 mul11 mul11_add),
          (additive_bx4 mul13 mul13_add), (additive_bx4 mul14 mul14_add);
  rewrite bx4_transpose.

Lemma imc0_mc a b c d : imc0 (mc0 a b c d) (mc1 a b c d) (mc2 a b c d) (mc3 a b c d) = a.
Proof.
  unfold imc0, mc0, mc1, mc2, mc3. regroup.
  transitivity (bx4 a x00 x00 x00); [entries a b c d | apply bx4_1].
Qed.
Lemma imc1_mc a b c d : imc1 (mc0 a b c d) (mc1 a b c d) (mc2 a b c d) (mc3 a b c d) = b.
Proof.
  unfold imc1, mc0, mc1, mc2, mc3. regroup.
  transitivity (bx4 x00 b x00 x00); [entries a b c d | apply bx4_2].
Qed.
Lemma imc2_mc a b c d : imc2 (mc0 a b c d) (mc1 a b c d) (mc2 a b c d) (mc3 a b c d) = c.
Proof.
  unfold imc2, mc0, mc1, mc2, mc3. regroup.
  transitivity (bx4 x00 x00 c x00); [entries a b c d | apply bx4_3].
Qed.
Lemma imc3_mc a b c d : imc3 (mc0 a b c d) (mc1 a b c d) (mc2 a b c d) (mc3 a b c d) = d.
Proof.
  unfold imc3, mc0, mc1, mc2, mc3. regroup.
  transitivity (bx4 x00 x00 x00 d); [entries a b c d | apply bx4_4].
Qed.

(* ---------- the four transformations on a state (any list) ---------- *)

Lemma list_ind4 {A} (P : list A -> Prop) :
  P [] -> (forall a, P [a]) -> (forall a b, P [a; b]) -> (forall a b c, P [a; b; c]) ->
  (forall a b c d r, P r -> P (a :: b :: c :: d :: r)) -> forall l, P l.
Proof.
  intros H0 H1 H2 H3 H4 l.
  assert (G: forall n l, length l <= n -> P l).
  { induction n as [|n IH]; intros [|a [|b [|c [|d r]]]] L; cbn [length] in L; auto; try lia.
    apply H4, IH. lia. }
  apply (G (length l)). apply le_n.
Qed.

Lemma inv_mix_mix s : inv_mix_columns (mix_columns s) = s.
Proof.
  induction s as [| | | |a b c d r IH] using list_ind4; try reflexivity.
  cbn [mix_columns inv_mix_columns]. rewrite imc0_mc, imc1_mc, imc2_mc, imc3_mc, IH. reflexivity.
Qed.
Lemma mix_columns_length s : length (mix_columns s) = length s.
Proof.
  induction s as [| | | |a b c d r IH] using list_ind4; try reflexivity.
  cbn [mix_columns length]. rewrite IH. reflexivity.
Qed.
Lemma inv_mix_columns_length s : length (inv_mix_columns s) = length s.
Proof.
  induction s as [| | | |a b c d r IH] using list_ind4; try reflexivity.
  cbn [inv_mix_columns length]. rewrite IH. reflexivity.
Qed.

Ltac list16 s := unfold shift_rows, inv_shift_rows; do 17 (try (destruct s as [|? s]; [reflexivity|])); try reflexivity.

Lemma inv_shift_shift s : inv_shift_rows (shift_rows s) = s.
Proof. list16 s. Qed.
Lemma shift_rows_length s : length (shift_rows s) = length s.
Proof. list16 s. Qed.
Lemma inv_shift_rows_length s : length (inv_shift_rows s) = length s.
Proof. list16 s. Qed.

Lemma inv_sub_sub s : inv_sub_bytes (sub_bytes s) = s.
Proof.
  unfold inv_sub_bytes, sub_bytes. rewrite map_map. rewrite <- (map_id s) at 2.
  apply map_ext. exact inv_sbox_sbox.
Qed.
Lemma sub_bytes_length s : length (sub_bytes s) = length s.
Proof. apply map_length. Qed.
Lemma inv_sub_bytes_length s : length (inv_sub_bytes s) = length s.
Proof. apply map_length. Qed.

Lemma xor_bytes_cancel a : forall k, xor_bytes (xor_bytes a k) k = a.
Proof.
  induction a as [|x a IH]; intros [|y k]; try reflexivity.
  cbn [xor_bytes]. rewrite bxor_cancel, IH. reflexivity.
Qed.
Lemma xor_bytes_length a : forall k, length (xor_bytes a k) = length a.
Proof.
  induction a as [|x a IH]; intros [|y k]; try reflexivity.
  cbn [xor_bytes length]. rewrite IH. reflexivity.
Qed.

(* ---------- rounds ---------- *)

Lemma dec_enc_round k s : dec_round k (enc_round k s) = s.
Proof.
  unfold dec_round, enc_round, add_round_key.
  rewrite xor_bytes_cancel, inv_mix_mix, inv_shift_shift, inv_sub_sub. reflexivity.
Qed.
Lemma dec_enc_final k s : dec_final k (enc_final k s) = s.
Proof.
  unfold dec_final, enc_final, add_round_key.
  rewrite xor_bytes_cancel, inv_shift_shift, inv_sub_sub. reflexivity.
Qed.
Lemma enc_round_length k s : length (enc_round k s) = length s.
Proof.
  unfold enc_round, add_round_key.
  rewrite xor_bytes_length, mix_columns_length, shift_rows_length, sub_bytes_length. reflexivity.
Qed.
Lemma enc_final_length k s : length (enc_final k s) = length s.
Proof.
  unfold enc_final, add_round_key. rewrite xor_bytes_length, shift_rows_length, sub_bytes_length. reflexivity.
Qed.
Lemma dec_round_length k s : length (dec_round k s) = length s.
Proof.
  unfold dec_round, add_round_key.
  rewrite inv_sub_bytes_length, inv_shift_rows_length, inv_mix_columns_length, xor_bytes_length. reflexivity.
Qed.
Lemma dec_final_length k s : length (dec_final k s) = length s.
Proof.
  unfold dec_final, add_round_key.
  rewrite inv_sub_bytes_length, inv_shift_rows_length, xor_bytes_length. reflexivity.
Qed.

Lemma enc_rounds_cons k k' ks s : enc_rounds (k :: k' :: ks) s = enc_rounds (k' :: ks) (enc_round k s).
Proof. reflexivity. Qed.
Lemma dec_rounds_cons k k' ks s : dec_rounds (k :: k' :: ks) s = dec_round k (dec_rounds (k' :: ks) s).
Proof. reflexivity. Qed.

Lemma dec_enc_rounds ks : forall s, dec_rounds ks (enc_rounds ks s) = s.
Proof.
  induction ks as [|k ks IH]; intros s; [reflexivity|].
  destruct ks as [|k' ks]; [apply dec_enc_final|].
  rewrite enc_rounds_cons, dec_rounds_cons, IH. apply dec_enc_round.
Qed.
Lemma enc_rounds_length ks : forall s, length (enc_rounds ks s) = length s.
Proof.
  induction ks as [|k ks IH]; intros s; [reflexivity|].
  destruct ks as [|k' ks]; [apply enc_final_length|].
  rewrite enc_rounds_cons, IH. apply enc_round_length.
Qed.
Lemma dec_rounds_length ks : forall s, length (dec_rounds ks s) = length s.
Proof.
  induction ks as [|k ks IH]; intros s; [reflexivity|].
  destruct ks as [|k' ks]; [apply dec_final_length|].
  rewrite dec_rounds_cons, dec_round_length. apply IH.
Qed.

(* one block, any list of round keys *)
Lemma aes_block_dec_enc w blk : aes_block_dec w (aes_block_enc w blk) = blk.
Proof.
  destruct w as [|k0 ks]; [reflexivity|]. unfold aes_block_dec, aes_block_enc, add_round_key.
  rewrite dec_enc_rounds. apply xor_bytes_cancel.
Qed.
Lemma aes_block_enc_length w blk : length (aes_block_enc w blk) = length blk.
Proof.
  destruct w as [|k0 ks]; [reflexivity|]. unfold aes_block_enc, add_round_key.
  rewrite enc_rounds_length. apply xor_bytes_length.
Qed.
Lemma aes_block_dec_length w blk : length (aes_block_dec w blk) = length blk.
Proof.
  destruct w as [|k0 ks]; [reflexivity|]. unfold aes_block_dec, add_round_key.
  rewrite xor_bytes_length. apply dec_rounds_length.
Qed.

(* ---------- ECB ---------- *)

Lemma firstn_app_exact {A} n (l1 l2 : list A) : length l1 = n -> firstn n (l1 ++ l2) = l1.
Proof. intros <-. rewrite firstn_app, Nat.sub_diag, firstn_all, firstn_O. apply app_nil_r. Qed.
Lemma skipn_app_exact {A} n (l1 l2 : list A) : length l1 = n -> skipn n (l1 ++ l2) = l2.
Proof. intros <-. rewrite skipn_app, Nat.sub_diag, skipn_all. reflexivity. Qed.

Lemma ecb_blocks_length f : (forall b, length (f b) = length b) ->
  forall n data, length (ecb_blocks f n data) = length data.
Proof.
  intros Hf. induction n as [|n IH]; intros data; [reflexivity|].
  cbn [ecb_blocks]. rewrite app_length, Hf, IH, <- app_length, firstn_skipn. reflexivity.
Qed.

Lemma ecb_blocks_inv f g : (forall b, g (f b) = b) -> (forall b, length (f b) = length b) ->
  forall n data, n * 16 <= length data -> ecb_blocks g n (ecb_blocks f n data) = data.
Proof.
  intros Hgf Hf. induction n as [|n IH]; intros data L; [reflexivity|].
  cbn [ecb_blocks].
  assert (Lh: length (f (firstn 16 data)) = 16).
  { rewrite Hf. apply firstn_length_le. cbn [Nat.mul] in L. lia. }
  rewrite (firstn_app_exact 16 _ _ Lh), (skipn_app_exact 16 _ _ Lh), Hgf, IH.
  - apply firstn_skipn.
  - rewrite skipn_length. cbn [Nat.mul] in L. lia.
Qed.

Lemma ecb_length f : (forall b, length (f b) = length b) -> forall data, length (ecb f data) = length data.
Proof. intros Hf data. apply ecb_blocks_length. exact Hf. Qed.

Lemma ecb_inv f g : (forall b, g (f b) = b) -> (forall b, length (f b) = length b) ->
  forall data, ecb g (ecb f data) = data.
Proof.
  intros Hgf Hf data. unfold ecb at 1. rewrite (ecb_length f Hf). unfold ecb.
  apply ecb_blocks_inv; auto.
  rewrite Nat.mul_comm. apply Nat.mul_div_le. discriminate.
Qed.

(* ---------- the cipher pair: exactly the hypotheses of PinProofs.encrypted_property ---------- *)

Theorem aes_dec_enc : forall k x, aes_ecb_dec k (aes_ecb_enc k x) = x.
Proof.
  intros k x. unfold aes_ecb_dec, aes_ecb_enc. cbv zeta.
  apply ecb_inv; [apply aes_block_dec_enc | apply aes_block_enc_length].
Qed.
Theorem aes_enc_length : forall k x, length (aes_ecb_enc k x) = length x.
Proof. intros k x. unfold aes_ecb_enc. cbv zeta. apply ecb_length, aes_block_enc_length. Qed.
Theorem aes_dec_length : forall k x, length (aes_ecb_dec k x) = length x.
Proof. intros k x. unfold aes_ecb_dec. cbv zeta. apply ecb_length, aes_block_dec_length. Qed.

(* ---------- the other composition: Cipher undoes InvCipher (each map is a bijection) ---------- *)

Ltac regroup' :=
  rewrite (additive_bx4 mul2 mul2_add), (additive_bx4 mul3 mul3_add); rewrite bx4_transpose.

Lemma mc0_imc a b c d : mc0 (imc0 a b c d) (imc1 a b c d) (imc2 a b c d) (imc3 a b c d) = a.
Proof.
  unfold mc0, imc0, imc1, imc2, imc3. regroup'.
  transitivity (bx4 a x00 x00 x00); [entries a b c d | apply bx4_1].
Qed.
Lemma mc1_imc a b c d : mc1 (imc0 a b c d) (imc1 a b c d) (imc2 a b c d) (imc3 a b c d) = b.
Proof.
  unfold mc1, imc0, imc1, imc2, imc3. regroup'.
  transitivity (bx4 x00 b x00 x00); [entries a b c d | apply bx4_2].
Qed.
Lemma mc2_imc a b c d : mc2 (imc0 a b c d) (imc1 a b c d) (imc2 a b c d) (imc3 a b c d) = c.
Proof.
  unfold mc2, imc0, imc1, imc2, imc3. regroup'.
  transitivity (bx4 x00 x00 c x00); [entries a b c d | apply bx4_3].
Qed.
Lemma mc3_imc a b c d : mc3 (imc0 a b c d) (imc1 a b c d) (imc2 a b c d) (imc3 a b c d) = d.
Proof.
  unfold mc3, imc0, imc1, imc2, imc3. regroup'.
  transitivity (bx4 x00 x00 x00 d); [entries a b c d | apply bx4_4].
Qed.

Lemma mix_inv_mix s : mix_columns (inv_mix_columns s) = s.
Proof.
  induction s as [| | | |a b c d r IH] using list_ind4; try reflexivity.
  cbn [mix_columns inv_mix_columns]. rewrite mc0_imc, mc1_imc, mc2_imc, mc3_imc, IH. reflexivity.
Qed.
Lemma shift_inv_shift s : shift_rows (inv_shift_rows s) = s.
Proof. list16 s. Qed.
Lemma sub_inv_sub s : sub_bytes (inv_sub_bytes s) = s.
Proof.
  unfold inv_sub_bytes, sub_bytes. rewrite map_map. rewrite <- (map_id s) at 2.
  apply map_ext. exact sbox_inv_sbox.
Qed.

Lemma enc_dec_round k s : enc_round k (dec_round k s) = s.
Proof.
  unfold dec_round, enc_round, add_round_key.
  rewrite sub_inv_sub, shift_inv_shift, mix_inv_mix. apply xor_bytes_cancel.
Qed.
Lemma enc_dec_final k s : enc_final k (dec_final k s) = s.
Proof.
  unfold dec_final, enc_final, add_round_key. rewrite sub_inv_sub, shift_inv_shift. apply xor_bytes_cancel.
Qed.
Lemma enc_dec_rounds ks : forall s, enc_rounds ks (dec_rounds ks s) = s.
Proof.
  induction ks as [|k ks IH]; intros s; [reflexivity|].
  destruct ks as [|k' ks]; [apply enc_dec_final|].
  rewrite enc_rounds_cons, dec_rounds_cons, enc_dec_round. apply IH.
Qed.
Lemma aes_block_enc_dec w blk : aes_block_enc w (aes_block_dec w blk) = blk.
Proof.
  destruct w as [|k0 ks]; [reflexivity|]. unfold aes_block_dec, aes_block_enc, add_round_key.
  rewrite xor_bytes_cancel. apply enc_dec_rounds.
Qed.
Theorem aes_enc_dec : forall k x, aes_ecb_enc k (aes_ecb_dec k x) = x.
Proof.
  intros k x. unfold aes_ecb_dec, aes_ecb_enc. cbv zeta.
  apply ecb_inv; [apply aes_block_enc_dec | apply aes_block_dec_length].
Qed.

(* ---------- known answers ---------- *)

(* the key schedule: 11 / 13 / 15 round keys of 16 bytes; the last one as printed in FIPS 197 Appendix A.1-A.3
   (w40..w43, w48..w51, w56..w59) *)
Example aes_key_schedule_fips197_A :
  let k32 := [x60; x3d; xeb; x10; x15; xca; x71; xbe; x2b; x73; xae; xf0; x85; x7d; x77; x81;
              x1f; x35; x2c; x07; x3b; x61; x08; xd7; x2d; x98; x10; xa3; x09; x14; xdf; xf4] in
  let k24 := [x8e; x73; xb0; xf7; xda; x0e; x64; x52; xc8; x10; xf3; x2b; x80; x90; x79; xe5;
              x62; xf8; xea; xd2; x52; x2c; x6b; x7b] in
  let k16 := [x2b; x7e; x15; x16; x28; xae; xd2; xa6; xab; xf7; x15; x88; x09; xcf; x4f; x3c] in
  map (@length byte) (key_schedule k16) = repeat 16 11 /\
  map (@length byte) (key_schedule k24) = repeat 16 13 /\
  map (@length byte) (key_schedule k32) = repeat 16 15 /\
  hd [] (key_schedule k16) = k16 /\
  last (key_schedule k16) [] = [xd0; x14; xf9; xa8; xc9; xee; x25; x89; xe1; x3f; x0c; xc8; xb6; x63; x0c; xa6] /\
  last (key_schedule k24) [] = [xe9; x8b; xa0; x6f; x44; x8c; x77; x3c; x8e; xcc; x72; x04; x01; x00; x22; x02] /\
  last (key_schedule k32) [] = [xfe; x48; x90; xd1; xe6; x18; x8d; x0b; x04; x6d; xf3; x44; x70; x6c; x63; x1e].
Proof. vm_compute. repeat split; reflexivity. Qed.

(* FIPS 197 Appendix C.1 (AES-128) *)
Example aes_kat_fips197_C1 :
  let k := [x00; x01; x02; x03; x04; x05; x06; x07; x08; x09; x0a; x0b; x0c; x0d; x0e; x0f] in
  let p := [x00; x11; x22; x33; x44; x55; x66; x77; x88; x99; xaa; xbb; xcc; xdd; xee; xff] in
  let c := [x69; xc4; xe0; xd8; x6a; x7b; x04; x30; xd8; xcd; xb7; x80; x70; xb4; xc5; x5a] in
  aes_ecb_enc k p = c /\ aes_ecb_dec k c = p.
Proof. vm_compute. split; reflexivity. Qed.

(* FIPS 197 Appendix C.2 (AES-192) *)
Example aes_kat_fips197_C2 :
  let k := [x00; x01; x02; x03; x04; x05; x06; x07; x08; x09; x0a; x0b; x0c; x0d; x0e; x0f; x10; x11; x12; x13; x14; x15; x16; x17] in
  let p := [x00; x11; x22; x33; x44; x55; x66; x77; x88; x99; xaa; xbb; xcc; xdd; xee; xff] in
  let c := [xdd; xa9; x7c; xa4; x86; x4c; xdf; xe0; x6e; xaf; x70; xa0; xec; x0d; x71; x91] in
  aes_ecb_enc k p = c /\ aes_ecb_dec k c = p.
Proof. vm_compute. split; reflexivity. Qed.

(* FIPS 197 Appendix C.3 (AES-256) *)
Example aes_kat_fips197_C3 :
  let k := [x00; x01; x02; x03; x04; x05; x06; x07; x08; x09; x0a; x0b; x0c; x0d; x0e; x0f; x10; x11; x12; x13; x14; x15; x16; x17; x18; x19; x1a; x1b; x1c; x1d; x1e; x1f] in
  let p := [x00; x11; x22; x33; x44; x55; x66; x77; x88; x99; xaa; xbb; xcc; xdd; xee; xff] in
  let c := [x8e; xa2; xb7; xca; x51; x67; x45; xbf; xea; xfc; x49; x90; x4b; x49; x60; x89] in
  aes_ecb_enc k p = c /\ aes_ecb_dec k c = p.
Proof. vm_compute. split; reflexivity. Qed.

(* FIPS 197 Appendix B *)
Example aes_kat_fips197_B :
  let k := [x2b; x7e; x15; x16; x28; xae; xd2; xa6; xab; xf7; x15; x88; x09; xcf; x4f; x3c] in
  let p := [x32; x43; xf6; xa8; x88; x5a; x30; x8d; x31; x31; x98; xa2; xe0; x37; x07; x34] in
  let c := [x39; x25; x84; x1d; x02; xdc; x09; xfb; xdc; x11; x85; x97; x19; x6a; x0b; x32] in
  aes_ecb_enc k p = c /\ aes_ecb_dec k c = p.
Proof. vm_compute. split; reflexivity. Qed.

(* SP 800-38A F.1.1 ECB-AES128.Encrypt, blocks 1-2 *)
Example aes_kat_sp800_38a_F11 :
  let k := [x2b; x7e; x15; x16; x28; xae; xd2; xa6; xab; xf7; x15; x88; x09; xcf; x4f; x3c] in
  let p := [x6b; xc1; xbe; xe2; x2e; x40; x9f; x96; xe9; x3d; x7e; x11; x73; x93; x17; x2a; xae; x2d; x8a; x57; x1e; x03; xac; x9c; x9e; xb7; x6f; xac; x45; xaf; x8e; x51] in
  let c := [x3a; xd7; x7b; xb4; x0d; x7a; x36; x60; xa8; x9e; xca; xf3; x24; x66; xef; x97; xf5; xd3; xd5; x85; x03; xb9; x69; x9d; xe7; x85; x89; x5a; x96; xfd; xba; xaf] in
  aes_ecb_enc k p = c /\ aes_ecb_dec k c = p.
Proof. vm_compute. split; reflexivity. Qed.

(* random vector, 16-byte key, 1 block(s); ciphertext from the Python cryptography package *)
Example aes_kat_random1 :
  let k := [x07; x43; x53; x0a; x60; x3c; x14; xf8; xe9; x32; x68; xd4; x72; x56; x4e; xfa] in
  let p := [xd3; xfc; x9a; xf6; x98; x27; x7c; xd5; x7a; xf3; xfd; xb5; x61; x94; xa4; x8a] in
  let c := [x05; x58; x70; x03; xb6; x20; xad; xd1; x20; x47; x46; x99; x12; x73; x77; xcc] in
  aes_ecb_enc k p = c /\ aes_ecb_dec k c = p.
Proof. vm_compute. split; reflexivity. Qed.

(* random vector, 24-byte key, 2 block(s); ciphertext from the Python cryptography package *)
Example aes_kat_random2 :
  let k := [xaf; xff; x2f; xb8; xba; x91; xbf; x98; x9f; x97; xd8; x83; x2c; x57; xb6; xb9; x5c; xf8; xca; x7e; xa9; xc0; x4d; xd7] in
  let p := [xdf; xda; x1d; xc7; x4a; xa0; x40; x4b; xf4; xae; xc8; xf9; xce; x18; x01; x4f; xcb; x6c; x4d; x66; xa6; x83; x7b; x75; x6b; x85; x3e; xaa; x21; x58; x3b; x00] in
  let c := [xbe; x1e; x07; xaf; x62; x91; xb0; xd2; x65; x83; xa2; xe0; x70; x4c; x64; xd7; x05; x85; x45; x42; xcd; xdc; xa1; x55; x9d; x41; xd7; x23; xa2; x61; xfe; x3e] in
  aes_ecb_enc k p = c /\ aes_ecb_dec k c = p.
Proof. vm_compute. split; reflexivity. Qed.

(* random vector, 32-byte key, 3 block(s); ciphertext from the Python cryptography package *)
Example aes_kat_random3 :
  let k := [x02; x05; xe2; x72; x1d; x5d; xca; xfc; xac; x8a; x4e; x4c; xa2; xdc; x9d; x93; xa9; x5d; xe1; xf0; x34; x48; x5e; x59; x33; xdc; x62; x6c; x2e; x49; x97; x19] in
  let p := [xac; x35; x98; xff; x77; x10; x41; xa7; x40; xed; x1a; x94; x31; x10; x63; xd3; x61; x80; x4a; x3e; xa7; xaa; x74; xc8; x18; x86; x1f; x32; xc5; x1c; x9c; xd4; x73; x2a; x08; x78; xaa; x9a; x4c; x2b; x2e; xe4; xdc; xe5; xec; x42; xd8; x8e] in
  let c := [xb5; x34; xf7; xae; x56; xd2; xec; x0e; x4b; x07; xaf; x30; x2c; xbd; x63; x43; xfa; x17; xdd; xdf; x9a; xe7; xa2; x90; x4c; x8b; xa1; xd5; x2f; x59; x12; x8e; xc3; x48; x1e; x68; xa3; x42; xf2; xd4; x31; xc0; xde; xa7; x1f; x2b; x1c; x7c] in
  aes_ecb_enc k p = c /\ aes_ecb_dec k c = p.
Proof. vm_compute. split; reflexivity. Qed.

(* random vector, 16-byte key, 4 block(s); ciphertext from the Python cryptography package *)
Example aes_kat_random4 :
  let k := [x66; x06; x58; xcf; xcd; x18; x57; x75; x3c; xf9; xd8; x48; x38; xc4; xc3; x29] in
  let p := [xcb; x67; x13; x31; x25; x39; x57; xa0; xc7; x57; x7a; xf3; x8a; xb8; x30; x05; xa1; xf8; x0e; xf8; xa5; xa4; x4f; x93; xc9; x90; x3a; x93; x50; xaa; x1d; x03; x51; xf7; xa0; x64; xf0; x98; xf3; xcf; x80; xa8; x06; xe0; xc9; xa7; x6d; xda; x07; x7e; x68; x38; x47; x69; x5f; x9c; x00; x86; xe8; xaf; x75; x95; x02; x13] in
  let c := [xde; x90; x6c; x25; xe7; xe3; xda; xd1; x77; x12; xf5; xda; x15; x33; xf2; x86; x9d; x32; x20; x49; x54; xeb; xe4; x60; xb6; xad; xb5; x11; xd9; x79; xd4; x1a; xb3; x62; x47; x6e; x24; xb5; x0e; xe5; x8b; x15; x49; x26; x93; xf1; x11; x93; x08; xab; x8c; xbf; x9d; x8b; xe9; xde; xb3; x34; x37; xc0; x79; x81; x38; xdc] in
  aes_ecb_enc k p = c /\ aes_ecb_dec k c = p.
Proof. vm_compute. split; reflexivity. Qed.

(* totality rules: a key of another length acts as the key padded with x00 to 16 / 24 / 32 bytes (cut at 32);
   a trailing partial block is copied *)
Example aes_total_rules :
  let p := [x00; x11; x22; x33; x44; x55; x66; x77; x88; x99; xaa; xbb; xcc; xdd; xee; xff] in
  aes_ecb_enc [x01; x02; x03] p = aes_ecb_enc ([x01; x02; x03] ++ repeat x00 13) p /\
  aes_ecb_enc (repeat x07 17) p = aes_ecb_enc (repeat x07 17 ++ repeat x00 7) p /\
  aes_ecb_enc (repeat x07 40) p = aes_ecb_enc (repeat x07 32) p /\
  aes_ecb_enc (repeat x07 16) (p ++ [x01; x02]) = aes_ecb_enc (repeat x07 16) p ++ [x01; x02] /\
  aes_ecb_enc (repeat x07 16) [x01; x02] = [x01; x02].
Proof. vm_compute. repeat split; reflexivity. Qed.

Definition aes_known_answers :=
  (aes_key_schedule_fips197_A, aes_kat_fips197_C1, aes_kat_fips197_C2, aes_kat_fips197_C3, aes_kat_fips197_B,
   aes_kat_sp800_38a_F11, aes_kat_random1, aes_kat_random2, aes_kat_random3, aes_kat_random4, aes_total_rules).
