(* BlockProofs.v — proofs about the 1014 blocker / unblocker model (model/Block.v) against
   spec/FramingSpec.v.  Generic in the payload size B > 0. *)
From Coq Require Import List Arith NArith Lia Bool.
From Coq Require Export Strings.Byte.   (* Export: props/C04.v and C05.v use the byte literals x01.. without importing Byte *)
Require Import CU.model.Prim CU.model.Block CU.spec.FramingSpec.
Import ListNotations.
Open Scope nat_scope.

(* ---------- generic list helpers ---------- *)
Lemma bp_firstn_exact {A} n (a b : list A) : length a = n -> firstn n (a ++ b) = a.
Proof. intros <-. rewrite firstn_app, Nat.sub_diag, firstn_all. cbn [firstn]. apply app_nil_r. Qed.

Lemma bp_skipn_exact {A} n (a b : list A) : length a = n -> skipn n (a ++ b) = b.
Proof. intros <-. rewrite skipn_app, Nat.sub_diag, skipn_all. reflexivity. Qed.

Lemma bp_skipn_add {A} : forall m n (l : list A), skipn n (skipn m l) = skipn (m + n) l.
Proof.
  induction m as [|m IH]; intros n l; [reflexivity|].
  destruct l as [|a l]; [cbn [skipn plus]; apply skipn_nil|]. cbn [skipn plus]. apply IH.
Qed.

Lemma bp_skipn_firstn_len {A} n (l : list A) : skipn (length (firstn n l)) l = skipn n l.
Proof.
  rewrite firstn_length. destruct (Nat.le_gt_cases n (length l)) as [H|H].
  - rewrite Nat.min_l by exact H. reflexivity.
  - rewrite Nat.min_r by lia. rewrite skipn_all, skipn_all2 by lia. reflexivity.
Qed.

Lemma bp_firstn_nonnil {A} n (l : list A) : 0 < n -> l <> [] -> firstn n l <> [].
Proof. intros Hn Hl. destruct n; [lia|]. destruct l; [contradiction|]. discriminate. Qed.

Lemma bp_firstn_firstn_le {A} n m (l : list A) : n <= m -> firstn n (firstn m l) = firstn n l.
Proof. intros H. rewrite firstn_firstn. f_equal. lia. Qed.

(* ---------- file object ---------- *)
(* what is still unread *)
Definition rest (f : fobj) : bytes := skipn (fpos f) (fdata f).
Definition fadv (f : fobj) (n : nat) : fobj := snd (fread f n).
(* append mode: the position is at the end of the data *)
Definition appm (f : fobj) : Prop := fpos f = length (fdata f).

Lemma fread_eq f n : fread f n = (firstn n (rest f), fadv f n).
Proof. reflexivity. Qed.

Lemma rest_fadv f n : rest (fadv f n) = skipn n (rest f).
Proof.
  unfold fadv, fread, rest. cbn [snd fdata fpos].
  rewrite <- bp_skipn_add. apply bp_skipn_firstn_len.
Qed.

Lemma rest_fopen d : rest (fopen d) = d.
Proof. reflexivity. Qed.

Lemma rest_length f : length (rest f) = length (fdata f) - fpos f.
Proof. unfold rest. apply skipn_length. Qed.

Lemma fwrite_append f b : fpos f = length (fdata f) -> fwrite f b = mkf (fdata f ++ b) (fpos f + length b).
Proof.
  intros H. unfold fwrite. cbv zeta. rewrite H, firstn_all, Nat.sub_diag. cbn [repeat].
  rewrite app_nil_r. rewrite skipn_all2 by lia. rewrite app_nil_r. reflexivity.
Qed.

Lemma fwrite_data f b : appm f -> fdata (fwrite f b) = fdata f ++ b.
Proof. intros H. rewrite fwrite_append by exact H. reflexivity. Qed.

Lemma fwrite_appm f b : appm f -> appm (fwrite f b).
Proof.
  intros H. rewrite fwrite_append by exact H. unfold appm in *. cbn [fpos fdata].
  rewrite app_length. lia.
Qed.

Lemma appm_fempty : appm fempty.
Proof. reflexivity. Qed.

Section BlockProofs.
Variable B : nat.
Hypothesis Bpos : 0 < B.
Set Default Proof Using "Bpos".

(* ---------- the documented layout ---------- *)
Lemma layout_fuel : forall f1 f2 d, length d <= f1 -> length d <= f2 -> layout B f1 d = layout B f2 d.
Proof.
  induction f1 as [|f1 IH]; intros f2 d H1 H2.
  - destruct d as [|a d]; [|cbn [length] in H1; lia]. destruct f2 as [|f2]; [reflexivity|].
    cbn [layout length]. destruct (0 <? B) eqn:E; [reflexivity|]. apply Nat.ltb_ge in E. lia.
  - destruct f2 as [|f2].
    + destruct d as [|a d]; [|cbn [length] in H2; lia]. cbn [layout length].
      destruct (0 <? B) eqn:E; [reflexivity|]. apply Nat.ltb_ge in E; lia.
    + cbn [layout]. destruct (length d <? B) eqn:E; [reflexivity|].
      apply Nat.ltb_ge in E. f_equal. f_equal. apply IH; rewrite skipn_length; lia.
Qed.

Lemma lay_nil : lay B [] = [].
Proof. reflexivity. Qed.

Lemma lay_small : forall d, length d < B -> lay B d = d.
Proof.
  intros d H. unfold lay. destruct (length d) as [|n] eqn:E; [reflexivity|]. cbn [layout]. rewrite E.
  apply Nat.ltb_lt in H. rewrite H. reflexivity.
Qed.

Lemma lay_chunk : forall c d, length c = B -> lay B (c ++ d) = c ++ trailer ++ lay B d.
Proof.
  intros c d Hc. unfold lay. rewrite app_length, Hc.
  destruct (B + length d) as [|n] eqn:E; [lia|]. cbn [layout]. rewrite app_length, Hc.
  destruct (B + length d <? B) eqn:E2. { apply Nat.ltb_lt in E2. lia. }
  rewrite (bp_firstn_exact B c d Hc), (bp_skipn_exact B c d Hc).
  f_equal. f_equal. apply layout_fuel; lia.
Qed.

Lemma lay_app : forall d1 d2, (exists k, length d1 = k * B) -> lay B (d1 ++ d2) = lay B d1 ++ lay B d2.
Proof.
  intros d1 d2 [k Hk]. revert d1 Hk. induction k as [|k IH]; intros d1 Hk.
  - cbn [Nat.mul] in Hk. destruct d1 as [|a d1]; [reflexivity|cbn [length] in Hk; lia].
  - assert (Hl: B <= length d1) by (cbn [Nat.mul] in Hk; lia).
    assert (Hf: length (firstn B d1) = B) by (rewrite firstn_length; lia).
    assert (Hs: length (skipn B d1) = k * B) by (rewrite skipn_length; cbn [Nat.mul] in Hk; lia).
    rewrite <- (firstn_skipn B d1) at 1 2. rewrite <- app_assoc.
    rewrite (lay_chunk (firstn B d1) (skipn B d1 ++ d2) Hf).
    rewrite (lay_chunk (firstn B d1) (skipn B d1) Hf).
    rewrite (IH _ Hs). rewrite <- !app_assoc. reflexivity.
Qed.

(* ---------- payload / wf_blocks: fuel and unfolding ---------- *)
Lemma payload_fuel_eq : forall k1 k2 f, length f <= k1 -> length f <= k2 ->
  payload_fuel B k1 f = payload_fuel B k2 f.
Proof.
  induction k1 as [|k1 IH]; intros k2 f H1 H2.
  - destruct f as [|a f]; [|cbn [length] in H1; lia]. destruct k2; reflexivity.
  - destruct k2 as [|k2]. { destruct f as [|a f]; [reflexivity|cbn [length] in H2; lia]. }
    cbn [payload_fuel]. destruct f as [|a f]; [reflexivity|]. f_equal.
    apply IH; rewrite skipn_length; cbn [length] in *; lia.
Qed.

Lemma payload_nil : payload B [] = [].
Proof. reflexivity. Qed.

(* holds for the empty string too *)
Lemma payload_unfold : forall f, payload B f = firstn B f ++ payload B (skipn (B + 2) f).
Proof.
  intros f. destruct f as [|a f].
  - rewrite skipn_nil, firstn_nil. reflexivity.
  - unfold payload. cbn [length payload_fuel]. f_equal.
    apply payload_fuel_eq; rewrite skipn_length; cbn [length]; lia.
Qed.

Lemma payload_small : forall f, length f <= B -> payload B f = f.
Proof.
  intros f H. rewrite payload_unfold. rewrite firstn_all2 by exact H. rewrite skipn_all2 by lia.
  rewrite payload_nil. apply app_nil_r.
Qed.

Lemma wf_fuel_eq : forall k1 k2 f, length f <= k1 -> length f <= k2 ->
  wf_blocks_fuel B k1 f = wf_blocks_fuel B k2 f.
Proof.
  induction k1 as [|k1 IH]; intros k2 f H1 H2.
  - destruct f as [|a f]; [|cbn [length] in H1; lia]. destruct k2; reflexivity.
  - destruct k2 as [|k2]. { destruct f as [|a f]; [reflexivity|cbn [length] in H2; lia]. }
    cbn [wf_blocks_fuel]. destruct f as [|a f]; [reflexivity|]. f_equal.
    apply IH; rewrite skipn_length; cbn [length] in *; lia.
Qed.

Lemma wf_nil : wf_blocks B [] = true.
Proof. reflexivity. Qed.

Lemma wf_step : forall f, f <> [] ->
  wf_blocks B f = Nat.eqb (length (firstn (B + 2) f)) (B + 2)
                  && bytes_eqb (skipn B (firstn (B + 2) f)) trailer
                  && wf_blocks B (skipn (B + 2) f).
Proof.
  intros f H. destruct f as [|a f]; [contradiction|]. unfold wf_blocks. cbn [length wf_blocks_fuel].
  f_equal. apply wf_fuel_eq; rewrite skipn_length; cbn [length]; lia.
Qed.

Lemma chunk_nonnil (c r : bytes) : c ++ trailer ++ r <> [].
Proof. intros H. apply (f_equal (@length byte)) in H. rewrite !app_length in H. cbn [length trailer] in H. lia. Qed.

Lemma chunk_len (c : bytes) : length c = B -> length (c ++ trailer) = B + 2.
Proof. intros H. rewrite app_length, H. reflexivity. Qed.

Lemma payload_chunk : forall c r, length c = B -> payload B (c ++ trailer ++ r) = c ++ payload B r.
Proof.
  intros c r Hc. rewrite payload_unfold. rewrite (bp_firstn_exact B c _ Hc).
  rewrite app_assoc. rewrite (bp_skipn_exact (B + 2) (c ++ trailer) r (chunk_len c Hc)). reflexivity.
Qed.

Lemma wf_chunk : forall c r, length c = B -> wf_blocks B (c ++ trailer ++ r) = wf_blocks B r.
Proof.
  intros c r Hc. rewrite wf_step by apply chunk_nonnil.
  rewrite app_assoc. rewrite (bp_firstn_exact (B + 2) (c ++ trailer) r (chunk_len c Hc)).
  rewrite (bp_skipn_exact (B + 2) (c ++ trailer) r (chunk_len c Hc)).
  rewrite (chunk_len c Hc), Nat.eqb_refl. rewrite (bp_skipn_exact B c trailer Hc).
  reflexivity.
Qed.

(* payload inverts lay, for every d *)
Lemma payload_lay : forall d, payload B (lay B d) = d.
Proof.
  intros d. remember (length d) as n eqn:Hn. assert (Hle : length d <= n) by lia. clear Hn.
  revert d Hle. induction n as [|n IH]; intros d Hle.
  - destruct d as [|a d]; [reflexivity|cbn [length] in Hle; lia].
  - destruct (Nat.lt_ge_cases (length d) B) as [Hs|Hb].
    + rewrite lay_small by exact Hs. apply payload_small. lia.
    + assert (Hf: length (firstn B d) = B) by (rewrite firstn_length; lia).
      rewrite <- (firstn_skipn B d) at 1. rewrite (lay_chunk _ _ Hf), (payload_chunk _ _ Hf).
      rewrite IH by (rewrite skipn_length; lia). apply firstn_skipn.
Qed.

(* ---------- payload of a cut file ---------- *)
Lemma payload_len_small k : k < B + 2 -> payload_len B k = Nat.min k B.
Proof.
  intros H. unfold payload_len. rewrite Nat.div_small, Nat.mod_small by exact H. reflexivity.
Qed.

Lemma payload_len_step k : B + 2 <= k -> payload_len B k = B + payload_len B (k - (B + 2)).
Proof.
  intros H. unfold payload_len. remember (k - (B + 2)) as j eqn:Hj.
  assert (E : k = j + 1 * (B + 2)) by lia. rewrite E.
  rewrite Nat.div_add, Nat.mod_add by lia. rewrite Nat.mul_add_distr_r. lia.
Qed.

Lemma payload_firstn_aux : forall n f k, k <= n ->
  payload B (firstn k f) = firstn (payload_len B k) (payload B f).
Proof.
  induction n as [|n IH]; intros f k Hle.
  - assert (k = 0) by lia. subst k. rewrite payload_len_small by lia. reflexivity.
  - destruct (Nat.lt_ge_cases k (B + 2)) as [Hk|Hk].
    + (* the cut falls inside the first block *)
      rewrite payload_len_small by exact Hk.
      rewrite (payload_unfold (firstn k f)).
      rewrite (skipn_all2 (n:=B + 2) (firstn k f)) by (rewrite firstn_length; lia).
      rewrite payload_nil, app_nil_r, firstn_firstn.
      rewrite (payload_unfold f).
      destruct (Nat.le_gt_cases (length f) B) as [Hf|Hf].
      * rewrite (skipn_all2 (n:=B + 2) f) by lia. rewrite payload_nil, app_nil_r, firstn_firstn.
        f_equal. lia.
      * rewrite firstn_app, firstn_firstn, firstn_length.
        replace (Nat.min k B - Nat.min B (length f)) with 0 by lia.
        cbn [firstn]. rewrite app_nil_r. f_equal. lia.
    + rewrite (payload_len_step k Hk).
      destruct (Nat.lt_ge_cases (length f) B) as [Hf|Hf].
      * rewrite (firstn_all2 (n:=k) f) by lia. rewrite (payload_small f) by lia.
        rewrite firstn_all2 by lia. reflexivity.
      * assert (Hl : length (firstn B f) = B) by (rewrite firstn_length; lia).
        rewrite (payload_unfold (firstn k f)). rewrite bp_firstn_firstn_le by lia.
        rewrite skipn_firstn_comm. rewrite (IH (skipn (B + 2) f) (k - (B + 2))) by lia.
        rewrite (payload_unfold f).
        rewrite firstn_app, Hl. rewrite (firstn_all2 (n:=B + payload_len B (k - (B + 2)))) by lia.
        f_equal. f_equal. lia.
Qed.

Lemma payload_firstn : forall f k, payload B (firstn k f) = firstn (payload_len B k) (payload B f).
Proof. intros f k. apply (payload_firstn_aux k f k). lia. Qed.

(* ---------- Block1014: the streaming blocker ---------- *)
Lemma wloop_spec : forall fuel f b, appm f -> length b <= fuel ->
  exists f' l, wloop B fuel f b = (f', l) /\
    exists d0, b = d0 ++ l /\ (exists k, length d0 = k * B) /\
               fdata f' = fdata f ++ lay B d0 /\ appm f' /\ length l <= B.
Proof.
  induction fuel as [|fuel IH]; intros f b Hf Hb.
  - destruct b as [|a b]; [|cbn [length] in Hb; lia]. exists f, []. split; [reflexivity|].
    exists []. repeat split; auto.
    + exists 0; reflexivity.
    + rewrite lay_nil, app_nil_r. reflexivity.
    + cbn [length]. lia.
  - cbn [wloop]. destruct (B <? length b) eqn:E.
    + apply Nat.ltb_lt in E.
      assert (Hf1 : appm (fwrite (fwrite f (firstn B b)) trailer)) by (apply fwrite_appm, fwrite_appm, Hf).
      destruct (IH _ (skipn B b) Hf1) as [f' [l [H0 [d0 [H1 [[k H2] [H3 [H4 H5]]]]]]]].
      { rewrite skipn_length. lia. }
      exists f', l. split; [exact H0|]. exists (firstn B b ++ d0). repeat split.
      * rewrite <- app_assoc, <- H1, firstn_skipn. reflexivity.
      * exists (S k). rewrite app_length, firstn_length. cbn [Nat.mul]. lia.
      * rewrite H3. rewrite fwrite_data by (apply fwrite_appm, Hf). rewrite fwrite_data by exact Hf.
        rewrite lay_chunk by (rewrite firstn_length; lia). rewrite <- !app_assoc. reflexivity.
      * exact H4.
      * exact H5.
    + apply Nat.ltb_ge in E. exists f, b. split; [reflexivity|]. exists []. repeat split; auto.
      * exists 0; reflexivity.
      * rewrite lay_nil, app_nil_r. reflexivity.
Qed.

(* what is on disk before finalisation: whole blocks of D0, then the pending partial block t *)
Definition Inv (s : blocker) (D : bytes) : Prop :=
  exists D0 t, D = D0 ++ t /\ (exists k, length D0 = k * B) /\ length t + brem s = B /\
               fdata (bfile s) = lay B D0 ++ t /\ fpos (bfile s) = length (fdata (bfile s)).

Lemma binit_inv : Inv (binit B fempty) [].
Proof. exists [], []. cbn. repeat split; auto. exists 0; reflexivity. Qed.

Lemma bwrite_inv s D b : Inv s D -> Inv (bwrite B s b) (D ++ b).
Proof.
  intros [D0 [t [HD [[k Hk] [Hr [Ho Ha]]]]]]. unfold bwrite.
  destruct (length b <? brem s) eqn:E.
  - apply Nat.ltb_lt in E. exists D0, (t ++ b). cbn [bfile brem]. repeat split.
    + rewrite HD, app_assoc. reflexivity.
    + exists k; exact Hk.
    + rewrite app_length. lia.
    + rewrite fwrite_data by exact Ha. rewrite Ho, app_assoc. reflexivity.
    + apply (fwrite_appm (bfile s) b Ha).
  - apply Nat.ltb_ge in E. cbv zeta.
    set (first := firstn (brem s) b). set (rs := skipn (brem s) b).
    assert (Hf1 : appm (fwrite (fwrite (bfile s) first) trailer)) by (apply fwrite_appm, fwrite_appm, Ha).
    destruct (wloop_spec (length rs) _ rs Hf1 (le_n _)) as [f2 [l [W0 [d0 [H1 [[k2 H2] [H3 [H4 H5]]]]]]]].
    rewrite W0.
    assert (Hfl: length (t ++ first) = B) by (unfold first; rewrite app_length, firstn_length; lia).
    exists (D0 ++ (t ++ first) ++ d0), l. cbn [bfile brem]. repeat split.
    + rewrite HD. rewrite <- !app_assoc. f_equal. f_equal.
      rewrite <- (firstn_skipn (brem s) b) at 1. fold first. fold rs. rewrite H1. reflexivity.
    + exists (k + 1 + k2). rewrite !app_length in *. lia.
    + lia.
    + rewrite fwrite_data by exact H4. rewrite H3.
      rewrite fwrite_data by (apply fwrite_appm, Ha). rewrite fwrite_data by exact Ha.
      rewrite Ho. rewrite (lay_app D0) by (exists k; exact Hk).
      rewrite <- app_assoc. rewrite (lay_chunk (t ++ first) d0 Hfl). rewrite <- !app_assoc. reflexivity.
    + apply (fwrite_appm f2 l H4).
Qed.

Lemma bwrites_inv ws : Inv (fold_left (bwrite B) ws (binit B fempty)) (concat ws).
Proof.
  assert (G: forall ws s D, Inv s D -> Inv (fold_left (bwrite B) ws s) (D ++ concat ws)).
  { induction ws0 as [|w ws0 IH]; intros s D H; cbn [fold_left concat].
    - rewrite app_nil_r; exact H.
    - rewrite app_assoc. apply IH. apply bwrite_inv; exact H. }
  apply (G ws (binit B fempty) []). apply binit_inv.
Qed.

Lemma blocker_stream_inv : forall ws, let s := fold_left (bwrite B) ws (binit B fempty) in
  exists D0 t, concat ws = D0 ++ t /\ (exists k, length D0 = k * B) /\ length t + brem s = B /\
               fdata (bfile s) = lay B D0 ++ t /\ fpos (bfile s) = length (fdata (bfile s)).
Proof. intros ws s. exact (bwrites_inv ws). Qed.

Lemma c04_every_write_sequence : forall ws,
  brem (fold_left (bwrite B) ws (binit B fempty)) <= B /\
  (exists k, length (concat ws) + brem (fold_left (bwrite B) ws (binit B fempty)) = k * B) /\
  fdata (bfile (bfinalise B (fold_left (bwrite B) ws (binit B fempty)))) =
    lay B (concat ws ++ repeat pad (brem (fold_left (bwrite B) ws (binit B fempty)))).
Proof.
  intros ws. destruct (bwrites_inv ws) as [D0 [t [HD [[k Hk] [Hr [Ho Ha]]]]]].
  set (s := fold_left (bwrite B) ws (binit B fempty)) in *.
  split; [lia|]. split.
  - exists (k + 1). rewrite HD, app_length. lia.
  - unfold bfinalise. cbn [bfile]. rewrite fwrite_data by exact Ha. rewrite Ho, HD.
    rewrite <- !app_assoc. rewrite (lay_app D0) by (exists k; exact Hk). f_equal.
    rewrite <- (app_nil_r (t ++ repeat pad (brem s))).
    rewrite lay_chunk by (rewrite app_length, repeat_length; lia).
    rewrite lay_nil, app_nil_r. rewrite repeat_app. rewrite <- !app_assoc. reflexivity.
Qed.

Lemma c04_layout_blocks : forall d k, length d = k * B ->
  length (lay B d) = k * (B + 2) /\ wf_blocks B (lay B d) = true /\ payload B (lay B d) = d.
Proof.
  intros d k Hk. split; [|split; [|apply payload_lay]].
  - revert d Hk. induction k as [|k IH]; intros d Hk.
    + destruct d as [|a d]; [reflexivity|cbn [Nat.mul length] in Hk; lia].
    + assert (Hf: length (firstn B d) = B) by (rewrite firstn_length; cbn [Nat.mul] in Hk; lia).
      rewrite <- (firstn_skipn B d). rewrite (lay_chunk _ _ Hf). rewrite !app_length, Hf.
      rewrite IH by (rewrite skipn_length; cbn [Nat.mul] in Hk; lia).
      cbn [length trailer Nat.mul]. lia.
  - revert d Hk. induction k as [|k IH]; intros d Hk.
    + destruct d as [|a d]; [reflexivity|cbn [Nat.mul length] in Hk; lia].
    + assert (Hf: length (firstn B d) = B) by (rewrite firstn_length; cbn [Nat.mul] in Hk; lia).
      rewrite <- (firstn_skipn B d). rewrite (lay_chunk _ _ Hf), (wf_chunk _ _ Hf).
      apply IH. rewrite skipn_length; cbn [Nat.mul] in Hk; lia.
Qed.

(* ---------- block_1014 one-shot ---------- *)
Lemma fill_len_0 : fill_len B 0 = 0.
Proof. unfold fill_len. rewrite Nat.mod_0_l by lia. rewrite Nat.sub_0_r. apply Nat.mod_same. lia. Qed.

Lemma fill_len_small n : 0 < n < B -> fill_len B n = B - n.
Proof. intros H. unfold fill_len. rewrite (Nat.mod_small n B) by lia. apply Nat.mod_small. lia. Qed.

Lemma fill_len_add m k : fill_len B (m + k * B) = fill_len B m.
Proof. unfold fill_len. rewrite Nat.mod_add by lia. reflexivity. Qed.

Lemma fill_len_step n : B <= n -> fill_len B n = fill_len B (n - B).
Proof. intros H. rewrite <- (fill_len_add (n - B) 1). f_equal. lia. Qed.

Lemma fill_total n : exists k, n + fill_len B n = k * B.
Proof.
  assert (HB : B <> 0) by lia. pose proof (Nat.div_mod n B HB) as E.
  pose proof (Nat.mod_upper_bound n B HB) as U.
  destruct (Nat.eq_dec (n mod B) 0) as [Z|Z].
  - exists (n / B). unfold fill_len. rewrite Z, Nat.sub_0_r, Nat.mod_same by exact HB. lia.
  - exists (S (n / B)). unfold fill_len. rewrite (Nat.mod_small (B - n mod B) B) by lia.
    cbn [Nat.mul]. lia.
Qed.

Lemma block_loop_spec : forall fuel inp out, appm out -> length (rest inp) < fuel ->
  fdata (snd (block_loop B fuel inp out)) =
  fdata out ++ lay B (rest inp ++ repeat pad (fill_len B (length (rest inp)))).
Proof.
  induction fuel as [|fuel IH]; intros inp out Ho Hl; [lia|].
  cbn [block_loop]. rewrite fread_eq. cbv beta iota zeta.
  pose proof (rest_fadv inp B) as Hadv. remember (rest inp) as r eqn:Er.
  destruct r as [|a r'].
  - rewrite firstn_nil. cbn [snd length]. rewrite fill_len_0. cbn [repeat app]. rewrite lay_nil, app_nil_r.
    reflexivity.
  - remember (a :: r') as r eqn:Erd.
    assert (Hne : firstn B r <> []) by (apply bp_firstn_nonnil; [exact Bpos|subst r; discriminate]).
    destruct (firstn B r) as [|x xs] eqn:Eb; [contradiction|]. rewrite <- Eb. clear Eb Hne.
    assert (Hpos : 0 < length r) by (subst r; cbn [length]; lia).
    rewrite IH.
    2:{ apply fwrite_appm, Ho. }
    2:{ rewrite Hadv, skipn_length. lia. }
    rewrite fwrite_data by exact Ho. rewrite Hadv. rewrite <- !app_assoc. f_equal.
    destruct (Nat.lt_ge_cases (length r) B) as [Hs|Hb].
    + rewrite (firstn_all2 (n:=B) r) by lia. rewrite (skipn_all2 (n:=B) r) by lia.
      cbn [length app]. rewrite fill_len_0. cbn [repeat]. rewrite lay_nil, app_nil_r.
      rewrite fill_len_small by lia.
      rewrite <- (app_nil_r (r ++ repeat pad (B - length r))).
      rewrite lay_chunk by (rewrite app_length, repeat_length; lia).
      rewrite lay_nil, app_nil_r, <- app_assoc. reflexivity.
    + assert (Hf: length (firstn B r) = B) by (rewrite firstn_length; lia).
      rewrite Hf, Nat.sub_diag. cbn [repeat app].
      rewrite <- (firstn_skipn B r) at 4. rewrite <- app_assoc. rewrite (lay_chunk _ _ Hf).
      rewrite skipn_length. rewrite (fill_len_step (length r) Hb). reflexivity.
Qed.

Lemma c04_oneshot : forall d, block_oneshot B d = blocked_oneshot B d.
Proof.
  intros d. unfold block_oneshot, blocked_oneshot.
  rewrite block_loop_spec; [|exact appm_fempty|rewrite rest_fopen; lia].
  rewrite rest_fopen. reflexivity.
Qed.

Lemma c04_stream_vs_oneshot : forall ws,
  fdata (bfile (bfinalise B (fold_left (bwrite B) ws (binit B fempty)))) =
  block_oneshot B (concat ws) ++
  (if Nat.eqb (brem (fold_left (bwrite B) ws (binit B fempty))) B then repeat pad (B + 2) else []).
Proof.
  intros ws. destruct (c04_every_write_sequence ws) as [_ [_ Hout]]. rewrite Hout. clear Hout.
  rewrite c04_oneshot. unfold blocked_oneshot.
  destruct (bwrites_inv ws) as [D0 [t [HD [[k Hk] [Hr _]]]]].
  set (s := fold_left (bwrite B) ws (binit B fempty)) in *.
  assert (HL : length (concat ws) = length t + k * B) by (rewrite HD, app_length; lia).
  rewrite HL, fill_len_add.
  destruct (Nat.eqb_spec (brem s) B) as [Eq|Ne].
  - assert (Ht : t = []) by (destruct t; [reflexivity|cbn [length] in Hr; lia]).
    subst t. cbn [length]. rewrite fill_len_0. cbn [repeat]. rewrite !app_nil_r in *.
    rewrite Eq. rewrite HD. rewrite (lay_app D0) by (exists k; exact Hk). f_equal.
    rewrite <- (app_nil_r (repeat pad B)).
    rewrite lay_chunk by apply repeat_length. rewrite lay_nil, !app_nil_r.
    rewrite repeat_app. reflexivity.
  - rewrite app_nil_r. f_equal. f_equal. f_equal.
    destruct (Nat.eq_dec (brem s) 0) as [Z|Z].
    + rewrite Z. replace (length t) with (0 + 1 * B) by lia. rewrite fill_len_add. symmetry. apply fill_len_0.
    + rewrite fill_len_small by lia. lia.
Qed.

(* ---------- unblock_1014 one-shot ---------- *)
Lemma unblock_loop_spec : forall fuel inp out, appm out -> length (rest inp) < fuel ->
  (wf_blocks B (rest inp) = true ->
     exists o', unblock_loop B fuel inp out = Ok o' /\ fdata o' = fdata out ++ payload B (rest inp)) /\
  (wf_blocks B (rest inp) = false -> unblock_loop B fuel inp out = Raise EData).
Proof.
  induction fuel as [|fuel IH]; intros inp out Ho Hl; [lia|].
  cbn [unblock_loop]. rewrite fread_eq. cbv beta iota.
  pose proof (rest_fadv inp (B + 2)) as Hadv. remember (rest inp) as r eqn:Er.
  destruct r as [|a r'].
  - rewrite firstn_nil. split.
    + intros _. exists out. split; [reflexivity|]. rewrite payload_nil, app_nil_r. reflexivity.
    + rewrite wf_nil. discriminate.
  - remember (a :: r') as r eqn:Erd.
    assert (Hnr : r <> []) by (subst r; discriminate).
    assert (Hne : firstn (B + 2) r <> []) by (apply bp_firstn_nonnil; [lia|exact Hnr]).
    assert (Hpos : 0 < length r) by (subst r; cbn [length]; lia).
    rewrite (wf_step r Hnr). rewrite (payload_unfold r).
    destruct (firstn (B + 2) r) as [|x xs] eqn:Eb; [contradiction|]. rewrite <- Eb. clear Hne.
    destruct (Nat.eqb (length (firstn (B + 2) r)) (B + 2)) eqn:El; cbn [negb andb].
    + apply Nat.eqb_eq in El. unfold lastn. rewrite El.
      replace (B + 2 - 2) with B by lia.
      destruct (bytes_eqb (skipn B (firstn (B + 2) r)) trailer) eqn:Et; cbn [negb andb].
      * rewrite bp_firstn_firstn_le by lia.
        destruct (IH (fadv inp (B + 2)) (fwrite out (firstn B r))) as [I1 I2].
        { apply fwrite_appm, Ho. }
        { rewrite Hadv, skipn_length. lia. }
        rewrite Hadv in I1, I2. split.
        -- intros W. destruct (I1 W) as [o' [E1 E2]]. exists o'. split; [exact E1|].
           rewrite E2. rewrite fwrite_data by exact Ho. rewrite <- app_assoc. reflexivity.
        -- exact I2.
      * split; [discriminate|reflexivity].
    + split; [discriminate|reflexivity].
Qed.

Lemma c05_unblock_validates : forall f,
  (wf_blocks B f = true -> unblock_oneshot B f = Ok (payload B f)) /\
  (wf_blocks B f = false -> unblock_oneshot B f = Raise EData).
Proof.
  intros f. unfold unblock_oneshot.
  destruct (unblock_loop_spec (S (length f)) (fopen f) fempty appm_fempty) as [H1 H2].
  { rewrite rest_fopen. lia. }
  rewrite rest_fopen in H1, H2. split; intros W.
  - destruct (H1 W) as [o' [E1 E2]]. rewrite E1. cbn [bind]. rewrite E2. reflexivity.
  - rewrite (H2 W). reflexivity.
Qed.

Lemma c05_unblock_block : forall d,
  unblock_oneshot B (block_oneshot B d) = Ok (d ++ repeat pad (fill_len B (length d))).
Proof.
  intros d. rewrite c04_oneshot. unfold blocked_oneshot.
  destruct (fill_total (length d)) as [k Hk].
  assert (HL : length (d ++ repeat pad (fill_len B (length d))) = k * B)
    by (rewrite app_length, repeat_length; exact Hk).
  destruct (c04_layout_blocks _ k HL) as [_ [W P]].
  destruct (c05_unblock_validates (lay B (d ++ repeat pad (fill_len B (length d))))) as [V _].
  rewrite (V W), P. reflexivity.
Qed.

(* ---------- Unblock1014: the streaming unblocker ---------- *)
(* the payload bytes that have not been returned yet: buffered ones, then those still in the file *)
Definition urem (u : unblocker) : bytes :=
  ubuf u ++ payload B (skipn (fpos (ufile u)) (fdata (ufile u))).

Lemma urem_init : forall f, urem (uinit (fopen f)) = payload B f.
Proof. intros f. reflexivity. Qed.

(* refill never runs out of fuel and preserves buffer ++ payload of the unread rest *)
Lemma refill_spec : forall fuel n ra f buf, length (rest f) < fuel ->
  exists f' buf', refill B fuel n ra f buf = Ok (f', buf') /\
    buf' ++ payload B (rest f') = buf ++ payload B (rest f) /\
    (rest f' = [] \/ (ra = false /\ n < length buf')).
Proof.
  induction fuel as [|fuel IH]; intros n ra f buf Hl; [lia|].
  cbn [refill]. destruct (ra || (length buf <=? n)) eqn:E.
  - rewrite fread_eq. cbv beta iota.
    pose proof (rest_fadv f (B + 2)) as Hadv. remember (rest f) as r eqn:Er.
    destruct r as [|a r'].
    + rewrite firstn_nil. exists (fadv f (B + 2)), buf. split; [reflexivity|].
      rewrite Hadv, skipn_nil. split; [reflexivity|left; reflexivity].
    + remember (a :: r') as r eqn:Erd.
      assert (Hnr : r <> []) by (subst r; discriminate).
      assert (Hne : firstn (B + 2) r <> []) by (apply bp_firstn_nonnil; [lia|exact Hnr]).
      assert (Hpos : 0 < length r) by (subst r; cbn [length]; lia).
      destruct (firstn (B + 2) r) as [|x xs] eqn:Eb; [contradiction|]. rewrite <- Eb. clear Hne.
      destruct (IH n ra (fadv f (B + 2)) (buf ++ firstn B (firstn (B + 2) r))) as [f' [b' [H1 [H2 H3]]]].
      { rewrite Hadv, skipn_length. lia. }
      exists f', b'. split; [exact H1|]. split; [|exact H3].
      rewrite H2, Hadv. rewrite <- app_assoc. f_equal. rewrite bp_firstn_firstn_le by lia.
      symmetry. apply payload_unfold.
  - exists f, buf. split; [reflexivity|]. split; [reflexivity|]. right.
    apply orb_false_iff in E. destruct E as [-> E]. apply Nat.leb_gt in E. auto.
Qed.

(* one read returns the next slice of the remaining payload stream *)
Lemma uread_spec : forall u n, exists o u', uread B u n = Ok (o, u') /\
  o = (if Nat.eqb n 0 then urem u else firstn n (urem u)) /\ urem u' = skipn (length o) (urem u).
Proof.
  intros u n. unfold uread. cbv zeta.
  destruct (refill_spec (S (length (fdata (ufile u)) - fpos (ufile u))) n (Nat.eqb n 0) (ufile u) (ubuf u))
    as [f' [b' [H1 [H2 H3]]]].
  { rewrite rest_length. lia. }
  rewrite H1. cbn [bind]. unfold urem. fold (rest (ufile u)). rewrite <- H2.
  destruct (Nat.eqb_spec n 0) as [->|Hn].
  - destruct H3 as [Hr|[? _]]; [|discriminate]. rewrite Hr, payload_nil, app_nil_r.
    rewrite firstn_all, skipn_all. eexists _, _. split; [reflexivity|]. cbn [ubuf ufile]. split; [reflexivity|].
    fold (rest f'). rewrite Hr, payload_nil, skipn_all. reflexivity.
  - eexists _, _. split; [reflexivity|]. cbn [ubuf ufile]. fold (rest f'). destruct H3 as [Hr|[_ Hl]].
    + rewrite Hr, payload_nil, !app_nil_r. split; [reflexivity|].
      rewrite firstn_length. destruct (Nat.le_gt_cases n (length b')) as [Hc|Hc].
      * rewrite Nat.min_l by exact Hc. reflexivity.
      * rewrite Nat.min_r by lia. rewrite !skipn_all2 by lia. reflexivity.
    + rewrite firstn_app. replace (n - length b') with 0 by lia. cbn [firstn]. rewrite app_nil_r.
      split; [reflexivity|].
      rewrite firstn_length, Nat.min_l by lia. rewrite skipn_app. replace (n - length b') with 0 by lia.
      reflexivity.
Qed.

Lemma ureads_spec : forall ns u, ureads B u ns = Ok (slices (urem u) ns).
Proof.
  induction ns as [|n ns IH]; intros u; [reflexivity|].
  cbn [ureads slices]. destruct (uread_spec u n) as [o [u' [H1 [H2 H3]]]].
  rewrite H1. cbn [bind]. rewrite IH. cbn [bind]. rewrite H3. f_equal.
  destruct (Nat.eqb_spec n 0) as [->|Hn].
  - subst o. rewrite firstn_all. reflexivity.
  - subst o. rewrite bp_skipn_firstn_len. reflexivity.
Qed.

Lemma c05_every_read_sequence : forall f ns, ureads B (uinit (fopen f)) ns = Ok (slices (payload B f) ns).
Proof. intros f ns. rewrite ureads_spec, urem_init. reflexivity. Qed.

End BlockProofs.
