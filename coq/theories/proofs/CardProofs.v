(* CardProofs.v — lemmas about Card.v: Luhn arithmetic (for numbers of every length) and masking. *)
From Coq Require Import List Arith NArith ZArith Lia Bool ZifyBool ZifyNat.
Require Import CU.model.Prim CU.model.Unicode CU.model.Card CU.spec.LuhnSpec.
Import ListNotations.
Ltac Zify.zify_post_hook ::= Z.to_euclidean_division_equations.
Open Scope nat_scope.

(* ---- the code's per-digit function agrees with the published one on digits ---- *)
Lemma lf_false d : d < 10 -> lf false d = d.
Proof. intros H. unfold lf, dsum. lia. Qed.
Lemma lf_true d : d < 10 -> lf true d = dbl d.
Proof. intros H. unfold lf, dsum, dbl. destruct (9 <? 2 * d) eqn:E; lia. Qed.

Lemma wsum_luhn w rds : Forall (fun d => d < 10) rds -> wsum w rds = luhn_sum w rds.
Proof.
  intros F. revert w. induction F as [|d r Hd F IH]; intros w; cbn [wsum luhn_sum]; auto.
  rewrite IH. destruct w; [rewrite lf_true|rewrite lf_false]; auto.
Qed.

Lemma Forall_rev {A} (P : A -> Prop) l : Forall P l -> Forall P (rev l).
Proof. intros F. apply Forall_forall. intros x Hx. apply in_rev in Hx. rewrite Forall_forall in F. auto. Qed.

Lemma calc_lt10 ds : calc ds < 10.
Proof. unfold calc. lia. Qed.

(* check digit is valid, on the code's own sum *)
Lemma check_digit_valid_w ds : wsum false (rev (ds ++ [calc ds])) mod 10 = 0.
Proof.
  rewrite rev_app_distr. cbn [rev app wsum negb].
  rewrite (lf_false _ (calc_lt10 ds)). unfold calc. set (t := wsum true (rev ds)). lia.
Qed.
Lemma check_digit_unique_w ds c : c < 10 -> wsum false (rev (ds ++ [c])) mod 10 = 0 -> c = calc ds.
Proof.
  rewrite rev_app_distr. cbn [rev app wsum negb]. intros Hc. rewrite (lf_false _ Hc).
  unfold calc. set (t := wsum true (rev ds)). lia.
Qed.

Lemma check_digit_valid ds : all_digits ds -> luhn_valid (ds ++ [calc ds]).
Proof.
  intros F. unfold luhn_valid. rewrite <- wsum_luhn. apply check_digit_valid_w.
  apply Forall_rev. apply Forall_app; split; auto. constructor; auto. apply calc_lt10.
Qed.
Lemma check_digit_unique ds c : all_digits ds -> c < 10 -> luhn_valid (ds ++ [c]) -> c = calc ds.
Proof.
  intros F Hc V. apply check_digit_unique_w; auto. rewrite wsum_luhn; auto.
  apply Forall_rev. apply Forall_app; split; auto.
Qed.

(* ---- finite facts about single digits, by computation over the 100 pairs ---- *)
Definition all10 := seq 0 10.
Lemma in_all10 d : d < 10 -> In d all10. Proof. intros H. apply in_seq. lia. Qed.

Lemma f_inj_mod w a b : a < 10 -> b < 10 -> a <> b ->
  (lf w a + 10 - lf w b) mod 10 <> 0 /\ lf w a < 10 /\ lf w b < 10.
Proof.
  intros Ha Hb Hab.
  assert (T: forallb (fun a => forallb (fun b => Nat.eqb a b ||
             (negb (Nat.eqb ((lf w a + 10 - lf w b) mod 10) 0) && Nat.ltb (lf w a) 10 && Nat.ltb (lf w b) 10)) all10) all10 = true)
    by (destruct w; vm_compute; reflexivity).
  rewrite forallb_forall in T. specialize (T a (in_all10 a Ha)). rewrite forallb_forall in T.
  specialize (T b (in_all10 b Hb)). apply orb_true_iff in T. destruct T as [T|T].
  - apply Nat.eqb_eq in T. contradiction.
  - apply andb_true_iff in T. destruct T as [T T3]. apply andb_true_iff in T. destruct T as [T1 T2].
    apply negb_true_iff, Nat.eqb_neq in T1. apply Nat.ltb_lt in T2, T3. auto.
Qed.

Lemma swap_mod w a b : a < 10 -> b < 10 -> a <> b -> ~ (a = 0 /\ b = 9) -> ~ (a = 9 /\ b = 0) ->
  (lf w a + lf (negb w) b + 20 - (lf w b + lf (negb w) a)) mod 10 <> 0
  /\ lf w a + lf (negb w) b < 20 /\ lf w b + lf (negb w) a < 20.
Proof.
  intros Ha Hb Hab H09 H90.
  assert (T: forallb (fun a => forallb (fun b => Nat.eqb a b || (Nat.eqb a 0 && Nat.eqb b 9) || (Nat.eqb a 9 && Nat.eqb b 0) ||
             (negb (Nat.eqb ((lf w a + lf (negb w) b + 20 - (lf w b + lf (negb w) a)) mod 10) 0)
              && Nat.ltb (lf w a + lf (negb w) b) 20 && Nat.ltb (lf w b + lf (negb w) a) 20)) all10) all10 = true)
    by (destruct w; vm_compute; reflexivity).
  rewrite forallb_forall in T. specialize (T a (in_all10 a Ha)). rewrite forallb_forall in T.
  specialize (T b (in_all10 b Hb)).
  repeat (apply orb_true_iff in T; destruct T as [T|T]).
  - apply Nat.eqb_eq in T. contradiction.
  - apply andb_true_iff in T. destruct T as [T1 T2]. apply Nat.eqb_eq in T1, T2. tauto.
  - apply andb_true_iff in T. destruct T as [T1 T2]. apply Nat.eqb_eq in T1, T2. tauto.
  - apply andb_true_iff in T. destruct T as [T T3]. apply andb_true_iff in T. destruct T as [T1 T2].
    apply negb_true_iff, Nat.eqb_neq in T1. apply Nat.ltb_lt in T2, T3. auto.
Qed.

Fixpoint flipn (n : nat) (w : bool) : bool := match n with 0 => w | S k => flipn k (negb w) end.
Lemma wsum_app w l1 l2 : wsum w (l1 ++ l2) = wsum w l1 + wsum (flipn (length l1) w) l2.
Proof. revert w; induction l1 as [|x l1 IH]; intros w; cbn [app wsum length flipn]; auto. rewrite IH. lia. Qed.

Lemma mod_diff_ne x y : x < y + 10 -> y < x + 10 -> (x + 10 - y) mod 10 <> 0 ->
  forall c, ~ ((c + x) mod 10 = 0 /\ (c + y) mod 10 = 0).
Proof. intros H1 H2 H c [A B]. lia. Qed.
Lemma mod_diff_ne20 x y : x < 20 -> y < 20 -> (x + 20 - y) mod 10 <> 0 ->
  forall c, ~ ((c + x) mod 10 = 0 /\ (c + y) mod 10 = 0).
Proof. intros H1 H2 H c [A B]. lia. Qed.

(* single substitution / adjacent transposition, on the right-to-left digit list *)
Lemma substitution_detected_w w p a b q : a < 10 -> b < 10 -> a <> b ->
  wsum w (p ++ a :: q) mod 10 = 0 -> wsum w (p ++ b :: q) mod 10 <> 0.
Proof.
  intros Ha Hb Hab V V'. rewrite wsum_app in V, V'. cbn [wsum] in V, V'.
  set (w' := flipn (length p) w) in *.
  destruct (f_inj_mod w' a b Ha Hb Hab) as [D [La Lb]].
  apply (mod_diff_ne (lf w' a) (lf w' b) ltac:(lia) ltac:(lia) D (wsum w p + wsum (negb w') q)).
  split; [rewrite <- V | rewrite <- V']; f_equal; lia.
Qed.
Lemma transposition_detected_w w p a b q : a < 10 -> b < 10 -> a <> b -> ~ (a = 0 /\ b = 9) -> ~ (a = 9 /\ b = 0) ->
  wsum w (p ++ a :: b :: q) mod 10 = 0 -> wsum w (p ++ b :: a :: q) mod 10 <> 0.
Proof.
  intros Ha Hb Hab H09 H90 V V'. rewrite wsum_app in V, V'. cbn [wsum] in V, V'.
  set (w' := flipn (length p) w) in *.
  destruct (swap_mod w' a b Ha Hb Hab H09 H90) as [D [La Lb]].
  apply (mod_diff_ne20 _ _ La Lb D (wsum w p + wsum (negb (negb w')) q)).
  split; [rewrite <- V | rewrite <- V']; f_equal; lia.
Qed.

(* the same, on numbers written left to right, against the published formula *)
Lemma rev_mid {A} (p q : list A) (x : A) : rev (p ++ x :: q) = rev q ++ x :: rev p.
Proof. rewrite rev_app_distr. cbn [rev]. rewrite <- app_assoc. reflexivity. Qed.
Lemma rev_mid2 {A} (p q : list A) (x y : A) : rev (p ++ x :: y :: q) = rev q ++ y :: x :: rev p.
Proof. rewrite rev_app_distr. cbn [rev]. rewrite <- !app_assoc. reflexivity. Qed.

Lemma substitution_detected p a b q : all_digits (p ++ a :: q) -> b < 10 -> a <> b ->
  luhn_valid (p ++ a :: q) -> ~ luhn_valid (p ++ b :: q).
Proof.
  intros F Hb Hab V V'. unfold luhn_valid in *.
  apply Forall_app in F. destruct F as [Fp Fq]. inversion Fq as [|? ? Ha Fq']; subst.
  rewrite <- wsum_luhn in V, V'.
  - rewrite rev_mid in V, V'. eapply substitution_detected_w; [exact Ha|exact Hb|exact Hab|exact V|exact V'].
  - apply Forall_rev. apply Forall_app; split; auto.
  - apply Forall_rev. apply Forall_app; split; auto.
Qed.
Lemma transposition_detected p a b q : all_digits (p ++ a :: b :: q) -> a <> b ->
  ~ (a = 0 /\ b = 9) -> ~ (a = 9 /\ b = 0) ->
  luhn_valid (p ++ a :: b :: q) -> ~ luhn_valid (p ++ b :: a :: q).
Proof.
  intros F Hab H09 H90 V V'. unfold luhn_valid in *.
  apply Forall_app in F. destruct F as [Fp Fq]. inversion Fq as [|? ? Ha Fq']; subst.
  inversion Fq' as [|? ? Hb Fq'']; subst.
  rewrite <- wsum_luhn in V, V'.
  - rewrite rev_mid2 in V, V'.
    eapply (transposition_detected_w false (rev q) b a (rev p)); [exact Hb|exact Ha|auto|tauto|tauto|exact V|exact V'].
  - apply Forall_rev. apply Forall_app; split; auto.
  - apply Forall_rev. apply Forall_app; split; auto.
Qed.

(* ---- the string-level functions ---- *)
Definition dchar (d : nat) : N := dch (N.of_nat d).
Definition ascii_digits (ds : list nat) : str := map dchar ds.

(* facts about the generated Unicode tables, re-proved against CPython's tables on every run *)
Lemma ascii_digit_facts : forall d, d < 10 -> is_digit (dchar d) = true /\ decimal_of (dchar d) = Some (N.of_nat d).
Proof.
  intros d Hd.
  assert (T: forallb (fun d => is_digit (dchar d) && match decimal_of (dchar d) with Some x => N.eqb x (N.of_nat d) | None => false end) all10 = true)
    by (vm_compute; reflexivity).
  rewrite forallb_forall in T. specialize (T d (in_all10 d Hd)). apply andb_true_iff in T. destruct T as [T1 T2].
  split; auto. destruct (decimal_of (dchar d)); [|discriminate]. apply N.eqb_eq in T2. congruence.
Qed.

Lemma dchar_inj a b : a < 10 -> b < 10 -> dchar a = dchar b -> a = b.
Proof. unfold dchar, dch. intros. lia. Qed.

Lemma digits_of_ascii ds : all_digits ds -> digits_of (ascii_digits ds) = Ok ds.
Proof.
  induction 1 as [|d r Hd F IH]; cbn [ascii_digits map digits_of]; auto.
  destruct (ascii_digit_facts d Hd) as [-> ->]. fold (ascii_digits r). rewrite IH. cbn [bind].
  rewrite Nat2N.id. reflexivity.
Qed.

Lemma digits_of_app s t : digits_of (s ++ t) =
  match digits_of s with Ok a => match digits_of t with Ok b => Ok (a ++ b) | r => r end
                       | r => r end.
Proof.
  induction s as [|c s IH]; cbn [app digits_of].
  - destruct (digits_of t); reflexivity.
  - destruct (is_digit c); auto. destruct (decimal_of c); auto. rewrite IH.
    destruct (digits_of s); cbn [bind]; auto. destruct (digits_of t); cbn [bind]; auto.
Qed.

Lemma removelast_last {A} (l : list A) x : removelast (l ++ [x]) = l.
Proof. apply removelast_last. Qed.

Lemma str_eqb_refl s : str_eqb s s = true.
Proof. induction s as [|c s IH]; cbn; auto. rewrite N.eqb_refl. auto. Qed.
Lemma str_eqb_eq s t : str_eqb s t = true <-> s = t.
Proof.
  revert t; induction s as [|c s IH]; intros [|d t]; cbn; split; intros H; try discriminate; auto.
  - apply andb_true_iff in H. destruct H as [H1 H2]. apply N.eqb_eq in H1. apply IH in H2. congruence.
  - inversion H; subst. rewrite N.eqb_refl. apply IH. reflexivity.
Qed.

(* appending the computed check digit always validates, in both interpreter modes,
   for every string the calculation accepts (digits with any separators) *)
Lemma append_validates m s s' : add_check_digit s = Ok s' -> validate_check_digit m s' = Ok tt.
Proof.
  unfold add_check_digit, calculate_check_digit. destruct (digits_of s) as [ds| | |] eqn:E; cbn [bind]; try discriminate.
  intros H. inversion H; subst. unfold validate_check_digit. rewrite rev_app_distr. cbn [rev app].
  rewrite removelast_last. unfold calculate_check_digit. rewrite E. cbn [bind].
  rewrite str_eqb_refl. reflexivity.
Qed.

Lemma validate_digits m ds c : all_digits ds -> c < 10 ->
  validate_check_digit m (ascii_digits (ds ++ [c])) = if Nat.eqb (calc ds) c then Ok tt else Raise EAssert.
Proof.
  intros F Hc. unfold validate_check_digit, ascii_digits. rewrite map_app. cbn [map].
  rewrite rev_app_distr. cbn [rev app]. rewrite removelast_last.
  unfold calculate_check_digit. fold (ascii_digits ds). rewrite (digits_of_ascii ds F). cbn [bind].
  fold (dchar (calc ds)). cbn [str_eqb list_eqb]. rewrite andb_true_r.
  destruct (Nat.eqb_spec (calc ds) c) as [->|Hne].
  - rewrite N.eqb_refl. reflexivity.
  - destruct (N.eqb_spec (dchar (calc ds)) (dchar c)) as [E|E]; auto.
    apply dchar_inj in E; auto; [contradiction|apply calc_lt10].
Qed.

Lemma validate_iff m ds : all_digits ds -> ds <> [] ->
  (validate_check_digit m (ascii_digits ds) = Ok tt <-> luhn_valid ds) /\
  (validate_check_digit m (ascii_digits ds) = Ok tt \/ validate_check_digit m (ascii_digits ds) = Raise EAssert).
Proof.
  intros F Hne. destruct (exists_last Hne) as [ds' [c ->]].
  apply Forall_app in F. destruct F as [F Fc]. inversion Fc as [|? ? Hc _]; subst.
  rewrite (validate_digits m ds' c F Hc). destruct (Nat.eqb_spec (calc ds') c) as [<-|Hne'].
  - split; [|left; auto]. split; auto. intros _. apply check_digit_valid; auto.
  - split; [|right; auto]. split; [discriminate|]. intros V. exfalso. apply Hne'. symmetry. apply check_digit_unique; auto.
Qed.

(* the check digit the code returns is the published one *)
Lemma calculate_digits ds : all_digits ds -> calculate_check_digit (ascii_digits ds) = Ok [dchar (calc ds)].
Proof. intros F. unfold calculate_check_digit. rewrite digits_of_ascii by auto. reflexivity. Qed.

(* ---- masking ---- *)
Lemma concat_repeat_single {A} (c : A) n : concat (repeat [c] n) = repeat c n.
Proof. induction n as [|n IH]; cbn; auto. rewrite IH. reflexivity. Qed.

Lemma firstn_exact {A} n (a b : list A) : length a = n -> firstn n (a ++ b) = a.
Proof. intros <-. rewrite firstn_app, firstn_all, Nat.sub_diag. cbn. apply app_nil_r. Qed.
Lemma skipn_exact {A} n (a b : list A) : length a = n -> skipn n (a ++ b) = b.
Proof. intros <-. rewrite skipn_app, skipn_all, Nat.sub_diag. reflexivity. Qed.

Lemma mask_shape s c : 10 <= length s ->
  mask s [c] = firstn 6 s ++ repeat c (length s - 10) ++ lastn 4 s /\
  length (firstn 6 s) = 6 /\ length (lastn 4 s) = 4.
Proof.
  intros H. unfold mask, lastn, str. rewrite (concat_repeat_single c). split; auto.
  rewrite firstn_length, skipn_length. lia.
Qed.

Lemma mask_spec s c : 10 <= length s ->
  let m := mask s [c] in
  length m = length s /\ firstn 6 m = firstn 6 s /\ lastn 4 m = lastn 4 s /\
  (forall i, 6 <= i < length s - 4 -> nth_error m i = Some c).
Proof.
  intros H m. destruct (mask_shape s c H) as [E [L6 L4]]. subst m. rewrite E.
  assert (Len: length (firstn 6 s ++ repeat c (length s - 10) ++ lastn 4 s) = length s).
  { rewrite !app_length, repeat_length, L6, L4. lia. }
  split; [exact Len|]. split; [apply firstn_exact; auto|]. split.
  - unfold lastn at 1. rewrite Len. rewrite app_assoc.
    apply skipn_exact. rewrite app_length, repeat_length, L6. lia.
  - intros i Hi. rewrite nth_error_app2 by lia. rewrite L6.
    rewrite nth_error_app1 by (rewrite repeat_length; lia).
    apply nth_error_repeat. lia.
Qed.
