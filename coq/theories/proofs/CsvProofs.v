(* CsvProofs.v — C20: a table of well-formed messages expressed as CSV survives CSV -> IPM -> CSV.
   Plan: (1) the encoder does not distinguish a CSV cell (a string) from its native value (int / datetime): dumps of the
   row dictionary = dumps of the native message; (2) the native message of a canonical row is well formed (wf_msgb), so it
   round-trips (a version of C01 that also says which keys can appear in the decoded record); (3) printing the decoded
   native value gives the cell back; an empty cell is an absent key and stays absent; (4) the file level (as C06). *)
From Coq Require Import List NArith ZArith Bool Arith Lia ZifyBool ZifyNat ZifyN.
From Coq Require Import Sorting.Permutation Sorting.Sorted.
From Coq Require Import Strings.Byte.
Require Import CU.model.Prim CU.model.Types CU.model.Unicode CU.model.Codec CU.model.Card CU.model.Dates CU.model.Block CU.model.Vbs CU.model.Iso CU.model.Ipm CU.model.Tools.
Require Import CU.spec.FramingSpec CU.spec.IsoSpec.
Require Import CU.proofs.NumProofs CU.proofs.DatesIso CU.proofs.PdsProofs CU.proofs.BlockProofs CU.proofs.VbsProofs CU.proofs.IsoRoundtrip CU.proofs.IpmProofs.
Import ListNotations.
Open Scope nat_scope.

(* ====================================================================== the value lemmas *)

Lemma c20_int_cell : forall n, py_int (str_of_N n) = Some (Z.of_N n) /\ cell_of (VInt (Z.of_N n)) = Some (str_of_N n).
Proof.
  intros n. split.
  - unfold str_of_N. destruct (dec_digits_spec n) as [H1 [H2 H3]].
    rewrite py_int_digits by assumption. rewrite H3. reflexivity.
  - destruct n as [|p]; reflexivity.
Qed.

Lemma cs_digs_num : forall l, forallb ascii_digit l = true -> map dch (digs (length l) (num_of l)) = l.
Proof.
  intros l H. destruct (ir_ascii_digits_dch l H) as [H1 H2].
  destruct (ir_digs_value _ H2) as [H3 _]. rewrite map_length in H3.
  unfold num_of. rewrite H3. symmetry. exact H1.
Qed.

Lemma cs_digs2 : forall a b, ascii_digit a = true -> ascii_digit b = true ->
  map dch (digs 2 (num_of [a; b])) = [a; b].
Proof.
  intros a b Ha Hb. apply (cs_digs_num [a; b]). cbn [forallb]. rewrite Ha, Hb. reflexivity.
Qed.

Lemma cs_digs4 : forall a b c d, ascii_digit a = true -> ascii_digit b = true -> ascii_digit c = true ->
  ascii_digit d = true -> map dch (digs 4 (num_of [a; b; c; d])) = [a; b; c; d].
Proof.
  intros a b c d Ha Hb Hc Hd. apply (cs_digs_num [a; b; c; d]). cbn [forallb]. rewrite Ha, Hb, Hc, Hd. reflexivity.
Qed.

Ltac cs_lit c := destruct c as [|c]; [discriminate|]; do 6 (destruct c as [c|c|]; try discriminate).

Lemma c20_date_cell : forall s d, parse_iso s = Some d -> iso_of d = s.
Proof.
  intros s d H. unfold parse_iso in H.
  destruct s as [|y1 s]; [discriminate|]. destruct s as [|y2 s]; [discriminate|].
  destruct s as [|y3 s]; [discriminate|]. destruct s as [|y4 s]; [discriminate|].
  destruct s as [|c1 s]; [discriminate|]. cs_lit c1.
  destruct s as [|m1 s]; [discriminate|]. destruct s as [|m2 s]; [discriminate|].
  destruct s as [|c2 s]; [discriminate|]. cs_lit c2.
  destruct s as [|d1 s]; [discriminate|]. destruct s as [|d2 s]; [discriminate|].
  destruct s as [|c3 s]; [discriminate|]. cs_lit c3.
  destruct s as [|h1 s]; [discriminate|]. destruct s as [|h2 s]; [discriminate|].
  destruct s as [|c4 s]; [discriminate|]. cs_lit c4.
  destruct s as [|n1 s]; [discriminate|]. destruct s as [|n2 s]; [discriminate|].
  destruct s as [|c5 s]; [discriminate|]. cs_lit c5.
  destruct s as [|s1 s]; [discriminate|]. destruct s as [|s2 s]; [discriminate|].
  destruct s as [|x s]; [|discriminate].
  destruct (all_ascii_digits [y1; y2; y3; y4; m1; m2; d1; d2; h1; h2; n1; n2; s1; s2]) eqn:E; [|discriminate].
  cbv zeta in H.
  match type of H with (if ?c then _ else _) = _ => destruct c; [|discriminate] end.
  apply (f_equal (fun o => match o with Some t => t | None => d end)) in H. subst d.
  unfold all_ascii_digits in E. cbn [forallb] in E.
  repeat match type of E with (_ && _) = true => apply andb_true_iff in E; destruct E as [? E] end.
  unfold iso_of. cbn [dt_Y dt_m dt_d dt_H dt_M dt_S].
  rewrite cs_digs4 by assumption. rewrite !cs_digs2 by assumption. reflexivity.
Qed.

(* whatever accepted spelling a date-time cell is given in, the cell written back (str(datetime)) reads as the same
   date-time, in the canonical reading and therefore in any *)
Lemma c20_date_spellings : forall s d, parse_iso_any s = Some d ->
  parse_iso (iso_of d) = Some d /\ parse_iso_any (iso_of d) = Some d.
Proof.
  intros s d H. destruct (parse_iso_any_sound s d H) as [c [_ Hc]].
  assert (E : parse_iso (iso_of d) = Some d) by (rewrite (c20_date_cell c d Hc); exact Hc).
  split; [exact E|]. apply parse_iso_any_canonical. exact E.
Qed.

(* ====================================================================== the domain of C20 *)

(* the configuration returns what was written: no masking processors (a masked / shortened PAN does not come back) *)
Definition csv_cfgb (cfg : cfgT) : bool :=
  forallb (fun bc => match f_proc (snd bc) with PPAN | PPANPREFIX => false | _ => true end) cfg.

(* the native value of a CSV cell of an element: number for int elements, datetime for date elements, else the text *)
Definition cs_native (c : fieldcfg) (s : str) : value :=
  match f_ptype c with
  | PTInt => match py_int s with Some z => VInt z | None => VStr s end
  | PTDate => match parse_iso s with Some d => VDate d | None => VStr s end
  | _ => VStr s
  end.
Definition native_val (cfg : cfgT) (k : key) (s : str) : value :=
  match k with
  | KDE n => match cfg_get cfg n with Some c => cs_native c s | None => VStr s end
  | _ => VStr s
  end.
Definition cs_rowd (l : list (key * str)) : dict :=
  flat_map (fun kc => match snd kc with [] => [] | s => [(fst kc, VStr s)] end) l.
Definition cs_natd (cfg : cfgT) (l : list (key * str)) : dict :=
  flat_map (fun kc => match snd kc with [] => [] | s => [(fst kc, native_val cfg (fst kc) s)] end) l.
(* the message a CSV row stands for *)
Definition native_row (cfg : cfgT) (cols : list key) (cells : list str) : dict := cs_natd cfg (combine cols cells).

(* a plain decimal numeral: ASCII digits, no sign, no leading zeros — i.e. str_of_N n for n = its value *)
Definition is_numeral (s : str) : bool := forallb ascii_digit s && str_eqb (str_of_N (num_of s)) s.

(* a non-empty cell of a data element *)
Definition de_cell_okb (c : fieldcfg) (cd : codec) (s : str) : bool :=
  match f_ptype c with
  | PTStr => match f_proc c with
             | PICC => false                                                  (* bytes-valued: not a CSV value *)
             | PPDS => encodable cd s && len_okb c (length s) && is_ok (pds_to_dict s)   (* a carrier given directly *)
             | _ => encodable cd s && len_okb c (length s)
             end
  | PTInt => match f_len c with
             | Some w => is_numeral s && len_okb c (length (fmt0 w (num_of s))) && encodable cd (fmt0 w (num_of s))
             | None => false
             end
  | PTDate => match parse_iso s with
              | Some d => wf_dateb (f_datefmt c) d &&
                          match strftime_m (f_datefmt c) d with
                          | Ok t => len_okb c (length t) && encodable cd t
                          | _ => false
                          end
              | None => false
              end
  | PTDec => false
  end.

(* a cell under its column; the empty cell means absent (not allowed for the MTI) *)
Definition cell_okb (cfg : cfgT) (cd : codec) (kc : key * str) : bool :=
  match snd kc with
  | [] => negb (key_eqb (fst kc) KMTI)
  | s => match fst kc with
         | KMTI => Nat.eqb (length s) 4 && forallb ascii_digit s && encodable cd s
         | KDE n => match cfg_get cfg n with Some c => de_cell_okb c cd s | None => false end
         | KPDS _ => (length s <=? 992) && encodable cd s
         | _ => false
         end
  end.

(* a column: MTI, a configured element 2..127 (a PDS carrier only when there are no PDS columns), a PDS sub-element *)
Definition col_okb (cfg : cfgT) (pdscols : bool) (k : key) : bool :=
  match k with
  | KMTI => true
  | KDE n => (2 <=? n) && (n <=? 127) &&
             match cfg_get cfg n with
             | Some c => negb (pdscols && proc_eqb (f_proc c) PPDS)
             | None => false
             end
  | KPDS t => Nat.eqb (length t) 4 && forallb ascii_digit t
  | _ => false
  end.

Fixpoint cs_nodupb (ks : list key) : bool :=
  match ks with [] => true | k :: r => negb (existsb (key_eqb k) r) && cs_nodupb r end.

(* the row supplies a PDS sub-element *)
Definition row_pds (l : list (key * str)) : bool :=
  existsb (fun kc => is_pds_key (fst kc) && match snd kc with [] => false | _ => true end) l.

Definition row_okb (cfg : cfgT) (cd : codec) (maxlen : N) (cols : list key) (cells : list str) : bool :=
  Nat.eqb (length cells) (length cols)
  && forallb (cell_okb cfg cd) (combine cols cells)
  && encodable cd (map dch [0; 1; 2; 3; 4; 5; 6; 7; 8; 9]%N)            (* the codec can write length prefixes *)
  && (negb (row_pds (combine cols cells)) ||
      (carriers_okb cfg &&
       match pds_to_de (row_dict cols cells) with
       | Ok chunks => length chunks <=? length (pds_bits cfg)             (* the packing fits the carriers *)
       | _ => false
       end))
  && match dumps cfg cd false (row_dict cols cells) with                  (* the record fits *)
     | Ok b => (N.of_nat (length b) <=? maxlen)%N
     | _ => false
     end.

Definition canonical_tableb (cfg : cfgT) (cd : codec) (maxlen : N) (cols : list key) (rows : list (list str)) : bool :=
  cs_nodupb cols
  && existsb (key_eqb KMTI) cols
  && forallb (col_okb cfg (existsb is_pds_key cols)) cols
  && forallb (row_okb cfg cd maxlen cols) rows.

(* ====================================================================== small facts *)

Lemma cs_ok_inj : forall (A : Type) (a b : A), Ok a = Ok b -> a = b.
Proof. intros A a b H. congruence. Qed.

Lemma cs_row_dict_eq : forall cols cells, row_dict cols cells = cs_rowd (combine cols cells).
Proof. reflexivity. Qed.

Lemma cs_nodupb_nodup : forall ks, cs_nodupb ks = true -> NoDup ks.
Proof.
  induction ks as [|k r IH]; intros H; [constructor|].
  cbn [cs_nodupb] in H. apply andb_true_iff in H. destruct H as [H1 H2]. apply negb_true_iff in H1.
  constructor; [|apply IH; exact H2].
  intro Hin. assert (E : existsb (key_eqb k) r = true).
  { apply existsb_exists. exists k. split; [exact Hin|apply ir_key_eqb_refl]. }
  congruence.
Qed.

Lemma cs_combine_fst : forall (cols : list key) (cells : list str), length cells = length cols ->
  map fst (combine cols cells) = cols.
Proof.
  induction cols as [|k cols IH]; intros [|s cells] H; cbn [length] in H; try discriminate; [reflexivity|].
  cbn [combine map fst]. f_equal. apply IH. lia.
Qed.

(* the first non-empty cell under a key *)
Fixpoint cs_find (l : list (key * str)) (k : key) : option str :=
  match l with
  | [] => None
  | (k', s) :: r => match s with
                    | [] => cs_find r k
                    | _ => if key_eqb k' k then Some s else cs_find r k
                    end
  end.

Lemma cs_lookup_rowd : forall l k, lookup (cs_rowd l) k = option_map VStr (cs_find l k).
Proof.
  induction l as [|[k' s] r IH]; intros k; [reflexivity|].
  cbn [cs_rowd flat_map cs_find fst snd]. destruct s as [|a s]; [apply IH|].
  cbn [app lookup]. destruct (key_eqb k' k); [reflexivity|apply IH].
Qed.

Lemma cs_lookup_natd : forall cfg l k, lookup (cs_natd cfg l) k = option_map (native_val cfg k) (cs_find l k).
Proof.
  intros cfg. induction l as [|[k' s] r IH]; intros k; [reflexivity|].
  cbn [cs_natd flat_map cs_find fst snd]. destruct s as [|a s]; [apply IH|].
  cbn [app lookup]. destruct (key_eqb k' k) eqn:E; [|apply IH].
  apply ir_key_eqb_eq in E. subst k'. reflexivity.
Qed.

Lemma cs_find_in : forall l k s, NoDup (map fst l) -> In (k, s) l ->
  cs_find l k = match s with [] => None | _ => Some s end.
Proof.
  induction l as [|[k' s'] r IH]; intros k s Hn Hin; [destruct Hin|].
  cbn [map fst] in Hn. inversion Hn as [|x y Hnot Hn']; subst.
  cbn [cs_find]. destruct Hin as [Hin|Hin].
  - inversion Hin; subst k' s'. destruct s as [|a s].
    + destruct (cs_find r k) as [t|] eqn:E; [|reflexivity]. exfalso.
      clear IH Hn. induction r as [|[k2 s2] r IHr]; [discriminate|].
      cbn [cs_find] in E. cbn [map fst] in Hnot, Hn'. inversion Hn'; subst.
      destruct s2 as [|b s2].
      * apply IHr; [intro C; apply Hnot; right; exact C|assumption|exact E].
      * destruct (key_eqb k2 k) eqn:E2.
        -- apply ir_key_eqb_eq in E2. apply Hnot. left. exact E2.
        -- apply IHr; [intro C; apply Hnot; right; exact C|assumption|exact E].
    + rewrite ir_key_eqb_refl. reflexivity.
  - assert (Hne : k' <> k).
    { intro C. subst k'. apply Hnot. apply (in_map fst) in Hin. exact Hin. }
    rewrite (ir_key_eqb_neq _ _ Hne). destruct s' as [|b s']; apply IH; assumption.
Qed.

Lemma cs_natd_in : forall cfg l x, In x (cs_natd cfg l) <->
  exists k s, In (k, s) l /\ s <> [] /\ x = (k, native_val cfg k s).
Proof.
  intros cfg l x. unfold cs_natd. rewrite in_flat_map. split.
  - intros [[k s] [Hin Hx]]. cbn [fst snd] in Hx. destruct s as [|a s]; [destruct Hx|].
    destruct Hx as [Hx|[]]. exists k, (a :: s). split; [exact Hin|]. split; [discriminate|]. symmetry. exact Hx.
  - intros [k [s [Hin [Hne Hx]]]]. exists (k, s). split; [exact Hin|]. cbn [fst snd].
    destruct s as [|a s]; [contradiction Hne; reflexivity|]. left. symmetry. exact Hx.
Qed.

Lemma cs_has_pds : forall cfg l, ir_has_pds (cs_natd cfg l) = row_pds l.
Proof.
  intros cfg. unfold ir_has_pds, row_pds, cs_natd.
  induction l as [|[k s] r IH]; [reflexivity|].
  cbn [flat_map existsb fst snd]. destruct s as [|a s].
  - cbn [app]. rewrite andb_false_r. cbn [orb]. exact IH.
  - cbn [app existsb fst]. rewrite andb_true_r. rewrite IH. reflexivity.
Qed.

Lemma cs_row_pds_cols : forall l, row_pds l = true -> existsb is_pds_key (map fst l) = true.
Proof.
  unfold row_pds. intros l H. apply existsb_exists in H. destruct H as [[k s] [Hin H]]. cbn [fst snd] in H.
  apply andb_true_iff in H. destruct H as [H _]. apply existsb_exists. exists k.
  split; [apply (in_map fst _ _ Hin)|exact H].
Qed.

Lemma cs_pds_entries : forall cfg l, pds_entries (cs_natd cfg l) = pds_entries (cs_rowd l).
Proof.
  intros cfg. unfold pds_entries, cs_natd, cs_rowd.
  induction l as [|[k s] r IH]; [reflexivity|].
  cbn [flat_map fst snd]. destruct s as [|a s]; [exact IH|].
  cbn [app flat_map fst snd]. rewrite IH. destruct k; reflexivity.
Qed.

Lemma cs_nodup_keys : forall cfg l, NoDup (map fst l) -> nodup_keys (cs_natd cfg l) = true.
Proof.
  intros cfg. induction l as [|[k s] r IH]; intros Hn; [reflexivity|].
  cbn [map fst] in Hn. inversion Hn as [|x y Hnot Hn']; subst.
  destruct s as [|a s]; [apply IH; exact Hn'|].
  change (cs_natd cfg ((k, a :: s) :: r)) with ((k, native_val cfg k (a :: s)) :: cs_natd cfg r).
  cbn [nodup_keys]. rewrite (IH Hn'), andb_true_r. apply negb_true_iff.
  destruct (existsb (fun kv => key_eqb (fst kv) k) (cs_natd cfg r)) eqn:E; [|reflexivity]. exfalso.
  apply existsb_exists in E. destruct E as [[k2 v2] [Hin E]]. cbn [fst] in E. apply ir_key_eqb_eq in E. subst k2.
  apply cs_natd_in in Hin. destruct Hin as [k3 [s3 [Hin [_ Hx]]]]. inversion Hx; subst k3.
  apply Hnot. apply (in_map fst _ _ Hin).
Qed.

Lemma cs_expected_id : forall cfg k v, csv_cfgb cfg = true -> expected cfg k v = v.
Proof.
  intros cfg k v H. unfold expected. destruct k as [|n|t|t| |t]; try reflexivity.
  destruct v as [s|z|b|d]; try reflexivity.
  destruct (cfg_get cfg n) as [c|] eqn:Hc; [|reflexivity].
  apply ir_cfg_get_in in Hc. unfold csv_cfgb in H. rewrite forallb_forall in H.
  specialize (H _ Hc). cbn [snd] in H. destruct (f_proc c); try reflexivity; discriminate.
Qed.

(* ====================================================================== step 1: the encoder sees the native value *)

Lemma cs_pts_native : forall c s, pytype_to_string (VStr s) c = pytype_to_string (cs_native c s) c.
Proof.
  intros c s. unfold pytype_to_string, cs_native. destruct (f_ptype c); try reflexivity.
  - destruct (f_len c) as [w|]; [|destruct (py_int s); reflexivity].
    destruct (py_int s) as [z|] eqn:E; [reflexivity|]. rewrite E. reflexivity.
  - destruct (parse_iso s) as [d|] eqn:E; [|reflexivity]. rewrite (parse_iso_any_canonical s d E). reflexivity.
Qed.

Lemma cs_fti_native : forall c s cd, field_to_iso c (VStr s) cd = field_to_iso c (cs_native c s) cd.
Proof. intros c s cd. unfold field_to_iso. rewrite cs_pts_native. reflexivity. Qed.

Lemma cs_native_truthy : forall c a s, truthy (cs_native c (a :: s)) = true.
Proof.
  intros c a s. unfold cs_native. destruct (f_ptype c); try reflexivity.
  - destruct (py_int (a :: s)); reflexivity.
  - destruct (parse_iso (a :: s)); reflexivity.
Qed.

(* two optional values of element b that the encoder cannot tell apart *)
Definition cs_eqv (cfg : cfgT) (cd : codec) (b : nat) (o o' : option value) : Prop :=
  match o, o' with
  | None, None => True
  | Some v, Some v' => truthy v = truthy v' /\
                       forall c, cfg_get cfg b = Some c -> field_to_iso c v cd = field_to_iso c v' cd
  | _, _ => False
  end.
Definition cs_sim (cfg : cfgT) (cd : codec) (m m' : dict) : Prop :=
  forall b, cs_eqv cfg cd b (lookup m (KDE b)) (lookup m' (KDE b)).

Lemma cs_eqv_refl : forall cfg cd b o, cs_eqv cfg cd b o o.
Proof. intros cfg cd b [v|]; cbn [cs_eqv]; auto. Qed.

Lemma cs_sim_row : forall cfg cd l, cs_sim cfg cd (cs_rowd l) (cs_natd cfg l).
Proof.
  intros cfg cd l b. rewrite cs_lookup_rowd, cs_lookup_natd.
  destruct (cs_find l (KDE b)) as [s|] eqn:E; cbn [option_map cs_eqv]; [|exact I].
  assert (Hne : s <> []).
  { clear -E. induction l as [|[k' s'] r IH]; [discriminate|]. cbn [cs_find] in E.
    destruct s' as [|a s']; [apply IH; exact E|].
    destruct (key_eqb k' (KDE b)); [|apply IH; exact E].
    apply (f_equal (fun o => match o with Some t => t | None => [] end)) in E. subst s. discriminate. }
  destruct s as [|a s]; [contradiction Hne; reflexivity|].
  cbn [native_val]. destruct (cfg_get cfg b) as [c|] eqn:Hc.
  - split; [rewrite cs_native_truthy; reflexivity|].
    intros c' Hc'. apply (f_equal (fun o => match o with Some t => t | None => c end)) in Hc'. subst c'.
    apply cs_fti_native.
  - split; [reflexivity|]. intros c' Hc'. discriminate.
Qed.

Lemma cs_sim_dset : forall cfg cd m m' f v, cs_sim cfg cd m m' -> cs_sim cfg cd (dset m (KDE f) v) (dset m' (KDE f) v).
Proof.
  intros cfg cd m m' f v H b. rewrite !ir_lookup_dset.
  destruct (key_eqb (KDE f) (KDE b)); [apply cs_eqv_refl|apply H].
Qed.

Lemma cs_assign_sim : forall cfg cd chunks fields m m', cs_sim cfg cd m m' ->
  (exists a a', assign_pds m chunks fields = Ok a /\ assign_pds m' chunks fields = Ok a' /\ cs_sim cfg cd a a') \/
  (assign_pds m chunks fields = Raise EIndex /\ assign_pds m' chunks fields = Raise EIndex).
Proof.
  intros cfg cd. induction chunks as [|c cs IH]; intros fields m m' H.
  - left. exists m, m'. auto.
  - cbn [assign_pds]. destruct fields as [|f fs]; [right; auto|].
    apply IH. apply cs_sim_dset. exact H.
Qed.

Lemma cs_enc_fields_sim : forall cfg cd m m', cs_sim cfg cd m m' ->
  forall bits, enc_fields cfg cd m bits = enc_fields cfg cd m' bits.
Proof.
  intros cfg cd m m' H. induction bits as [|b bs IH]; [reflexivity|].
  cbn [enc_fields]. specialize (H b). unfold cs_eqv in H.
  destruct (lookup m (KDE b)) as [v|], (lookup m' (KDE b)) as [v'|]; try contradiction; [|exact IH].
  destruct H as [Ht Hf]. rewrite <- Ht. destruct (truthy v); [|exact IH].
  destruct (cfg_get cfg b) as [c|]; [|reflexivity].
  rewrite (Hf c eq_refl), IH. reflexivity.
Qed.

Lemma cs_dumps_native : forall cfg cd hexbm l,
  dumps cfg cd hexbm (cs_rowd l) = dumps cfg cd hexbm (cs_natd cfg l).
Proof.
  intros cfg cd hexbm l. unfold dumps.
  assert (Ep : pds_to_de (cs_natd cfg l) = pds_to_de (cs_rowd l)).
  { unfold pds_to_de. rewrite cs_pds_entries. reflexivity. }
  rewrite Ep. destruct (pds_to_de (cs_rowd l)) as [chunks| | |]; try reflexivity. cbn [bind].
  destruct (cs_assign_sim cfg cd chunks (pds_bits cfg) _ _ (cs_sim_row cfg cd l))
    as [[a [a' [H1 [H2 H3]]]]|[H1 H2]]; rewrite H1, H2; [|reflexivity].
  cbn [bind]. rewrite (cs_enc_fields_sim cfg cd a a' H3 bit_range).
  rewrite cs_lookup_rowd, cs_lookup_natd.
  destruct (cs_find l KMTI) as [s|]; reflexivity.
Qed.

(* ====================================================================== step 2: the native message is well formed *)

Lemma cs_numeral : forall s, is_numeral s = true -> s = str_of_N (num_of s).
Proof.
  intros s H. unfold is_numeral in H. apply andb_true_iff in H. destruct H as [_ H].
  apply ir_str_eqb_eq in H. symmetry. exact H.
Qed.

(* a canonical cell of an element: its native value fits the element, and prints as the cell *)
Lemma cs_de_cell : forall c cd s, de_cell_okb c cd s = true ->
  wf_valb c cd (cs_native c s) = true /\ cell_of (cs_native c s) = Some s.
Proof.
  intros c cd s H. unfold de_cell_okb in H. unfold wf_valb, cs_native.
  destruct (f_ptype c) eqn:Hpt.
  - split; [exact H|reflexivity].
  - destruct (f_len c) as [w|] eqn:Hw; [|discriminate].
    apply andb_true_iff in H. destruct H as [H H3]. apply andb_true_iff in H. destruct H as [H1 H2].
    pose proof (cs_numeral s H1) as Es. destruct (c20_int_cell (num_of s)) as [P1 P2].
    rewrite <- Es in P1, P2. rewrite P1. split; [|exact P2].
    rewrite (fmt0Z_nonneg w (Z.of_N (num_of s))) by lia. rewrite N2Z.id. rewrite H2, H3.
    replace (0 <=? Z.of_N (num_of s))%Z with true by (symmetry; apply Z.leb_le; lia). reflexivity.
  - discriminate.
  - destruct (parse_iso s) as [d|] eqn:Ed; [|discriminate].
    split; [exact H|]. cbn [cell_of]. rewrite (c20_date_cell s d Ed). reflexivity.
Qed.

Lemma cs_entry_wf : forall cfg cd hp pdscols k s, s <> [] ->
  cell_okb cfg cd (k, s) = true -> col_okb cfg pdscols k = true -> (hp = true -> pdscols = true) ->
  wf_entryb cfg cd hp (k, native_val cfg k s) = true /\ cell_of (native_val cfg k s) = Some s.
Proof.
  intros cfg cd hp pdscols k s Hne Hcell Hcol Hhp. unfold cell_okb in Hcell. cbn [fst snd] in Hcell.
  destruct s as [|a s]; [contradiction Hne; reflexivity|].
  destruct k as [|n|t|t| |t]; try discriminate Hcol; cbn [native_val wf_entryb].
  - split; [exact Hcell|reflexivity].
  - cbn [col_okb] in Hcol. apply andb_true_iff in Hcol. destruct Hcol as [Hr Hc]. rewrite Hr. cbn [andb].
    destruct (cfg_get cfg n) as [c|]; [|discriminate].
    destruct (cs_de_cell c cd _ Hcell) as [W P]. split; [|exact P]. rewrite W. cbn [andb].
    destruct hp; [|reflexivity]. rewrite (Hhp eq_refl) in Hc. exact Hc.
  - cbn [col_okb] in Hcol. split; [|reflexivity]. rewrite Hcol. cbn [andb]. exact Hcell.
Qed.

Lemma cs_native_wf : forall cfg cd maxlen cols cells, NoDup cols -> In KMTI cols ->
  (forall k, In k cols -> col_okb cfg (existsb is_pds_key cols) k = true) ->
  row_okb cfg cd maxlen cols cells = true ->
  wf_msgb cfg cd (native_row cfg cols cells) = true.
Proof.
  intros cfg cd maxlen cols cells Hnd Hmti Hcols Hrow. unfold row_okb in Hrow.
  apply andb_true_iff in Hrow. destruct Hrow as [Hrow _].
  apply andb_true_iff in Hrow. destruct Hrow as [Hrow Hpds].
  apply andb_true_iff in Hrow. destruct Hrow as [Hrow Hdig].
  apply andb_true_iff in Hrow. destruct Hrow as [Hlen Hcells].
  apply Nat.eqb_eq in Hlen. rewrite forallb_forall in Hcells.
  pose proof (cs_combine_fst cols cells Hlen) as Hfst.
  unfold native_row. set (l := combine cols cells) in *.
  assert (Hcol_of : forall k s, In (k, s) l -> In k cols).
  { intros k s Hin. rewrite <- Hfst. apply (in_map fst _ _ Hin). }
  unfold wf_msgb. cbv zeta. fold (ir_has_pds (cs_natd cfg l)). rewrite cs_has_pds.
  apply andb_true_iff. split; [apply andb_true_iff; split; [apply andb_true_iff; split; [apply andb_true_iff; split|]|]|].
  - apply cs_nodup_keys. rewrite Hfst. exact Hnd.
  - rewrite <- Hfst in Hmti. apply in_map_iff in Hmti. destruct Hmti as [[k s] [E Hin]]. cbn [fst] in E. subst k.
    pose proof (Hcells _ Hin) as Hc. unfold cell_okb in Hc. cbn [fst snd] in Hc.
    destruct s as [|a s]; [discriminate Hc|].
    apply existsb_exists. exists (KMTI, native_val cfg KMTI (a :: s)). split; [|reflexivity].
    apply cs_natd_in. exists KMTI, (a :: s). split; [exact Hin|]. split; [discriminate|reflexivity].
  - apply forallb_forall. intros x Hx. apply cs_natd_in in Hx. destruct Hx as [k [s [Hin [Hne Hx]]]]. subst x.
    apply (cs_entry_wf cfg cd _ (existsb is_pds_key cols) k s Hne (Hcells _ Hin) (Hcols k (Hcol_of k s Hin))).
    intros Hp. rewrite <- Hfst. apply cs_row_pds_cols. exact Hp.
  - exact Hdig.
  - unfold pds_to_de. rewrite cs_pds_entries. exact Hpds.
Qed.

(* ====================================================================== the message round trip, with the decoded keys *)

(* keys a decoded record can have besides the original ones: a PDS carrier filled by the packing, the sub-elements of a
   carrier that was supplied directly, ICC tags, and the named groups of a DE43 splitting pattern (never CSV columns:
   [col_okb] admits only MTI / DE / PDS columns, and the encoder ignores them) *)
Definition cs_extra (cfg : cfgT) (m : dict) (k : key) : Prop :=
  match k with
  | KDE n => ir_has_pds m = true /\ exists c, cfg_get cfg n = Some c /\ f_proc c = PPDS
  | KPDS _ => exists n c v, lookup m (KDE n) = Some v /\ cfg_get cfg n = Some c /\ f_proc c = PPDS
  | KTAG _ | KICC | KOther _ => True
  | _ => False
  end.

Lemma cs_loads_dumps : forall cfg cd hexbm m m1 cs mti, codec_okb cd = true -> ir_digits_enc cd ->
  lookup m KMTI = Some (VStr mti) -> length mti = 4 -> forallb ascii_digit mti = true -> encodable cd mti = true ->
  pds_to_de m = Ok cs -> assign_pds m cs (pds_bits cfg) = Ok m1 -> ir_wf_fields cfg cd m1 bit_range ->
  exists b ents, dumps cfg cd hexbm m = Ok b /\
    loads cfg cd hexbm b = Ok (dupdate [(KMTI, VStr mti)] (concat ents)) /\
    Forall2 (ir_ent_of cfg m1) (filter (ir_pres m1) bit_range) ents.
Proof.
  intros cfg cd hexbm m m1 cs mti Hcd Hdig Hmti Hl4 Hasc Henc Hcs Hm1 Hwf.
  destruct (ir_loads_core cfg cd hexbm m1 mti Hcd Hdig Hl4 Hasc Henc Hwf)
    as [body [ents [mb [He [Hents [Hmb Hloads]]]]]].
  eexists. exists ents. split; [|split; [exact Hloads|exact Hents]].
  apply (ir_dumps_eq cfg cd hexbm m cs m1 _ body mti mb Hcs Hm1 He Hmti); [|exact Hmb].
  intro C. subst mti. discriminate.
Qed.

Lemma cs_dkeys : forall cfg m1 mti ents k,
  Forall2 (ir_ent_of cfg m1) (filter (ir_pres m1) bit_range) ents ->
  lookup (dupdate [(KMTI, VStr mti)] (concat ents)) k <> None ->
  k = KMTI \/
  (exists b c v, cfg_get cfg b = Some c /\ lookup m1 (KDE b) = Some v /\
     (k = KDE b \/
      (f_proc c = PPDS /\ is_pds_key k = true /\
       exists s sub x, v = VStr s /\ pds_to_dict s = Ok sub /\ In (k, x) sub))) \/
  (ir_tag_key k = true \/ exists s, k = KOther s).
Proof.
  intros cfg m1 mti ents k Hents Hk.
  destruct (lookup (dupdate [(KMTI, VStr mti)] (concat ents)) k) as [x|] eqn:El; [|contradiction Hk; reflexivity].
  apply ir_lookup_in in El. apply ir_in_dupdate in El. destruct El as [El|El].
  - destruct El as [El|[]]. left. congruence.
  - right. destruct (ir_forall2_concat_in _ _ _ _ Hents El) as [b [es [_ [[c [v [Hc [Hv Hf]]]] Hx]]]].
    destruct (ir_fent_in _ _ _ _ _ _ Hf Hx) as [[K1 _]|[[K1 [K2 [s [sub [K3 [K4 K5]]]]]]|[K|[p0 [n0 [_ [_ [K _]]]]]]]].
    + left. exists b, c, v. auto.
    + left. exists b, c, v. split; [exact Hc|]. split; [exact Hv|]. right.
      split; [exact K1|]. split; [exact K2|]. exists s, sub, x. auto.
    + right. left. exact K.
    + right. right. exists n0. exact K.
Qed.

Lemma cs_tag_extra : forall cfg m k, (ir_tag_key k = true \/ exists s, k = KOther s) -> cs_extra cfg m k.
Proof. intros cfg m k [H|[s H]]; [destruct k; try discriminate; exact I|subst k; exact I]. Qed.

Lemma cs_roundtrip_nopds : forall cfg cd hexbm m,
  wf_cfgb cfg = true -> codec_okb cd = true -> wf_msgb cfg cd m = true -> ir_has_pds m = false ->
  exists b d, dumps cfg cd hexbm m = Ok b /\ loads cfg cd hexbm b = Ok d /\
    (forall k v, lookup m k = Some v -> lookup d k = Some (expected cfg k v)) /\
    (forall k, lookup d k <> None -> lookup m k <> None \/ cs_extra cfg m k).
Proof.
  intros cfg cd hexbm m Hcfg Hcd Hm Hnp.
  destruct (ir_wf_msg_parts cfg cd m Hm) as [Hnd [[mti [Hmti [Hl4 [Hasc Henc]]]] [Hent [Hdig _]]]].
  assert (Hcs : pds_to_de m = Ok []).
  { unfold pds_to_de. rewrite (ir_no_pds_entries m Hnp). reflexivity. }
  assert (Hm1 : assign_pds m [] (pds_bits cfg) = Ok m) by reflexivity.
  assert (Hwf : ir_wf_fields cfg cd m bit_range).
  { intros b v _ Hl. pose proof (Hent _ _ (ir_lookup_in _ _ _ Hl)) as Hw.
    destruct (ir_entry_wf_field cfg cd _ b v Hcfg Hw) as [_ [c [Hc [Hwc [Hwv _]]]]].
    exists c. auto. }
  destruct (cs_loads_dumps cfg cd hexbm m m [] mti Hcd Hdig Hmti Hl4 Hasc Henc Hcs Hm1 Hwf)
    as [b [ents [Hd [Hl Hents]]]].
  exists b, (dupdate [(KMTI, VStr mti)] (concat ents)). split; [exact Hd|]. split; [exact Hl|].
  pose proof (ir_final cfg cd (ir_has_pds m) m m mti ents Hent Hmti Hents) as F. cbv zeta in F.
  destruct F as [C1 _].
  - intros n v E. exact E.
  - intros n c _ _. reflexivity.
  - intros t v Hin. exfalso. exact (ir_no_pds_key m t v Hnp Hin).
  - split; [exact C1|]. intros k Hk.
    destruct (cs_dkeys cfg m mti ents k Hents Hk) as [K|[[b0 [c [v [Hc [Hv [K|[K1 [K2 _]]]]]]]]|K]].
    + left. subst k. rewrite Hmti. discriminate.
    + left. subst k. rewrite Hv. discriminate.
    + right. destruct k; try discriminate K2. cbn [cs_extra]. exists b0, c, v. auto.
    + right. apply cs_tag_extra. exact K.
Qed.

(* the packing plan of IsoRoundtrip.ir_pds_plan, with the converse: everything packed is an entry of the message *)
Lemma cs_pds_plan : forall cfg cd m, nodup_keys m = true ->
  (forall k v, In (k, v) m -> wf_entryb cfg cd true (k, v) = true) ->
  exists pds groups,
    NoDup (map fst pds) /\ Forall (ir_tv_ok cd) pds /\
    (forall t v, In (KPDS t, v) m -> exists tv, In tv pds /\ t = tag4 (fst tv) /\ v = VStr (snd tv)) /\
    (forall tv, In tv pds -> In (ir_kv tv) m) /\
    concat groups = pds /\ pds_to_de m = Ok (map (flat_map sub_of) groups) /\
    Forall (fun c => 1 <= length c <= 999) (map (flat_map sub_of) groups).
Proof.
  intros cfg cd m Hnd Hent.
  assert (Hwfe : forall e, In e (pds_entries m) -> exists t s, e = (t, VStr s) /\ length t = 4 /\
            forallb ascii_digit t = true /\ length s <= 992 /\ encodable cd s = true).
  { intros [t v] Hin. apply ir_pds_entries_in in Hin. pose proof (Hent _ _ Hin) as Hw.
    cbn [wf_entryb] in Hw. destruct v as [s| | |]; try discriminate.
    apply andb_true_iff in Hw. destruct Hw as [Hw Hw4].
    apply andb_true_iff in Hw. destruct Hw as [Hw Hw3].
    apply andb_true_iff in Hw. destruct Hw as [Hw1 Hw2].
    apply Nat.eqb_eq in Hw1. apply Nat.leb_le in Hw3. exists t, s. auto. }
  set (raw := map ir_pds_num (pds_entries m)).
  assert (Hraw : map pds_entry raw = pds_entries m).
  { unfold raw. rewrite map_map. rewrite <- (map_id (pds_entries m)) at 2.
    apply map_ext_in. intros e He. destruct (Hwfe e He) as [t [s [E [H1 [H2 _]]]]]. subst e.
    unfold pds_entry, ir_pds_num. cbn [fst snd]. rewrite (proj1 (ir_tag4_num t H1 H2)). reflexivity. }
  assert (Hrawok : Forall (ir_tv_ok cd) raw).
  { unfold raw. rewrite Forall_map. apply Forall_forall. intros e He.
    destruct (Hwfe e He) as [t [s [E [H1 [H2 [H3 H4]]]]]]. subst e.
    unfold ir_tv_ok, ir_pds_num. cbn [fst snd]. split; [apply (ir_tag4_num t H1 H2)|]. auto. }
  assert (Hrawnd : NoDup (map fst raw)).
  { unfold raw. rewrite map_map.
    replace (map (fun x => fst (ir_pds_num x)) (pds_entries m)) with (map num_of (map fst (pds_entries m)))
      by (rewrite map_map; reflexivity).
    apply ir_nodup_map_in; [|apply ir_pds_entries_nodup; exact Hnd].
    intros a b Ha Hb E.
    apply in_map_iff in Ha. destruct Ha as [ea [Ea Ha]]. apply in_map_iff in Hb. destruct Hb as [eb [Eb Hb]].
    destruct (Hwfe ea Ha) as [ta [sa [Ea' [A1 [A2 _]]]]]. destruct (Hwfe eb Hb) as [tb [sb [Eb' [B1 [B2 _]]]]].
    subst ea eb. cbn [fst] in Ea, Eb. subst ta tb.
    rewrite <- (proj1 (ir_tag4_num a A1 A2)), <- (proj1 (ir_tag4_num b B1 B2)), E. reflexivity. }
  destruct (ir_sort_exists raw Hrawnd) as [pds [Hperm Hsort]].
  assert (Hpdsok : Forall (ir_tv_ok cd) pds) by (apply (Permutation_Forall Hperm); exact Hrawok).
  assert (Hwfp : wf_pds pds).
  { split; [exact Hsort|]. eapply Forall_impl; [|exact Hpdsok]. intros tv [H1 [H2 _]]. auto. }
  assert (Hpe : Permutation (pds_entries m) (map pds_entry pds)).
  { rewrite <- Hraw. apply Permutation_map. exact Hperm. }
  destruct (c12_packing pds m Hwfp Hpe) as [cs [groups [Hcs [Hconcat [Hcseq [_ Hlen]]]]]].
  subst cs. exists pds, groups.
  split; [apply (Permutation_NoDup (Permutation_map fst Hperm) Hrawnd)|].
  split; [exact Hpdsok|]. split; [|split; [|auto]].
  - intros t v Hin. apply ir_pds_entries_in in Hin. apply (Permutation_in _ Hpe) in Hin.
    apply in_map_iff in Hin. destruct Hin as [tv [E Hin]]. unfold pds_entry in E. inversion E; subst.
    exists tv. auto.
  - intros tv Hin. unfold ir_kv. apply ir_pds_entries_in.
    apply (Permutation_in _ (Permutation_sym Hpe)). apply (in_map pds_entry _ _ Hin).
Qed.

Lemma cs_roundtrip_pds : forall cfg cd hexbm m,
  wf_cfgb cfg = true -> codec_okb cd = true -> wf_msgb cfg cd m = true -> ir_has_pds m = true ->
  exists b d, dumps cfg cd hexbm m = Ok b /\ loads cfg cd hexbm b = Ok d /\
    (forall k v, lookup m k = Some v -> lookup d k = Some (expected cfg k v)) /\
    (forall k, lookup d k <> None -> lookup m k <> None \/ cs_extra cfg m k).
Proof.
  intros cfg cd hexbm m Hcfg Hcd Hm Hhp.
  destruct (ir_wf_msg_parts cfg cd m Hm) as [Hnd [[mti [Hmti [Hl4 [Hasc Henc]]]] [Hent [Hdig Hp]]]].
  destruct Hp as [Hp|[_ [Hcar [cs [Hcs Hlen]]]]]; [congruence|].
  rewrite Hhp in Hent.
  destruct (cs_pds_plan cfg cd m Hnd Hent) as [pds [groups [Hpnd [Hpok [Hpin [Hpconv [Hconcat [Hpd Hclen]]]]]]]].
  rewrite Hpd in Hcs. apply cs_ok_inj in Hcs. rename Hcs into Hcseq.
  destruct (ir_assignment_in m cs (pds_bits cfg) Hlen (ir_pds_bits_nodup cfg)) as [m1 [Hm1 [A1 [A2 A3]]]].
  set (asg := firstn (length cs) (pds_bits cfg)) in *.
  assert (Hasg : forall f, In f asg -> In f (pds_bits cfg)).
  { intros f Hf. apply ir_firstn_in in Hf. destruct Hf as [i [_ Hi]]. apply (nth_error_In _ _ Hi). }
  assert (Hgrp : forall g, In g groups ->
     Forall (ir_tv_ok cd) g /\ 1 <= length (flat_map sub_of g) <= 999 /\
     pds_to_dict (flat_map sub_of g) = Ok (map ir_kv g) /\ (forall tv, In tv g -> In tv pds)).
  { intros g Hg.
    assert (Hincl : forall tv, In tv g -> In tv pds).
    { intros tv Htv. rewrite <- Hconcat. apply in_concat. exists g. auto. }
    assert (Hok : Forall (ir_tv_ok cd) g).
    { apply Forall_forall. intros tv Htv. rewrite Forall_forall in Hpok. apply Hpok. apply Hincl. exact Htv. }
    split; [exact Hok|]. split.
    - rewrite Forall_forall in Hclen. apply Hclen. apply in_map. exact Hg.
    - split; [|exact Hincl]. apply c12_recovery.
      + apply (ir_nodup_concat fst groups g); [rewrite Hconcat; exact Hpnd|exact Hg].
      + eapply Forall_impl; [|exact Hok]. intros tv [H1 [H2 _]]. split; [exact H1|]. apply (Nat.le_trans _ 992); [exact H2|lia]. }
  assert (Huniq : forall tv tv', In tv pds -> In tv' pds -> tag4 (fst tv) = tag4 (fst tv') -> tv = tv').
  { intros tv tv' H1 H2 E. apply (ir_nodup_map_inj fst pds tv tv' Hpnd H1 H2).
    rewrite Forall_forall in Hpok. apply tag4_inj; [apply (Hpok _ H1)|apply (Hpok _ H2)|exact E]. }
  assert (H4 : forall n c, cfg_get cfg n = Some c -> f_proc c <> PPDS -> lookup m1 (KDE n) = lookup m (KDE n)).
  { intros n c Hc Hnp. apply A3. intros f Hf E. inversion E; subst f.
    destruct (ir_carrier_cfg cfg n Hcar (Hasg _ Hf)) as [_ [c' [Hc' [_ [_ Hp']]]]]. congruence. }
  assert (H3 : forall n v, lookup m (KDE n) = Some v -> lookup m1 (KDE n) = Some v).
  { intros n v Hl. pose proof (Hent _ _ (ir_lookup_in _ _ _ Hl)) as Hw.
    destruct (ir_entry_wf_field cfg cd true n v Hcfg Hw) as [_ [c [Hc [_ [_ Hnp]]]]].
    rewrite (H4 n c Hc (Hnp eq_refl)). exact Hl. }
  assert (Hcar_of : forall b c0 v, cfg_get cfg b = Some c0 -> f_proc c0 = PPDS ->
            lookup m1 (KDE b) = Some v -> exists g, In g groups /\ v = VStr (flat_map sub_of g)).
  { intros b c0 v Hc0 Hp0 Hl.
    destruct (in_dec Nat.eq_dec b asg) as [Hin|Hnin].
    - destruct (A2 b Hin) as [c [Hc1 Hc2]]. rewrite Hl in Hc2. inversion Hc2; subst v.
      rewrite <- Hcseq in Hc1. apply in_map_iff in Hc1. destruct Hc1 as [g [Eg Hg]]. exists g. subst c. auto.
    - exfalso. rewrite A3 in Hl.
      + pose proof (Hent _ _ (ir_lookup_in _ _ _ Hl)) as Hw.
        destruct (ir_entry_wf_field cfg cd true b v Hcfg Hw) as [_ [c [Hc [_ [_ Hnp]]]]].
        rewrite Hc0 in Hc. inversion Hc; subst c. exact (Hnp eq_refl Hp0).
      + intros f Hf E. inversion E; subst f. contradiction. }
  assert (Hcs' : pds_to_de m = Ok cs) by (rewrite Hpd, Hcseq; reflexivity).
  assert (Hwf1 : ir_wf_fields cfg cd m1 bit_range).
  { intros b v Hb Hl.
    destruct (in_dec Nat.eq_dec b asg) as [Hin|Hnin].
    + destruct (ir_carrier_cfg cfg b Hcar (Hasg _ Hin)) as [_ [c [Hc [Ht [Hpt Hp]]]]].
      destruct (Hcar_of b c v Hc Hp Hl) as [g [Hg Ev]]. subst v.
      destruct (Hgrp g Hg) as [G1 [G2 [G3 _]]].
      exists c. split; [exact Hc|]. split; [apply (ir_cfg_wf cfg b c Hcfg Hc)|].
      apply (ir_chunk_wf cd c _ _ Ht Hpt Hp (ir_encodable_sub cd g Hdig G1) G2 G3).
    + rewrite A3 in Hl.
      * pose proof (Hent _ _ (ir_lookup_in _ _ _ Hl)) as Hw.
        destruct (ir_entry_wf_field cfg cd true b v Hcfg Hw) as [_ [c [Hc [Hwc [Hwv _]]]]]. exists c. auto.
      * intros f Hf E. inversion E; subst f. contradiction. }
  destruct (cs_loads_dumps cfg cd hexbm m m1 cs mti Hcd Hdig Hmti Hl4 Hasc Henc Hcs' Hm1 Hwf1)
    as [b [ents [Hd [Hl Hents]]]].
  exists b, (dupdate [(KMTI, VStr mti)] (concat ents)). split; [exact Hd|]. split; [exact Hl|].
  pose proof (ir_final cfg cd true m m1 mti ents Hent Hmti Hents H3 H4) as F. cbv zeta in F.
  destruct F as [C1 _].
  - intros t v Hin.
    destruct (Hpin t v Hin) as [tv [Htv [Et Ev]]]. subst t v.
    rewrite <- Hconcat in Htv. apply in_concat in Htv. destruct Htv as [g [Hg Htvg]].
    destruct (Hgrp g Hg) as [G1 [G2 [G3 G4]]].
    split.
    + destruct (A1 (flat_map sub_of g)) as [f [Hf1 Hf2]].
      { rewrite <- Hcseq. apply in_map. exact Hg. }
      destruct (ir_carrier_cfg cfg f Hcar (Hasg _ Hf1)) as [Hfr [c [Hc [Ht [Hpt Hp]]]]].
      assert (Hpres : In f (filter (ir_pres m1) bit_range)).
      { apply filter_In. split; [apply ir_in_bit_range; lia|]. unfold ir_pres. rewrite Hf2.
        destruct (flat_map sub_of g); [cbn [length] in G2; lia|reflexivity]. }
      destruct (ir_forall2_concat_of _ _ _ _ Hents Hpres) as [es [[c' [v' [Hc' [Hv' Hfe]]]] Hsub]].
      rewrite Hc in Hc'. inversion Hc'; subst c'. rewrite Hf2 in Hv'. inversion Hv'; subst v'.
      apply Hsub. apply (ir_fent_sub f c _ es _ _ _ Hfe Hp G3).
      * apply (in_map ir_kv g tv Htvg).
      * intros x' Hx'. apply in_map_iff in Hx'. destruct Hx' as [tv' [E' Htv']].
        unfold ir_kv in E'. apply ir_pair_inj in E'. destruct E' as [E1 E2]. subst x'.
        assert (Etv : tv' = tv) by (apply Huniq; [apply G4; exact Htv'|apply G4; exact Htvg|exact E1]).
        subst tv'. reflexivity.
    + intros x Hx.
      destruct (ir_forall2_concat_in _ _ _ _ Hents Hx) as [b0 [es [Hb [[c [v [Hc [Hv Hfe]]]] Hxe]]]].
      destruct (ir_fent_in _ _ _ _ _ _ Hfe Hxe) as [[K _]|[[Hp [_ [s [sub [Ev [Hsub Hxs]]]]]]|[K|[p0 [s0 [_ [_ [K _]]]]]]]];
        try discriminate.
      subst v. destruct (Hcar_of b0 c _ Hc Hp Hv) as [g' [Hg' Eg']]. inversion Eg'; subst s.
      destruct (Hgrp g' Hg') as [G1' [G2' [G3' G4']]]. rewrite G3' in Hsub. inversion Hsub; subst sub.
      apply in_map_iff in Hxs. destruct Hxs as [tv' [E' Htv']].
      unfold ir_kv in E'. apply ir_pair_inj in E'. destruct E' as [E1 E2]. subst x.
      assert (Etv : tv' = tv) by (apply Huniq; [apply G4'; exact Htv'|apply G4; exact Htvg|exact E1]).
      subst tv'. reflexivity.
  - split; [exact C1|]. intros k Hk.
    destruct (cs_dkeys cfg m1 mti ents k Hents Hk)
      as [K|[[b0 [c [v [Hc [Hv [K|[K1 [K2 [s [sub [x [K3 [K4 K5]]]]]]]]]]]]]|K]].
    + left. subst k. rewrite Hmti. discriminate.
    + subst k. destruct (proc_eqb (f_proc c) PPDS) eqn:Ep.
      * right. cbn [cs_extra]. split; [exact Hhp|]. exists c. split; [exact Hc|]. apply ir_proc_eqb_pds. exact Ep.
      * left. rewrite <- (H4 b0 c Hc); [rewrite Hv; discriminate|]. intro C. rewrite C in Ep. discriminate.
    + left. subst v. destruct (Hcar_of b0 c _ Hc K1 Hv) as [g [Hg Eg]].
      apply (f_equal (fun u => match u with VStr t => t | _ => s end)) in Eg. subst s.
      destruct (Hgrp g Hg) as [_ [_ [G3 G4]]]. rewrite G3 in K4. apply cs_ok_inj in K4. subst sub.
      apply in_map_iff in K5. destruct K5 as [tv [E Htv]].
      pose proof (Hpconv tv (G4 tv Htv)) as Hin. rewrite E in Hin. apply (ir_in_lookup _ _ _ Hin).
    + right. apply cs_tag_extra. exact K.
Qed.

Theorem cs_roundtrip : forall cfg cd hexbm m,
  wf_cfgb cfg = true -> codec_okb cd = true -> wf_msgb cfg cd m = true ->
  exists b d, dumps cfg cd hexbm m = Ok b /\ loads cfg cd hexbm b = Ok d /\
    (forall k v, lookup m k = Some v -> lookup d k = Some (expected cfg k v)) /\
    (forall k, lookup d k <> None -> lookup m k <> None \/ cs_extra cfg m k).
Proof.
  intros cfg cd hexbm m Hcfg Hcd Hm. destruct (ir_has_pds m) eqn:Hp.
  - apply cs_roundtrip_pds; assumption.
  - apply cs_roundtrip_nopds; assumption.
Qed.

(* ====================================================================== step 3: one row *)

Lemma cs_carrier_col : forall cfg n c, cfg_get cfg n = Some c -> f_proc c = PPDS -> col_okb cfg true (KDE n) = false.
Proof. intros cfg n c Hc Hp. cbn [col_okb]. rewrite Hc, Hp. cbn [proc_eqb andb negb]. apply andb_false_r. Qed.

Lemma cs_map_cells : forall (f : key -> option str) cols cells, length cells = length cols ->
  (forall k s, In (k, s) (combine cols cells) -> f k = Some s) -> map f cols = map (@Some str) cells.
Proof.
  intros f. induction cols as [|k cols IH]; intros [|s cells] Hl H; cbn [length] in Hl; try discriminate; [reflexivity|].
  cbn [map]. f_equal.
  - apply H. left. reflexivity.
  - apply IH; [lia|]. intros k' s' Hin. apply H. right. exact Hin.
Qed.

Lemma cs_row_rt : forall cfg cd maxlen cols cells,
  wf_cfgb cfg = true -> csv_cfgb cfg = true -> codec_okb cd = true ->
  NoDup cols -> In KMTI cols -> (forall k, In k cols -> col_okb cfg (existsb is_pds_key cols) k = true) ->
  row_okb cfg cd maxlen cols cells = true ->
  exists b d, dumps cfg cd false (row_dict cols cells) = Ok b /\ loads cfg cd false b = Ok d /\ wf_rec maxlen b /\
    map (fun k => match lookup d k with Some v => cell_of v | None => Some [] end) cols = map (@Some str) cells.
Proof.
  intros cfg cd maxlen cols cells Hcfg Hcsv Hcd Hnd Hmti Hcols Hrow.
  pose proof (cs_native_wf cfg cd maxlen cols cells Hnd Hmti Hcols Hrow) as Hwf.
  destruct (cs_roundtrip cfg cd false _ Hcfg Hcd Hwf) as [b [d [Hd [Hl [C1 C2]]]]].
  unfold row_okb in Hrow.
  apply andb_true_iff in Hrow. destruct Hrow as [Hrow Hfit].
  apply andb_true_iff in Hrow. destruct Hrow as [Hrow _].
  apply andb_true_iff in Hrow. destruct Hrow as [Hrow _].
  apply andb_true_iff in Hrow. destruct Hrow as [Hlen Hcells].
  apply Nat.eqb_eq in Hlen. rewrite forallb_forall in Hcells.
  pose proof (cs_combine_fst cols cells Hlen) as Hfst.
  assert (Hdump : dumps cfg cd false (row_dict cols cells) = Ok b).
  { rewrite cs_row_dict_eq, cs_dumps_native. exact Hd. }
  rewrite Hdump in Hfit. apply N.leb_le in Hfit.
  unfold native_row in *. set (l := combine cols cells) in *.
  assert (Hndl : NoDup (map fst l)) by (rewrite Hfst; exact Hnd).
  exists b, d. split; [exact Hdump|]. split; [exact Hl|]. split.
  { split; [|exact Hfit]. pose proof (ip_loads_len cfg cd b d Hl). lia. }
  apply cs_map_cells; [exact Hlen|]. fold l. intros k s Hin.
  assert (Hk : In k cols) by (rewrite <- Hfst; apply (in_map fst _ _ Hin)).
  pose proof (cs_find_in l k s Hndl Hin) as Hfind.
  pose proof (cs_lookup_natd cfg l k) as Hlk. rewrite Hfind in Hlk.
  destruct s as [|a s].
  - cbn [option_map] in Hlk.
    destruct (lookup d k) as [v|] eqn:El; [exfalso|reflexivity].
    destruct (C2 k) as [A|X]; [rewrite El; discriminate|exact (A Hlk)|].
    pose proof (Hcols k Hk) as Hcol.
    destruct k as [|n|t|t| |t]; try discriminate Hcol; cbn [cs_extra] in X.
    + exact X.
    + destruct X as [Hp [c [Hc Hproc]]]. rewrite cs_has_pds in Hp. apply cs_row_pds_cols in Hp.
      rewrite Hfst in Hp. rewrite Hp in Hcol. rewrite (cs_carrier_col cfg n c Hc Hproc) in Hcol. discriminate.
    + destruct X as [n [c [v' [Hv' [Hc Hproc]]]]].
      apply ir_lookup_in in Hv'. apply cs_natd_in in Hv'. destruct Hv' as [k2 [s2 [Hin2 [_ E2]]]].
      apply (f_equal fst) in E2. cbn [fst] in E2. subst k2.
      assert (Hk2 : In (KDE n) cols) by (rewrite <- Hfst; apply (in_map fst _ _ Hin2)).
      pose proof (Hcols _ Hk2) as Hcol2.
      assert (Hp : existsb is_pds_key cols = true).
      { apply existsb_exists. exists (KPDS t). split; [exact Hk|reflexivity]. }
      rewrite Hp in Hcol2. rewrite (cs_carrier_col cfg n c Hc Hproc) in Hcol2. discriminate.
  - cbn [option_map] in Hlk. rewrite (C1 _ _ Hlk). rewrite (cs_expected_id cfg _ _ Hcsv).
    apply (cs_entry_wf cfg cd false (existsb is_pds_key cols) k (a :: s)).
    + discriminate.
    + exact (Hcells _ Hin).
    + exact (Hcols k Hk).
    + intro C. discriminate C.
Qed.

(* ====================================================================== step 4: the file *)

Lemma cs_encode_all : forall cfg cd maxlen (R : list str -> dict -> Prop) (mk : list str -> dict) rows,
  (forall r, In r rows -> exists b d, dumps cfg cd false (mk r) = Ok b /\ loads cfg cd false b = Ok d /\
                                      wf_rec maxlen b /\ R r d) ->
  exists bs ds, Forall2 (fun m b => dumps cfg cd false m = Ok b) (map mk rows) bs /\
                Forall2 (fun b d => loads cfg cd false b = Ok d) bs ds /\
                Forall (wf_rec maxlen) bs /\ Forall2 R rows ds.
Proof.
  intros cfg cd maxlen R mk. induction rows as [|r rows IH]; intros H.
  - exists [], []. repeat split; constructor.
  - destruct IH as [bs [ds [H1 [H2 [H3 H4]]]]].
    { intros r' Hr'. apply H. right. exact Hr'. }
    destruct (H r (or_introl eq_refl)) as [b [d [Hd [Hl [Hw HR]]]]].
    exists (b :: bs), (d :: ds). cbn [map]. repeat split; constructor; assumption.
Qed.

Section C20.
Variable B : nat.
Hypothesis Bpos : 0 < B.
Variable maxlen : N.
Hypothesis maxlen_ok : (maxlen < 2 ^ 32)%N.

Theorem c20_rows : forall cfg cd blocked cols rows,
  wf_cfgb cfg = true -> csv_cfgb cfg = true -> codec_okb cd = true ->
  canonical_tableb cfg cd maxlen cols rows = true ->
  exists file, csv_to_ipm B cfg cd blocked cols rows = Ok file /\
               ipm_to_rows B maxlen cfg cd blocked cols file = Ok (map (map (@Some str)) rows).
Proof.
  intros cfg cd blocked cols rows Hcfg Hcsv Hcd Hcan. unfold canonical_tableb in Hcan.
  apply andb_true_iff in Hcan. destruct Hcan as [Hcan Hrows].
  apply andb_true_iff in Hcan. destruct Hcan as [Hcan Hcols].
  apply andb_true_iff in Hcan. destruct Hcan as [Hnd Hmti].
  apply cs_nodupb_nodup in Hnd.
  apply existsb_exists in Hmti. destruct Hmti as [k0 [Hmti E0]]. apply ir_key_eqb_eq in E0. subst k0.
  rewrite forallb_forall in Hcols, Hrows.
  destruct (cs_encode_all cfg cd maxlen
              (fun cells d => map (fun k => match lookup d k with Some v => cell_of v | None => Some [] end) cols
                              = map (@Some str) cells)
              (row_dict cols) rows) as [bs [ds [H1 [H2 [H3 H4]]]]].
  { intros r Hr. apply (cs_row_rt cfg cd maxlen cols r Hcfg Hcsv Hcd Hnd Hmti Hcols (Hrows r Hr)). }
  exists (file_of (writer_run B blocked (map WWrite bs ++ [WClose]))). split.
  - unfold csv_to_ipm. apply ip_ipm_file. exact H1.
  - unfold ipm_to_rows. destruct (ip_seen_written B Bpos blocked bs) as [t Hs].
    rewrite (ip_read_goods B maxlen cfg cd maxlen_ok Bpos blocked _ bs ds _ H2 H3 Hs).
    rewrite ip_iparse_zero. cbn [bind snd fst]. f_equal.
    clear -H4. induction H4 as [|r d rows ds HR _ IH]; cbn [map]; [reflexivity|]. rewrite HR, IH. reflexivity.
Qed.
End C20.
