(* CsvText.v — C20 at text level: CPython's csv reader reads back what its writer wrote (model/Csv.v), such a text
   passes a universal-newlines text file unchanged, column names and dictionary keys correspond, and the two CSV tools
   composed on the TEXT of the csv file return the same text (on top of CsvProofs.c20_rows). *)
From Coq Require Import List NArith ZArith Bool Arith Lia ZifyBool ZifyNat ZifyN.
Require Import CU.model.Prim CU.model.Types CU.model.Unicode CU.model.Codec CU.model.Card CU.model.Dates CU.model.Block CU.model.Vbs CU.model.Iso CU.model.Ipm CU.model.Tools CU.model.Csv.
Require Import CU.spec.FramingSpec CU.spec.IsoSpec.
Require Import CU.proofs.NumProofs CU.proofs.IsoRoundtrip CU.proofs.IpmProofs CU.proofs.CsvProofs.
Import ListNotations.
Open Scope nat_scope.

(* a cell the reader gives back: no CR (the writer with lineterminator "\n" does not quote it, the reader ends the line
   at it) and within csv.field_size_limit() *)
Definition csv_cell_ok (s : str) : Prop := ~ In 13%N s /\ (N.of_nat (length s) <= 131072)%N.

(* ====================================================================== reader states *)

(* a reader state whose field_len agrees with the collected field *)
Definition ct_mk (st : cstate) (fld : str) (row : list str) : rdr := mkrdr st fld (N.of_nat (length fld)) row.

(* a character that neither ends nor quotes an unquoted field *)
Definition ct_plain (c : N) : Prop := (c <> 44 /\ c <> 34 /\ c <> 10 /\ c <> 13)%N.

Lemma ct_plain_tests : forall c, ct_plain c ->
  is_nl c = false /\ (c =? c_quote)%N = false /\ (c =? c_comma)%N = false /\ (c =? c_lf)%N = false.
Proof.
  intros c [H1 [H2 [H3 H4]]]. unfold is_nl, c_quote, c_comma, c_lf, c_cr.
  repeat split; lia.
Qed.

Lemma ct_add : forall st fld row st' c, (N.of_nat (length fld) < 131072)%N ->
  r_add (ct_mk st fld row) st' c = Ok (ct_mk st' (c :: fld) row).
Proof.
  intros st fld row st' c H. unfold r_add, ct_mk. cbn [r_flen r_fld r_row]. unfold csv_field_limit.
  destruct (N.ltb_spec (N.of_nat (length fld)) 131072) as [_|C]; [|lia].
  f_equal. f_equal. cbn [length]. lia.
Qed.

(* a plain character opens a field / joins it *)
Lemma ct_step_start : forall st row c, st = SRec \/ st = SField -> ct_plain c ->
  step_char (ct_mk st [] row) c = Ok (ct_mk SInField [c] row).
Proof.
  intros st row c Hst Hc. destruct (ct_plain_tests c Hc) as [T1 [T2 [T3 _]]].
  unfold step_char. destruct Hst as [Hst|Hst]; subst st; cbn [r_st ct_mk]; rewrite T1, T2, T3; reflexivity.
Qed.

Lemma ct_step_in : forall fld row c, ct_plain c -> (N.of_nat (length fld) < 131072)%N ->
  step_char (ct_mk SInField fld row) c = Ok (ct_mk SInField (c :: fld) row).
Proof.
  intros fld row c Hc Hl. destruct (ct_plain_tests c Hc) as [T1 [_ [T3 _]]].
  unfold step_char. cbn [r_st ct_mk]. rewrite T1, T3. apply ct_add. exact Hl.
Qed.

(* csv_go, one character at a time *)
Lemma ct_go_step : forall c t r r1 mid acc, step_char r c = Ok r1 -> (c =? c_lf)%N = false ->
  csv_go (c :: t) r mid acc = csv_go t r1 true acc.
Proof. intros c t r r1 mid acc H1 H2. cbn [csv_go]. rewrite H1. cbn [bind]. rewrite H2. reflexivity. Qed.

Lemma ct_go_step_lf : forall t r r1 mid acc, step_char r c_lf = Ok r1 -> r_st r1 = SInQuoted ->
  csv_go (c_lf :: t) r mid acc = csv_go t r1 false acc.
Proof.
  intros t r r1 mid acc H1 H2. cbn [csv_go]. rewrite H1. cbn [bind]. rewrite N.eqb_refl. cbv zeta.
  unfold step_eol. rewrite H2. rewrite H2. reflexivity.
Qed.

(* ====================================================================== one field *)

(* the rest of an unquoted field *)
Lemma ct_go_plain : forall s fld row d rest mid acc, Forall ct_plain s ->
  (N.of_nat (length fld + length s) <= 131072)%N ->
  csv_go (s ++ d :: rest) (ct_mk SInField fld row) mid acc
  = csv_go (d :: rest) (ct_mk SInField (rev s ++ fld) row) true acc.
Proof.
  induction s as [|c s IH]; intros fld row d rest mid acc Hs Hl.
  - reflexivity.
  - inversion Hs as [|x y Hc Hs']; subst x y. cbn [length] in Hl. cbn [app].
    rewrite (ct_go_step c _ _ (ct_mk SInField (c :: fld) row)).
    + rewrite IH; [|exact Hs'|cbn [length]; lia]. cbn [rev]. rewrite <- app_assoc. reflexivity.
    + apply ct_step_in; [exact Hc|lia].
    + apply (ct_plain_tests c Hc).
Qed.

Lemma ct_escape_cons : forall c s,
  csv_escape (c :: s) = (if (c =? c_quote)%N then [c_quote; c_quote] else [c]) ++ csv_escape s.
Proof. reflexivity. Qed.

(* the inside of a quoted field up to the closing quote: any characters, also line ends *)
Lemma ct_go_quoted : forall s fld row rest mid acc, (N.of_nat (length fld + length s) <= 131072)%N ->
  csv_go (csv_escape s ++ c_quote :: rest) (ct_mk SInQuoted fld row) mid acc
  = csv_go rest (ct_mk SQuoteInQuoted (rev s ++ fld) row) true acc.
Proof.
  induction s as [|c s IH]; intros fld row rest mid acc Hl.
  - reflexivity.
  - cbn [length] in Hl. rewrite ct_escape_cons.
    assert (Hadd : r_add (ct_mk SInQuoted fld row) SInQuoted c = Ok (ct_mk SInQuoted (c :: fld) row))
      by (apply ct_add; lia).
    assert (Hfin : csv_go (csv_escape s ++ c_quote :: rest) (ct_mk SInQuoted (c :: fld) row) mid acc
                   = csv_go rest (ct_mk SQuoteInQuoted (rev (c :: s) ++ fld) row) true acc).
    { rewrite IH by (cbn [length]; lia). cbn [rev]. rewrite <- app_assoc. reflexivity. }
    destruct (N.eqb_spec c c_quote) as [E|E].
    + subst c. cbn [app].
      rewrite (ct_go_step c_quote _ _ (ct_mk SQuoteInQuoted fld row)); [|reflexivity|reflexivity].
      rewrite (ct_go_step c_quote _ _ (ct_mk SInQuoted (c_quote :: fld) row)); [|exact Hadd|reflexivity].
      rewrite <- Hfin. destruct (csv_escape s); reflexivity.
    + assert (Hstep : step_char (ct_mk SInQuoted fld row) c = Ok (ct_mk SInQuoted (c :: fld) row)).
      { unfold step_char. cbn [r_st ct_mk]. apply N.eqb_neq in E. rewrite E. exact Hadd. }
      cbn [app]. destruct (N.eqb_spec c c_lf) as [F|F].
      * subst c. rewrite (ct_go_step_lf _ _ _ mid acc Hstep); [|reflexivity].
        rewrite <- Hfin. destruct (csv_escape s); reflexivity.
      * apply N.eqb_neq in F. rewrite (ct_go_step c _ _ _ mid acc Hstep F).
        rewrite <- Hfin. destruct (csv_escape s); reflexivity.
Qed.

(* the delimiter after a field: a comma saves the field and opens the next one ... *)
Lemma ct_go_comma : forall st fld row rest mid acc, st <> SInQuoted -> st <> SEatCRNL ->
  csv_go (c_comma :: rest) (ct_mk st fld row) mid acc = csv_go rest (ct_mk SField [] (rev fld :: row)) true acc.
Proof. intros st fld row rest mid acc H1 H2. destruct st; try reflexivity; contradiction. Qed.

(* ... the line end saves it and completes the record *)
Lemma ct_go_lf : forall st fld row rest mid acc, st = SField \/ st = SInField \/ st = SQuoteInQuoted ->
  csv_go (c_lf :: rest) (ct_mk st fld row) mid acc = csv_go rest rdr0 false (rev (rev fld :: row) :: acc).
Proof. intros st fld row rest mid acc [H|[H|H]]; subst st; reflexivity. Qed.

(* what the writer's quoting test says about an unquoted field *)
Lemma ct_unquoted_plain : forall s, existsb csv_special s = false -> ~ In 13%N s -> Forall ct_plain s.
Proof.
  induction s as [|c s IH]; intros H Hcr; [constructor|].
  cbn [existsb] in H. apply orb_false_iff in H. destruct H as [Hc Hs].
  constructor; [|apply IH; [exact Hs|intro C; apply Hcr; right; exact C]].
  assert (c <> 13%N) by (intro C; apply Hcr; left; exact C).
  unfold csv_special, c_comma, c_quote, c_lf in Hc. unfold ct_plain. lia.
Qed.

(* a written field consumed from the start of a record or after a comma, up to the first character after it *)
Lemma ct_go_field : forall s st row d rest mid acc, st = SRec \/ st = SField -> csv_cell_ok s ->
  exists st' mid',
    csv_go (csv_field s ++ d :: rest) (ct_mk st [] row) mid acc = csv_go (d :: rest) (ct_mk st' (rev s) row) mid' acc /\
    (st' = SQuoteInQuoted \/ (st' = SInField /\ s <> []) \/ (st' = st /\ s = [])).
Proof.
  intros s st row d rest mid acc Hst [Hcr Hl]. unfold csv_field. destruct (existsb csv_special s) eqn:E.
  - exists SQuoteInQuoted, true. split; [|left; reflexivity].
    cbn [app]. rewrite (ct_go_step c_quote _ _ (ct_mk SInQuoted [] row));
      [|destruct Hst; subst st; reflexivity|reflexivity].
    rewrite <- app_assoc. cbn [app]. rewrite ct_go_quoted by (cbn [length]; lia).
    rewrite app_nil_r. reflexivity.
  - pose proof (ct_unquoted_plain s E Hcr) as Hp. destruct s as [|c s].
    + exists st, mid. split; [reflexivity|]. right. right. auto.
    + exists SInField, true. split; [|right; left; split; [reflexivity|discriminate]].
      inversion Hp as [|x y Hc Hs]; subst x y. cbn [length] in Hl. cbn [app].
      rewrite (ct_go_step c _ _ (ct_mk SInField [c] row));
        [|apply ct_step_start; assumption|apply (ct_plain_tests c Hc)].
      rewrite ct_go_plain; [|exact Hs|cbn [length]; lia]. reflexivity.
Qed.

Lemma ct_go_field_comma : forall s st row rest mid acc, st = SRec \/ st = SField -> csv_cell_ok s ->
  csv_go (csv_field s ++ c_comma :: rest) (ct_mk st [] row) mid acc = csv_go rest (ct_mk SField [] (s :: row)) true acc.
Proof.
  intros s st row rest mid acc Hst Hs.
  destruct (ct_go_field s st row c_comma rest mid acc Hst Hs) as [st' [mid' [H1 H2]]].
  rewrite H1, ct_go_comma, rev_involutive; [reflexivity| |].
  - destruct H2 as [H|[[H _]|[H _]]]; subst st'; [discriminate|discriminate|destruct Hst; subst st; discriminate].
  - destruct H2 as [H|[[H _]|[H _]]]; subst st'; [discriminate|discriminate|destruct Hst; subst st; discriminate].
Qed.

(* a lone empty unquoted field at the start of a record would read as an empty line: excluded here, avoided by the writer *)
Lemma ct_go_field_lf : forall s st row rest mid acc, st = SField \/ (st = SRec /\ s <> []) -> csv_cell_ok s ->
  csv_go (csv_field s ++ c_lf :: rest) (ct_mk st [] row) mid acc = csv_go rest rdr0 false (rev (s :: row) :: acc).
Proof.
  intros s st row rest mid acc Hst Hs.
  assert (Hst' : st = SRec \/ st = SField) by (destruct Hst as [H|[H _]]; auto).
  destruct (ct_go_field s st row c_lf rest mid acc Hst' Hs) as [st' [mid' [H1 H2]]].
  rewrite H1, ct_go_lf, rev_involutive; [reflexivity|].
  destruct H2 as [H|[[H _]|[H Hnil]]]; subst st'; auto.
  destruct Hst as [H|[_ H]]; [auto|contradiction].
Qed.

(* ====================================================================== one record *)

Lemma ct_join_cons2 : forall f g r, csv_join (f :: g :: r) = f ++ c_comma :: csv_join (g :: r).
Proof. reflexivity. Qed.

Lemma ct_go_join : forall cs c st row rest mid acc, st = SField \/ (st = SRec /\ (c <> [] \/ cs <> [])) ->
  Forall csv_cell_ok (c :: cs) ->
  csv_go (csv_join (map csv_field (c :: cs)) ++ c_lf :: rest) (ct_mk st [] row) mid acc
  = csv_go rest rdr0 false ((rev row ++ c :: cs) :: acc).
Proof.
  induction cs as [|c' cs IH]; intros c st row rest mid acc Hst Hok.
  - inversion Hok as [|x y Hc _]; subst x y. cbn [map csv_join].
    rewrite ct_go_field_lf; [reflexivity| |exact Hc].
    destruct Hst as [H|[H [K|K]]]; [left; exact H|right; auto|contradiction K; reflexivity].
  - inversion Hok as [|x y Hc Hok']; subst x y. cbn [map]. rewrite ct_join_cons2, <- app_assoc. cbn [app].
    rewrite ct_go_field_comma; [|destruct Hst as [H|[H _]]; auto|exact Hc].
    change (csv_field c' :: map csv_field cs) with (map csv_field (c' :: cs)).
    rewrite IH; [|left; reflexivity|exact Hok']. cbn [rev]. rewrite <- app_assoc. reflexivity.
Qed.

Lemma ct_field_nonempty : forall s, s <> [] -> csv_field s <> [].
Proof.
  intros s H. unfold csv_field. destruct (existsb csv_special s); [discriminate|exact H].
Qed.

(* a written record read back, from the start of a line; the record without fields is an empty line, which reads as [] *)
Lemma ct_go_row : forall cells rest mid acc, Forall csv_cell_ok cells ->
  csv_go (csv_row cells ++ rest) rdr0 mid acc = csv_go rest rdr0 false (cells :: acc).
Proof.
  intros cells rest mid acc Hok. destruct cells as [|c cs]; [reflexivity|].
  destruct (list_eq_dec (list_eq_dec N.eq_dec) (c :: cs) [[]]) as [E|E].
  - inversion E; subst c cs. reflexivity.
  - unfold csv_row. cbv zeta.
    assert (Hne : csv_join (map csv_field (c :: cs)) <> []).
    { destruct cs as [|c' cs].
      - cbn [map csv_join]. apply ct_field_nonempty. intro C. subst c. apply E. reflexivity.
      - cbn [map]. rewrite ct_join_cons2. intro C. apply app_eq_nil in C. destruct C as [_ C]. discriminate. }
    destruct (csv_join (map csv_field (c :: cs))) as [|x l] eqn:Ej; [contradiction Hne; reflexivity|].
    rewrite <- Ej. rewrite <- app_assoc. cbn [app].
    change rdr0 with (ct_mk SRec [] []) at 1. rewrite ct_go_join; [reflexivity| |exact Hok].
    right. split; [reflexivity|].
    destruct c as [|a c]; [|left; discriminate]. destruct cs as [|c' cs]; [contradiction E; reflexivity|right; discriminate].
Qed.

(* ====================================================================== 1. the table *)

Lemma ct_go_table : forall rows acc, Forall (Forall csv_cell_ok) rows ->
  csv_go (csv_table rows) rdr0 false acc = Ok (rev acc ++ rows).
Proof.
  induction rows as [|r rows IH]; intros acc Hok.
  - cbn. rewrite app_nil_r. reflexivity.
  - inversion Hok as [|x y Hr Hrows]; subst x y. unfold csv_table. cbn [flat_map]. fold (csv_table rows).
    rewrite ct_go_row by exact Hr. rewrite IH by exact Hrows. cbn [rev]. rewrite <- app_assoc. reflexivity.
Qed.

Lemma csv_parse_table : forall rows, Forall (Forall csv_cell_ok) rows -> csv_parse (csv_table rows) = Ok rows.
Proof. intros rows H. unfold csv_parse. rewrite ct_go_table by exact H. reflexivity. Qed.

(* ====================================================================== 2. no CR in the text *)

Lemma ct_universal_id : forall t, ~ In 13%N t -> universal_nl t = t.
Proof.
  induction t as [|c t IH]; intros H; [reflexivity|].
  cbn [universal_nl]. destruct (N.eqb_spec c c_cr) as [E|E].
  - exfalso. apply H. left. exact E.
  - rewrite IH; [reflexivity|]. intro C. apply H. right. exact C.
Qed.

Lemma ct_escape_nocr : forall s, ~ In 13%N s -> ~ In 13%N (csv_escape s).
Proof.
  intros s H C. unfold csv_escape in C. apply in_flat_map in C. destruct C as [c [Hc C]].
  destruct (c =? c_quote)%N.
  - destruct C as [C|[C|[]]]; discriminate C.
  - destruct C as [C|[]]. subst c. exact (H Hc).
Qed.

Lemma ct_field_nocr : forall s, ~ In 13%N s -> ~ In 13%N (csv_field s).
Proof.
  intros s H. unfold csv_field. destruct (existsb csv_special s); [|exact H].
  intros [C|C]; [discriminate C|]. apply in_app_or in C. destruct C as [C|[C|[]]]; [|discriminate C].
  exact (ct_escape_nocr s H C).
Qed.

Lemma ct_join_nocr : forall cells, Forall (fun s => ~ In 13%N s) cells -> ~ In 13%N (csv_join (map csv_field cells)).
Proof.
  induction cells as [|c cs IH]; intros H; [intros []|].
  inversion H as [|x y Hc Hcs]; subst x y. destruct cs as [|c' cs].
  - cbn [map csv_join]. apply ct_field_nocr. exact Hc.
  - cbn [map]. rewrite ct_join_cons2. intro C. apply in_app_or in C. destruct C as [C|[C|C]].
    + exact (ct_field_nocr c Hc C).
    + discriminate C.
    + exact (IH Hcs C).
Qed.

Lemma ct_row_nocr : forall cells, Forall (fun s => ~ In 13%N s) cells -> ~ In 13%N (csv_row cells).
Proof.
  intros cells H C. unfold csv_row in C. cbv zeta in C. apply in_app_or in C. destruct C as [C|[C|[]]]; [|discriminate C].
  pose proof (ct_join_nocr cells H) as Hj.
  destruct cells as [|c cs]; [exact (Hj C)|].
  destruct (csv_join (map csv_field (c :: cs))) as [|x l]; [|exact (Hj C)].
  destruct C as [C|[C|[]]]; discriminate C.
Qed.

Lemma ct_table_nocr : forall rows, Forall (Forall (fun s => ~ In 13%N s)) rows -> ~ In 13%N (csv_table rows).
Proof.
  intros rows H C. unfold csv_table in C. apply in_flat_map in C. destruct C as [r [Hr C]].
  rewrite Forall_forall in H. exact (ct_row_nocr r (H r Hr) C).
Qed.

Lemma csv_table_universal : forall rows, Forall (Forall (fun s => ~ In 13%N s)) rows ->
  universal_nl (csv_table rows) = csv_table rows.
Proof. intros rows H. apply ct_universal_id. apply ct_table_nocr. exact H. Qed.

(* ====================================================================== 3. column names and dictionary keys *)

Lemma ct_starts : forall p s, starts p s = true -> p ++ skipn (length p) s = s.
Proof.
  intros p s H. unfold starts in H. apply ir_str_eqb_eq in H.
  rewrite <- H at 1. apply firstn_skipn.
Qed.

Lemma name_of_key_of_name : forall s, name_of_key (key_of_name s) = s.
Proof.
  intros s. unfold key_of_name.
  destruct (str_eqb s n_MTI) eqn:E1; [apply ir_str_eqb_eq in E1; subst s; reflexivity|].
  destruct (str_eqb s n_ICC) eqn:E2; [apply ir_str_eqb_eq in E2; subst s; reflexivity|].
  match goal with |- name_of_key (if ?c then _ else _) = _ => destruct c eqn:E3 end.
  - apply andb_true_iff in E3. destruct E3 as [E3 E4]. apply ir_str_eqb_eq in E4.
    repeat (apply andb_true_iff in E3; destruct E3 as [E3 _]).
    cbn [name_of_key]. rewrite N2Nat.id, E4. apply (ct_starts n_DE s E3).
  - destruct (starts n_PDS s) eqn:E4; [apply (ct_starts n_PDS s E4)|].
    destruct (starts n_TAG s) eqn:E5; [apply (ct_starts n_TAG s E5)|]. reflexivity.
Qed.

(* the decimal numeral of a number below 10^k has at most k digits *)
Lemma ct_dec_aux_len : forall fuel k n acc, 1 <= k -> (n < 10 ^ N.of_nat k)%N ->
  length (dec_aux fuel n acc) <= k + length acc.
Proof.
  induction fuel as [|f IH]; intros k n acc Hk Hn; [cbn [dec_aux]; lia|].
  rewrite np_dec_aux_S. destruct (N.ltb_spec n 10) as [E|E]; [cbn [length]; lia|].
  destruct k as [|k]; [lia|]. destruct k as [|k].
  - change (10 ^ N.of_nat 1)%N with 10%N in Hn. lia.
  - assert (Hd : (n / 10 < 10 ^ N.of_nat (S k))%N).
    { rewrite (Nat2N.inj_succ (S k)), N.pow_succ_r' in Hn. apply N.div_lt_upper_bound; lia. }
    pose proof (IH (S k) (n / 10)%N ((n mod 10)%N :: acc) ltac:(lia) Hd) as H. cbn [length] in H. lia.
Qed.

Lemma ct_numeral_len : forall k n, 1 <= k -> (n < 10 ^ N.of_nat k)%N -> length (str_of_N n) <= k.
Proof.
  intros k n Hk Hn. unfold str_of_N, dec_digits. rewrite map_length.
  pose proof (ct_dec_aux_len (S (N.size_nat n)) k n [] Hk Hn) as H. cbn [length] in H. lia.
Qed.

Lemma ct_numeral_digits : forall n, all_ascii_digits (str_of_N n) = true.
Proof. intros n. unfold str_of_N. apply np_all_digits_map_dch. apply (dec_digits_spec n). Qed.

Lemma ct_numeral_num : forall n, num_of (str_of_N n) = n.
Proof. intros n. unfold str_of_N. rewrite np_num_of_map_dch. apply (dec_digits_spec n). Qed.

Lemma ct_numeral_nonempty : forall n, str_of_N n <> [].
Proof.
  intros n C. unfold str_of_N in C. apply map_eq_nil in C. exact (proj1 (dec_digits_spec n) C).
Qed.

Lemma ct_key_DE : forall ds, ds <> [] -> length ds <= 4 -> all_ascii_digits ds = true -> str_of_N (num_of ds) = ds ->
  key_of_name (n_DE ++ ds) = KDE (N.to_nat (num_of ds)).
Proof.
  intros ds H1 H2 H3 H4. change (n_DE ++ ds) with (68 :: 69 :: ds)%N. unfold key_of_name.
  assert (E1 : str_eqb (68 :: 69 :: ds)%N n_MTI = false) by reflexivity.
  assert (E2 : str_eqb (68 :: 69 :: ds)%N n_ICC = false) by reflexivity.
  assert (E3 : starts n_DE (68 :: 69 :: ds)%N = true) by reflexivity.
  assert (E4 : skipn 2 (68 :: 69 :: ds)%N = ds) by reflexivity.
  rewrite E1, E2, E3, E4, H3, H4. cbn [length].
  assert (E5 : str_eqb ds ds = true) by (apply ir_str_eqb_eq; reflexivity). rewrite E5.
  assert (E6 : Nat.eqb (S (S (length ds))) 2 = false).
  { apply Nat.eqb_neq. destruct ds; [contradiction H1; reflexivity|cbn [length]; lia]. }
  assert (E7 : Nat.leb (S (S (length ds))) 6 = true) by (apply Nat.leb_le; lia).
  rewrite E6, E7. reflexivity.
Qed.

Lemma ct_key_of_DE : forall n, (N.of_nat n < 10000)%N -> key_of_name (name_of_key (KDE n)) = KDE n.
Proof.
  intros n H. cbn [name_of_key]. rewrite ct_key_DE.
  - rewrite ct_numeral_num, Nat2N.id. reflexivity.
  - apply ct_numeral_nonempty.
  - apply ct_numeral_len; [lia|]. rewrite pow10_4. exact H.
  - apply ct_numeral_digits.
  - rewrite ct_numeral_num. reflexivity.
Qed.

Lemma key_of_name_of_key : forall k, (match k with KDE n => (N.of_nat n < 10000)%N | KOther _ => False | _ => True end) ->
  key_of_name (name_of_key k) = k.
Proof.
  intros k H. destruct k as [|n|t|t| |t]; try reflexivity; [|contradiction].
  apply ct_key_of_DE. lia.
Qed.

(* ====================================================================== 4. the tools on the text *)

(* csv.DictReader's dict(zip(fieldnames, row)) for distinct names, then the tool's filter of empty values *)
Lemma ct_dset_fresh : forall d k v, ~ In k (map fst d) -> dset d k v = d ++ [(k, v)].
Proof.
  induction d as [|[k' v'] d IH]; intros k v H; [reflexivity|].
  cbn [dset app]. cbn [map fst] in H.
  rewrite ir_key_eqb_neq by (intro C; apply H; left; exact C).
  rewrite IH by (intro C; apply H; right; exact C). reflexivity.
Qed.

Lemma ct_zip_fold : forall cols cells d, (forall k, In k cols -> key_of_name (name_of_key k) = k) -> NoDup cols ->
  (forall k, In k cols -> ~ In k (map fst d)) ->
  fold_left (fun d kc => dset d (key_of_name (fst kc)) (VStr (snd kc))) (combine (map name_of_key cols) cells) d
  = d ++ map (fun kc => (fst kc, VStr (snd kc))) (combine cols cells).
Proof.
  induction cols as [|k cols IH]; intros cells d Hk Hnd Hd; [cbn; rewrite app_nil_r; reflexivity|].
  destruct cells as [|c cells]; [cbn; rewrite app_nil_r; reflexivity|].
  inversion Hnd as [|x y Hnot Hnd']; subst x y.
  cbn [map combine fold_left fst snd]. rewrite (Hk k (or_introl eq_refl)).
  rewrite ct_dset_fresh by (apply Hd; left; reflexivity).
  rewrite IH.
  - rewrite <- app_assoc. reflexivity.
  - intros k' Hk'. apply Hk. right. exact Hk'.
  - exact Hnd'.
  - intros k' Hk' C. rewrite map_app in C. apply in_app_or in C. destruct C as [C|[C|[]]].
    + exact (Hd k' (or_intror Hk') C).
    + cbn [fst] in C. subst k'. exact (Hnot Hk').
Qed.

Lemma ct_filter_rowd : forall l : list (key * str),
  filter (fun kv : key * value => match snd kv with VStr [] => false | _ => true end)
         (map (fun kc => (fst kc, VStr (snd kc))) l)
  = flat_map (fun kc => match snd kc with [] => [] | s => [(fst kc, VStr s)] end) l.
Proof.
  induction l as [|[k s] l IH]; [reflexivity|].
  cbn [map filter flat_map fst snd]. rewrite IH. destruct s; reflexivity.
Qed.

Lemma ct_record : forall cols cells, NoDup cols -> (forall k, In k cols -> key_of_name (name_of_key k) = k) ->
  length cells = length cols -> csv_record (map name_of_key cols) cells = Ok (row_dict cols cells).
Proof.
  intros cols cells Hnd Hk Hl. unfold csv_record. rewrite map_length.
  assert (E : Nat.ltb (length cols) (length cells) = false) by (apply Nat.ltb_ge; lia). rewrite E.
  unfold zip_dict. rewrite (ct_zip_fold cols cells [] Hk Hnd) by (intros k _ []).
  cbn [app]. rewrite ct_filter_rowd. reflexivity.
Qed.

Lemma ct_records : forall names (f : list str -> dict) rows,
  (forall r, In r rows -> r <> [] /\ csv_record names r = Ok (f r)) -> csv_records names rows = Ok (map f rows).
Proof.
  intros names f. induction rows as [|r rows IH]; intros H; [reflexivity|].
  destruct (H r (or_introl eq_refl)) as [Hne Hr]. destruct r as [|c r]; [contradiction Hne; reflexivity|].
  cbn [csv_records map]. rewrite Hr. cbn [bind]. rewrite IH by (intros r' Hr'; apply H; right; exact Hr').
  reflexivity.
Qed.

Lemma ct_all_cells : forall r : list str, all_cells (map (@Some str) r) = Ok r.
Proof. induction r as [|s r IH]; [reflexivity|]. cbn [map all_cells]. rewrite IH. reflexivity. Qed.

Lemma ct_all_rows : forall rows : list (list str), all_rows (map (map (@Some str)) rows) = Ok rows.
Proof.
  induction rows as [|r rows IH]; [reflexivity|]. cbn [map all_rows]. rewrite ct_all_cells, IH. reflexivity.
Qed.

(* the name of a column allowed by col_okb is a good cell and names its key *)
Lemma ct_digits_nocr : forall t, all_ascii_digits t = true -> ~ In 13%N t.
Proof.
  intros t H C. unfold all_ascii_digits in H. rewrite forallb_forall in H. specialize (H _ C). discriminate H.
Qed.

Lemma ct_col_name : forall cfg p k, col_okb cfg p k = true ->
  csv_cell_ok (name_of_key k) /\ key_of_name (name_of_key k) = k.
Proof.
  intros cfg p k H. destruct k as [|n|t|t| |t]; try discriminate H.
  - split; [|reflexivity]. split; [|cbn; lia]. intros [C|[C|[C|[]]]]; discriminate C.
  - cbn [col_okb] in H. apply andb_true_iff in H. destruct H as [H _].
    apply andb_true_iff in H. destruct H as [_ H]. apply Nat.leb_le in H.
    assert (Hn : (N.of_nat n < 10000)%N) by lia.
    split; [|apply ct_key_of_DE; exact Hn].
    cbn [name_of_key]. split.
    + intro C. apply in_app_or in C. destruct C as [[C|[C|[]]]|C]; try discriminate C.
      exact (ct_digits_nocr _ (ct_numeral_digits (N.of_nat n)) C).
    + rewrite app_length.
      pose proof (ct_numeral_len 4 (N.of_nat n) ltac:(lia) ltac:(rewrite pow10_4; exact Hn)) as Hl.
      change (length n_DE) with 2. lia.
  - cbn [col_okb] in H. apply andb_true_iff in H. destruct H as [H1 H2]. apply Nat.eqb_eq in H1.
    split; [|reflexivity]. cbn [name_of_key]. split.
    + intro C. apply in_app_or in C. destruct C as [[C|[C|[C|[]]]]|C]; try discriminate C.
      exact (ct_digits_nocr t H2 C).
    + rewrite app_length, H1. cbn. lia.
Qed.

Lemma ct_forall_and : forall (P Q : str -> Prop) (rows : list (list str)),
  Forall (Forall P) rows -> Forall (Forall Q) rows -> Forall (Forall (fun s => P s /\ Q s)) rows.
Proof.
  intros P Q rows HP HQ. rewrite Forall_forall in HP, HQ. apply Forall_forall. intros r Hr.
  specialize (HP r Hr). specialize (HQ r Hr). rewrite Forall_forall in HP, HQ. apply Forall_forall. auto.
Qed.

Section C20text.
Variable B : nat.
Hypothesis Bpos : 0 < B.
Variable maxlen : N.
Hypothesis maxlen_ok : (maxlen < 2 ^ 32)%N.

(* the cells must respect the reader's field limit: [canonical_tableb] does not bound the width of a fixed-length
   element, so a canonical table can hold a cell of more than 131072 characters, which csv.reader refuses *)
Lemma c20_text : forall cfg cd blocked cols rows,
  wf_cfgb cfg = true -> csv_cfgb cfg = true -> codec_okb cd = true ->
  canonical_tableb cfg cd maxlen cols rows = true ->
  Forall (Forall (fun s => ~ In 13%N s)) rows ->
  Forall (Forall (fun s => (N.of_nat (length s) <= 131072)%N)) rows ->
  let text := csv_table (map name_of_key cols :: rows) in
  exists file, csv_text_to_ipm B cfg cd blocked text = Ok file /\
               ipm_to_csv_text B maxlen cfg cd blocked cols file = Ok text.
Proof.
  intros cfg cd blocked cols rows Hcfg Hcsv Hcd Hcan Hcr Hlen text.
  destruct (c20_rows B Bpos maxlen maxlen_ok cfg cd blocked cols rows Hcfg Hcsv Hcd Hcan) as [file [H1 H2]].
  exists file. unfold canonical_tableb in Hcan.
  apply andb_true_iff in Hcan. destruct Hcan as [Hcan Hrows].
  apply andb_true_iff in Hcan. destruct Hcan as [Hcan Hcols].
  apply andb_true_iff in Hcan. destruct Hcan as [Hnd Hmti].
  apply cs_nodupb_nodup in Hnd.
  apply existsb_exists in Hmti. destruct Hmti as [k0 [Hmti _]].
  rewrite forallb_forall in Hcols, Hrows.
  assert (Hparse : csv_parse text = Ok (map name_of_key cols :: rows)).
  { apply csv_parse_table. constructor; [|exact (ct_forall_and _ _ rows Hcr Hlen)].
    apply Forall_forall. intros s Hs. apply in_map_iff in Hs. destruct Hs as [k [Ek Hk]]. subst s.
    apply (ct_col_name cfg _ k (Hcols k Hk)). }
  split.
  - unfold csv_text_to_ipm. rewrite Hparse. cbn [bind].
    rewrite (ct_records (map name_of_key cols) (row_dict cols) rows).
    + cbn [bind]. exact H1.
    + intros r Hr. pose proof (Hrows r Hr) as Hrow. unfold row_okb in Hrow.
      repeat (apply andb_true_iff in Hrow; destruct Hrow as [Hrow _]). apply Nat.eqb_eq in Hrow.
      split; [intro C; subst r; destruct cols; [destruct Hmti|discriminate Hrow]|].
      apply ct_record; [exact Hnd| |exact Hrow].
      intros k Hk. apply (ct_col_name cfg _ k (Hcols k Hk)).
  - unfold ipm_to_csv_text. rewrite H2. cbn [bind]. rewrite ct_all_rows. reflexivity.
Qed.
End C20text.
