(* DatesIso.v — the ISO 8601 spellings of a date-time string (Dates.iso_canon / parse_iso_any) against the canonical
   reading (Dates.parse_iso): a canonical text is its own canonical form. *)
From Coq Require Import List NArith Bool Arith Lia.
Require Import CU.model.Prim CU.model.Types CU.model.Dates.
Import ListNotations.

Ltac di_lit c := destruct c as [|c]; [discriminate|]; do 6 (destruct c as [c|c|]; try discriminate).

(* the shape parse_iso accepts: 19 characters, a blank at index 10 *)
Lemma di_parse_iso_shape : forall s d, parse_iso s = Some d ->
  length s = 19 /\ exists a b, length a = 10 /\ s = a ++ 32%N :: b.
Proof.
  intros s d H. unfold parse_iso in H.
  destruct s as [|y1 s]; [discriminate|]. destruct s as [|y2 s]; [discriminate|].
  destruct s as [|y3 s]; [discriminate|]. destruct s as [|y4 s]; [discriminate|].
  destruct s as [|c1 s]; [discriminate|]. di_lit c1.
  destruct s as [|m1 s]; [discriminate|]. destruct s as [|m2 s]; [discriminate|].
  destruct s as [|c2 s]; [discriminate|]. di_lit c2.
  destruct s as [|d1 s]; [discriminate|]. destruct s as [|d2 s]; [discriminate|].
  destruct s as [|c3 s]; [discriminate|]. di_lit c3.
  destruct s as [|h1 s]; [discriminate|]. destruct s as [|h2 s]; [discriminate|].
  destruct s as [|c4 s]; [discriminate|]. di_lit c4.
  destruct s as [|n1 s]; [discriminate|]. destruct s as [|n2 s]; [discriminate|].
  destruct s as [|c5 s]; [discriminate|]. di_lit c5.
  destruct s as [|s1 s]; [discriminate|]. destruct s as [|s2 s]; [discriminate|].
  destruct s as [|x s]; [|discriminate].
  split; [reflexivity|].
  exists [y1; y2; y3; y4; 45%N; m1; m2; 45%N; d1; d2], [h1; h2; 58%N; n1; n2; 58%N; s1; s2].
  split; reflexivity.
Qed.

Lemma di_canon_self : forall s d, parse_iso s = Some d -> iso_canon s = Some s.
Proof.
  intros s d H. destruct (di_parse_iso_shape s d H) as [Hl [a [b [Ha Hs]]]].
  unfold iso_canon. rewrite Hl.
  do 11 (destruct a as [|? a]; try discriminate Ha). subst s. reflexivity.
Qed.

Lemma parse_iso_any_canonical : forall s d, parse_iso s = Some d -> parse_iso_any s = Some d.
Proof. intros s d H. unfold parse_iso_any. rewrite (di_canon_self s d H). exact H. Qed.

(* on a text that the canonical reading refuses the two readings may differ, but never when it accepts *)
Lemma parse_iso_any_sound : forall s d, parse_iso_any s = Some d -> exists c, iso_canon s = Some c /\ parse_iso c = Some d.
Proof.
  intros s d H. unfold parse_iso_any in H. destruct (iso_canon s) as [c|]; [|discriminate H].
  exists c. split; [reflexivity|exact H].
Qed.
