(* DecProofs.v — the decimal text model (model/Dec.v): what `format(d, '0<w>f')` and `str(d)` print is read back by
   `decimal.Decimal(text)` as the same decimal, and the element-level round trip of a decimal element through
   _pytype_to_string / _string_to_pytype. *)
From Coq Require Import List Arith NArith ZArith Bool Lia ZifyBool ZifyNat ZifyN.
Require Import CU.model.Prim CU.model.Types CU.model.Unicode CU.model.Dec CU.model.Iso.
Require CU.gen.GenUnicode.
Require Import CU.proofs.NumProofs.
Import ListNotations.
Open Scope nat_scope.

Definition wf_dec (d : dec) : Prop := wf_decb d = true.

(* ---------------------------------------------------------------- characters *)
Lemma dp_plain_not_space : forall c, plain_char c = true -> is_space c = false.
Proof.
  intros c H. unfold plain_char, is_dig, chr_plus, chr_minus, chr_dot in H.
  unfold is_space, mem, CU.gen.GenUnicode.uni_space. cbn [existsb]. lia.
Qed.

Lemma dp_plain_ascii : forall c, plain_char c = true -> is_ascii c = true.
Proof. intros c H. unfold plain_char, is_dig, chr_plus, chr_minus, chr_dot in H. unfold is_ascii. lia. Qed.

Lemma dp_plain_maybe : forall c, plain_char c = true -> maybe_char c = true.
Proof. intros c H. unfold maybe_char. rewrite H. reflexivity. Qed.

Lemma dp_forallb_imp : forall (p q : N -> bool) l, (forall c, p c = true -> q c = true) ->
  forallb p l = true -> forallb q l = true.
Proof.
  intros p q l I H. rewrite forallb_forall in *. intros x Hx. apply I, H, Hx.
Qed.

Lemma dp_dig_dch : forall x, (x < 10)%N -> is_dig (dch x) = true.
Proof. intros x H. unfold is_dig, dch. lia. Qed.

Lemma dp_digval_dch : forall x, dig_val (dch x) = x.
Proof. intros x. unfold dig_val, dch. lia. Qed.

Lemma dp_dig_plain : forall c, is_dig c = true -> plain_char c = true.
Proof. intros c H. unfold plain_char. rewrite H. reflexivity. Qed.

Lemma dp_dig_not_sign : forall c, is_dig c = true -> (c =? chr_minus)%N = false /\ (c =? chr_plus)%N = false /\ (c =? chr_dot)%N = false.
Proof. intros c H. unfold is_dig, chr_minus, chr_plus, chr_dot in *. lia. Qed.

Lemma dp_map_dch_dig : forall l, forallb (fun x => (x <? 10)%N) l = true -> forallb is_dig (map dch l) = true.
Proof.
  induction l as [|x l IH]; intros H; [reflexivity|]. cbn [forallb map] in *.
  apply andb_true_iff in H. destruct H as [Hx Hl]. rewrite (dp_dig_dch x) by lia. rewrite (IH Hl). reflexivity.
Qed.

Lemma dp_map_digval_dch : forall l, map dig_val (map dch l) = l.
Proof. induction l as [|x l IH]; [reflexivity|]. cbn [map]. rewrite dp_digval_dch, IH. reflexivity. Qed.

Lemma dp_repeat_zero_dig : forall k, forallb is_dig (repeat chr_zero k) = true.
Proof. induction k as [|k IH]; [reflexivity|]. cbn [repeat forallb]. rewrite IH. reflexivity. Qed.

Lemma dp_map_digval_zeros : forall k, map dig_val (repeat chr_zero k) = repeat 0%N k.
Proof. induction k as [|k IH]; [reflexivity|]. cbn [repeat map]. rewrite IH. reflexivity. Qed.

(* ---------------------------------------------------------------- strip *)
Lemma dp_lstrip_id : forall s, (forall c, In c s -> is_space c = false) -> lstrip s = s.
Proof.
  intros [|c r] H; [reflexivity|]. cbn [lstrip]. rewrite (H c) by (left; reflexivity). reflexivity.
Qed.

Lemma dp_strip_id : forall s, (forall c, In c s -> is_space c = false) -> strip s = s.
Proof.
  intros s H. unfold strip. rewrite (dp_lstrip_id s H).
  rewrite dp_lstrip_id; [apply rev_involutive|]. intros c Hc. apply H. apply in_rev. exact Hc.
Qed.

Lemma dp_parse_is_plain : forall t, forallb plain_char t = true -> dec_parse t = parse_plain t.
Proof.
  intros t H. unfold dec_parse.
  rewrite dp_strip_id.
  - rewrite (dp_forallb_imp _ _ _ dp_plain_ascii H). rewrite (dp_forallb_imp _ _ _ dp_plain_maybe H). rewrite H.
    reflexivity.
  - intros c Hc. apply dp_plain_not_space. rewrite forallb_forall in H. apply H, Hc.
Qed.

(* ---------------------------------------------------------------- the plain grammar *)
Lemma dp_span_app : forall a b, forallb is_dig a = true ->
  match b with [] => True | x :: _ => is_dig x = false end -> span_digits (a ++ b) = (a, b).
Proof.
  induction a as [|c a IH]; intros b Ha Hb.
  - cbn [app]. destruct b as [|x b]; [reflexivity|]. cbn [span_digits]. rewrite Hb. reflexivity.
  - cbn [forallb] in Ha. apply andb_true_iff in Ha. destruct Ha as [Hc Ha].
    cbn [app span_digits]. rewrite Hc. rewrite (IH b Ha Hb). reflexivity.
Qed.

Definition dp_tail (dot : bool) (fr : str) : str := if dot then chr_dot :: fr else [].

Lemma dp_parse_plain_render : forall (neg dot : bool) ip fr,
  ip <> [] -> forallb is_dig ip = true -> forallb is_dig fr = true -> (dot = false -> fr = []) ->
  parse_plain ((if neg then [chr_minus] else []) ++ ip ++ dp_tail dot fr)
  = DPlain (mkdec neg (norm_coeff (map dig_val (ip ++ fr))) (length fr)).
Proof.
  intros neg dot ip fr Hne Hip Hfr Hdot.
  destruct ip as [|c ip]; [congruence|].
  assert (Hc : is_dig c = true) by (cbn [forallb] in Hip; apply andb_true_iff in Hip; tauto).
  destruct (dp_dig_not_sign c Hc) as [Hm [Hp _]].
  assert (Hspan : span_digits ((c :: ip) ++ dp_tail dot fr) = (c :: ip, dp_tail dot fr)).
  { apply dp_span_app; [exact Hip|]. destruct dot; [reflexivity|exact I]. }
  assert (Hfin : forall body, body = (c :: ip) ++ dp_tail dot fr ->
    (let '(ip0, rest) := span_digits body in
     let finish (fr0 : str) :=
       match ip0 ++ fr0 with
       | [] => DInvalid
       | ds => DPlain (mkdec neg (norm_coeff (map dig_val ds)) (length fr0))
       end in
     match rest with
     | [] => finish []
     | c0 :: r => if (c0 =? chr_dot)%N && forallb is_dig r then finish r else DInvalid
     end) = DPlain (mkdec neg (norm_coeff (map dig_val ((c :: ip) ++ fr))) (length fr))).
  { intros body ->. rewrite Hspan. destruct dot.
    - cbn [dp_tail]. rewrite N.eqb_refl, Hfr. cbn [andb app]. reflexivity.
    - rewrite (Hdot eq_refl). cbn [dp_tail app]. reflexivity. }
  unfold parse_plain. destruct neg.
  - cbn [app]. change (chr_minus =? chr_minus)%N with true. cbv iota. apply Hfin. reflexivity.
  - cbn [app]. rewrite Hm, Hp. apply Hfin. reflexivity.
Qed.

(* ---------------------------------------------------------------- coefficient normalisation *)
Lemma dp_drop_zeros_repeat : forall k l, drop_zeros (repeat 0%N k ++ l) = drop_zeros l.
Proof. induction k as [|k IH]; intros l; [reflexivity|]. cbn [repeat app drop_zeros]. apply IH. Qed.

Lemma dp_wf_parts : forall d, wf_dec d ->
  forallb (fun x => (x <? 10)%N) (d_digits d) = true /\ d_digits d <> [] /\
  forall k, norm_coeff (repeat 0%N k ++ d_digits d) = d_digits d.
Proof.
  intros d H. unfold wf_dec, wf_decb in H. apply andb_true_iff in H. destruct H as [H1 H2].
  split; [exact H1|]. split; [destruct (d_digits d); [discriminate H2|discriminate]|].
  intros k. unfold norm_coeff. rewrite dp_drop_zeros_repeat.
  destruct (d_digits d) as [|x [|y l]]; [discriminate H2| |].
  - destruct x; reflexivity.
  - destruct x; [discriminate H2|reflexivity].
Qed.

(* ---------------------------------------------------------------- the rendered pieces *)
Lemma dp_body_len : forall d, d_scale d + 1 <= length (dec_body d).
Proof. intros d. unfold dec_body. rewrite app_length, repeat_length. lia. Qed.

Lemma dp_body_digits : forall d, forallb (fun x => (x <? 10)%N) (d_digits d) = true ->
  forallb (fun x => (x <? 10)%N) (dec_body d) = true.
Proof.
  intros d H. unfold dec_body. rewrite forallb_app, H, andb_true_r.
  induction (S (d_scale d) - length (d_digits d)) as [|k IH]; [reflexivity|]. cbn [repeat forallb]. rewrite IH. reflexivity.
Qed.

Lemma dp_forallb_firstn : forall (p : N -> bool) n l, forallb p l = true -> forallb p (firstn n l) = true.
Proof.
  intros p n l H. rewrite forallb_forall in *. intros x Hx. apply H. rewrite <- (firstn_skipn n l). apply in_or_app. left. exact Hx.
Qed.
Lemma dp_forallb_skipn : forall (p : N -> bool) n l, forallb p l = true -> forallb p (skipn n l) = true.
Proof.
  intros p n l H. rewrite forallb_forall in *. intros x Hx. apply H. rewrite <- (firstn_skipn n l). apply in_or_app. right. exact Hx.
Qed.

Lemma dp_int_len : forall d, 1 <= length (dec_int_part d).
Proof. intros d. unfold dec_int_part. rewrite firstn_length. pose proof (dp_body_len d). lia. Qed.
Lemma dp_frac_len : forall d, length (dec_frac_part d) = d_scale d.
Proof. intros d. unfold dec_frac_part. rewrite skipn_length. pose proof (dp_body_len d). lia. Qed.
Lemma dp_int_frac : forall d, dec_int_part d ++ dec_frac_part d = dec_body d.
Proof. intros d. apply firstn_skipn. Qed.

Lemma dp_text_eq : forall d, dec_text d = map dch (dec_int_part d) ++ dp_tail (negb (Nat.eqb (d_scale d) 0)) (map dch (dec_frac_part d)).
Proof. intros d. unfold dec_text. destruct (d_scale d); reflexivity. Qed.

Definition dec_render (k : nat) (d : dec) : str := dec_sign d ++ repeat chr_zero k ++ dec_text d.

Lemma dp_render_plain : forall k d, forallb (fun x => (x <? 10)%N) (d_digits d) = true ->
  forallb plain_char (dec_render k d) = true.
Proof.
  intros k d H. unfold dec_render. rewrite !forallb_app.
  pose proof (dp_body_digits d H) as Hb.
  apply andb_true_iff. split; [unfold dec_sign; destruct (d_neg d); reflexivity|].
  apply andb_true_iff. split.
  - apply (dp_forallb_imp is_dig plain_char); [exact dp_dig_plain|apply dp_repeat_zero_dig].
  - unfold dec_text. rewrite forallb_app. apply andb_true_iff. split.
    + apply (dp_forallb_imp is_dig plain_char); [exact dp_dig_plain|]. apply dp_map_dch_dig.
      unfold dec_int_part. apply dp_forallb_firstn. exact Hb.
    + destruct (d_scale d); [reflexivity|]. cbn [forallb].
      replace (plain_char chr_dot) with true by reflexivity. cbn [andb].
      apply (dp_forallb_imp is_dig plain_char); [exact dp_dig_plain|]. apply dp_map_dch_dig.
      unfold dec_frac_part. apply dp_forallb_skipn. exact Hb.
Qed.

(* sign, any number of padding zeros, the fixed-point text: read back as the same decimal *)
Lemma dec_parse_render : forall k d, wf_dec d -> dec_parse (dec_render k d) = DPlain d.
Proof.
  intros k d Hwf. destruct (dp_wf_parts d Hwf) as [Hdig [Hne Hnorm]].
  rewrite (dp_parse_is_plain _ (dp_render_plain k d Hdig)).
  unfold dec_render, dec_sign. rewrite dp_text_eq. rewrite app_assoc with (l := repeat chr_zero k).
  pose proof (dp_body_digits d Hdig) as Hb.
  rewrite dp_parse_plain_render.
  - rewrite <- app_assoc, map_app, map_app, dp_map_digval_zeros, !dp_map_digval_dch.
    rewrite map_length, dp_frac_len.
    rewrite dp_int_frac. unfold dec_body. rewrite app_assoc, <- repeat_app, Hnorm.
    destruct d; reflexivity.
  - pose proof (dp_int_len d). destruct (dec_int_part d); [cbn [length] in *; lia|].
    cbn [map]. intros E. apply app_eq_nil in E. destruct E as [_ E]. discriminate E.
  - rewrite forallb_app, dp_repeat_zero_dig. cbn [andb]. apply dp_map_dch_dig.
    unfold dec_int_part. apply dp_forallb_firstn. exact Hb.
  - apply dp_map_dch_dig. unfold dec_frac_part. apply dp_forallb_skipn. exact Hb.
  - intros E. pose proof (dp_frac_len d) as L. destruct (d_scale d); [|discriminate E].
    destruct (dec_frac_part d); [reflexivity|discriminate L].
Qed.

(* ---------------------------------------------------------------- the two inverse laws *)
Lemma dec_fmt_render : forall w d, dec_fmt w d = dec_render (w - (length (dec_sign d) + length (dec_text d))) d.
Proof. reflexivity. Qed.

Lemma dec_parse_fmt : forall w d, wf_dec d -> 1 <= w -> dec_parse (dec_fmt w d) = DPlain d.
Proof. intros w d H _. rewrite dec_fmt_render. apply dec_parse_render. exact H. Qed.

Lemma dec_str_parse : forall d t, wf_dec d -> dec_str d = Some t -> dec_parse t = DPlain d.
Proof.
  intros d t H E. unfold dec_str in E. destruct (d_scale d <=? length (d_digits d) + 5); [|discriminate E].
  inversion E. apply (dec_parse_render 0 d H).
Qed.

(* the padded text has at least the requested width, and exactly that width whenever the number fits *)
Lemma dec_fmt_length : forall w d, w <= length (dec_fmt w d).
Proof. intros w d. unfold dec_fmt. rewrite !app_length, repeat_length. lia. Qed.

Lemma dec_fmt_length_fits : forall w d, length (dec_sign d) + length (dec_text d) <= w -> length (dec_fmt w d) = w.
Proof. intros w d H. unfold dec_fmt. rewrite !app_length, repeat_length. lia. Qed.

Lemma dec_fmt_no_exponent : forall w d t, dec_str d = Some t ->
  dec_fmt w d = dec_sign d ++ repeat chr_zero (w - length t) ++ dec_text d.
Proof.
  intros w d t E. unfold dec_str in E. destruct (d_scale d <=? length (d_digits d) + 5); [|discriminate E].
  inversion E. unfold dec_fmt. rewrite app_length. reflexivity.
Qed.

(* ---------------------------------------------------------------- a decimal element, both directions *)
Lemma dec_element_roundtrip : forall c w d t,
  f_ptype c = PTDec -> f_len c = Some w -> 1 <= w -> wf_dec d -> dec_str d = Some t ->
  pytype_to_string (VStr t) c = Ok (VStr (dec_fmt w d)) /\
  string_to_pytype (dec_fmt w d) c = Ok (VStr t).
Proof.
  intros c w d t Hp Hl Hw Hwf Hs. split.
  - unfold pytype_to_string. rewrite Hp, Hl. destruct w as [|w]; [lia|].
    rewrite (dec_str_parse d t Hwf Hs). reflexivity.
  - unfold string_to_pytype. rewrite Hp. rewrite (dec_parse_fmt w d Hwf Hw). rewrite Hs. reflexivity.
Qed.

(* ---------------------------------------------------------------- decimal.Decimal(int) *)
Lemma dp_dec_aux_head : forall f n acc, (n < 10 ^ N.of_nat f)%N ->
  exists h ds, dec_aux (S f) n acc = h :: ds ++ acc /\ (h = 0%N -> n = 0%N /\ ds = []).
Proof.
  induction f as [|f IH]; intros n acc H.
  - change (N.of_nat 0) with 0%N in H. rewrite N.pow_0_r in H.
    assert (n = 0%N) by lia. subst n. exists 0%N, []. split; [reflexivity|]. intros _. split; reflexivity.
  - rewrite np_dec_aux_S. destruct (n <? 10)%N eqn:E.
    + exists n, []. split; [reflexivity|]. intros ->. split; reflexivity.
    + apply N.ltb_ge in E.
      assert (Hd : (n / 10 < 10 ^ N.of_nat f)%N).
      { rewrite Nat2N.inj_succ, N.pow_succ_r' in H. apply N.div_lt_upper_bound; lia. }
      destruct (IH (n / 10)%N ((n mod 10)%N :: acc) Hd) as [h [ds [H1 H2]]].
      exists h, (ds ++ [(n mod 10)%N]). split.
      * rewrite H1, <- app_assoc. reflexivity.
      * intros Hh. destruct (H2 Hh) as [Hz _]. exfalso.
        pose proof (N.div_mod n 10). pose proof (N.mod_lt n 10). lia.
Qed.

Lemma dec_of_Z_wf : forall z, wf_dec (dec_of_Z z).
Proof.
  intros z. unfold wf_dec, wf_decb, dec_of_Z. cbn [d_digits].
  destruct (dec_digits_spec (Z.abs_N z)) as [_ [HF _]].
  apply andb_true_iff. split.
  - rewrite forallb_forall. rewrite Forall_forall in HF. intros x Hx. specialize (HF x Hx). lia.
  - unfold dec_digits.
    destruct (dp_dec_aux_head (N.size_nat (Z.abs_N z)) (Z.abs_N z) [] (np_size_bound _)) as [h [ds [H1 H2]]].
    rewrite H1, app_nil_r. destruct ds as [|y ds]; [reflexivity|].
    destruct (h =? 0)%N eqn:E; [|reflexivity]. apply N.eqb_eq in E. destruct (H2 E) as [_ C]. discriminate C.
Qed.

(* an int given for a decimal element is written as that integer; it reads back as the integer's text *)
Lemma dec_element_int : forall c w z,
  f_ptype c = PTDec -> f_len c = Some w -> 1 <= w ->
  pytype_to_string (VInt z) c = Ok (VStr (dec_fmt w (dec_of_Z z))) /\
  exists t, dec_str (dec_of_Z z) = Some t /\ string_to_pytype (dec_fmt w (dec_of_Z z)) c = Ok (VStr t).
Proof.
  intros c w z Hp Hl Hw. split.
  - unfold pytype_to_string. rewrite Hp, Hl. destruct w as [|w]; [lia|]. reflexivity.
  - assert (E : dec_str (dec_of_Z z) = Some (dec_sign (dec_of_Z z) ++ dec_text (dec_of_Z z))) by reflexivity.
    eexists. split; [exact E|].
    unfold string_to_pytype. rewrite Hp. rewrite (dec_parse_fmt w _ (dec_of_Z_wf z) Hw). rewrite E. reflexivity.
Qed.

(* what the decoder makes of text that is not a decimal at all: the library's data error, through the caller's handler *)
Lemma dec_element_invalid : forall c s, f_ptype c = PTDec -> dec_parse s = DInvalid ->
  catch (string_to_pytype s c) is_valueerror EData = Raise EData.
Proof. intros c s Hp E. unfold string_to_pytype. rewrite Hp, E. reflexivity. Qed.
