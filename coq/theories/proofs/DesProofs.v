(* DesProofs.v — decryption inverts encryption for the DES / Triple-DES model of model/Des.v, for every key and
   every data string; lengths are preserved; known-answer vectors.
   Plan: (a) a Feistel network is undone by the same network under the reversed subkeys, whatever the round
   function; (b) IP and IP^-1 are mutually inverse on 64-bit blocks (composition of tables, computed);
   (c) bytes <-> bits round trips; (d) ECB over 8-byte blocks. *)
From Coq Require Import List Bool Arith Lia.
From Coq Require Import Strings.Byte.
Require Import CU.model.Prim CU.model.Des.
Import ListNotations.
Open Scope nat_scope.

(* ---------- exclusive or ---------- *)

Lemma lxor_length : forall a b, length (lxor a b) = length a.
Proof. induction a as [|x a IH]; intros [|y b]; simpl; auto. Qed.

Lemma lxor_involutive : forall a b, lxor (lxor a b) b = a.
Proof.
  induction a as [|x a IH]; intros [|y b]; simpl; auto.
  rewrite IH. f_equal. destruct x, y; reflexivity.
Qed.

(* ---------- (a) Feistel inversion, for any round function and any subkeys ---------- *)

Definition swap (lr : bits * bits) : bits * bits := (snd lr, fst lr).

Lemma feistel_app : forall f ks1 ks2 lr, feistel f (ks1 ++ ks2) lr = feistel f ks2 (feistel f ks1 lr).
Proof. intros f ks1; induction ks1 as [|k ks1 IH]; intros ks2 lr; simpl; auto. Qed.

Lemma feistel_round_undo : forall f lr k, feistel_round f (swap (feistel_round f lr k)) k = swap lr.
Proof. intros f [l r] k. unfold feistel_round, swap. simpl. rewrite lxor_involutive. reflexivity. Qed.

Lemma feistel_rev : forall f ks lr, feistel f (rev ks) (swap (feistel f ks lr)) = swap lr.
Proof.
  intros f ks; induction ks as [|k ks IH]; intros lr; simpl; auto.
  rewrite feistel_app, IH. simpl. apply feistel_round_undo.
Qed.

Lemma feistel_lengths : forall f ks lr n, length (fst lr) = n -> length (snd lr) = n ->
  length (fst (feistel f ks lr)) = n /\ length (snd (feistel f ks lr)) = n.
Proof.
  intros f ks; induction ks as [|k ks IH]; intros lr n Hl Hr; simpl; auto.
  apply IH; unfold feistel_round; simpl; auto. rewrite lxor_length. exact Hl.
Qed.

(* ---------- (b) permutations ---------- *)

Lemma permute_length : forall t x, length (permute t x) = length t.
Proof. intros. unfold permute. apply map_length. Qed.

Lemma permute_compose : forall t1 t2 x, Forall (fun i => i - 1 < length t1) t2 ->
  permute t2 (permute t1 x) = permute (map (fun i => nth (i - 1) t1 0) t2) x.
Proof.
  intros t1 t2 x H. unfold permute. rewrite map_map. apply map_ext_in. intros i Hi.
  rewrite Forall_forall in H. specialize (H i Hi).
  rewrite (nth_indep _ false (nth (0 - 1) x false)) by (rewrite map_length; exact H).
  apply (map_nth (fun i => nth (i - 1) x false)).
Qed.

Lemma map_nth_seq : forall (x : bits), map (fun i => nth i x false) (seq 0 (length x)) = x.
Proof.
  induction x as [|a x IH]; simpl; auto. f_equal.
  rewrite <- seq_shift, map_map. exact IH.
Qed.

Lemma permute_id : forall n x, length x = n -> permute (seq 1 n) x = x.
Proof.
  intros n x <-. unfold permute. rewrite <- seq_shift, map_map.
  rewrite <- (map_nth_seq x) at 2. apply map_ext. intros i. simpl. rewrite Nat.sub_0_r. reflexivity.
Qed.

Lemma in_range : forall n t, forallb (fun i => i - 1 <? n) t = true -> Forall (fun i => i - 1 < n) t.
Proof. intros n t H. apply Forall_forall. intros i Hi. rewrite forallb_forall in H. apply Nat.ltb_lt. auto. Qed.

Lemma FP_IP : forall x, length x = 64 -> permute FP (permute IP x) = x.
Proof.
  intros x H. rewrite permute_compose by (apply in_range; vm_compute; reflexivity).
  replace (map (fun i => nth (i - 1) IP 0) FP) with (seq 1 64) by (vm_compute; reflexivity).
  apply permute_id. exact H.
Qed.

Lemma IP_FP : forall x, length x = 64 -> permute IP (permute FP x) = x.
Proof.
  intros x H. rewrite permute_compose by (apply in_range; vm_compute; reflexivity).
  replace (map (fun i => nth (i - 1) FP 0) IP) with (seq 1 64) by (vm_compute; reflexivity).
  apply permute_id. exact H.
Qed.

(* ---------- the block function ---------- *)

Lemma firstn_app_exact : forall n (a b : bits), length a = n -> firstn n (a ++ b) = a.
Proof. intros n a b <-. rewrite firstn_app, Nat.sub_diag, firstn_all, firstn_O. apply app_nil_r. Qed.

Lemma skipn_app_exact : forall n (a b : bits), length a = n -> skipn n (a ++ b) = b.
Proof. intros n a b <-. rewrite skipn_app, Nat.sub_diag, skipn_all. reflexivity. Qed.

Lemma des_core_length : forall ks x, length (des_core ks x) = 64.
Proof. intros. unfold des_core. rewrite permute_length. reflexivity. Qed.

Lemma des_core_rev : forall ks x, length x = 64 -> des_core (rev ks) (des_core ks x) = x.
Proof.
  intros ks x H. unfold des_core.
  set (y := permute IP x).
  assert (Hy : length y = 64) by (unfold y; rewrite permute_length; reflexivity).
  set (lr := (firstn 32 y, skipn 32 y)).
  assert (Hl : length (fst lr) = 32) by (unfold lr; cbn [fst]; rewrite firstn_length; lia).
  assert (Hr : length (snd lr) = 32) by (unfold lr; cbn [snd]; rewrite skipn_length; lia).
  destruct (feistel_lengths feistel_f ks lr 32 Hl Hr) as [Hl' Hr'].
  set (lr' := feistel feistel_f ks lr) in *.
  rewrite IP_FP by (rewrite app_length; lia).
  rewrite (firstn_app_exact 32), (skipn_app_exact 32) by exact Hr'.
  change (snd lr', fst lr') with (swap lr'). unfold lr'. rewrite feistel_rev.
  unfold swap, lr. cbn [fst snd]. rewrite firstn_skipn. unfold y. apply FP_IP. exact H.
Qed.

Lemma des_block_dec_enc : forall key64 block64, length block64 = 64 ->
  des_block true key64 (des_block false key64 block64) = block64.
Proof. intros. unfold des_block. apply des_core_rev. assumption. Qed.

Lemma des_block_enc_dec : forall key64 block64, length block64 = 64 ->
  des_block false key64 (des_block true key64 block64) = block64.
Proof.
  intros. unfold des_block. rewrite <- (rev_involutive (subkeys key64)) at 1. apply des_core_rev. assumption.
Qed.

(* ---------- (c) bytes <-> bits ---------- *)

Lemma bits_of_byte_length : forall b, length (bits_of_byte b) = 8.
Proof.
  intros b. unfold bits_of_byte.
  destruct (Byte.to_bits b) as [b0 [b1 [b2 [b3 [b4 [b5 [b6 b7]]]]]]]. reflexivity.
Qed.

Lemma bits_of_bytes_length : forall l, length (bits_of_bytes l) = 8 * length l.
Proof.
  induction l as [|b l IH]; auto. unfold bits_of_bytes in *. simpl flat_map.
  rewrite app_length, IH, bits_of_byte_length. simpl length. lia.
Qed.

Lemma bytes_of_bits_of_bytes : forall l, bytes_of_bits (bits_of_bytes l) = l.
Proof.
  induction l as [|b l IH]; auto. unfold bits_of_bytes in *. simpl flat_map. unfold bits_of_byte at 1.
  destruct (Byte.to_bits b) as [b0 [b1 [b2 [b3 [b4 [b5 [b6 b7]]]]]]] eqn:Eb.
  cbn [app bytes_of_bits]. rewrite IH, <- Eb, Byte.of_bits_to_bits. reflexivity.
Qed.

Lemma bits_of_bytes_of_bits : forall n x, length x = 8 * n ->
  bits_of_bytes (bytes_of_bits x) = x /\ length (bytes_of_bits x) = n.
Proof.
  induction n as [|n IH]; intros x H.
  - destruct x; [auto | discriminate].
  - destruct x as [|b7 [|b6 [|b5 [|b4 [|b3 [|b2 [|b1 [|b0 r]]]]]]]]; simpl in H; try lia.
    destruct (IH r) as [IH1 IH2]; [lia|].
    cbn [bytes_of_bits]. unfold bits_of_bytes in *. cbn [flat_map length]. rewrite IH1, IH2. split; auto.
    unfold bits_of_byte. rewrite Byte.to_bits_of_bits. reflexivity.
Qed.

(* ---------- one block at byte level ---------- *)

Lemma des_with_length : forall ks b, length (des_with ks b) = length b.
Proof.
  intros ks b. unfold des_with. destruct (Nat.eqb (length b) 8) eqn:Hb; auto.
  apply Nat.eqb_eq in Hb. rewrite Hb.
  apply (bits_of_bytes_of_bits 8). apply des_core_length.
Qed.

Lemma des_with_rev : forall ks b, des_with (rev ks) (des_with ks b) = b.
Proof.
  intros ks b. unfold des_with at 1. rewrite des_with_length.
  destruct (Nat.eqb (length b) 8) eqn:Hb.
  - unfold des_with. rewrite Hb. apply Nat.eqb_eq in Hb.
    destruct (bits_of_bytes_of_bits 8 (des_core ks (bits_of_bytes b))) as [H1 _]; [apply des_core_length|].
    rewrite H1, des_core_rev by (rewrite bits_of_bytes_length; lia).
    apply bytes_of_bits_of_bytes.
  - unfold des_with. rewrite Hb. reflexivity.
Qed.

Lemma des_with_rev' : forall ks b, des_with ks (des_with (rev ks) b) = b.
Proof. intros. rewrite <- (rev_involutive ks) at 1. apply des_with_rev. Qed.

Lemma des_dec_enc : forall k b, des_dec k (des_enc k b) = b.
Proof. intros. unfold des_dec, des_enc, dec_sched, enc_sched. apply des_with_rev. Qed.

Lemma des_enc_dec : forall k b, des_enc k (des_dec k b) = b.
Proof. intros. unfold des_dec, des_enc, dec_sched, enc_sched. apply des_with_rev'. Qed.

Lemma des_enc_length : forall k b, length (des_enc k b) = length b.
Proof. intros. apply des_with_length. Qed.

Lemma des_dec_length : forall k b, length (des_dec k b) = length b.
Proof. intros. apply des_with_length. Qed.

(* the byte-level functions are the bit-level block function on the bits of an 8-byte key and block *)
Lemma des_enc_bits : forall k b, length k = 8 -> length b = 8 ->
  bits_of_bytes (des_enc k b) = des_block false (bits_of_bytes k) (bits_of_bytes b).
Proof.
  intros k b Hk Hb. unfold des_enc, des_with, enc_sched, des_key, des_block. rewrite Hb. simpl Nat.eqb. cbv iota.
  rewrite firstn_app, Hk, Nat.sub_diag, firstn_O, app_nil_r, <- Hk, firstn_all.
  apply (bits_of_bytes_of_bits 8). apply des_core_length.
Qed.

Lemma des_dec_bits : forall k b, length k = 8 -> length b = 8 ->
  bits_of_bytes (des_dec k b) = des_block true (bits_of_bytes k) (bits_of_bytes b).
Proof.
  intros k b Hk Hb. unfold des_dec, des_with, dec_sched, des_key, des_block. rewrite Hb. simpl Nat.eqb. cbv iota.
  rewrite firstn_app, Hk, Nat.sub_diag, firstn_O, app_nil_r, <- Hk, firstn_all.
  apply (bits_of_bytes_of_bits 8). apply des_core_length.
Qed.

(* ---------- (d) ECB ---------- *)

Lemma ecb8_length : forall f, (forall b, length (f b) = length b) -> forall x, length (ecb8 f x) = length x.
Proof.
  intros f Hf x. assert (Hle : length x <= length x) by lia. revert Hle. generalize (length x) at 2. intros n.
  revert x. induction n as [|n IH]; intros x Hle.
  - destruct x; [reflexivity | simpl in Hle; lia].
  - destruct x as [|a [|b [|c [|d [|e [|g [|h [|i r]]]]]]]]; try reflexivity.
    cbn [ecb8]. rewrite app_length, Hf, IH by (simpl in Hle; lia). reflexivity.
Qed.

Lemma ecb8_inverse : forall f g, (forall b, length (f b) = length b) -> (forall b, g (f b) = b) ->
  forall x, ecb8 g (ecb8 f x) = x.
Proof.
  intros f g Hf Hg x. assert (Hle : length x <= length x) by lia. revert Hle. generalize (length x) at 2. intros n.
  revert x. induction n as [|n IH]; intros x Hle.
  - destruct x; [reflexivity | simpl in Hle; lia].
  - destruct x as [|a [|b [|c [|d [|e [|g0 [|h [|i r]]]]]]]]; try reflexivity.
    cbn [ecb8]. pose proof (Hf [a; b; c; d; e; g0; h; i]) as Hlen. pose proof (Hg [a; b; c; d; e; g0; h; i]) as Hinv.
    destruct (f [a; b; c; d; e; g0; h; i]) as [|a' [|b' [|c' [|d' [|e' [|g' [|h' [|i' [|j' r']]]]]]]]]; simpl in Hlen; try lia.
    cbn [app ecb8]. rewrite Hinv, IH by (simpl in Hle; lia). reflexivity.
Qed.

(* ---------- Triple-DES ---------- *)

Lemma tdes_with_length : forall s1 s2 s3 b, length (tdes_with s1 s2 s3 b) = length b.
Proof. intros. unfold tdes_with. rewrite !des_with_length. reflexivity. Qed.

(* the schedules used by the two directions are the reverses of one another *)
Lemma tdes_with_inverse : forall k1 k2 k3 b,
  tdes_with (dec_sched k3) (enc_sched k2) (dec_sched k1) (tdes_with (enc_sched k1) (dec_sched k2) (enc_sched k3) b) = b.
Proof.
  intros. unfold tdes_with, dec_sched, enc_sched.
  rewrite des_with_rev, des_with_rev', des_with_rev. reflexivity.
Qed.

Lemma tdes_with_inverse' : forall k1 k2 k3 b,
  tdes_with (enc_sched k1) (dec_sched k2) (enc_sched k3) (tdes_with (dec_sched k3) (enc_sched k2) (dec_sched k1) b) = b.
Proof.
  intros. unfold tdes_with, dec_sched, enc_sched.
  rewrite des_with_rev', des_with_rev, des_with_rev'. reflexivity.
Qed.

(* what the two ECB functions compute, in terms of single DES: E_K3(D_K2(E_K1 b)) and D_K1(E_K2(D_K3 b)) per block *)
Lemma tdes_ecb_enc_blocks : forall k x,
  tdes_ecb_enc k x = let '(k1, k2, k3) := tdes_keys k in ecb8 (tdes_block_enc k1 k2 k3) x.
Proof. intros. unfold tdes_ecb_enc. destruct (tdes_keys k) as [[k1 k2] k3]. reflexivity. Qed.

Lemma tdes_ecb_dec_blocks : forall k x,
  tdes_ecb_dec k x = let '(k1, k2, k3) := tdes_keys k in ecb8 (tdes_block_dec k1 k2 k3) x.
Proof. intros. unfold tdes_ecb_dec. destruct (tdes_keys k) as [[k1 k2] k3]. reflexivity. Qed.

(* on one 8-byte block *)
Lemma tdes_ecb_enc_block : forall k b, length b = 8 ->
  tdes_ecb_enc k b = let '(k1, k2, k3) := tdes_keys k in des_enc k3 (des_dec k2 (des_enc k1 b)).
Proof.
  intros k b H. rewrite tdes_ecb_enc_blocks. destruct (tdes_keys k) as [[k1 k2] k3].
  destruct b as [|a [|b [|c [|d [|e [|g [|h [|i [|j r]]]]]]]]]; simpl in H; try lia.
  cbn [ecb8]. apply app_nil_r.
Qed.

(* a one-key bundle (K1 = K2 = K3) is single DES *)
Lemma tdes_one_key : forall k b, length k = 8 -> length b = 8 -> tdes_ecb_enc k b = des_enc k b.
Proof.
  intros k b Hk Hb. rewrite tdes_ecb_enc_block by exact Hb. unfold tdes_keys. rewrite Hk. simpl Nat.eqb. cbv iota.
  rewrite des_dec_enc. reflexivity.
Qed.

Lemma skipn_plus : forall a b (l : bytes), skipn b (skipn a l) = skipn (a + b) l.
Proof. induction a as [|a IH]; intros b l; auto. destruct l; simpl; auto. apply skipn_nil. Qed.

Lemma tdes_keys_lengths : forall k, In (length k) [8; 16; 24] ->
  let '(k1, k2, k3) := tdes_keys k in length k1 = 8 /\ length k2 = 8 /\ length k3 = 8 /\
  (length k = 8 -> k1 = k /\ k2 = k /\ k3 = k) /\
  (length k = 16 -> k1 ++ k2 = k /\ k3 = k1) /\
  (length k = 24 -> k1 ++ k2 ++ k3 = k).
Proof.
  intros k H. unfold tdes_keys. simpl in H. destruct H as [H|[H|[H|[]]]]; rewrite <- H; simpl Nat.eqb; cbv iota.
  - repeat split; auto; intros; lia.
  - rewrite firstn_length, skipn_length, <- H. repeat split; try reflexivity; try (intros; lia).
    apply firstn_skipn.
  - assert (Hk : firstn 24 (k ++ repeat x00 24) = k).
    { rewrite firstn_app, <- H, Nat.sub_diag, firstn_O, app_nil_r, H. apply firstn_all. }
    rewrite Hk. rewrite !firstn_length, !skipn_length, <- H. repeat split; try reflexivity; try (intros; lia).
    intros _. change 16 with (8 + 8). rewrite <- skipn_plus, (firstn_skipn 8 (skipn 8 k)). apply firstn_skipn.
Qed.

(* ---------- the two laws, for every key and every data string ---------- *)

Theorem tdes_enc_length : forall k x, length (tdes_ecb_enc k x) = length x.
Proof.
  intros k x. unfold tdes_ecb_enc. destruct (tdes_keys k) as [[k1 k2] k3].
  apply ecb8_length. intros. apply tdes_with_length.
Qed.

Theorem tdes_dec_length : forall k x, length (tdes_ecb_dec k x) = length x.
Proof.
  intros k x. unfold tdes_ecb_dec. destruct (tdes_keys k) as [[k1 k2] k3].
  apply ecb8_length. intros. apply tdes_with_length.
Qed.

Theorem tdes_dec_enc : forall k x, tdes_ecb_dec k (tdes_ecb_enc k x) = x.
Proof.
  intros k x. unfold tdes_ecb_dec, tdes_ecb_enc. destruct (tdes_keys k) as [[k1 k2] k3].
  apply ecb8_inverse.
  - intros. apply tdes_with_length.
  - intros. apply tdes_with_inverse.
Qed.

Theorem tdes_enc_dec : forall k x, tdes_ecb_enc k (tdes_ecb_dec k x) = x.
Proof.
  intros k x. unfold tdes_ecb_dec, tdes_ecb_enc. destruct (tdes_keys k) as [[k1 k2] k3].
  apply ecb8_inverse.
  - intros. apply tdes_with_length.
  - intros. apply tdes_with_inverse'.
Qed.

Print Assumptions des_dec_enc.
Print Assumptions tdes_dec_enc.
Print Assumptions tdes_enc_dec.
Print Assumptions tdes_enc_length.
Print Assumptions tdes_dec_length.

(* ---------- known answers ---------- *)

(* the classic worked example: key 133457799BBCDFF1, plaintext 0123456789ABCDEF -> 85E813540F0AB405 *)
Example des_kat :
  des_enc [x13; x34; x57; x79; x9b; xbc; xdf; xf1] [x01; x23; x45; x67; x89; xab; xcd; xef]
    = [x85; xe8; x13; x54; x0f; x0a; xb4; x05] /\
  des_dec [x13; x34; x57; x79; x9b; xbc; xdf; xf1] [x85; xe8; x13; x54; x0f; x0a; xb4; x05]
    = [x01; x23; x45; x67; x89; xab; xcd; xef].
Proof. vm_compute. split; reflexivity. Qed.

(* the first subkey of that example: K1 = 000110 110000 001011 101111 111111 000111 000001 110010 *)
Example des_kat_subkey :
  hd [] (enc_sched [x13; x34; x57; x79; x9b; xbc; xdf; xf1]) =
  map (Nat.eqb 1) [0;0;0;1;1;0; 1;1;0;0;0;0; 0;0;1;0;1;1; 1;0;1;1;1;1; 1;1;1;1;1;1; 0;0;0;1;1;1; 0;0;0;0;0;1; 1;1;0;0;1;0].
Proof. vm_compute. reflexivity. Qed.

Definition kat_pt : bytes := [x00; x11; x22; x33; x44; x55; x66; x77; x88; x99; xaa; xbb; xcc; xdd; xee; xff].
Definition kat_k16 : bytes := [x01; x23; x45; x67; x89; xab; xcd; xef; xfe; xdc; xba; x98; x76; x54; x32; x10].
Definition kat_k24 : bytes :=
  [x01; x23; x45; x67; x89; xab; xcd; xef; x23; x45; x67; x89; xab; xcd; xef; x01; x45; x67; x89; xab; xcd; xef; x01; x23].

(* computed with cryptography 50.0.1 (hazmat.decrepit.ciphers.algorithms.TripleDES, modes.ECB):
   key 0123456789abcdeffedcba9876543210, data 00112233445566778899aabbccddeeff -> 31a7364cac91ca39c0489f69bec54fa2 *)
Example tdes_kat_two_key :
  tdes_ecb_enc kat_k16 kat_pt = [x31; xa7; x36; x4c; xac; x91; xca; x39; xc0; x48; x9f; x69; xbe; xc5; x4f; xa2] /\
  tdes_ecb_dec kat_k16 [x31; xa7; x36; x4c; xac; x91; xca; x39; xc0; x48; x9f; x69; xbe; xc5; x4f; xa2] = kat_pt.
Proof. vm_compute. split; reflexivity. Qed.

(* key 0123456789abcdef23456789abcdef01456789abcdef0123, same data -> 109aeac4d79bfaddf9ad78eda08644d5 *)
Example tdes_kat_three_key :
  tdes_ecb_enc kat_k24 kat_pt = [x10; x9a; xea; xc4; xd7; x9b; xfa; xdd; xf9; xad; x78; xed; xa0; x86; x44; xd5] /\
  tdes_ecb_dec kat_k24 [x10; x9a; xea; xc4; xd7; x9b; xfa; xdd; xf9; xad; x78; xed; xa0; x86; x44; xd5] = kat_pt.
Proof. vm_compute. split; reflexivity. Qed.

(* one-key bundle 133457799bbcdff1 (single DES), same data -> b64cb5acdf11937f902b87a684ba5159 *)
Example tdes_kat_one_key :
  tdes_ecb_enc [x13; x34; x57; x79; x9b; xbc; xdf; xf1] kat_pt
    = [xb6; x4c; xb5; xac; xdf; x11; x93; x7f; x90; x2b; x87; xa6; x84; xba; x51; x59].
Proof. vm_compute. reflexivity. Qed.

(* three-key, 24 bytes "The quick brown fox jump" -> 1ccf23869d09333ecce21c8112256fe668d5c05dd9b6b900 *)
Example tdes_kat_three_blocks :
  tdes_ecb_enc kat_k24
    [x54; x68; x65; x20; x71; x75; x69; x63; x6b; x20; x62; x72; x6f; x77; x6e; x20; x66; x6f; x78; x20; x6a; x75; x6d; x70]
  = [x1c; xcf; x23; x86; x9d; x09; x33; x3e; xcc; xe2; x1c; x81; x12; x25; x6f; xe6; x68; xd5; xc0; x5d; xd9; xb6; xb9; x00].
Proof. vm_compute. reflexivity. Qed.

(* the key check value input: 16 zero bytes under the two-key bundle -> 08d7b4fb629d0885 08d7b4fb629d0885 *)
Example tdes_kat_zero_block :
  tdes_ecb_enc kat_k16 (repeat x00 16)
  = [x08; xd7; xb4; xfb; x62; x9d; x08; x85; x08; xd7; xb4; xfb; x62; x9d; x08; x85].
Proof. vm_compute. reflexivity. Qed.

(* totality corners: a trailing partial block is copied, a short block is returned as it is *)
Example tdes_partial_block :
  tdes_ecb_enc kat_k16 [x01; x02; x03] = [x01; x02; x03] /\ des_enc kat_k16 [x01; x02; x03] = [x01; x02; x03] /\
  skipn 16 (tdes_ecb_enc kat_k24 (kat_pt ++ [x01; x02; x03])) = [x01; x02; x03].
Proof. vm_compute. repeat split; reflexivity. Qed.
