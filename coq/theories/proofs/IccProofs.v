(* IccProofs.v — the chip-data walker of model/Iso.v reads a sequence of well-formed TLV items followed by low-values
   filler (spec/IccSpec.v) as exactly those items. *)
From Coq Require Import List NArith Bool Arith Lia.
From Coq Require Import Strings.Byte.
Require Import CU.model.Prim CU.model.Types CU.model.Iso CU.spec.IccSpec.
Import ListNotations.

(* ---------- slicing in the middle of a concatenation ---------- *)
Lemma slice_mid {A} : forall (pre x rest : list A) a b,
  a = length pre -> b - a = length x -> slice a b (pre ++ x ++ rest) = x.
Proof.
  intros pre x rest a b -> E. unfold slice. rewrite E.
  rewrite skipn_app, skipn_all, Nat.sub_diag. cbn [skipn app].
  rewrite firstn_app, Nat.sub_diag, firstn_all. cbn [firstn]. apply app_nil_r.
Qed.

(* ---------- bytes ---------- *)
Lemma len_byte_roundtrip : forall n, n < 256 -> N.to_nat (Byte.to_N (byte_of_N (N.of_nat n))) = n.
Proof.
  intros n H. unfold byte_of_N.
  assert (L : (N.of_nat n < 256)%N) by lia.
  rewrite (N.mod_small _ _ L).
  destruct (Byte.of_N (N.of_nat n)) as [b|] eqn:E.
  - apply Byte.to_of_N in E. rewrite E. apply Nat2N.id.
  - apply Byte.of_N_None_iff in E. lia.
Qed.

Lemma hex_one_nonzero : forall b, b <> x00 -> str_eqb (hexlify [b]) [48; 48]%N = false.
Proof. intros b H. destruct b; try reflexivity. exfalso; apply H; reflexivity. Qed.

Lemma hex_zero : str_eqb (hexlify [x00]) [48; 48]%N = true.
Proof. reflexivity. Qed.

Lemma hex_two_nonzero : forall a b, str_eqb (hexlify [a; b]) [48; 48]%N = false.
Proof.
  intros a b. unfold hexlify, str_eqb. cbn [flat_map app list_eqb].
  rewrite !andb_false_r. reflexivity.
Qed.

Lemma one_byte_prefix : forall b, b <> x9f -> b <> x5f -> two_byte_prefix b = false.
Proof. intros b H1 H2. destruct b; try reflexivity; congruence. Qed.

(* ---------- one item ---------- *)
Definition icc_put (d : dict) (i : tlv) : dict :=
  dset d (KTAG (upper (hexlify (t_tag i)))) (VStr (hexlify (t_val i))).

Lemma icc_walk_item : forall k pre i rest acc, tlv_ok i ->
  icc_walk (S k) (pre ++ tlv_wire i ++ rest) (length pre) acc
  = icc_walk k (pre ++ tlv_wire i ++ rest) (length (pre ++ tlv_wire i)) (icc_put acc i).
Proof.
  intros k pre [tag val] rest acc [Ht Hv]. unfold tlv_wire, icc_put. cbn [t_tag t_val] in *.
  set (lb := byte_of_N (N.of_nat (length val))).
  assert (Hn : N.to_nat (Byte.to_N lb) = length val) by (apply len_byte_roundtrip; exact Hv).
  destruct tag as [|a [|b [|c tl]]]; cbn [tag_ok] in Ht; try contradiction.
  - (* one-byte tag *)
    destruct Ht as (H0 & H9 & H5).
    set (fd := pre ++ ([a] ++ [lb] ++ val) ++ rest).
    assert (S1 : slice (length pre) (length pre + 1) fd = [a]).
    { unfold fd. rewrite <- !app_assoc. apply slice_mid; cbn [length]; lia. }
    assert (S2 : slice (length pre + 1) (length pre + 1 + 1) fd = [lb]).
    { unfold fd. replace (pre ++ ([a] ++ [lb] ++ val) ++ rest) with ((pre ++ [a]) ++ [lb] ++ (val ++ rest))
        by (rewrite <- !app_assoc; reflexivity).
      apply slice_mid; rewrite ?app_length; cbn [length]; lia. }
    assert (S3 : slice (length pre + 1 + 1) (length pre + 1 + length val + 1) fd = val).
    { unfold fd. replace (pre ++ ([a] ++ [lb] ++ val) ++ rest) with ((pre ++ [a] ++ [lb]) ++ val ++ rest)
        by (rewrite <- !app_assoc; reflexivity).
      apply slice_mid; rewrite ?app_length; cbn [length]; lia. }
    assert (L : length pre <? length fd = true).
    { apply Nat.ltb_lt. unfold fd. rewrite !app_length. cbn [length]. lia. }
    cbn [icc_walk]. rewrite L, S1, (one_byte_prefix a H9 H5), (hex_one_nonzero a H0), S2, Hn, S3.
    f_equal. unfold fd. rewrite !app_length. cbn [length]. lia.
  - (* two-byte tag *)
    assert (P : two_byte_prefix a = true) by (destruct Ht; subst a; reflexivity).
    set (fd := pre ++ ([a; b] ++ [lb] ++ val) ++ rest).
    assert (S1 : slice (length pre) (length pre + 1) fd = [a]).
    { unfold fd. replace (pre ++ ([a; b] ++ [lb] ++ val) ++ rest) with (pre ++ [a] ++ ([b] ++ [lb] ++ val ++ rest))
        by (rewrite <- !app_assoc; reflexivity).
      apply slice_mid; cbn [length]; lia. }
    assert (S1' : slice (length pre) (length pre + 2) fd = [a; b]).
    { unfold fd. rewrite <- !app_assoc. apply slice_mid; cbn [length]; lia. }
    assert (S2 : slice (length pre + 2) (length pre + 2 + 1) fd = [lb]).
    { unfold fd. replace (pre ++ ([a; b] ++ [lb] ++ val) ++ rest) with ((pre ++ [a; b]) ++ [lb] ++ (val ++ rest))
        by (rewrite <- !app_assoc; reflexivity).
      apply slice_mid; rewrite ?app_length; cbn [length]; lia. }
    assert (S3 : slice (length pre + 2 + 1) (length pre + 2 + length val + 1) fd = val).
    { unfold fd. replace (pre ++ ([a; b] ++ [lb] ++ val) ++ rest) with ((pre ++ [a; b] ++ [lb]) ++ val ++ rest)
        by (rewrite <- !app_assoc; reflexivity).
      apply slice_mid; rewrite ?app_length; cbn [length]; lia. }
    assert (L : length pre <? length fd = true).
    { apply Nat.ltb_lt. unfold fd. rewrite !app_length. cbn [length]. lia. }
    cbn [icc_walk]. rewrite L, S1, P, S1', (hex_two_nonzero a b), S2, Hn, S3.
    f_equal. unfold fd. rewrite !app_length. cbn [length]. lia.
Qed.

(* ---------- the filler ---------- *)
Lemma icc_walk_filler : forall k pre filler acc,
  icc_walk (S k) (pre ++ repeat x00 filler) (length pre) acc = Ok acc.
Proof.
  intros k pre [|m] acc; cbn [repeat icc_walk].
  - rewrite app_nil_r, Nat.ltb_irrefl. reflexivity.
  - assert (L : length pre <? length (pre ++ x00 :: repeat x00 m) = true).
    { apply Nat.ltb_lt. rewrite app_length. cbn [length]. lia. }
    assert (S1 : slice (length pre) (length pre + 1) (pre ++ x00 :: repeat x00 m) = [x00]).
    { change (pre ++ x00 :: repeat x00 m) with (pre ++ [x00] ++ repeat x00 m). apply slice_mid; cbn [length]; lia. }
    rewrite L, S1. reflexivity.
Qed.

(* ---------- the walker, generalised over the prefix already consumed ---------- *)
Lemma icc_walk_items : forall filler items pre acc fuel, Forall tlv_ok items -> length items < fuel ->
  icc_walk fuel (pre ++ icc_wire items filler) (length pre) acc = Ok (fold_left icc_put items acc).
Proof.
  intros filler items. induction items as [|i items IH]; intros pre acc fuel HF Hfuel.
  - destruct fuel as [|k]; [inversion Hfuel|]. unfold icc_wire. cbn [flat_map app fold_left].
    apply icc_walk_filler.
  - destruct fuel as [|k]; [inversion Hfuel|]. inversion HF as [|? ? Hi Hrest]; subst.
    cbn [length] in Hfuel.
    replace (icc_wire (i :: items) filler) with (tlv_wire i ++ icc_wire items filler)
      by (unfold icc_wire; cbn [flat_map]; rewrite <- app_assoc; reflexivity).
    rewrite icc_walk_item by exact Hi. rewrite app_assoc.
    cbn [fold_left]. apply IH; [exact Hrest | lia].
Qed.

Lemma c02_icc_entries : forall items filler, Forall tlv_ok items ->
  icc_to_dict (icc_wire items filler)
  = Ok (fold_left (fun d i => dset d (KTAG (upper (hexlify (t_tag i)))) (VStr (hexlify (t_val i)))) items
                  [(KICC, VStr (hexlify (icc_wire items filler)))]).
Proof.
  intros items filler HF. unfold icc_to_dict.
  change (icc_walk (S (length (icc_wire items filler))) ([] ++ icc_wire items filler) (length (@nil byte))
                   [(KICC, VStr (hexlify (icc_wire items filler)))]
          = Ok (fold_left icc_put items [(KICC, VStr (hexlify (icc_wire items filler)))])).
  apply icc_walk_items; [exact HF|].
  (* every item is at least two bytes *)
  assert (G : forall l, Forall tlv_ok l -> length l <= length (flat_map tlv_wire l)).
  { induction 1 as [|i l Hi _ IHl]; cbn [flat_map length]; [lia|].
    rewrite app_length. unfold tlv_wire at 1. rewrite !app_length. cbn [length]. lia. }
  unfold icc_wire. rewrite app_length. specialize (G items HF). lia.
Qed.
Print Assumptions c02_icc_entries.
