(* InfoProofs.v — proofs for property C17: ipm_info (model/Info.v) on the output of the IPM writer (model/Ipm.v).
   Lemma names are prefixed ip_; the three results used by props/C17.v are c17_writer_output, c17_families and
   c17_invalid at the end. *)
From Coq Require Import List Arith NArith ZArith Bool Lia.
From Coq Require Import Strings.Byte.
Require Import CU.model.Prim CU.model.Types CU.model.Unicode CU.model.Codec CU.model.Block CU.model.Vbs CU.model.Iso CU.model.Ipm CU.model.Info.
Require Import CU.spec.IsoSpec CU.spec.FramingSpec.
Require Import CU.proofs.NumProofs CU.proofs.BlockProofs CU.proofs.VbsProofs.
Require CU.gen.GenConfig CU.gen.GenCodec.
Import ListNotations.
Open Scope nat_scope.

(* ====================================================================== the objects of props/C17.v (same bodies) *)
Definition ip_packaged := CU.gen.GenConfig.packaged_bit_config.
Definition ip_maxlen := CU.gen.GenConfig.max_vbs_record_length.
Definition ip_latin1 := mkcodec CU.gen.GenCodec.tbl_latin_1.
Definition ip_cp037 := mkcodec CU.gen.GenCodec.tbl_cp037.
Definition ip_inspect (file : bytes) : info := ipm_info 1012 ip_packaged ip_maxlen ip_latin1 ip_cp037 file.

Definition ip_ascii_digitsb (cd : codec) : bool :=
  forallb (fun d => match cenc cd (dch d) with Some b => (Byte.to_N b =? 48 + d)%N | None => false end) [0;1;2;3;4;5;6;7;8;9]%N.
Definition ip_ebcdic_digitsb (cd : codec) : bool :=
  forallb (fun d => match cenc cd (dch d) with Some b => (Byte.to_N b =? 240 + d)%N | None => false end) [0;1;2;3;4;5;6;7;8;9]%N.

(* ====================================================================== lists *)
Lemma ip_firstn_exact : forall {A} n (a b : list A), length a = n -> firstn n (a ++ b) = a.
Proof. intros A n a b H. subst n. rewrite firstn_app, Nat.sub_diag, firstn_all. cbn [firstn]. apply app_nil_r. Qed.

Lemma ip_skipn_exact : forall {A} n (a b : list A), length a = n -> skipn n (a ++ b) = b.
Proof. intros A n a b H. subst n. rewrite skipn_app, Nat.sub_diag, skipn_all. reflexivity. Qed.

(* the part of a list between two positions *)
Lemma ip_slice_mid : forall {A} p q (a b c : list A), length a = p -> length b = q - p ->
  slice p q (a ++ b ++ c) = b.
Proof.
  intros A p q a b c Ha Hb. unfold slice. rewrite (ip_skipn_exact p a _ Ha). apply ip_firstn_exact. exact Hb.
Qed.

(* slicing inside the sample is slicing the file *)
Lemma ip_slice_firstn : forall {A} a b n (l : list A), b <= n -> slice a b (firstn n l) = slice a b l.
Proof.
  intros A a b n l H. unfold slice. rewrite skipn_firstn_comm, firstn_firstn.
  replace (Nat.min (b - a) (n - a)) with (b - a) by lia. reflexivity.
Qed.

Lemma ip_firstn_firstn : forall {A} a n (l : list A), a <= n -> firstn a (firstn n l) = firstn a l.
Proof. intros A a n l H. rewrite firstn_firstn. replace (Nat.min a n) with a by lia. reflexivity. Qed.

Lemma ip_slice_length : forall {A} a b (l : list A), b <= length l -> length (slice a b l) = b - a.
Proof. intros A a b l H. unfold slice. rewrite firstn_length, skipn_length. lia. Qed.

Lemma ip_ok_inj : forall {A} (a b : A), Ok a = Ok b -> a = b.
Proof. intros A a b H. injection H as H. exact H. Qed.

Lemma ip_forallb_false : forall {A} (f : A -> bool) l x, In x l -> f x = false -> forallb f l = false.
Proof.
  intros A f l x Hin Hf. destruct (forallb f l) eqn:E; [|reflexivity].
  rewrite forallb_forall in E. rewrite (E x Hin) in Hf. discriminate.
Qed.

Lemma ip_bytes_eqb_eq : forall a b : bytes, bytes_eqb a b = true -> a = b.
Proof.
  induction a as [|x a IH]; intros [|y b] H; cbn [bytes_eqb list_eqb] in H; try discriminate; [reflexivity|].
  apply andb_true_iff in H. destruct H as [H1 H2]. unfold byte_eqb in H1. apply Byte.byte_dec_bl in H1.
  subst y. f_equal. apply IH. exact H2.
Qed.

(* ====================================================================== the ten digits *)
Definition ip_digits10 : list N := [0;1;2;3;4;5;6;7;8;9]%N.

Lemma ip_in_digits10 : forall d, (d < 10)%N -> In d ip_digits10.
Proof.
  intros d H.
  assert (E : (d = 0 \/ d = 1 \/ d = 2 \/ d = 3 \/ d = 4 \/ d = 5 \/ d = 6 \/ d = 7 \/ d = 8 \/ d = 9)%N) by lia.
  unfold ip_digits10. cbn [In].
  repeat (destruct E as [E|E]; [subst d; tauto|]). subst d. tauto.
Qed.

(* finite facts over the GENERATED tables (re-proved by computation on every run): how the two detector codecs
   decode the bytes base+0 .. base+9, and whether the resulting characters are numeric *)
Definition ip_dec_numeric (c : codec) (base : N) (want : bool) : bool :=
  forallb (fun d => match Byte.of_N (base + d) with
                    | Some b => match cdec c b with Some ch => Bool.eqb (is_numeric ch) want | None => false end
                    | None => false
                    end) ip_digits10.

Lemma ip_fact_latin1_ascii : ip_dec_numeric ip_latin1 48 true = true.
Proof. vm_compute. reflexivity. Qed.
Lemma ip_fact_latin1_ebcdic : ip_dec_numeric ip_latin1 240 false = true.
Proof. vm_compute. reflexivity. Qed.
Lemma ip_fact_cp037_ebcdic : ip_dec_numeric ip_cp037 240 true = true.
Proof. vm_compute. reflexivity. Qed.
Lemma ip_fact_maxlen : (ip_maxlen < 4294967296)%N.
Proof. vm_compute. reflexivity. Qed.

Lemma ip_dec_numeric_spec : forall c base want, ip_dec_numeric c base want = true ->
  forall d b, (d < 10)%N -> Byte.to_N b = (base + d)%N ->
  exists ch, cdec c b = Some ch /\ is_numeric ch = want.
Proof.
  intros c base want H d b Hd Hb. unfold ip_dec_numeric in H. rewrite forallb_forall in H.
  specialize (H d (ip_in_digits10 d Hd)). cbv beta in H. rewrite <- Hb, Byte.of_to_N in H.
  destruct (cdec c b) as [ch|]; [|discriminate]. exists ch. split; [reflexivity|].
  apply eqb_prop. exact H.
Qed.

(* ====================================================================== the encoded MTI and the encoding guess *)
Lemma ip_family_bytes : forall (cd : codec) base,
  forallb (fun d => match cenc cd (dch d) with Some b => (Byte.to_N b =? base + d)%N | None => false end)
          [0;1;2;3;4;5;6;7;8;9]%N = true ->
  forall s bs, forallb ascii_digit s = true -> encode cd s = Ok bs ->
  Forall (fun b => exists d, (d < 10)%N /\ Byte.to_N b = (base + d)%N) bs.
Proof.
  intros cd base Hf. rewrite forallb_forall in Hf.
  induction s as [|ch s IH]; intros bs Hs He; cbn [encode] in He.
  - inversion He. constructor.
  - cbn [forallb] in Hs. apply andb_true_iff in Hs. destruct Hs as [Hc Hs].
    destruct (cenc cd ch) as [x|] eqn:Ex; [|discriminate].
    destruct (encode cd s) as [t| | |] eqn:Et; cbn [bind] in He; try discriminate.
    inversion He; subst bs. constructor; [|apply IH; [exact Hs|reflexivity]].
    unfold ascii_digit in Hc. apply andb_true_iff in Hc. destruct Hc as [Ha Hb].
    apply N.leb_le in Ha, Hb.
    assert (Hd : (ch - 48 < 10)%N) by lia.
    assert (Hch : ch = dch (ch - 48)) by (unfold dch; lia).
    specialize (Hf _ (ip_in_digits10 _ Hd)). cbv beta in Hf. rewrite <- Hch, Ex in Hf.
    apply N.eqb_eq in Hf. exists (ch - 48)%N. split; [exact Hd|exact Hf].
Qed.

Lemma ip_numeric_true : forall c bs, bs <> [] ->
  Forall (fun b => exists ch, cdec c b = Some ch /\ is_numeric ch = true) bs -> numeric_under c bs = true.
Proof.
  intros c bs Hne HF.
  assert (G : exists s, decode c bs = Ok s /\ length s = length bs /\ forallb is_numeric s = true).
  { clear Hne. induction HF as [|b bs [ch [Hc Hn]] HF IH].
    - exists []. repeat split.
    - destruct IH as [s [Hs [Hl Hf]]]. exists (ch :: s). cbn [decode]. rewrite Hc, Hs. cbn [bind length forallb].
      rewrite Hn, Hf, Hl. repeat split. }
  destruct G as [s [Hs [Hl Hf]]]. unfold numeric_under. rewrite Hs.
  destruct s as [|x s]; [|exact Hf]. destruct bs; [contradiction Hne; reflexivity|discriminate Hl].
Qed.

Lemma ip_numeric_false : forall c b bs ch, cdec c b = Some ch -> is_numeric ch = false ->
  numeric_under c (b :: bs) = false.
Proof.
  intros c b bs ch Hc Hn. unfold numeric_under. cbn [decode]. rewrite Hc.
  destruct (decode c bs) as [t| | |]; cbn [bind]; try reflexivity.
  cbn [forallb]. rewrite Hn. reflexivity.
Qed.

Lemma ip_guess_ascii : forall cd s bs, ip_ascii_digitsb cd = true -> s <> [] -> forallb ascii_digit s = true ->
  encode cd s = Ok bs -> encoding_check ip_latin1 ip_cp037 bs = GLatin1.
Proof.
  intros cd s bs Hfam Hne Hs He. unfold encoding_check.
  rewrite ip_numeric_true; [reflexivity| |].
  - intro C. subst bs. apply encode_length in He. destruct s; [contradiction Hne; reflexivity|discriminate He].
  - pose proof (ip_family_bytes cd 48 Hfam s bs Hs He) as HF.
    eapply Forall_impl; [|exact HF]. intros b [d [Hd Hb]].
    exact (ip_dec_numeric_spec _ _ _ ip_fact_latin1_ascii d b Hd Hb).
Qed.

Lemma ip_guess_ebcdic : forall cd s bs, ip_ebcdic_digitsb cd = true -> s <> [] -> forallb ascii_digit s = true ->
  encode cd s = Ok bs -> encoding_check ip_latin1 ip_cp037 bs = GCp037.
Proof.
  intros cd s bs Hfam Hne Hs He. unfold encoding_check.
  pose proof (ip_family_bytes cd 240 Hfam s bs Hs He) as HF.
  assert (Hbs : bs <> []).
  { intro C. subst bs. apply encode_length in He. destruct s; [contradiction Hne; reflexivity|discriminate He]. }
  destruct bs as [|b bs]; [contradiction Hbs; reflexivity|].
  assert (H1 : numeric_under ip_latin1 (b :: bs) = false).
  { inversion HF as [|? ? [d [Hd Hb]] ?]; subst.
    destruct (ip_dec_numeric_spec _ _ _ ip_fact_latin1_ebcdic d b Hd Hb) as [ch [Hc Hn]].
    exact (ip_numeric_false _ _ _ _ Hc Hn). }
  rewrite H1. rewrite ip_numeric_true; [reflexivity|exact Hbs|].
  eapply Forall_impl; [|exact HF]. intros x [d [Hd Hb]].
  exact (ip_dec_numeric_spec _ _ _ ip_fact_cp037_ebcdic d x Hd Hb).
Qed.

(* ====================================================================== the message encoder: shape of its output *)
Lemma ip_lookup_mti : forall m, existsb (fun kv => key_eqb (fst kv) KMTI) m = true ->
  exists v, lookup m KMTI = Some v /\ In (KMTI, v) m.
Proof.
  induction m as [|[k v] r IH]; intros H; cbn [existsb fst] in H; [discriminate|].
  cbn [lookup]. destruct (key_eqb k KMTI) eqn:E.
  - destruct k; try discriminate E. exists v. split; [reflexivity|left; reflexivity].
  - cbn [orb] in H. destruct (IH H) as [v' [H1 H2]]. exists v'. split; [exact H1|right; exact H2].
Qed.

Lemma ip_wf_mti : forall cfg cd m, wf_msgb cfg cd m = true ->
  exists mti, lookup m KMTI = Some (VStr mti) /\ length mti = 4 /\ forallb ascii_digit mti = true.
Proof.
  intros cfg cd m H. unfold wf_msgb in H.
  apply andb_true_iff in H. destruct H as [H _].
  apply andb_true_iff in H. destruct H as [H _].
  apply andb_true_iff in H. destruct H as [H H3].
  apply andb_true_iff in H. destruct H as [_ H2].
  destruct (ip_lookup_mti m H2) as [v [Hl Hin]].
  rewrite forallb_forall in H3. specialize (H3 _ Hin). cbn [wf_entryb] in H3.
  destruct v as [s| | |]; try discriminate H3.
  apply andb_true_iff in H3. destruct H3 as [H3 _].
  apply andb_true_iff in H3. destruct H3 as [Ha Hb]. apply Nat.eqb_eq in Ha.
  exists s. auto.
Qed.

(* only configured elements are emitted *)
Lemma ip_enc_fields_present : forall cfg cd m bits pl body, enc_fields cfg cd m bits = Ok (pl, body) ->
  Forall (fun n => exists c, cfg_get cfg n = Some c) pl.
Proof.
  intros cfg cd m. induction bits as [|b bs IH]; intros pl body H; cbn [enc_fields] in H.
  - inversion H. constructor.
  - destruct (lookup m (KDE b)) as [v|]; [|exact (IH _ _ H)].
    destruct (truthy v); [|exact (IH _ _ H)].
    destruct (cfg_get cfg b) as [c|] eqn:Ec; [|discriminate].
    destruct (field_to_iso c v cd) as [e| | |]; cbn [bind] in H; try discriminate.
    destruct (enc_fields cfg cd m bs) as [[pl' body']| | |]; cbn [bind fst snd] in H; try discriminate.
    inversion H; subst. constructor; [exists c; exact Ec|exact (IH _ _ eq_refl)].
Qed.

Lemma ip_bind_ok : forall {A B} (r : result A) (f : A -> result B) b, bind r f = Ok b ->
  exists a, r = Ok a /\ f a = Ok b.
Proof. intros A B r f b H. destruct r as [a| | |]; cbn [bind] in H; try discriminate. exists a. auto. Qed.

Lemma ip_dumps_inv : forall cfg cd m b, dumps cfg cd false m = Ok b ->
  exists m1 pl body mtib, enc_fields cfg cd m1 bit_range = Ok (pl, body) /\
    match lookup m KMTI with
    | Some (VStr []) | None => Ok []
    | Some (VStr s) => encode cd s
    | Some (VBytes []) => Ok []
    | Some _ => Unmodelled
    end = Ok mtib /\ b = mtib ++ bitmap_of pl ++ body.
Proof.
  intros cfg cd m b H. unfold dumps in H.
  apply ip_bind_ok in H. destruct H as [cs [_ H]].
  apply ip_bind_ok in H. destruct H as [m1 [_ H]].
  apply ip_bind_ok in H. destruct H as [[pl body] [He H]].
  apply ip_bind_ok in H. destruct H as [mtib [Hm H]].
  apply ip_ok_inj in H. exists m1, pl, body, mtib. split; [exact He|]. split; [exact Hm|].
  symmetry. exact H.
Qed.

Lemma ip_dumps_shape : forall cfg cd m b, wf_msgb cfg cd m = true -> dumps cfg cd false m = Ok b ->
  exists mti mtib pl body, length mti = 4 /\ forallb ascii_digit mti = true /\ encode cd mti = Ok mtib /\
    Forall (fun n => exists c, cfg_get cfg n = Some c) pl /\ b = mtib ++ bitmap_of pl ++ body.
Proof.
  intros cfg cd m b Hwf H. destruct (ip_wf_mti cfg cd m Hwf) as [mti [Hl [Hlen Hdig]]].
  destruct (ip_dumps_inv _ _ _ _ H) as [m1 [pl [body [mtib [He [Hm Hb]]]]]].
  rewrite Hl in Hm. exists mti, mtib, pl, body.
  split; [exact Hlen|]. split; [exact Hdig|]. split; [|split; [exact (ip_enc_fields_present _ _ _ _ _ _ He)|exact Hb]].
  destruct mti as [|c0 mti']; [discriminate Hlen|exact Hm].
Qed.

(* ====================================================================== the bitmap *)
Lemma ip_bitmap_length : forall pl, length (bitmap_of pl) = 16.
Proof.
  intros pl. unfold bitmap_of. apply bytes_of_bits_length. rewrite map_length, seq_length. reflexivity.
Qed.

Lemma ip_bitmap_nth : forall pl i, i < 128 ->
  nth i (bits_of_bytes (bitmap_of pl)) false = Nat.eqb (S i) 1 || existsb (Nat.eqb (S i)) pl.
Proof.
  intros pl i Hi. unfold bitmap_of.
  rewrite (bits_bytes_roundtrip _ 16) by (rewrite map_length, seq_length; reflexivity).
  set (f := fun i => Nat.eqb i 1 || existsb (Nat.eqb i) pl).
  rewrite (nth_indep _ false (f 0)) by (rewrite map_length, seq_length; exact Hi).
  rewrite map_nth. rewrite seq_nth by exact Hi. reflexivity.
Qed.

Lemma ip_bitmap_ok : forall cfg pl, Forall (fun n => exists c, cfg_get cfg n = Some c) pl ->
  bitmap_ok cfg (bitmap_of pl) = true.
Proof.
  intros cfg pl HF. unfold bitmap_ok. cbv zeta. apply forallb_forall. intros i Hi. apply in_seq in Hi.
  rewrite bits_of_bytes_length, ip_bitmap_length in Hi.
  rewrite ip_bitmap_nth by lia.
  destruct (Nat.eqb (S i) 1 || existsb (Nat.eqb (S i)) pl) eqn:E; [|reflexivity].
  cbn [negb orb]. apply orb_true_iff in E. destruct E as [E|E].
  - apply Nat.eqb_eq in E. lia.
  - apply existsb_exists in E. destruct E as [x [Hx1 Hx2]]. apply Nat.eqb_eq in Hx2. subst x.
    rewrite Forall_forall in HF. destruct (HF _ Hx1) as [c Hc]. rewrite Hc. reflexivity.
Qed.

(* ====================================================================== the writer *)
Lemma ip_iwrite_many : forall B cfg cd ms w w', iwrite_many B cfg cd w ms = Ok w' ->
  exists bs, Forall2 (fun m b => dumps cfg cd false m = Ok b) ms bs /\
             w' = fold_left (wstep B) (map WWrite bs) w.
Proof.
  intros B cfg cd. induction ms as [|m r IH]; intros w w' H; cbn [iwrite_many] in H.
  - inversion H. exists []. split; [constructor|reflexivity].
  - unfold iwrite in H. destruct (dumps cfg cd false m) as [b| | |] eqn:Ed; cbn [bind] in H; try discriminate.
    destruct (IH _ _ H) as [bs [HF Hw]]. exists (b :: bs). split; [constructor; assumption|].
    cbn [map fold_left wstep]. exact Hw.
Qed.

Lemma ip_ipm_file : forall B cfg cd blocked ms file, ipm_file B cfg cd blocked ms = Ok file ->
  exists bs, Forall2 (fun m b => dumps cfg cd false m = Ok b) ms bs /\
             file = file_of (writer_run B blocked (map WWrite bs ++ [WClose])).
Proof.
  intros B cfg cd blocked ms file H. unfold ipm_file in H.
  destruct (iwrite_many B cfg cd (winit B fempty blocked) ms) as [w| | |] eqn:E; cbn [bind] in H; try discriminate.
  inversion H. destruct (ip_iwrite_many _ _ _ _ _ _ E) as [bs [HF Hw]]. exists bs. split; [exact HF|].
  unfold writer_run. rewrite fold_left_app. cbn [fold_left wstep]. rewrite Hw. reflexivity.
Qed.

(* the blocked file is the layout of the padded record stream *)
Lemma ip_blocked_file : forall B, 0 < B -> forall bs, exists n k,
  length (vbs bs ++ repeat pad n) = k * B /\
  file_of (writer_run B true (map WWrite bs ++ [WClose])) = lay B (vbs bs ++ repeat pad n).
Proof.
  intros B Bpos bs. rewrite written_blocked.
  destruct (c04_every_write_sequence B Bpos (chunks bs ++ [be32 0])) as (_ & (k & Hk) & Ho).
  rewrite Ho. rewrite concat_chunks_close in *.
  eexists. exists k. split; [|reflexivity]. rewrite app_length, repeat_length. exact Hk.
Qed.

(* first one or two blocks of a layout *)
Lemma ip_lay_blocks : forall B, 0 < B -> forall S k, length S = k * B -> 1 <= k ->
  exists R, lay B S = firstn B S ++ trailer ++ R /\
            (R = [] \/ exists c2 R', length c2 = B /\ R = c2 ++ trailer ++ R').
Proof.
  intros B Bpos S k Hk H1.
  assert (Hle : B <= length S) by nia.
  assert (Hf : length (firstn B S) = B) by (rewrite firstn_length; lia).
  exists (lay B (skipn B S)). split.
  - rewrite <- (firstn_skipn B S) at 1. apply (lay_chunk B Bpos). exact Hf.
  - destruct (Nat.eq_dec k 1) as [E|E].
    + left. assert (Hs : length (skipn B S) = 0) by (rewrite skipn_length; nia).
      destruct (skipn B S); [reflexivity|discriminate Hs].
    + right. set (S2 := skipn B S).
      assert (Hs : length S2 = (k - 1) * B) by (unfold S2; rewrite skipn_length; nia).
      assert (Hle2 : B <= length S2) by nia.
      exists (firstn B S2), (lay B (skipn B S2)). split; [rewrite firstn_length; lia|].
      rewrite <- (firstn_skipn B S2) at 1. apply (lay_chunk B Bpos). rewrite firstn_length; lia.
Qed.

(* ====================================================================== block_check on the sample *)
Lemma ip_block_check_true : forall B n f R, 2 * (B + 2) <= n ->
  f = firstn B f ++ trailer ++ R -> length (firstn B f) = B ->
  (R = [] \/ exists c2 R', length c2 = B /\ R = c2 ++ trailer ++ R') ->
  block_check B (firstn n f) = true.
Proof.
  intros B n f R Hn Hf Hc1 HR. set (c1 := firstn B f) in *.
  assert (Ht : length trailer = B + 2 - B) by (cbn [trailer length]; lia).
  assert (Hs1 : slice B (B + 2) f = trailer).
  { rewrite Hf. apply ip_slice_mid; [exact Hc1|exact Ht]. }
  unfold block_check. rewrite (ip_slice_firstn B (B + 2) n f) by lia. rewrite Hs1.
  replace (bytes_eqb trailer trailer) with true by reflexivity.
  destruct HR as [HR|[c2 [R' [Hc2 HR]]]].
  - assert (Hlen : length f = B + 2).
    { rewrite Hf, HR. rewrite !app_length, Hc1. cbn [trailer length]. lia. }
    rewrite firstn_all2 by lia. rewrite Hlen.
    rewrite Nat.ltb_irrefl, Nat.eqb_refl. reflexivity.
  - assert (Hf2 : f = (c1 ++ trailer ++ c2) ++ trailer ++ R').
    { rewrite Hf at 1. rewrite HR. rewrite <- !app_assoc. reflexivity. }
    assert (Hlen : 2 * (B + 2) <= length f).
    { rewrite Hf2. rewrite !app_length, Hc1, Hc2. cbn [trailer length]. lia. }
    assert (Hls : 2 * (B + 2) <= length (firstn n f)) by (rewrite firstn_length; lia).
    assert (Hs2 : slice (2 * B + 2) (2 * B + 4) f = trailer).
    { rewrite Hf2. apply ip_slice_mid.
      - rewrite !app_length, Hc1, Hc2. cbn [trailer length]. lia.
      - cbn [trailer length]. lia. }
    rewrite (ip_slice_firstn (2 * B + 2) (2 * B + 4) n f) by lia. rewrite Hs2.
    replace (bytes_eqb trailer trailer) with true by reflexivity.
    destruct (length (firstn n f) <? B + 2) eqn:E1; [apply Nat.ltb_lt in E1; lia|].
    destruct (Nat.eqb (length (firstn n f)) (B + 2)) eqn:E2; [reflexivity|].
    destruct (2 * (B + 2) <=? length (firstn n f)) eqn:E3; [reflexivity|].
    apply Nat.leb_gt in E3. lia.
Qed.

Lemma ip_block_check_false : forall B n f, B + 2 <= n -> slice B (B + 2) f <> trailer ->
  block_check B (firstn n f) = false.
Proof.
  intros B n f Hn Hs. unfold block_check.
  destruct (length (firstn n f) <? B + 2); [reflexivity|].
  rewrite (ip_slice_firstn B (B + 2) n f) by exact Hn.
  destruct (bytes_eqb (slice B (B + 2) f) trailer) eqn:E; [|reflexivity].
  apply ip_bytes_eqb_eq in E. contradiction.
Qed.

(* ====================================================================== ipm_info on a file with a good head *)
Lemma ip_sample_size : sample_size = 2500.
Proof. reflexivity. Qed.

Lemma ip_info_valid : forall B cfg mx l1 c37 f l4 mtib bm X,
  length l4 = 4 -> length mtib = 4 -> length bm = 16 -> f = (l4 ++ mtib ++ bm) ++ X ->
  (unbe l4 <= mx)%N -> bitmap_ok cfg bm = true ->
  ipm_info B cfg mx l1 c37 f = Valid (block_check B (firstn sample_size f)) (encoding_check l1 c37 mtib).
Proof.
  intros B cfg mx l1 c37 f l4 mtib bm X H4 Hm Hb Hf Hle Hok.
  pose proof ip_sample_size as Hss.
  assert (Hlen : 24 <= length f) by (rewrite Hf; rewrite !app_length; lia).
  assert (E4 : firstn 4 f = l4).
  { rewrite Hf, <- app_assoc. apply ip_firstn_exact. exact H4. }
  assert (E8 : slice 4 8 f = mtib).
  { rewrite Hf, <- !app_assoc. apply ip_slice_mid; [exact H4|rewrite Hm; reflexivity]. }
  assert (E24 : slice 8 24 f = bm).
  { rewrite Hf. replace ((l4 ++ mtib ++ bm) ++ X) with ((l4 ++ mtib) ++ bm ++ X) by (rewrite <- !app_assoc; reflexivity).
    apply ip_slice_mid; [rewrite app_length; lia|rewrite Hb; reflexivity]. }
  unfold ipm_info. cbv zeta.
  rewrite (ip_firstn_firstn 4 sample_size f) by lia.
  rewrite (ip_slice_firstn 4 8 sample_size f) by lia.
  rewrite (ip_slice_firstn 8 24 sample_size f) by lia.
  rewrite E4, E8, E24, Hok.
  destruct (length (firstn sample_size f) <? 24) eqn:E1.
  { apply Nat.ltb_lt in E1. rewrite firstn_length in E1. lia. }
  destruct (mx <? unbe l4)%N eqn:E2; [apply N.ltb_lt in E2; lia|].
  reflexivity.
Qed.

(* ====================================================================== C17: writer output *)
Lemma c17_writer_output : forall cd blocked ms file,
  ms <> [] -> codec_okb cd = true ->
  Forall (fun m => wf_msgb ip_packaged cd m = true /\
                   forall b, dumps ip_packaged cd false m = Ok b -> (N.of_nat (length b) <= ip_maxlen)%N) ms ->
  ipm_file 1012 ip_packaged cd blocked ms = Ok file ->
  exists b e, ip_inspect file = Valid b e /\
    (ip_ascii_digitsb cd = true -> e = GLatin1) /\
    (ip_ebcdic_digitsb cd = true -> e = GCp037) /\
    (blocked = true -> b = true) /\
    (blocked = false -> slice 1012 1014 file <> trailer -> b = false).
Proof.
  intros cd blocked ms file Hne _ HF Hfile.
  destruct ms as [|m rest]; [contradiction Hne; reflexivity|].
  destruct (ip_ipm_file _ _ _ _ _ _ Hfile) as [bs [HF2 Hfile2]].
  inversion HF2 as [|? b1 ? brest Hd1 Hrest]; subst. clear HF2.
  inversion HF as [|? ? [Hwf Hmax] _]; subst. clear HF.
  specialize (Hmax b1 Hd1).
  destruct (ip_dumps_shape _ _ _ _ Hwf Hd1) as [mti [mtib [pl [body [Hmti [Hdig [Henc [Hpl Hb1]]]]]]]].
  set (l4 := be32 (N.of_nat (length b1))).
  assert (H4 : length l4 = 4) by reflexivity.
  assert (Hm : length mtib = 4) by (rewrite (encode_length _ _ _ Henc); exact Hmti).
  assert (Hbm : length (bitmap_of pl) = 16) by apply ip_bitmap_length.
  assert (Hun : (unbe l4 <= ip_maxlen)%N).
  { unfold l4. rewrite unbe_be32; [exact Hmax|]. pose proof ip_fact_maxlen. lia. }
  assert (Hok : bitmap_ok ip_packaged (bitmap_of pl) = true) by (apply ip_bitmap_ok; exact Hpl).
  assert (Hmne : mti <> []) by (intro C; subst mti; discriminate Hmti).
  (* the record stream starts with the 24-byte head *)
  assert (Hstream : forall T, vbs (b1 :: brest) ++ T
                              = (l4 ++ mtib ++ bitmap_of pl) ++ (body ++ vbs brest ++ T)).
  { intros T. rewrite vbs_cons. unfold FramingSpec.frame. fold l4. rewrite Hb1.
    rewrite <- !app_assoc. reflexivity. }
  set (file := file_of (writer_run 1012 blocked (map WWrite (b1 :: brest) ++ [WClose]))) in *.
  assert (Hshape : exists X, file = (l4 ++ mtib ++ bitmap_of pl) ++ X /\
            (blocked = true -> block_check 1012 (firstn sample_size file) = true)).
  { destruct blocked.
    - assert (Bpos : 0 < 1012) by lia.
      destruct (ip_blocked_file 1012 Bpos (b1 :: brest)) as [n [k [Hk Hlay]]]. fold file in Hlay.
      set (S := vbs (b1 :: brest) ++ repeat pad n) in *.
      assert (HS : S = (l4 ++ mtib ++ bitmap_of pl) ++ (body ++ vbs brest ++ repeat pad n)) by apply Hstream.
      assert (HlenS : 24 <= length S) by (rewrite HS; rewrite !app_length; lia).
      assert (Hk1 : 1 <= k) by nia.
      destruct (ip_lay_blocks 1012 Bpos S k Hk Hk1) as [R [HR1 HR2]].
      assert (Hc1 : length (firstn 1012 S) = 1012) by (rewrite firstn_length; nia).
      assert (Hff : firstn 1012 file = firstn 1012 S).
      { rewrite Hlay, HR1. apply ip_firstn_exact. exact Hc1. }
      exists (firstn (1012 - 24) (body ++ vbs brest ++ repeat pad n) ++ trailer ++ R). split.
      + rewrite Hlay, HR1. rewrite HS at 1. rewrite firstn_app.
        rewrite (firstn_all2 (l4 ++ mtib ++ bitmap_of pl)) by (rewrite !app_length; lia).
        replace (length (l4 ++ mtib ++ bitmap_of pl)) with 24 by (rewrite !app_length; lia).
        rewrite <- !app_assoc. reflexivity.
      + intros _. apply (ip_block_check_true 1012 sample_size file R).
        * rewrite ip_sample_size. lia.
        * rewrite Hff. rewrite <- HR1. exact Hlay.
        * rewrite Hff. exact Hc1.
        * exact HR2.
    - exists (body ++ vbs brest ++ []). split; [|discriminate].
      unfold file. rewrite c03_layout_unblocked. rewrite <- (app_nil_r (vbs (b1 :: brest))). apply Hstream. }
  destruct Hshape as [X [HX Hblk]].
  exists (block_check 1012 (firstn sample_size file)), (encoding_check ip_latin1 ip_cp037 mtib).
  split; [|split; [|split; [|split]]].
  - unfold ip_inspect. exact (ip_info_valid 1012 _ _ _ _ file l4 mtib (bitmap_of pl) X H4 Hm Hbm HX Hun Hok).
  - intros Hfam. exact (ip_guess_ascii cd mti mtib Hfam Hmne Hdig Henc).
  - intros Hfam. exact (ip_guess_ebcdic cd mti mtib Hfam Hmne Hdig Henc).
  - exact Hblk.
  - intros _ Hs. apply ip_block_check_false; [rewrite ip_sample_size; lia|exact Hs].
Qed.

(* ====================================================================== C17: the generated families *)
Lemma c17_families :
  forallb (fun n => match codec_named n with Some cd => ip_ascii_digitsb cd | None => false end) CU.gen.GenCodec.ascii_family = true /\
  forallb (fun n => match codec_named n with Some cd => ip_ebcdic_digitsb cd | None => false end) CU.gen.GenCodec.ebcdic_family = true.
Proof. vm_compute. split; reflexivity. Qed.

(* ====================================================================== C17: invalid inputs *)
Lemma ip_bitmap_bad : forall cfg bm n, length bm = 16 -> 2 <= n <= 128 -> bit_set bm n = true ->
  cfg_get cfg n = None -> bitmap_ok cfg bm = false.
Proof.
  intros cfg bm n Hlen Hn Hbit Hnone. unfold bitmap_ok. cbv zeta.
  apply (ip_forallb_false _ _ (n - 1)).
  - apply in_seq. rewrite bits_of_bytes_length, Hlen. lia.
  - rewrite nth_bits_bit_set by lia. rewrite Hbit. replace (S (n - 1)) with n by lia. rewrite Hnone. reflexivity.
Qed.

Lemma c17_invalid : forall file,
  (length file < 24 -> ip_inspect file = Invalid 1) /\
  (24 <= length file -> (ip_maxlen < unbe (firstn 4 file))%N -> ip_inspect file = Invalid 2) /\
  (24 <= length file -> (unbe (firstn 4 file) <= ip_maxlen)%N ->
     (exists n, 2 <= n <= 128 /\ bit_set (slice 8 24 file) n = true /\ cfg_get ip_packaged n = None) ->
     ip_inspect file = Invalid 3).
Proof.
  intros file. pose proof ip_sample_size as Hss. unfold ip_inspect, ipm_info. cbv zeta.
  split; [|split].
  - intros H. destruct (length (firstn sample_size file) <? 24) eqn:E; [reflexivity|].
    apply Nat.ltb_ge in E. rewrite firstn_length in E. lia.
  - intros H Hgt. destruct (length (firstn sample_size file) <? 24) eqn:E.
    { apply Nat.ltb_lt in E. rewrite firstn_length in E. lia. }
    rewrite (ip_firstn_firstn 4 sample_size file) by lia.
    apply N.ltb_lt in Hgt. rewrite Hgt. reflexivity.
  - intros H Hle [n [Hn [Hbit Hnone]]].
    destruct (length (firstn sample_size file) <? 24) eqn:E.
    { apply Nat.ltb_lt in E. rewrite firstn_length in E. lia. }
    rewrite (ip_firstn_firstn 4 sample_size file) by lia.
    destruct (ip_maxlen <? unbe (firstn 4 file))%N eqn:E2; [apply N.ltb_lt in E2; lia|].
    rewrite (ip_slice_firstn 8 24 sample_size file) by lia.
    rewrite (ip_bitmap_bad ip_packaged (slice 8 24 file) n); [reflexivity| |exact Hn|exact Hbit|exact Hnone].
    rewrite ip_slice_length by exact H. reflexivity.
Qed.
