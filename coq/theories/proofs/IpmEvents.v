(* IpmEvents.v — a consumer that keeps the reader after each data error (C10, several bad records in one file). *)
From Coq Require Import List Arith NArith ZArith Lia Bool.
From Coq Require Import Strings.Byte.
Require Import CU.model.Prim CU.model.Types CU.model.Codec CU.model.Block CU.model.Vbs CU.model.Iso CU.model.Ipm.
Require Import CU.spec.FramingSpec CU.proofs.BlockProofs CU.proofs.VbsProofs CU.proofs.IpmProofs.
Import ListNotations.

Section IpmEvents.
Variable B : nat.
Variable maxlen : N.
Variable cfg : cfgT.
Variable cd : codec.

(* the event list as a pure function of the bytes that remain to be read *)
Fixpoint eparse (fuel : nat) (p : bytes) (recno : nat) (acc : list ievent) : result (list ievent) :=
  match fuel with
  | 0 => OutOfFuel
  | S k =>
    let raw := firstn 4 p in
    if negb (Nat.eqb (length raw) 4) then Ok acc
    else if (maxlen <? unbe raw)%N then eparse k (skipn 4 p) recno (acc ++ [EvErr recno raw])
    else if (unbe raw =? 0)%N then Ok acc
    else let rec := firstn (N.to_nat (unbe raw)) (skipn 4 p) in
      if negb (Nat.eqb (length rec) (N.to_nat (unbe raw)))
      then eparse k (skipn (N.to_nat (unbe raw)) (skipn 4 p)) recno (acc ++ [EvErr recno (raw ++ rec)])
      else match loads cfg cd false rec with
           | Ok d => eparse k (skipn (N.to_nat (unbe raw)) (skipn 4 p)) (S recno) (acc ++ [EvRec d])
           | Raise EData => eparse k (skipn (N.to_nat (unbe raw)) (skipn 4 p)) (S recno) (acc ++ [EvErr recno (raw ++ rec)])
           | Raise e => Raise e
           | OutOfFuel => OutOfFuel
           | Unmodelled => Unmodelled
           end
  end.

Lemma ie_events_eparse : forall fuel r acc, sok B (rstream r) ->
  ievents_fuel B maxlen cfg cd fuel r acc = eparse fuel (srem B (rstream r)) (rrecno r) acc.
Proof.
  induction fuel as [|k IH]; intros r acc Hok; [reflexivity|].
  cbn [ievents_fuel eparse]. unfold inext, rnext.
  destruct (sread_spec B (rstream r) 4 Hok ltac:(lia)) as (s1 & E1 & R1 & Ok1).
  rewrite E1. cbn [bind].
  set (raw := firstn 4 (srem B (rstream r))).
  destruct (negb (Nat.eqb (length raw) 4)); [reflexivity|].
  destruct (maxlen <? unbe raw)%N.
  { cbn [bind]. rewrite IH by exact Ok1. cbn [rstream rrecno]. rewrite R1. reflexivity. }
  destruct (unbe raw =? 0)%N eqn:E0; [reflexivity|].
  apply N.eqb_neq in E0.
  destruct (sread_spec B s1 (N.to_nat (unbe raw)) Ok1 ltac:(lia)) as (s2 & E2 & R2 & Ok2).
  rewrite E2. cbn [bind]. rewrite R1.
  set (rec := firstn (N.to_nat (unbe raw)) (skipn 4 (srem B (rstream r)))).
  destruct (negb (Nat.eqb (length rec) (N.to_nat (unbe raw)))).
  { cbn [bind]. rewrite IH by exact Ok2. cbn [rstream rrecno]. rewrite R2, R1. reflexivity. }
  cbn [bind].
  destruct (loads cfg cd false rec) as [d|e| |]; cbn [bind]; [| |reflexivity|reflexivity].
  - rewrite IH by exact Ok2. cbn [rstream rrecno]. rewrite R2, R1. reflexivity.
  - destruct e; try reflexivity. cbn [bind]. rewrite IH by exact Ok2.
    cbn [rstream rrecno rlast]. rewrite R2, R1, Nat.sub_succ, Nat.sub_0_r. reflexivity.
Qed.

Lemma ie_eparse_fuel : forall f1 f2 p recno acc, length p < f1 -> length p < f2 ->
  eparse f1 p recno acc = eparse f2 p recno acc.
Proof.
  induction f1 as [|k1 IH]; intros f2 p recno acc H1 H2; [lia|].
  destruct f2 as [|k2]; [lia|]. cbn [eparse].
  destruct (negb (Nat.eqb (length (firstn 4 p)) 4)) eqn:E4; [reflexivity|].
  apply negb_false_iff, Nat.eqb_eq in E4. rewrite firstn_length in E4.
  destruct (maxlen <? unbe (firstn 4 p))%N; [apply IH; rewrite skipn_length; lia|].
  destruct (unbe (firstn 4 p) =? 0)%N; [reflexivity|].
  match goal with |- context [negb ?x] => destruct (negb x) end; [apply IH; rewrite !skipn_length; lia|].
  match goal with |- context [loads ?a ?b ?c ?d] => destruct (loads a b c d) as [d0|e| |] end; try reflexivity.
  - apply IH; rewrite !skipn_length; lia.
  - destruct e; try reflexivity. apply IH; rewrite !skipn_length; lia.
Qed.

Hypothesis maxlen_ok : (maxlen < 2 ^ 32)%N.

(* what record number i of the file must yield: its message, or the data error naming record i with its own frame *)
Definition outcome_of (i : nat) (r : bytes) : option ievent :=
  match loads cfg cd false r with
  | Ok d => Some (EvRec d)
  | Raise EData => Some (EvErr i (frame r))
  | _ => None
  end.

Lemma ie_eparse_frame k r t recno acc e : wf_rec maxlen r -> outcome_of recno r = Some e ->
  eparse (S k) (frame r ++ t) recno acc = eparse k t (S recno) (acc ++ [e]).
Proof.
  intros Hr He. destruct (wf_len maxlen maxlen_ok r Hr) as (U & M & Z & T).
  unfold frame. rewrite <- app_assoc. cbn [eparse].
  rewrite (firstn_exact _ _ 4) by apply be32_length.
  rewrite (skipn_exact _ _ 4) by apply be32_length.
  rewrite be32_length. cbn [Nat.eqb negb]. rewrite U, M, Z, T.
  rewrite (firstn_exact r t) by reflexivity. rewrite (skipn_exact r t) by reflexivity.
  rewrite Nat.eqb_refl. cbn [negb].
  unfold outcome_of in He. destruct (loads cfg cd false r) as [d|x| |]; try discriminate.
  - inversion He; subst. reflexivity.
  - destruct x; try discriminate. inversion He; subst. reflexivity.
Qed.

(* records numbered from recno on *)
Fixpoint numbered (recno : nat) (rs : list bytes) : list (nat * bytes) :=
  match rs with [] => [] | r :: t => (recno, r) :: numbered (S recno) t end.

Lemma ie_eparse_records : forall rs evs recno, 
  Forall2 (fun ir e => outcome_of (fst ir) (snd ir) = Some e) (numbered recno rs) evs ->
  Forall (wf_rec maxlen) rs ->
  forall k t acc,
  eparse (length rs + k) (frames rs ++ t) recno acc = eparse k t (recno + length rs) (acc ++ evs).
Proof.
  induction rs as [|r rs IH]; intros evs recno H Hwf k t acc.
  - inversion H; subst. cbn [length frames flat_map app Nat.add]. rewrite Nat.add_0_r, app_nil_r. reflexivity.
  - cbn [numbered] in H. inversion H as [|x e l evs' He Hrest]; subst. cbn [fst snd] in He.
    inversion Hwf as [|r' rs' Hr Hrs]; subst.
    rewrite frames_cons, <- app_assoc. cbn [length Nat.add].
    rewrite (ie_eparse_frame _ r _ recno acc e Hr He).
    rewrite (IH evs' (S recno) Hrest Hrs). rewrite <- app_assoc. cbn [app].
    rewrite Nat.add_succ_comm. reflexivity.
Qed.

Hypothesis Bpos : 0 < B.

Lemma ie_events_seen file blocked :
  ievents B maxlen cfg cd file blocked = eparse (S (length file)) (seen B blocked file) 1 [].
Proof.
  unfold ievents. rewrite ie_events_eparse.
  - destruct blocked; cbn [rinit sopen rstream rrecno srem seen].
    + rewrite (urem_init B Bpos). reflexivity.
    + reflexivity.
  - destruct blocked; cbn [rinit sopen rstream sok]; [exact Bpos|exact I].
Qed.

Lemma ie_eparse_zero k t recno acc : eparse (S k) (be32 0 ++ t) recno acc = Ok acc.
Proof.
  cbn [eparse]. rewrite (firstn_exact _ _ 4) by apply be32_length. rewrite be32_length. cbn [Nat.eqb negb].
  rewrite unbe_be32 by (apply N.lt_trans with (m := 1%N); [reflexivity|reflexivity]).
  destruct (maxlen <? 0)%N eqn:E; [apply N.ltb_lt in E; lia|]. reflexivity.
Qed.

(* a well-framed file (terminated by the zero length; whatever follows), ANY number of whose records do not decode:
   the consumer sees, for record i, its message or the data error naming record i and carrying record i's own frame *)
Lemma c10_every_bad_record_ : forall blocked file rs evs tail,
  Forall (wf_rec maxlen) rs ->
  Forall2 (fun ir e => outcome_of (fst ir) (snd ir) = Some e) (numbered 1 rs) evs ->
  seen B blocked file = frames rs ++ be32 0 ++ tail ->
  ievents B maxlen cfg cd file blocked = Ok evs.
Proof.
  intros blocked file rs evs tail Hwf Hev Hs. rewrite ie_events_seen.
  pose proof (ip_seen_length B maxlen maxlen_ok Bpos blocked file) as HL.
  rewrite (ie_eparse_fuel _ (length rs + S (length file))) by lia.
  rewrite Hs. rewrite (ie_eparse_records rs evs 1 Hev Hwf). cbn [app]. apply ie_eparse_zero.
Qed.
End IpmEvents.

Lemma c10_every_bad_record (B : nat) (Bpos : 0 < B) (maxlen : N) (maxlen_ok : (maxlen < 2 ^ 32)%N)
  (cfg : cfgT) (cd : codec) : forall blocked file rs evs tail,
  Forall (wf_rec maxlen) rs ->
  Forall2 (fun ir e => outcome_of cfg cd (fst ir) (snd ir) = Some e) (numbered 1 rs) evs ->
  seen B blocked file = frames rs ++ be32 0 ++ tail ->
  ievents B maxlen cfg cd file blocked = Ok evs.
Proof. exact (c10_every_bad_record_ B maxlen cfg cd maxlen_ok Bpos). Qed.
