(* IpmProofs.v — proofs about the IPM reader / writer model (Ipm.v): a bad record is reported with its own number
   and raw bytes (C10), instances are independent (C06), and IPM files round-trip (C06: ip_roundtrip_from, whose
   premise — every message round-trips — is c01_roundtrip of IsoRoundtrip.v). *)
From Coq Require Import List Arith NArith Lia Bool.
From Coq Require Import Strings.Byte.
Require Import CU.model.Prim CU.model.Types CU.model.Codec CU.model.Block CU.model.Vbs CU.model.Iso CU.model.Ipm.
Require Import CU.spec.IsoSpec CU.spec.FramingSpec.
Require Import CU.proofs.BlockProofs CU.proofs.VbsProofs CU.proofs.IsoRoundtrip.
Import ListNotations.
Open Scope nat_scope.

Local Opaque be32.

(* ====================================================================== independent instances (C06) *)
Definition step_at {S Op : Type} (step : S -> Op -> S) (insts : list S) (o : nat * Op) : list S :=
  map (fun js => if Nat.eqb (fst js) (fst o) then step (snd js) (snd o) else snd js)
      (combine (seq 0 (length insts)) insts).
Definition run_interleaved {S Op : Type} (step : S -> Op -> S) (ops : list (nat * Op)) (insts : list S) : list S :=
  fold_left (step_at step) ops insts.

Lemma ip_nth_error_map {A C} (f : A -> C) : forall l i, nth_error (map f l) i = option_map f (nth_error l i).
Proof.
  induction l as [|x l IH]; intros [|i]; cbn [map nth_error option_map]; try reflexivity. apply IH.
Qed.

Lemma ip_nth_error_indexed {A} : forall (l : list A) a i,
  nth_error (combine (seq a (length l)) l) i = option_map (fun x => (a + i, x)) (nth_error l i).
Proof.
  induction l as [|x l IH]; intros a i.
  - destruct i; reflexivity.
  - cbn [length seq combine]. destruct i as [|i]; cbn [nth_error option_map].
    + rewrite Nat.add_0_r. reflexivity.
    + rewrite IH. rewrite Nat.add_succ_comm. reflexivity.
Qed.

Lemma ip_step_at_nth {S Op} (step : S -> Op -> S) insts o i :
  nth_error (step_at step insts o) i
  = option_map (fun s => if Nat.eqb (fst o) i then step s (snd o) else s) (nth_error insts i).
Proof.
  unfold step_at. rewrite ip_nth_error_map, ip_nth_error_indexed.
  destruct (nth_error insts i) as [s|]; cbn [option_map fst snd Nat.add]; [|reflexivity].
  rewrite (Nat.eqb_sym i (fst o)). reflexivity.
Qed.

Lemma c06_isolation : forall (S Op : Type) (step : S -> Op -> S) (ops : list (nat * Op)) (insts : list S) i,
  nth_error (run_interleaved step ops insts) i =
  option_map (fun s => fold_left step (map snd (filter (fun o => Nat.eqb (fst o) i) ops)) s) (nth_error insts i).
Proof.
  intros S Op step ops. unfold run_interleaved.
  induction ops as [|o ops IH]; intros insts i.
  - cbn [fold_left filter map]. destruct (nth_error insts i); reflexivity.
  - cbn [fold_left filter]. rewrite IH, ip_step_at_nth.
    destruct (nth_error insts i) as [s|]; cbn [option_map]; [|reflexivity].
    destruct (Nat.eqb (fst o) i); reflexivity.
Qed.

(* ====================================================================== the IPM reader on the remaining bytes *)
Section IpmParse.
Variable B : nat.
Variable maxlen : N.
Variable cfg : cfgT.
Variable cd : codec.

(* IpmReader iteration as a pure function of the bytes that remain to be read *)
Fixpoint iparse (fuel : nat) (p : bytes) (recno : nat) (acc : list dict) : result (list dict * rend) :=
  match fuel with
  | 0 => OutOfFuel
  | S k =>
    let raw := firstn 4 p in
    if negb (Nat.eqb (length raw) 4) then Ok (acc, End)
    else if (maxlen <? unbe raw)%N then Ok (acc, ErrData recno raw)
    else if (unbe raw =? 0)%N then Ok (acc, End)
    else let rec := firstn (N.to_nat (unbe raw)) (skipn 4 p) in
      if negb (Nat.eqb (length rec) (N.to_nat (unbe raw))) then Ok (acc, ErrData recno (raw ++ rec))
      else match loads cfg cd false rec with
           | Ok d => iparse k (skipn (N.to_nat (unbe raw)) (skipn 4 p)) (S recno) (acc ++ [d])
           | Raise EData => Ok (acc, ErrData recno (raw ++ rec))
           | Raise e => Raise e
           | OutOfFuel => OutOfFuel
           | Unmodelled => Unmodelled
           end
  end.

Lemma ip_iread_all_fuel_iparse : forall fuel r acc, sok B (rstream r) ->
  iread_all_fuel B maxlen cfg cd fuel r acc = iparse fuel (srem B (rstream r)) (rrecno r) acc.
Proof.
  induction fuel as [|k IH]; intros r acc Hok; [reflexivity|].
  cbn [iread_all_fuel iparse]. unfold inext, rnext.
  destruct (sread_spec B (rstream r) 4 Hok ltac:(lia)) as (s1 & E1 & R1 & Ok1).
  rewrite E1. cbn [bind].
  set (raw := firstn 4 (srem B (rstream r))).
  destruct (negb (Nat.eqb (length raw) 4)); [reflexivity|].
  destruct (maxlen <? unbe raw)%N; [reflexivity|].
  destruct (unbe raw =? 0)%N eqn:E0; [reflexivity|].
  apply N.eqb_neq in E0.
  destruct (sread_spec B s1 (N.to_nat (unbe raw)) Ok1 ltac:(lia)) as (s2 & E2 & R2 & Ok2).
  rewrite E2. cbn [bind]. rewrite R1.
  set (rec := firstn (N.to_nat (unbe raw)) (skipn 4 (srem B (rstream r)))).
  destruct (negb (Nat.eqb (length rec) (N.to_nat (unbe raw)))); [reflexivity|].
  cbn [bind].
  destruct (loads cfg cd false rec) as [d|e| |]; cbn [bind]; [| |reflexivity|reflexivity].
  - rewrite IH by exact Ok2. cbn [rstream rrecno]. rewrite R2, R1. reflexivity.
  - destruct e; try reflexivity. cbn [rrecno rlast]. rewrite Nat.sub_succ, Nat.sub_0_r. reflexivity.
Qed.

Lemma ip_iparse_fuel : forall f1 f2 p recno acc, length p < f1 -> length p < f2 ->
  iparse f1 p recno acc = iparse f2 p recno acc.
Proof.
  induction f1 as [|k1 IH]; intros f2 p recno acc H1 H2; [lia|].
  destruct f2 as [|k2]; [lia|]. cbn [iparse].
  destruct (negb (Nat.eqb (length (firstn 4 p)) 4)) eqn:E4; [reflexivity|].
  apply negb_false_iff, Nat.eqb_eq in E4. rewrite firstn_length in E4.
  destruct (maxlen <? unbe (firstn 4 p))%N; [reflexivity|].
  destruct (unbe (firstn 4 p) =? 0)%N; [reflexivity|].
  match goal with |- context [negb ?x] => destruct (negb x) end; [reflexivity|].
  match goal with |- context [loads ?a ?b ?c ?d] => destruct (loads a b c d) as [d0|e| |] end; try reflexivity.
  apply IH; rewrite !skipn_length; lia.
Qed.

Lemma ip_iparse_zero k t recno acc : iparse (S k) (be32 0 ++ t) recno acc = Ok (acc, End).
Proof.
  cbn [iparse]. rewrite (firstn_exact (be32 0) t 4) by apply be32_length.
  rewrite be32_length. cbn [Nat.eqb negb]. rewrite unbe_be32_0.
  replace (maxlen <? 0)%N with false by (symmetry; apply N.ltb_ge; lia). reflexivity.
Qed.

(* a length above the maximum: the context is the length prefix *)
Lemma ip_iparse_oversize k L t recno acc : (maxlen < L)%N -> (L < 2 ^ 32)%N ->
  iparse (S k) (be32 L ++ t) recno acc = Ok (acc, ErrData recno (be32 L)).
Proof.
  intros H1 H2. rewrite pow_2_32 in H2. cbn [iparse].
  rewrite (firstn_exact (be32 L) t 4) by apply be32_length.
  rewrite be32_length. cbn [Nat.eqb negb]. rewrite unbe_be32 by exact H2.
  replace (maxlen <? L)%N with true by (symmetry; apply N.ltb_lt; exact H1). reflexivity.
Qed.

Hypothesis maxlen_ok : (maxlen < 2 ^ 32)%N.

(* a record cut short: the context is the length prefix and the bytes that could be read *)
Lemma ip_iparse_trunc k L x recno acc : (0 < L)%N -> (L <= maxlen)%N -> length x < N.to_nat L ->
  iparse (S k) (be32 L ++ x) recno acc = Ok (acc, ErrData recno (be32 L ++ x)).
Proof.
  intros H0 H1 Hx. rewrite pow_2_32 in maxlen_ok. cbn [iparse].
  rewrite (firstn_exact (be32 L) x 4) by apply be32_length.
  rewrite (skipn_exact (be32 L) x 4) by apply be32_length.
  rewrite be32_length. cbn [Nat.eqb negb]. rewrite unbe_be32 by lia.
  replace (maxlen <? L)%N with false by (symmetry; apply N.ltb_ge; exact H1).
  replace (L =? 0)%N with false by (symmetry; apply N.eqb_neq; lia).
  rewrite (firstn_short (N.to_nat L) x) by lia.
  replace (Nat.eqb (length x) (N.to_nat L)) with false by (symmetry; apply Nat.eqb_neq; lia).
  reflexivity.
Qed.

(* a framed record reaches the decoder *)
Lemma ip_iparse_frame k r t recno acc : wf_rec maxlen r ->
  iparse (S k) (frame r ++ t) recno acc =
  match loads cfg cd false r with
  | Ok d => iparse k t (S recno) (acc ++ [d])
  | Raise EData => Ok (acc, ErrData recno (frame r))
  | Raise e => Raise e
  | OutOfFuel => OutOfFuel
  | Unmodelled => Unmodelled
  end.
Proof.
  intros Hr. destruct (wf_len maxlen maxlen_ok r Hr) as (U & M & Z & T).
  unfold frame. rewrite <- app_assoc. cbn [iparse].
  rewrite (firstn_exact _ _ 4) by apply be32_length.
  rewrite (skipn_exact _ _ 4) by apply be32_length.
  rewrite be32_length. cbn [Nat.eqb negb]. rewrite U, M, Z, T.
  rewrite (firstn_exact r t) by reflexivity. rewrite (skipn_exact r t) by reflexivity.
  rewrite Nat.eqb_refl. reflexivity.
Qed.

(* the good records are delivered in order, the record number advancing by one each *)
Lemma ip_iparse_goods : forall goods ds, Forall2 (fun r d => loads cfg cd false r = Ok d) goods ds ->
  Forall (wf_rec maxlen) goods ->
  forall k t recno acc,
  iparse (length goods + k) (frames goods ++ t) recno acc = iparse k t (recno + length goods) (acc ++ ds).
Proof.
  induction 1 as [|r d goods ds Hrd Hrest IH]; intros Hwf k t recno acc.
  - cbn [length frames flat_map app Nat.add]. rewrite Nat.add_0_r, app_nil_r. reflexivity.
  - inversion Hwf as [|r' rs' Hr Hrs]; subst.
    rewrite frames_cons, <- app_assoc. cbn [length Nat.add].
    rewrite ip_iparse_frame by exact Hr. rewrite Hrd.
    rewrite IH by exact Hrs. rewrite <- app_assoc. cbn [app].
    rewrite Nat.add_succ_comm. reflexivity.
Qed.

Hypothesis Bpos : 0 < B.

(* the byte stream a reader sees *)
Definition seen (blocked : bool) (file : bytes) : bytes := if blocked then payload B file else file.

Lemma ip_seen_length blocked file : length (seen blocked file) <= length file.
Proof. destruct blocked; cbn [seen]; [apply payload_length_le|lia]. Qed.

Lemma ip_iread_all_seen file blocked :
  iread_all B maxlen cfg cd file blocked = iparse (S (length file)) (seen blocked file) 1 [].
Proof.
  unfold iread_all. rewrite ip_iread_all_fuel_iparse.
  - destruct blocked; cbn [rinit sopen rstream rrecno srem seen].
    + rewrite (urem_init B Bpos). reflexivity.
    + reflexivity.
  - destruct blocked; cbn [rinit sopen rstream sok]; [exact Bpos|exact I].
Qed.

(* reading a file whose stream starts with the good records *)
Lemma ip_read_goods blocked file goods ds t :
  Forall2 (fun r d => loads cfg cd false r = Ok d) goods ds ->
  Forall (wf_rec maxlen) goods ->
  seen blocked file = frames goods ++ t ->
  iread_all B maxlen cfg cd file blocked = iparse (S (length file)) t (length goods + 1) ds.
Proof.
  intros Hgd Hwf Hs. rewrite ip_iread_all_seen.
  pose proof (ip_seen_length blocked file) as HL.
  rewrite (ip_iparse_fuel _ (length goods + S (length file))) by lia.
  rewrite Hs. rewrite (ip_iparse_goods goods ds Hgd Hwf). rewrite Nat.add_comm. reflexivity.
Qed.

End IpmParse.

(* ====================================================================== C10 *)
Lemma c10_message_level (B : nat) (Bpos : 0 < B) (maxlen : N) (maxlen_ok : (maxlen < 2 ^ 32)%N)
  (cfg : cfgT) (cd : codec) : forall blocked file goods ds bad tail,
  Forall2 (fun r d => loads cfg cd false r = Ok d) goods ds ->
  Forall (wf_rec maxlen) (goods ++ [bad]) ->
  loads cfg cd false bad = Raise EData ->
  seen B blocked file = frames goods ++ frame bad ++ tail ->
  iread_all B maxlen cfg cd file blocked = Ok (ds, ErrData (length goods + 1) (frame bad)).
Proof.
  intros blocked file goods ds bad tail Hgd Hwf Hbad Hs.
  apply Forall_app in Hwf. destruct Hwf as [Hwf Hb]. inversion Hb as [|x l Hbw _]; subst.
  rewrite (ip_read_goods B maxlen cfg cd maxlen_ok Bpos blocked file goods ds _ Hgd Hwf Hs).
  rewrite (ip_iparse_frame maxlen cfg cd maxlen_ok) by exact Hbw. rewrite Hbad. reflexivity.
Qed.

Lemma c10_truncated (B : nat) (Bpos : 0 < B) (maxlen : N) (maxlen_ok : (maxlen < 2 ^ 32)%N)
  (cfg : cfgT) (cd : codec) : forall blocked file goods ds L part,
  Forall2 (fun r d => loads cfg cd false r = Ok d) goods ds ->
  Forall (wf_rec maxlen) goods ->
  (0 < L)%N -> (L <= maxlen)%N -> length part < N.to_nat L ->
  seen B blocked file = frames goods ++ be32 L ++ part ->
  iread_all B maxlen cfg cd file blocked = Ok (ds, ErrData (length goods + 1) (be32 L ++ part)).
Proof.
  intros blocked file goods ds L part Hgd Hwf H0 H1 Hp Hs.
  rewrite (ip_read_goods B maxlen cfg cd maxlen_ok Bpos blocked file goods ds _ Hgd Hwf Hs).
  apply (ip_iparse_trunc maxlen cfg cd maxlen_ok); assumption.
Qed.

Lemma c10_oversize (B : nat) (Bpos : 0 < B) (maxlen : N) (maxlen_ok : (maxlen < 2 ^ 32)%N)
  (cfg : cfgT) (cd : codec) : forall blocked file goods ds L tail,
  Forall2 (fun r d => loads cfg cd false r = Ok d) goods ds ->
  Forall (wf_rec maxlen) goods ->
  (maxlen < L)%N -> (L < 2 ^ 32)%N ->
  seen B blocked file = frames goods ++ be32 L ++ tail ->
  iread_all B maxlen cfg cd file blocked = Ok (ds, ErrData (length goods + 1) (be32 L)).
Proof.
  intros blocked file goods ds L tail Hgd Hwf H1 H2 Hs.
  rewrite (ip_read_goods B maxlen cfg cd maxlen_ok Bpos blocked file goods ds _ Hgd Hwf Hs).
  apply ip_iparse_oversize; assumption.
Qed.

(* ====================================================================== C06: the file round trip *)
Definition agrees (cfg : cfgT) (m d : dict) : Prop :=
  (forall k v, lookup m k = Some v -> lookup d k = Some (expected cfg k v)) /\
  (forall k, lookup d k <> None -> lookup m k <> None \/ derived_key cfg k = true).

Definition fits (cfg : cfgT) (cd : codec) (maxlen : N) (m : dict) : Prop :=
  wf_msgb cfg cd m = true /\ forall b, dumps cfg cd false m = Ok b -> (N.of_nat (length b) <= maxlen)%N.

Lemma ip_loads_len cfg cd b d : loads cfg cd false b = Ok d -> 20 <= length b.
Proof.
  unfold loads. destruct (length b <? 20) eqn:E; [discriminate|]. intros _. apply Nat.ltb_ge in E. exact E.
Qed.

Section IpmFile.
Variable B : nat.
Hypothesis Bpos : 0 < B.
Variable maxlen : N.
Hypothesis maxlen_ok : (maxlen < 2 ^ 32)%N.
Variable cfg : cfgT.
Variable cd : codec.

(* the message round trip, message by message *)
Lemma ip_encode_all :
  (forall m, wf_msgb cfg cd m = true ->
     exists b d, dumps cfg cd false m = Ok b /\ loads cfg cd false b = Ok d /\ agrees cfg m d) ->
  forall ms, Forall (fits cfg cd maxlen) ms ->
  exists bs ds, Forall2 (fun m b => dumps cfg cd false m = Ok b) ms bs /\
                Forall2 (fun b d => loads cfg cd false b = Ok d) bs ds /\
                Forall2 (agrees cfg) ms ds /\ Forall (wf_rec maxlen) bs.
Proof.
  intros RT. induction 1 as [|m ms [Hm Hfit] Hms IH].
  - exists [], []. repeat split; constructor.
  - destruct IH as (bs & ds & H1 & H2 & H3 & H4).
    destruct (RT m Hm) as (b & d & Hd & Hl & Ha).
    exists (b :: bs), (d :: ds). repeat split; try (constructor; assumption).
    constructor; [|exact H4]. split.
    + pose proof (ip_loads_len cfg cd b d Hl). lia.
    + apply Hfit. exact Hd.
Qed.

Lemma ip_iwrite_many : forall ms bs, Forall2 (fun m b => dumps cfg cd false m = Ok b) ms bs ->
  forall w, iwrite_many B cfg cd w ms = Ok (fold_left (wstep B) (map WWrite bs) w).
Proof.
  induction 1 as [|m b ms bs Hd Hrest IH]; intros w; [reflexivity|].
  cbn [iwrite_many map fold_left wstep]. unfold iwrite. rewrite Hd. cbn [bind]. apply IH.
Qed.

Lemma ip_ipm_file blocked ms bs : Forall2 (fun m b => dumps cfg cd false m = Ok b) ms bs ->
  ipm_file B cfg cd blocked ms = Ok (file_of (writer_run B blocked (map WWrite bs ++ [WClose]))).
Proof.
  intros H. unfold ipm_file. rewrite (ip_iwrite_many ms bs H). cbn [bind].
  unfold writer_run. rewrite fold_left_app. reflexivity.
Qed.

(* what a reader sees of a written file: the framed records, the terminator, possibly fill *)
Lemma ip_seen_written blocked bs : exists t,
  seen B blocked (file_of (writer_run B blocked (map WWrite bs ++ [WClose]))) = frames bs ++ be32 0 ++ t.
Proof.
  destruct blocked; cbn [seen].
  - destruct (c03_layout_blocked B Bpos bs) as (_ & n & _ & Hp). exists (repeat pad n).
    rewrite Hp. unfold vbs. rewrite <- app_assoc. reflexivity.
  - exists []. rewrite c03_layout_unblocked. unfold vbs. rewrite app_nil_r. reflexivity.
Qed.

Lemma ip_roundtrip_from :
  (forall m, wf_msgb cfg cd m = true ->
     exists b d, dumps cfg cd false m = Ok b /\ loads cfg cd false b = Ok d /\ agrees cfg m d) ->
  forall blocked ms, Forall (fits cfg cd maxlen) ms ->
  exists file ds, ipm_file B cfg cd blocked ms = Ok file /\
                  iread_all B maxlen cfg cd file blocked = Ok (ds, End) /\
                  Forall2 (agrees cfg) ms ds.
Proof.
  intros RT blocked ms Hms.
  destruct (ip_encode_all RT ms Hms) as (bs & ds & Hd & Hl & Ha & Hwf).
  exists (file_of (writer_run B blocked (map WWrite bs ++ [WClose]))), ds.
  split; [apply ip_ipm_file; exact Hd|]. split; [|exact Ha].
  destruct (ip_seen_written blocked bs) as (t & Hs).
  rewrite (ip_read_goods B maxlen cfg cd maxlen_ok Bpos blocked _ bs ds _ Hl Hwf Hs).
  apply ip_iparse_zero.
Qed.

End IpmFile.

Lemma c06_roundtrip (B : nat) (Bpos : 0 < B) (maxlen : N) (maxlen_ok : (maxlen < 2 ^ 32)%N) :
  forall cfg cd blocked ms,
  wf_cfgb cfg = true -> codec_okb cd = true -> Forall (fits cfg cd maxlen) ms ->
  exists file ds, ipm_file B cfg cd blocked ms = Ok file /\
                  iread_all B maxlen cfg cd file blocked = Ok (ds, End) /\
                  Forall2 (agrees cfg) ms ds.
Proof.
  intros cfg cd blocked ms Hcfg Hcd Hms.
  apply (ip_roundtrip_from B Bpos maxlen maxlen_ok cfg cd); [|exact Hms].
  intros m Hm. destruct (c01_roundtrip cfg cd false m Hcfg Hcd Hm) as (b & d & H1 & H2 & H3 & H4).
  exists b, d. split; [exact H1|]. split; [exact H2|]. split; [exact H3|exact H4].
Qed.
