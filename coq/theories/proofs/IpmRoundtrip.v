(* IpmRoundtrip.v — the IPM file round trip (C06): ip_roundtrip_from of IpmProofs.v with the message round trip
   c01_roundtrip of IsoRoundtrip.v. *)
From Coq Require Import List Arith NArith.
Require Import CU.model.Prim CU.model.Types CU.model.Codec CU.model.Block CU.model.Vbs CU.model.Iso CU.model.Ipm.
Require Import CU.spec.IsoSpec CU.spec.FramingSpec.
Require Import CU.proofs.IpmProofs CU.proofs.IsoRoundtrip.
Import ListNotations.
Open Scope nat_scope.

Lemma c06_roundtrip (B : nat) (Bpos : 0 < B) (maxlen : N) (maxlen_ok : (maxlen < 2 ^ 32)%N) :
  forall cfg cd blocked ms,
  wf_cfgb cfg = true -> codec_okb cd = true -> Forall (fits cfg cd maxlen) ms ->
  exists file ds, ipm_file B cfg cd blocked ms = Ok file /\
                  iread_all B maxlen cfg cd file blocked = Ok (ds, End) /\
                  Forall2 (agrees cfg) ms ds.
Proof.
  intros cfg cd blocked ms Hcfg Hcd Hms.
  apply (ip_roundtrip_from B Bpos maxlen maxlen_ok cfg cd); [|exact Hms].
  intros m Hm. destruct (c01_roundtrip cfg cd false m Hcfg Hcd Hm) as (b & d & H1 & H2 & H3 & H4).
  exists b, d. split; [exact H1|]. split; [exact H2|]. split; [exact H3|exact H4].
Qed.
