(* IpmTouch.v — C11 for IpmWriter: any finalisation history after the messages leaves the file of `with IpmWriter(...)`. *)
From Coq Require Import List Arith NArith.
Require Import CU.model.Prim CU.model.Types CU.model.Codec CU.model.Block CU.model.Vbs CU.model.Iso CU.model.Ipm.
Require Import CU.proofs.VbsProofs CU.proofs.VbsTouch.
Import ListNotations.

Section IpmTouch.
Variable B : nat.
Variable cfg : cfgT.
Variable cd : codec.

(* IpmWriter is VbsWriter plus the message encoder: once the messages are written (w), a first finalisation followed by
   any mix of close() / exit calls and position moves of the wrapped file leaves exactly the file that
   `with IpmWriter(f, ...) as w: w.write_many(ms)` leaves *)
Lemma c11_ipm_history : forall blocked ms w fin0 ops,
  iwrite_many B cfg cd (winit B fempty blocked) ms = Ok w ->
  (fin0 = WClose \/ fin0 = WExit) -> Forall later_op ops ->
  ipm_file B cfg cd blocked ms = Ok (file_of (fold_left (wstep2 B) (W2Op fin0 :: ops) w)).
Proof.
  intros blocked ms w fin0 ops Hw Hf Hops. unfold ipm_file. rewrite Hw. cbn [bind]. f_equal.
  cbn [fold_left wstep2].
  assert (E : wstep B w fin0 = wclose B w) by (destruct Hf as [->| ->]; reflexivity).
  rewrite E. symmetry.
  apply (later_ops_keep B ops (wclose B w) Hops). apply wclose_finalised.
Qed.
End IpmTouch.
