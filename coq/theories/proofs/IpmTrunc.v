(* IpmTrunc.v — the IPM-level part of C09: an IPM file (VBS or 1014-blocked) cut at any byte offset and read with
   IpmReader yields exactly the decodings of the records wholly contained in the surviving bytes, in order, and then
   ends or raises the library's data error.  Derived from the VBS-level result (c09_unblocked / c09_blocked of
   VbsProofs.v) through a lemma relating the IPM reader to the VBS reader: when every raw record the VBS reader
   delivers decodes, the IPM reader delivers the decodings and stops the same way. *)
From Coq Require Import List Arith NArith Lia Bool.
From Coq Require Import Strings.Byte.
Require Import CU.model.Prim CU.model.Types CU.model.Codec CU.model.Block CU.model.Vbs CU.model.Iso CU.model.Ipm.
Require Import CU.spec.IsoSpec CU.spec.FramingSpec.
Require Import CU.proofs.BlockProofs CU.proofs.VbsProofs CU.proofs.IsoRoundtrip CU.proofs.IpmProofs.
Import ListNotations.
Open Scope nat_scope.

(* ---------- list helpers ---------- *)
Lemma it_Forall2_prefix {A C} (R : A -> C -> Prop) : forall a b ds,
  Forall2 R (a ++ b) ds -> Forall2 R a (firstn (length a) ds).
Proof.
  induction a as [|x a IH]; intros b ds H.
  - constructor.
  - cbn [app] in H. inversion H as [|x' d l ds' Hxd Hrest]; subst.
    cbn [length firstn]. constructor; [exact Hxd|]. apply (IH b). exact Hrest.
Qed.

Lemma it_Forall2_length {A C} (R : A -> C -> Prop) : forall a ds, Forall2 R a ds -> length a = length ds.
Proof. induction 1 as [|x d a ds _ _ IH]; [reflexivity|]. cbn [length]. rewrite IH. reflexivity. Qed.

Section IpmTrunc.
Variable B : nat.
Hypothesis Bpos : 0 < B.
Variable maxlen : N.
Hypothesis maxlen_ok : (maxlen < 2 ^ 32)%N.
Variable cfg : cfgT.
Variable cd : codec.

Definition it_dec (r : bytes) (d : dict) : Prop := loads cfg cd false r = Ok d.

(* ---------- the IPM reader against the VBS reader, on the remaining bytes ---------- *)
(* whatever the VBS reader delivers extends its accumulator; if the new raw records all decode, the IPM reader
   delivers their decodings and stops the same way *)
Lemma it_parse_iparse : forall fuel p recno accr out e,
  parse maxlen fuel p recno accr = Ok (out, e) ->
  exists rs, out = accr ++ rs /\
    forall ds, Forall2 it_dec rs ds ->
    forall accd, iparse maxlen cfg cd fuel p recno accd = Ok (accd ++ ds, e).
Proof.
  induction fuel as [|k IH]; intros p recno accr out e H; [discriminate|].
  cbn [parse] in H. cbn [iparse].
  destruct (negb (Nat.eqb (length (firstn 4 p)) 4)).
  { injection H as <- <-. exists []. split; [symmetry; apply app_nil_r|].
    intros ds Hds accd. inversion Hds; subst. rewrite app_nil_r. reflexivity. }
  destruct (maxlen <? unbe (firstn 4 p))%N.
  { injection H as <- <-. exists []. split; [symmetry; apply app_nil_r|].
    intros ds Hds accd. inversion Hds; subst. rewrite app_nil_r. reflexivity. }
  destruct (unbe (firstn 4 p) =? 0)%N.
  { injection H as <- <-. exists []. split; [symmetry; apply app_nil_r|].
    intros ds Hds accd. inversion Hds; subst. rewrite app_nil_r. reflexivity. }
  set (rec := firstn (N.to_nat (unbe (firstn 4 p))) (skipn 4 p)) in *.
  destruct (negb (Nat.eqb (length rec) (N.to_nat (unbe (firstn 4 p))))).
  { injection H as <- <-. exists []. split; [symmetry; apply app_nil_r|].
    intros ds Hds accd. inversion Hds; subst. rewrite app_nil_r. reflexivity. }
  destruct (IH _ _ _ _ _ H) as (rs' & Hout & Hrs').
  exists (rec :: rs'). split; [rewrite Hout, <- app_assoc; reflexivity|].
  intros ds Hds accd. inversion Hds as [|r d l ds' Hrd Hrest]; subst.
  unfold it_dec in Hrd. rewrite Hrd.
  rewrite (Hrs' ds' Hrest). rewrite <- app_assoc. reflexivity.
Qed.

Lemma it_read_all_seen f blocked :
  read_all B maxlen f blocked = parse maxlen (S (length f)) (seen B blocked f) 1 [].
Proof.
  destruct blocked; cbn [seen]; [apply (read_all_blocked B Bpos)|apply read_all_plain].
Qed.

(* the lemma relating iread_all to read_all *)
Lemma it_iread_of_read f blocked rs e ds :
  read_all B maxlen f blocked = Ok (rs, e) ->
  Forall2 it_dec rs ds ->
  iread_all B maxlen cfg cd f blocked = Ok (ds, e).
Proof.
  intros Hr Hds. rewrite it_read_all_seen in Hr.
  destruct (it_parse_iparse _ _ _ _ _ _ Hr) as (rs' & Hout & Hrs'). cbn [app] in Hout. subst rs'.
  rewrite (ip_iread_all_seen B maxlen cfg cd Bpos). rewrite (Hrs' ds Hds). reflexivity.
Qed.

(* the decodings of the complete records are the first decodings *)
Lemma it_prefix_decodes bs ds m : Forall2 it_dec bs ds ->
  Forall2 it_dec (complete_prefix bs m) (firstn (length (complete_prefix bs m)) ds).
Proof.
  intros H. destruct (c09_prefix bs m) as (rest & Hrest).
  apply (it_Forall2_prefix it_dec _ rest). rewrite <- Hrest. exact H.
Qed.

Lemma it_prefix_length bs m : length (complete_prefix bs m) <= length bs.
Proof.
  destruct (c09_prefix bs m) as (rest & Hrest). rewrite Hrest at 2. rewrite app_length. lia.
Qed.

Lemma it_c09_ipm : forall blocked bs ds k,
  Forall (wf_rec maxlen) bs ->
  Forall2 (fun b d => loads cfg cd false b = Ok d) bs ds ->
  let file := file_of (writer_run B blocked (map WWrite bs ++ [WClose])) in
  k <= length file ->
  exists e, iread_all B maxlen cfg cd (firstn k file) blocked
            = Ok (firstn (length (complete_prefix bs (if blocked then payload_len B k else k))) ds, e)
            /\ (e = End \/ exists n c, e = ErrData n c).
Proof.
  intros blocked bs ds k Hwf Hds file Hk. destruct blocked.
  - destruct (c09_blocked B Bpos maxlen maxlen_ok bs k Hwf Hk) as (e & He & Hs).
    exists e. split; [|exact Hs].
    apply (it_iread_of_read _ true _ e _ He). apply it_prefix_decodes. exact Hds.
  - subst file. rewrite c03_layout_unblocked in *.
    destruct (c09_unblocked B maxlen maxlen_ok bs k Hwf Hk) as (e & He & Hs).
    exists e. split; [|exact Hs].
    apply (it_iread_of_read _ false _ e _ He). apply it_prefix_decodes. exact Hds.
Qed.

(* library-written files of well-formed messages *)
Lemma it_c09_ipm_written : forall blocked ms file k,
  wf_cfgb cfg = true -> codec_okb cd = true -> Forall (fits cfg cd maxlen) ms ->
  ipm_file B cfg cd blocked ms = Ok file ->
  k <= length file ->
  exists bs ds e,
    Forall2 (fun m b => dumps cfg cd false m = Ok b) ms bs /\
    Forall2 (agrees cfg) ms ds /\
    let j := length (complete_prefix bs (if blocked then payload_len B k else k)) in
    j <= length ms /\
    iread_all B maxlen cfg cd (firstn k file) blocked = Ok (firstn j ds, e) /\
    (e = End \/ exists n c, e = ErrData n c).
Proof.
  intros blocked ms file k Hcfg Hcd Hms Hfile Hk.
  assert (RT : forall m, wf_msgb cfg cd m = true ->
     exists b d, dumps cfg cd false m = Ok b /\ loads cfg cd false b = Ok d /\ agrees cfg m d).
  { intros m Hm. destruct (c01_roundtrip cfg cd false m Hcfg Hcd Hm) as (b & d & H1 & H2 & H3 & H4).
    exists b, d. split; [exact H1|]. split; [exact H2|]. split; [exact H3|exact H4]. }
  destruct (ip_encode_all B Bpos maxlen maxlen_ok cfg cd RT ms Hms) as (bs & ds & Hd & Hl & Ha & Hwf).
  rewrite (ip_ipm_file B cfg cd blocked ms bs Hd) in Hfile. injection Hfile as Hfile. subst file.
  destruct (it_c09_ipm blocked bs ds k Hwf Hl Hk) as (e & He & Hs).
  exists bs, ds, e. split; [exact Hd|]. split; [exact Ha|]. cbv zeta.
  split; [|split; [exact He|exact Hs]].
  rewrite (it_Forall2_length _ _ _ Hd). apply it_prefix_length.
Qed.

End IpmTrunc.

(* ---------- the results used by props/C09ipm.v ---------- *)
Lemma c09_ipm_of_read (B : nat) (Bpos : 0 < B) (maxlen : N) : forall cfg cd f blocked rs e ds,
  read_all B maxlen f blocked = Ok (rs, e) ->
  Forall2 (fun r d => loads cfg cd false r = Ok d) rs ds ->
  iread_all B maxlen cfg cd f blocked = Ok (ds, e).
Proof. intros cfg cd. exact (it_iread_of_read B Bpos maxlen cfg cd). Qed.

Lemma c09_ipm (B : nat) (Bpos : 0 < B) (maxlen : N) (maxlen_ok : (maxlen < 2 ^ 32)%N) :
  forall cfg cd blocked bs ds k,
  Forall (wf_rec maxlen) bs ->
  Forall2 (fun b d => loads cfg cd false b = Ok d) bs ds ->
  let file := file_of (writer_run B blocked (map WWrite bs ++ [WClose])) in
  k <= length file ->
  exists e, iread_all B maxlen cfg cd (firstn k file) blocked
            = Ok (firstn (length (complete_prefix bs (if blocked then payload_len B k else k))) ds, e)
            /\ (e = End \/ exists n c, e = ErrData n c).
Proof. intros cfg cd. exact (it_c09_ipm B Bpos maxlen maxlen_ok cfg cd). Qed.

Lemma c09_ipm_written (B : nat) (Bpos : 0 < B) (maxlen : N) (maxlen_ok : (maxlen < 2 ^ 32)%N) :
  forall cfg cd blocked ms file k,
  wf_cfgb cfg = true -> codec_okb cd = true -> Forall (fits cfg cd maxlen) ms ->
  ipm_file B cfg cd blocked ms = Ok file ->
  k <= length file ->
  exists bs ds e,
    Forall2 (fun m b => dumps cfg cd false m = Ok b) ms bs /\
    Forall2 (agrees cfg) ms ds /\
    let j := length (complete_prefix bs (if blocked then payload_len B k else k)) in
    j <= length ms /\
    iread_all B maxlen cfg cd (firstn k file) blocked = Ok (firstn j ds, e) /\
    (e = End \/ exists n c, e = ErrData n c).
Proof. intros cfg cd. exact (it_c09_ipm_written B Bpos maxlen maxlen_ok cfg cd). Qed.
