(* IsoFraming.v — framing of decoded ISO8583 messages: what `loads` accepts is exactly one tiling of the
   message body by the flagged elements (C08), and what each element contributes to the dictionary (C16). *)
From Coq Require Import List Arith NArith ZArith Bool Lia.
From Coq Require Import Strings.Byte.
Require Import CU.model.Prim CU.model.Types CU.model.Unicode CU.model.Regex CU.model.Codec CU.model.Dates CU.model.Card CU.model.Iso CU.spec.IsoSpec.
Require Import CU.proofs.NumProofs.
Import ListNotations.
Open Scope nat_scope.

(* ====================================================================== the definitions of props/C08.v, C16.v *)
Definition hdr (hexbm : bool) : nat := if hexbm then 36 else 20.
Definition bitmap_of_msg (hexbm : bool) (b : bytes) : option bytes :=
  if hexbm then unhexlify (ascii_str (slice 4 36 b)) else Some (slice 4 20 b).

Definition elem_value (c : fieldcfg) (cd : codec) (raw : bytes) : result value :=
  match f_proc c with
  | PICC => Ok (VBytes raw)
  | p => do s0 <- decode cd raw;
         string_to_pytype (match p with PPAN => mask s0 star | PPANPREFIX => firstn 9 s0 | _ => s0 end) c
  end.

Definition declared (c : fieldcfg) (cd : codec) (data : bytes) (f : frame) : Prop :=
  fr_plen f = psize (f_type c) /\
  (psize (f_type c) = 0 -> f_len c = Some (fr_dlen f)) /\
  (0 < psize (f_type c) -> exists s, decode cd (slice (fr_off f) (fr_off f + fr_plen f) data) = Ok s /\
                                     py_int s = Some (Z.of_nat (fr_dlen f))).

Definition contributes (cfg : cfgT) (cd : codec) (data : bytes) (f : frame) (es : dict) : Prop :=
  exists c, cfg_get cfg (fr_bit f) = Some c /\
            iso_to_field (fr_bit f) c (skipn (fr_off f) data) cd = Ok (es, fr_plen f + fr_dlen f).

(* ====================================================================== generic helpers *)
Lemma if_bind_ok {A B} (r : result A) (k : A -> result B) b :
  bind r k = Ok b -> exists a, r = Ok a /\ k a = Ok b.
Proof. destruct r as [a|e| |]; cbn [bind]; intros H; try discriminate H. exists a. auto. Qed.

Lemma if_catch_ok {A} (r : result A) w e a : catch r w e = Ok a -> r = Ok a.
Proof.
  destruct r as [a0|e0| |]; cbn [catch]; intros H; try discriminate H; [exact H|].
  destruct (w e0); discriminate H.
Qed.

Lemma if_skipn_skipn {A} : forall a b (l : list A), skipn a (skipn b l) = skipn (b + a) l.
Proof.
  intros a b. induction b as [|b IH]; intros l; [reflexivity|].
  destruct l as [|x l]; [now rewrite !skipn_nil|]. cbn [skipn Nat.add]. apply IH.
Qed.

Lemma if_prefix_slice {A} n p (l : list A) : firstn n (skipn p l) = slice p (p + n) l.
Proof. unfold slice. f_equal. lia. Qed.

Lemma if_raw_slice {A} off ls fl (l : list A) :
  slice ls (ls + fl) (skipn off l) = slice (off + ls) (off + ls + fl) l.
Proof. unfold slice. rewrite if_skipn_skipn. f_equal. lia. Qed.

Lemma if_Forall2_impl {A B} (P Q : A -> B -> Prop) : (forall a b, P a b -> Q a b) ->
  forall l1 l2, Forall2 P l1 l2 -> Forall2 Q l1 l2.
Proof. intros H l1 l2 F. induction F; constructor; auto. Qed.

(* ====================================================================== keys and dictionaries *)
Lemma if_list_eqb_eq {A} (eqb : A -> A -> bool) (H : forall x y, eqb x y = true <-> x = y) :
  forall a b, list_eqb eqb a b = true <-> a = b.
Proof.
  induction a as [|x a IH]; intros [|y b]; cbn [list_eqb]; split; intros E;
    try reflexivity; try discriminate E.
  - apply andb_true_iff in E. destruct E as [E1 E2]. apply H in E1. apply IH in E2. congruence.
  - inversion E; subst. apply andb_true_iff. split; [apply H; reflexivity|apply IH; reflexivity].
Qed.

Lemma if_str_eqb_eq a b : str_eqb a b = true <-> a = b.
Proof. apply if_list_eqb_eq. intros x y. apply N.eqb_eq. Qed.

Lemma if_key_eqb_eq a b : key_eqb a b = true <-> a = b.
Proof.
  destruct a, b; cbn [key_eqb];
    try (split; intros E; (discriminate E || reflexivity)).
  - rewrite Nat.eqb_eq. split; congruence.
  - rewrite if_str_eqb_eq. split; congruence.
  - rewrite if_str_eqb_eq. split; congruence.
  - rewrite if_str_eqb_eq. split; congruence.
Qed.

Lemma if_lookup_dset d k v k' : lookup (dset d k v) k' = if key_eqb k k' then Some v else lookup d k'.
Proof.
  induction d as [|[k0 v0] r IH]; cbn [dset lookup]; [reflexivity|].
  destruct (key_eqb k0 k) eqn:E0.
  - apply if_key_eqb_eq in E0. subst k0. cbn [lookup]. destruct (key_eqb k k'); reflexivity.
  - cbn [lookup]. rewrite IH. destruct (key_eqb k0 k') eqn:E1; [|reflexivity].
    apply if_key_eqb_eq in E1. subst k0. destruct (key_eqb k k') eqn:E2; [|reflexivity].
    apply if_key_eqb_eq in E2. subst k'. rewrite (proj2 (if_key_eqb_eq k k) eq_refl) in E0. discriminate E0.
Qed.

Definition nokey (k : key) (es : dict) : Prop := Forall (fun kv => key_eqb (fst kv) k = false) es.

Lemma if_lookup_dupdate_other k : forall es d, nokey k es -> lookup (dupdate d es) k = lookup d k.
Proof.
  unfold dupdate, nokey. induction es as [|[k1 v1] es IH]; intros d H; cbn [fold_left]; [reflexivity|].
  inversion H as [|x l H1 H2]; subst. rewrite IH by exact H2. cbn [fst snd] in *.
  rewrite if_lookup_dset, H1. reflexivity.
Qed.

Lemma if_lookup_fold_other k : forall ess acc, Forall (nokey k) ess ->
  lookup (fold_left dupdate ess acc) k = lookup acc k.
Proof.
  induction ess as [|es ess IH]; intros acc H; cbn [fold_left]; [reflexivity|].
  inversion H as [|x l H1 H2]; subst. rewrite IH by exact H2. apply if_lookup_dupdate_other. exact H1.
Qed.

Lemma if_dupdate_head k0 v0 : forall sub r, Forall (fun kv => key_eqb k0 (fst kv) = false) sub ->
  dupdate ((k0, v0) :: r) sub = (k0, v0) :: dupdate r sub.
Proof.
  unfold dupdate. induction sub as [|[k v] sub IH]; intros r H; cbn [fold_left]; [reflexivity|].
  inversion H as [|x l H1 H2]; subst. cbn [fst snd] in *. cbn [dset]. rewrite H1. apply IH. exact H2.
Qed.

(* sub-element keys *)
Definition is_sub (k : key) : bool := match k with KPDS _ | KTAG _ | KICC | KOther _ => true | _ => false end.
Definition subkeys (d : dict) : Prop := Forall (fun kv => is_sub (fst kv) = true) d.

Lemma if_dset_sub d k v : subkeys d -> is_sub k = true -> subkeys (dset d k v).
Proof.
  unfold subkeys. induction d as [|[k0 v0] r IH]; intros Hd Hk; cbn [dset].
  - constructor; [exact Hk|constructor].
  - inversion Hd as [|x l H1 H2]; subst. destruct (key_eqb k0 k); constructor; auto.
Qed.

Lemma if_dupdate_sub : forall es d, subkeys d -> subkeys es -> subkeys (dupdate d es).
Proof.
  unfold dupdate. induction es as [|[k v] es IH]; intros d Hd He; cbn [fold_left]; [exact Hd|].
  inversion He as [|x l H1 H2]; subst. apply IH; [|exact H2]. apply if_dset_sub; assumption.
Qed.

Lemma if_sub_not_de k n : is_sub k = true -> key_eqb k (KDE n) = false.
Proof. destruct k; cbn [is_sub key_eqb]; intros H; try reflexivity; discriminate H. Qed.

Lemma if_de_not_sub k n : is_sub k = true -> key_eqb (KDE n) k = false.
Proof. destruct k; cbn [is_sub key_eqb]; intros H; try reflexivity; discriminate H. Qed.

Lemma if_pds_walk_sub : forall fuel fd ptr acc d, pds_walk fuel fd ptr acc = Ok d -> subkeys acc -> subkeys d.
Proof.
  induction fuel as [|k IH]; intros fd ptr acc d H Ha; cbn [pds_walk] in H; [discriminate H|].
  destruct (ptr <? length fd).
  - destruct (py_int (slice (ptr + 4) (ptr + 7) fd)) as [L|]; [|discriminate H].
    destruct (L <? 0)%Z; [discriminate H|].
    apply IH in H; [exact H|]. apply if_dset_sub; [exact Ha|reflexivity].
  - inversion H; subst. exact Ha.
Qed.

Lemma if_pds_to_dict_sub fd d : pds_to_dict fd = Ok d -> subkeys d.
Proof. intros H. apply if_pds_walk_sub in H; [exact H|constructor]. Qed.

Lemma if_icc_walk_sub : forall fuel fd ptr acc d, icc_walk fuel fd ptr acc = Ok d -> subkeys acc -> subkeys d.
Proof.
  induction fuel as [|k IH]; intros fd ptr acc d H Ha; cbn [icc_walk] in H; [discriminate H|].
  destruct (ptr <? length fd); [|inversion H; subst; exact Ha].
  destruct (match slice ptr (ptr + 1) fd with
            | [b] => if two_byte_prefix b then (slice ptr (ptr + 2) fd, ptr + 2) else (slice ptr (ptr + 1) fd, ptr + 1)
            | _ => (slice ptr (ptr + 1) fd, ptr + 1)
            end) as [tag ptr1].
  destruct (str_eqb (hexlify tag) [48; 48]%N); [inversion H; subst; exact Ha|].
  destruct (slice ptr1 (ptr1 + 1) fd) as [|lb [|x y]]; try discriminate H.
  apply IH in H; [exact H|]. apply if_dset_sub; [exact Ha|reflexivity].
Qed.

Lemma if_icc_to_dict_sub fd d : icc_to_dict fd = Ok d -> subkeys d.
Proof.
  intros H. apply if_icc_walk_sub in H; [exact H|]. constructor; [reflexivity|constructor].
Qed.

(* entries of one element: its own key first, then sub-element keys only *)
Lemma if_entries_shape bit v sub : subkeys sub ->
  exists rest, dupdate [(KDE bit, v)] sub = (KDE bit, v) :: rest /\ subkeys rest.
Proof.
  intros Hs. exists (dupdate [] sub). split.
  - apply if_dupdate_head. unfold subkeys in Hs. eapply Forall_impl; [|exact Hs].
    intros kv Hk. apply if_de_not_sub. exact Hk.
  - apply if_dupdate_sub; [constructor|exact Hs].
Qed.

(* ====================================================================== one element: _iso8583_to_field in two steps *)
Definition flen (c : fieldcfg) (D : bytes) (cd : codec) (fl0 : nat) : result nat :=
  let ls := psize (f_type c) in
  if 0 <? ls then
    do s <- catch (decode cd (firstn ls D)) (exn_eqb EUnicode) EData;
    match py_int s with
    | None => Raise EData
    | Some z => if (z <? 0)%Z then Raise EData else Ok (Z.to_nat z)
    end
  else Ok fl0.

Definition fbody (bit : nat) (c : fieldcfg) (D : bytes) (cd : codec) (fl : nat) : result (dict * nat) :=
  let ls := psize (f_type c) in
  let raw := slice ls (ls + fl) D in
  match f_proc c with
  | PICC =>
    match f_ptype c with
    | PTStr =>
      do sub <- icc_to_dict raw;
      Ok (dupdate [(KDE bit, VBytes raw)] sub, fl + ls)
    | _ => Unmodelled
    end
  | p =>
    do s0 <- catch (decode cd raw) (exn_eqb EUnicode) EData;
    let s := match p with PPAN => mask s0 star | PPANPREFIX => firstn 9 s0 | _ => s0 end in
    do v <- catch (string_to_pytype s c) is_valueerror EData;
    match p with
    | PPDS =>
      match v with
      | VStr t => do sub <- pds_to_dict t; Ok (dupdate [(KDE bit, v)] sub, fl + ls)
      | _ => Unmodelled
      end
    | PDE43 =>
      match v with
      | VStr t =>
        match de43_fields (f_de43 c) t with
        | Some gs => Ok (dupdate [(KDE bit, v)] (map (fun nv => (KOther (fst nv), VStr (snd nv))) gs), fl + ls)
        | None => Unmodelled
        end
      | _ => match f_de43 c with
             | D43None => Ok ([(KDE bit, v)], fl + ls)
             | _ => Raise EType
             end
      end
    | _ => Ok ([(KDE bit, v)], fl + ls)
    end
  end.

Lemma iso_to_field_eq bit c D cd : iso_to_field bit c D cd =
  match f_len c with
  | None => Raise EKey
  | Some fl0 => do fl <- flen c D cd fl0; fbody bit c D cd fl
  end.
Proof. reflexivity. Qed.

Lemma flen_ok c D cd fl0 fl : flen c D cd fl0 = Ok fl ->
  (psize (f_type c) = 0 -> fl0 = fl) /\
  (0 < psize (f_type c) -> exists s, decode cd (firstn (psize (f_type c)) D) = Ok s /\ py_int s = Some (Z.of_nat fl)).
Proof.
  unfold flen. intros H. destruct (0 <? psize (f_type c)) eqn:E.
  - apply Nat.ltb_lt in E. split; [lia|]. intros _.
    apply if_bind_ok in H. destruct H as (s & Hs & H). apply if_catch_ok in Hs.
    exists s. split; [exact Hs|]. destruct (py_int s) as [z|]; [|discriminate H].
    destruct (z <? 0)%Z eqn:Ez; [discriminate H|]. apply Z.ltb_ge in Ez.
    inversion H; subst. rewrite Z2Nat.id by exact Ez. reflexivity.
  - apply Nat.ltb_ge in E. inversion H; subst. split; [reflexivity|lia].
Qed.

Lemma flen_complete c D cd fl0 fl :
  (psize (f_type c) = 0 -> fl0 = fl) ->
  (0 < psize (f_type c) -> exists s, decode cd (firstn (psize (f_type c)) D) = Ok s /\ py_int s = Some (Z.of_nat fl)) ->
  flen c D cd fl0 = Ok fl.
Proof.
  unfold flen. intros H0 H1. destruct (0 <? psize (f_type c)) eqn:E.
  - apply Nat.ltb_lt in E. destruct (H1 E) as (s & Hs & Hi). rewrite Hs. cbn [catch bind]. rewrite Hi.
    replace (Z.of_nat fl <? 0)%Z with false by (symmetry; apply Z.ltb_ge; lia).
    rewrite Nat2Z.id. reflexivity.
  - apply Nat.ltb_ge in E. rewrite H0 by lia. reflexivity.
Qed.

(* what a successful body step returns *)
Lemma fbody_ok bit c D cd fl es inc : fbody bit c D cd fl = Ok (es, inc) ->
  inc = fl + psize (f_type c) /\
  exists v rest, es = (KDE bit, v) :: rest /\ subkeys rest /\
    elem_value c cd (slice (psize (f_type c)) (psize (f_type c) + fl) D) = Ok v /\
    (f_proc c <> PICC -> f_proc c <> PPDS -> f_proc c <> PDE43 -> rest = []).
Proof.
  unfold fbody, elem_value. set (raw := slice (psize (f_type c)) (psize (f_type c) + fl) D).
  intros H. destruct (f_proc c) eqn:EP.
  1, 2, 3:
    apply if_bind_ok in H; destruct H as (s0 & Hs & H); apply if_catch_ok in Hs;
    apply if_bind_ok in H; destruct H as (v & Hv & H); apply if_catch_ok in Hv;
    inversion H; subst; split; [reflexivity|]; exists v, []; rewrite Hs; cbn [bind];
    split; [reflexivity|]; split; [constructor|]; split; [exact Hv|reflexivity].
  - (* PICC *)
    destruct (f_ptype c); try discriminate H.
    apply if_bind_ok in H. destruct H as (sub & Hsub & H). inversion H; subst.
    split; [reflexivity|]. apply if_icc_to_dict_sub in Hsub.
    destruct (if_entries_shape bit (VBytes raw) sub Hsub) as (rest & Hr & Hk).
    exists (VBytes raw), rest. split; [exact Hr|]. split; [exact Hk|]. split; [reflexivity|]. congruence.
  - (* PPDS *)
    apply if_bind_ok in H. destruct H as (s0 & Hs & H). apply if_catch_ok in Hs.
    apply if_bind_ok in H. destruct H as (v & Hv & H). apply if_catch_ok in Hv.
    destruct v as [t|z|bb|dd]; try discriminate H.
    apply if_bind_ok in H. destruct H as (sub & Hsub & H). inversion H; subst.
    split; [reflexivity|]. apply if_pds_to_dict_sub in Hsub.
    destruct (if_entries_shape bit (VStr t) sub Hsub) as (rest & Hr & Hk).
    exists (VStr t), rest. split; [exact Hr|]. split; [exact Hk|]. rewrite Hs. cbn [bind].
    split; [exact Hv|]. congruence.
  - (* PDE43 *)
    apply if_bind_ok in H. destruct H as (s0 & Hs & H). apply if_catch_ok in Hs.
    apply if_bind_ok in H. destruct H as (v & Hv & H). apply if_catch_ok in Hv.
    rewrite Hs. cbn [bind].
    assert (Hplain : Ok ([(KDE bit, v)], fl + psize (f_type c)) = Ok (es, inc) ->
      inc = fl + psize (f_type c) /\
      exists v0 rest, es = (KDE bit, v0) :: rest /\ subkeys rest /\ string_to_pytype s0 c = Ok v0 /\
        (PDE43 <> PICC -> PDE43 <> PPDS -> PDE43 <> PDE43 -> rest = [])).
    { intros H'. inversion H'; subst. split; [reflexivity|]. exists v, [].
      split; [reflexivity|]. split; [constructor|]. split; [exact Hv|reflexivity]. }
    destruct v as [t|z|bb|dd].
    + destruct (de43_fields (f_de43 c) t) as [gs|]; [|discriminate H]. inversion H; subst.
      split; [reflexivity|].
      assert (Hsub : subkeys (map (fun nv : str * str => (KOther (fst nv), VStr (snd nv))) gs)).
      { unfold subkeys. apply Forall_forall. intros kv Hin. apply in_map_iff in Hin.
        destruct Hin as (nv & E & _). subst kv. reflexivity. }
      destruct (if_entries_shape bit (VStr t) _ Hsub) as (rest & Hr & Hk).
      exists (VStr t), rest. split; [exact Hr|]. split; [exact Hk|]. split; [exact Hv|]. congruence.
    + destruct (f_de43 c); try discriminate H; apply Hplain; exact H.
    + destruct (f_de43 c); try discriminate H; apply Hplain; exact H.
    + destruct (f_de43 c); try discriminate H; apply Hplain; exact H.
Qed.

(* a pattern inside the modelled fragment always splits (possibly into nothing) *)
Lemma if_de43_modelled d t : d <> D43Unsupported -> exists gs, de43_fields d t = Some gs.
Proof.
  intros H. destruct d as [|p|]; cbn [de43_fields]; [eexists; reflexivity| |contradiction H; reflexivity].
  destruct (re_match p t); eexists; reflexivity.
Qed.

(* and when the body step succeeds *)
Lemma fbody_complete bit c D cd fl v :
  elem_value c cd (slice (psize (f_type c)) (psize (f_type c) + fl) D) = Ok v ->
  match f_proc c, v with
  | PPDS, VStr t => exists sub, pds_to_dict t = Ok sub
  | PPDS, _ => False
  | PICC, VBytes r => f_ptype c = PTStr /\ exists sub, icc_to_dict r = Ok sub
  | PDE43, VStr _ => f_de43 c <> D43Unsupported
  | PDE43, _ => f_de43 c = D43None
  | _, _ => True
  end ->
  exists es, fbody bit c D cd fl = Ok (es, fl + psize (f_type c)).
Proof.
  unfold fbody, elem_value. set (raw := slice (psize (f_type c)) (psize (f_type c) + fl) D).
  intros H S. destruct (f_proc c) eqn:EP.
  1, 2, 3:
    apply if_bind_ok in H; destruct H as (s0 & Hs & H); rewrite Hs; cbn [catch bind];
    rewrite H; cbn [catch bind]; eexists; reflexivity.
  - inversion H; subst. destruct S as (Hp & sub & Hsub). rewrite Hp, Hsub. cbn [bind]. eexists; reflexivity.
  - apply if_bind_ok in H. destruct H as (s0 & Hs & H). rewrite Hs. cbn [catch bind].
    rewrite H. cbn [catch bind]. destruct v as [t|z|bb|dd]; try contradiction.
    destruct S as (sub & Hsub). rewrite Hsub. cbn [bind]. eexists; reflexivity.
  - apply if_bind_ok in H. destruct H as (s0 & Hs & H). rewrite Hs. cbn [catch bind].
    rewrite H. cbn [catch bind]. destruct v as [t|z|bb|dd]; try (rewrite S; eexists; reflexivity).
    destruct (if_de43_modelled (f_de43 c) t S) as (gs & Hgs). rewrite Hgs. eexists; reflexivity.
Qed.

(* ====================================================================== the element loop *)
Section Loop.
Variable cfg : cfgT.
Variable cd : codec.
Variable data : bytes.

(* a frame together with the entries its element produced *)
Definition field_rel (f : frame) (es : dict) : Prop :=
  exists c fl0, cfg_get cfg (fr_bit f) = Some c /\ f_len c = Some fl0 /\ fr_plen f = psize (f_type c) /\
    flen c (skipn (fr_off f) data) cd fl0 = Ok (fr_dlen f) /\
    fbody (fr_bit f) c (skipn (fr_off f) data) cd (fr_dlen f) = Ok (es, fr_dlen f + fr_plen f).

Lemma dec_fields_sound present : forall bits ptr acc d p,
  dec_fields cfg cd present bits data ptr acc = Ok (d, p) ->
  exists frames ess,
    map fr_bit frames = filter present bits /\ tiles frames ptr p /\
    Forall2 field_rel frames ess /\ d = fold_left dupdate ess acc.
Proof.
  induction bits as [|b bs IH]; intros ptr acc d p H; cbn [dec_fields] in H.
  - inversion H; subst. exists [], []. cbn [map filter tiles fold_left]. auto.
  - cbn [filter]. destruct (present b) eqn:Eb; [|apply IH; exact H].
    destruct (cfg_get cfg b) as [c|] eqn:Ec; [|discriminate H].
    apply if_bind_ok in H. destruct H as ([es inc] & Hf & H).
    rewrite iso_to_field_eq in Hf. destruct (f_len c) as [fl0|] eqn:El; [|discriminate Hf].
    apply if_bind_ok in Hf. destruct Hf as (fl & Hfl & Hb).
    destruct (fbody_ok _ _ _ _ _ _ _ Hb) as (Hinc & _). subst inc.
    apply IH in H. destruct H as (frames & ess & Hm & Ht & HF & Hd).
    exists (mkfr b ptr (psize (f_type c)) fl :: frames), (es :: ess).
    cbn [map fr_bit tiles fr_off fold_left]. split; [rewrite Hm; reflexivity|].
    split; [split; [reflexivity|]|].
    + unfold fr_end. cbn [fr_off fr_plen fr_dlen].
      replace (ptr + psize (f_type c) + fl) with (ptr + (fl + psize (f_type c))) by lia. exact Ht.
    + split; [|exact Hd]. constructor; [|exact HF].
      exists c, fl0. cbn [fr_bit fr_off fr_plen fr_dlen]. auto.
Qed.

Lemma dec_fields_complete present : forall bits frames ptr acc total,
  map fr_bit frames = filter present bits -> tiles frames ptr total ->
  Forall (fun f => exists c es, cfg_get cfg (fr_bit f) = Some c /\
            iso_to_field (fr_bit f) c (skipn (fr_off f) data) cd = Ok (es, fr_dlen f + fr_plen f)) frames ->
  exists d, dec_fields cfg cd present bits data ptr acc = Ok (d, total).
Proof.
  induction bits as [|b bs IH]; intros frames ptr acc total Hm Ht HF; cbn [dec_fields filter] in *.
  - destruct frames as [|f fr]; [|discriminate Hm]. cbn [tiles] in Ht. subst. eexists; reflexivity.
  - destruct (present b) eqn:Eb; [|eapply IH; eassumption].
    destruct frames as [|f fr]; [discriminate Hm|]. cbn [map] in Hm. injection Hm as Hb Hm'.
    cbn [tiles] in Ht. destruct Ht as [Ho Ht]. inversion HF as [|x l Hf HF']; subst x l.
    destruct Hf as (c & es & Hc & Hi). rewrite Hb in Hc, Hi. rewrite Ho in Hi. rewrite Hc, Hi. cbn [bind].
    eapply IH; [exact Hm'| |exact HF'].
    unfold fr_end in Ht. rewrite Ho in Ht.
    replace (ptr + (fr_dlen f + fr_plen f)) with (ptr + fr_plen f + fr_dlen f) by lia. exact Ht.
Qed.

(* facts about one decoded element *)
Lemma field_rel_facts f es : field_rel f es ->
  exists c v rest, cfg_get cfg (fr_bit f) = Some c /\ declared c cd data f /\
    elem_value c cd (slice (fr_off f + fr_plen f) (fr_end f) data) = Ok v /\
    es = (KDE (fr_bit f), v) :: rest /\ subkeys rest /\
    (f_proc c <> PICC -> f_proc c <> PPDS -> f_proc c <> PDE43 -> rest = []).
Proof.
  intros (c & fl0 & Hc & Hl & Hp & Hfl & Hb).
  destruct (fbody_ok _ _ _ _ _ _ _ Hb) as (_ & v & rest & He & Hs & Hv & Hr).
  destruct (flen_ok _ _ _ _ _ Hfl) as (H0 & H1).
  exists c, v, rest. split; [exact Hc|]. split; [|split; [|auto]].
  - unfold declared. split; [exact Hp|]. split.
    + intros Z. rewrite Hl, (H0 Z). reflexivity.
    + intros Z. destruct (H1 Z) as (s & Hs1 & Hs2). exists s. split; [|exact Hs2].
      rewrite Hp, <- if_prefix_slice. exact Hs1.
  - rewrite if_raw_slice in Hv. unfold fr_end. rewrite Hp. exact Hv.
Qed.

Lemma field_rel_contributes f es : field_rel f es -> contributes cfg cd data f es.
Proof.
  intros (c & fl0 & Hc & Hl & Hp & Hfl & Hb). exists c. split; [exact Hc|].
  rewrite iso_to_field_eq, Hl, Hfl. cbn [bind]. rewrite Hb. rewrite (Nat.add_comm (fr_dlen f)). reflexivity.
Qed.

(* later elements leave the entry of an earlier element alone *)
Lemma if_tail_nokey bit : forall frames ess, Forall2 field_rel frames ess -> ~ In bit (map fr_bit frames) ->
  Forall (nokey (KDE bit)) ess.
Proof.
  intros frames ess F. induction F as [|f es frames ess Hf F IH]; intros Hn; constructor.
  - destruct (field_rel_facts f es Hf) as (c & v & rest & _ & _ & _ & He & Hs & _). subst es.
    constructor.
    + cbn [fst key_eqb]. apply Nat.eqb_neq. intros E. apply Hn. left. exact E.
    + eapply Forall_impl; [|exact Hs]. intros kv Hk. apply if_sub_not_de. exact Hk.
  - apply IH. intros Hi. apply Hn. right. exact Hi.
Qed.

Lemma if_final_lookup : forall frames ess, Forall2 field_rel frames ess -> NoDup (map fr_bit frames) ->
  forall acc, Forall (fun f => exists c v, cfg_get cfg (fr_bit f) = Some c /\ declared c cd data f /\
                        elem_value c cd (slice (fr_off f + fr_plen f) (fr_end f) data) = Ok v /\
                        lookup (fold_left dupdate ess acc) (KDE (fr_bit f)) = Some v) frames.
Proof.
  intros frames ess F. induction F as [|f es frames ess Hf F IH]; intros Hn acc; constructor.
  - cbn [map] in Hn. inversion Hn as [|x l Hx Hl]; subst x l.
    destruct (field_rel_facts f es Hf) as (c & v & rest & Hc & Hd & Hv & He & Hs & _).
    exists c, v. split; [exact Hc|]. split; [exact Hd|]. split; [exact Hv|].
    cbn [fold_left]. rewrite (if_lookup_fold_other _ ess) by (eapply if_tail_nokey; eassumption).
    subst es. unfold dupdate at 1. cbn [fold_left fst snd].
    fold (dupdate (dset acc (KDE (fr_bit f)) v) rest).
    rewrite if_lookup_dupdate_other.
    + rewrite if_lookup_dset. cbn [key_eqb]. rewrite Nat.eqb_refl. reflexivity.
    + eapply Forall_impl; [|exact Hs]. intros kv Hk. apply if_sub_not_de. exact Hk.
  - cbn [map] in Hn. inversion Hn as [|x l Hx Hl]; subst x l. cbn [fold_left]. apply IH. exact Hl.
Qed.

End Loop.

(* ====================================================================== loads *)
Lemma if_present_bit_set bm : filter (fun b => nth (b - 1) (bits_of_bytes bm) false) bit_range
                             = filter (bit_set bm) bit_range.
Proof.
  apply filter_ext_in. intros a Ha. unfold bit_range in Ha. apply in_seq in Ha.
  apply nth_bits_bit_set. lia.
Qed.

Lemma loads_inv cfg cd hexbm b d : loads cfg cd hexbm b = Ok d ->
  exists bm mti frames ess,
    hdr hexbm <= length b /\
    bitmap_of_msg hexbm b = Some bm /\
    map fr_bit frames = filter (bit_set bm) bit_range /\
    tiles frames 0 (length (skipn (hdr hexbm) b)) /\
    Forall2 (field_rel cfg cd (skipn (hdr hexbm) b)) frames ess /\
    d = fold_left dupdate ess [(KMTI, VStr mti)].
Proof.
  unfold loads. fold (hdr hexbm). intros H.
  destruct (length b <? hdr hexbm) eqn:EL; [discriminate H|]. apply Nat.ltb_ge in EL.
  apply if_bind_ok in H. destruct H as (bm & Hbm & H).
  apply if_bind_ok in H. destruct H as (mti & Hmti & H).
  destruct (py_int mti) as [z|]; [|discriminate H].
  apply if_bind_ok in H. destruct H as ([d' p] & Hd & H).
  destruct (Nat.eqb p (length (skipn (hdr hexbm) b))) eqn:Ep; [|discriminate H].
  apply Nat.eqb_eq in Ep. inversion H; subst d'.
  apply dec_fields_sound in Hd. destruct Hd as (frames & ess & Hm & Ht & HF & Hdd).
  exists bm, mti, frames, ess. split; [exact EL|]. split.
  - unfold bitmap_of_msg. destruct hexbm.
    + destruct (unhexlify (ascii_str (slice 4 36 b))); inversion Hbm; reflexivity.
    + inversion Hbm; reflexivity.
  - split; [rewrite Hm; apply if_present_bit_set|]. split; [rewrite <- Ep; exact Ht|]. split; [exact HF|exact Hdd].
Qed.

Lemma if_bits_nodup bm : NoDup (filter (bit_set bm) bit_range).
Proof. apply NoDup_filter. apply seq_NoDup. Qed.

(* ---------- C08 ---------- *)
Lemma c08_sound : forall cfg cd hexbm b d, loads cfg cd hexbm b = Ok d ->
  exists bm frames,
    let data := skipn (hdr hexbm) b in
    bitmap_of_msg hexbm b = Some bm /\
    map fr_bit frames = filter (bit_set bm) bit_range /\
    tiles frames 0 (length data) /\
    Forall (fun f => exists c v, cfg_get cfg (fr_bit f) = Some c /\ declared c cd data f /\
                      elem_value c cd (slice (fr_off f + fr_plen f) (fr_end f) data) = Ok v /\
                      lookup d (KDE (fr_bit f)) = Some v) frames.
Proof.
  intros cfg cd hexbm b d H.
  destruct (loads_inv _ _ _ _ _ H) as (bm & mti & frames & ess & _ & Hbm & Hm & Ht & HF & Hd).
  exists bm, frames. cbv zeta. split; [exact Hbm|]. split; [exact Hm|]. split; [exact Ht|].
  subst d. apply if_final_lookup; [exact HF|]. rewrite Hm. apply if_bits_nodup.
Qed.

Lemma if_tiles_le : forall fs start total, tiles fs start total -> start <= total.
Proof.
  induction fs as [|f r IH]; intros start total H; cbn [tiles] in H.
  - subst. apply le_n.
  - destruct H as [Ho H]. apply IH in H. unfold fr_end in H. lia.
Qed.

Lemma c08_inside : forall fs start total, tiles fs start total ->
  Forall (fun f => start <= fr_off f /\ fr_end f <= total) fs.
Proof.
  induction fs as [|f r IH]; intros start total H; cbn [tiles] in H; constructor.
  - destruct H as [Ho H]. apply if_tiles_le in H. lia.
  - destruct H as [Ho H]. apply IH in H. eapply Forall_impl; [|exact H].
    intros g [G1 G2]. unfold fr_end in G1. split; [lia|exact G2].
Qed.

Lemma if_field_complete cfg cd data f :
  (forall n c, cfg_get cfg n = Some c -> f_len c <> None) ->
  (exists c v, cfg_get cfg (fr_bit f) = Some c /\ declared c cd data f /\
               elem_value c cd (slice (fr_off f + fr_plen f) (fr_end f) data) = Ok v /\
               match f_proc c, v with
               | PPDS, VStr t => exists sub, pds_to_dict t = Ok sub
               | PPDS, _ => False
               | PICC, VBytes r => f_ptype c = PTStr /\ exists sub, icc_to_dict r = Ok sub
               | PDE43, VStr _ => f_de43 c <> D43Unsupported
               | PDE43, _ => f_de43 c = D43None
               | _, _ => True
               end) ->
  exists c es, cfg_get cfg (fr_bit f) = Some c /\
               iso_to_field (fr_bit f) c (skipn (fr_off f) data) cd = Ok (es, fr_dlen f + fr_plen f).
Proof.
  intros HL (c & v & Hc & (Hp & H0 & H1) & Hv & Hs).
  destruct (f_len c) as [fl0|] eqn:El; [|exfalso; eapply HL; eassumption].
  assert (Hfl : flen c (skipn (fr_off f) data) cd fl0 = Ok (fr_dlen f)).
  { apply flen_complete.
    - intros Z. specialize (H0 Z). congruence.
    - intros Z. destruct (H1 Z) as (s & Hs1 & Hs2). exists s. split; [|exact Hs2].
      rewrite if_prefix_slice, <- Hp. exact Hs1. }
  unfold fr_end in Hv. rewrite Hp, <- if_raw_slice in Hv.
  destruct (fbody_complete (fr_bit f) c (skipn (fr_off f) data) cd (fr_dlen f) v Hv Hs) as (es & He).
  exists c, es. split; [exact Hc|]. rewrite iso_to_field_eq, El, Hfl. cbn [bind]. rewrite He, Hp. reflexivity.
Qed.

Lemma c08_complete : forall cfg cd hexbm b bm frames,
  (forall n c, cfg_get cfg n = Some c -> f_len c <> None) ->
  hdr hexbm <= length b ->
  bitmap_of_msg hexbm b = Some bm ->
  (exists s z, decode cd (firstn 4 b) = Ok s /\ py_int s = Some z) ->
  let data := skipn (hdr hexbm) b in
  map fr_bit frames = filter (bit_set bm) bit_range ->
  tiles frames 0 (length data) ->
  Forall (fun f => exists c v, cfg_get cfg (fr_bit f) = Some c /\ declared c cd data f /\
                    elem_value c cd (slice (fr_off f + fr_plen f) (fr_end f) data) = Ok v /\
                    match f_proc c, v with
                    | PPDS, VStr t => exists sub, pds_to_dict t = Ok sub
                    | PPDS, _ => False
                    | PICC, VBytes r => f_ptype c = PTStr /\ exists sub, icc_to_dict r = Ok sub
                    | PDE43, VStr _ => f_de43 c <> D43Unsupported
                    | PDE43, _ => f_de43 c = D43None
                    | _, _ => True
                    end) frames ->
  exists d, loads cfg cd hexbm b = Ok d.
Proof.
  intros cfg cd hexbm b bm frames HL Hlen Hbm (s & z & Hs & Hz) data Hm Ht HF.
  unfold loads. fold (hdr hexbm). fold data.
  replace (length b <? hdr hexbm) with false by (symmetry; apply Nat.ltb_ge; exact Hlen).
  assert (Eb : (if hexbm then match unhexlify (ascii_str (slice 4 36 b)) with
                              | Some b0 => Ok b0 | None => Raise EData end
                else Ok (slice 4 20 b)) = Ok bm).
  { unfold bitmap_of_msg in Hbm. destruct hexbm; [rewrite Hbm; reflexivity|inversion Hbm; reflexivity]. }
  rewrite Eb. cbn [bind]. rewrite Hs. cbn [catch bind]. rewrite Hz.
  rewrite <- if_present_bit_set in Hm.
  destruct (dec_fields_complete cfg cd data _ bit_range frames 0 [(KMTI, VStr s)] (length data) Hm Ht) as (d & Hd).
  { eapply Forall_impl; [|exact HF]. intros f Hf. apply if_field_complete; assumption. }
  rewrite Hd. cbn [bind]. rewrite Nat.eqb_refl. exists d. reflexivity.
Qed.

(* ---------- C16 (decoding half) ---------- *)
Lemma if_pan_entries cfg cd data f es : field_rel cfg cd data f es ->
  forall c, cfg_get cfg (fr_bit f) = Some c ->
  forall clear, decode cd (slice (fr_off f + fr_plen f) (fr_end f) data) = Ok clear ->
  (f_proc c = PPAN -> f_ptype c = PTStr -> es = [(KDE (fr_bit f), VStr (mask clear star))]) /\
  (f_proc c = PPANPREFIX -> f_ptype c = PTStr -> es = [(KDE (fr_bit f), VStr (firstn 9 clear))]).
Proof.
  intros Hf c Hc clear Hd.
  destruct (field_rel_facts _ _ _ _ _ Hf) as (c' & v & rest & Hc' & _ & Hv & He & _ & Hr).
  rewrite Hc in Hc'. inversion Hc'; subst c'. unfold elem_value in Hv.
  split; intros Hp Ht; rewrite Hp in Hv, Hr; rewrite Hd in Hv; cbn [bind] in Hv;
    unfold string_to_pytype in Hv; rewrite Ht in Hv; inversion Hv; subst v;
    rewrite He, Hr by discriminate; reflexivity.
Qed.

(* the same for ANY python type of the element: the entry is the typed conversion of the MASKED text (of the prefix),
   never of the clear value - when that conversion fails (a masked value is not a number) decoding fails *)
Lemma if_pan_entries_typed cfg cd data f es : field_rel cfg cd data f es ->
  forall c, cfg_get cfg (fr_bit f) = Some c ->
  forall clear, decode cd (slice (fr_off f + fr_plen f) (fr_end f) data) = Ok clear ->
  (f_proc c = PPAN -> exists v, string_to_pytype (mask clear star) c = Ok v /\ es = [(KDE (fr_bit f), v)]) /\
  (f_proc c = PPANPREFIX -> exists v, string_to_pytype (firstn 9 clear) c = Ok v /\ es = [(KDE (fr_bit f), v)]).
Proof.
  intros Hf c Hc clear Hd.
  destruct (field_rel_facts _ _ _ _ _ Hf) as (c' & v & rest & Hc' & _ & Hv & He & _ & Hr).
  rewrite Hc in Hc'. inversion Hc'; subst c'. unfold elem_value in Hv.
  split; intros Hp; rewrite Hp in Hv, Hr; rewrite Hd in Hv; cbn [bind] in Hv;
    exists v; (split; [exact Hv | rewrite He, Hr by discriminate; reflexivity]).
Qed.

Lemma c16_decode_typed : forall cfg cd hexbm b d, loads cfg cd hexbm b = Ok d ->
  exists mti frames ess,
    let data := skipn (if hexbm then 36 else 20) b in
    tiles frames 0 (length data) /\
    d = fold_left dupdate ess [(KMTI, VStr mti)] /\
    Forall2 (fun f es => forall c, cfg_get cfg (fr_bit f) = Some c ->
               forall clear, decode cd (slice (fr_off f + fr_plen f) (fr_end f) data) = Ok clear ->
               (f_proc c = PPAN -> exists v, string_to_pytype (mask clear star) c = Ok v /\ es = [(KDE (fr_bit f), v)]) /\
               (f_proc c = PPANPREFIX -> exists v, string_to_pytype (firstn 9 clear) c = Ok v /\ es = [(KDE (fr_bit f), v)])) frames ess.
Proof.
  intros cfg cd hexbm b d H.
  destruct (loads_inv _ _ _ _ _ H) as (bm & mti & frames & ess & _ & _ & _ & Ht & HF & Hd).
  exists mti, frames, ess. cbv zeta. fold (hdr hexbm).
  split; [exact Ht|]. split; [exact Hd|].
  eapply if_Forall2_impl; [|exact HF]. intros f es. apply if_pan_entries_typed.
Qed.

Lemma c16_decode : forall cfg cd hexbm b d, loads cfg cd hexbm b = Ok d ->
  exists mti frames ess,
    let data := skipn (if hexbm then 36 else 20) b in
    tiles frames 0 (length data) /\
    Forall2 (contributes cfg cd data) frames ess /\
    d = fold_left dupdate ess [(KMTI, VStr mti)] /\
    Forall2 (fun f es => forall c, cfg_get cfg (fr_bit f) = Some c ->
               forall clear, decode cd (slice (fr_off f + fr_plen f) (fr_end f) data) = Ok clear ->
               (f_proc c = PPAN -> f_ptype c = PTStr -> es = [(KDE (fr_bit f), VStr (mask clear star))]) /\
               (f_proc c = PPANPREFIX -> f_ptype c = PTStr -> es = [(KDE (fr_bit f), VStr (firstn 9 clear))])) frames ess.
Proof.
  intros cfg cd hexbm b d H.
  destruct (loads_inv _ _ _ _ _ H) as (bm & mti & frames & ess & _ & _ & _ & Ht & HF & Hd).
  exists mti, frames, ess. cbv zeta. fold (hdr hexbm).
  split; [exact Ht|]. split; [|split; [exact Hd|]].
  - eapply if_Forall2_impl; [|exact HF]. intros f es. apply field_rel_contributes.
  - eapply if_Forall2_impl; [|exact HF]. intros f es. apply if_pan_entries.
Qed.
