(* IsoNoInvention.v — every entry of a decoded dictionary is the MTI or was contributed by one of the flagged elements
   (C08 "never mis-frames", C02 decode direction: nothing is invented). *)
From Coq Require Import List Arith NArith ZArith Bool.
Require Import CU.model.Prim CU.model.Types CU.model.Unicode CU.model.Codec CU.model.Dates CU.model.Card CU.model.Iso CU.spec.IsoSpec.
Require Import CU.proofs.IsoFraming CU.proofs.IsoRoundtrip.
Import ListNotations.

Lemma ni_in_fold_dupdate : forall (ess : list dict) (acc : dict) (x : key * value),
  In x (fold_left dupdate ess acc) -> In x acc \/ exists es, In es ess /\ In x es.
Proof.
  induction ess as [|es ess IH]; intros acc x H; cbn [fold_left] in H; [left; exact H|].
  destruct (IH _ _ H) as [H1|[es' [H1 H2]]].
  - destruct (ir_in_dupdate es acc x H1) as [H2|H2]; [left; exact H2|].
    right. exists es. split; [left; reflexivity|exact H2].
  - right. exists es'. split; [right; exact H1|exact H2].
Qed.

(* contributes as in props/C16.v *)
Definition ni_contributes (cfg : cfgT) (cd : codec) (data : bytes) (f : frame) (es : dict) : Prop :=
  exists c, cfg_get cfg (fr_bit f) = Some c /\
            iso_to_field (fr_bit f) c (skipn (fr_off f) data) cd = Ok (es, fr_plen f + fr_dlen f).

Lemma c08_nothing_invented : forall cfg cd hexbm b d, loads cfg cd hexbm b = Ok d ->
  exists mti frames ess,
    let data := skipn (if hexbm then 36 else 20) b in
    tiles frames 0 (length data) /\
    Forall2 (ni_contributes cfg cd data) frames ess /\
    forall k v, lookup d k = Some v ->
      (k = KMTI /\ v = VStr mti) \/ exists es, In es ess /\ In (k, v) es.
Proof.
  intros cfg cd hexbm b d H.
  destruct (c16_decode cfg cd hexbm b d H) as (mti & frames & ess & Ht & Hc & Hd & _).
  exists mti, frames, ess. cbv zeta in *. split; [exact Ht|]. split; [exact Hc|].
  intros k v Hl. apply ir_lookup_in in Hl. rewrite Hd in Hl.
  destruct (ni_in_fold_dupdate ess _ _ Hl) as [H1|H1].
  - left. destruct H1 as [H1|[]]. inversion H1. split; reflexivity.
  - right. exact H1.
Qed.
