(* IsoRoundtrip.v — C01: decoding an encoded ISO8583 message returns every original key with its value
   (masked / prefixed for the PAN processors) and only documented derived keys besides. *)
From Coq Require Import List NArith ZArith Bool Arith Lia ZifyBool ZifyNat ZifyN.
From Coq Require Import Sorting.Permutation Sorting.Sorted.
From Coq Require Import Strings.Byte.
Require Import CU.model.Prim CU.model.Types CU.model.Unicode CU.model.Regex CU.model.Codec CU.model.Card CU.model.Dates CU.model.Iso.
Require Import CU.model.Dec.
Require Import CU.spec.IsoSpec CU.proofs.NumProofs CU.proofs.PdsProofs CU.proofs.DecProofs.
Require CU.gen.GenConfig CU.gen.GenCodec.
Import ListNotations.
Open Scope nat_scope.

(* ====================================================================== lists *)

Lemma ir_firstn_exact : forall {A} n (a b : list A), length a = n -> firstn n (a ++ b) = a.
Proof. intros A n a b H. subst n. rewrite firstn_app, firstn_all, Nat.sub_diag. cbn [firstn]. apply app_nil_r. Qed.

Lemma ir_skipn_exact : forall {A} n (a b : list A), length a = n -> skipn n (a ++ b) = b.
Proof. intros A n a b H. subst n. rewrite skipn_app, skipn_all, Nat.sub_diag. reflexivity. Qed.

Lemma ir_slice_exact : forall {A} n k (a b c : list A), length a = n -> length b = k ->
  slice n (n + k) (a ++ b ++ c) = b.
Proof.
  intros A n k a b c Ha Hb. unfold slice. rewrite (ir_skipn_exact n a _ Ha).
  replace (n + k - n) with k by lia. apply ir_firstn_exact. exact Hb.
Qed.

(* ====================================================================== keys and dictionaries *)

Lemma ir_str_eqb_eq : forall s t, str_eqb s t = true <-> s = t.
Proof.
  unfold str_eqb.
  induction s as [|a s IH]; intros [|b t]; cbn [list_eqb]; split; intro H;
    try discriminate; try reflexivity.
  - apply andb_true_iff in H. destruct H as [H1 H2]. apply N.eqb_eq in H1. apply IH in H2.
    subst. reflexivity.
  - inversion H; subst. rewrite N.eqb_refl. cbn [andb]. apply IH. reflexivity.
Qed.

Lemma ir_key_eqb_eq : forall a b, key_eqb a b = true <-> a = b.
Proof.
  intros a b. destruct a, b; cbn [key_eqb]; split; intro H; try discriminate; try reflexivity.
  - apply Nat.eqb_eq in H. subst. reflexivity.
  - inversion H; subst. apply Nat.eqb_refl.
  - apply ir_str_eqb_eq in H. subst. reflexivity.
  - inversion H; subst. apply ir_str_eqb_eq. reflexivity.
  - apply ir_str_eqb_eq in H. subst. reflexivity.
  - inversion H; subst. apply ir_str_eqb_eq. reflexivity.
  - apply ir_str_eqb_eq in H. subst. reflexivity.
  - inversion H; subst. apply ir_str_eqb_eq. reflexivity.
Qed.

Lemma ir_key_eqb_refl : forall a, key_eqb a a = true.
Proof. intros a. apply ir_key_eqb_eq. reflexivity. Qed.

Lemma ir_key_eqb_neq : forall a b, a <> b -> key_eqb a b = false.
Proof.
  intros a b H. destruct (key_eqb a b) eqn:E; [|reflexivity].
  apply ir_key_eqb_eq in E. contradiction.
Qed.

Lemma ir_lookup_in : forall d k v, lookup d k = Some v -> In (k, v) d.
Proof.
  induction d as [|[k' v'] r IH]; intros k v H; cbn [lookup] in H; [discriminate|].
  destruct (key_eqb k' k) eqn:E.
  - apply ir_key_eqb_eq in E. inversion H; subst. left. reflexivity.
  - right. apply IH. exact H.
Qed.

Lemma ir_lookup_unique : forall d k v, In (k, v) d -> (forall v', In (k, v') d -> v' = v) ->
  lookup d k = Some v.
Proof.
  induction d as [|[k' v'] r IH]; intros k v Hin Hu; [destruct Hin|].
  cbn [lookup]. destruct (key_eqb k' k) eqn:E.
  - apply ir_key_eqb_eq in E. subst k'. f_equal. apply Hu. left. reflexivity.
  - apply IH.
    + destruct Hin as [Hin|Hin]; [|exact Hin]. inversion Hin; subst.
      rewrite ir_key_eqb_refl in E. discriminate.
    + intros v'' H. apply Hu. right. exact H.
Qed.

Lemma ir_lookup_notin : forall d k, (forall v, ~ In (k, v) d) -> lookup d k = None.
Proof.
  intros d k H. destruct (lookup d k) as [v|] eqn:E; [|reflexivity].
  apply ir_lookup_in in E. exfalso. exact (H v E).
Qed.

Lemma ir_in_lookup : forall d k v, In (k, v) d -> lookup d k <> None.
Proof.
  induction d as [|[k' v'] r IH]; intros k v Hin; [destruct Hin|].
  cbn [lookup]. destruct (key_eqb k' k) eqn:E; [discriminate|].
  destruct Hin as [Hin|Hin].
  - inversion Hin; subst. rewrite ir_key_eqb_refl in E. discriminate.
  - apply (IH k v Hin).
Qed.

Lemma ir_lookup_app : forall a b k,
  lookup (a ++ b) k = match lookup a k with Some v => Some v | None => lookup b k end.
Proof.
  induction a as [|[k' v'] r IH]; intros b k; cbn [app lookup]; [reflexivity|].
  destruct (key_eqb k' k); [reflexivity|]. apply IH.
Qed.

Lemma ir_lookup_dset : forall d k v k',
  lookup (dset d k v) k' = if key_eqb k k' then Some v else lookup d k'.
Proof.
  induction d as [|[k0 v0] r IH]; intros k v k'; cbn [dset lookup].
  - destruct (key_eqb k k'); reflexivity.
  - destruct (key_eqb k0 k) eqn:E.
    + apply ir_key_eqb_eq in E. subst k0. cbn [lookup].
      destruct (key_eqb k k'); reflexivity.
    + cbn [lookup]. destruct (key_eqb k0 k') eqn:E2.
      * apply ir_key_eqb_eq in E2. subst k0.
        destruct (key_eqb k k') eqn:E3; [|reflexivity].
        apply ir_key_eqb_eq in E3. subst k'. rewrite ir_key_eqb_refl in E. discriminate.
      * apply IH.
Qed.

Lemma ir_in_dset : forall d k v x, In x (dset d k v) -> In x d \/ x = (k, v).
Proof.
  induction d as [|[k0 v0] r IH]; intros k v x H; cbn [dset] in H.
  - destruct H as [H|[]]. right. symmetry. exact H.
  - destruct (key_eqb k0 k) eqn:E.
    + apply ir_key_eqb_eq in E. subst k0. destruct H as [H|H].
      * right. symmetry. exact H.
      * left. right. exact H.
    + destruct H as [H|H].
      * left. left. exact H.
      * apply IH in H. destruct H as [H|H]; [left; right; exact H|right; exact H].
Qed.

Lemma ir_in_dupdate : forall e d x, In x (dupdate d e) -> In x d \/ In x e.
Proof.
  unfold dupdate.
  induction e as [|[k v] e IH]; intros d x H; cbn [fold_left] in H.
  - left. exact H.
  - apply IH in H. destruct H as [H|H].
    + cbn [fst snd] in H. apply ir_in_dset in H. destruct H as [H|H].
      * left. exact H.
      * right. left. symmetry. exact H.
    + right. right. exact H.
Qed.

Lemma ir_dupdate_app : forall d a b, dupdate (dupdate d a) b = dupdate d (a ++ b).
Proof. intros d a b. unfold dupdate. rewrite fold_left_app. reflexivity. Qed.

Lemma ir_dupdate_nil : forall d, dupdate d [] = d.
Proof. reflexivity. Qed.

Lemma ir_lookup_dupdate : forall e d k,
  lookup (dupdate d e) k = match lookup (rev e) k with Some v => Some v | None => lookup d k end.
Proof.
  unfold dupdate.
  induction e as [|[k0 v0] e IH]; intros d k; cbn [fold_left rev].
  - reflexivity.
  - rewrite IH. rewrite ir_lookup_app. cbn [fst snd].
    destruct (lookup (rev e) k) as [v|]; [reflexivity|].
    rewrite ir_lookup_dset. cbn [lookup]. destruct (key_eqb k0 k); reflexivity.
Qed.

(* a key bound to a single value among the updates ends up with that value *)
Lemma ir_lookup_dupdate_unique : forall e d k v, In (k, v) e -> (forall v', In (k, v') e -> v' = v) ->
  lookup (dupdate d e) k = Some v.
Proof.
  intros e d k v Hin Hu. rewrite ir_lookup_dupdate.
  rewrite (ir_lookup_unique (rev e) k v).
  - reflexivity.
  - apply in_rev in Hin. exact Hin.
  - intros v' H. apply in_rev in H. apply Hu. exact H.
Qed.

Lemma ir_lookup_dupdate_notin : forall e d k, (forall v, ~ In (k, v) e) ->
  lookup (dupdate d e) k = lookup d k.
Proof.
  intros e d k H. rewrite ir_lookup_dupdate. rewrite ir_lookup_notin; [reflexivity|].
  intros v Hv. apply in_rev in Hv. exact (H v Hv).
Qed.

(* ====================================================================== one element: framing *)

Definition ir_digits_enc (cd : codec) : Prop :=
  encodable cd (map dch [0; 1; 2; 3; 4; 5; 6; 7; 8; 9]%N) = true.

Lemma ir_encodable_digits : forall cd ds, ir_digits_enc cd -> Forall (fun d => (d < 10)%N) ds ->
  encodable cd (map dch ds) = true.
Proof.
  intros cd ds He Hd. unfold encodable. apply forallb_forall. intros ch Hin.
  apply in_map_iff in Hin. destruct Hin as [d [Hd1 Hd2]]. subst ch.
  rewrite Forall_forall in Hd. specialize (Hd d Hd2).
  unfold ir_digits_enc, encodable in He. rewrite forallb_forall in He. apply He.
  apply in_map. cbn [In]. lia.
Qed.

Lemma ir_ljust_exact : forall n s, length s = n -> ljust n s = s.
Proof.
  intros n s H. unfold ljust. subst n. rewrite firstn_all, Nat.sub_diag. cbn [repeat]. apply app_nil_r.
Qed.

(* the encoder on a rendered text *)
Definition ir_enc_str (c : fieldcfg) (s : str) (cd : codec) : result bytes :=
  let ls := psize (f_type c) in
  if 0 <? ls then
    let n := length s in
    if (10 ^ N.of_nat ls <=? N.of_nat n)%N then Raise EData
    else do p <- encode cd (fmt0 ls (N.of_nat n)); do b <- encode cd (ljust n s); Ok (p ++ b)
  else match f_len c with
       | Some n => encode cd (ljust n s)
       | None => Unmodelled
       end.

Definition ir_enc_bytes (c : fieldcfg) (b : bytes) (cd : codec) : result bytes :=
  let ls := psize (f_type c) in
  if 0 <? ls then
    let n := length b in
    if (10 ^ N.of_nat ls <=? N.of_nat n)%N then Raise EData
    else do p <- encode cd (fmt0 ls (N.of_nat n)); Ok (p ++ b)
  else match f_len c with
       | Some n => Ok (firstn n b)
       | None => Unmodelled
       end.

Lemma ir_field_to_iso_eq : forall c v cd,
  field_to_iso c v cd =
  do fv <- pytype_to_string v c;
  match fv with
  | VStr s => ir_enc_str c s cd
  | VBytes b => ir_enc_bytes c b cd
  | _ => Raise EType
  end.
Proof. reflexivity. Qed.

(* the decoder's length computation *)
Definition ir_dec_len (c : fieldcfg) (fl0 : nat) (data : bytes) (cd : codec) : result nat :=
  let ls := psize (f_type c) in
  if 0 <? ls then
    do s <- catch (decode cd (firstn ls data)) (exn_eqb EUnicode) EData;
    match py_int s with
    | None => Raise EData
    | Some z => if (z <? 0)%Z then Raise EData else Ok (Z.to_nat z)
    end
  else Ok fl0.

(* the entry a named group of the DE43 splitting pattern adds *)
Definition ir_d43_ent (nv : str * str) : key * value := (KOther (fst nv), VStr (snd nv)).

Definition ir_tail (bit : nat) (c : fieldcfg) (fl : nat) (data : bytes) (cd : codec) : result (dict * nat) :=
  let ls := psize (f_type c) in
  let raw := slice ls (ls + fl) data in
  match f_proc c with
  | PICC =>
    match f_ptype c with
    | PTStr =>
      do sub <- icc_to_dict raw;
      Ok (dupdate [(KDE bit, VBytes raw)] sub, fl + ls)
    | _ => Unmodelled
    end
  | p =>
    do s0 <- catch (decode cd raw) (exn_eqb EUnicode) EData;
    let s := match p with PPAN => mask s0 star | PPANPREFIX => firstn 9 s0 | _ => s0 end in
    do v <- catch (string_to_pytype s c) is_valueerror EData;
    match p with
    | PPDS =>
      match v with
      | VStr t => do sub <- pds_to_dict t; Ok (dupdate [(KDE bit, v)] sub, fl + ls)
      | _ => Unmodelled
      end
    | PDE43 =>
      match v with
      | VStr t =>
        match de43_fields (f_de43 c) t with
        | Some gs => Ok (dupdate [(KDE bit, v)] (map ir_d43_ent gs), fl + ls)
        | None => Unmodelled
        end
      | _ => match f_de43 c with
             | D43None => Ok ([(KDE bit, v)], fl + ls)
             | _ => Raise EType
             end
      end
    | _ => Ok ([(KDE bit, v)], fl + ls)
    end
  end.

Lemma ir_iso_to_field_eq : forall bit c data cd,
  iso_to_field bit c data cd =
  match f_len c with
  | None => Raise EKey
  | Some fl0 => do fl <- ir_dec_len c fl0 data cd; ir_tail bit c fl data cd
  end.
Proof. reflexivity. Qed.

(* the length prefix (empty for fixed-width elements) *)
Lemma ir_prefix : forall cd c fl0 n, codec_okb cd = true -> ir_digits_enc cd ->
  f_len c = Some fl0 -> len_okb c n = true ->
  exists p, length p = psize (f_type c) /\
    (if 0 <? psize (f_type c)
     then (10 ^ N.of_nat (psize (f_type c)) <=? N.of_nat n)%N = false /\
          encode cd (fmt0 (psize (f_type c)) (N.of_nat n)) = Ok p
     else p = [] /\ fl0 = n) /\
    forall tail, ir_dec_len c fl0 (p ++ tail) cd = Ok n.
Proof.
  intros cd c fl0 n Hcd Hdig Hfl Hlen. unfold len_okb in Hlen. unfold ir_dec_len.
  assert (Hvar : forall ls, 0 < ls -> (N.of_nat n < 10 ^ N.of_nat ls)%N ->
    exists p, length p = ls /\
      ((10 ^ N.of_nat ls <=? N.of_nat n)%N = false /\ encode cd (fmt0 ls (N.of_nat n)) = Ok p) /\
      forall tail,
        (do s <- catch (decode cd (firstn ls (p ++ tail))) (exn_eqb EUnicode) EData;
         match py_int s with
         | None => Raise EData
         | Some z => if (z <? 0)%Z then Raise EData else Ok (Z.to_nat z)
         end) = Ok n).
  { intros ls Hls Hn.
    assert (He : encodable cd (fmt0 ls (N.of_nat n)) = true).
    { rewrite fmt0_small by assumption. apply ir_encodable_digits; [exact Hdig|apply digs_lt10]. }
    apply encodable_encode in He. destruct He as [p Hp].
    assert (Hpl : length p = ls).
    { rewrite (encode_length _ _ _ Hp). apply fmt0_length_small; assumption. }
    exists p. split; [exact Hpl|]. split.
    - split; [|exact Hp]. apply N.leb_gt. exact Hn.
    - intros tail. rewrite (ir_firstn_exact ls p tail Hpl).
      rewrite (decode_encode cd _ _ Hcd Hp). cbn [catch bind].
      rewrite py_int_fmt0.
      assert (Hz : (Z.of_N (N.of_nat n) <? 0)%Z = false) by lia.
      rewrite Hz. f_equal. lia. }
  destruct (f_type c) eqn:Eft; cbn [is_var psize vmax] in *.
  - rewrite Hfl in Hlen. apply andb_true_iff in Hlen. destruct Hlen as [_ Hlen].
    apply Nat.eqb_eq in Hlen. exists []. change (0 <? 0) with false. cbn iota.
    split; [reflexivity|]. split; [split; [reflexivity|congruence]|]. intros tail. f_equal. congruence.
  - apply andb_true_iff in Hlen. destruct Hlen as [H1 H2].
    apply Nat.leb_le in H1, H2.
    destruct (Hvar 2) as [p [Hp1 [Hp2 Hp3]]]; [lia|rewrite pow10_2; lia|].
    exists p. change (0 <? 2) with true. cbn iota. auto.
  - apply andb_true_iff in Hlen. destruct Hlen as [H1 H2].
    apply Nat.leb_le in H1, H2.
    destruct (Hvar 3) as [p [Hp1 [Hp2 Hp3]]]; [lia|rewrite pow10_3; lia|].
    exists p. change (0 <? 3) with true. cbn iota. auto.
  - rewrite Hfl in Hlen. apply andb_true_iff in Hlen. destruct Hlen as [_ Hlen].
    apply Nat.eqb_eq in Hlen. exists []. change (0 <? 0) with false. cbn iota.
    split; [reflexivity|]. split; [split; [reflexivity|congruence]|]. intros tail. f_equal. congruence.
Qed.

(* a rendered text: encoded as prefix ++ text, and the decoder cuts exactly the text out again *)
Lemma ir_text_rt : forall cd c fl0 t, codec_okb cd = true -> ir_digits_enc cd ->
  f_len c = Some fl0 -> encodable cd t = true -> len_okb c (length t) = true ->
  exists e, ir_enc_str c t cd = Ok e /\ length e = length t + psize (f_type c) /\
    forall rest, ir_dec_len c fl0 (e ++ rest) cd = Ok (length t) /\
      decode cd (slice (psize (f_type c)) (psize (f_type c) + length t) (e ++ rest)) = Ok t.
Proof.
  intros cd c fl0 t Hcd Hdig Hfl Henc Hlen.
  destruct (ir_prefix cd c fl0 (length t) Hcd Hdig Hfl Hlen) as [p [Hp1 [Hp2 Hp3]]].
  apply encodable_encode in Henc. destruct Henc as [b Hb].
  pose proof (encode_length _ _ _ Hb) as Hbl.
  exists (p ++ b). unfold ir_enc_str. cbv zeta.
  destruct (0 <? psize (f_type c)) eqn:Els.
  - destruct Hp2 as [Hp2 Hp4]. rewrite Hp2, Hp4. cbn [bind].
    rewrite ir_ljust_exact by reflexivity. rewrite Hb. cbn [bind].
    split; [reflexivity|]. split; [rewrite app_length; lia|].
    intros rest. rewrite <- app_assoc. split; [apply Hp3|].
    rewrite (ir_slice_exact _ _ p b rest Hp1 Hbl). apply (decode_encode cd _ _ Hcd Hb).
  - destruct Hp2 as [Hp2 Hp4]. rewrite Hfl. subst fl0. rewrite ir_ljust_exact by reflexivity.
    subst p. cbn [app]. split; [exact Hb|]. split; [lia|].
    intros rest. split; [apply (Hp3 (b ++ rest))|].
    cbn [length] in Hp1. rewrite <- Hp1.
    pose proof (ir_slice_exact 0 (length t) [] b rest eq_refl Hbl) as Hs. cbn [app] in Hs.
    rewrite Hs. apply (decode_encode cd _ _ Hcd Hb).
Qed.

(* raw bytes (ICC data): prefix ++ bytes, cut out unchanged *)
Lemma ir_bytes_rt : forall cd c fl0 b, codec_okb cd = true -> ir_digits_enc cd ->
  f_len c = Some fl0 -> len_okb c (length b) = true ->
  exists e, ir_enc_bytes c b cd = Ok e /\ length e = length b + psize (f_type c) /\
    forall rest, ir_dec_len c fl0 (e ++ rest) cd = Ok (length b) /\
      slice (psize (f_type c)) (psize (f_type c) + length b) (e ++ rest) = b.
Proof.
  intros cd c fl0 b Hcd Hdig Hfl Hlen.
  destruct (ir_prefix cd c fl0 (length b) Hcd Hdig Hfl Hlen) as [p [Hp1 [Hp2 Hp3]]].
  exists (p ++ b). unfold ir_enc_bytes. cbv zeta.
  destruct (0 <? psize (f_type c)) eqn:Els.
  - destruct Hp2 as [Hp2 Hp4]. rewrite Hp2, Hp4. cbn [bind].
    split; [reflexivity|]. split; [rewrite app_length; lia|].
    intros rest. rewrite <- app_assoc. split; [apply Hp3|].
    apply (ir_slice_exact _ _ p b rest Hp1 eq_refl).
  - destruct Hp2 as [Hp2 Hp4]. rewrite Hfl. subst fl0. rewrite firstn_all.
    subst p. cbn [app]. split; [reflexivity|]. split; [lia|].
    intros rest. split; [apply (Hp3 (b ++ rest))|].
    cbn [length] in Hp1. rewrite <- Hp1.
    apply (ir_slice_exact 0 (length b) [] b rest eq_refl eq_refl).
Qed.

(* ====================================================================== sub-element keys *)

Definition ir_tag_key (k : key) : bool := match k with KTAG _ | KICC => true | _ => false end.

Lemma ir_pds_walk_keys : forall fuel fd ptr acc d, pds_walk fuel fd ptr acc = Ok d ->
  forall k v, In (k, v) d -> In (k, v) acc \/ is_pds_key k = true.
Proof.
  induction fuel as [|fuel IH]; intros fd ptr acc d H k v Hin; cbn [pds_walk] in H; [discriminate|].
  destruct (ptr <? length fd).
  - destruct (py_int (slice (ptr + 4) (ptr + 7) fd)) as [L|]; [|discriminate].
    destruct (L <? 0)%Z; [discriminate|].
    destruct (IH _ _ _ _ H k v Hin) as [Hi|Hi]; [|right; exact Hi].
    apply ir_in_dset in Hi. destruct Hi as [Hi|Hi]; [left; exact Hi|].
    right. inversion Hi; subst. reflexivity.
  - inversion H; subst. left. exact Hin.
Qed.

Lemma ir_pds_to_dict_keys : forall s d, pds_to_dict s = Ok d ->
  forall k v, In (k, v) d -> is_pds_key k = true.
Proof.
  intros s d H k v Hin. unfold pds_to_dict in H.
  destruct (ir_pds_walk_keys _ _ _ _ _ H k v Hin) as [[]|Hk]. exact Hk.
Qed.

Lemma ir_icc_walk_keys : forall fuel fd ptr acc d, icc_walk fuel fd ptr acc = Ok d ->
  forall k v, In (k, v) d -> In (k, v) acc \/ ir_tag_key k = true.
Proof.
  induction fuel as [|fuel IH]; intros fd ptr acc d H k v Hin; cbn [icc_walk] in H; [discriminate|].
  destruct (ptr <? length fd).
  - destruct (match slice ptr (ptr + 1) fd with
              | [b] => if two_byte_prefix b then (slice ptr (ptr + 2) fd, ptr + 2) else (slice ptr (ptr + 1) fd, ptr + 1)
              | _ => (slice ptr (ptr + 1) fd, ptr + 1)
              end) as [tag ptr1].
    destruct (str_eqb (hexlify tag) [48%N; 48%N]).
    + inversion H; subst. left. exact Hin.
    + destruct (slice ptr1 (ptr1 + 1) fd) as [|lb [|lb2 r]]; try discriminate.
      destruct (IH _ _ _ _ H k v Hin) as [Hi|Hi]; [|right; exact Hi].
      apply ir_in_dset in Hi. destruct Hi as [Hi|Hi]; [left; exact Hi|].
      right. inversion Hi; subst. reflexivity.
  - inversion H; subst. left. exact Hin.
Qed.

Lemma ir_icc_to_dict_keys : forall b d, icc_to_dict b = Ok d ->
  forall k v, In (k, v) d -> ir_tag_key k = true.
Proof.
  intros b d H k v Hin. unfold icc_to_dict in H.
  destruct (ir_icc_walk_keys _ _ _ _ _ H k v Hin) as [Hk|Hk]; [|exact Hk].
  destruct Hk as [Hk|[]]. inversion Hk; subst. reflexivity.
Qed.

(* ====================================================================== one element: round trip *)

(* the value an element decodes to *)
Definition ir_fexp (c : fieldcfg) (v : value) : value :=
  match v with
  | VStr s => match f_proc c with
              | PPAN => VStr (mask s star)
              | PPANPREFIX => VStr (firstn 9 s)
              | _ => v
              end
  | _ => v
  end.

Lemma ir_expected_fexp : forall cfg n c v, cfg_get cfg n = Some c -> expected cfg (KDE n) v = ir_fexp c v.
Proof. intros cfg n c v H. unfold expected, ir_fexp. rewrite H. destruct v; reflexivity. Qed.

(* the entries the decoder produces for an element *)
Definition ir_fent (bit : nat) (c : fieldcfg) (v : value) (es : dict) : Prop :=
  match f_proc c with
  | PPDS => exists s sub, v = VStr s /\ pds_to_dict s = Ok sub /\ es = dupdate [(KDE bit, v)] sub
  | PICC => exists b sub, v = VBytes b /\ icc_to_dict b = Ok sub /\ es = dupdate [(KDE bit, v)] sub
  | PDE43 => exists gs, match v with VStr t => de43_fields (f_de43 c) t = Some gs | _ => gs = [] end /\
                        es = dupdate [(KDE bit, v)] (map ir_d43_ent gs)
  | _ => es = [(KDE bit, ir_fexp c v)]
  end.

Definition ir_rt (bit : nat) (c : fieldcfg) (v : value) (cd : codec) (fl0 : nat) (r : result bytes) : Prop :=
  exists e, r = Ok e /\ forall rest, exists es,
    (do fl <- ir_dec_len c fl0 (e ++ rest) cd; ir_tail bit c fl (e ++ rest) cd) = Ok (es, length e) /\
    ir_fent bit c v es.

Lemma ir_str_field : forall cd bit c fl0 s, codec_okb cd = true -> ir_digits_enc cd ->
  f_len c = Some fl0 -> f_ptype c = PTStr -> f_proc c <> PICC ->
  encodable cd s = true -> len_okb c (length s) = true ->
  (f_proc c = PPDS -> exists sub, pds_to_dict s = Ok sub) ->
  (f_proc c = PDE43 -> exists gs, de43_fields (f_de43 c) s = Some gs) ->
  ir_rt bit c (VStr s) cd fl0 (ir_enc_str c s cd).
Proof.
  intros cd bit c fl0 s Hcd Hdig Hfl Hpt Hicc Henc Hlen Hpds Hd43.
  destruct (ir_text_rt cd c fl0 s Hcd Hdig Hfl Henc Hlen) as [e [He [Hel Hrest]]].
  exists e. split; [exact He|]. intros rest. destruct (Hrest rest) as [Hd Hs].
  rewrite Hd. cbn [bind]. unfold ir_tail. cbv zeta. rewrite Hs. rewrite Hel.
  unfold ir_fent, ir_fexp, string_to_pytype. rewrite Hpt.
  destruct (f_proc c) eqn:Ep; cbn [catch bind].
  - eexists. split; reflexivity.
  - eexists. split; reflexivity.
  - eexists. split; reflexivity.
  - contradiction Hicc. reflexivity.
  - destruct (Hpds eq_refl) as [sub Hsub]. rewrite Hsub. cbn [bind].
    eexists. split; [reflexivity|]. exists s, sub. auto.
  - destruct (Hd43 eq_refl) as [gs Hgs]. rewrite Hgs.
    eexists. split; [reflexivity|]. exists gs. auto.
Qed.

Lemma ir_int_field : forall cd bit c fl0 z, codec_okb cd = true -> ir_digits_enc cd ->
  f_len c = Some fl0 -> f_ptype c = PTInt -> (f_proc c = PNone \/ (f_proc c = PDE43 /\ f_de43 c = D43None)) ->
  (0 <= z)%Z -> encodable cd (fmt0Z fl0 z) = true -> len_okb c (length (fmt0Z fl0 z)) = true ->
  ir_rt bit c (VInt z) cd fl0 (ir_enc_str c (fmt0Z fl0 z) cd).
Proof.
  intros cd bit c fl0 z Hcd Hdig Hfl Hpt Hproc Hz Henc Hlen.
  destruct (ir_text_rt cd c fl0 _ Hcd Hdig Hfl Henc Hlen) as [e [He [Hel Hrest]]].
  exists e. split; [exact He|]. intros rest. destruct (Hrest rest) as [Hd Hs].
  rewrite Hd. cbn [bind]. unfold ir_tail. cbv zeta. rewrite Hs. rewrite Hel.
  unfold ir_fent, ir_fexp, string_to_pytype. rewrite Hpt.
  destruct Hproc as [Ep|[Ep Ed]]; rewrite Ep; cbn [catch bind]; rewrite (py_int_fmt0Z fl0 z Hz);
    cbn [catch bind]; [eexists; split; reflexivity|].
  rewrite Ed. eexists. split; [reflexivity|]. exists []. auto.
Qed.

Lemma ir_date_field : forall cd bit c fl0 d t, codec_okb cd = true -> ir_digits_enc cd ->
  f_len c = Some fl0 -> f_ptype c = PTDate -> (f_proc c = PNone \/ (f_proc c = PDE43 /\ f_de43 c = D43None)) ->
  wf_dateb (f_datefmt c) d = true -> strftime_m (f_datefmt c) d = Ok t ->
  encodable cd t = true -> len_okb c (length t) = true ->
  ir_rt bit c (VDate d) cd fl0 (ir_enc_str c t cd).
Proof.
  intros cd bit c fl0 d t Hcd Hdig Hfl Hpt Hproc Hwd Hst Henc Hlen.
  destruct (ir_text_rt cd c fl0 _ Hcd Hdig Hfl Henc Hlen) as [e [He [Hel Hrest]]].
  exists e. split; [exact He|]. intros rest. destruct (Hrest rest) as [Hd Hs].
  rewrite Hd. cbn [bind]. unfold ir_tail. cbv zeta. rewrite Hs. rewrite Hel.
  unfold ir_fent, ir_fexp, string_to_pytype. rewrite Hpt.
  destruct Hproc as [Ep|[Ep Ed]]; rewrite Ep; cbn [catch bind];
    rewrite (strptime_strftime _ _ _ Hwd Hst);
    cbn [catch bind]; [eexists; split; reflexivity|].
  rewrite Ed. eexists. split; [reflexivity|]. exists []. auto.
Qed.

(* a decimal element (no processor): the text format(d, '0<w>f') goes out, and reads back as the decimal that prints as t *)
Lemma ir_dec_field : forall cd bit c fl0 d t, codec_okb cd = true -> ir_digits_enc cd ->
  f_len c = Some fl0 -> 1 <= fl0 -> f_ptype c = PTDec -> f_proc c = PNone ->
  wf_decb d = true -> dec_str d = Some t ->
  encodable cd (dec_fmt fl0 d) = true -> len_okb c (length (dec_fmt fl0 d)) = true ->
  ir_rt bit c (VStr t) cd fl0 (ir_enc_str c (dec_fmt fl0 d) cd).
Proof.
  intros cd bit c fl0 d t Hcd Hdig Hfl Hw Hpt Hproc Hwd Hst Henc Hlen.
  destruct (ir_text_rt cd c fl0 _ Hcd Hdig Hfl Henc Hlen) as [e [He [Hel Hrest]]].
  exists e. split; [exact He|]. intros rest. destruct (Hrest rest) as [Hd Hs].
  rewrite Hd. cbn [bind]. unfold ir_tail. cbv zeta. rewrite Hs. rewrite Hel.
  unfold ir_fent, ir_fexp. rewrite Hproc. cbn [catch bind].
  rewrite (proj2 (dec_element_roundtrip c fl0 d t Hpt Hfl Hw Hwd Hst)). cbn [catch bind].
  eexists. split; reflexivity.
Qed.

Lemma ir_icc_field : forall cd bit c fl0 b sub, codec_okb cd = true -> ir_digits_enc cd ->
  f_len c = Some fl0 -> f_ptype c = PTStr -> f_proc c = PICC ->
  len_okb c (length b) = true -> icc_to_dict b = Ok sub ->
  ir_rt bit c (VBytes b) cd fl0 (ir_enc_bytes c b cd).
Proof.
  intros cd bit c fl0 b sub Hcd Hdig Hfl Hpt Hproc Hlen Hsub.
  destruct (ir_bytes_rt cd c fl0 b Hcd Hdig Hfl Hlen) as [e [He [Hel Hrest]]].
  exists e. split; [exact He|]. intros rest. destruct (Hrest rest) as [Hd Hs].
  rewrite Hd. cbn [bind]. unfold ir_tail. cbv zeta. rewrite Hs. rewrite Hel.
  unfold ir_fent. rewrite Hproc, Hpt, Hsub. cbn [bind].
  eexists. split; [reflexivity|]. exists b, sub. auto.
Qed.

Lemma ir_de43_modelled : forall d s, de43_modelledb d = true -> exists gs, de43_fields d s = Some gs.
Proof.
  intros d s H. destruct d as [|p|]; cbn [de43_fields]; [eexists; reflexivity| |discriminate].
  destruct (re_match p s); eexists; reflexivity.
Qed.

Lemma ir_de43_noneb : forall d, de43_noneb d = true -> d = D43None.
Proof. intros d H. destruct d; try discriminate. reflexivity. Qed.

(* the entries of a DE43 element are named after the groups of its pattern *)
Lemma ir_de43_fields_groups : forall d s gs n x, de43_fields d s = Some gs -> In (n, x) gs ->
  exists p, d = D43Re p /\ In n (regex_groups p).
Proof.
  intros d s gs n x H Hin. destruct d as [|p|]; cbn [de43_fields] in H; [| |discriminate].
  - inversion H; subst gs. destruct Hin.
  - exists p. split; [reflexivity|]. destruct (re_match p s) as [cp|].
    + inversion H; subst gs. apply in_flat_map in Hin. destruct Hin as [g [Hg Hin]].
      destruct (cap_get cp g) as [[a b]|]; [|destruct Hin].
      destruct Hin as [Hin|[]]. inversion Hin; subst. exact Hg.
    + inversion H; subst gs. destruct Hin.
Qed.

Lemma ir_is_ok : forall {A} (r : result A), is_ok r = true -> exists a, r = Ok a.
Proof. intros A r H. destruct r; try discriminate. eexists. reflexivity. Qed.

(* every well-formed value of a well-formed element *)
Lemma ir_field_rt : forall cd bit c v, codec_okb cd = true -> ir_digits_enc cd ->
  wf_fieldb c = true -> wf_valb c cd v = true ->
  exists e, field_to_iso c v cd = Ok e /\ forall rest, exists es,
    iso_to_field bit c (e ++ rest) cd = Ok (es, length e) /\ ir_fent bit c v es.
Proof.
  intros cd bit c v Hcd Hdig Hwf Hv.
  unfold wf_fieldb in Hwf. destruct (f_len c) as [fl0|] eqn:Hfl; [|discriminate].
  assert (G : ir_rt bit c v cd fl0 (field_to_iso c v cd)).
  { rewrite ir_field_to_iso_eq. unfold pytype_to_string. unfold wf_valb in Hv.
    destruct (f_ptype c) eqn:Hpt.
    - destruct v as [s|z|b|d]; try discriminate.
      + cbn [bind].
        assert (H3 : f_proc c <> PICC /\ encodable cd s = true /\ len_okb c (length s) = true /\
                     (f_proc c = PPDS -> exists sub, pds_to_dict s = Ok sub)).
        { destruct (f_proc c) eqn:Ep; try discriminate;
            repeat (apply andb_true_iff in Hv; destruct Hv as [Hv ?]);
            (split; [discriminate|]); (split; [assumption|]); (split; [assumption|]);
            try (intro; discriminate).
          intros _. apply ir_is_ok. assumption. }
        assert (H7 : f_proc c = PDE43 -> exists gs, de43_fields (f_de43 c) s = Some gs).
        { intros Ep. rewrite Ep in Hwf. apply ir_de43_modelled. exact Hwf. }
        destruct H3 as [H3 [H4 [H5 H6]]]. apply ir_str_field; assumption.
      + cbn [bind].
        destruct (f_proc c) eqn:Ep; try discriminate.
        apply andb_true_iff in Hv. destruct Hv as [H1 H2].
        destruct (ir_is_ok _ H2) as [sub Hsub].
        apply (ir_icc_field cd bit c fl0 b sub); assumption.
    - destruct v as [s|z|b|d]; try discriminate. rewrite Hfl in Hv. rewrite Hfl. cbn [bind].
      apply andb_true_iff in Hv. destruct Hv as [Hv H3].
      apply andb_true_iff in Hv. destruct Hv as [H1 H2]. apply Z.leb_le in H1.
      apply ir_int_field; try assumption.
      destruct (f_proc c); try discriminate; auto using ir_de43_noneb.
    - destruct v as [s|z|b|d]; try discriminate. rewrite Hfl in Hv. rewrite Hfl. cbv zeta.
      destruct (dec_parse s) as [d| |] eqn:Edp; try discriminate.
      apply andb_true_iff in Hwf. destruct Hwf as [Hw1 Hpr]. apply Nat.leb_le in Hw1.
      apply andb_true_iff in Hv. destruct Hv as [Hv H4].
      apply andb_true_iff in Hv. destruct Hv as [Hv H3].
      apply andb_true_iff in Hv. destruct Hv as [H1 H2].
      destruct (dec_str d) as [t'|] eqn:Est; [|discriminate].
      apply ir_str_eqb_eq in H2. subst t'.
      destruct fl0 as [|fl0]; [lia|]. cbn [bind].
      apply ir_dec_field; try assumption.
      destruct (f_proc c); try discriminate; reflexivity.
    - destruct v as [s|z|b|d]; try discriminate.
      apply andb_true_iff in Hv. destruct Hv as [H1 H2].
      destruct (strftime_m (f_datefmt c) d) as [t| | |] eqn:Est; try discriminate.
      cbn [bind].
      apply andb_true_iff in H2. destruct H2 as [H2 H3].
      apply (ir_date_field cd bit c fl0 d t); try assumption.
      unfold de43_for_text in Hwf.
      destruct (f_proc c); try discriminate; auto.
      right. split; [reflexivity|]. apply andb_true_iff in Hwf. apply ir_de43_noneb. apply Hwf. }
  destruct G as [e [He Hrest]]. exists e. split; [exact He|].
  intros rest. rewrite ir_iso_to_field_eq, Hfl. apply Hrest.
Qed.

Lemma ir_fent_det : forall bit c v es1 es2, ir_fent bit c v es1 -> ir_fent bit c v es2 -> es1 = es2.
Proof.
  intros bit c v es1 es2 H1 H2. unfold ir_fent in *.
  destruct (f_proc c); try congruence.
  - destruct H1 as [b1 [s1 [A1 [B1 C1]]]]. destruct H2 as [b2 [s2 [A2 [B2 C2]]]].
    subst v. inversion A2; subst b2. congruence.
  - destruct H1 as [b1 [s1 [A1 [B1 C1]]]]. destruct H2 as [b2 [s2 [A2 [B2 C2]]]].
    subst v. inversion A2; subst b2. congruence.
  - destruct H1 as [g1 [A1 B1]]. destruct H2 as [g2 [A2 B2]].
    assert (g1 = g2) by (destruct v; congruence). congruence.
Qed.

Lemma ir_len_okb_0 : forall c, len_okb c 0 = false.
Proof.
  intros c. unfold len_okb. destruct (is_var (f_type c)); [reflexivity|].
  destruct (f_len c) as [w|]; [|reflexivity]. destruct w; reflexivity.
Qed.

Lemma ir_wf_truthy : forall c cd v, wf_valb c cd v = true -> truthy v = true.
Proof.
  intros c cd v H. destruct v as [s|z|b|d]; try reflexivity.
  - destruct s; [|reflexivity]. exfalso. unfold wf_valb in H.
    destruct (f_ptype c); try discriminate.
    + cbn [length] in H. rewrite ir_len_okb_0 in H.
      destruct (f_proc c); try discriminate; rewrite ?andb_false_r in H; discriminate.
    + change (dec_parse []) with DInvalid in H. destruct (f_len c); discriminate.
  - destruct b; [|reflexivity]. exfalso. unfold wf_valb in H.
    destruct (f_ptype c); try discriminate.
    cbn [length] in H. rewrite ir_len_okb_0 in H.
    destruct (f_proc c); try discriminate.
Qed.

(* ====================================================================== the element list *)

Definition ir_pres (m : dict) (b : nat) : bool :=
  match lookup m (KDE b) with Some v => truthy v | None => false end.

Definition ir_wf_fields (cfg : cfgT) (cd : codec) (m : dict) (bits : list nat) : Prop :=
  forall b v, In b bits -> lookup m (KDE b) = Some v ->
    exists c, cfg_get cfg b = Some c /\ wf_fieldb c = true /\ wf_valb c cd v = true.

Definition ir_ent_of (cfg : cfgT) (m : dict) (b : nat) (es : dict) : Prop :=
  exists c v, cfg_get cfg b = Some c /\ lookup m (KDE b) = Some v /\ ir_fent b c v es.

Lemma ir_fields_rt : forall cfg cd m P, codec_okb cd = true -> ir_digits_enc cd ->
  forall bits, ir_wf_fields cfg cd m bits -> (forall b, In b bits -> P b = ir_pres m b) ->
  exists body ents,
    enc_fields cfg cd m bits = Ok (filter (ir_pres m) bits, body) /\
    Forall2 (ir_ent_of cfg m) (filter (ir_pres m) bits) ents /\
    forall pre rest acc,
      dec_fields cfg cd P bits (pre ++ body ++ rest) (length pre) acc
      = Ok (dupdate acc (concat ents), length pre + length body).
Proof.
  intros cfg cd m P Hcd Hdig.
  induction bits as [|b bs IH]; intros Hwf HP.
  - exists [], []. cbn [enc_fields filter dec_fields concat length]. split; [reflexivity|].
    split; [constructor|]. intros pre rest acc. rewrite ir_dupdate_nil, Nat.add_0_r. reflexivity.
  - assert (Hwf' : ir_wf_fields cfg cd m bs).
    { intros b' v' Hin. apply Hwf. right. exact Hin. }
    assert (HP' : forall b', In b' bs -> P b' = ir_pres m b').
    { intros b' Hin. apply HP. right. exact Hin. }
    destruct (IH Hwf' HP') as [body' [ents' [Henc' [Hents' Hdec']]]].
    pose proof (HP b (or_introl eq_refl)) as HPb.
    cbn [enc_fields filter dec_fields]. rewrite HPb.
    destruct (lookup m (KDE b)) as [v|] eqn:Em.
    + destruct (Hwf b v (or_introl eq_refl) Em) as [c [Hc [Hwc Hwv]]].
      assert (Epres : ir_pres m b = true).
      { unfold ir_pres. rewrite Em. apply (ir_wf_truthy c cd v Hwv). }
      rewrite Epres. rewrite (ir_wf_truthy c cd v Hwv). rewrite Hc.
      destruct (ir_field_rt cd b c v Hcd Hdig Hwc Hwv) as [e [He Hrest]].
      destruct (Hrest []) as [es [_ Hfe]].
      exists (e ++ body'), (es :: ents').
      rewrite He, Henc'. cbn [bind fst snd]. split; [reflexivity|]. split.
      * constructor; [|exact Hents']. exists c, v. auto.
      * intros pre rest acc.
        rewrite (ir_skipn_exact (length pre) pre _ eq_refl).
        rewrite <- app_assoc.
        destruct (Hrest (body' ++ rest)) as [es' [Hd Hfe']].
        rewrite (ir_fent_det _ _ _ _ _ Hfe' Hfe) in Hd. rewrite Hd. cbn [bind].
        specialize (Hdec' (pre ++ e) rest (dupdate acc es)).
        rewrite <- app_assoc in Hdec'. rewrite app_length in Hdec'. rewrite Hdec'.
        rewrite ir_dupdate_app. cbn [concat]. rewrite app_length. f_equal. f_equal. lia.
    + assert (Epres : ir_pres m b = false).
      { unfold ir_pres. rewrite Em. reflexivity. }
      rewrite Epres.
      exists body', ents'. split; [exact Henc'|]. split; [exact Hents'|]. exact Hdec'.
Qed.

(* ====================================================================== the bitmap *)

Lemma ir_bitmap_length : forall present, length (bitmap_of present) = 16.
Proof.
  intros present. unfold bitmap_of. apply bytes_of_bits_length.
  rewrite map_length, seq_length. reflexivity.
Qed.

Lemma ir_bitmap_nth : forall present b, 1 <= b <= 128 ->
  nth (b - 1) (bits_of_bytes (bitmap_of present)) false = Nat.eqb b 1 || existsb (Nat.eqb b) present.
Proof.
  intros present b Hb. unfold bitmap_of.
  rewrite (bits_bytes_roundtrip _ 16) by (rewrite map_length, seq_length; reflexivity).
  set (f := fun i => Nat.eqb i 1 || existsb (Nat.eqb i) present).
  rewrite (nth_indep _ false (f 0)) by (rewrite map_length, seq_length; lia).
  rewrite map_nth. rewrite seq_nth by lia. replace (1 + (b - 1)) with b by lia. reflexivity.
Qed.

Lemma ir_existsb_filter : forall (f : nat -> bool) l b, In b l -> existsb (Nat.eqb b) (filter f l) = f b.
Proof.
  intros f l b Hin. destruct (f b) eqn:Ef.
  - apply existsb_exists. exists b. split; [|apply Nat.eqb_refl]. apply filter_In. auto.
  - destruct (existsb (Nat.eqb b) (filter f l)) eqn:E; [|reflexivity].
    apply existsb_exists in E. destruct E as [x [Hx1 Hx2]]. apply Nat.eqb_eq in Hx2. subst x.
    apply filter_In in Hx1. destruct Hx1 as [_ Hx1]. congruence.
Qed.

Lemma ir_present_fun : forall m b, In b bit_range ->
  nth (b - 1) (bits_of_bytes (bitmap_of (filter (ir_pres m) bit_range))) false = ir_pres m b.
Proof.
  intros m b Hin. pose proof Hin as Hr. unfold bit_range in Hr. apply in_seq in Hr.
  rewrite ir_bitmap_nth by lia. rewrite (ir_existsb_filter _ _ _ Hin).
  assert (E : Nat.eqb b 1 = false) by (apply Nat.eqb_neq; lia). rewrite E. reflexivity.
Qed.

(* ====================================================================== int() of ASCII digits *)

Lemma ir_ascii_digits_dch : forall s, forallb ascii_digit s = true ->
  s = map dch (map (fun c => (c - 48)%N) s) /\ Forall (fun d => (d < 10)%N) (map (fun c => (c - 48)%N) s).
Proof.
  induction s as [|c s IH]; intros H; cbn [map forallb] in *.
  - split; [reflexivity|constructor].
  - apply andb_true_iff in H. destruct H as [H1 H2]. destruct (IH H2) as [IH1 IH2].
    unfold ascii_digit in H1. apply andb_true_iff in H1. destruct H1 as [Ha Hb].
    apply N.leb_le in Ha, Hb. split.
    + f_equal; [unfold dch; lia|exact IH1].
    + constructor; [lia|exact IH2].
Qed.

Lemma ir_py_int_ascii : forall s, s <> [] -> forallb ascii_digit s = true -> exists z, py_int s = Some z.
Proof.
  intros s Hne H. destruct (ir_ascii_digits_dch s H) as [H1 H2]. rewrite H1.
  rewrite py_int_digits; [eexists; reflexivity| |exact H2].
  intro C. apply map_eq_nil in C. contradiction.
Qed.

(* ====================================================================== header and body *)

Lemma ir_slice_exact2 : forall {A} n m k (a b c : list A), length a = n -> length b = k -> m = n + k ->
  slice n m (a ++ b ++ c) = b.
Proof. intros A n m k a b c Ha Hb Hm. subst m. apply ir_slice_exact; assumption. Qed.

Definition ir_bmb (hexbm : bool) (bm : bytes) : bytes := if hexbm then map byte_of_N (hexlify bm) else bm.

Lemma ir_loads_core : forall cfg cd hexbm m1 mti, codec_okb cd = true -> ir_digits_enc cd ->
  length mti = 4 -> forallb ascii_digit mti = true -> encodable cd mti = true ->
  ir_wf_fields cfg cd m1 bit_range ->
  exists body ents mb,
    enc_fields cfg cd m1 bit_range = Ok (filter (ir_pres m1) bit_range, body) /\
    Forall2 (ir_ent_of cfg m1) (filter (ir_pres m1) bit_range) ents /\
    encode cd mti = Ok mb /\
    loads cfg cd hexbm (mb ++ ir_bmb hexbm (bitmap_of (filter (ir_pres m1) bit_range)) ++ body)
    = Ok (dupdate [(KMTI, VStr mti)] (concat ents)).
Proof.
  intros cfg cd hexbm m1 mti Hcd Hdig Hl4 Hasc Henc Hwf.
  set (pl := filter (ir_pres m1) bit_range).
  set (bm := bitmap_of pl).
  set (P := fun b => nth (b - 1) (bits_of_bytes bm) false).
  assert (HP : forall b, In b bit_range -> P b = ir_pres m1 b).
  { intros b Hin. unfold P, bm, pl. apply ir_present_fun. exact Hin. }
  destruct (ir_fields_rt cfg cd m1 P Hcd Hdig bit_range Hwf HP) as [body [ents [He [Hents Hdec]]]].
  apply encodable_encode in Henc. destruct Henc as [mb Hmb].
  pose proof (encode_length _ _ _ Hmb) as Hmbl. rewrite Hl4 in Hmbl.
  exists body, ents, mb. split; [exact He|]. split; [exact Hents|]. split; [exact Hmb|].
  fold pl. fold bm.
  assert (Hbml : length bm = 16) by apply ir_bitmap_length.
  assert (Hmti : exists z, py_int mti = Some z).
  { apply ir_py_int_ascii; [|exact Hasc]. intro C. subst mti. discriminate. }
  destruct Hmti as [z Hz].
  specialize (Hdec [] [] [(KMTI, VStr mti)]). cbn [app length Nat.add] in Hdec.
  rewrite app_nil_r in Hdec.
  unfold loads, ir_bmb. destruct hexbm.
  - assert (Hhl : length (map byte_of_N (hexlify bm)) = 32).
    { rewrite map_length, hexlify_length, Hbml. reflexivity. }
    rewrite !app_length, Hhl, Hmbl.
    assert (E1 : (4 + (32 + length body) <? 36) = false) by (apply Nat.ltb_ge; lia).
    rewrite E1.
    rewrite (ir_slice_exact2 4 36 32 mb _ body Hmbl Hhl eq_refl).
    rewrite ascii_hex_roundtrip, unhexlify_hexlify. cbn [bind].
    rewrite (ir_firstn_exact 4 mb _ Hmbl).
    rewrite (decode_encode cd _ _ Hcd Hmb). cbn [catch bind]. rewrite Hz.
    rewrite app_assoc. rewrite (ir_skipn_exact 36 (mb ++ map byte_of_N (hexlify bm)) body)
      by (rewrite app_length; lia).
    fold P. rewrite Hdec. cbn [bind]. rewrite Nat.eqb_refl. reflexivity.
  - rewrite !app_length, Hbml, Hmbl.
    assert (E1 : (4 + (16 + length body) <? 20) = false) by (apply Nat.ltb_ge; lia).
    rewrite E1.
    rewrite (ir_slice_exact2 4 20 16 mb _ body Hmbl Hbml eq_refl). cbn [bind].
    rewrite (ir_firstn_exact 4 mb _ Hmbl).
    rewrite (decode_encode cd _ _ Hcd Hmb). cbn [catch bind]. rewrite Hz.
    rewrite app_assoc. rewrite (ir_skipn_exact 20 (mb ++ bm) body) by (rewrite app_length; lia).
    fold P. rewrite Hdec. cbn [bind]. rewrite Nat.eqb_refl. reflexivity.
Qed.

(* ====================================================================== entries of the decoded dictionary *)

Lemma ir_fent_in : forall bit c v es k x, ir_fent bit c v es -> In (k, x) es ->
  (k = KDE bit /\ x = ir_fexp c v) \/
  (f_proc c = PPDS /\ is_pds_key k = true /\
   exists s sub, v = VStr s /\ pds_to_dict s = Ok sub /\ In (k, x) sub) \/
  ir_tag_key k = true \/
  (exists p n, f_proc c = PDE43 /\ f_de43 c = D43Re p /\ k = KOther n /\ In n (regex_groups p)).
Proof.
  intros bit c v es k x Hf Hin. unfold ir_fent in Hf.
  assert (Hpds : f_proc c = PPDS -> forall s, ir_fexp c (VStr s) = VStr s).
  { intros E s. unfold ir_fexp. rewrite E. reflexivity. }
  assert (Hd43 : f_proc c = PDE43 -> ir_fexp c v = v).
  { intros E. unfold ir_fexp. rewrite E. destruct v; reflexivity. }
  destruct (f_proc c) eqn:Ep.
  - subst es. destruct Hin as [Hin|[]]. inversion Hin; subst. left. split; reflexivity.
  - subst es. destruct Hin as [Hin|[]]. inversion Hin; subst. left. split; reflexivity.
  - subst es. destruct Hin as [Hin|[]]. inversion Hin; subst. left. split; reflexivity.
  - destruct Hf as [b [sub [Hv [Hsub Hes]]]]. subst es v.
    apply ir_in_dupdate in Hin. destruct Hin as [Hin|Hin].
    + destruct Hin as [Hin|[]]. inversion Hin; subst. left. split; reflexivity.
    + right. right. left. apply (ir_icc_to_dict_keys _ _ Hsub _ _ Hin).
  - destruct Hf as [s [sub [Hv [Hsub Hes]]]]. subst es v.
    apply ir_in_dupdate in Hin. destruct Hin as [Hin|Hin].
    + destruct Hin as [Hin|[]]. inversion Hin; subst. left. split; [reflexivity|].
      symmetry. apply Hpds. reflexivity.
    + right. left. split; [reflexivity|]. split; [apply (ir_pds_to_dict_keys _ _ Hsub _ _ Hin)|].
      exists s, sub. auto.
  - destruct Hf as [gs [Hgs Hes]]. subst es.
    apply ir_in_dupdate in Hin. destruct Hin as [Hin|Hin].
    + destruct Hin as [Hin|[]]. inversion Hin; subst. left. split; [reflexivity|].
      symmetry. apply Hd43. reflexivity.
    + right. right. right. apply in_map_iff in Hin. destruct Hin as [[n y] [E Hin]].
      unfold ir_d43_ent in E. cbn [fst snd] in E. inversion E; subst k x.
      destruct v as [t| | |]; try (subst gs; destruct Hin).
      destruct (ir_de43_fields_groups _ _ _ _ _ Hgs Hin) as [p [Hp1 Hp2]].
      exists p, n. auto.
Qed.

Lemma ir_carrier_kde : forall bit v sub, (forall k x, In (k, x) sub -> k <> KDE bit) ->
  In (KDE bit, v) (dupdate [(KDE bit, v)] sub).
Proof.
  intros bit v sub H. apply ir_lookup_in. rewrite ir_lookup_dupdate_notin.
  - cbn [lookup]. rewrite ir_key_eqb_refl. reflexivity.
  - intros x Hx. apply (H _ _ Hx). reflexivity.
Qed.

Lemma ir_fent_kde : forall bit c v es, ir_fent bit c v es -> In (KDE bit, ir_fexp c v) es.
Proof.
  intros bit c v es Hf. unfold ir_fent in Hf.
  assert (Hpds : f_proc c = PPDS -> forall s, ir_fexp c (VStr s) = VStr s).
  { intros E s. unfold ir_fexp. rewrite E. reflexivity. }
  destruct (f_proc c) eqn:Ep; try (subst es; left; reflexivity).
  - destruct Hf as [b [sub [Hv [Hsub Hes]]]]. subst es v. apply ir_carrier_kde.
    intros k x Hin C. subst k. pose proof (ir_icc_to_dict_keys _ _ Hsub _ _ Hin) as T. discriminate.
  - destruct Hf as [s [sub [Hv [Hsub Hes]]]]. subst es v. rewrite (Hpds eq_refl). apply ir_carrier_kde.
    intros k x Hin C. subst k. pose proof (ir_pds_to_dict_keys _ _ Hsub _ _ Hin) as T. discriminate.
  - destruct Hf as [gs [_ Hes]]. subst es.
    assert (E : ir_fexp c v = v) by (unfold ir_fexp; rewrite Ep; destruct v; reflexivity).
    rewrite E. apply ir_carrier_kde.
    intros k x Hin C. subst k. apply in_map_iff in Hin. destruct Hin as [nv [T _]]. discriminate.
Qed.

Lemma ir_fent_sub : forall bit c s es sub k x, ir_fent bit c (VStr s) es -> f_proc c = PPDS ->
  pds_to_dict s = Ok sub -> In (k, x) sub -> (forall x', In (k, x') sub -> x' = x) -> In (k, x) es.
Proof.
  intros bit c s es sub k x Hf Ep Hsub Hin Hu. unfold ir_fent in Hf. rewrite Ep in Hf.
  destruct Hf as [s' [sub' [Hv [Hsub' Hes]]]]. inversion Hv; subst s'.
  rewrite Hsub in Hsub'. inversion Hsub'; subst sub'. subst es.
  apply ir_lookup_in. apply ir_lookup_dupdate_unique; assumption.
Qed.

Lemma ir_forall2_concat_in : forall {A B} (R : A -> list B -> Prop) l ents x,
  Forall2 R l ents -> In x (concat ents) -> exists b es, In b l /\ R b es /\ In x es.
Proof.
  intros A B R l ents x H. induction H as [|b es l ents HR H IH]; intros Hin; cbn [concat] in Hin.
  - destruct Hin.
  - apply in_app_or in Hin. destruct Hin as [Hin|Hin].
    + exists b, es. split; [left; reflexivity|]. auto.
    + destruct (IH Hin) as [b' [es' [H1 [H2 H3]]]]. exists b', es'. split; [right; exact H1|]. auto.
Qed.

Lemma ir_forall2_concat_of : forall {A B} (R : A -> list B -> Prop) l ents b,
  Forall2 R l ents -> In b l -> exists es, R b es /\ forall x, In x es -> In x (concat ents).
Proof.
  intros A B R l ents b H. induction H as [|b0 es l ents HR H IH]; intros Hin.
  - destruct Hin.
  - destruct Hin as [Hin|Hin].
    + subst b0. exists es. split; [exact HR|]. intros x Hx. cbn [concat]. apply in_or_app. left. exact Hx.
    + destruct (IH Hin) as [es' [H1 H2]]. exists es'. split; [exact H1|].
      intros x Hx. cbn [concat]. apply in_or_app. right. apply H2. exact Hx.
Qed.

Lemma ir_cfg_get_in : forall cfg b c, cfg_get cfg b = Some c -> In (b, c) cfg.
Proof.
  induction cfg as [|[b0 c0] r IH]; intros b c H; cbn [cfg_get] in H; [discriminate|].
  destruct (Nat.eqb b0 b) eqn:E.
  - apply Nat.eqb_eq in E. inversion H; subst. left. reflexivity.
  - right. apply IH. exact H.
Qed.

Lemma ir_cfg_wf : forall cfg b c, wf_cfgb cfg = true -> cfg_get cfg b = Some c -> wf_fieldb c = true.
Proof.
  intros cfg b c Hwf H. apply ir_cfg_get_in in H. unfold wf_cfgb in Hwf. rewrite forallb_forall in Hwf.
  apply (Hwf _ H).
Qed.

Lemma ir_in_bit_range : forall n, 2 <= n -> n <= 127 -> In n bit_range.
Proof. intros n H1 H2. unfold bit_range. apply in_seq. lia. Qed.

(* the two conclusions of the theorem, from an abstract description of the elements actually encoded (m1) *)
Lemma ir_final : forall cfg cd hp m m1 mti ents,
  (forall k v, In (k, v) m -> wf_entryb cfg cd hp (k, v) = true) ->
  lookup m KMTI = Some (VStr mti) ->
  Forall2 (ir_ent_of cfg m1) (filter (ir_pres m1) bit_range) ents ->
  (forall n v, lookup m (KDE n) = Some v -> lookup m1 (KDE n) = Some v) ->
  (forall n c, cfg_get cfg n = Some c -> f_proc c <> PPDS -> lookup m1 (KDE n) = lookup m (KDE n)) ->
  (forall t v, In (KPDS t, v) m ->
     In (KPDS t, v) (concat ents) /\ forall x, In (KPDS t, x) (concat ents) -> x = v) ->
  let d := dupdate [(KMTI, VStr mti)] (concat ents) in
  (forall k v, lookup m k = Some v -> lookup d k = Some (expected cfg k v)) /\
  (forall k, lookup d k <> None -> lookup m k <> None \/ derived_key cfg k = true).
Proof.
  intros cfg cd hp m m1 mti ents Hent Hmti Hents H3 H4 H5 d.
  assert (HE : forall k x, In (k, x) (concat ents) ->
            (exists b c v, In b bit_range /\ cfg_get cfg b = Some c /\ lookup m1 (KDE b) = Some v /\
                           k = KDE b /\ x = ir_fexp c v) \/
            is_pds_key k = true \/ ir_tag_key k = true \/
            (exists s, k = KOther s /\ de43_key cfg s = true)).
  { intros k x Hin.
    destruct (ir_forall2_concat_in _ _ _ _ Hents Hin) as [b [es [Hb [[c [v [Hc [Hv Hf]]]] Hx]]]].
    apply filter_In in Hb. destruct Hb as [Hb _].
    destruct (ir_fent_in _ _ _ _ _ _ Hf Hx) as [[K1 K2]|[[_ [K _]]|[K|[p [s [Kp [Kd [Kk Kg]]]]]]]].
    - left. exists b, c, v. auto.
    - right. left. exact K.
    - right. right. left. exact K.
    - right. right. right. exists s. split; [exact Kk|].
      unfold de43_key. apply existsb_exists. exists (b, c). split; [apply ir_cfg_get_in; exact Hc|].
      cbn [snd]. rewrite Kp, Kd. cbn [proc_eqb andb]. apply existsb_exists. exists s. split; [exact Kg|].
      apply ir_str_eqb_eq. reflexivity. }
  split.
  - intros k v Hl. pose proof (ir_lookup_in _ _ _ Hl) as Hin. pose proof (Hent _ _ Hin) as Hw.
    destruct k as [|n|t|t| |t]; cbn [wf_entryb] in Hw; try discriminate.
    + (* MTI *)
      rewrite Hmti in Hl. inversion Hl; subst v. unfold d. rewrite ir_lookup_dupdate_notin.
      * cbn [lookup key_eqb expected]. reflexivity.
      * intros x Hx. destruct (HE _ _ Hx) as [[b [c [v [_ [_ [_ [K _]]]]]]]|[K|[K|[s [K _]]]]]; discriminate.
    + (* DE n *)
      apply andb_true_iff in Hw. destruct Hw as [Hw Hw3].
      apply andb_true_iff in Hw. destruct Hw as [Hw1 Hw2].
      apply Nat.leb_le in Hw1, Hw2.
      destruct (cfg_get cfg n) as [c|] eqn:Hc; [|discriminate].
      apply andb_true_iff in Hw3. destruct Hw3 as [Hwv _].
      rewrite (ir_expected_fexp cfg n c v Hc).
      pose proof (H3 _ _ Hl) as Hl1.
      assert (Hpres : In n (filter (ir_pres m1) bit_range)).
      { apply filter_In. split; [apply ir_in_bit_range; assumption|].
        unfold ir_pres. rewrite Hl1. apply (ir_wf_truthy c cd v Hwv). }
      destruct (ir_forall2_concat_of _ _ _ _ Hents Hpres) as [es [[c' [v' [Hc' [Hv' Hf]]]] Hsub]].
      rewrite Hc in Hc'. inversion Hc'; subst c'. rewrite Hl1 in Hv'. inversion Hv'; subst v'.
      unfold d. apply ir_lookup_dupdate_unique.
      * apply Hsub. apply (ir_fent_kde _ _ _ _ Hf).
      * intros x Hx. destruct (HE _ _ Hx) as [[b [c2 [v2 [_ [Hc2 [Hv2 [K1 K2]]]]]]]|[K|[K|[s [K _]]]]]; try discriminate.
        inversion K1; subst b. rewrite Hc in Hc2. inversion Hc2; subst c2.
        rewrite Hl1 in Hv2. inversion Hv2; subst v2. exact K2.
    + (* PDS t *)
      destruct (H5 _ _ Hin) as [K1 K2]. unfold d. cbn [expected].
      apply ir_lookup_dupdate_unique; assumption.
  - intros k Hk. destruct (lookup d k) as [x|] eqn:El; [|contradiction Hk; reflexivity].
    apply ir_lookup_in in El. unfold d in El. apply ir_in_dupdate in El. destruct El as [El|El].
    + destruct El as [El|[]]. inversion El; subst. left. rewrite Hmti. discriminate.
    + destruct (HE _ _ El) as [[b [c [v [_ [Hc [Hv [K1 K2]]]]]]]|[K|[K|[s [K1 K2]]]]].
      * subst k. destruct (proc_eqb (f_proc c) PPDS) eqn:Ep.
        -- right. cbn [derived_key]. rewrite Hc. exact Ep.
        -- left. rewrite <- (H4 b c Hc); [rewrite Hv; discriminate|].
           intro C. rewrite C in Ep. discriminate.
      * right. destruct k; try discriminate. reflexivity.
      * right. destruct k; try discriminate; reflexivity.
      * right. subst k. cbn [derived_key]. exact K2.
Qed.

(* ====================================================================== the message: decomposition of wf_msgb *)

Definition ir_has_pds (m : dict) : bool := existsb (fun kv => is_pds_key (fst kv)) m.

Lemma ir_wf_msg_parts : forall cfg cd m, wf_msgb cfg cd m = true ->
  nodup_keys m = true /\
  (exists mti, lookup m KMTI = Some (VStr mti) /\ length mti = 4 /\ forallb ascii_digit mti = true /\
               encodable cd mti = true) /\
  (forall k v, In (k, v) m -> wf_entryb cfg cd (ir_has_pds m) (k, v) = true) /\
  ir_digits_enc cd /\
  (ir_has_pds m = false \/
   (ir_has_pds m = true /\ carriers_okb cfg = true /\
    exists cs, pds_to_de m = Ok cs /\ length cs <= length (pds_bits cfg))).
Proof.
  intros cfg cd m H. unfold wf_msgb in H. fold (ir_has_pds m) in H.
  apply andb_true_iff in H. destruct H as [H H5].
  apply andb_true_iff in H. destruct H as [H H4].
  apply andb_true_iff in H. destruct H as [H H3].
  apply andb_true_iff in H. destruct H as [H1 H2].
  assert (Hent : forall k v, In (k, v) m -> wf_entryb cfg cd (ir_has_pds m) (k, v) = true).
  { intros k v Hin. rewrite forallb_forall in H3. apply (H3 _ Hin). }
  split; [exact H1|]. split; [|split; [exact Hent|split; [exact H4|]]].
  - apply existsb_exists in H2. destruct H2 as [[k v] [Hin Hk]]. cbn [fst] in Hk.
    apply ir_key_eqb_eq in Hk. subst k.
    destruct (lookup m KMTI) as [v'|] eqn:El; [|exfalso; exact (ir_in_lookup _ _ _ Hin El)].
    pose proof (Hent _ _ (ir_lookup_in _ _ _ El)) as Hw. cbn [wf_entryb] in Hw.
    destruct v' as [s| | |]; try discriminate.
    apply andb_true_iff in Hw. destruct Hw as [Hw Hw3].
    apply andb_true_iff in Hw. destruct Hw as [Hw1 Hw2]. apply Nat.eqb_eq in Hw1.
    exists s. auto.
  - destruct (ir_has_pds m); [right|left; reflexivity].
    apply orb_true_iff in H5. destruct H5 as [H5|H5]; [discriminate|].
    apply andb_true_iff in H5. destruct H5 as [H5 H6].
    split; [reflexivity|]. split; [exact H5|].
    destruct (pds_to_de m) as [cs| | |]; try discriminate. exists cs. split; [reflexivity|].
    apply Nat.leb_le. exact H6.
Qed.

Lemma ir_nodup_unique : forall m k v v', nodup_keys m = true -> In (k, v) m -> In (k, v') m -> v = v'.
Proof.
  induction m as [|[k0 v0] r IH]; intros k v v' Hn H1 H2; [destruct H1|].
  cbn [nodup_keys] in Hn. apply andb_true_iff in Hn. destruct Hn as [Hn1 Hn2].
  apply negb_true_iff in Hn1.
  assert (Hno : forall x, ~ In (k0, x) r).
  { intros x Hx. assert (E : existsb (fun kv => key_eqb (fst kv) k0) r = true).
    { apply existsb_exists. exists (k0, x). split; [exact Hx|]. apply ir_key_eqb_refl. }
    congruence. }
  destruct H1 as [H1|H1], H2 as [H2|H2].
  - congruence.
  - inversion H1; subst. exfalso. exact (Hno _ H2).
  - inversion H2; subst. exfalso. exact (Hno _ H1).
  - apply (IH k v v' Hn2 H1 H2).
Qed.

Lemma ir_dumps_eq : forall cfg cd hexbm m cs m1 pl body mti mb,
  pds_to_de m = Ok cs -> assign_pds m cs (pds_bits cfg) = Ok m1 ->
  enc_fields cfg cd m1 bit_range = Ok (pl, body) ->
  lookup m KMTI = Some (VStr mti) -> mti <> [] -> encode cd mti = Ok mb ->
  dumps cfg cd hexbm m = Ok (mb ++ ir_bmb hexbm (bitmap_of pl) ++ body).
Proof.
  intros cfg cd hexbm m cs m1 pl body mti mb H1 H2 H3 H4 H5 H6.
  unfold dumps. rewrite H1. cbn [bind]. rewrite H2. cbn [bind]. rewrite H3. cbn [bind fst snd].
  rewrite H4. destruct mti as [|c0 mti']; [contradiction H5; reflexivity|].
  rewrite H6. cbn [bind]. reflexivity.
Qed.

(* everything except the treatment of PDS keys *)
Lemma ir_assemble : forall cfg cd hexbm hp m m1 cs mti, codec_okb cd = true -> ir_digits_enc cd ->
  (forall k v, In (k, v) m -> wf_entryb cfg cd hp (k, v) = true) ->
  lookup m KMTI = Some (VStr mti) -> length mti = 4 -> forallb ascii_digit mti = true ->
  encodable cd mti = true ->
  pds_to_de m = Ok cs -> assign_pds m cs (pds_bits cfg) = Ok m1 ->
  ir_wf_fields cfg cd m1 bit_range ->
  (forall n v, lookup m (KDE n) = Some v -> lookup m1 (KDE n) = Some v) ->
  (forall n c, cfg_get cfg n = Some c -> f_proc c <> PPDS -> lookup m1 (KDE n) = lookup m (KDE n)) ->
  (forall ents, Forall2 (ir_ent_of cfg m1) (filter (ir_pres m1) bit_range) ents ->
     forall t v, In (KPDS t, v) m ->
       In (KPDS t, v) (concat ents) /\ forall x, In (KPDS t, x) (concat ents) -> x = v) ->
  exists b d, dumps cfg cd hexbm m = Ok b /\ loads cfg cd hexbm b = Ok d /\
    (forall k v, lookup m k = Some v -> lookup d k = Some (expected cfg k v)) /\
    (forall k, lookup d k <> None -> lookup m k <> None \/ derived_key cfg k = true).
Proof.
  intros cfg cd hexbm hp m m1 cs mti Hcd Hdig Hent Hmti Hl4 Hasc Henc Hcs Hm1 Hwf H3 H4 H5.
  destruct (ir_loads_core cfg cd hexbm m1 mti Hcd Hdig Hl4 Hasc Henc Hwf)
    as [body [ents [mb [He [Hents [Hmb Hloads]]]]]].
  eexists. eexists. split.
  - apply (ir_dumps_eq cfg cd hexbm m cs m1 _ body mti mb Hcs Hm1 He Hmti); [|exact Hmb].
    intro C. subst mti. discriminate.
  - split; [exact Hloads|].
    apply (ir_final cfg cd hp m m1 mti ents Hent Hmti Hents H3 H4 (H5 ents Hents)).
Qed.

(* ---------- messages without PDS keys ---------- *)

Lemma ir_no_pds_entries : forall m, ir_has_pds m = false -> pds_entries m = [].
Proof.
  unfold ir_has_pds, pds_entries.
  induction m as [|[k v] r IH]; intros H; cbn [existsb flat_map fst snd] in *; [reflexivity|].
  apply orb_false_iff in H. destruct H as [H1 H2]. rewrite (IH H2).
  destruct k; try reflexivity. discriminate.
Qed.

Lemma ir_no_pds_key : forall m t v, ir_has_pds m = false -> ~ In (KPDS t, v) m.
Proof.
  intros m t v H Hin.
  assert (E : ir_has_pds m = true).
  { unfold ir_has_pds. apply existsb_exists. exists (KPDS t, v). split; [exact Hin|reflexivity]. }
  congruence.
Qed.

Lemma ir_entry_wf_field : forall cfg cd hp n v, wf_cfgb cfg = true -> wf_entryb cfg cd hp (KDE n, v) = true ->
  2 <= n <= 127 /\ exists c, cfg_get cfg n = Some c /\ wf_fieldb c = true /\ wf_valb c cd v = true /\
    (hp = true -> f_proc c <> PPDS).
Proof.
  intros cfg cd hp n v Hcfg Hw. cbn [wf_entryb] in Hw.
  apply andb_true_iff in Hw. destruct Hw as [Hw Hw3].
  apply andb_true_iff in Hw. destruct Hw as [Hw1 Hw2].
  apply Nat.leb_le in Hw1, Hw2. split; [lia|].
  destruct (cfg_get cfg n) as [c|] eqn:Hc; [|discriminate].
  apply andb_true_iff in Hw3. destruct Hw3 as [Hwv Hnp].
  exists c. split; [reflexivity|]. split; [apply (ir_cfg_wf cfg n c Hcfg Hc)|]. split; [exact Hwv|].
  intros E C. subst hp. rewrite C in Hnp. discriminate.
Qed.

Lemma ir_roundtrip_nopds : forall cfg cd hexbm m,
  wf_cfgb cfg = true -> codec_okb cd = true -> wf_msgb cfg cd m = true -> ir_has_pds m = false ->
  exists b d, dumps cfg cd hexbm m = Ok b /\ loads cfg cd hexbm b = Ok d /\
    (forall k v, lookup m k = Some v -> lookup d k = Some (expected cfg k v)) /\
    (forall k, lookup d k <> None -> lookup m k <> None \/ derived_key cfg k = true).
Proof.
  intros cfg cd hexbm m Hcfg Hcd Hm Hnp.
  destruct (ir_wf_msg_parts cfg cd m Hm) as [Hnd [[mti [Hmti [Hl4 [Hasc Henc]]]] [Hent [Hdig _]]]].
  apply (ir_assemble cfg cd hexbm (ir_has_pds m) m m [] mti Hcd Hdig Hent Hmti Hl4 Hasc Henc).
  - unfold pds_to_de. rewrite (ir_no_pds_entries m Hnp). reflexivity.
  - reflexivity.
  - intros b v _ Hl. pose proof (Hent _ _ (ir_lookup_in _ _ _ Hl)) as Hw.
    destruct (ir_entry_wf_field cfg cd _ b v Hcfg Hw) as [_ [c [Hc [Hwc [Hwv _]]]]].
    exists c. auto.
  - intros n v Hl. exact Hl.
  - intros n c _ _. reflexivity.
  - intros ents _ t v Hin. exfalso. exact (ir_no_pds_key m t v Hnp Hin).
Qed.

(* ====================================================================== messages with PDS keys *)

(* ---------- tags are the 4-digit renderings of their numbers ---------- *)
Lemma ir_digs_value : forall ds, Forall (fun d => (d < 10)%N) ds ->
  digs (length ds) (Prim.value ds) = ds /\ (Prim.value ds < 10 ^ N.of_nat (length ds))%N.
Proof.
  induction ds as [|d l IH] using rev_ind; intros H.
  - split; [reflexivity|]. cbn [length]. rewrite value_nil. change (N.of_nat 0) with 0%N.
    rewrite N.pow_0_r. lia.
  - apply Forall_app in H. destruct H as [Hl Hd]. inversion Hd as [|x y Hd' _]; subst.
    destruct (IH Hl) as [IH1 IH2].
    rewrite app_length. cbn [length]. rewrite Nat.add_1_r. rewrite value_app1.
    assert (Hq : (Prim.value l = (Prim.value l * 10 + d) / 10)%N).
    { apply (N.div_unique _ 10 _ d); lia. }
    assert (Hr : (d = (Prim.value l * 10 + d) mod 10)%N).
    { apply (N.mod_unique _ 10 (Prim.value l) d); lia. }
    split.
    + cbn [digs]. rewrite <- Hq, <- Hr, IH1. reflexivity.
    + rewrite Nat2N.inj_succ, N.pow_succ_r'. lia.
Qed.

Lemma ir_tag4_num : forall t, length t = 4 -> forallb ascii_digit t = true ->
  tag4 (num_of t) = t /\ (num_of t < 10000)%N.
Proof.
  intros t Hl Ha. destruct (ir_ascii_digits_dch t Ha) as [H1 H2].
  destruct (ir_digs_value _ H2) as [H3 H4]. rewrite map_length, Hl in H3, H4.
  unfold tag4, num_of. split.
  - rewrite H3. symmetry. exact H1.
  - rewrite pow10_4 in H4. exact H4.
Qed.

(* ---------- the PDS entries of a message ---------- *)
Lemma ir_pds_entries_in : forall m t v, In (t, v) (pds_entries m) <-> In (KPDS t, v) m.
Proof.
  unfold pds_entries.
  induction m as [|[k x] r IH]; intros t v; cbn [flat_map fst snd]; [tauto|].
  rewrite in_app_iff, IH. cbn [In]. destruct k; cbn [In]; split; intros [H|H].
  all: try (right; exact H).
  all: try (exfalso; exact H).
  all: try discriminate H.
  - destruct H as [H|[]]. inversion H. left. reflexivity.
  - inversion H. left. left. reflexivity.
Qed.

Lemma ir_pds_entries_nodup : forall m, nodup_keys m = true -> NoDup (map fst (pds_entries m)).
Proof.
  induction m as [|[k x] r IH]; intros Hn; [constructor|].
  cbn [nodup_keys] in Hn. apply andb_true_iff in Hn. destruct Hn as [Hn1 Hn2].
  apply negb_true_iff in Hn1. specialize (IH Hn2).
  unfold pds_entries in *. cbn [flat_map fst snd]. destruct k; cbn [app]; try exact IH.
  cbn [map fst]. constructor; [|exact IH].
  intro Hin. apply in_map_iff in Hin. destruct Hin as [[t v] [Ht Hin]]. cbn [fst] in Ht. subst t.
  apply (ir_pds_entries_in r tag v) in Hin.
  assert (E : existsb (fun kv => key_eqb (fst kv) (KPDS tag)) r = true).
  { apply existsb_exists. exists (KPDS tag, v). split; [exact Hin|]. apply ir_key_eqb_refl. }
  congruence.
Qed.

(* ---------- list facts ---------- *)
Lemma ir_nodup_app : forall {A} (a b : list A), NoDup (a ++ b) -> NoDup a /\ NoDup b.
Proof.
  induction a as [|x a IH]; intros b H; cbn [app] in H.
  - split; [constructor|exact H].
  - inversion H as [|y l Hx Hr]; subst. destruct (IH b Hr) as [Ha Hb]. split; [|exact Hb].
    constructor; [|exact Ha]. intro C. apply Hx. apply in_or_app. left. exact C.
Qed.

Lemma ir_nodup_map_inj : forall {A B} (f : A -> B) l a b, NoDup (map f l) -> In a l -> In b l ->
  f a = f b -> a = b.
Proof.
  induction l as [|x l IH]; intros a b Hn Ha Hb E; [destruct Ha|].
  cbn [map] in Hn. inversion Hn as [|y l' Hx Hr]; subst.
  destruct Ha as [Ha|Ha], Hb as [Hb|Hb].
  - congruence.
  - subst x. exfalso. apply Hx. rewrite E. apply in_map. exact Hb.
  - subst x. exfalso. apply Hx. rewrite <- E. apply in_map. exact Ha.
  - apply (IH a b Hr Ha Hb E).
Qed.

Lemma ir_nodup_concat : forall {A B} (f : A -> B) gs g, NoDup (map f (concat gs)) -> In g gs -> NoDup (map f g).
Proof.
  induction gs as [|g0 gs IH]; intros g Hn Hin; [destruct Hin|].
  cbn [concat] in Hn. rewrite map_app in Hn. apply ir_nodup_app in Hn. destruct Hn as [H1 H2].
  destruct Hin as [Hin|Hin]; [subst g0; exact H1|apply (IH g H2 Hin)].
Qed.

Lemma ir_firstn_in : forall {A} n (l : list A) x, In x (firstn n l) <-> exists i, i < n /\ nth_error l i = Some x.
Proof.
  induction n as [|n IH]; intros l x.
  - cbn [firstn]. split; [intros []|intros [i [H _]]; lia].
  - destruct l as [|y l]; cbn [firstn].
    + split; [intros []|intros [i [_ H]]; destruct i; discriminate].
    + cbn [In]. rewrite IH. split.
      * intros [H|[i [H1 H2]]]; [exists 0; split; [lia|subst; reflexivity]|exists (S i); split; [lia|exact H2]].
      * intros [[|i] [H1 H2]]; [left; inversion H2; reflexivity|right; exists i; split; [lia|exact H2]].
Qed.

(* ---------- a sorted permutation exists ---------- *)
Lemma ir_insert_exists : forall (x : N * str) r, StronglySorted N.lt (map fst r) -> ~ In (fst x) (map fst r) ->
  exists l, Permutation (x :: r) l /\ StronglySorted N.lt (map fst l).
Proof.
  intros x. induction r as [|y r IH]; intros Hs Hni.
  - exists [x]. split; [apply Permutation_refl|]. cbn [map]. constructor; constructor.
  - cbn [map] in Hs, Hni. inversion Hs as [|a l Hs' Hall]; subst.
    destruct (N.lt_trichotomy (fst x) (fst y)) as [Hlt|[Heq|Hgt]].
    + exists (x :: y :: r). split; [apply Permutation_refl|]. cbn [map]. constructor; [exact Hs|].
      constructor; [exact Hlt|]. eapply Forall_impl; [|exact Hall]. intros a Ha. cbv beta in Ha. lia.
    + exfalso. apply Hni. left. symmetry. exact Heq.
    + destruct (IH Hs') as [l [Hp Hl]].
      { intro C. apply Hni. right. exact C. }
      exists (y :: l). split.
      * eapply Permutation_trans; [apply perm_swap|]. apply perm_skip. exact Hp.
      * cbn [map]. constructor; [exact Hl|].
        apply (Permutation_Forall (Permutation_map fst Hp)). cbn [map]. constructor; [exact Hgt|exact Hall].
Qed.

Lemma ir_sort_exists : forall (l : list (N * str)), NoDup (map fst l) ->
  exists l', Permutation l l' /\ StronglySorted N.lt (map fst l').
Proof.
  induction l as [|x r IH]; intros Hn.
  - exists []. split; [constructor|constructor].
  - cbn [map] in Hn. inversion Hn as [|a l Hx Hr]; subst.
    destruct (IH Hr) as [r' [Hp Hs]].
    destruct (ir_insert_exists x r' Hs) as [l [Hp2 Hs2]].
    { intro C. apply Hx. apply (Permutation_in _ (Permutation_sym (Permutation_map fst Hp))). exact C. }
    exists l. split; [|exact Hs2].
    eapply Permutation_trans; [apply perm_skip; exact Hp|exact Hp2].
Qed.

Lemma ir_nodup_map_in : forall {A B} (f : A -> B) l,
  (forall a b, In a l -> In b l -> f a = f b -> a = b) -> NoDup l -> NoDup (map f l).
Proof.
  induction l as [|x l IH]; intros Hinj Hn; [constructor|].
  inversion Hn as [|y l' Hx Hr]; subst. cbn [map]. constructor.
  - intro C. apply in_map_iff in C. destruct C as [z [Hz1 Hz2]].
    assert (z = x) by (apply Hinj; [right; exact Hz2|left; reflexivity|exact Hz1]). subst z. contradiction.
  - apply IH; [|exact Hr]. intros a b Ha Hb. apply Hinj; right; assumption.
Qed.

(* ---------- the packing plan of a message with PDS keys ---------- *)
Definition ir_pds_num (e : str * value) : N * str :=
  (num_of (fst e), match snd e with VStr s => s | _ => [] end).

Definition ir_tv_ok (cd : codec) (tv : N * str) : Prop :=
  (fst tv < 10000)%N /\ length (snd tv) <= 992 /\ encodable cd (snd tv) = true.

Definition ir_kv (tv : N * str) : key * value := (KPDS (tag4 (fst tv)), VStr (snd tv)).

Lemma ir_pds_plan : forall cfg cd m, nodup_keys m = true ->
  (forall k v, In (k, v) m -> wf_entryb cfg cd true (k, v) = true) ->
  exists pds groups,
    NoDup (map fst pds) /\ Forall (ir_tv_ok cd) pds /\
    (forall t v, In (KPDS t, v) m -> exists tv, In tv pds /\ t = tag4 (fst tv) /\ v = VStr (snd tv)) /\
    concat groups = pds /\ pds_to_de m = Ok (map (flat_map sub_of) groups) /\
    Forall (fun c => 1 <= length c <= 999) (map (flat_map sub_of) groups).
Proof.
  intros cfg cd m Hnd Hent.
  assert (Hwfe : forall e, In e (pds_entries m) -> exists t s, e = (t, VStr s) /\ length t = 4 /\
            forallb ascii_digit t = true /\ length s <= 992 /\ encodable cd s = true).
  { intros [t v] Hin. apply ir_pds_entries_in in Hin. pose proof (Hent _ _ Hin) as Hw.
    cbn [wf_entryb] in Hw. destruct v as [s| | |]; try discriminate.
    apply andb_true_iff in Hw. destruct Hw as [Hw Hw4].
    apply andb_true_iff in Hw. destruct Hw as [Hw Hw3].
    apply andb_true_iff in Hw. destruct Hw as [Hw1 Hw2].
    apply Nat.eqb_eq in Hw1. apply Nat.leb_le in Hw3. exists t, s. auto. }
  set (raw := map ir_pds_num (pds_entries m)).
  assert (Hraw : map pds_entry raw = pds_entries m).
  { unfold raw. rewrite map_map. rewrite <- (map_id (pds_entries m)) at 2.
    apply map_ext_in. intros e He. destruct (Hwfe e He) as [t [s [E [H1 [H2 _]]]]]. subst e.
    unfold pds_entry, ir_pds_num. cbn [fst snd]. rewrite (proj1 (ir_tag4_num t H1 H2)). reflexivity. }
  assert (Hrawok : Forall (ir_tv_ok cd) raw).
  { unfold raw. rewrite Forall_map. apply Forall_forall. intros e He.
    destruct (Hwfe e He) as [t [s [E [H1 [H2 [H3 H4]]]]]]. subst e.
    unfold ir_tv_ok, ir_pds_num. cbn [fst snd]. split; [apply (ir_tag4_num t H1 H2)|]. auto. }
  assert (Hrawnd : NoDup (map fst raw)).
  { unfold raw. rewrite map_map.
    replace (map (fun x => fst (ir_pds_num x)) (pds_entries m)) with (map num_of (map fst (pds_entries m)))
      by (rewrite map_map; reflexivity).
    apply ir_nodup_map_in; [|apply ir_pds_entries_nodup; exact Hnd].
    intros a b Ha Hb E.
    apply in_map_iff in Ha. destruct Ha as [ea [Ea Ha]]. apply in_map_iff in Hb. destruct Hb as [eb [Eb Hb]].
    destruct (Hwfe ea Ha) as [ta [sa [Ea' [A1 [A2 _]]]]]. destruct (Hwfe eb Hb) as [tb [sb [Eb' [B1 [B2 _]]]]].
    subst ea eb. cbn [fst] in Ea, Eb. subst ta tb.
    rewrite <- (proj1 (ir_tag4_num a A1 A2)), <- (proj1 (ir_tag4_num b B1 B2)), E. reflexivity. }
  destruct (ir_sort_exists raw Hrawnd) as [pds [Hperm Hsort]].
  assert (Hpdsok : Forall (ir_tv_ok cd) pds) by (apply (Permutation_Forall Hperm); exact Hrawok).
  assert (Hwfp : wf_pds pds).
  { split; [exact Hsort|]. eapply Forall_impl; [|exact Hpdsok]. intros tv [H1 [H2 _]]. auto. }
  assert (Hpe : Permutation (pds_entries m) (map pds_entry pds)).
  { rewrite <- Hraw. apply Permutation_map. exact Hperm. }
  destruct (c12_packing pds m Hwfp Hpe) as [cs [groups [Hcs [Hconcat [Hcseq [_ Hlen]]]]]].
  subst cs. exists pds, groups.
  split; [apply (Permutation_NoDup (Permutation_map fst Hperm) Hrawnd)|].
  split; [exact Hpdsok|]. split; [|auto].
  intros t v Hin. apply ir_pds_entries_in in Hin. apply (Permutation_in _ Hpe) in Hin.
  apply in_map_iff in Hin. destruct Hin as [tv [E Hin]]. unfold pds_entry in E. inversion E; subst.
  exists tv. auto.
Qed.

(* ---------- the assignment, by membership ---------- *)
Lemma ir_assignment_in : forall m cs fields, length cs <= length fields -> NoDup fields ->
  exists m1, assign_pds m cs fields = Ok m1 /\
    (forall c, In c cs -> exists f, In f (firstn (length cs) fields) /\ lookup m1 (KDE f) = Some (VStr c)) /\
    (forall f, In f (firstn (length cs) fields) -> exists c, In c cs /\ lookup m1 (KDE f) = Some (VStr c)) /\
    (forall k, (forall f, In f (firstn (length cs) fields) -> k <> KDE f) -> lookup m1 k = lookup m k).
Proof.
  intros m cs fields Hl Hn. destruct (c12_assignment m cs fields Hl Hn) as [m1 [H0 [A1 A2]]].
  exists m1. split; [exact H0|]. split; [|split].
  - intros c Hc. apply In_nth_error in Hc. destruct Hc as [i Hi].
    destruct (A1 i c Hi) as [f [Hf1 Hf2]]. exists f. split; [|exact Hf2].
    apply ir_firstn_in. exists i. split; [|exact Hf1]. apply nth_error_Some. congruence.
  - intros f Hf. apply ir_firstn_in in Hf. destruct Hf as [i [Hi1 Hi2]].
    destruct (nth_error cs i) as [c|] eqn:Ec; [|apply nth_error_None in Ec; lia].
    destruct (A1 i c Ec) as [f' [Hf1 Hf2]]. rewrite Hi2 in Hf1. inversion Hf1; subst f'.
    exists c. split; [apply (nth_error_In _ _ Ec)|exact Hf2].
  - intros k Hk. apply A2. intros i f Hi1 Hi2. apply Hk. apply ir_firstn_in. exists i. auto.
Qed.

(* ---------- carriers ---------- *)
Lemma ir_proc_eqb_pds : forall p, proc_eqb p PPDS = true -> p = PPDS.
Proof. intros p H. destruct p; try discriminate. reflexivity. Qed.

(* NB: [pds_bits] and [carriers_okb] are only ever unfolded in the conclusion: converting a hypothesis makes the
   kernel evaluate [filter _ (seq 0 200)] on a variable configuration, which is exponential *)
Lemma ir_pds_bits_in : forall cfg f, In f (pds_bits cfg) <->
  f < 200 /\ match cfg_get cfg f with Some c => proc_eqb (f_proc c) PPDS | None => false end = true.
Proof.
  intros cfg f. unfold pds_bits. rewrite filter_In, in_seq. split; intros [H1 H2]; (split; [lia|exact H2]).
Qed.

Lemma ir_pds_bits_nodup : forall cfg, NoDup (pds_bits cfg).
Proof. intros cfg. unfold pds_bits. apply NoDup_filter. apply seq_NoDup. Qed.

Lemma ir_carriers_forall : forall cfg, carriers_okb cfg = true -> forall f, In f (pds_bits cfg) ->
  ((2 <=? f) && (f <=? 127) &&
   match cfg_get cfg f with
   | Some c => match f_type c, f_ptype c with LLLVAR, PTStr => true | _, _ => false end
   | None => false
   end) = true.
Proof.
  intros cfg. unfold carriers_okb. rewrite forallb_forall. intros H. exact H.
Qed.

Lemma ir_carrier_cfg : forall cfg f, carriers_okb cfg = true -> In f (pds_bits cfg) ->
  2 <= f <= 127 /\ exists c, cfg_get cfg f = Some c /\ f_type c = LLLVAR /\ f_ptype c = PTStr /\ f_proc c = PPDS.
Proof.
  intros cfg f Hc0 Hin. pose proof (ir_carriers_forall cfg Hc0 f Hin) as Hc.
  apply ir_pds_bits_in in Hin. destruct Hin as [_ Hp].
  apply andb_true_iff in Hc. destruct Hc as [Hc H3].
  apply andb_true_iff in Hc. destruct Hc as [H1 H2]. apply Nat.leb_le in H1, H2.
  split; [lia|]. destruct (cfg_get cfg f) as [c|]; [|discriminate].
  exists c. split; [reflexivity|]. apply ir_proc_eqb_pds in Hp.
  destruct (f_type c); try discriminate. destruct (f_ptype c); try discriminate. auto.
Qed.

Lemma ir_in_pds_bits : forall cfg b c, cfg_get cfg b = Some c -> f_proc c = PPDS -> b < 200 -> In b (pds_bits cfg).
Proof.
  intros cfg b c Hc Hp Hb. apply ir_pds_bits_in. split; [exact Hb|]. rewrite Hc, Hp. reflexivity.
Qed.

Lemma ir_encodable_sub : forall cd g, ir_digits_enc cd -> Forall (ir_tv_ok cd) g ->
  encodable cd (flat_map sub_of g) = true.
Proof.
  intros cd g Hdig. induction g as [|tv g IH]; intros H; [reflexivity|].
  inversion H as [|x l [_ [_ He]] Hr]; subst. cbn [flat_map]. rewrite encodable_app, (IH Hr), andb_true_r.
  unfold sub_of, tag4. rewrite !encodable_app, He, andb_true_r.
  rewrite !ir_encodable_digits by (try exact Hdig; apply digs_lt10). reflexivity.
Qed.

Lemma ir_chunk_wf : forall cd c chunk sub, f_type c = LLLVAR -> f_ptype c = PTStr -> f_proc c = PPDS ->
  encodable cd chunk = true -> 1 <= length chunk <= 999 -> pds_to_dict chunk = Ok sub ->
  wf_valb c cd (VStr chunk) = true.
Proof.
  intros cd c chunk sub Ht Hpt Hp He Hl Hs. unfold wf_valb. rewrite Hpt, Hp, He, Hs.
  unfold len_okb. rewrite Ht. cbn [is_var vmax is_ok andb].
  rewrite andb_true_r. apply andb_true_iff. split; apply Nat.leb_le; lia.
Qed.

Lemma ir_pair_inj : forall (t t' s : str) (x : value), (KPDS t, VStr s) = (KPDS t', x) -> t = t' /\ VStr s = x.
Proof. intros t t' s x H. inversion H. auto. Qed.

Lemma ir_bit_range_lt : forall b, In b bit_range -> b < 200.
Proof. intros b H. unfold bit_range in H. apply in_seq in H. lia. Qed.

Lemma ir_roundtrip_pds : forall cfg cd hexbm m,
  wf_cfgb cfg = true -> codec_okb cd = true -> wf_msgb cfg cd m = true -> ir_has_pds m = true ->
  exists b d, dumps cfg cd hexbm m = Ok b /\ loads cfg cd hexbm b = Ok d /\
    (forall k v, lookup m k = Some v -> lookup d k = Some (expected cfg k v)) /\
    (forall k, lookup d k <> None -> lookup m k <> None \/ derived_key cfg k = true).
Proof.
  intros cfg cd hexbm m Hcfg Hcd Hm Hhp.
  destruct (ir_wf_msg_parts cfg cd m Hm) as [Hnd [[mti [Hmti [Hl4 [Hasc Henc]]]] [Hent [Hdig Hp]]]].
  destruct Hp as [Hp|[_ [Hcar [cs [Hcs Hlen]]]]]; [congruence|].
  rewrite Hhp in Hent.
  destruct (ir_pds_plan cfg cd m Hnd Hent) as [pds [groups [Hpnd [Hpok [Hpin [Hconcat [Hpd Hclen]]]]]]].
  rewrite Hpd in Hcs. injection Hcs as Hcseq.
  destruct (ir_assignment_in m cs (pds_bits cfg) Hlen (ir_pds_bits_nodup cfg)) as [m1 [Hm1 [A1 [A2 A3]]]].
  set (asg := firstn (length cs) (pds_bits cfg)) in *.
  assert (Hasg : forall f, In f asg -> In f (pds_bits cfg)).
  { intros f Hf. apply ir_firstn_in in Hf. destruct Hf as [i [_ Hi]]. apply (nth_error_In _ _ Hi). }
  assert (Hgrp : forall g, In g groups ->
     Forall (ir_tv_ok cd) g /\ 1 <= length (flat_map sub_of g) <= 999 /\
     pds_to_dict (flat_map sub_of g) = Ok (map ir_kv g) /\ (forall tv, In tv g -> In tv pds)).
  { intros g Hg.
    assert (Hincl : forall tv, In tv g -> In tv pds).
    { intros tv Htv. rewrite <- Hconcat. apply in_concat. exists g. auto. }
    assert (Hok : Forall (ir_tv_ok cd) g).
    { apply Forall_forall. intros tv Htv. rewrite Forall_forall in Hpok. apply Hpok. apply Hincl. exact Htv. }
    split; [exact Hok|]. split.
    - rewrite Forall_forall in Hclen. apply Hclen. apply in_map. exact Hg.
    - split; [|exact Hincl]. apply c12_recovery.
      + apply (ir_nodup_concat fst groups g); [rewrite Hconcat; exact Hpnd|exact Hg].
      + eapply Forall_impl; [|exact Hok]. intros tv [H1 [H2 _]]. split; [exact H1|]. apply (Nat.le_trans _ 992); [exact H2|lia]. }
  assert (Huniq : forall tv tv', In tv pds -> In tv' pds -> tag4 (fst tv) = tag4 (fst tv') -> tv = tv').
  { intros tv tv' H1 H2 E. apply (ir_nodup_map_inj fst pds tv tv' Hpnd H1 H2).
    rewrite Forall_forall in Hpok. apply tag4_inj; [apply (Hpok _ H1)|apply (Hpok _ H2)|exact E]. }
  assert (H4 : forall n c, cfg_get cfg n = Some c -> f_proc c <> PPDS -> lookup m1 (KDE n) = lookup m (KDE n)).
  { intros n c Hc Hnp. apply A3. intros f Hf E. inversion E; subst f.
    destruct (ir_carrier_cfg cfg n Hcar (Hasg _ Hf)) as [_ [c' [Hc' [_ [_ Hp']]]]]. congruence. }
  assert (H3 : forall n v, lookup m (KDE n) = Some v -> lookup m1 (KDE n) = Some v).
  { intros n v Hl. pose proof (Hent _ _ (ir_lookup_in _ _ _ Hl)) as Hw.
    destruct (ir_entry_wf_field cfg cd true n v Hcfg Hw) as [_ [c [Hc [_ [_ Hnp]]]]].
    rewrite (H4 n c Hc (Hnp eq_refl)). exact Hl. }
  assert (Hcar_of : forall b c0 v, cfg_get cfg b = Some c0 -> f_proc c0 = PPDS ->
            lookup m1 (KDE b) = Some v -> exists g, In g groups /\ v = VStr (flat_map sub_of g)).
  { intros b c0 v Hc0 Hp0 Hl.
    destruct (in_dec Nat.eq_dec b asg) as [Hin|Hnin].
    - destruct (A2 b Hin) as [c [Hc1 Hc2]]. rewrite Hl in Hc2. inversion Hc2; subst v.
      rewrite <- Hcseq in Hc1. apply in_map_iff in Hc1. destruct Hc1 as [g [Eg Hg]]. exists g. subst c. auto.
    - exfalso. rewrite A3 in Hl.
      + pose proof (Hent _ _ (ir_lookup_in _ _ _ Hl)) as Hw.
        destruct (ir_entry_wf_field cfg cd true b v Hcfg Hw) as [_ [c [Hc [_ [_ Hnp]]]]].
        rewrite Hc0 in Hc. inversion Hc; subst c. exact (Hnp eq_refl Hp0).
      + intros f Hf E. inversion E; subst f. contradiction. }
  apply (ir_assemble cfg cd hexbm true m m1 cs mti Hcd Hdig Hent Hmti Hl4 Hasc Henc).
  - rewrite Hpd, Hcseq. reflexivity.
  - exact Hm1.
  - intros b v Hb Hl.
    destruct (in_dec Nat.eq_dec b asg) as [Hin|Hnin].
    + destruct (ir_carrier_cfg cfg b Hcar (Hasg _ Hin)) as [_ [c [Hc [Ht [Hpt Hp]]]]].
      destruct (Hcar_of b c v Hc Hp Hl) as [g [Hg Ev]]. subst v.
      destruct (Hgrp g Hg) as [G1 [G2 [G3 _]]].
      exists c. split; [exact Hc|]. split; [apply (ir_cfg_wf cfg b c Hcfg Hc)|].
      apply (ir_chunk_wf cd c _ _ Ht Hpt Hp (ir_encodable_sub cd g Hdig G1) G2 G3).
    + rewrite A3 in Hl.
      * pose proof (Hent _ _ (ir_lookup_in _ _ _ Hl)) as Hw.
        destruct (ir_entry_wf_field cfg cd true b v Hcfg Hw) as [_ [c [Hc [Hwc [Hwv _]]]]]. exists c. auto.
      * intros f Hf E. inversion E; subst f. contradiction.
  - exact H3.
  - exact H4.
  - intros ents Hents t v Hin.
    destruct (Hpin t v Hin) as [tv [Htv [Et Ev]]]. subst t v.
    rewrite <- Hconcat in Htv. apply in_concat in Htv. destruct Htv as [g [Hg Htvg]].
    destruct (Hgrp g Hg) as [G1 [G2 [G3 G4]]].
    split.
    + destruct (A1 (flat_map sub_of g)) as [f [Hf1 Hf2]].
      { rewrite <- Hcseq. apply in_map. exact Hg. }
      destruct (ir_carrier_cfg cfg f Hcar (Hasg _ Hf1)) as [Hfr [c [Hc [Ht [Hpt Hp]]]]].
      assert (Hpres : In f (filter (ir_pres m1) bit_range)).
      { apply filter_In. split; [apply ir_in_bit_range; lia|]. unfold ir_pres. rewrite Hf2.
        destruct (flat_map sub_of g); [cbn [length] in G2; lia|reflexivity]. }
      destruct (ir_forall2_concat_of _ _ _ _ Hents Hpres) as [es [[c' [v' [Hc' [Hv' Hfe]]]] Hsub]].
      rewrite Hc in Hc'. inversion Hc'; subst c'. rewrite Hf2 in Hv'. inversion Hv'; subst v'.
      apply Hsub. apply (ir_fent_sub f c _ es _ _ _ Hfe Hp G3).
      * apply (in_map ir_kv g tv Htvg).
      * intros x' Hx'. apply in_map_iff in Hx'. destruct Hx' as [tv' [E' Htv']].
        unfold ir_kv in E'. apply ir_pair_inj in E'. destruct E' as [E1 E2]. subst x'.
        assert (Etv : tv' = tv) by (apply Huniq; [apply G4; exact Htv'|apply G4; exact Htvg|exact E1]).
        subst tv'. reflexivity.
    + intros x Hx.
      destruct (ir_forall2_concat_in _ _ _ _ Hents Hx) as [b [es [Hb [[c [v [Hc [Hv Hfe]]]] Hxe]]]].
      destruct (ir_fent_in _ _ _ _ _ _ Hfe Hxe) as [[K _]|[[Hp [_ [s [sub [Ev [Hsub Hxs]]]]]]|[K|[p0 [s0 [_ [_ [K _]]]]]]]];
        try discriminate.
      subst v. destruct (Hcar_of b c _ Hc Hp Hv) as [g' [Hg' Eg']]. inversion Eg'; subst s.
      destruct (Hgrp g' Hg') as [G1' [G2' [G3' G4']]]. rewrite G3' in Hsub. inversion Hsub; subst sub.
      apply in_map_iff in Hxs. destruct Hxs as [tv' [E' Htv']].
      unfold ir_kv in E'. apply ir_pair_inj in E'. destruct E' as [E1 E2]. subst x.
      assert (Etv : tv' = tv) by (apply Huniq; [apply G4'; exact Htv'|apply G4; exact Htvg|exact E1]).
      subst tv'. reflexivity.
Qed.

(* ====================================================================== C01 *)

Theorem c01_roundtrip : forall cfg cd hexbm m,
  wf_cfgb cfg = true -> codec_okb cd = true -> wf_msgb cfg cd m = true ->
  exists b d, dumps cfg cd hexbm m = Ok b /\ loads cfg cd hexbm b = Ok d /\
    (forall k v, lookup m k = Some v -> lookup d k = Some (expected cfg k v)) /\
    (forall k, lookup d k <> None -> lookup m k <> None \/ derived_key cfg k = true).
Proof.
  intros cfg cd hexbm m Hcfg Hcd Hm. destruct (ir_has_pds m) eqn:Hp.
  - apply ir_roundtrip_pds; assumption.
  - apply ir_roundtrip_nopds; assumption.
Qed.

(* the hypotheses hold for the packaged configuration and every generated codec table *)
Theorem c01_packaged_domain :
  wf_cfgb CU.gen.GenConfig.packaged_bit_config = true /\
  forallb (fun nt => codec_okb (mkcodec (snd nt))) CU.gen.GenCodec.codec_tables = true.
Proof. split; vm_compute; reflexivity. Qed.

(* a decimal element of a well-formed message: its value is the text of a plain decimal, exactly as Python prints it,
   and that same text is what decoding the encoded message returns for the element *)
Theorem c01_decimal_message : forall cfg cd hexbm m n c v,
  wf_cfgb cfg = true -> codec_okb cd = true -> wf_msgb cfg cd m = true ->
  cfg_get cfg n = Some c -> f_ptype c = PTDec -> lookup m (KDE n) = Some v ->
  exists t w d b dd,
    v = VStr t /\ f_len c = Some w /\ 1 <= w /\ f_proc c = PNone /\
    dec_parse t = DPlain d /\ wf_decb d = true /\ dec_str d = Some t /\
    pytype_to_string v c = Ok (VStr (dec_fmt w d)) /\
    dumps cfg cd hexbm m = Ok b /\ loads cfg cd hexbm b = Ok dd /\ lookup dd (KDE n) = Some (VStr t).
Proof.
  intros cfg cd hexbm m n c v Hcfg Hcd Hm Hc Hpt Hl.
  destruct (ir_wf_msg_parts cfg cd m Hm) as [_ [_ [Hent _]]].
  pose proof (Hent _ _ (ir_lookup_in _ _ _ Hl)) as Hw.
  destruct (ir_entry_wf_field cfg cd _ n v Hcfg Hw) as [_ [c' [Hc' [Hwc [Hwv _]]]]].
  rewrite Hc in Hc'. inversion Hc'; subst c'. clear Hc'.
  unfold wf_fieldb in Hwc. unfold wf_valb in Hwv. rewrite Hpt in Hwc, Hwv.
  destruct (f_len c) as [w|] eqn:Hfl; [|discriminate].
  destruct v as [t| | |]; try discriminate.
  destruct (dec_parse t) as [d| |] eqn:Edp; try discriminate.
  apply andb_true_iff in Hwc. destruct Hwc as [Hw1 Hpr]. apply Nat.leb_le in Hw1.
  assert (Hproc : f_proc c = PNone) by (destruct (f_proc c); try discriminate; reflexivity).
  apply andb_true_iff in Hwv. destruct Hwv as [Hwv _].
  apply andb_true_iff in Hwv. destruct Hwv as [Hwv _].
  apply andb_true_iff in Hwv. destruct Hwv as [H1 H2].
  destruct (dec_str d) as [t'|] eqn:Est; [|discriminate].
  apply ir_str_eqb_eq in H2. subst t'.
  destruct (c01_roundtrip cfg cd hexbm m Hcfg Hcd Hm) as [b [dd [Hd [Hld [C1 _]]]]].
  exists t, w, d, b, dd.
  repeat (split; [first [reflexivity | assumption]|]).
  split.
  - exact (proj1 (dec_element_roundtrip c w d t Hpt Hfl Hw1 H1 Est)).
  - split; [exact Hd|]. split; [exact Hld|].
    rewrite (C1 _ _ Hl). rewrite (ir_expected_fexp cfg n c _ Hc). unfold ir_fexp. rewrite Hproc. reflexivity.
Qed.
