(* IsoTotal.v — totality of decoding (C07): the walks, the element loop, `loads` and the VBS / IPM readers
   return a value, the library's data error, or `Unmodelled`; never another exception, never OutOfFuel. *)
From Coq Require Import List Arith NArith ZArith Bool Lia.
From Coq Require Import Strings.Byte.
Require Import CU.model.Prim CU.model.Types CU.model.Unicode CU.model.Regex CU.model.Codec CU.model.Dates CU.model.Card CU.model.Iso.
Require Import CU.model.Block CU.model.Vbs CU.model.Ipm CU.spec.FramingSpec.
Require Import CU.proofs.BlockProofs CU.proofs.VbsProofs CU.proofs.NumProofs CU.proofs.IsoFraming.
Require CU.gen.GenConfig.
Import ListNotations.
Open Scope nat_scope.

(* ====================================================================== the definitions of props/C07.v *)
Definition benign {A} (r : result A) : Prop :=
  match r with Ok _ | Raise EData | Unmodelled => True | _ => False end.

Definition has_lengths (cfg : cfgT) : Prop := forall n c, cfg_get cfg n = Some c -> f_len c <> None.

(* the merchant-field processor splits text: a configuration that puts it, WITH a pattern, on an int / datetime element is a
   caller error (re.match then raises TypeError whatever the message says); without a pattern it does nothing *)
Definition de43_text (c : fieldcfg) : Prop := f_proc c = PDE43 -> f_ptype c <> PTStr -> f_de43 c = D43None.
Definition de43_on_text (cfg : cfgT) : Prop :=
  forall n c, cfg_get cfg n = Some c -> f_proc c = PDE43 -> f_ptype c <> PTStr -> f_de43 c = D43None.

Lemma it_benign_bind {A B} (r : result A) (k : A -> result B) :
  benign r -> (forall a, r = Ok a -> benign (k a)) -> benign (bind r k).
Proof.
  destruct r as [a|e| |]; cbn [bind]; intros H K.
  - apply K. reflexivity.
  - destruct e; solve [exact I | contradiction H].
  - contradiction H.
  - exact I.
Qed.

Lemma it_total_benign {A} (r : result A) : (r = Raise EData \/ exists d, r = Ok d) -> benign r.
Proof. intros [E|[d E]]; rewrite E; exact I. Qed.

(* ====================================================================== the sub-element walks *)
Lemma it_pds_walk_total : forall fuel fd ptr acc, length fd - ptr < fuel ->
  pds_walk fuel fd ptr acc = Raise EData \/ exists d, pds_walk fuel fd ptr acc = Ok d.
Proof.
  induction fuel as [|k IH]; intros fd ptr acc H; [lia|]. cbn [pds_walk].
  destruct (ptr <? length fd) eqn:E; [|right; eexists; reflexivity]. apply Nat.ltb_lt in E.
  destruct (py_int (slice (ptr + 4) (ptr + 7) fd)) as [L|]; [|left; reflexivity].
  destruct (L <? 0)%Z; [left; reflexivity|]. apply IH. lia.
Qed.

Lemma c07_pds_walk_total : forall s, pds_to_dict s = Raise EData \/ exists d, pds_to_dict s = Ok d.
Proof. intros s. unfold pds_to_dict. apply it_pds_walk_total. lia. Qed.

Lemma it_icc_walk_total : forall fuel fd ptr acc, length fd - ptr < fuel ->
  icc_walk fuel fd ptr acc = Raise EData \/ exists d, icc_walk fuel fd ptr acc = Ok d.
Proof.
  induction fuel as [|k IH]; intros fd ptr acc H; [lia|]. cbn [icc_walk].
  destruct (ptr <? length fd) eqn:E; [|right; eexists; reflexivity]. apply Nat.ltb_lt in E.
  assert (S : forall tag ptr1, ptr < ptr1 ->
    (if str_eqb (hexlify tag) [48; 48]%N then Ok acc
     else match slice ptr1 (ptr1 + 1) fd with
          | [lb] => icc_walk k fd (ptr1 + 1 + N.to_nat (Byte.to_N lb))
                      (dset acc (KTAG (upper (hexlify tag)))
                         (VStr (hexlify (slice (ptr1 + 1) (ptr1 + N.to_nat (Byte.to_N lb) + 1) fd))))
          | _ => Raise EData
          end) = Raise EData \/
    exists d, (if str_eqb (hexlify tag) [48; 48]%N then Ok acc
     else match slice ptr1 (ptr1 + 1) fd with
          | [lb] => icc_walk k fd (ptr1 + 1 + N.to_nat (Byte.to_N lb))
                      (dset acc (KTAG (upper (hexlify tag)))
                         (VStr (hexlify (slice (ptr1 + 1) (ptr1 + N.to_nat (Byte.to_N lb) + 1) fd))))
          | _ => Raise EData
          end) = Ok d).
  { intros tag ptr1 Hp. destruct (str_eqb (hexlify tag) [48; 48]%N); [right; eexists; reflexivity|].
    destruct (slice ptr1 (ptr1 + 1) fd) as [|lb [|x y]]; [left; reflexivity| |left; reflexivity].
    apply IH. lia. }
  destruct (slice ptr (ptr + 1) fd) as [|b [|x y]]; [apply S; lia| |apply S; lia].
  destruct (two_byte_prefix b); apply S; lia.
Qed.

Lemma c07_icc_walk_total : forall b, icc_to_dict b = Raise EData \/ exists d, icc_to_dict b = Ok d.
Proof. intros b. unfold icc_to_dict. apply it_icc_walk_total. lia. Qed.

(* ====================================================================== one element *)
Lemma it_catch_decode cd b : benign (catch (decode cd b) (exn_eqb EUnicode) EData).
Proof. destruct (decode_outcomes cd b) as [[s E]|E]; rewrite E; exact I. Qed.

Lemma it_s2p_benign s c : benign (catch (string_to_pytype s c) is_valueerror EData).
Proof.
  unfold string_to_pytype. destruct (f_ptype c).
  - exact I.
  - destruct (py_int s); exact I.
  - destruct (CU.model.Dec.dec_parse s) as [d| |]; [destruct (CU.model.Dec.dec_str d)| |]; exact I.
  - destruct (strptime_outcomes (f_datefmt c) s) as [[d E]|[E|E]]; rewrite E; exact I.
Qed.

Lemma it_flen_benign c D cd fl0 : benign (flen c D cd fl0).
Proof.
  unfold flen. destruct (0 <? psize (f_type c)); [|exact I].
  apply it_benign_bind; [apply it_catch_decode|]. intros s _.
  destruct (py_int s) as [z|]; [|exact I]. destruct (z <? 0)%Z; exact I.
Qed.

Lemma it_fbody_benign bit c D cd fl : de43_text c -> benign (fbody bit c D cd fl).
Proof.
  unfold fbody, de43_text. set (raw := slice (psize (f_type c)) (psize (f_type c) + fl) D).
  intros HD. destruct (f_proc c).
  1, 2, 3:
    apply it_benign_bind; [apply it_catch_decode|]; intros s0 _;
    apply it_benign_bind; [apply it_s2p_benign|]; intros v _; exact I.
  - destruct (f_ptype c); try exact I.
    apply it_benign_bind; [apply it_total_benign, c07_icc_walk_total|]. intros sub _. exact I.
  - apply it_benign_bind; [apply it_catch_decode|]. intros s0 _.
    apply it_benign_bind; [apply it_s2p_benign|]. intros v _.
    destruct v as [t|z|bb|dd]; try exact I.
    apply it_benign_bind; [apply it_total_benign, c07_pds_walk_total|]. intros sub _. exact I.
  - apply it_benign_bind; [apply it_catch_decode|]. intros s0 _.
    apply it_benign_bind; [apply it_s2p_benign|]. intros v Hv. apply if_catch_ok in Hv.
    assert (HN : (forall t, v <> VStr t) -> f_de43 c = D43None).
    { intros Hn. apply HD; [reflexivity|]. intros Ep. unfold string_to_pytype in Hv. rewrite Ep in Hv.
      inversion Hv; subst v. eapply Hn; reflexivity. }
    destruct v as [t|z|bb|dd]; try (rewrite HN by discriminate; exact I).
    destruct (de43_fields (f_de43 c) t); exact I.
Qed.

Lemma it_field_benign bit c D cd : f_len c <> None -> de43_text c -> benign (iso_to_field bit c D cd).
Proof.
  intros HL HD. rewrite iso_to_field_eq. destruct (f_len c) as [fl0|]; [|congruence].
  apply it_benign_bind; [apply it_flen_benign|]. intros fl _. apply it_fbody_benign. exact HD.
Qed.

(* ====================================================================== the element loop and loads *)
Lemma it_dec_fields_benign cfg cd present data : has_lengths cfg -> de43_on_text cfg ->
  forall bits ptr acc, benign (dec_fields cfg cd present bits data ptr acc).
Proof.
  intros HL HD. induction bits as [|b bs IH]; intros ptr acc; cbn [dec_fields]; [exact I|].
  destruct (present b); [|apply IH].
  destruct (cfg_get cfg b) as [c|] eqn:Ec; [|exact I].
  apply it_benign_bind; [apply it_field_benign; [eapply HL; exact Ec|exact (HD b c Ec)]|].
  intros [es inc] _. apply IH.
Qed.

Lemma c07_loads_total : forall cfg cd hexbm b, has_lengths cfg -> de43_on_text cfg -> benign (loads cfg cd hexbm b).
Proof.
  intros cfg cd hexbm b HL HD. unfold loads.
  destruct (length b <? (if hexbm then 36 else 20)); [exact I|].
  apply it_benign_bind.
  { destruct hexbm; [|exact I]. destruct (unhexlify (ascii_str (slice 4 36 b))); exact I. }
  intros bm _. apply it_benign_bind; [apply it_catch_decode|]. intros mti _.
  destruct (py_int mti) as [z|]; [|exact I].
  apply it_benign_bind; [apply it_dec_fields_benign; [exact HL|exact HD]|]. intros [d p] _.
  destruct (Nat.eqb p (length (skipn (if hexbm then 36 else 20) b))); exact I.
Qed.

(* ====================================================================== VBS reader *)
Lemma it_parse_total maxlen : forall fuel p recno acc, length p < fuel ->
  exists rs e, parse maxlen fuel p recno acc = Ok (rs, e).
Proof.
  induction fuel as [|k IH]; intros p recno acc H; [lia|]. cbn [parse].
  destruct (negb (Nat.eqb (length (firstn 4 p)) 4)) eqn:E4; [eauto|].
  apply negb_false_iff, Nat.eqb_eq in E4. rewrite firstn_length in E4.
  destruct (maxlen <? unbe (firstn 4 p))%N; [eauto|].
  destruct (unbe (firstn 4 p) =? 0)%N; [eauto|].
  match goal with |- context [negb ?x] => destruct (negb x) end; [eauto|].
  apply IH. rewrite !skipn_length. lia.
Qed.

Lemma c07_vbs_reader_total : forall B maxlen f blocked, 0 < B ->
  exists rs e, read_all B maxlen f blocked = Ok (rs, e).
Proof.
  intros B maxlen f blocked HB. destruct blocked.
  - rewrite (read_all_blocked B HB). apply it_parse_total.
    pose proof (payload_length_le B f). lia.
  - rewrite (read_all_plain B). apply it_parse_total. lia.
Qed.

(* ====================================================================== IPM reader *)
Section Reader.
Variable B : nat.
Variable maxlen : N.

Lemma it_rnext_total r : sok B (rstream r) ->
  exists r' o, rnext B maxlen r = Ok (r', o) /\ sok B (rstream r') /\
    (forall rec, o = RRec rec -> length (srem B (rstream r')) < length (srem B (rstream r))).
Proof.
  intros Hok. unfold rnext.
  destruct (sread_spec B (rstream r) 4 Hok ltac:(lia)) as (s1 & E1 & R1 & Ok1).
  rewrite E1. cbn [bind]. set (raw := firstn 4 (srem B (rstream r))).
  destruct (negb (Nat.eqb (length raw) 4)) eqn:E4.
  { eexists _, _. split; [reflexivity|]. split; [exact Ok1|]. intros rec Hr. discriminate Hr. }
  destruct (maxlen <? unbe raw)%N.
  { eexists _, _. split; [reflexivity|]. split; [exact Ok1|]. intros rec Hr. discriminate Hr. }
  destruct (unbe raw =? 0)%N eqn:E0.
  { eexists _, _. split; [reflexivity|]. split; [exact Ok1|]. intros rec Hr. discriminate Hr. }
  apply N.eqb_neq in E0.
  destruct (sread_spec B s1 (N.to_nat (unbe raw)) Ok1 ltac:(lia)) as (s2 & E2 & R2 & Ok2).
  rewrite E2. cbn [bind].
  match goal with |- context [negb ?x] => destruct (negb x) end.
  { eexists _, _. split; [reflexivity|]. split; [exact Ok2|]. intros rec Hr. discriminate Hr. }
  eexists _, _. split; [reflexivity|]. cbn [rstream]. split; [exact Ok2|]. intros rec _.
  rewrite R2, R1, !skipn_length.
  apply negb_false_iff, Nat.eqb_eq in E4. unfold raw in E4. rewrite firstn_length in E4. lia.
Qed.

Variable cfg : cfgT.
Variable cd : codec.
Hypothesis HL : has_lengths cfg.
Hypothesis HD : de43_on_text cfg.

Lemma it_inext_total r : sok B (rstream r) ->
  (exists r' o, inext B maxlen cfg cd r = Ok (r', o) /\ sok B (rstream r') /\
     (forall d, o = IRec d -> length (srem B (rstream r')) < length (srem B (rstream r))))
  \/ inext B maxlen cfg cd r = Unmodelled.
Proof.
  intros Hok. unfold inext.
  destruct (it_rnext_total r Hok) as (r' & o & E & Ok' & Hlt). rewrite E. cbn [bind].
  destruct o as [rec| |n ctx].
  - pose proof (c07_loads_total cfg cd false rec HL HD) as Hb.
    destruct (loads cfg cd false rec) as [d|e| |].
    + left. eexists _, _. split; [reflexivity|]. split; [exact Ok'|]. intros d' _. apply (Hlt rec). reflexivity.
    + destruct e; try contradiction Hb.
      left. eexists _, _. split; [reflexivity|]. split; [exact Ok'|]. intros d' Hd. discriminate Hd.
    + contradiction Hb.
    + right. reflexivity.
  - left. eexists _, _. split; [reflexivity|]. split; [exact Ok'|]. intros d' Hd. discriminate Hd.
  - left. eexists _, _. split; [reflexivity|]. split; [exact Ok'|]. intros d' Hd. discriminate Hd.
Qed.

Lemma it_iread_benign : forall fuel r acc, sok B (rstream r) -> length (srem B (rstream r)) < fuel ->
  benign (iread_all_fuel B maxlen cfg cd fuel r acc).
Proof.
  induction fuel as [|k IH]; intros r acc Hok H; [lia|]. cbn [iread_all_fuel].
  destruct (it_inext_total r Hok) as [(r' & o & E & Ok' & Hlt)|E]; rewrite E; cbn [bind]; [|exact I].
  destruct o as [d| |n ctx]; [|exact I|exact I].
  apply IH; [exact Ok'|]. specialize (Hlt d eq_refl). lia.
Qed.

End Reader.

Lemma c07_ipm_reader_total : forall B maxlen cfg cd f blocked, 0 < B -> has_lengths cfg -> de43_on_text cfg ->
  benign (iread_all B maxlen cfg cd f blocked).
Proof.
  intros B maxlen cfg cd f blocked HB HL HD. unfold iread_all. apply it_iread_benign; [exact HL|exact HD| |].
  - destruct blocked; cbn [rinit sopen rstream sok]; [exact HB|exact I].
  - destruct blocked; cbn [rinit sopen rstream srem].
    + rewrite (urem_init B HB). pose proof (payload_length_le B f). lia.
    + cbn [fopen fpos fdata skipn]. lia.
Qed.

(* ====================================================================== the packaged configuration *)
Definition it_saneb (c : fieldcfg) : bool :=
  match f_len c with Some _ => true | None => false end &&
  match f_proc c, f_ptype c, f_de43 c with
  | PDE43, PTStr, _ | PDE43, _, D43None => true
  | PDE43, _, _ => false
  | _, _, _ => true
  end.

Lemma it_cfg_get_in : forall cfg n c, cfg_get cfg n = Some c -> exists b, In (b, c) cfg.
Proof.
  induction cfg as [|[b0 c0] r IH]; intros n c H; cbn [cfg_get] in H; [discriminate H|].
  destruct (Nat.eqb b0 n).
  - inversion H; subst. exists b0. left. reflexivity.
  - destruct (IH n c H) as (b & Hb). exists b. right. exact Hb.
Qed.

Lemma it_saneb_sound cfg : forallb (fun bc => it_saneb (snd bc)) cfg = true -> has_lengths cfg /\ de43_on_text cfg.
Proof.
  intros H. rewrite forallb_forall in H.
  assert (S : forall n c, cfg_get cfg n = Some c -> it_saneb c = true).
  { intros n c Hc. destruct (it_cfg_get_in cfg n c Hc) as (b & Hb). exact (H (b, c) Hb). }
  split; intros n c Hc; specialize (S n c Hc); unfold it_saneb in S; apply andb_true_iff in S; destruct S as [S1 S2].
  - intros E. rewrite E in S1. discriminate S1.
  - intros Ep Et. rewrite Ep in S2. destruct (f_ptype c); [contradiction Et; reflexivity| | |];
      (destruct (f_de43 c); [reflexivity|discriminate S2|discriminate S2]).
Qed.

Lemma c07_packaged_sane : has_lengths CU.gen.GenConfig.packaged_bit_config /\ de43_on_text CU.gen.GenConfig.packaged_bit_config.
Proof. apply it_saneb_sound. vm_compute. reflexivity. Qed.
