(* IsoWire.v — C02: the encoder of model/Iso.v (dumps / enc_fields / field_to_iso / bitmap_of) produces exactly the
   documented wire layout of spec/IsoSpec.v (present_elems / elem_wire / wire_body / bit_set).
   Plan: (1) one element: field_to_iso returns => elem_wire is defined and equal; (2) the loop over the bits equals the
   declarative body; (3) bitmap_of is 16 bytes whose bit n is "n = 1 or element n present"; (4) MTI clause read off dumps;
   (5) over-long variable values are refused; (6) hex rendering of the bitmap. *)
From Coq Require Import List NArith ZArith Bool Arith Lia ZifyBool ZifyNat ZifyN.
From Coq Require Import Strings.Byte.
Require Import CU.model.Prim CU.model.Types CU.model.Unicode CU.model.Codec CU.model.Dates CU.model.Iso CU.spec.IsoSpec.
Require Import CU.proofs.NumProofs.
Import ListNotations.
Open Scope nat_scope.

(* ---------------------------------------------------------------- small facts *)
Lemma iw_ok_inj : forall (A : Type) (a b : A), Ok a = Ok b -> a = b.
Proof. intros A a b H. congruence. Qed.

Lemma iw_psize_var : forall t, (0 <? psize t) = is_var t.
Proof. intros t. destruct t; reflexivity. Qed.

Lemma iw_var_bound : forall t n, is_var t = true ->
  (10 ^ N.of_nat (psize t) <=? N.of_nat n)%N = negb (n <=? vmax t).
Proof.
  intros t n Hv. destruct t; try discriminate Hv; cbn [psize vmax].
  - rewrite pow10_2. destruct (N.leb_spec 100 (N.of_nat n)), (Nat.leb_spec n 99); cbn [negb]; try reflexivity; lia.
  - rewrite pow10_3. destruct (N.leb_spec 1000 (N.of_nat n)), (Nat.leb_spec n 999); cbn [negb]; try reflexivity; lia.
Qed.

Lemma iw_var_psize_pos : forall t, is_var t = true -> 0 < psize t.
Proof. intros t Hv. destruct t; try discriminate Hv; cbn [psize]; lia. Qed.

Lemma iw_var_pow : forall t n, is_var t = true -> n <= vmax t -> (N.of_nat n < 10 ^ N.of_nat (psize t))%N.
Proof.
  intros t n Hv Hn. destruct t; try discriminate Hv; cbn [psize vmax] in *.
  - rewrite pow10_2. lia.
  - rewrite pow10_3. lia.
Qed.

Lemma iw_ljust_exact : forall s, ljust (length s) s = s.
Proof.
  intros s. unfold ljust. rewrite firstn_all, Nat.sub_diag. cbn [repeat]. apply app_nil_r.
Qed.

(* ---------------------------------------------------------------- the two renderings, branch by branch *)
Definition iw_opt (r : result bytes) : option bytes := match r with Ok b => Some b | _ => None end.

Definition iw_model_str (c : fieldcfg) (cd : codec) (s : str) : result bytes :=
  let ls := psize (f_type c) in
  if 0 <? ls then
    let n := length s in
    if (10 ^ N.of_nat ls <=? N.of_nat n)%N then Raise EData
    else do p <- encode cd (fmt0 ls (N.of_nat n)); do b <- encode cd (ljust n s); Ok (p ++ b)
  else match f_len c with
       | Some n => encode cd (ljust n s)
       | None => Unmodelled
       end.

Definition iw_model_bytes (c : fieldcfg) (cd : codec) (b : bytes) : result bytes :=
  let ls := psize (f_type c) in
  if 0 <? ls then
    let n := length b in
    if (10 ^ N.of_nat ls <=? N.of_nat n)%N then Raise EData
    else do p <- encode cd (fmt0 ls (N.of_nat n)); Ok (p ++ b)
  else match f_len c with
       | Some n => Ok (firstn n b)
       | None => Unmodelled
       end.

Lemma iw_field_to_iso_eq : forall c v cd,
  field_to_iso c v cd =
  (do fv <- pytype_to_string v c;
   match fv with
   | VStr s => iw_model_str c cd s
   | VBytes b => iw_model_bytes c cd b
   | _ => Raise EType
   end).
Proof. reflexivity. Qed.

Definition iw_spec_str (c : fieldcfg) (cd : codec) (s : str) : option bytes :=
  if is_var (f_type c) then
    if length s <=? vmax (f_type c) then
      match iw_opt (encode cd (map dch (digs (psize (f_type c)) (N.of_nat (length s))))), iw_opt (encode cd s) with
      | Some p, Some b => Some (p ++ b)
      | _, _ => None
      end
    else None
  else match f_len c with
       | Some w => iw_opt (encode cd (firstn w s ++ repeat chr_space (w - length s)))
       | None => None
       end.

Definition iw_spec_bytes (c : fieldcfg) (cd : codec) (b : bytes) : option bytes :=
  if is_var (f_type c) then
    if length b <=? vmax (f_type c) then
      match iw_opt (encode cd (map dch (digs (psize (f_type c)) (N.of_nat (length b))))) with
      | Some p => Some (p ++ b)
      | None => None
      end
    else None
  else match f_len c with Some w => Some (firstn w b) | None => None end.

Lemma iw_elem_wire_eq : forall c cd v,
  elem_wire c cd v =
  match v, f_ptype c with
  | VBytes b, PTStr => iw_spec_bytes c cd b
  | _, _ => match elem_text c v with None => None | Some s => iw_spec_str c cd s end
  end.
Proof. reflexivity. Qed.

Lemma iw_str_case : forall c cd s e, iw_model_str c cd s = Ok e -> iw_spec_str c cd s = Some e.
Proof.
  intros c cd s e H. unfold iw_model_str in H. unfold iw_spec_str.
  rewrite iw_psize_var in H. destruct (is_var (f_type c)) eqn:Ev.
  - rewrite (iw_var_bound _ (length s) Ev) in H.
    destruct (length s <=? vmax (f_type c)) eqn:El; cbn [negb] in H; [|discriminate H].
    apply Nat.leb_le in El.
    rewrite (fmt0_small _ _ (iw_var_psize_pos _ Ev) (iw_var_pow _ _ Ev El)) in H.
    rewrite iw_ljust_exact in H.
    destruct (encode cd (map dch (digs (psize (f_type c)) (N.of_nat (length s))))) as [p| | |];
      cbn [bind] in H; try discriminate H.
    destruct (encode cd s) as [b| | |]; cbn [bind] in H; try discriminate H.
    cbn [iw_opt]. inversion H. reflexivity.
  - destruct (f_len c) as [w|]; [|discriminate H].
    unfold ljust in H. rewrite H. reflexivity.
Qed.

Lemma iw_bytes_case : forall c cd b e, iw_model_bytes c cd b = Ok e -> iw_spec_bytes c cd b = Some e.
Proof.
  intros c cd b e H. unfold iw_model_bytes in H. unfold iw_spec_bytes.
  rewrite iw_psize_var in H. destruct (is_var (f_type c)) eqn:Ev.
  - rewrite (iw_var_bound _ (length b) Ev) in H.
    destruct (length b <=? vmax (f_type c)) eqn:El; cbn [negb] in H; [|discriminate H].
    apply Nat.leb_le in El.
    rewrite (fmt0_small _ _ (iw_var_psize_pos _ Ev) (iw_var_pow _ _ Ev El)) in H.
    destruct (encode cd (map dch (digs (psize (f_type c)) (N.of_nat (length b))))) as [p| | |];
      cbn [bind] in H; try discriminate H.
    cbn [iw_opt]. inversion H. reflexivity.
  - destruct (f_len c) as [w|]; [|discriminate H]. inversion H. reflexivity.
Qed.

(* ---------------------------------------------------------------- step 1: one element *)
(* the value is of the element's own Python type (the library also accepts numerals / ISO dates given as str
   for int / datetime elements: those are outside IsoSpec.elem_text) *)
Definition native_valueb (c : fieldcfg) (v : value) : bool :=
  match f_ptype c, v with
  | PTInt, VStr _ | PTDate, VStr _ => false
  | _, _ => true
  end.

Lemma iw_field_wire : forall c cd v e,
  native_valueb c v = true -> field_to_iso c v cd = Ok e -> elem_wire c cd v = Some e.
Proof.
  intros c cd v e Hn H. rewrite iw_field_to_iso_eq in H. rewrite iw_elem_wire_eq.
  unfold pytype_to_string in H. unfold elem_text. unfold native_valueb in Hn.
  destruct (f_ptype c) eqn:Ept.
  - cbn [bind] in H. destruct v as [s|z|b|d].
    + apply iw_str_case. exact H.
    + discriminate H.
    + apply iw_bytes_case. exact H.
    + discriminate H.
  - destruct (f_len c) as [w|] eqn:El; [|discriminate H].
    destruct v as [s|z|b|d]; try discriminate.
    cbn [bind] in H. apply iw_str_case. exact H.
  - destruct (f_len c) as [[|w]|] eqn:El; try discriminate H.
    + destruct v as [s|z|b|d]; try discriminate H.
      destruct (CU.model.Dec.dec_parse s) as [dd| |]; discriminate H.
    + destruct v as [s|z|b|d]; try discriminate H.
      * destruct (CU.model.Dec.dec_parse s) as [dd| |]; try discriminate H.
        cbn [bind] in H. apply iw_str_case. exact H.
      * cbn [bind] in H. apply iw_str_case. exact H.
  - destruct v as [s|z|b|d]; try discriminate.
    destruct (strftime_m (f_datefmt c) d) as [t| | |]; cbn [bind] in H; try discriminate H.
    apply iw_str_case. exact H.
Qed.

(* the same through the converted value: a numeral given as str for an int element is read as the int it denotes
   (int(), as the library does), an ISO 8601 string (Dates.parse_iso_any) given for a datetime element as that datetime *)
Definition as_native (c : fieldcfg) (v : value) : value :=
  match f_ptype c, v with
  | PTInt, VStr s => match py_int s with Some z => VInt z | None => v end
  | PTDate, VStr s => match parse_iso_any s with Some d => VDate d | None => v end
  | _, _ => v
  end.

Lemma iw_as_native_id : forall c v, native_valueb c v = true -> as_native c v = v.
Proof.
  intros c v H. unfold native_valueb in H. unfold as_native.
  destruct (f_ptype c); destruct v; try reflexivity; discriminate H.
Qed.

Lemma iw_pts_native : forall c v x, pytype_to_string v c = Ok x ->
  pytype_to_string (as_native c v) c = Ok x /\ native_valueb c (as_native c v) = true.
Proof.
  intros c v x H. unfold pytype_to_string in *. unfold as_native, native_valueb.
  destruct (f_ptype c) eqn:Ept.
  - split; [exact H|]. destruct v; reflexivity.
  - destruct (f_len c) as [w|]; [|discriminate H].
    destruct v as [s|z|b|d]; try (split; [exact H|reflexivity]).
    destruct (py_int s) as [z|]; [|discriminate H]. split; [exact H|reflexivity].
  - split; [exact H|]. destruct v; reflexivity.
  - destruct v as [s|z|b|d]; try (split; [exact H|reflexivity]).
    destruct (parse_iso_any s) as [d|]; [|discriminate H]. split; [exact H|reflexivity].
Qed.

Lemma iw_bind_ok : forall (A B : Type) (r : result A) (f : A -> result B) (b : B),
  bind r f = Ok b -> exists a, r = Ok a /\ f a = Ok b.
Proof. intros A B r f b H. destruct r as [a| | |]; try discriminate H. exists a. split; [reflexivity|exact H]. Qed.

Lemma iw_field_wire_coerced : forall c cd v e,
  field_to_iso c v cd = Ok e -> elem_wire c cd (as_native c v) = Some e.
Proof.
  intros c cd v e H. rewrite iw_field_to_iso_eq in H. apply iw_bind_ok in H. destruct H as [fv [Hp H]].
  destruct (iw_pts_native _ _ _ Hp) as [Hp' Hn].
  apply (iw_field_wire _ _ _ _ Hn). rewrite iw_field_to_iso_eq, Hp'. exact H.
Qed.

(* ---------------------------------------------------------------- step 2: the loop over the bits *)
Definition iw_presentb (m : dict) (n : nat) : bool :=
  match lookup m (KDE n) with Some v => truthy v | None => false end.

Definition iw_elem (cfg : cfgT) (cd : codec) (m : dict) (n : nat) : option bytes :=
  match cfg_get cfg n, lookup m (KDE n) with
  | Some c, Some v => elem_wire c cd v
  | _, _ => None
  end.

Definition iw_elem_co (cfg : cfgT) (cd : codec) (m : dict) (n : nat) : option bytes :=
  match cfg_get cfg n, lookup m (KDE n) with
  | Some c, Some v => elem_wire c cd (as_native c v)
  | _, _ => None
  end.

Definition iw_native_at (cfg : cfgT) (m : dict) (n : nat) : bool :=
  match cfg_get cfg n, lookup m (KDE n) with
  | Some c, Some v => native_valueb c v
  | _, _ => true
  end.

Lemma iw_enc_fields : forall cfg cd m bits present body,
  enc_fields cfg cd m bits = Ok (present, body) ->
  present = filter (iw_presentb m) bits /\
  concat_opt (map (iw_elem_co cfg cd m) (filter (iw_presentb m) bits)) = Some body /\
  (forallb (iw_native_at cfg m) (filter (iw_presentb m) bits) = true ->
   concat_opt (map (iw_elem cfg cd m) (filter (iw_presentb m) bits)) = Some body).
Proof.
  intros cfg cd m bits. induction bits as [|b bs IH]; intros present body H.
  - cbn [enc_fields] in H. inversion H. cbn [filter map concat_opt forallb]. auto.
  - cbn [enc_fields] in H. cbn [filter].
    destruct (lookup m (KDE b)) as [v|] eqn:El.
    + destruct (truthy v) eqn:Et.
      * assert (Hp : iw_presentb m b = true) by (unfold iw_presentb; rewrite El; exact Et).
        rewrite Hp.
        destruct (cfg_get cfg b) as [c|] eqn:Ec; [|discriminate H].
        destruct (field_to_iso c v cd) as [e| | |] eqn:Ef; cbn [bind] in H; try discriminate H.
        destruct (enc_fields cfg cd m bs) as [[p r]| | |] eqn:Er; cbn [bind] in H; try discriminate H.
        cbn [fst snd] in H. inversion H; subst present body.
        destruct (IH p r eq_refl) as [IH1 [IH3 IH2]]. split; [|split].
        -- rewrite IH1. reflexivity.
        -- cbn [map concat_opt]. unfold iw_elem_co at 1. rewrite Ec, El.
           rewrite (iw_field_wire_coerced _ _ _ _ Ef), IH3. reflexivity.
        -- cbn [forallb map concat_opt]. intros Hn. apply andb_true_iff in Hn. destruct Hn as [Hn1 Hn2].
           unfold iw_native_at in Hn1. rewrite Ec, El in Hn1.
           unfold iw_elem at 1. rewrite Ec, El. rewrite (iw_field_wire _ _ _ _ Hn1 Ef).
           rewrite (IH2 Hn2). reflexivity.
      * assert (Hp : iw_presentb m b = false) by (unfold iw_presentb; rewrite El; exact Et).
        rewrite Hp. apply IH. exact H.
    + assert (Hp : iw_presentb m b = false) by (unfold iw_presentb; rewrite El; reflexivity).
      rewrite Hp. apply IH. exact H.
Qed.

(* ---------------------------------------------------------------- step 3: the bitmap *)
Lemma iw_bitmap_length : forall p, length (bitmap_of p) = 16.
Proof.
  intros p. unfold bitmap_of. apply bytes_of_bits_length. rewrite map_length, seq_length. reflexivity.
Qed.

Lemma iw_bitmap_bit : forall p n, 1 <= n <= 128 ->
  bit_set (bitmap_of p) n = (Nat.eqb n 1 || existsb (Nat.eqb n) p).
Proof.
  intros p n Hn. rewrite <- nth_bits_bit_set by lia. unfold bitmap_of.
  rewrite (bits_bytes_roundtrip _ 16) by (rewrite map_length, seq_length; reflexivity).
  set (f := fun i => Nat.eqb i 1 || existsb (Nat.eqb i) p).
  rewrite (nth_indep _ false (f 0)) by (rewrite map_length, seq_length; lia).
  rewrite map_nth. rewrite seq_nth by lia.
  replace (1 + (n - 1)) with n by lia. reflexivity.
Qed.

(* ---------------------------------------------------------------- C02 *)
(* NB: the statement of c02_encode spells out the list-level terms over present_elems instead of naming them: props/C02.v
   restates its definitions, and converting two DIFFERENT constants whose bodies compute over the closed list
   bit_range makes both the unifier and the kernel normalise (exponentially); a named constant on the props side
   against the spelled-out term here unfolds once and matches. *)
Definition packed (cfg : cfgT) (m m1 : dict) : Prop :=
  exists chunks, pds_to_de m = Ok chunks /\ assign_pds m chunks (pds_bits cfg) = Ok m1.

Lemma iw_present_eq : forall m, filter (iw_presentb m) bit_range = present_elems m.
Proof. intros m. unfold present_elems, iw_presentb. reflexivity. Qed.

Lemma iw_wire_body_eq : forall cfg cd m,
  wire_body cfg cd m = concat_opt (map (iw_elem cfg cd m) (present_elems m)).
Proof. intros cfg cd m. unfold wire_body, iw_elem. reflexivity. Qed.

Lemma iw_mti_case : forall cd (o : option value) (rest b : bytes),
  (do mti <- match o with
             | Some (VStr []) | None => Ok []
             | Some (VStr s) => encode cd s
             | Some (VBytes []) => Ok []
             | Some _ => Unmodelled
             end;
   Ok (mti ++ rest)) = Ok b ->
  exists mti, b = mti ++ rest /\
              match o with Some (VStr s) => encode cd s = Ok mti | _ => mti = [] end.
Proof.
  intros cd o rest b H. destruct o as [[s|z|bb|d]|].
  - destruct s as [|ch r].
    + cbn [bind] in H. apply iw_ok_inj in H. exists []. split; [symmetry; exact H|reflexivity].
    + destruct (encode cd (ch :: r)) as [mti| | |]; cbn [bind] in H; try discriminate H.
      apply iw_ok_inj in H. exists mti. split; [symmetry; exact H|reflexivity].
  - discriminate H.
  - destruct bb; [|discriminate H]. cbn [bind] in H. apply iw_ok_inj in H.
    exists []. split; [symmetry; exact H|reflexivity].
  - discriminate H.
  - cbn [bind] in H. apply iw_ok_inj in H. exists []. split; [symmetry; exact H|reflexivity].
Qed.

Lemma c02_encode : forall cfg cd hexbm m b, dumps cfg cd hexbm m = Ok b ->
  exists m1 mti bm body,
    packed cfg m m1 /\
    b = mti ++ (if hexbm then map byte_of_N (hexlify bm) else bm) ++ body /\
    (match lookup m KMTI with Some (VStr s) => encode cd s = Ok mti | _ => mti = [] end) /\
    length bm = 16 /\
    (forall n, 1 <= n <= 128 -> bit_set bm n = (Nat.eqb n 1 || existsb (Nat.eqb n) (present_elems m1))) /\
    concat_opt (map (fun n => match cfg_get cfg n, lookup m1 (KDE n) with
                              | Some c, Some v => elem_wire c cd (as_native c v)
                              | _, _ => None
                              end) (present_elems m1)) = Some body /\
    (forallb (fun n => match cfg_get cfg n, lookup m1 (KDE n) with
                       | Some c, Some v => native_valueb c v
                       | _, _ => true
                       end) (present_elems m1) = true -> wire_body cfg cd m1 = Some body).
Proof.
  intros cfg cd hexbm m b H. unfold dumps in H.
  apply iw_bind_ok in H. destruct H as [chunks [E1 H]].
  apply iw_bind_ok in H. destruct H as [m1 [E2 H]].
  apply iw_bind_ok in H. destruct H as [[present body] [E3 H]].
  cbn [fst snd] in H.
  destruct (iw_enc_fields _ _ _ _ _ _ E3) as [Hp [Hc Hb]].
  rewrite iw_present_eq in Hp, Hc, Hb. rewrite <- iw_wire_body_eq in Hb.
  unfold iw_elem_co in Hc. unfold iw_native_at in Hb.
  apply iw_mti_case in H. destruct H as [mti [Hb1 Hb2]].
  exists m1, mti, (bitmap_of present), body.
  split; [exists chunks; split; assumption|].
  split; [exact Hb1|]. split; [exact Hb2|]. split; [apply iw_bitmap_length|]. split.
  - intros n Hn. rewrite <- Hp. apply iw_bitmap_bit. exact Hn.
  - split; [exact Hc|exact Hb].
Qed.

Lemma c02_hex_bitmap : forall bm, length bm = 16 ->
  length (hexlify bm) = 32 /\
  Forall (fun c => ((48 <=? c) && (c <=? 57) || (97 <=? c) && (c <=? 102))%N = true) (hexlify bm) /\
  unhexlify (hexlify bm) = Some bm.
Proof.
  intros bm H. split; [|split].
  - rewrite hexlify_length, H. reflexivity.
  - apply hexlify_lower.
  - apply unhexlify_hexlify.
Qed.

Lemma c02_overlength_refused : forall c cd v s,
  is_var (f_type c) = true -> pytype_to_string v c = Ok (VStr s) -> vmax (f_type c) < length s ->
  field_to_iso c v cd = Raise EData.
Proof.
  intros c cd v s Hv Hp Hl. rewrite iw_field_to_iso_eq, Hp. cbn [bind]. unfold iw_model_str.
  rewrite iw_psize_var, Hv, (iw_var_bound _ _ Hv).
  assert (E : (length s <=? vmax (f_type c)) = false) by (apply Nat.leb_gt; exact Hl).
  rewrite E. reflexivity.
Qed.

Lemma c02_overlength_refused_bytes : forall c cd b,
  is_var (f_type c) = true -> f_ptype c = PTStr -> vmax (f_type c) < length b ->
  field_to_iso c (VBytes b) cd = Raise EData.
Proof.
  intros c cd b Hv Hp Hl. rewrite iw_field_to_iso_eq. unfold pytype_to_string. rewrite Hp. cbn [bind].
  unfold iw_model_bytes.
  rewrite iw_psize_var, Hv, (iw_var_bound _ _ Hv).
  assert (E : (length b <=? vmax (f_type c)) = false) by (apply Nat.leb_gt; exact Hl).
  rewrite E. reflexivity.
Qed.
