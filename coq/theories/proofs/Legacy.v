(* Legacy.v — the defects repaired by the `fix:` commits in /repo, as refutations.
   Each section models the ORIGINAL code of one function (differing from the model only where the repair changed the
   code) and exhibits, by computation, a concrete input on which the property fails.  These witnesses are the inputs
   recorded in known_findings.txt / corpus; replayed against the unrepaired implementation they reproduce the finding. *)
From Coq Require Import List Arith NArith ZArith Bool Lia.
From Coq Require Import Strings.Byte.
Require Import CU.model.Prim CU.model.Types CU.model.Unicode CU.model.Codec CU.model.Card CU.model.Block CU.model.Vbs
               CU.model.Iso CU.model.Ipm CU.model.Info CU.model.Pin.
Require Import CU.spec.LuhnSpec CU.spec.FramingSpec CU.spec.PinSpec.
Require CU.gen.GenCodec.
Import ListNotations.
Open Scope nat_scope.

Definition D (ds : list nat) : str := map (fun d => dch (N.of_nat d)) ds.     (* an ASCII digit string *)

(* ---- C15 (b040841): validation was a bare assert, removed under python -O ---- *)
Definition validate_legacy (m : mode) (s : str) : result unit :=
  match m with Optimised => Ok tt | Normal => validate_check_digit Normal s end.
Example C15_refuted : validate_legacy Optimised (D [7;9;9;2;7;3;9;8;7;1;0]) = Ok tt /\ luhn_validb [7;9;9;2;7;3;9;8;7;1;0] = false.
Proof. vm_compute. auto. Qed.

(* ---- C11 (1c00b25): close() was not idempotent ---- *)
Definition wclose_legacy (B : nat) (w : writer) : writer := mkw (oseek B (owrite B (wout w) (be32 0)) 0) true.
Definition run_legacy (B : nat) (blocked : bool) (ops : list wop) : writer :=
  fold_left (fun w o => match o with WWrite r => wwrite B w r | _ => wclose_legacy B w end) ops (winit B fempty blocked).
Example C11_refuted :      (* with VbsWriter(f) as w: w.write(b'hello'); w.close()  — the file reads back empty *)
  let f := file_of (run_legacy 1012 false [WWrite [x68; x65; x6c; x6c; x6f]; WClose; WExit]) in
  read_all 1012 6000 f false = Ok ([], End).
Proof. vm_compute. reflexivity. Qed.

(* ---- C05 (8e89327): read() with no size sliced [:0] ---- *)
Definition uread_legacy (B : nat) (u : unblocker) (n : nat) : result (bytes * unblocker) :=
  let readall := Nat.eqb n 0 in
  do fb <- refill B (S (length (fdata (ufile u)) - fpos (ufile u))) n readall (ufile u) (ubuf u);
  let '(f', buf') := fb in Ok (firstn n buf', mku f' (skipn n buf')).
Example C05_refuted : exists u, uread_legacy 3 (uinit (fopen [x01; x02; x03; x40; x40])) 0 = Ok ([], u) /\ payload 3 [x01; x02; x03; x40; x40] <> [].
Proof. eexists. split; [vm_compute; reflexivity | vm_compute; discriminate]. Qed.

(* ---- C10 (37011b8): message-level error reported the counter AFTER it was advanced ---- *)
Section C10_legacy.
Variable cd : codec.
Definition cfg1 : cfgT := [(2, mkfc LLVAR (Some 0) PTStr [] PNone D43None)].
Definition inext_legacy (r : reader) : result (reader * iout) :=
  do x <- rnext 3 100 r;
  let '(r', o) := x in
  match o with
  | RStop => Ok (r', IStop) | RErr n ctx => Ok (r', IErr n ctx)
  | RRec rec => match loads cfg1 cd false rec with
                | Ok d => Ok (r', IRec d)
                | Raise EData => Ok (r', IErr (rrecno r') (match rlast r' with Some b => b | None => [] end))
                | Raise e => Raise e | OutOfFuel => OutOfFuel | Unmodelled => Unmodelled end
  end.
End C10_legacy.
Example C10_refuted :      (* a one-record file whose only record is bad is reported as record 2 *)
  let cd := mkcodec CU.gen.GenCodec.tbl_latin_1 in
  let bad := map byte_of_N [49;49;52;52; 64;0;0;0;0;0;0;0;0;0;0;0;0;0;0;0; 120;54]%N in
  exists r' ctx, inext_legacy cd (rinit (frame bad ++ be32 0) false) = Ok (r', IErr 2 ctx).
Proof. do 2 eexists. vm_compute. reflexivity. Qed.

(* ---- C17 (a95b33d): the second trailer was only looked at when the SAMPLE had exactly 2028 bytes ---- *)
Definition block_check_legacy (B : nat) (s : bytes) : bool :=
  if length s <? B + 2 then false
  else if bytes_eqb (slice B (B + 2) s) trailer then
         if Nat.eqb (length s) (B + 2) then true
         else if Nat.eqb (length s) (2 * (B + 2)) && bytes_eqb (lastn 2 s) trailer then true else false
       else false.
Example C17_refuted :      (* B = 3, sample of 12 bytes: a three-block file is reported unblocked, the repaired check says blocked *)
  let f := lay 3 (repeat x41 9) in
  block_check_legacy 3 (firstn 12 f) = false /\ block_check 3 (firstn 12 f) = true /\ wf_blocks 3 f = true.
Proof. vm_compute. auto. Qed.

(* ---- C02 (bdc9504): over-long variable values were emitted with an over-wide prefix ---- *)
Definition field_to_iso_legacy (c : fieldcfg) (s : str) (cd : codec) : result bytes :=
  let ls := psize (f_type c) in
  do p <- encode cd (fmt0 ls (N.of_nat (length s))); do b <- encode cd s; Ok (p ++ b).
Example C02_refuted :      (* LLVAR value of 100 characters: the prefix is the three characters "100" *)
  let cd := mkcodec CU.gen.GenCodec.tbl_latin_1 in
  let c := mkfc LLVAR (Some 0) PTStr [] PNone D43None in
  (exists b, field_to_iso_legacy c (repeat 49%N 100) cd = Ok b /\ firstn 3 b = [x31; x30; x30] /\ length b = 103)
  /\ field_to_iso c (VStr (repeat 49%N 100)) cd = Raise EData.
Proof. split; [eexists; vm_compute; auto | vm_compute; reflexivity]. Qed.

(* ---- C07 (c02655a): a PDS sub-length of -7 made the walker stand still: it never returns, for ANY fuel ---- *)
Fixpoint pds_walk_legacy (fuel : nat) (fd : str) (ptr : nat) (acc : dict) : result dict :=
  match fuel with
  | 0 => OutOfFuel
  | S k =>
    if ptr <? length fd then
      match py_int (slice (ptr + 4) (ptr + 7) fd) with
      | None => Raise EValue                                   (* and this leaked as ValueError *)
      | Some L => let n := Z.to_nat (Z.of_nat (ptr + 7) + L) in     (* field_pointer += 7 + pds_field_length *)
                  pds_walk_legacy k fd n (dset acc (KPDS (slice ptr (ptr + 4) fd)) (VStr (slice (ptr + 7) (Z.to_nat (Z.of_nat (ptr + 7) + L)) fd)))
      end
    else Ok acc
  end.
Definition hang_input : str := [48;48;48;49;45;48;55]%N.          (* "0001-07" *)
Lemma C07_refuted : forall fuel acc, pds_walk_legacy fuel hang_input 0 acc = OutOfFuel.
Proof.
  induction fuel as [|k IH]; intros acc; [reflexivity|].
  cbn [pds_walk_legacy]. change (0 <? length hang_input) with true. cbv iota.
  change (py_int (slice (0 + 4) (0 + 7) hang_input)) with (Some (-7)%Z).
  cbv iota. change (Z.to_nat (Z.of_nat (0 + 7) + -7)) with 0. apply IH.
Qed.
Example C07_repaired : pds_to_dict hang_input = Raise EData.
Proof. vm_compute. reflexivity. Qed.

(* ---- C13 (44fcc2d): the PIN length was written in decimal: two digits for 10..12 ---- *)
Definition iso0_to_bytes_legacy (pin card : str) : result bytes :=
  let rightmost_12 := py_slice_neg 13 1 card in
  let p1 := pad_right 102%N 16 ([48%N] ++ str_of_N (N.of_nat (length pin)) ++ pin) in
  let p2 := [48; 48; 48; 48]%N ++ rightmost_12 in
  do a <- py_int16 p1; do b <- py_int16 p2; int_to_bytes 8 (N.lxor a b).
Example C13_refuted :
  let pin := [1;2;3;4;5;6;7;8;9;0]%N in let pan := [1;1;1;1;2;2;2;2;3;3;3;3;4;4;4;4]%N in
  iso0_to_bytes_legacy (dstr pin) (dstr pan) <> Ok (bytes_of_nibbles (spec0 pin pan)) /\
  iso0_to_bytes (dstr pin) (dstr pan) = Ok (bytes_of_nibbles (spec0 pin pan)).
Proof. split; [vm_compute; discriminate | vm_compute; reflexivity]. Qed.

(* ---- C14 (90031c2): the whole PIN went into the TSP ---- *)
Definition get_tsp_legacy (card : str) (kidx : N) (pin : str) : str := py_slice_neg 12 1 card ++ str_of_N kidx ++ pin.
Example C14_refuted :
  let pan := [4;0;0;0;0;0;1;2;3;4;5;6;7;8;9;9]%N in let pin := [1;2;3;4;5]%N in
  length (get_tsp_legacy (dstr pan) 1 (dstr pin)) = 17 /\ length (get_tsp (dstr pan) 1 (dstr pin)) = 16.
Proof. vm_compute. auto. Qed.

(* ---- C08 (ebe447d): a negative length prefix was accepted; the element took no bytes and moved the pointer BACK ---- *)
Definition iso_to_field_legacy (bit : nat) (c : fieldcfg) (data : bytes) (cd : codec) : result (dict * Z) :=
  let ls := psize (f_type c) in
  do s <- decode cd (firstn ls data);
  match py_int s with
  | None => Raise EData
  | Some z => do v <- decode cd (slice ls (ls + Z.to_nat z) data);          (* data[ls:ls+z] is empty for z <= 0 *)
              Ok ([(KDE bit, VStr v)], (Z.of_nat ls + z)%Z)                   (* message_pointer += field_length + length_size *)
  end.
Example C08_refuted :      (* b'-21234' as DE2 (LLVAR): value '', increment 0 — DE3 then re-reads the same six bytes *)
  let cd := mkcodec CU.gen.GenCodec.tbl_latin_1 in
  let c := mkfc LLVAR (Some 0) PTStr [] PNone D43None in
  let data := map byte_of_N [45;50;49;50;51;52]%N in
  iso_to_field_legacy 2 c data cd = Ok ([(KDE 2, VStr [])], 0%Z) /\ iso_to_field 2 c data cd = Raise EData.
Proof. vm_compute. auto. Qed.
