(* NumProofs.v — basic lemmas shared by the ISO8583 proofs: decimal numerals, int(), codecs,
   bitmap bits, hex, dates.  Facts about the generated tables (gen/GenUnicode.v) are established by
   vm_compute, so they are re-proved against CPython's tables on every run. *)
From Coq Require Import List NArith ZArith Bool Arith Lia ZifyBool ZifyNat ZifyN.
From Coq Require Import Strings.Byte.
Require Import CU.model.Prim CU.model.Types CU.model.Unicode CU.model.Codec CU.model.Dates CU.model.Iso.
Require Import CU.spec.IsoSpec.
Import ListNotations.
Open Scope nat_scope.

(* ====================================================================== Group 1: decimal numerals *)

Lemma digs_length : forall w n, length (digs w n) = w.
Proof.
  induction w as [|w IH]; intros n; cbn [digs]; [reflexivity|].
  rewrite app_length, IH. cbn [length]. lia.
Qed.

Lemma digs_lt10 : forall w n, Forall (fun d => (d < 10)%N) (digs w n).
Proof.
  induction w as [|w IH]; intros n; cbn [digs]; [constructor|].
  apply Forall_app; split; [apply IH|]. constructor; [|constructor].
  apply N.mod_lt. lia.
Qed.

Lemma value_app1 : forall l d, Prim.value (l ++ [d]) = (Prim.value l * 10 + d)%N.
Proof. intros l d. unfold Prim.value. rewrite fold_left_app. reflexivity. Qed.

Lemma value_nil : Prim.value [] = 0%N.
Proof. reflexivity. Qed.

Lemma value_digs : forall w n, (n < 10 ^ N.of_nat w)%N -> Prim.value (digs w n) = n.
Proof.
  induction w as [|w IH]; intros n H.
  - cbn [digs]. rewrite value_nil. change (N.of_nat 0) with 0%N in H. rewrite N.pow_0_r in H. lia.
  - cbn [digs]. rewrite value_app1. rewrite IH.
    + pose proof (N.div_mod n 10). lia.
    + rewrite Nat2N.inj_succ, N.pow_succ_r' in H. apply N.div_lt_upper_bound; lia.
Qed.

Lemma pow10_2 : (10 ^ N.of_nat 2 = 100)%N.
Proof. reflexivity. Qed.
Lemma pow10_3 : (10 ^ N.of_nat 3 = 1000)%N.
Proof. reflexivity. Qed.
Lemma pow10_4 : (10 ^ N.of_nat 4 = 10000)%N.
Proof. reflexivity. Qed.

Lemma np_pow10_pos : forall k, (0 < 10 ^ k)%N.
Proof. intros k. apply N.neq_0_lt_0. apply N.pow_nonzero. lia. Qed.

Lemma np_dec_aux_S : forall f n acc,
  dec_aux (S f) n acc = if (n <? 10)%N then n :: acc else dec_aux f (n / 10)%N ((n mod 10)%N :: acc).
Proof. reflexivity. Qed.

Lemma np_dec_aux_spec : forall f n acc, (n < 10 ^ N.of_nat f)%N ->
  exists ds, dec_aux (S f) n acc = ds ++ acc /\ ds <> [] /\ Forall (fun d => (d < 10)%N) ds /\ Prim.value ds = n.
Proof.
  induction f as [|f IH]; intros n acc H.
  - change (N.of_nat 0) with 0%N in H. rewrite N.pow_0_r in H.
    assert (n = 0%N) by lia. subst n. exists [0%N]. cbn [dec_aux].
    change (0 <? 10)%N with true. cbn iota.
    split; [reflexivity|]. split; [discriminate|]. split; [|reflexivity].
    constructor; [lia|constructor].
  - rewrite np_dec_aux_S. destruct (n <? 10)%N eqn:E.
    + apply N.ltb_lt in E. exists [n].
      split; [reflexivity|]. split; [discriminate|]. split.
      * constructor; [exact E|constructor].
      * unfold Prim.value. cbn [fold_left]. lia.
    + apply N.ltb_ge in E.
      assert (Hd : (n / 10 < 10 ^ N.of_nat f)%N).
      { rewrite Nat2N.inj_succ, N.pow_succ_r' in H. apply N.div_lt_upper_bound; lia. }
      destruct (IH (n / 10)%N ((n mod 10)%N :: acc) Hd) as [ds [H1 [H2 [H3 H4]]]].
      exists (ds ++ [(n mod 10)%N]).
      split; [|split; [|split]].
      * rewrite H1, <- app_assoc. reflexivity.
      * intro C. apply app_eq_nil in C. destruct C as [_ C]. discriminate.
      * apply Forall_app; split; [exact H3|]. constructor; [|constructor]. apply N.mod_lt. lia.
      * rewrite value_app1, H4. pose proof (N.div_mod n 10). lia.
Qed.

Lemma np_pos_size_bound : forall p, (Npos p < 10 ^ N.of_nat (Pos.size_nat p))%N.
Proof.
  induction p as [p IH|p IH|]; cbn [Pos.size_nat].
  - rewrite Nat2N.inj_succ, N.pow_succ_r'. lia.
  - rewrite Nat2N.inj_succ, N.pow_succ_r'. lia.
  - reflexivity.
Qed.

Lemma np_size_bound : forall n, (n < 10 ^ N.of_nat (N.size_nat n))%N.
Proof.
  intros [|p]; [reflexivity|]. cbn [N.size_nat]. apply np_pos_size_bound.
Qed.

Lemma dec_digits_spec : forall n,
  dec_digits n <> [] /\ Forall (fun d => (d < 10)%N) (dec_digits n) /\ Prim.value (dec_digits n) = n.
Proof.
  intros n. unfold dec_digits.
  destruct (np_dec_aux_spec (N.size_nat n) n [] (np_size_bound n)) as [ds [H1 [H2 [H3 H4]]]].
  rewrite H1, app_nil_r. auto.
Qed.

Lemma fmt0_small : forall w n, 0 < w -> (n < 10 ^ N.of_nat w)%N -> fmt0 w n = map dch (digs w n).
Proof.
  intros w n Hw Hn. unfold fmt0.
  apply N.ltb_lt in Hn. rewrite Hn.
  assert (Hp : (0 <? N.of_nat w)%N = true) by (apply N.ltb_lt; lia).
  rewrite Hp. reflexivity.
Qed.

Lemma fmt0_length_small : forall w n, 0 < w -> (n < 10 ^ N.of_nat w)%N -> length (fmt0 w n) = w.
Proof.
  intros w n Hw Hn. rewrite fmt0_small by assumption. rewrite map_length. apply digs_length.
Qed.

Lemma fmt0_digits : forall w n, exists ds,
  fmt0 w n = map dch ds /\ ds <> [] /\ Forall (fun d => (d < 10)%N) ds /\ Prim.value ds = n.
Proof.
  intros w n. unfold fmt0.
  destruct ((n <? 10 ^ N.of_nat w)%N && (0 <? N.of_nat w)%N) eqn:E.
  - apply andb_true_iff in E. destruct E as [E1 E2].
    apply N.ltb_lt in E1. apply N.ltb_lt in E2.
    exists (digs w n). split; [reflexivity|]. split; [|split].
    + intro C. apply (f_equal (@length N)) in C. rewrite digs_length in C. cbn [length] in C. lia.
    + apply digs_lt10.
    + apply value_digs. exact E1.
  - destruct (dec_digits_spec n) as [H1 [H2 H3]]. exists (dec_digits n). auto.
Qed.

Lemma fmt0Z_nonneg : forall w z, (0 <= z)%Z -> fmt0Z w z = fmt0 w (Z.to_N z).
Proof. intros w z H. destruct z as [|p|p]; [reflexivity|reflexivity|lia]. Qed.

(* ====================================================================== Group 2: int() *)

Definition np_digit_okb (d : N) : bool :=
  match decimal_of (dch d) with Some v => (v =? d)%N | None => false end
  && negb (is_intspace (dch d)) && negb (dch d =? chr_us)%N && negb (dch d =? chr_minus)%N
  && negb (dch d =? chr_plus)%N.

Lemma np_digit_table_check : forallb np_digit_okb [0; 1; 2; 3; 4; 5; 6; 7; 8; 9]%N = true.
Proof. vm_compute. reflexivity. Qed.

Lemma ascii_digit_table : forall d, (d < 10)%N ->
  decimal_of (dch d) = Some d /\ is_intspace (dch d) = false /\ dch d <> chr_us /\ dch d <> chr_minus
  /\ dch d <> chr_plus.
Proof.
  intros d Hd.
  assert (Hin : In d [0; 1; 2; 3; 4; 5; 6; 7; 8; 9]%N).
  { cbn [In]. lia. }
  pose proof (proj1 (forallb_forall _ _) np_digit_table_check d Hin) as Hc.
  unfold np_digit_okb in Hc.
  apply andb_true_iff in Hc. destruct Hc as [Hc H5].
  apply andb_true_iff in Hc. destruct Hc as [Hc H4].
  apply andb_true_iff in Hc. destruct Hc as [Hc H3].
  apply andb_true_iff in Hc. destruct Hc as [H1 H2].
  apply negb_true_iff in H2, H3, H4, H5.
  apply N.eqb_neq in H3, H4, H5.
  destruct (decimal_of (dch d)) as [v|]; [|discriminate].
  apply N.eqb_eq in H1. subst v. auto.
Qed.

Lemma np_lstrip_head : forall c r, is_intspace c = false -> lstrip_int (c :: r) = c :: r.
Proof. intros c r H. cbn [lstrip_int]. rewrite H. reflexivity. Qed.

Lemma np_strip_id : forall s,
  (forall c, In c s -> is_intspace c = false) -> strip_int s = s.
Proof.
  intros s H. unfold strip_int.
  assert (L1 : lstrip_int s = s).
  { destruct s as [|c r]; [reflexivity|]. apply np_lstrip_head. apply H. left. reflexivity. }
  rewrite L1.
  assert (L2 : lstrip_int (rev s) = rev s).
  { destruct (rev s) as [|c r] eqn:E; [reflexivity|]. apply np_lstrip_head. apply H.
    apply in_rev. rewrite E. left. reflexivity. }
  rewrite L2. apply rev_involutive.
Qed.

Lemma np_int_digits_map : forall ds acc, Forall (fun d => (d < 10)%N) ds ->
  int_digits (map dch ds) acc false = Some (fold_left (fun a d => (a * 10 + d)%N) ds acc).
Proof.
  induction ds as [|d ds IH]; intros acc H.
  - reflexivity.
  - inversion H as [|x l Hd Hr]; subst.
    destruct (ascii_digit_table d Hd) as [T1 [T2 [T3 [T4 T5]]]].
    cbn [map int_digits fold_left].
    apply N.eqb_neq in T3. rewrite T3, T1. apply IH. exact Hr.
Qed.

Lemma py_int_digits : forall ds, ds <> [] -> Forall (fun d => (d < 10)%N) ds ->
  py_int (map dch ds) = Some (Z.of_N (Prim.value ds)).
Proof.
  intros ds Hne Hall. unfold py_int.
  rewrite np_strip_id.
  2:{ intros c Hc. apply in_map_iff in Hc. destruct Hc as [d [Hd1 Hd2]]. subst c.
      rewrite Forall_forall in Hall. apply (ascii_digit_table d (Hall d Hd2)). }
  destruct ds as [|d ds]; [congruence|].
  pose proof (np_int_digits_map (d :: ds) 0%N Hall) as Hi.
  inversion Hall as [|x l Hd Hr]; subst.
  destruct (ascii_digit_table d Hd) as [T1 [T2 [T3 [T4 T5]]]].
  apply N.eqb_neq in T3, T4, T5.
  cbn [map] in *. rewrite T4, T5, T3, Hi. reflexivity.
Qed.

Lemma py_int_fmt0 : forall w n, py_int (fmt0 w n) = Some (Z.of_N n).
Proof.
  intros w n. destruct (fmt0_digits w n) as [ds [H1 [H2 [H3 H4]]]].
  rewrite H1, py_int_digits by assumption. rewrite H4. reflexivity.
Qed.

Lemma py_int_fmt0Z : forall w z, (0 <= z)%Z -> py_int (fmt0Z w z) = Some z.
Proof.
  intros w z H. rewrite fmt0Z_nonneg by exact H. rewrite py_int_fmt0. rewrite Z2N.id by exact H. reflexivity.
Qed.

Lemma py_int_digs : forall w n, 0 < w -> (n < 10 ^ N.of_nat w)%N ->
  py_int (map dch (digs w n)) = Some (Z.of_N n).
Proof.
  intros w n Hw Hn. rewrite <- fmt0_small by assumption. apply py_int_fmt0.
Qed.

(* ====================================================================== Group 3: codecs *)

Lemma np_encode_cons : forall cd ch r,
  encode cd (ch :: r) = match cenc cd ch with
                        | Some x => do t <- encode cd r; Ok (x :: t)
                        | None => Raise EUnicode
                        end.
Proof. reflexivity. Qed.

Lemma np_decode_cons : forall cd x r,
  decode cd (x :: r) = match cdec cd x with
                       | Some ch => do t <- decode cd r; Ok (ch :: t)
                       | None => Raise EUnicode
                       end.
Proof. reflexivity. Qed.

Lemma encode_outcomes : forall cd s, (exists b, encode cd s = Ok b) \/ encode cd s = Raise EUnicode.
Proof.
  intros cd s. induction s as [|ch r IH].
  - left. exists []. reflexivity.
  - rewrite np_encode_cons. destruct (cenc cd ch) as [x|]; [|right; reflexivity].
    destruct IH as [[b Hb]|Hr].
    + left. exists (x :: b). rewrite Hb. reflexivity.
    + right. rewrite Hr. reflexivity.
Qed.

Lemma decode_outcomes : forall cd b, (exists s, decode cd b = Ok s) \/ decode cd b = Raise EUnicode.
Proof.
  intros cd b. induction b as [|x r IH].
  - left. exists []. reflexivity.
  - rewrite np_decode_cons. destruct (cdec cd x) as [ch|]; [|right; reflexivity].
    destruct IH as [[s Hs]|Hr].
    + left. exists (ch :: s). rewrite Hs. reflexivity.
    + right. rewrite Hr. reflexivity.
Qed.

Lemma np_encode_cons_inv : forall cd ch r b, encode cd (ch :: r) = Ok b ->
  exists x t, cenc cd ch = Some x /\ encode cd r = Ok t /\ b = x :: t.
Proof.
  intros cd ch r b H. rewrite np_encode_cons in H.
  destruct (cenc cd ch) as [x|]; [|discriminate].
  destruct (encode cd r) as [t| | |]; try discriminate.
  cbn [bind] in H. inversion H. exists x, t. auto.
Qed.

Lemma np_decode_cons_inv : forall cd x r s, decode cd (x :: r) = Ok s ->
  exists ch t, cdec cd x = Some ch /\ decode cd r = Ok t /\ s = ch :: t.
Proof.
  intros cd x r s H. rewrite np_decode_cons in H.
  destruct (cdec cd x) as [ch|]; [|discriminate].
  destruct (decode cd r) as [t| | |]; try discriminate.
  cbn [bind] in H. inversion H. exists ch, t. auto.
Qed.

Lemma encode_length : forall cd s b, encode cd s = Ok b -> length b = length s.
Proof.
  intros cd s. induction s as [|ch r IH]; intros b H.
  - cbn [encode] in H. inversion H. reflexivity.
  - apply np_encode_cons_inv in H. destruct H as [x [t [H1 [H2 H3]]]]. subst b.
    cbn [length]. f_equal. apply IH. exact H2.
Qed.

Lemma decode_length : forall cd b s, decode cd b = Ok s -> length s = length b.
Proof.
  intros cd b. induction b as [|x r IH]; intros s H.
  - cbn [decode] in H. inversion H. reflexivity.
  - apply np_decode_cons_inv in H. destruct H as [ch [t [H1 [H2 H3]]]]. subst s.
    cbn [length]. f_equal. apply IH. exact H2.
Qed.

Lemma encode_app : forall cd s t bs bt, encode cd s = Ok bs -> encode cd t = Ok bt ->
  encode cd (s ++ t) = Ok (bs ++ bt).
Proof.
  intros cd s. induction s as [|ch r IH]; intros t bs bt Hs Ht.
  - cbn [encode] in Hs. inversion Hs. exact Ht.
  - apply np_encode_cons_inv in Hs. destruct Hs as [x [u [H1 [H2 H3]]]]. subst bs.
    rewrite <- app_comm_cons, np_encode_cons, H1, (IH t u bt H2 Ht). reflexivity.
Qed.

Lemma encode_app_inv : forall cd s t b, encode cd (s ++ t) = Ok b ->
  exists bs bt, encode cd s = Ok bs /\ encode cd t = Ok bt /\ b = bs ++ bt.
Proof.
  intros cd s. induction s as [|ch r IH]; intros t b H.
  - exists [], b. auto.
  - rewrite <- app_comm_cons in H. apply np_encode_cons_inv in H.
    destruct H as [x [u [H1 [H2 H3]]]]. subst b.
    destruct (IH t u H2) as [bs [bt [E1 [E2 E3]]]]. subst u.
    exists (x :: bs), bt. rewrite np_encode_cons, H1, E1. auto.
Qed.

Lemma decode_app : forall cd a b s t, decode cd a = Ok s -> decode cd b = Ok t ->
  decode cd (a ++ b) = Ok (s ++ t).
Proof.
  intros cd a. induction a as [|x r IH]; intros b s t Hs Ht.
  - cbn [decode] in Hs. inversion Hs. exact Ht.
  - apply np_decode_cons_inv in Hs. destruct Hs as [ch [u [H1 [H2 H3]]]]. subst s.
    rewrite <- app_comm_cons, np_decode_cons, H1, (IH b u t H2 Ht). reflexivity.
Qed.

Lemma decode_app_inv : forall cd a b s, decode cd (a ++ b) = Ok s ->
  exists sa sb, decode cd a = Ok sa /\ decode cd b = Ok sb /\ s = sa ++ sb.
Proof.
  intros cd a. induction a as [|x r IH]; intros b s H.
  - exists [], s. auto.
  - rewrite <- app_comm_cons in H. apply np_decode_cons_inv in H.
    destruct H as [ch [u [H1 [H2 H3]]]]. subst s.
    destruct (IH b u H2) as [sa [sb [E1 [E2 E3]]]]. subst u.
    exists (ch :: sa), sb. rewrite np_decode_cons, H1, E1. auto.
Qed.

(* find_idx returns a position of the table that holds the code point *)
Lemma np_find_idx_spec : forall t ch i acc j, find_idx t ch i acc = Some j ->
  acc = Some j \/ ((i <= j)%N /\ (j < i + N.of_nat (length t))%N /\ nth (N.to_nat (j - i)) t None = Some ch).
Proof.
  induction t as [|o r IH]; intros ch i acc j H.
  - cbn [find_idx] in H. left. exact H.
  - destruct o as [x|]; cbn [find_idx] in H.
    + apply IH in H. destruct H as [H|[H1 [H2 H3]]].
      * destruct (x =? ch)%N eqn:E.
        -- inversion H; subst j. right. apply N.eqb_eq in E. subst x.
           split; [lia|]. split; [cbn [length]; lia|]. rewrite N.sub_diag. reflexivity.
        -- left. exact H.
      * right. split; [lia|]. split; [cbn [length]; lia|].
        replace (N.to_nat (j - i)) with (S (N.to_nat (j - (i + 1)))) by lia. exact H3.
    + apply IH in H. destruct H as [H|[H1 [H2 H3]]].
      * left. exact H.
      * right. split; [lia|]. split; [cbn [length]; lia|].
        replace (N.to_nat (j - i)) with (S (N.to_nat (j - (i + 1)))) by lia. exact H3.
Qed.

Lemma np_byte_of_N_to_N : forall j, (j < 256)%N -> Byte.to_N (byte_of_N j) = j.
Proof.
  intros j Hj. unfold byte_of_N. rewrite N.mod_small by exact Hj.
  destruct (Byte.of_N j) as [b|] eqn:E.
  - apply Byte.to_of_N. exact E.
  - apply Byte.of_N_None_iff in E. lia.
Qed.

Lemma np_cdec_cenc : forall cd ch x, codec_okb cd = true -> cenc cd ch = Some x -> cdec cd x = Some ch.
Proof.
  intros cd ch x Hok H. unfold cenc in H.
  destruct (find_idx (ctable cd) ch 0%N None) as [j|] eqn:E; [|discriminate].
  cbn [option_map] in H. inversion H; subst x. clear H.
  apply np_find_idx_spec in E. destruct E as [E|[H1 [H2 H3]]]; [discriminate|].
  unfold codec_okb in Hok. apply Nat.eqb_eq in Hok. rewrite Hok in H2.
  unfold cdec. rewrite np_byte_of_N_to_N by lia.
  rewrite N.sub_0_r in H3. exact H3.
Qed.

Lemma decode_encode : forall cd s b, codec_okb cd = true -> encode cd s = Ok b -> decode cd b = Ok s.
Proof.
  intros cd s. induction s as [|ch r IH]; intros b Hok H.
  - cbn [encode] in H. inversion H. reflexivity.
  - apply np_encode_cons_inv in H. destruct H as [x [t [H1 [H2 H3]]]]. subst b.
    rewrite np_decode_cons, (np_cdec_cenc cd ch x Hok H1), (IH t Hok H2). reflexivity.
Qed.

Lemma encodable_app : forall cd s t, encodable cd (s ++ t) = encodable cd s && encodable cd t.
Proof. intros cd s t. unfold encodable. apply forallb_app. Qed.

Lemma encodable_encode : forall cd s, encodable cd s = true <-> exists b, encode cd s = Ok b.
Proof.
  intros cd s. induction s as [|ch r IH].
  - split; [intros _; exists []; reflexivity|reflexivity].
  - unfold encodable in *. cbn [forallb]. rewrite np_encode_cons. split.
    + intros H. apply andb_true_iff in H. destruct H as [H1 H2].
      destruct (cenc cd ch) as [x|]; [|discriminate].
      apply IH in H2. destruct H2 as [b Hb]. exists (x :: b). rewrite Hb. reflexivity.
    + intros [b Hb]. destruct (cenc cd ch) as [x|]; [|discriminate].
      destruct (encode cd r) as [t| | |] eqn:E; try discriminate.
      cbn [andb]. apply IH. exists t. reflexivity.
Qed.

(* ====================================================================== Group 4: bitmap bits and hex *)

Lemma np_bits_of_byte_length : forall b, length (bits_of_byte b) = 8.
Proof. intros b. unfold bits_of_byte. rewrite map_length. reflexivity. Qed.

Lemma bits_of_bytes_length : forall bm, length (bits_of_bytes bm) = 8 * length bm.
Proof.
  induction bm as [|b r IH]; [reflexivity|].
  unfold bits_of_bytes in *. cbn [flat_map]. rewrite app_length, np_bits_of_byte_length, IH.
  cbn [length]. lia.
Qed.

Lemma np_bytes_of_bits_cons8 : forall b7 b6 b5 b4 b3 b2 b1 b0 r,
  bytes_of_bits (b7 :: b6 :: b5 :: b4 :: b3 :: b2 :: b1 :: b0 :: r) =
  byte_of_N (N_of_bits [b7; b6; b5; b4; b3; b2; b1; b0]) :: bytes_of_bits r.
Proof. reflexivity. Qed.

Lemma np_list8 : forall (l : list bool) k, length l = 8 * S k ->
  exists b7 b6 b5 b4 b3 b2 b1 b0 r, l = b7 :: b6 :: b5 :: b4 :: b3 :: b2 :: b1 :: b0 :: r /\ length r = 8 * k.
Proof.
  intros l k H.
  destruct l as [|b7 l]; [cbn [length] in H; lia|].
  destruct l as [|b6 l]; [cbn [length] in H; lia|].
  destruct l as [|b5 l]; [cbn [length] in H; lia|].
  destruct l as [|b4 l]; [cbn [length] in H; lia|].
  destruct l as [|b3 l]; [cbn [length] in H; lia|].
  destruct l as [|b2 l]; [cbn [length] in H; lia|].
  destruct l as [|b1 l]; [cbn [length] in H; lia|].
  destruct l as [|b0 l]; [cbn [length] in H; lia|].
  exists b7, b6, b5, b4, b3, b2, b1, b0, l. split; [reflexivity|]. cbn [length] in H. lia.
Qed.

Lemma bytes_of_bits_length : forall l k, length l = 8 * k -> length (bytes_of_bits l) = k.
Proof.
  intros l k. revert l. induction k as [|k IH]; intros l H.
  - destruct l; [reflexivity|cbn [length] in H; lia].
  - destruct (np_list8 l k H) as [b7 [b6 [b5 [b4 [b3 [b2 [b1 [b0 [r [E Hr]]]]]]]]]]. subst l.
    rewrite np_bytes_of_bits_cons8. cbn [length]. f_equal. apply IH. exact Hr.
Qed.

Lemma np_bits_byte_roundtrip : forall b7 b6 b5 b4 b3 b2 b1 b0,
  bits_of_byte (byte_of_N (N_of_bits [b7; b6; b5; b4; b3; b2; b1; b0])) = [b7; b6; b5; b4; b3; b2; b1; b0].
Proof.
  intros b7 b6 b5 b4 b3 b2 b1 b0.
  destruct b7, b6, b5, b4, b3, b2, b1, b0; vm_compute; reflexivity.
Qed.

Lemma bits_bytes_roundtrip : forall l k, length l = 8 * k -> bits_of_bytes (bytes_of_bits l) = l.
Proof.
  intros l k. revert l. induction k as [|k IH]; intros l H.
  - destruct l; [reflexivity|cbn [length] in H; lia].
  - destruct (np_list8 l k H) as [b7 [b6 [b5 [b4 [b3 [b2 [b1 [b0 [r [E Hr]]]]]]]]]]. subst l.
    rewrite np_bytes_of_bits_cons8. unfold bits_of_bytes in *. cbn [flat_map].
    rewrite np_bits_byte_roundtrip, (IH r Hr). reflexivity.
Qed.

Lemma np_nth_bits_of_byte : forall b m, m < 8 ->
  nth m (bits_of_byte b) false = N.testbit (Byte.to_N b) (N.of_nat (7 - m)).
Proof.
  intros b m Hm. unfold bits_of_byte.
  destruct m as [|m]; [reflexivity|]. destruct m as [|m]; [reflexivity|].
  destruct m as [|m]; [reflexivity|]. destruct m as [|m]; [reflexivity|].
  destruct m as [|m]; [reflexivity|]. destruct m as [|m]; [reflexivity|].
  destruct m as [|m]; [reflexivity|]. destruct m as [|m]; [reflexivity|]. lia.
Qed.

Lemma np_nth_bits : forall bm m,
  nth m (bits_of_bytes bm) false =
  match nth_error bm (m / 8) with
  | Some b => N.testbit (Byte.to_N b) (N.of_nat (7 - m mod 8))
  | None => false
  end.
Proof.
  induction bm as [|b r IH]; intros m.
  - unfold bits_of_bytes. cbn [flat_map]. destruct m; destruct (_ / 8); reflexivity.
  - unfold bits_of_bytes in *. cbn [flat_map].
    destruct (Nat.lt_ge_cases m 8) as [Hlt|Hge].
    + rewrite app_nth1 by (rewrite np_bits_of_byte_length; exact Hlt).
      rewrite Nat.div_small by exact Hlt. rewrite Nat.mod_small by exact Hlt.
      cbn [nth_error]. apply np_nth_bits_of_byte. exact Hlt.
    + rewrite app_nth2 by (rewrite np_bits_of_byte_length; exact Hge).
      rewrite np_bits_of_byte_length. rewrite IH.
      assert (Hd : m / 8 = S ((m - 8) / 8)).
      { replace m with ((m - 8) + 1 * 8) at 1 by lia. rewrite Nat.div_add by lia. lia. }
      assert (Hm : m mod 8 = (m - 8) mod 8).
      { replace m with ((m - 8) + 1 * 8) at 1 by lia. rewrite Nat.mod_add by lia. reflexivity. }
      rewrite Hd, Hm. reflexivity.
Qed.

Lemma nth_bits_bit_set : forall bm n, 1 <= n -> nth (n - 1) (bits_of_bytes bm) false = bit_set bm n.
Proof. intros bm n _. unfold bit_set. apply np_nth_bits. Qed.

(* ---- hex ---- *)
Definition np_hex_byte_okb (x : byte) : bool :=
  let n := N_of_byte x in
  let a := hexch (n / 16)%N in
  let b := hexch (n mod 16)%N in
  match hexval a, hexval b with
  | Some p, Some q => Byte.eqb (byte_of_N (p * 16 + q)%N) x
  | _, _ => false
  end
  && ((48 <=? a) && (a <=? 57) || (97 <=? a) && (a <=? 102))%N
  && ((48 <=? b) && (b <=? 57) || (97 <=? b) && (b <=? 102))%N
  && (Byte.to_N (byte_of_N a) =? a)%N && (Byte.to_N (byte_of_N b) =? b)%N.

Lemma np_hex_byte_ok : forall x, np_hex_byte_okb x = true.
Proof. intros x. destruct x; vm_compute; reflexivity. Qed.

Lemma np_hexlify_cons : forall x r,
  hexlify (x :: r) = hexch (N_of_byte x / 16)%N :: hexch (N_of_byte x mod 16)%N :: hexlify r.
Proof. reflexivity. Qed.

Lemma np_hex_byte_facts : forall x,
  let a := hexch (N_of_byte x / 16)%N in
  let b := hexch (N_of_byte x mod 16)%N in
  (exists p q, hexval a = Some p /\ hexval b = Some q /\ byte_of_N (p * 16 + q)%N = x)
  /\ ((48 <=? a) && (a <=? 57) || (97 <=? a) && (a <=? 102))%N = true
  /\ ((48 <=? b) && (b <=? 57) || (97 <=? b) && (b <=? 102))%N = true
  /\ Byte.to_N (byte_of_N a) = a /\ Byte.to_N (byte_of_N b) = b.
Proof.
  intros x a b. pose proof (np_hex_byte_ok x) as H. unfold np_hex_byte_okb in H.
  fold a in H. fold b in H. cbv zeta in H.
  apply andb_true_iff in H. destruct H as [H H5].
  apply andb_true_iff in H. destruct H as [H H4].
  apply andb_true_iff in H. destruct H as [H H3].
  apply andb_true_iff in H. destruct H as [H1 H2].
  apply N.eqb_eq in H4, H5.
  split; [|auto].
  destruct (hexval a) as [p|]; [|discriminate]. destruct (hexval b) as [q|]; [|discriminate].
  exists p, q. split; [reflexivity|]. split; [reflexivity|].
  apply Byte.byte_dec_bl in H1. exact H1.
Qed.

Lemma unhexlify_hexlify : forall b, unhexlify (hexlify b) = Some b.
Proof.
  induction b as [|x r IH]; [reflexivity|].
  rewrite np_hexlify_cons.
  destruct (np_hex_byte_facts x) as [[p [q [H1 [H2 H3]]]] _].
  cbn [unhexlify]. rewrite H1, H2, IH, H3. reflexivity.
Qed.

Lemma hexlify_length : forall b, length (hexlify b) = 2 * length b.
Proof.
  induction b as [|x r IH]; [reflexivity|].
  rewrite np_hexlify_cons. cbn [length]. rewrite IH. lia.
Qed.

Lemma hexlify_lower : forall b,
  Forall (fun c => ((48 <=? c) && (c <=? 57) || (97 <=? c) && (c <=? 102))%N = true) (hexlify b).
Proof.
  induction b as [|x r IH]; [constructor|].
  rewrite np_hexlify_cons.
  destruct (np_hex_byte_facts x) as [_ [H2 [H3 _]]].
  constructor; [exact H2|]. constructor; [exact H3|exact IH].
Qed.

Lemma ascii_hex_roundtrip : forall b, ascii_str (map byte_of_N (hexlify b)) = hexlify b.
Proof.
  induction b as [|x r IH]; [reflexivity|].
  rewrite np_hexlify_cons.
  destruct (np_hex_byte_facts x) as [_ [_ [_ [H4 H5]]]].
  unfold ascii_str in *. cbn [map]. rewrite H4, H5, IH. reflexivity.
Qed.

(* ====================================================================== Group 5: dates *)

Lemma strptime_outcomes : forall fmt s,
  (exists d, strptime_m fmt s = Ok d) \/ strptime_m fmt s = Raise EValue \/ strptime_m fmt s = Unmodelled.
Proof.
  intros fmt s. unfold strptime_m.
  destruct (parse_fmt fmt) as [ds|]; [|right; right; reflexivity].
  destruct (negb (fmt_ok ds)); [right; right; reflexivity|].
  destruct (negb (all_ascii_digits s && Nat.eqb (length s) (list_sum (map dwidth ds))));
    [right; right; reflexivity|].
  destruct (scan ds s pempty) as [p|]; [|right; left; reflexivity].
  match goal with |- context [valid_dt ?t] => destruct (valid_dt t) end.
  - left. eexists. reflexivity.
  - right; left; reflexivity.
Qed.

(* the number a directive renders *)
Definition np_comp (x : dirv) (t : datetime) : N :=
  match x with
  | Dy => (dt_Y t mod 100)%N | DY => dt_Y t | Dm => dt_m t | Dd => dt_d t
  | DH => dt_H t | DM => dt_M t | DS => dt_S t
  end.

Lemma np_fmt_dir_comp : forall x t, fmt_dir x t = map dch (digs (dwidth x) (np_comp x t)).
Proof. intros x t. destruct x; reflexivity. Qed.

Lemma np_fmt_dir_length : forall x t, length (fmt_dir x t) = dwidth x.
Proof. intros x t. rewrite np_fmt_dir_comp, map_length. apply digs_length. Qed.

Lemma np_all_digits_map_dch : forall ds, Forall (fun d => (d < 10)%N) ds -> all_ascii_digits (map dch ds) = true.
Proof.
  intros ds H. unfold all_ascii_digits. apply forallb_forall. intros c Hc.
  apply in_map_iff in Hc. destruct Hc as [d [Hd Hin]]. subst c.
  rewrite Forall_forall in H. specialize (H d Hin). unfold dch. lia.
Qed.

Lemma np_all_digits_app : forall a b, all_ascii_digits (a ++ b) = all_ascii_digits a && all_ascii_digits b.
Proof. intros a b. unfold all_ascii_digits. apply forallb_app. Qed.

Lemma np_flat_fmt_digits : forall t ds,
  all_ascii_digits (flat_map (fun x => fmt_dir x t) ds) = true
  /\ length (flat_map (fun x => fmt_dir x t) ds) = list_sum (map dwidth ds).
Proof.
  intros t ds. induction ds as [|x r [IH1 IH2]]; [split; reflexivity|].
  cbn [flat_map map list_sum]. split.
  - rewrite np_all_digits_app, IH1, np_fmt_dir_comp, np_all_digits_map_dch by apply digs_lt10. reflexivity.
  - rewrite app_length, IH2, np_fmt_dir_length. reflexivity.
Qed.

Lemma np_strftime_inv : forall fmt d s, strftime_m fmt d = Ok s ->
  exists ds, parse_fmt fmt = Some ds /\ fmt_ok ds = true /\ s = flat_map (fun x => fmt_dir x d) ds.
Proof.
  intros fmt d s H. unfold strftime_m in H.
  destruct (parse_fmt fmt) as [ds|]; [|discriminate].
  destruct (fmt_ok ds && (1000 <=? dt_Y d)%N && (dt_Y d <=? 9999)%N) eqn:E; [|discriminate].
  inversion H. exists ds. split; [reflexivity|]. split; [|reflexivity].
  apply andb_true_iff in E. destruct E as [E _]. apply andb_true_iff in E. destruct E as [E _]. exact E.
Qed.

Lemma strftime_all_digits : forall fmt d s, strftime_m fmt d = Ok s ->
  all_ascii_digits s = true /\ (exists ds, parse_fmt fmt = Some ds /\ length s = list_sum (map dwidth ds)).
Proof.
  intros fmt d s H. apply np_strftime_inv in H. destruct H as [ds [H1 [H2 H3]]]. subst s.
  destruct (np_flat_fmt_digits d ds) as [A B].
  split; [exact A|]. exists ds. split; [exact H1|exact B].
Qed.

Lemma np_days_in_month_le : forall y m, (days_in_month y m <= 31)%N.
Proof.
  intros y m. unfold days_in_month.
  destruct ((m =? 4)%N || (m =? 6)%N || (m =? 9)%N || (m =? 11)%N); [lia|].
  destruct (m =? 2)%N; [|lia]. destruct (is_leap y); lia.
Qed.

Lemma np_valid_dt_bounds : forall t, valid_dt t = true ->
  (1 <= dt_Y t <= 9999 /\ 1 <= dt_m t <= 12 /\ 1 <= dt_d t <= 31 /\ dt_H t <= 23 /\ dt_M t <= 59 /\ dt_S t <= 59)%N.
Proof.
  intros t H. unfold valid_dt in H. pose proof (np_days_in_month_le (dt_Y t) (dt_m t)) as Hd.
  repeat (apply andb_true_iff in H; let H' := fresh "V" in destruct H as [H H']).
  lia.
Qed.

Lemma np_comp_bound : forall x t, valid_dt t = true -> (np_comp x t < 10 ^ N.of_nat (dwidth x))%N.
Proof.
  intros x t H. apply np_valid_dt_bounds in H.
  destruct x; cbn [np_comp dwidth]; rewrite ?pow10_2, ?pow10_4; try lia.
  all: apply N.mod_lt; lia.
Qed.

Lemma np_comp_accepts : forall x t, valid_dt t = true -> dir_accepts x (np_comp x t) = true.
Proof.
  intros x t H. apply np_valid_dt_bounds in H.
  destruct x; cbn [np_comp dir_accepts]; try reflexivity; lia.
Qed.

Lemma np_num_of_map_dch : forall ds, num_of (map dch ds) = Prim.value ds.
Proof.
  intros ds. unfold num_of. rewrite map_map. f_equal.
  rewrite <- (map_id ds) at 2. apply map_ext. intros a. unfold dch. lia.
Qed.

Lemma np_firstn_exact : forall (A : Type) (a b : list A) n, length a = n -> firstn n (a ++ b) = a.
Proof.
  intros A a b n H. subst n. rewrite firstn_app, Nat.sub_diag, firstn_all. cbn [firstn]. apply app_nil_r.
Qed.

Lemma np_skipn_exact : forall (A : Type) (a b : list A) n, length a = n -> skipn n (a ++ b) = b.
Proof.
  intros A a b n H. subst n. rewrite skipn_app, Nat.sub_diag, skipn_all. reflexivity.
Qed.

Definition np_pstep (t : datetime) (p : partial) (x : dirv) : partial := pset p x (np_comp x t).

Lemma np_scan_flat : forall t, valid_dt t = true -> forall ds p,
  scan ds (flat_map (fun x => fmt_dir x t) ds) p = Some (fold_left (np_pstep t) ds p).
Proof.
  intros t Hv. induction ds as [|x r IH]; intros p; [reflexivity|].
  cbn [flat_map scan fold_left].
  rewrite (np_firstn_exact _ _ _ _ (np_fmt_dir_length x t)).
  rewrite (np_skipn_exact _ _ _ _ (np_fmt_dir_length x t)).
  rewrite np_fmt_dir_comp, np_num_of_map_dch, value_digs by (apply np_comp_bound; exact Hv).
  rewrite np_comp_accepts by exact Hv. apply IH.
Qed.

Ltac np_fold_field :=
  let x := fresh "x" in let r := fresh "r" in let IH := fresh "IH" in let p := fresh "p" in
  intros t ds; induction ds as [|x r IH]; intros p; [reflexivity|];
  cbn [fold_left existsb]; rewrite IH; unfold np_pstep at 1;
  destruct x; cbn [dirv_eqb orb pset pY pm pd pH pM pS np_comp]; try reflexivity;
  destruct (existsb _ r); reflexivity.

Lemma np_fold_pm : forall t ds p,
  pm (fold_left (np_pstep t) ds p) = if existsb (dirv_eqb Dm) ds then Some (dt_m t) else pm p.
Proof. np_fold_field. Qed.
Lemma np_fold_pd : forall t ds p,
  pd (fold_left (np_pstep t) ds p) = if existsb (dirv_eqb Dd) ds then Some (dt_d t) else pd p.
Proof. np_fold_field. Qed.
Lemma np_fold_pH : forall t ds p,
  pH (fold_left (np_pstep t) ds p) = if existsb (dirv_eqb DH) ds then Some (dt_H t) else pH p.
Proof. np_fold_field. Qed.
Lemma np_fold_pM : forall t ds p,
  pM (fold_left (np_pstep t) ds p) = if existsb (dirv_eqb DM) ds then Some (dt_M t) else pM p.
Proof. np_fold_field. Qed.
Lemma np_fold_pS : forall t ds p,
  pS (fold_left (np_pstep t) ds p) = if existsb (dirv_eqb DS) ds then Some (dt_S t) else pS p.
Proof. np_fold_field. Qed.

Definition np_pivot (v : N) : N := if (v <=? 68)%N then (2000 + v)%N else (1900 + v)%N.

Lemma np_fold_pY_noy : forall t ds p, existsb (dirv_eqb Dy) ds = false ->
  pY (fold_left (np_pstep t) ds p) = if existsb (dirv_eqb DY) ds then Some (dt_Y t) else pY p.
Proof.
  intros t ds; induction ds as [|x r IH]; intros p Hn; [reflexivity|].
  cbn [existsb] in Hn. apply orb_false_iff in Hn. destruct Hn as [Hx Hr].
  cbn [fold_left existsb]. rewrite (IH _ Hr). unfold np_pstep at 1.
  destruct x; cbn [dirv_eqb orb pset pY pm pd pH pM pS np_comp]; try reflexivity; try discriminate.
  destruct (existsb (dirv_eqb DY) r); reflexivity.
Qed.

Lemma np_fold_pY_noY : forall t ds p, existsb (dirv_eqb DY) ds = false ->
  pY (fold_left (np_pstep t) ds p) =
  if existsb (dirv_eqb Dy) ds then Some (np_pivot (dt_Y t mod 100)%N) else pY p.
Proof.
  intros t ds; induction ds as [|x r IH]; intros p Hn; [reflexivity|].
  cbn [existsb] in Hn. apply orb_false_iff in Hn. destruct Hn as [Hx Hr].
  cbn [fold_left existsb]. rewrite (IH _ Hr). unfold np_pstep at 1.
  destruct x; cbn [dirv_eqb orb pset pY pm pd pH pM pS np_comp]; try reflexivity; try discriminate.
  destruct (existsb (dirv_eqb Dy) r); reflexivity.
Qed.

Lemma np_pivot_ok : forall y, (1969 <= y <= 2068)%N -> np_pivot (y mod 100)%N = y.
Proof.
  intros y H. unfold np_pivot.
  assert (C : (y < 2000 /\ y mod 100 = y - 1900 \/ 2000 <= y /\ y mod 100 = y - 2000)%N).
  { destruct (N.lt_ge_cases y 2000) as [L|G].
    - left. split; [exact L|]. symmetry. apply (N.mod_unique y 100 19); lia.
    - right. split; [exact G|]. symmetry. apply (N.mod_unique y 100 20); lia. }
  destruct C as [[C1 C2]|[C1 C2]]; rewrite C2.
  - assert (E : (y - 1900 <=? 68)%N = false) by lia. rewrite E. lia.
  - assert (E : (y - 2000 <=? 68)%N = true) by lia. rewrite E. lia.
Qed.

Lemma np_dflt_if : forall (b : bool) v o dfl,
  (b || (v =? dfl)%N) = true -> o = None -> dflt (if b then Some v else o) dfl = v.
Proof.
  intros b v o dfl H Ho. subst o. destruct b; cbn [dflt]; [reflexivity|].
  cbn [orb] in H. apply N.eqb_eq in H. symmetry. exact H.
Qed.

Lemma strptime_strftime : forall fmt d s,
  wf_dateb fmt d = true -> strftime_m fmt d = Ok s -> strptime_m fmt s = Ok d.
Proof.
  intros fmt d s Hwf Hs.
  destruct (np_strftime_inv fmt d s Hs) as [ds [Hp [Hok Hflat]]].
  destruct (np_flat_fmt_digits d ds) as [Hdig Hlen]. rewrite <- Hflat in Hdig, Hlen.
  unfold wf_dateb in Hwf. rewrite Hp in Hwf. cbv zeta in Hwf.
  apply andb_true_iff in Hwf. destruct Hwf as [Hwf WS].
  apply andb_true_iff in Hwf. destruct Hwf as [Hwf WM].
  apply andb_true_iff in Hwf. destruct Hwf as [Hwf WH].
  apply andb_true_iff in Hwf. destruct Hwf as [Hwf Wd].
  apply andb_true_iff in Hwf. destruct Hwf as [Hwf Wm].
  apply andb_true_iff in Hwf. destruct Hwf as [Hwf WY].
  apply andb_true_iff in Hwf. destruct Hwf as [_ Hv].
  unfold strptime_m. rewrite Hp, Hok. cbn [negb].
  rewrite Hdig, Hlen, Nat.eqb_refl. cbn [andb negb].
  rewrite Hflat, (np_scan_flat d Hv ds pempty).
  rewrite np_fold_pm, np_fold_pd, np_fold_pH, np_fold_pM, np_fold_pS.
  cbn [pm pd pH pM pS pempty].
  rewrite (np_dflt_if _ _ _ _ Wm eq_refl), (np_dflt_if _ _ _ _ Wd eq_refl),
    (np_dflt_if _ _ _ _ WH eq_refl), (np_dflt_if _ _ _ _ WM eq_refl), (np_dflt_if _ _ _ _ WS eq_refl).
  assert (HY : dflt (pY (fold_left (np_pstep d) ds pempty)) 1900%N = dt_Y d).
  { unfold fmt_ok in Hok. apply andb_true_iff in Hok. destruct Hok as [_ Hboth].
    apply negb_true_iff in Hboth.
    destruct (existsb (dirv_eqb Dy) ds) eqn:Ey.
    - cbn [andb] in Hboth. rewrite (np_fold_pY_noY d ds pempty Hboth), Ey. cbn [dflt].
      apply np_pivot_ok. lia.
    - rewrite (np_fold_pY_noy d ds pempty Ey).
      destruct (existsb (dirv_eqb DY) ds); cbn [dflt pY pempty]; [reflexivity|].
      apply N.eqb_eq in WY. symmetry. exact WY. }
  rewrite HY.
  destruct d as [Y m dd H M S]. cbn [dt_Y dt_m dt_d dt_H dt_M dt_S] in *.
  rewrite Hv. reflexivity.
Qed.
