(* ParamProofs.v — proofs about the IpmParamReader model (model/Param.v) against spec/ParamSpec.v (C18). *)
From Coq Require Import Strings.Byte Strings.String.
From Coq Require Import List Arith NArith Lia Bool.
Require Import CU.model.Prim CU.model.Codec CU.model.Block CU.model.Vbs CU.model.Param CU.spec.ParamSpec.
Require Import CU.spec.FramingSpec CU.proofs.VbsProofs.
Import ListNotations.
Open Scope nat_scope.

(* ---------- list helpers ---------- *)
Lemma pp_firstn_exact {A} n (a b : list A) : length a = n -> firstn n (a ++ b) = a.
Proof.
  intros H. subst n. rewrite firstn_app, Nat.sub_diag, firstn_all. cbn [firstn]. apply app_nil_r.
Qed.

Lemma pp_skipn_exact {A} n (a b : list A) : length a = n -> skipn n (a ++ b) = b.
Proof.
  intros H. subst n. rewrite skipn_app, Nat.sub_diag, skipn_all. reflexivity.
Qed.

(* a slice that starts behind a prefix of known length is a slice of the rest *)
Lemma pp_slice_prefix {A} (p l : list A) a b n : length p = n -> n <= a ->
  slice a b (p ++ l) = slice (a - n) (b - n) l.
Proof.
  intros Hp Hn. unfold slice. rewrite skipn_app. rewrite (skipn_all2 p) by lia. cbn [app].
  rewrite Hp. f_equal. lia.
Qed.

(* the middle piece *)
Lemma pp_slice_mid {A} (p m r : list A) a b : length p = a -> length m = b - a ->
  slice a b (p ++ m ++ r) = m.
Proof.
  intros Hp Hm. unfold slice. rewrite (pp_skipn_exact a p _ Hp). apply pp_firstn_exact. exact Hm.
Qed.

Lemma pp_slice_head {A} (m r : list A) b : length m = b -> slice 0 b (m ++ r) = m.
Proof.
  intros Hm. unfold slice. cbn [skipn]. apply pp_firstn_exact. lia.
Qed.

(* ---------- equality test on str ---------- *)
Lemma pp_str_eqb_eq : forall a b : str, str_eqb a b = true <-> a = b.
Proof.
  unfold str_eqb. induction a as [|x a IH]; intros [|y b]; cbn [list_eqb]; split; intros H; try reflexivity;
    try discriminate.
  - apply andb_true_iff in H. destruct H as [H1 H2]. apply N.eqb_eq in H1. apply IH in H2. congruence.
  - inversion H; subst. rewrite N.eqb_refl. cbn [andb]. apply IH. reflexivity.
Qed.

Lemma pp_str_eqb_refl (a : str) : str_eqb a a = true.
Proof. apply pp_str_eqb_eq. reflexivity. Qed.

Lemma pp_str_eqb_false (a b : str) : a <> b -> str_eqb a b = false.
Proof.
  intros H. destruct (str_eqb a b) eqn:E; [|reflexivity]. apply pp_str_eqb_eq in E. contradiction.
Qed.

(* ---------- the constants of the model are the literals of the spec ---------- *)
Lemma pp_lit_key : lit "IP0000T1" = k_ip0000t1.             Proof. reflexivity. Qed.
Lemma pp_lit_trailer : lit "TRAILER RECORD IP0000T1" = k_trailer.  Proof. reflexivity. Qed.
Lemma pp_lit_table_id : lit "table_id" = k_table_id.        Proof. reflexivity. Qed.
Lemma pp_lit_ts : lit "effective_timestamp" = k_effective_timestamp.  Proof. reflexivity. Qed.
Lemma pp_lit_code : lit "active_inactive_code" = k_active_inactive_code.  Proof. reflexivity. Qed.
Lemma pp_header_names : header_names = [k_table_id; k_effective_timestamp; k_active_inactive_code].
Proof. reflexivity. Qed.

(* ---------- codec: decoding inverts encoding, and both commute with slicing ---------- *)
Lemma pp_N_of_byte_of_N n : Byte.to_N (byte_of_N n) = (n mod 256)%N.
Proof.
  unfold byte_of_N.
  destruct (Byte.of_N (n mod 256)) as [b|] eqn:E.
  - now apply Byte.to_of_N.
  - apply Byte.of_N_None_iff in E.
    assert (n mod 256 < 256)%N by (apply N.mod_lt; discriminate). lia.
Qed.

Lemma pp_find_idx_sound : forall t ch i acc j, find_idx t ch i acc = Some j ->
  acc = Some j \/ exists k, j = (i + N.of_nat k)%N /\ k < length t /\ nth k t None = Some ch.
Proof.
  induction t as [|o t IH]; intros ch i acc j H; cbn [find_idx] in H; [left; exact H|].
  destruct o as [x|].
  - destruct (IH _ _ _ _ H) as [Ha|[k [Hj [Hk Hn]]]].
    + destruct (N.eqb x ch) eqn:E; [|left; exact Ha].
      inversion Ha; subst. apply N.eqb_eq in E. subst. right. exists 0. cbn [nth length].
      split; [lia|]. split; [lia|reflexivity].
    + right. exists (S k). cbn [nth length]. split; [lia|]. split; [lia|exact Hn].
  - destruct (IH _ _ _ _ H) as [Ha|[k [Hj [Hk Hn]]]]; [left; exact Ha|].
    right. exists (S k). cbn [nth length]. split; [lia|]. split; [lia|exact Hn].
Qed.

Lemma pp_cenc_cdec c ch b : codec_fits c -> cenc c ch = Some b -> cdec c b = Some ch.
Proof.
  unfold codec_fits, cenc, cdec. intros Hc H.
  destruct (find_idx (ctable c) ch 0%N None) as [j|] eqn:E; cbn [option_map] in H; [|discriminate].
  inversion H; subst b. destruct (pp_find_idx_sound _ _ _ _ _ E) as [Ha|[k [Hj [Hk Hn]]]]; [discriminate|].
  rewrite pp_N_of_byte_of_N. rewrite N.mod_small by lia.
  replace (N.to_nat j) with k by lia. exact Hn.
Qed.

Lemma pp_encode_cons c ch r b : encode c (ch :: r) = Ok b ->
  exists x t, cenc c ch = Some x /\ encode c r = Ok t /\ b = x :: t.
Proof.
  cbn [encode]. destruct (cenc c ch) as [x|]; [|discriminate].
  destruct (encode c r) as [t| | |]; cbn [bind]; try discriminate.
  intros H. inversion H. eauto.
Qed.

Lemma pp_encode_decode c : codec_fits c -> forall s b, encode c s = Ok b -> decode c b = Ok s.
Proof.
  intros Hc. induction s as [|ch s IH]; intros b H.
  - cbn [encode] in H. inversion H. reflexivity.
  - destruct (pp_encode_cons _ _ _ _ H) as [x [t [Hx [Ht Hb]]]]. subst b.
    cbn [decode]. rewrite (pp_cenc_cdec c ch x Hc Hx). rewrite (IH _ Ht). reflexivity.
Qed.

Lemma pp_encode_firstn c : forall n s b, encode c s = Ok b -> encode c (firstn n s) = Ok (firstn n b).
Proof.
  induction n as [|n IH]; intros s b H; [reflexivity|].
  destruct s as [|ch s].
  - cbn [encode] in H. inversion H. reflexivity.
  - destruct (pp_encode_cons _ _ _ _ H) as [x [t [Hx [Ht Hb]]]]. subst b.
    cbn [firstn encode]. rewrite Hx. rewrite (IH _ _ Ht). reflexivity.
Qed.

Lemma pp_encode_skipn c : forall n s b, encode c s = Ok b -> encode c (skipn n s) = Ok (skipn n b).
Proof.
  induction n as [|n IH]; intros s b H; [exact H|].
  destruct s as [|ch s].
  - cbn [encode] in H. inversion H. reflexivity.
  - destruct (pp_encode_cons _ _ _ _ H) as [x [t [Hx [Ht Hb]]]]. subst b.
    cbn [skipn]. apply IH. exact Ht.
Qed.

(* bytes are sliced first and decoded afterwards; for an encoded text that is the slice of the text *)
Lemma pp_decode_slice c a e s b : codec_fits c -> encode c s = Ok b ->
  decode c (slice a e b) = Ok (slice a e s).
Proof.
  intros Hc H. apply (pp_encode_decode c Hc). unfold slice.
  apply pp_encode_firstn. apply pp_encode_skipn. exact H.
Qed.

Lemma pp_encode_all_F2 c : forall l bs, encode_all c l = Ok bs ->
  Forall2 (fun t b => encode c t = Ok b) l bs.
Proof.
  induction l as [|t l IH]; intros bs H; cbn [encode_all] in H.
  - inversion H. constructor.
  - destruct (encode c t) as [b| | |] eqn:E; cbn [bind] in H; try discriminate.
    destruct (encode_all c l) as [bs'| | |] eqn:E2; cbn [bind] in H; try discriminate.
    inversion H; subst. constructor; [exact E|]. apply IH. reflexivity.
Qed.

(* a codec that maps the 256 bytes one-to-one: every byte string is the encoding of its decoding *)
Lemma pp_roundtrips_cover c : (forall b, byte_roundtrips c b = true) ->
  forall bs, exists t, decode c bs = Ok t /\ encode c t = Ok bs.
Proof.
  intros H. induction bs as [|b bs [t [Hd He]]].
  - exists []. split; reflexivity.
  - specialize (H b). unfold byte_roundtrips in H.
    destruct (cdec c b) as [ch|] eqn:E1; [|discriminate].
    destruct (cenc c ch) as [b'|] eqn:E2; [|discriminate].
    apply Byte.byte_dec_bl in H. subst b'.
    exists (ch :: t). cbn [decode encode]. rewrite E1, Hd, E2, He. split; reflexivity.
Qed.

Lemma pp_roundtrips_cover_all c : (forall b, byte_roundtrips c b = true) ->
  forall recs, exists texts, encode_all c texts = Ok recs /\ Forall2 (fun r t => decode c r = Ok t) recs texts.
Proof.
  intros H. induction recs as [|r recs [ts [He Hf]]].
  - exists []. split; [reflexivity|constructor].
  - destruct (pp_roundtrips_cover c H r) as [t [Hd Hen]].
    exists (t :: ts). split.
    + cbn [encode_all]. rewrite Hen, He. reflexivity.
    + constructor; assumption.
Qed.

(* ---------- association lists ---------- *)
Lemma pp_prow_get_assoc : forall d k, prow_get k d = assoc d k.
Proof.
  induction d as [|[k' v] d IH]; intros k; [reflexivity|]. cbn [prow_get assoc]. rewrite IH. reflexivity.
Qed.

Lemma pp_assoc_some_in : forall l k v, assoc l k = Some v -> In (k, v) l.
Proof.
  induction l as [|[k' v'] l IH]; intros k v H; cbn [assoc] in H; [discriminate|].
  destruct (str_eqb k' k) eqn:E.
  - apply pp_str_eqb_eq in E. inversion H; subst. left. reflexivity.
  - right. apply IH. exact H.
Qed.

Lemma pp_assoc_none : forall l k, assoc l k = None <-> ~ In k (map fst l).
Proof.
  induction l as [|[k' v'] l IH]; intros k; cbn [assoc map fst In].
  - split; [intros _ []|reflexivity].
  - destruct (str_eqb k' k) eqn:E.
    + apply pp_str_eqb_eq in E. split; [discriminate|]. intros H. exfalso. apply H. left. exact E.
    + rewrite IH. split.
      * intros H [H1|H1]; [|exact (H H1)]. subst. rewrite pp_str_eqb_refl in E. discriminate.
      * intros H H1. apply H. right. exact H1.
Qed.

Lemma pp_assoc_in : forall l k v, NoDup (map fst l) -> In (k, v) l -> assoc l k = Some v.
Proof.
  induction l as [|[k' v'] l IH]; intros k v ND H; [destruct H|].
  cbn [map fst] in ND. inversion ND as [|? ? Hn ND']; subst. cbn [assoc].
  destruct H as [H|H].
  - inversion H; subst. rewrite pp_str_eqb_refl. reflexivity.
  - destruct (str_eqb k' k) eqn:E.
    + apply pp_str_eqb_eq in E. subst. exfalso. apply Hn. apply (in_map fst) in H. exact H.
    + apply IH; assumption.
Qed.

(* the model keeps the newest assignment in front; with distinct sub ids the order does not matter *)
Lemma pp_assoc_rev : forall l k, NoDup (map fst l) -> assoc (rev l) k = assoc l k.
Proof.
  intros l k ND. destruct (assoc l k) as [v|] eqn:E.
  - apply pp_assoc_in.
    + rewrite map_rev. apply NoDup_rev. exact ND.
    + apply in_rev. rewrite rev_involutive. apply pp_assoc_some_in. exact E.
  - apply pp_assoc_none. apply pp_assoc_none in E. rewrite map_rev. intros H. apply E. apply in_rev. exact H.
Qed.

Lemma pp_index_keys irows : map fst (index_of irows) = map i_sub irows.
Proof. unfold index_of. rewrite map_map. reflexivity. Qed.

(* ---------- the table index ---------- *)
Lemma pp_starts_with_app : forall p r, starts_with p (p ++ r) = true.
Proof.
  induction p as [|x p IH]; intros r; [reflexivity|]. cbn [starts_with app]. rewrite N.eqb_refl. apply IH.
Qed.

Lemma pp_starts_with_inv : forall p s, starts_with p s = true -> exists r, s = p ++ r.
Proof.
  induction p as [|x p IH]; intros s H; [exists s; reflexivity|].
  destruct s as [|y s]; cbn [starts_with] in H; [discriminate|].
  apply andb_true_iff in H. destruct H as [H1 H2]. apply N.eqb_eq in H1. subst y.
  destruct (IH _ H2) as [r Hr]. exists r. subst s. reflexivity.
Qed.

(* positions 11..19 of anything that starts with the trailer text *)
Lemma pp_trailer_key tail : slice 11 19 (k_trailer ++ tail) = [79; 82; 68; 32; 73; 80; 48; 48]%N.
Proof. reflexivity. Qed.

Lemma pp_irow_slices i : wf_irow i ->
  slice 11 19 (irow_text i) = k_ip0000t1 /\ slice 19 27 (irow_text i) = i_table i /\
  slice 243 246 (irow_text i) = i_sub i.
Proof.
  intros [H1 [H2 [H3 H4]]]. unfold irow_text. rewrite pp_lit_key.
  assert (Lk : length k_ip0000t1 = 8) by reflexivity.
  split; [|split].
  - apply pp_slice_mid; [exact H1|exact Lk].
  - rewrite app_assoc. apply pp_slice_mid; [rewrite app_length; lia|lia].
  - rewrite (app_assoc (i_pre i)), (app_assoc (i_pre i ++ k_ip0000t1)), (app_assoc _ (i_mid i)).
    apply pp_slice_mid; [rewrite !app_length; lia|lia].
Qed.

Lemma pp_irow_not_trailer i : wf_irow i -> starts_with k_trailer (irow_text i) = false.
Proof.
  intros W. destruct (starts_with k_trailer (irow_text i)) eqn:E; [|reflexivity].
  destruct (pp_starts_with_inv _ _ E) as [r Hr].
  destruct (pp_irow_slices i W) as [H _]. rewrite Hr, pp_trailer_key in H. discriminate.
Qed.

Lemma pp_load_index_irows c : codec_fits c -> forall irows bs rest ix,
  Forall wf_irow irows -> Forall2 (fun t b => encode c t = Ok b) (map irow_text irows) bs ->
  load_index c (bs ++ rest) ix = load_index c rest (rev (index_of irows) ++ ix).
Proof.
  intros Hc. induction irows as [|i irows IH]; intros bs rest ix W F.
  - inversion F; subst. reflexivity.
  - cbn [map] in F. inversion F as [|t b ts bs' Hb F']; subst.
    inversion W as [|? ? Wi W']; subst.
    cbn [app load_index]. rewrite (pp_encode_decode c Hc _ _ Hb). cbn [bind].
    destruct (pp_irow_slices i Wi) as [S1 [S2 S3]]. rewrite S1, S2, S3.
    rewrite pp_str_eqb_refl. rewrite (pp_irow_not_trailer i Wi).
    rewrite (IH _ _ _ W' F'). cbn [index_of map rev]. rewrite <- app_assoc. reflexivity.
Qed.

Lemma pp_load_index_trailer c tail b rest ix : codec_fits c -> encode c (trailer_text tail) = Ok b ->
  load_index c (b :: rest) ix = Ok (ix, Some rest).
Proof.
  intros Hc Hb. cbn [load_index]. rewrite (pp_encode_decode c Hc _ _ Hb). cbn [bind].
  unfold trailer_text. rewrite pp_lit_trailer. rewrite pp_trailer_key.
  rewrite pp_starts_with_app. reflexivity.
Qed.

(* records none of which is the trailer: the records run out *)
Lemma pp_load_index_no_trailer c : forall recs ix,
  Forall (fun b => exists t, decode c b = Ok t /\ starts_with k_trailer t = false) recs ->
  exists ix', load_index c recs ix = Ok (ix', None).
Proof.
  induction recs as [|b recs IH]; intros ix F.
  - exists ix. reflexivity.
  - inversion F as [|? ? [t [Hd Hs]] F']; subst. cbn [load_index]. rewrite Hd. cbn [bind]. rewrite Hs. apply IH. exact F'.
Qed.

(* ---------- one data row ---------- *)
Lemma pp_prow_set_new : forall d k v, ~ In k (map fst d) -> prow_set k v d = d ++ [(k, v)].
Proof.
  induction d as [|[k' v'] d IH]; intros k v H; [reflexivity|].
  cbn [prow_set app]. cbn [map fst In] in H.
  rewrite pp_str_eqb_false by (intros E; apply H; left; exact E).
  rewrite IH; [reflexivity|]. intros H1. apply H. right. exact H1.
Qed.

(* the configured columns: positions count from the start of the expanded row; the record is pre ++ body with the
   body at 19 (expanded, offset 0) or at 11 (compressed, offset 8) *)
Lemma pp_param_fields c off b pre body : codec_fits c -> encode c (pre ++ body) = Ok b ->
  length pre + off = 19 ->
  forall lay d, layout_ok lay -> NoDup (map fst d ++ map fst lay) ->
  param_fields c off b lay d = Ok (d ++ map (column body) lay).
Proof.
  intros Hc Hb Hp. induction lay as [|[f [s e]] lay IH]; intros d L ND.
  - cbn [param_fields map]. rewrite app_nil_r. reflexivity.
  - inversion L as [|? ? [L1 L2] L']; subst. cbn [fst snd] in L1, L2.
    cbn [param_fields]. rewrite (pp_decode_slice c _ _ _ _ Hc Hb). cbn [bind].
    rewrite (pp_slice_prefix pre body (s - off) (e - off) (length pre)) by lia.
    cbn [map fst] in ND.
    rewrite pp_prow_set_new.
    2:{ apply NoDup_remove_2 in ND. intros H. apply ND. apply in_or_app. left. exact H. }
    rewrite IH; [| exact L' |].
    + rewrite <- app_assoc. cbn [app map]. unfold column at 2. cbn [fst snd].
      replace (s - off - length pre) with (s - 19) by lia.
      replace (e - off - length pre) with (e - 19) by lia. reflexivity.
    + rewrite map_app, <- app_assoc. cbn [map fst app]. exact ND.
Qed.

Lemma pp_param_row c table lay expanded ix six r b :
  codec_fits c -> layout_ok lay -> fields_ok lay -> wf_drow expanded r ->
  encode c (drow_text r) = Ok b ->
  (expanded = false -> forall k, pindex_get ix k = assoc six k) ->
  param_row c table lay expanded ix b =
    Ok (if belongs expanded six table r then Some (expected_row lay table r) else None).
Proof.
  intros Hc L Fo [W1 [W2 W3]] Hb Hix. unfold param_row, belongs, table_of.
  unfold fields_ok in Fo. rewrite pp_header_names in Fo.
  destruct expanded.
  - (* expanded *)
    cbv beta iota in W1, W3.
    rewrite !(pp_decode_slice c _ _ _ _ Hc Hb). cbn [bind]. unfold drow_text.
    rewrite (pp_slice_head (d_ts r)) by exact W1.
    rewrite (pp_slice_mid (d_ts r) (d_code r) _ 10 11) by lia.
    rewrite (app_assoc (d_ts r) (d_code r)).
    rewrite (pp_slice_mid (d_ts r ++ d_code r) (d_key r) _ 11 19) by (rewrite ?app_length; lia).
    destruct (str_eqb (d_key r) table) eqn:E; [|reflexivity].
    apply pp_str_eqb_eq in E.
    unfold drow_text in Hb. rewrite (app_assoc (d_ts r)), (app_assoc (d_ts r ++ d_code r)) in Hb.
    rewrite (pp_param_fields c 0 b _ (d_body r) Hc Hb); [| rewrite !app_length; lia | exact L | exact Fo].
    cbn [bind]. unfold expected_row. rewrite pp_lit_table_id, pp_lit_ts, pp_lit_code, E. reflexivity.
  - (* compressed *)
    cbv beta iota in W1, W3.
    rewrite !(pp_decode_slice c _ _ _ _ Hc Hb). cbn [bind]. unfold drow_text.
    rewrite (pp_slice_head (d_ts r)) by exact W1.
    rewrite (pp_slice_mid (d_ts r) (d_code r) _ 7 8) by lia.
    rewrite (app_assoc (d_ts r) (d_code r)).
    rewrite (pp_slice_mid (d_ts r ++ d_code r) (d_key r) _ 8 11) by (rewrite ?app_length; lia).
    rewrite (Hix eq_refl).
    destruct (assoc six (d_key r)) as [t|]; [|reflexivity].
    destruct (str_eqb t table) eqn:E; [|reflexivity].
    apply pp_str_eqb_eq in E.
    unfold drow_text in Hb. rewrite (app_assoc (d_ts r)), (app_assoc (d_ts r ++ d_code r)) in Hb.
    rewrite (pp_param_fields c 8 b _ (d_body r) Hc Hb); [| rewrite !app_length; lia | exact L | exact Fo].
    cbn [bind]. unfold expected_row. rewrite pp_lit_table_id, pp_lit_ts, pp_lit_code, E. reflexivity.
Qed.

Lemma pp_param_rows c table lay expanded ix six e :
  codec_fits c -> layout_ok lay -> fields_ok lay ->
  (expanded = false -> forall k, pindex_get ix k = assoc six k) ->
  forall rows bs, Forall (wf_drow expanded) rows ->
  Forall2 (fun t b => encode c t = Ok b) (map drow_text rows) bs ->
  param_rows c table lay expanded ix bs e = (expected_rows lay expanded six table rows, pend_of_rend e).
Proof.
  intros Hc L Fo Hix. induction rows as [|r rows IH]; intros bs W F.
  - inversion F; subst. reflexivity.
  - cbn [map] in F. inversion F as [|t b ts bs' Hb F']; subst.
    inversion W as [|? ? Wr W']; subst.
    cbn [param_rows]. rewrite (pp_param_row c table lay expanded ix six r b Hc L Fo Wr Hb Hix).
    unfold expected_rows. cbn [filter].
    destruct (belongs expanded six table r).
    + rewrite (IH _ W' F'). cbn [map]. reflexivity.
    + apply IH; assumption.
Qed.

Lemma pp_layout_modelled expanded lay : layout_ok lay -> layout_modelled expanded lay = true.
Proof.
  intros L. unfold layout_modelled. destruct expanded; [reflexivity|]. cbn [orb].
  apply forallb_forall. intros f Hf. unfold layout_ok in L. rewrite Forall_forall in L.
  destruct (L f Hf) as [L1 L2]. apply andb_true_iff. split; apply Nat.leb_le; lia.
Qed.

(* ---------- C18: exactly the rows of the requested table, in file order, with the configured columns ---------- *)
Lemma c18_rows : forall ls c table lay expanded irows tail rows recs e,
  codec_fits c ->
  playout_get ls table = Some lay -> lay <> [] -> layout_ok lay -> fields_ok lay ->
  Forall wf_irow irows -> Forall (wf_drow expanded) rows ->
  (expanded = false -> NoDup (map i_sub irows)) ->
  param_file c irows tail rows = Ok recs ->
  param_read ls c table expanded recs e =
    Ok (expected_rows lay expanded (index_of irows) table rows, pend_of_rend e).
Proof.
  intros ls c table lay expanded irows tail rows recs e Hc Hl Hne L Fo Wi Wr ND Hf.
  unfold param_read. rewrite Hl. destruct lay as [|f0 lay0]; [contradiction|].
  rewrite (pp_layout_modelled expanded _ L). cbn [negb].
  unfold param_file, param_file_text in Hf. apply pp_encode_all_F2 in Hf.
  apply Forall2_app_inv_l in Hf. destruct Hf as [bi [bt [Fi [Ft Hrecs]]]]. subst recs.
  inversion Ft as [|tt b ts bd Hb Fd]; subst.
  rewrite (pp_load_index_irows c Hc irows bi (b :: bd) [] Wi Fi).
  rewrite (pp_load_index_trailer c tail b bd _ Hc Hb). cbn [bind].
  f_equal. apply pp_param_rows; try assumption.
  intros He k. unfold pindex_get. rewrite pp_prow_get_assoc, app_nil_r.
  apply pp_assoc_rev. rewrite pp_index_keys. exact (ND He).
Qed.

(* ---------- C18: refusals ---------- *)
(* a table without (non-empty) configuration is refused whatever the file is *)
Lemma c18_refuse_no_layout : forall ls c table expanded recs e,
  playout_get ls table = None \/ playout_get ls table = Some [] ->
  param_read ls c table expanded recs e = Raise EData.
Proof.
  intros ls c table expanded recs e [H|H]; unfold param_read; rewrite H; reflexivity.
Qed.

(* no record is the index trailer: refused, whatever else the records are and however the framing ended *)
Lemma c18_refuse_no_trailer : forall ls c table lay expanded recs e,
  playout_get ls table = Some lay -> lay <> [] -> layout_ok lay ->
  Forall (fun b => exists t, decode c b = Ok t /\ starts_with k_trailer t = false) recs ->
  param_read ls c table expanded recs e = Raise EData.
Proof.
  intros ls c table lay expanded recs e Hl Hne L F.
  unfold param_read. rewrite Hl. destruct lay as [|f0 lay0]; [contradiction|].
  rewrite (pp_layout_modelled expanded _ L). cbn [negb].
  destruct (pp_load_index_no_trailer c recs [] F) as [ix' H]. rewrite H. reflexivity.
Qed.

(* the spec-built file with the trailer record left out *)
Lemma c18_refuse_file_without_trailer : forall ls c table lay expanded irows rows recs e,
  codec_fits c ->
  playout_get ls table = Some lay -> lay <> [] -> layout_ok lay ->
  Forall wf_irow irows -> Forall (fun r => forall tail, drow_text r <> trailer_text tail) rows ->
  encode_all c (map irow_text irows ++ map drow_text rows) = Ok recs ->
  param_read ls c table expanded recs e = Raise EData.
Proof.
  intros ls c table lay expanded irows rows recs e Hc Hl Hne L Wi Wr Hf.
  apply (c18_refuse_no_trailer ls c table lay expanded recs e Hl Hne L).
  apply pp_encode_all_F2 in Hf. apply Forall2_app_inv_l in Hf.
  destruct Hf as [bi [bd [Fi [Fd Hrecs]]]]. subst recs. apply Forall_app. split.
  - clear Fd. revert bi Fi. induction irows as [|i irows IH]; intros bi Fi; inversion Fi; subst; constructor.
    + exists (irow_text i). split; [apply (pp_encode_decode c Hc); assumption|].
      apply pp_irow_not_trailer. inversion Wi; assumption.
    + apply IH; [inversion Wi; assumption|assumption].
  - clear Fi. revert bd Fd. induction rows as [|r rows IH]; intros bd Fd; inversion Fd; subst; constructor.
    + exists (drow_text r). split; [apply (pp_encode_decode c Hc); assumption|].
      destruct (starts_with k_trailer (drow_text r)) eqn:E; [|reflexivity].
      destruct (pp_starts_with_inv _ _ E) as [tail Ht]. inversion Wr as [|? ? Hr ?]; subst.
      exfalso. apply (Hr tail). unfold trailer_text. rewrite pp_lit_trailer. exact Ht.
    + apply IH; [inversion Wr; assumption|assumption].
Qed.

(* ---------- C18: the compressed and the expanded representation give the same column values ---------- *)

Lemma pp_expected_agree lay table six six' : forall rows_e rows_c,
  Forall2 (same_row six) rows_e rows_c ->
  Forall2 rows_agree (expected_rows lay true six' table rows_e) (expected_rows lay false six table rows_c).
Proof.
  induction 1 as [|re rc rows_e rows_c [S1 [S2 S3]] F IH]; [constructor|].
  assert (B1 : belongs true six' table re = str_eqb (d_key re) table) by reflexivity.
  assert (B2 : belongs false six table rc = str_eqb (d_key re) table)
    by (unfold belongs, table_of; rewrite S3; reflexivity).
  unfold expected_rows in *. cbn [filter]. rewrite B1, B2.
  destruct (str_eqb (d_key re) table); [|exact IH].
  cbn [map]. constructor; [|exact IH].
  unfold rows_agree, expected_row. rewrite S1, S2. split.
  - rewrite !map_app. reflexivity.
  - intros k Hk. cbn [app assoc].
    destruct (str_eqb (lit "table_id") k); [reflexivity|].
    rewrite (pp_str_eqb_false (lit "effective_timestamp") k) by (intros E; apply Hk; symmetry; exact E).
    reflexivity.
Qed.

Lemma c18_compressed_eq_expanded : forall ls c table lay irows_e irows_c tail_e tail_c rows_e rows_c recs_e recs_c,
  codec_fits c ->
  playout_get ls table = Some lay -> lay <> [] -> layout_ok lay -> fields_ok lay ->
  Forall wf_irow irows_e -> Forall wf_irow irows_c -> NoDup (map i_sub irows_c) ->
  Forall (wf_drow true) rows_e -> Forall (wf_drow false) rows_c ->
  Forall2 (same_row (index_of irows_c)) rows_e rows_c ->
  param_file c irows_e tail_e rows_e = Ok recs_e ->
  param_file c irows_c tail_c rows_c = Ok recs_c ->
  exists out_e out_c,
    param_read ls c table true recs_e End = Ok (out_e, PEnd) /\
    param_read ls c table false recs_c End = Ok (out_c, PEnd) /\
    Forall2 rows_agree out_e out_c.
Proof.
  intros ls c table lay irows_e irows_c tail_e tail_c rows_e rows_c recs_e recs_c
         Hc Hl Hne L Fo Wie Wic ND Wre Wrc S Fe Fc.
  exists (expected_rows lay true (index_of irows_e) table rows_e),
         (expected_rows lay false (index_of irows_c) table rows_c).
  split; [|split].
  - apply (c18_rows ls c table lay true irows_e tail_e rows_e recs_e End); try assumption. discriminate.
  - apply (c18_rows ls c table lay false irows_c tail_c rows_c recs_c End); try assumption. intros _. exact ND.
  - apply pp_expected_agree. exact S.
Qed.

(* ---------- the boolean checks evaluated on the packaged configuration ---------- *)
Lemma pp_layout_okb_sound lay : layout_okb lay = true -> layout_ok lay.
Proof.
  unfold layout_okb, layout_ok. intros H. rewrite forallb_forall in H. apply Forall_forall. intros f Hf.
  specialize (H f Hf). apply andb_true_iff in H. destruct H as [H1 H2].
  apply Nat.leb_le in H1. apply Nat.leb_le in H2. split; assumption.
Qed.

Lemma pp_nodup_strb_sound : forall l, nodup_strb l = true -> NoDup l.
Proof.
  induction l as [|x l IH]; intros H; [constructor|]. cbn [nodup_strb] in H.
  apply andb_true_iff in H. destruct H as [H1 H2]. constructor; [|apply IH; exact H2].
  intros Hin. apply negb_true_iff in H1.
  assert (E : existsb (str_eqb x) l = true) by (apply existsb_exists; exists x; split; [exact Hin|apply pp_str_eqb_refl]).
  rewrite E in H1. discriminate.
Qed.

Lemma pp_fields_okb_sound lay : fields_okb lay = true -> fields_ok lay.
Proof. apply pp_nodup_strb_sound. Qed.

Lemma pp_playout_get_in : forall (ls : playouts) table lay, NoDup (map fst ls) -> In (table, lay) ls ->
  playout_get ls table = Some lay.
Proof.
  induction ls as [|[n l] ls IH]; intros table lay ND H; [destruct H|].
  cbn [map fst] in ND. inversion ND as [|? ? Hn ND']; subst. cbn [playout_get].
  destruct H as [H|H].
  - inversion H; subst. rewrite pp_str_eqb_refl. reflexivity.
  - destruct (str_eqb n table) eqn:E.
    + apply pp_str_eqb_eq in E. subst. exfalso. apply Hn. apply (in_map fst) in H. exact H.
    + apply IH; assumption.
Qed.

Lemma pp_layouts_okb_sound (ls : playouts) : layouts_okb ls = true ->
  forall table lay, In (table, lay) ls ->
  playout_get ls table = Some lay /\ lay <> [] /\ layout_ok lay /\ fields_ok lay.
Proof.
  unfold layouts_okb. intros H table lay Hin. apply andb_true_iff in H. destruct H as [H1 H2].
  rewrite forallb_forall in H2. specialize (H2 _ Hin). cbn [snd] in H2.
  apply andb_true_iff in H2. destruct H2 as [H2 H4]. apply andb_true_iff in H2. destruct H2 as [H2 H3].
  split; [apply pp_playout_get_in; [apply pp_nodup_strb_sound; exact H1|exact Hin]|].
  split; [intros E; subst; discriminate|].
  split; [apply pp_layout_okb_sound; exact H3|apply pp_fields_okb_sound; exact H4].
Qed.

(* C18_rows for every table of a configuration that passes the boolean check *)
Lemma c18_rows_checked (ls : playouts) : layouts_okb ls = true ->
  forall table lay c expanded irows tail rows recs e,
  In (table, lay) ls ->
  codec_fits c ->
  Forall wf_irow irows -> Forall (wf_drow expanded) rows ->
  (expanded = false -> NoDup (map i_sub irows)) ->
  param_file c irows tail rows = Ok recs ->
  param_read ls c table expanded recs e =
    Ok (expected_rows lay expanded (index_of irows) table rows, pend_of_rend e).
Proof.
  intros Hok table lay c expanded irows tail rows recs e Hin Hc Wi Wr ND Hf.
  destruct (pp_layouts_okb_sound ls Hok table lay Hin) as [H1 [H2 [H3 H4]]].
  exact (c18_rows ls c table lay expanded irows tail rows recs e Hc H1 H2 H3 H4 Wi Wr ND Hf).
Qed.

Lemma c18_codecs_fit (tabs : list (str * list (option N))) :
  forallb (fun nt => Nat.leb (length (snd nt)) 256) tabs = true ->
  forall name tbl, In (name, tbl) tabs -> codec_fits (mkcodec tbl).
Proof.
  intros H name tbl Hin. rewrite forallb_forall in H. specialize (H _ Hin). apply Nat.leb_le in H. exact H.
Qed.

(* ---------- the same on the bytes of the file (framing: C03 / C05) ---------- *)
Lemma pp_encode_length c : forall s b, encode c s = Ok b -> length b = length s.
Proof.
  induction s as [|ch s IH]; intros b H.
  - cbn [encode] in H. inversion H. reflexivity.
  - destruct (pp_encode_cons _ _ _ _ H) as [x [t [Hx [Ht Hb]]]]. subst b. cbn [length]. rewrite (IH _ Ht). reflexivity.
Qed.

Lemma pp_file_texts_nonempty irows tail rows expanded :
  Forall wf_irow irows -> Forall (wf_drow expanded) rows ->
  Forall (fun t => 1 <= length t) (param_file_text irows tail rows).
Proof.
  intros Wi Wr. unfold param_file_text. apply Forall_app. split; [|constructor].
  - apply Forall_forall. intros t Ht. apply in_map_iff in Ht. destruct Ht as [i [E Hi]]. subst t.
    rewrite Forall_forall in Wi. destruct (Wi i Hi) as [H1 _]. unfold irow_text. rewrite app_length. lia.
  - unfold trailer_text. rewrite app_length. rewrite pp_lit_trailer. unfold k_trailer. cbn [length]. lia.
  - apply Forall_forall. intros t Ht. apply in_map_iff in Ht. destruct Ht as [r [E Hr]]. subst t.
    rewrite Forall_forall in Wr. destruct (Wr r Hr) as [_ [H2 _]]. unfold drow_text. rewrite !app_length. lia.
Qed.

Lemma c18_file_bytes (B : nat) (Bpos : 0 < B) (maxlen : N) (maxlen_ok : (maxlen < 2 ^ 32)%N) :
  forall ls c table lay expanded blocked irows tail rows recs,
  codec_fits c ->
  playout_get ls table = Some lay -> lay <> [] -> layout_ok lay -> fields_ok lay ->
  Forall wf_irow irows -> Forall (wf_drow expanded) rows ->
  (expanded = false -> NoDup (map i_sub irows)) ->
  Forall (fun t => (N.of_nat (length t) <= maxlen)%N) (param_file_text irows tail rows) ->
  param_file c irows tail rows = Ok recs ->
  (do x <- read_all B maxlen (file_of (writer_run B blocked (map WWrite recs ++ [WClose]))) blocked;
   param_read ls c table expanded (fst x) (snd x)) =
    Ok (expected_rows lay expanded (index_of irows) table rows, PEnd).
Proof.
  intros ls c table lay expanded blocked irows tail rows recs Hc Hl Hne L Fo Wi Wr ND Hmax Hf.
  rewrite (c03_roundtrip B Bpos maxlen maxlen_ok blocked recs).
  - cbn [bind fst snd]. apply (c18_rows ls c table lay expanded irows tail rows recs End); assumption.
  - pose proof (pp_file_texts_nonempty irows tail rows expanded Wi Wr) as Hpos.
    unfold param_file in Hf. apply pp_encode_all_F2 in Hf.
    revert Hmax Hpos. revert recs Hf. generalize (param_file_text irows tail rows) as texts.
    induction texts as [|t texts IH]; intros recs Hf Hmax Hpos; inversion Hf; subst; constructor.
    + inversion Hmax; inversion Hpos; subst. unfold wf_rec.
      match goal with H : encode c _ = Ok _ |- _ => rewrite (pp_encode_length c _ _ H) end. split; assumption.
    + inversion Hmax; inversion Hpos; subst. apply IH; assumption.
Qed.
