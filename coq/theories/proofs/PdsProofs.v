(* PdsProofs.v — proofs for C12: PDS sub-elements are packed into carrier elements (greedy, ascending tag order,
   no sub-element split, chunks of at most 999 characters) and recovered without loss. *)
From Coq Require Import List Arith NArith ZArith Bool Lia ZifyBool ZifyNat ZifyN Sorting.Permutation Sorting.Sorted.
Require Import CU.model.Prim CU.model.Types CU.model.Unicode CU.model.Codec CU.model.Iso CU.spec.IsoSpec.
Require Import CU.proofs.NumProofs.
Require CU.gen.GenConfig.
Import ListNotations.
Open Scope nat_scope.
Ltac Zify.zify_post_hook ::= Z.to_euclidean_division_equations.

(* same definitions as in props/C12.v (convertible) *)
Definition wf_pds (pds : list (N * str)) : Prop :=
  StronglySorted N.lt (map fst pds) /\ Forall (fun tv => (fst tv < 10000)%N /\ length (snd tv) <= 992) pds.
Definition pds_entry (tv : N * str) : str * value := (tag4 (fst tv), VStr (snd tv)).

(* ---------- tags and sub-elements ---------- *)
Lemma tag4_length : forall t, length (tag4 t) = 4.
Proof. intros t. unfold tag4. rewrite map_length, digs_length. reflexivity. Qed.

Lemma py_int_tag4 : forall t, (t < 10000)%N -> py_int (tag4 t) = Some (Z.of_N t).
Proof. intros t H. unfold tag4. apply py_int_digs; [lia|]. rewrite pow10_4. exact H. Qed.

Lemma tag4_inj : forall a b, (a < 10000)%N -> (b < 10000)%N -> tag4 a = tag4 b -> a = b.
Proof.
  intros a b Ha Hb E. pose proof (py_int_tag4 a Ha) as Pa. rewrite E, (py_int_tag4 b Hb) in Pa.
  injection Pa as Pa. lia.
Qed.

Lemma sub_of_length : forall t (v : str), length (sub_of (t, v)) = 7 + length v.
Proof.
  intros t v. unfold sub_of. cbn [fst snd]. rewrite !app_length, tag4_length, map_length, digs_length. lia.
Qed.

Lemma pds_sub_sub_of : forall t (v : str), (t < 10000)%N -> length v < 1000 -> pds_sub (Z.of_N t) v = sub_of (t, v).
Proof.
  intros t v Ht Hv. unfold pds_sub, sub_of, tag4. cbn [fst snd].
  rewrite fmt0Z_nonneg by lia. rewrite N2Z.id.
  rewrite (fmt0_small 4); [| lia | rewrite pow10_4; exact Ht].
  rewrite (fmt0_small 3); [reflexivity | lia | rewrite pow10_3; lia].
Qed.

Lemma pp_fm_single : forall tv, flat_map sub_of [tv] = sub_of tv.
Proof. intros tv. cbn [flat_map]. apply app_nil_r. Qed.

Lemma pp_fm_snoc : forall g tv, flat_map sub_of (g ++ [tv]) = flat_map sub_of g ++ sub_of tv.
Proof. intros g tv. rewrite flat_map_app, pp_fm_single. reflexivity. Qed.

Lemma pp_fm_nonempty : forall g, g <> [] -> 7 <= length (flat_map sub_of g).
Proof.
  intros [|[t v] g] H; [contradiction|]. cbn [flat_map]. rewrite app_length, sub_of_length. lia.
Qed.

(* ---------- order of the tag strings ---------- *)
Lemma pp_leb_prefix : forall p x y, str_leb (p ++ x) (p ++ y) = str_leb x y.
Proof.
  induction p as [|c p IH]; intros x y; cbn [app str_leb]; [reflexivity|].
  rewrite N.ltb_irrefl. apply IH.
Qed.

Definition pp_lex_lt (x y : str) : Prop :=
  exists p a b x' y', x = p ++ a :: x' /\ y = p ++ b :: y' /\ (a < b)%N.

Lemma pp_lex_lt_leb : forall x y, pp_lex_lt x y -> str_leb x y = true /\ str_leb y x = false.
Proof.
  intros x y (p & a & b & x' & y' & -> & -> & H). rewrite !pp_leb_prefix. cbn [str_leb].
  destruct (N.ltb_spec a b); [|lia]. destruct (N.ltb_spec b a); [lia|]. split; reflexivity.
Qed.

Lemma pp_digs_lex : forall w a b, (a < b)%N -> (b < 10 ^ N.of_nat w)%N ->
  pp_lex_lt (map dch (digs w a)) (map dch (digs w b)).
Proof.
  induction w as [|w IH]; intros a b Hab Hb.
  - change (N.of_nat 0) with 0%N in Hb. rewrite N.pow_0_r in Hb. lia.
  - rewrite Nat2N.inj_succ, N.pow_succ_r' in Hb. cbn [digs]. rewrite !map_app. cbn [map].
    destruct (N.lt_ge_cases (a / 10) (b / 10)) as [Hlt|Hge].
    + destruct (IH (a / 10)%N (b / 10)%N Hlt) as (p & x & y & x' & y' & E1 & E2 & Hxy).
      { apply N.div_lt_upper_bound; lia. }
      rewrite E1, E2. exists p, x, y, (x' ++ [dch (a mod 10)]), (y' ++ [dch (b mod 10)]).
      rewrite <- !app_assoc. cbn [app]. auto.
    + assert (E : (a / 10 = b / 10)%N) by lia. rewrite E.
      exists (map dch (digs w (b / 10))), (dch (a mod 10)), (dch (b mod 10)), [], [].
      split; [reflexivity|]. split; [reflexivity|]. unfold dch. lia.
Qed.

Lemma pp_tag4_lt : forall a b, (a < b)%N -> (b < 10000)%N ->
  str_leb (tag4 a) (tag4 b) = true /\ str_leb (tag4 b) (tag4 a) = false.
Proof.
  intros a b Hab Hb. apply pp_lex_lt_leb. unfold tag4. apply pp_digs_lex; [exact Hab|].
  rewrite pow10_4. exact Hb.
Qed.

(* ---------- the sort returns the ascending list ---------- *)
Definition pp_klt (x y : str * value) : Prop :=
  str_leb (fst x) (fst y) = true /\ str_leb (fst y) (fst x) = false.

Lemma pp_ss_mid : forall (t1 : list (str * value)) x t2, StronglySorted pp_klt (t1 ++ x :: t2) ->
  Forall (fun y => pp_klt y x) t1 /\ Forall (pp_klt x) t2 /\ StronglySorted pp_klt (t1 ++ t2).
Proof.
  induction t1 as [|y t1 IH]; intros x t2 S; cbn [app] in *.
  - inversion S; subst. auto.
  - inversion S as [|? ? S' F]; subst. destruct (IH _ _ S') as (A & B & C).
    apply Forall_app in F. destruct F as [F1 F2]. inversion F2; subst.
    split; [constructor; auto|]. split; [auto|]. constructor; [auto|]. apply Forall_app; auto.
Qed.

Lemma pp_ins_mid : forall t1 x t2, Forall (fun y => pp_klt y x) t1 -> Forall (pp_klt x) t2 ->
  ins x (t1 ++ t2) = t1 ++ x :: t2.
Proof.
  induction t1 as [|y t1 IH]; intros x t2 F1 F2; cbn [app].
  - destruct t2 as [|z t2]; [reflexivity|]. cbn [ins]. inversion F2 as [|? ? [H _] _]; subst.
    rewrite H. reflexivity.
  - cbn [ins]. inversion F1 as [|? ? [_ H] F1']; subst. rewrite H. f_equal. apply IH; auto.
Qed.

Lemma pp_sort_unique : forall l target, StronglySorted pp_klt target -> Permutation l target ->
  sort_pds l = target.
Proof.
  induction l as [|x l IH]; intros target S P.
  - apply Permutation_nil in P. subst. reflexivity.
  - assert (In x target) as I by (eapply Permutation_in; [exact P|left; reflexivity]).
    apply in_split in I. destruct I as (t1 & t2 & ->).
    apply Permutation_cons_app_inv in P. destruct (pp_ss_mid _ _ _ S) as (A & B & C).
    unfold sort_pds in *. cbn [fold_right]. rewrite (IH _ C P). apply pp_ins_mid; assumption.
Qed.

Lemma pp_ss_entries : forall pds, StronglySorted N.lt (map fst pds) ->
  Forall (fun tv => (fst tv < 10000)%N) pds -> StronglySorted pp_klt (map pds_entry pds).
Proof.
  induction pds as [|[t v] pds IH]; cbn [map]; intros S F; [constructor|].
  inversion S as [|? ? S' L]; subst. inversion F as [|? ? Ht F']; subst. constructor; [auto|].
  rewrite Forall_map in L. rewrite Forall_map. rewrite Forall_forall in *.
  intros [t' v'] I. specialize (L _ I). specialize (F' _ I). cbn [fst] in *.
  unfold pp_klt, pds_entry. cbn [fst]. apply pp_tag4_lt; assumption.
Qed.

Lemma pp_wf_lt : forall pds, wf_pds pds -> Forall (fun tv => (fst tv < 10000)%N) pds.
Proof. intros pds [_ F]. eapply Forall_impl; [|exact F]. intros tv [H _]. exact H. Qed.

Lemma pp_sorted_entries : forall pds m, wf_pds pds -> Permutation (pds_entries m) (map pds_entry pds) ->
  sort_pds (pds_entries m) = map pds_entry pds.
Proof.
  intros pds m W P. apply pp_sort_unique; [|exact P]. apply pp_ss_entries; [exact (proj1 W)|].
  apply pp_wf_lt. exact W.
Qed.

(* ---------- the packing loop ---------- *)
Definition pp_ok (tv : N * str) : Prop := (fst tv < 10000)%N /\ length (snd tv) <= 992.
Definition pp_gok (g : list (N * str)) : Prop := g <> [] /\ length (flat_map sub_of g) <= 999.

Lemma pp_pack_step : forall t (v : str) r out outs, (t < 10000)%N -> length v < 1000 ->
  pds_pack (pds_entry (t, v) :: r) out outs =
  if 999 <? length (out ++ sub_of (t, v)) then pds_pack r (sub_of (t, v)) (outs ++ [out])
  else pds_pack r (out ++ sub_of (t, v)) outs.
Proof.
  intros t v r out outs Ht Hv. unfold pds_entry. cbn [fst snd pds_pack].
  rewrite py_int_tag4 by assumption. rewrite pds_sub_sub_of by assumption. reflexivity.
Qed.

Lemma pp_pack_spec : forall l g gs, Forall pp_ok l -> length (flat_map sub_of g) <= 999 -> Forall pp_gok gs ->
  exists groups,
    pds_pack (map pds_entry l) (flat_map sub_of g) (map (flat_map sub_of) gs) = Ok (map (flat_map sub_of) groups) /\
    concat groups = concat gs ++ g ++ l /\ Forall pp_gok groups.
Proof.
  induction l as [|[t v] l IH]; intros g gs Fl Hg Fg.
  - cbn [map pds_pack]. destruct g as [|tv g].
    + cbn [flat_map]. exists gs. split; [reflexivity|]. split; [|exact Fg]. rewrite !app_nil_r. reflexivity.
    + assert (Hne : 7 <= length (flat_map sub_of (tv :: g))) by (apply pp_fm_nonempty; discriminate).
      destruct (flat_map sub_of (tv :: g)) as [|c s] eqn:E; [cbn [length] in Hne; lia|]. rewrite <- E.
      exists (gs ++ [tv :: g]). rewrite map_app. cbn [map]. split; [reflexivity|]. split.
      * rewrite concat_app. cbn [concat]. rewrite !app_nil_r. reflexivity.
      * apply Forall_app. split; [exact Fg|]. constructor; [|constructor]. split; [discriminate|].
        rewrite E. exact Hg.
  - inversion Fl as [|? ? [Ht Hv] Fl']; subst. cbn [fst snd] in Ht, Hv. cbn [map].
    rewrite pp_pack_step by (assumption || lia).
    pose proof (sub_of_length t v) as Hs.
    destruct (999 <? length (flat_map sub_of g ++ sub_of (t, v))) eqn:E.
    + apply Nat.ltb_lt in E. rewrite app_length in E.
      assert (Hgne : g <> []) by (intros ->; cbn [flat_map length] in E; lia).
      destruct (IH [(t, v)] (gs ++ [g]) Fl') as (groups & E1 & E2 & E3).
      { rewrite pp_fm_single. lia. }
      { apply Forall_app. split; [exact Fg|]. constructor; [|constructor]. split; assumption. }
      rewrite map_app, pp_fm_single in E1. cbn [map] in E1.
      exists groups. split; [exact E1|]. split; [|exact E3].
      rewrite E2, concat_app. cbn [concat]. rewrite app_nil_r, <- !app_assoc. reflexivity.
    + apply Nat.ltb_ge in E.
      destruct (IH (g ++ [(t, v)]) gs Fl') as (groups & E1 & E2 & E3).
      { rewrite pp_fm_snoc. exact E. }
      { exact Fg. }
      rewrite pp_fm_snoc in E1. exists groups. split; [exact E1|]. split; [|exact E3].
      rewrite E2, <- !app_assoc. reflexivity.
Qed.

Lemma pp_concat_map_fm : forall groups : list (list (N * str)),
  concat (map (flat_map sub_of) groups) = flat_map sub_of (concat groups).
Proof.
  induction groups as [|g gs IH]; [reflexivity|]. cbn [map concat]. rewrite flat_map_app, IH. reflexivity.
Qed.

Lemma c12_packing : forall pds m, wf_pds pds -> Permutation (pds_entries m) (map pds_entry pds) ->
  exists cs groups, pds_to_de m = Ok cs /\
    concat groups = pds /\ cs = map (flat_map sub_of) groups /\
    concat cs = flat_map sub_of pds /\
    Forall (fun c => 1 <= length c <= 999) cs.
Proof.
  intros pds m W P. unfold pds_to_de. rewrite (pp_sorted_entries pds m W P).
  destruct (pp_pack_spec pds [] [] (proj2 W)) as (groups & E1 & E2 & E3).
  { cbn [flat_map length]. lia. }
  { constructor. }
  cbn [flat_map map concat app] in E1, E2.
  exists (map (flat_map sub_of) groups), groups. split; [exact E1|]. split; [exact E2|]. split; [reflexivity|].
  split; [rewrite pp_concat_map_fm, E2; reflexivity|].
  rewrite Forall_map. eapply Forall_impl; [|exact E3]. intros g [Hne Hle].
  pose proof (pp_fm_nonempty g Hne). lia.
Qed.

(* ---------- greedy is optimal ---------- *)
Fixpoint pp_count (cap : nat) (items : list nat) (c : nat) : nat :=
  match items with
  | [] => if Nat.eqb c 0 then 0 else 1
  | a :: r => if cap <? c + a then 1 + pp_count cap r a else pp_count cap r (c + a)
  end.

Lemma pp_count_both : forall cap r,
  (forall c1 c2, c1 <= c2 -> pp_count cap r c1 <= pp_count cap r c2) /\
  (forall c c', pp_count cap r c <= 1 + pp_count cap r c').
Proof.
  intros cap. induction r as [|a r [M A]]; split.
  - intros c1 c2 H. cbn [pp_count]. destruct (Nat.eqb_spec c1 0), (Nat.eqb_spec c2 0); lia.
  - intros c c'. cbn [pp_count]. destruct (Nat.eqb c 0), (Nat.eqb c' 0); lia.
  - intros c1 c2 H. cbn [pp_count].
    destruct (Nat.ltb_spec cap (c1 + a)), (Nat.ltb_spec cap (c2 + a)); try lia.
    + specialize (A (c1 + a) a). lia.
    + apply M. lia.
  - intros c c'. cbn [pp_count].
    destruct (Nat.ltb_spec cap (c + a)), (Nat.ltb_spec cap (c' + a)).
    + lia.
    + specialize (M a (c' + a)). lia.
    + specialize (A (c + a) a). lia.
    + specialize (A (c + a) (c' + a)). lia.
Qed.

Lemma pp_count_group : forall cap g r c, c + list_sum g <= cap ->
  pp_count cap (g ++ r) c = pp_count cap r (c + list_sum g).
Proof.
  intros cap. induction g as [|a g IH]; intros r c H; cbn [app list_sum fold_right] in *.
  - f_equal. lia.
  - cbn [pp_count]. destruct (Nat.ltb_spec cap (c + a)); [lia|].
    change (fold_right Nat.add 0 g) with (list_sum g) in *. rewrite IH by lia. f_equal. lia.
Qed.

Lemma pp_greedy_optimal : forall cap groups,
  Forall (fun g => list_sum g <= cap /\ 0 < list_sum g) groups ->
  pp_count cap (concat groups) 0 <= length groups.
Proof.
  intros cap. induction groups as [|g gs IH]; intros F; cbn [concat length]; [cbn [pp_count Nat.eqb]; lia|].
  inversion F as [|? ? [Hg Hp] F']; subst.
  rewrite pp_count_group by lia. cbn [Nat.add].
  pose proof (proj2 (pp_count_both cap (concat gs)) (list_sum g) 0). specialize (IH F'). lia.
Qed.

Definition pp_size (tv : N * str) : nat := length (sub_of tv).

Lemma pp_pack_length : forall l out outs cs, Forall pp_ok l ->
  pds_pack (map pds_entry l) out outs = Ok cs ->
  length cs = length outs + pp_count 999 (map pp_size l) (length out).
Proof.
  induction l as [|[t v] l IH]; intros out outs cs Fl H.
  - cbn [map pds_pack pp_count] in *. destruct out as [|c s]; injection H as <-.
    + cbn [length Nat.eqb]. lia.
    + rewrite app_length. cbn [length Nat.eqb]. lia.
  - inversion Fl as [|? ? [Ht Hv] Fl']; subst. cbn [fst snd] in Ht, Hv. cbn [map] in H.
    rewrite pp_pack_step in H by (assumption || lia). cbn [map pp_count]. rewrite app_length in H.
    unfold pp_size at 1. destruct (999 <? length out + length (sub_of (t, v))) eqn:E.
    + apply IH in H; [|exact Fl']. rewrite H, app_length. cbn [length]. unfold pp_size. lia.
    + apply IH in H; [|exact Fl']. rewrite H, app_length. reflexivity.
Qed.

Lemma pp_sum_sizes : forall g, list_sum (map pp_size g) = length (flat_map sub_of g).
Proof.
  induction g as [|tv g IH]; [reflexivity|]. cbn [map flat_map]. rewrite app_length, <- IH. reflexivity.
Qed.

Lemma c12_greedy_optimal : forall pds m cs groups', wf_pds pds -> Permutation (pds_entries m) (map pds_entry pds) ->
  pds_to_de m = Ok cs ->
  concat groups' = pds -> Forall (fun g => g <> [] /\ length (flat_map sub_of g) <= 999) groups' ->
  length cs <= length groups'.
Proof.
  intros pds m cs groups' W P E C F. unfold pds_to_de in E. rewrite (pp_sorted_entries pds m W P) in E.
  apply pp_pack_length in E; [|exact (proj2 W)]. cbn [length Nat.add] in E. rewrite E, <- C, concat_map.
  rewrite <- (map_length (map pp_size) groups'). apply pp_greedy_optimal.
  rewrite Forall_map. eapply Forall_impl; [|exact F]. intros g [Hne Hle]. rewrite pp_sum_sizes.
  pose proof (pp_fm_nonempty g Hne). lia.
Qed.

(* ---------- assignment of the chunks to the carrier elements ---------- *)
Lemma pp_str_eqb_eq : forall a b : str, str_eqb a b = true <-> a = b.
Proof.
  unfold str_eqb. induction a as [|x a IH]; intros [|y b]; cbn [list_eqb]; split; intros H;
    try reflexivity; try discriminate.
  - apply andb_true_iff in H. destruct H as [H1 H2]. apply N.eqb_eq in H1. apply IH in H2. congruence.
  - injection H as -> ->. rewrite N.eqb_refl. apply IH. reflexivity.
Qed.

Lemma pp_key_eqb_eq : forall a b, key_eqb a b = true <-> a = b.
Proof.
  intros a b. destruct a, b; cbn [key_eqb]; split; intros H; try reflexivity; try discriminate;
    try (apply Nat.eqb_eq in H; congruence); try (apply pp_str_eqb_eq in H; congruence);
    try (injection H as ->; apply Nat.eqb_refl); try (injection H as ->; apply pp_str_eqb_eq; reflexivity).
Qed.

Lemma pp_key_eqb_neq : forall a b, a <> b -> key_eqb a b = false.
Proof.
  intros a b H. destruct (key_eqb a b) eqn:E; [|reflexivity]. apply pp_key_eqb_eq in E. contradiction.
Qed.

Lemma pp_lookup_dset_same : forall m k v, lookup (dset m k v) k = Some v.
Proof.
  induction m as [|[k0 v0] m IH]; intros k v; cbn [dset lookup].
  - rewrite (proj2 (pp_key_eqb_eq k k) eq_refl). reflexivity.
  - destruct (key_eqb k0 k) eqn:E; cbn [lookup]; rewrite E; [reflexivity|apply IH].
Qed.

Lemma pp_lookup_dset_other : forall m k v k', k' <> k -> lookup (dset m k v) k' = lookup m k'.
Proof.
  induction m as [|[k0 v0] m IH]; intros k v k' H; cbn [dset lookup].
  - rewrite pp_key_eqb_neq by congruence. reflexivity.
  - destruct (key_eqb k0 k) eqn:E; cbn [lookup].
    + apply pp_key_eqb_eq in E. subst k0. rewrite pp_key_eqb_neq by congruence. reflexivity.
    + destruct (key_eqb k0 k'); [reflexivity|]. apply IH. exact H.
Qed.

Lemma c12_assignment : forall m cs fields, length cs <= length fields -> NoDup fields ->
  exists m1, assign_pds m cs fields = Ok m1 /\
    (forall i c, nth_error cs i = Some c -> exists f, nth_error fields i = Some f /\ lookup m1 (KDE f) = Some (VStr c)) /\
    (forall k, (forall i f, nth_error fields i = Some f -> i < length cs -> k <> KDE f) -> lookup m1 k = lookup m k).
Proof.
  intros m cs. revert m. induction cs as [|c cs IH]; intros m fields Hl Hn.
  - exists m. split; [reflexivity|]. split.
    + intros [|i] c H; discriminate.
    + intros k _. reflexivity.
  - destruct fields as [|f fs]; [cbn [length] in Hl; lia|]. cbn [length] in Hl.
    inversion Hn as [|? ? Hf Hn']; subst.
    destruct (IH (dset m (KDE f) (VStr c)) fs) as (m1 & E & A & B); [lia|exact Hn'|].
    exists m1. cbn [assign_pds]. split; [exact E|]. split.
    + intros [|i] c' H; cbn [nth_error] in *.
      * injection H as <-. exists f. split; [reflexivity|]. rewrite B; [apply pp_lookup_dset_same|].
        intros i f' H' _ Heq. injection Heq as <-. apply Hf. eapply nth_error_In. exact H'.
      * apply A. exact H.
    + intros k Hk. rewrite B.
      * apply pp_lookup_dset_other. apply (Hk 0 f); [reflexivity|cbn [length]; lia].
      * intros i f' H' Hi. apply (Hk (S i) f'); [exact H'|cbn [length]; lia].
Qed.

Lemma c12_over_capacity : forall m cs fields, length fields < length cs -> assign_pds m cs fields = Raise EIndex.
Proof.
  intros m cs. revert m. induction cs as [|c cs IH]; intros m fields H; [cbn [length] in H; lia|].
  destruct fields as [|f fs]; [reflexivity|]. cbn [assign_pds]. apply IH. cbn [length] in H. lia.
Qed.

(* ---------- recovery ---------- *)
Lemma pp_firstn_exact : forall {A} (a b : list A) n, length a = n -> firstn n (a ++ b) = a.
Proof.
  intros A a b n <-. rewrite firstn_app, Nat.sub_diag, firstn_all. cbn [firstn]. apply app_nil_r.
Qed.

Lemma pp_skipn_exact : forall {A} (a b : list A) n, length a = n -> skipn n (a ++ b) = b.
Proof.
  intros A a b n <-. rewrite skipn_app, Nat.sub_diag, skipn_all. reflexivity.
Qed.

Lemma pp_slice_mid : forall {A} (pre a post : list A) p q, p = length pre -> q = p + length a ->
  slice p q (pre ++ a ++ post) = a.
Proof.
  intros A pre a post p q -> ->. unfold slice. rewrite pp_skipn_exact by reflexivity.
  apply pp_firstn_exact. lia.
Qed.

Lemma pp_walk_step : forall k pre t (v : str) post acc, (t < 10000)%N -> length v <= 999 ->
  pds_walk (S k) (pre ++ sub_of (t, v) ++ post) (length pre) acc =
  pds_walk k (pre ++ sub_of (t, v) ++ post) (length pre + length (sub_of (t, v)))
           (dset acc (KPDS (tag4 t)) (VStr v)).
Proof.
  intros k pre t v post acc Ht Hv. rewrite sub_of_length.
  set (L3 := map dch (digs 3 (N.of_nat (length v)))).
  assert (HL3 : length L3 = 3) by (unfold L3; rewrite map_length, digs_length; reflexivity).
  set (fd := pre ++ sub_of (t, v) ++ post).
  assert (Hlen : length pre <? length fd = true).
  { apply Nat.ltb_lt. unfold fd. rewrite !app_length, sub_of_length. lia. }
  assert (S1 : slice (length pre) (length pre + 4) fd = tag4 t).
  { unfold fd, sub_of. cbn [fst snd]. rewrite <- !app_assoc.
    apply pp_slice_mid; [reflexivity|rewrite tag4_length; reflexivity]. }
  assert (S2 : slice (length pre + 4) (length pre + 7) fd = L3).
  { unfold fd, sub_of. cbn [fst snd]. fold L3. rewrite <- !app_assoc. rewrite (app_assoc pre).
    apply pp_slice_mid; [rewrite app_length, tag4_length; reflexivity|rewrite HL3; lia]. }
  assert (S3 : slice (length pre + 7) (length pre + 7 + length v) fd = v).
  { unfold fd, sub_of. cbn [fst snd]. fold L3. rewrite <- !app_assoc.
    rewrite (app_assoc (tag4 t)), (app_assoc pre).
    apply pp_slice_mid; [rewrite !app_length, tag4_length, HL3; lia|reflexivity]. }
  assert (P : py_int L3 = Some (Z.of_N (N.of_nat (length v)))).
  { unfold L3. apply py_int_digs; [lia|]. rewrite pow10_3. lia. }
  cbn [pds_walk]. rewrite Hlen, S1, S2, P.
  destruct (Z.ltb_spec (Z.of_N (N.of_nat (length v))) 0) as [Hneg|_]; [lia|].
  replace (Z.to_nat (Z.of_N (N.of_nat (length v)))) with (length v) by lia.
  rewrite S3, Nat.add_assoc. reflexivity.
Qed.

Definition pp_kv (tv : N * str) : key * value := (KPDS (tag4 (fst tv)), VStr (snd tv)).
Definition pp_put (a : dict) (tv : N * str) : dict := dset a (KPDS (tag4 (fst tv))) (VStr (snd tv)).

Lemma pp_walk_spec : forall rest pre acc fuel,
  Forall (fun tv : N * str => (fst tv < 10000)%N /\ length (snd tv) <= 999) rest ->
  length (flat_map sub_of rest) < fuel ->
  pds_walk fuel (pre ++ flat_map sub_of rest) (length pre) acc = Ok (fold_left pp_put rest acc).
Proof.
  induction rest as [|[t v] rest IH]; intros pre acc fuel F Hf; (destruct fuel as [|k]; [lia|]).
  - cbn [flat_map fold_left pds_walk]. rewrite app_nil_r, Nat.ltb_irrefl. reflexivity.
  - inversion F as [|? ? [Ht Hv] F']; subst. cbn [fst snd] in Ht, Hv. cbn [flat_map fold_left].
    rewrite pp_walk_step by assumption. rewrite app_assoc, <- app_length.
    cbn [flat_map] in Hf. rewrite app_length, sub_of_length in Hf.
    apply IH; [exact F'|lia].
Qed.

Lemma pp_dset_fresh : forall acc k v, Forall (fun kv : key * value => key_eqb (fst kv) k = false) acc ->
  dset acc k v = acc ++ [(k, v)].
Proof.
  induction acc as [|[k0 v0] acc IH]; intros k v F; cbn [dset app]; [reflexivity|].
  inversion F as [|? ? H F']; subst. cbn [fst] in H. rewrite H. f_equal. apply IH. exact F'.
Qed.

Lemma pp_fold_put : forall rest done, NoDup (map fst (done ++ rest)) ->
  Forall (fun tv : N * str => (fst tv < 10000)%N) (done ++ rest) ->
  fold_left pp_put rest (map pp_kv done) = map pp_kv (done ++ rest).
Proof.
  induction rest as [|[t v] rest IH]; intros done Hn F; cbn [fold_left].
  - rewrite app_nil_r. reflexivity.
  - assert (E : pp_put (map pp_kv done) (t, v) = map pp_kv (done ++ [(t, v)])).
    { unfold pp_put. cbn [fst snd]. rewrite map_app. cbn [map]. apply pp_dset_fresh.
      rewrite Forall_map. rewrite Forall_forall. intros [t' v'] I. cbn [pp_kv fst snd].
      apply pp_key_eqb_neq. intros Heq0. assert (Heq : tag4 t' = tag4 t) by congruence. clear Heq0.
      rewrite Forall_forall in F.
      assert (t' = t).
      { apply tag4_inj; [apply (F (t', v')); apply in_or_app; left; exact I
                        |apply (F (t, v)); apply in_or_app; right; left; reflexivity|exact Heq]. }
      subst t'. rewrite map_app in Hn. cbn [map fst] in Hn. apply NoDup_remove_2 in Hn. apply Hn.
      apply in_or_app. left. apply (in_map fst) in I. exact I. }
    rewrite E. replace (done ++ (t, v) :: rest) with ((done ++ [(t, v)]) ++ rest) in *
      by (rewrite <- app_assoc; reflexivity).
    apply IH; assumption.
Qed.

Lemma c12_recovery : forall g, NoDup (map fst g) ->
  Forall (fun tv => (fst tv < 10000)%N /\ length (snd tv) <= 999) g ->
  pds_to_dict (flat_map sub_of g) = Ok (map (fun tv => (KPDS (tag4 (fst tv)), VStr (snd tv))) g).
Proof.
  intros g Hn F. unfold pds_to_dict.
  pose proof (pp_walk_spec g [] [] (S (length (flat_map sub_of g))) F (Nat.lt_succ_diag_r _)) as W.
  cbn [app length] in W. rewrite W. f_equal. apply (pp_fold_put g []); [exact Hn|]. eapply Forall_impl; [|exact F]. intros tv [H _]. exact H.
Qed.

Lemma c12_packaged_carriers :
  pds_bits CU.gen.GenConfig.packaged_bit_config = [48; 62; 123; 124; 125] /\
  carriers_okb CU.gen.GenConfig.packaged_bit_config = true.
Proof. vm_compute. split; reflexivity. Qed.
