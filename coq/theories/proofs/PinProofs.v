(* PinProofs.v — lemmas about model/Pin.v against spec/PinSpec.v: the code's route through hex strings and big
   integers equals the nibble-level layouts of ISO 9564 formats 0 and 4, the Visa PVV decimalisation and the
   XOR combination of key components.  The external ciphers appear only as variables E, D of a Section. *)
From Coq Require Import List Arith NArith ZArith Lia Bool ZifyBool ZifyNat ZifyN Permutation.
From Coq Require Import Strings.Byte.
Require Import CU.model.Prim CU.model.Unicode CU.model.Pin CU.spec.PinSpec.
Import ListNotations.
Ltac Zify.zify_post_hook ::= Z.to_euclidean_division_equations.
Open Scope nat_scope.

(* ================= generic list facts ================= *)
Lemma firstn_exact {A} n (a b : list A) : length a = n -> firstn n (a ++ b) = a.
Proof. intros <-. rewrite firstn_app, firstn_all, Nat.sub_diag. cbn. apply app_nil_r. Qed.
Lemma skipn_exact {A} n (a b : list A) : length a = n -> skipn n (a ++ b) = b.
Proof. intros <-. rewrite skipn_app, skipn_all, Nat.sub_diag. reflexivity. Qed.

Lemma Forall_firstn {A} (P : A -> Prop) n l : Forall P l -> Forall P (firstn n l).
Proof. intros F. revert n. induction F; intros [|n]; cbn; auto. Qed.
Lemma Forall_skipn {A} (P : A -> Prop) n l : Forall P l -> Forall P (skipn n l).
Proof. intros F. revert n. induction F; intros [|n]; cbn; auto. Qed.
Lemma Forall_rev' {A} (P : A -> Prop) l : Forall P l -> Forall P (rev l).
Proof. intros F. apply Forall_forall. intros x Hx. apply in_rev in Hx. rewrite Forall_forall in F. auto. Qed.
Lemma Forall_repeat {A} (P : A -> Prop) x n : P x -> Forall P (repeat x n).
Proof. intros H. induction n; cbn; auto. Qed.
Lemma Forall_tl {A} (P : A -> Prop) l : Forall P l -> Forall P (tl l).
Proof. intros F. destruct F; cbn; auto. Qed.

Lemma map_repeat' {A B} (f : A -> B) x n : map f (repeat x n) = repeat (f x) n.
Proof. induction n as [|n IH]; cbn [repeat map]; [reflexivity|]. rewrite IH. reflexivity. Qed.
Lemma concat_singletons {A} (l : list A) : concat (map (fun c => [c]) l) = l.
Proof. induction l as [|x l IH]; cbn; auto. rewrite IH. reflexivity. Qed.

(* s[-(n+1):-1] is "drop the last element, keep the n rightmost", for every length *)
Lemma py_slice_neg_last {A} n (s : list A) : py_slice_neg (S n) 1 s = rev (firstn n (tl (rev s))).
Proof.
  unfold py_slice_neg, slice. destruct s as [|x s] using rev_ind; [destruct n; reflexivity|]. clear IHs.
  rewrite rev_app_distr. cbn [rev app tl]. rewrite firstn_rev, rev_involutive.
  rewrite app_length. cbn [length].
  replace (length s + 1 - S n) with (length s - n) by lia.
  rewrite skipn_app. replace (length s - n - length s) with 0 by lia. cbn [skipn].
  apply firstn_exact. rewrite skipn_length. lia.
Qed.
Lemma tl_map {A B} (f : A -> B) l : tl (map f l) = map f (tl l).
Proof. destruct l; reflexivity. Qed.
Lemma pan_field_map {A B} (f : A -> B) n (s : list A) :
  rev (firstn n (tl (rev (map f s)))) = map f (rev (firstn n (tl (rev s)))).
Proof. rewrite <- map_rev, tl_map, firstn_map, map_rev. reflexivity. Qed.
Lemma pan_field_length n pan : S n <= length pan -> length (pan_field n pan) = n.
Proof.
  intros H. unfold pan_field. rewrite rev_length, firstn_length.
  assert (length (tl (rev pan)) = length pan - 1).
  { rewrite <- (rev_length pan). destruct (rev pan); cbn; lia. }
  lia.
Qed.
Lemma pan_field_Forall (P : N -> Prop) n pan : Forall P pan -> Forall P (pan_field n pan).
Proof. intros F. unfold pan_field. apply Forall_rev', Forall_firstn, Forall_tl, Forall_rev', F. Qed.

(* ================= nibbles and numbers ================= *)
Open Scope N_scope.

Lemma nib_of_dec l : all_dec l -> all_nib l.
Proof. unfold all_dec, all_nib. apply Forall_impl. intros; lia. Qed.

Lemma list_eqb_eq {A} (eqb : A -> A -> bool) : (forall x y, eqb x y = true -> x = y) ->
  forall a b, list_eqb eqb a b = true -> a = b.
Proof.
  intros H a. induction a as [|x a IH]; intros [|y b]; cbn [list_eqb]; try discriminate; auto.
  intros E. apply andb_true_iff in E. destruct E as [E1 E2]. f_equal; auto.
Qed.
Lemma str_eqb_eq' s t : str_eqb s t = true -> s = t.
Proof. apply list_eqb_eq. intros x y E. apply N.eqb_eq. assumption. Qed.
Lemma strs_eqb_eq (a b : list str) : list_eqb str_eqb a b = true -> a = b.
Proof. apply list_eqb_eq. exact str_eqb_eq'. Qed.

Definition nibs16 : list N := [0;1;2;3;4;5;6;7;8;9;10;11;12;13;14;15].
Lemma in_nibs16 d : d < 16 -> In d nibs16.
Proof.
  intros H. unfold nibs16.
  assert (E: d = 0 \/ d = 1 \/ d = 2 \/ d = 3 \/ d = 4 \/ d = 5 \/ d = 6 \/ d = 7 \/ d = 8 \/ d = 9 \/ d = 10
          \/ d = 11 \/ d = 12 \/ d = 13 \/ d = 14 \/ d = 15) by lia.
  cbn [In]. intuition auto.
Qed.
(* finite facts about one hex character: by computation over the 16 nibbles (the isdigit/isalpha tables are
   the generated ones, so this is re-checked against CPython's tables on every run) *)
Lemma nib_facts d : d < 16 ->
  hexval (hexch d) = Some d /\ hexch d < 128 /\ is_digit (hexch d) = (d <? 10) /\
  pvv_pass2 (hexch d) = (if 10 <=? d then [[dch (d - 10)]] else []) /\
  (d < 10 -> hexch d = dch d).
Proof.
  intros H.
  assert (T: forallb (fun d =>
      match hexval (hexch d) with Some v => v =? d | None => false end && (hexch d <? 128)
      && Bool.eqb (is_digit (hexch d)) (d <? 10)
      && list_eqb str_eqb (pvv_pass2 (hexch d)) (if 10 <=? d then [[dch (d - 10)]] else [])
      && ((10 <=? d) || (hexch d =? dch d))) nibs16 = true) by (vm_compute; reflexivity).
  rewrite forallb_forall in T. specialize (T d (in_nibs16 d H)).
  repeat (apply andb_true_iff in T; destruct T as [T ?]).
  repeat split.
  - destruct (hexval (hexch d)); [|discriminate]. apply N.eqb_eq in T. congruence.
  - apply N.ltb_lt. assumption.
  - apply Bool.eqb_prop. assumption.
  - apply strs_eqb_eq. assumption.
  - intros Hd. apply orb_true_iff in H0. destruct H0 as [H0|H0]; [lia|]. apply N.eqb_eq. assumption.
Qed.

Lemma hexch_dstr l : all_dec l -> map hexch l = dstr l.
Proof.
  intros F. unfold dstr. apply map_ext_in. intros d Hd. unfold all_dec in F. rewrite Forall_forall in F.
  specialize (F d Hd). apply nib_facts; lia.
Qed.

Lemma N_of_nibbles_app l d : N_of_nibbles (l ++ [d]) = N_of_nibbles l * 16 + d.
Proof. unfold N_of_nibbles. rewrite fold_left_app. reflexivity. Qed.
Lemma N_of_nibbles_fold l a : fold_left (fun a d => a * 16 + d) l a = a * 16 ^ N.of_nat (length l) + N_of_nibbles l.
Proof.
  revert a. induction l as [|d l IH] using rev_ind; intros a.
  - cbn. lia.
  - rewrite fold_left_app, app_length. cbn [fold_left length]. rewrite IH, N_of_nibbles_app.
    replace (N.of_nat (length l + 1)) with (N.succ (N.of_nat (length l))) by lia. rewrite N.pow_succ_r'. lia.
Qed.
Lemma N_of_nibbles_cons d l : N_of_nibbles (d :: l) = d * 16 ^ N.of_nat (length l) + N_of_nibbles l.
Proof. unfold N_of_nibbles at 1. cbn [fold_left]. rewrite N_of_nibbles_fold. lia. Qed.
Lemma N_of_nibbles_app2 l1 l2 : N_of_nibbles (l1 ++ l2) = N_of_nibbles l1 * 16 ^ N.of_nat (length l2) + N_of_nibbles l2.
Proof. unfold N_of_nibbles at 1. rewrite fold_left_app. apply N_of_nibbles_fold. Qed.

Lemma N_of_nibbles_lt l : all_nib l -> N_of_nibbles l < 16 ^ N.of_nat (length l).
Proof.
  induction l as [|d l IH] using rev_ind; intros F; [cbn; lia|].
  apply Forall_app in F. destruct F as [F Fd]. inversion Fd; subst.
  rewrite N_of_nibbles_app, app_length. cbn [length].
  replace (N.of_nat (length l + 1)) with (N.succ (N.of_nat (length l))) by lia. rewrite N.pow_succ_r'.
  specialize (IH F). lia.
Qed.

(* the code reads a hex string as a number; the specification reads it as nibbles *)
Lemma hexnum_nibs s : hexnum s = N_of_nibbles (nibs_of_hex s).
Proof.
  unfold hexnum, N_of_nibbles, nibs_of_hex.
  assert (G: forall a, fold_left (fun a c => a * 16 + match hexval c with Some v => v | None => 0 end) s a
                       = fold_left (fun a d => a * 16 + d) (map hexnib s) a).
  { induction s as [|c s IH]; intros a; cbn [map fold_left]; [reflexivity|]. exact (IH _). }
  apply G.
Qed.
Lemma nibs_of_hex_hexch l : all_nib l -> nibs_of_hex (map hexch l) = l.
Proof.
  intros F. unfold nibs_of_hex. rewrite map_map. rewrite <- (map_id l) at 2. apply map_ext_in. intros d Hd.
  unfold all_nib in F. rewrite Forall_forall in F. unfold hexnib. destruct (nib_facts d (F d Hd)) as [-> _]. reflexivity.
Qed.
Lemma is_hex_hexch l : all_nib l -> forallb is_hex (map hexch l) = true.
Proof.
  intros F. apply forallb_forall. intros c Hc. apply in_map_iff in Hc. destruct Hc as [d [<- Hd]].
  unfold all_nib in F. rewrite Forall_forall in F. unfold is_hex. destruct (nib_facts d (F d Hd)) as [-> _]. reflexivity.
Qed.
Lemma py_int16_hexstr s : s <> [] -> forallb is_hex s = true -> py_int16 s = Ok (N_of_nibbles (nibs_of_hex s)).
Proof. intros Hne H. unfold py_int16. destruct s; [contradiction|]. rewrite H, hexnum_nibs. reflexivity. Qed.
Lemma py_int16_nibs l : l <> [] -> all_nib l -> py_int16 (map hexch l) = Ok (N_of_nibbles l).
Proof.
  intros Hne F. rewrite py_int16_hexstr.
  - rewrite nibs_of_hex_hexch; auto.
  - destruct l; [contradiction|discriminate].
  - apply is_hex_hexch; auto.
Qed.

(* fixed-width hex digits *)
Lemma hexdigs_nibbles w n : hexdigs w n = nibbles_of_N w n.
Proof. revert n. induction w as [|w IH]; intros n; cbn [hexdigs nibbles_of_N]; [reflexivity|]. rewrite IH. reflexivity. Qed.
Lemma nibbles_of_N_length w n : length (nibbles_of_N w n) = w.
Proof. revert n. induction w as [|w IH]; intros n; cbn [nibbles_of_N]; [reflexivity|]. rewrite app_length, IH. cbn [length]. lia. Qed.
Lemma nibbles_of_N_nib w n : all_nib (nibbles_of_N w n).
Proof.
  revert n. induction w as [|w IH]; intros n; cbn [nibbles_of_N]; [constructor|].
  apply Forall_app. split; [apply IH|]. constructor; [|constructor]. lia.
Qed.
Lemma nibbles_of_N_inv w l : length l = w -> all_nib l -> nibbles_of_N w (N_of_nibbles l) = l.
Proof.
  revert l. induction w as [|w IH]; intros l L F.
  - destruct l; [reflexivity|discriminate].
  - destruct l as [|d l _] using rev_ind; [discriminate|]. rewrite app_length in L. cbn in L.
    apply Forall_app in F. destruct F as [F Fd]. inversion Fd; subst.
    cbn [nibbles_of_N]. rewrite N_of_nibbles_app.
    replace ((N_of_nibbles l * 16 + d) / 16) with (N_of_nibbles l) by lia.
    replace ((N_of_nibbles l * 16 + d) mod 16) with d by lia.
    rewrite IH; auto. lia.
Qed.
Lemma N_of_nibbles_of_N w n : n < 16 ^ N.of_nat w -> N_of_nibbles (nibbles_of_N w n) = n.
Proof.
  revert n. induction w as [|w IH]; intros n H.
  - cbn in *. lia.
  - cbn [nibbles_of_N]. rewrite N_of_nibbles_app.
    replace (N.of_nat (S w)) with (N.succ (N.of_nat w)) in H by lia. rewrite N.pow_succ_r' in H.
    rewrite IH by lia. lia.
Qed.

Lemma fmt_0x_small w n : n < 16 ^ N.of_nat w -> fmt_0x w n = map hexch (nibbles_of_N w n).
Proof. intros H. unfold fmt_0x. apply N.ltb_lt in H. rewrite H, hexdigs_nibbles. reflexivity. Qed.
Lemma fmt_0x_nibs w l : length l = w -> all_nib l -> fmt_0x w (N_of_nibbles l) = map hexch l.
Proof.
  intros L F. rewrite fmt_0x_small.
  - rewrite nibbles_of_N_inv; auto.
  - rewrite <- L. apply N_of_nibbles_lt; auto.
Qed.

(* unpadded hex digits: format(n, 'x') *)
Lemma hex_aux_spec fuel : forall n acc, n < 16 ^ N.of_nat fuel -> all_nib acc ->
  let r := hex_aux fuel n acc in
  N_of_nibbles r = n * 16 ^ N.of_nat (length acc) + N_of_nibbles acc /\ all_nib r /\ (fuel <> 0%nat -> r <> []).
Proof.
  induction fuel as [|f IH]; intros n acc H F; cbn [hex_aux].
  - change (16 ^ N.of_nat 0) with 1 in H. replace n with 0 by lia. split; [lia|]. split; [exact F|]. intros; congruence.
  - replace (N.of_nat (S f)) with (N.succ (N.of_nat f)) in H by lia. rewrite N.pow_succ_r' in H.
    destruct (N.ltb_spec n 16) as [Hn|Hn].
    + split; [apply N_of_nibbles_cons|]. split; [constructor; auto|]. intros; discriminate.
    + assert (Hq: n / 16 < 16 ^ N.of_nat f) by lia.
      assert (Fq: all_nib (n mod 16 :: acc)) by (constructor; auto; lia).
      destruct (IH (n / 16) (n mod 16 :: acc) Hq Fq) as [E [Fr Hne]].
      split; [|split; auto].
      * rewrite E, N_of_nibbles_cons. cbn [length].
        replace (N.of_nat (S (length acc))) with (N.succ (N.of_nat (length acc))) by lia. rewrite N.pow_succ_r'.
        generalize (N.div_mod' n 16). generalize (n / 16) (n mod 16) (16 ^ N.of_nat (length acc)).
        intros q r p Hqr. rewrite Hqr. ring.
      * intros _. apply Hne. intros ->. cbn in Hq. lia.
Qed.
Lemma pos_size_nat_gt p : N.pos p < 2 ^ N.of_nat (Pos.size_nat p).
Proof.
  induction p as [p IH|p IH|]; cbn [Pos.size_nat].
  - replace (N.of_nat (S (Pos.size_nat p))) with (N.succ (N.of_nat (Pos.size_nat p))) by lia. rewrite N.pow_succ_r'. lia.
  - replace (N.of_nat (S (Pos.size_nat p))) with (N.succ (N.of_nat (Pos.size_nat p))) by lia. rewrite N.pow_succ_r'. lia.
  - cbn. lia.
Qed.
Lemma pow2_le_pow16 k : 2 ^ k <= 16 ^ k.
Proof. apply N.pow_le_mono_l. lia. Qed.
Lemma hex_digits_spec n : N_of_nibbles (hex_digits n) = n /\ all_nib (hex_digits n) /\ hex_digits n <> [].
Proof.
  unfold hex_digits.
  assert (H: n < 16 ^ N.of_nat (S (N.size_nat n))).
  { destruct n as [|p]; [cbn; lia|]. cbn [N.size_nat].
    pose proof (pos_size_nat_gt p). pose proof (pow2_le_pow16 (N.of_nat (Pos.size_nat p))).
    replace (N.of_nat (S (Pos.size_nat p))) with (N.succ (N.of_nat (Pos.size_nat p))) by lia. rewrite N.pow_succ_r'. lia. }
  destruct (hex_aux_spec _ n [] H (Forall_nil _)) as [E [F Hne]].
  split; [rewrite E; cbn; lia|]. split; auto.
Qed.
Lemma hex_digits_small n : n < 16 -> hex_digits n = [n].
Proof. intros H. unfold hex_digits. cbn [hex_aux]. apply N.ltb_lt in H. rewrite H. reflexivity. Qed.
Lemma dec_digits_small n : n < 10 -> dec_digits n = [n].
Proof. intros H. unfold dec_digits. cbn [dec_aux]. apply N.ltb_lt in H. rewrite H. reflexivity. Qed.

(* int(f'{n:0<w>x}', 16) = n, for every n *)
Lemma py_int16_fmt_0x w n : w <> 0%nat -> py_int16 (fmt_0x w n) = Ok n.
Proof.
  intros Hw. unfold fmt_0x. destruct (N.ltb_spec n (16 ^ N.of_nat w)) as [H|H].
  - rewrite hexdigs_nibbles, py_int16_nibs.
    + rewrite N_of_nibbles_of_N; auto.
    + intros E. apply (f_equal (@length N)) in E. rewrite nibbles_of_N_length in E. cbn in E. contradiction.
    + apply nibbles_of_N_nib.
  - destruct (hex_digits_spec n) as [E [F Hne]]. unfold fmt_x. rewrite py_int16_nibs; auto. rewrite E. reflexivity.
Qed.

(* ---- xor: nibble-wise on fields = N.lxor on numbers ---- *)
Lemma tb a x n : x < 16 -> N.testbit (a * 16 + x) n = if n <? 4 then N.testbit x n else N.testbit a (n - 4).
Proof.
  intros Hx. destruct (N.ltb_spec n 4) as [Hn|Hn].
  - rewrite <- (N.mod_pow2_bits_low (a * 16 + x) 4 n Hn). change (2^4) with 16.
    rewrite N.add_comm, N.mod_add by lia. rewrite N.mod_small by auto. reflexivity.
  - replace n with ((n - 4) + 4) at 1 by lia. rewrite <- N.div_pow2_bits. change (2^4) with 16.
    rewrite N.div_add_l by lia. rewrite N.div_small by auto. rewrite N.add_0_r. reflexivity.
Qed.
Lemma lxor_lt16 x y : x < 16 -> y < 16 -> N.lxor x y < 16.
Proof.
  intros Hx Hy. destruct (N.eq_dec (N.lxor x y) 0) as [->|Hn]; [lia|]. change 16 with (2^4).
  apply N.log2_lt_pow2; [lia|]. eapply N.le_lt_trans; [apply N.log2_lxor|]. apply N.max_lub_lt.
  - destruct (N.eq_dec x 0) as [->|?]; [cbn; lia|]. apply N.log2_lt_pow2; [lia|]. exact Hx.
  - destruct (N.eq_dec y 0) as [->|?]; [cbn; lia|]. apply N.log2_lt_pow2; [lia|]. exact Hy.
Qed.
Lemma lxor_nib a b x y : x < 16 -> y < 16 -> N.lxor (a * 16 + x) (b * 16 + y) = N.lxor a b * 16 + N.lxor x y.
Proof.
  intros Hx Hy. apply N.bits_inj. intros n.
  rewrite N.lxor_spec, (tb a x n Hx), (tb b y n Hy), (tb _ _ n (lxor_lt16 x y Hx Hy)).
  destruct (n <? 4); rewrite N.lxor_spec; reflexivity.
Qed.
Lemma xor2_app l1 l2 a b : length l1 = length l2 -> xor2 (l1 ++ [a]) (l2 ++ [b]) = xor2 l1 l2 ++ [N.lxor a b].
Proof.
  revert l2. induction l1 as [|c l1 IH]; intros [|d l2] L; try discriminate; cbn [app xor2]; auto.
  rewrite IH; auto.
Qed.
Lemma xor2_length l1 l2 : length l1 = length l2 -> length (xor2 l1 l2) = length l1.
Proof. revert l2. induction l1 as [|c l1 IH]; intros [|d l2] L; try discriminate; cbn [xor2 length]; auto. Qed.
Lemma xor2_nib l1 l2 : all_nib l1 -> all_nib l2 -> all_nib (xor2 l1 l2).
Proof.
  intros F1. revert l2. induction F1 as [|a l1 Ha F1 IH]; intros l2 F2; cbn [xor2]; [constructor|].
  destruct F2 as [|b l2 Hb F2]; constructor; [apply lxor_lt16; auto|apply IH; auto].
Qed.
Lemma N_of_nibbles_xor : forall l1 l2, length l1 = length l2 -> all_nib l1 -> all_nib l2 ->
  N_of_nibbles (xor2 l1 l2) = N.lxor (N_of_nibbles l1) (N_of_nibbles l2).
Proof.
  intros l1. induction l1 as [|a l1 IH] using rev_ind; intros l2 Hl F1 F2.
  - destruct l2; [reflexivity|discriminate].
  - destruct l2 as [|b l2 _] using rev_ind; [rewrite app_length in Hl; cbn in Hl; lia|].
    rewrite !app_length in Hl. cbn in Hl.
    apply Forall_app in F1. destruct F1 as [F1 Fa]. apply Forall_app in F2. destruct F2 as [F2 Fb].
    inversion Fa; subst. inversion Fb; subst.
    rewrite xor2_app by lia. rewrite !N_of_nibbles_app, IH by (auto; lia). symmetry. apply lxor_nib; auto.
Qed.
Lemma lxor_cancel_r a b : N.lxor (N.lxor a b) b = a.
Proof. rewrite N.lxor_assoc, N.lxor_nilpotent, N.lxor_0_r. reflexivity. Qed.

(* ================= bytes ================= *)
Lemma N_of_byte_of_N n : n < 256 -> N_of_byte (byte_of_N n) = n.
Proof.
  intros H. unfold N_of_byte, byte_of_N. rewrite N.mod_small by auto.
  pose proof (Byte.to_of_N_option_map n) as T. destruct (Byte.of_N n) as [b|] eqn:E.
  - apply Byte.to_of_N. assumption.
  - cbn in T. destruct (N.leb_spec n 255); [discriminate|lia].
Qed.
Lemma byte_of_N_of_byte b : byte_of_N (N_of_byte b) = b.
Proof.
  unfold N_of_byte, byte_of_N. pose proof (Byte.to_N_bounded b). rewrite N.mod_small by lia.
  rewrite Byte.of_to_N. reflexivity.
Qed.
Lemma byte_of_N_mod n : byte_of_N (n mod 256) = byte_of_N n.
Proof. unfold byte_of_N. rewrite N.mod_mod by lia. reflexivity. Qed.

Lemma list_pair_ind {A} (P : list A -> Prop) :
  P [] -> (forall x, P [x]) -> (forall x y l, P l -> P (x :: y :: l)) -> forall l, P l.
Proof. intros H0 H1 H2. fix IH 1. intros [|x [|y l]]; [exact H0|exact (H1 x)|exact (H2 x y l (IH l))]. Qed.

Lemma bytes_of_nibbles_app l a b : Nat.even (length l) = true ->
  bytes_of_nibbles (l ++ [a; b]) = bytes_of_nibbles l ++ [byte_of_N (a * 16 + b)].
Proof.
  induction l as [|x|x y l IH] using list_pair_ind; intros Hev.
  - reflexivity.
  - discriminate.
  - cbn [app bytes_of_nibbles]. rewrite IH; auto.
Qed.

Lemma bytes_of_nibbles_length l k : length l = (2 * k)%nat -> length (bytes_of_nibbles l) = k.
Proof.
  revert k. induction l as [|x|x y l IH] using list_pair_ind; intros k L; cbn [length] in L.
  - cbn. lia.
  - lia.
  - cbn [bytes_of_nibbles length]. destruct k as [|k]; [lia|]. rewrite (IH k); lia.
Qed.

(* int.from_bytes / hexlify / unhexlify / to_bytes in terms of nibbles *)
Lemma unbe_nibbles b : unbe b = N_of_nibbles (nibbles_of_bytes b).
Proof.
  unfold unbe, N_of_nibbles. generalize 0.
  induction b as [|x b IH]; intros a; cbn [nibbles_of_bytes flat_map app fold_left]; [reflexivity|].
  fold (nibbles_of_bytes b). rewrite <- IH. f_equal. lia.
Qed.
Lemma nibbles_of_bytes_nib b : all_nib (nibbles_of_bytes b).
Proof.
  induction b as [|x b IH]; cbn [nibbles_of_bytes flat_map app]; [constructor|].
  pose proof (Byte.to_N_bounded x). unfold N_of_byte.
  constructor; [lia|]. constructor; [lia|]. exact IH.
Qed.
Lemma nibbles_of_bytes_length b : length (nibbles_of_bytes b) = (2 * length b)%nat.
Proof. induction b as [|x b IH]; cbn [nibbles_of_bytes flat_map app length]; [reflexivity|]. fold (nibbles_of_bytes b). lia. Qed.
Lemma nibbles_of_bytes_of_nibbles l : Nat.even (length l) = true -> all_nib l -> nibbles_of_bytes (bytes_of_nibbles l) = l.
Proof.
  induction l as [|x|x y l IH] using list_pair_ind; intros Hev F.
  - reflexivity.
  - discriminate.
  - inversion F as [|? ? Hx F']; subst. inversion F' as [|? ? Hy F'']; subst.
    cbn [bytes_of_nibbles nibbles_of_bytes flat_map app]. fold (nibbles_of_bytes (bytes_of_nibbles l)).
    rewrite IH by auto. rewrite N_of_byte_of_N by lia. f_equal; [lia|]. f_equal. lia.
Qed.
Lemma bytes_of_nibbles_of_bytes b : bytes_of_nibbles (nibbles_of_bytes b) = b.
Proof.
  induction b as [|x b IH]; cbn [nibbles_of_bytes flat_map app bytes_of_nibbles]; [reflexivity|].
  fold (nibbles_of_bytes b). rewrite IH. f_equal.
  replace (N_of_byte x / 16 * 16 + N_of_byte x mod 16) with (N_of_byte x) by lia. apply byte_of_N_of_byte.
Qed.
Lemma unbe_of_nibbles l : Nat.even (length l) = true -> all_nib l -> unbe (bytes_of_nibbles l) = N_of_nibbles l.
Proof. intros Hev F. rewrite unbe_nibbles, nibbles_of_bytes_of_nibbles; auto. Qed.
Lemma hexlify_nibbles b : hexlify b = map hexch (nibbles_of_bytes b).
Proof.
  induction b as [|x b IH]; cbn [hexlify nibbles_of_bytes flat_map app map]; [reflexivity|].
  fold (hexlify b). fold (nibbles_of_bytes b). rewrite IH. reflexivity.
Qed.
Lemma hexlify_of_nibbles l : Nat.even (length l) = true -> all_nib l -> hexlify (bytes_of_nibbles l) = map hexch l.
Proof. intros Hev F. rewrite hexlify_nibbles, nibbles_of_bytes_of_nibbles; auto. Qed.
Lemma unhexlify_nibbles l : Nat.even (length l) = true -> all_nib l -> unhexlify (map hexch l) = Some (bytes_of_nibbles l).
Proof.
  induction l as [|x|x y l IH] using list_pair_ind; intros Hev F.
  - reflexivity.
  - discriminate.
  - inversion F as [|? ? Hx F']; subst. inversion F' as [|? ? Hy F'']; subst.
    cbn [map unhexlify bytes_of_nibbles].
    destruct (nib_facts x Hx) as [-> _]. destruct (nib_facts y Hy) as [-> _]. rewrite IH by auto. reflexivity.
Qed.
Lemma unhexlify_str_nibbles l : Nat.even (length l) = true -> all_nib l ->
  unhexlify_str (map hexch l) = Ok (bytes_of_nibbles l).
Proof.
  intros Hev F. unfold unhexlify_str.
  replace (existsb (fun c => 128 <=? c) (map hexch l)) with false.
  - rewrite unhexlify_nibbles; auto.
  - symmetry. apply not_true_is_false. intros E. apply existsb_exists in E. destruct E as [c [Hc E]].
    apply in_map_iff in Hc. destruct Hc as [d [<- Hd]]. unfold all_nib in F. rewrite Forall_forall in F.
    destruct (nib_facts d (F d Hd)) as [_ [L _]]. apply N.leb_le in E. lia.
Qed.
Lemma be_bytes_nibbles w n : be_bytes w n = bytes_of_nibbles (nibbles_of_N (2 * w) n).
Proof.
  revert n. induction w as [|w IH]; intros n; [reflexivity|].
  replace (2 * S w)%nat with (S (S (2 * w))) by lia. cbn [be_bytes nibbles_of_N].
  rewrite <- app_assoc. cbn [app]. rewrite bytes_of_nibbles_app.
  - rewrite IH. replace (n / 16 / 16) with (n / 256) by lia. f_equal. f_equal.
    rewrite <- (byte_of_N_mod n). f_equal. lia.
  - rewrite nibbles_of_N_length. rewrite Nat.even_mul. reflexivity.
Qed.
Lemma int_to_bytes_nibbles w l : length l = (2 * w)%nat -> all_nib l ->
  int_to_bytes w (N_of_nibbles l) = Ok (bytes_of_nibbles l).
Proof.
  intros L F. unfold int_to_bytes.
  assert (H: N_of_nibbles l < 256 ^ N.of_nat w).
  { pose proof (N_of_nibbles_lt l F) as H. rewrite L in H.
    replace (N.of_nat (2 * w)) with (2 * N.of_nat w) in H by lia. rewrite N.pow_mul_r in H. exact H. }
  apply N.ltb_lt in H. rewrite H. rewrite be_bytes_nibbles, nibbles_of_N_inv; auto.
Qed.

(* ================= the PIN field as the code builds it ================= *)
Lemma hexch_consts : c0 = hexch 0 /\ c4 = hexch 4 /\ cf = hexch 15 /\ ca = hexch 10.
Proof. vm_compute. auto. Qed.

Lemma pin_field_length ctl fill pin : (length pin <= 14)%nat -> length (pin_field ctl fill pin) = 16%nat.
Proof. intros H. unfold pin_field. rewrite !app_length, repeat_length. cbn [length]. lia. Qed.
Lemma pin_field_nib ctl fill pin : ctl < 16 -> fill < 16 -> (length pin <= 14)%nat -> all_dec pin -> all_nib (pin_field ctl fill pin).
Proof.
  intros Hc Hf L F. unfold pin_field. apply Forall_app. split.
  - constructor; [exact Hc|]. constructor; [lia|constructor].
  - apply Forall_app. split; [apply nib_of_dec; exact F|apply Forall_repeat; exact Hf].
Qed.
Lemma pin_field_str ctl fill pin : (length pin <= 14)%nat -> all_dec pin ->
  pad_right (hexch fill) 16 ([hexch ctl] ++ fmt_x (N.of_nat (length (dstr pin))) ++ dstr pin)
  = map hexch (pin_field ctl fill pin).
Proof.
  intros L F. assert (Ld: length (dstr pin) = length pin) by apply map_length.
  unfold pad_right, pin_field, fmt_x. rewrite Ld. rewrite hex_digits_small by lia.
  rewrite !app_length, Ld. cbn [map length app].
  rewrite !map_app, map_repeat'. cbn [map app]. rewrite (hexch_dstr pin F).
  replace (16 - S (S (length pin)))%nat with (14 - length pin)%nat by lia. reflexivity.
Qed.
(* reading the field back: p1[1:2] and p1[2:2+n] *)
Lemma slice_1_2 {A} (a b : A) r : slice 1 2 (a :: b :: r) = [b].
Proof. reflexivity. Qed.
Lemma slice_2_n {A} (a b : A) r n : slice 2 (2 + n) (a :: b :: r) = firstn n r.
Proof. unfold slice. replace (2 + n - 2)%nat with n by lia. reflexivity. Qed.
Lemma pin_field_read_app ctl fill pin rest : ctl < 16 -> (length pin <= 14)%nat -> all_dec pin ->
  let p1 := map hexch (pin_field ctl fill pin) ++ rest in
  (do n <- py_int16 (slice 1 2 p1); Ok (slice 2 (2 + N.to_nat n) p1)) = Ok (dstr pin).
Proof.
  intros Hc L F p1. subst p1. unfold pin_field. cbn [app map]. rewrite slice_1_2.
  change [hexch (N.of_nat (length pin))] with (map hexch [N.of_nat (length pin)]).
  rewrite py_int16_nibs; [|discriminate|constructor; [lia|constructor]].
  change (N_of_nibbles [N.of_nat (length pin)]) with (0 * 16 + N.of_nat (length pin)).
  cbn [bind]. rewrite slice_2_n. rewrite map_app, <- app_assoc.
  replace (N.to_nat (0 * 16 + N.of_nat (length pin))) with (length pin) by lia.
  rewrite firstn_exact by (rewrite map_length; reflexivity). rewrite hexch_dstr by exact F. reflexivity.
Qed.
Lemma pin_field_read ctl fill pin : ctl < 16 -> (length pin <= 14)%nat -> all_dec pin ->
  let p1 := map hexch (pin_field ctl fill pin) in
  (do n <- py_int16 (slice 1 2 p1); Ok (slice 2 (2 + N.to_nat n) p1)) = Ok (dstr pin).
Proof.
  intros Hc L F. pose proof (pin_field_read_app ctl fill pin [] Hc L F) as R. rewrite app_nil_r in R. exact R.
Qed.

(* the PAN field as the code builds it: '0000' + card_number[-13:-1] *)
Lemma pan_field_str pan : all_dec pan ->
  [c0; c0; c0; c0] ++ py_slice_neg 13 1 (dstr pan) = map hexch ([0; 0; 0; 0] ++ pan_field 12 pan).
Proof.
  intros F. rewrite py_slice_neg_last. unfold dstr. rewrite pan_field_map. fold (pan_field 12 pan).
  rewrite map_app. rewrite (hexch_dstr (pan_field 12 pan)) by (apply pan_field_Forall; exact F).
  destruct hexch_consts as [-> _]. reflexivity.
Qed.
Lemma pan0_length pan : (13 <= length pan)%nat -> length ([0; 0; 0; 0] ++ pan_field 12 pan) = 16%nat.
Proof. intros H. rewrite app_length, pan_field_length by lia. reflexivity. Qed.
Lemma pan0_nib pan : all_dec pan -> all_nib ([0; 0; 0; 0] ++ pan_field 12 pan).
Proof.
  intros F. apply Forall_app. split; [repeat constructor|].
  apply nib_of_dec. apply pan_field_Forall. exact F.
Qed.

Lemma nonempty_of_length {A} (l : list A) n : length l = S n -> l <> [].
Proof. intros H ->. discriminate. Qed.

(* ================= format 0 ================= *)
Lemma spec0_shape pin pan : (length pin <= 14)%nat -> all_dec pin -> all_dec pan -> (13 <= length pan)%nat ->
  length (spec0 pin pan) = 16%nat /\ all_nib (spec0 pin pan).
Proof.
  intros L F Fp Lp. unfold spec0. split.
  - rewrite xor2_length; [apply pin_field_length; auto|]. rewrite pin_field_length, pan0_length; auto.
  - apply xor2_nib; [apply pin_field_nib; auto; lia|apply pan0_nib; auto].
Qed.

Lemma iso0_to_bytes_spec pin pan : (length pin <= 14)%nat -> all_dec pin -> all_dec pan -> (13 <= length pan)%nat ->
  iso0_to_bytes (dstr pin) (dstr pan) = Ok (bytes_of_nibbles (spec0 pin pan)).
Proof.
  intros L F Fp Lp. unfold iso0_to_bytes.
  destruct hexch_consts as [E0 [_ [Ef _]]]. rewrite Ef. rewrite E0 at 1.
  rewrite (pin_field_str 0 15 pin L F). rewrite (pan_field_str pan Fp).
  assert (L1 := pin_field_length 0 15 pin L). assert (L2 := pan0_length pan Lp).
  assert (F1 := pin_field_nib 0 15 pin ltac:(lia) ltac:(lia) L F). assert (F2 := pan0_nib pan Fp).
  rewrite py_int16_nibs by (eauto using nonempty_of_length). cbn [bind].
  rewrite py_int16_nibs by (eauto using nonempty_of_length). cbn [bind].
  rewrite <- N_of_nibbles_xor by (auto; lia). fold (spec0 pin pan).
  destruct (spec0_shape pin pan L F Fp Lp) as [Ls Fs].
  apply int_to_bytes_nibbles; auto.
Qed.

Lemma iso0_from_bytes_spec pin pan : (length pin <= 14)%nat -> all_dec pin -> all_dec pan -> (13 <= length pan)%nat ->
  iso0_from_bytes (bytes_of_nibbles (spec0 pin pan)) (dstr pan) = Ok (dstr pin).
Proof.
  intros L F Fp Lp. unfold iso0_from_bytes.
  rewrite (pan_field_str pan Fp).
  assert (L1 := pin_field_length 0 15 pin L). assert (L2 := pan0_length pan Lp).
  assert (F1 := pin_field_nib 0 15 pin ltac:(lia) ltac:(lia) L F). assert (F2 := pan0_nib pan Fp).
  destruct (spec0_shape pin pan L F Fp Lp) as [Ls Fs].
  rewrite py_int16_nibs by (eauto using nonempty_of_length). cbn [bind].
  rewrite unbe_of_nibbles by (auto; rewrite Ls; reflexivity).
  unfold spec0 at 1 2. rewrite N_of_nibbles_xor by (auto; lia). rewrite lxor_cancel_r.
  rewrite fmt_0x_nibs by auto.
  apply pin_field_read; auto. lia.
Qed.

(* ================= format 4 ================= *)
Lemma spec4_shape pin rnd : (length pin <= 14)%nat -> all_dec pin ->
  length (spec4 pin rnd) = 32%nat /\ all_nib (spec4 pin rnd).
Proof.
  intros L F. unfold spec4. split.
  - rewrite app_length, pin_field_length, nibbles_of_N_length; auto.
  - apply Forall_app. split; [apply pin_field_nib; auto; lia|apply nibbles_of_N_nib].
Qed.
Lemma iso4_to_bytes_spec pin rnd : (length pin <= 14)%nat -> all_dec pin -> rnd < 2 ^ 64 ->
  iso4_to_bytes (dstr pin) rnd = Ok (bytes_of_nibbles (spec4 pin rnd)).
Proof.
  intros L F Hr. unfold iso4_to_bytes.
  destruct hexch_consts as [_ [E4 [_ Ea]]]. rewrite Ea, E4.
  rewrite (pin_field_str 4 10 pin L F). rewrite fmt_0x_small by exact Hr.
  rewrite <- map_app. fold (spec4 pin rnd).
  destruct (spec4_shape pin rnd L F) as [Ls Fs].
  apply unhexlify_str_nibbles; auto. rewrite Ls. reflexivity.
Qed.
Lemma iso4_from_bytes_spec pin rnd : (length pin <= 14)%nat -> all_dec pin ->
  iso4_from_bytes (bytes_of_nibbles (spec4 pin rnd)) = Ok (dstr pin).
Proof.
  intros L F. unfold iso4_from_bytes.
  destruct (spec4_shape pin rnd L F) as [Ls Fs].
  rewrite hexlify_of_nibbles by (auto; rewrite Ls; reflexivity).
  unfold spec4. rewrite map_app. apply pin_field_read_app; auto. lia.
Qed.

(* ================= Visa PVV: TSP and decimalisation (cipher-free parts) ================= *)
Lemma get_tsp_spec pan kidx pin : kidx < 10 -> get_tsp (dstr pan) kidx (dstr pin) = dstr (tsp_spec pan kidx pin).
Proof.
  intros Hk. unfold get_tsp, tsp_spec. rewrite py_slice_neg_last. unfold dstr. rewrite pan_field_map.
  fold (pan_field 11 pan). unfold str_of_N. rewrite dec_digits_small by exact Hk. rewrite firstn_map, !map_app. reflexivity.
Qed.
Lemma tsp_spec_shape pan kidx pin : (12 <= length pan)%nat -> (4 <= length pin)%nat -> kidx < 10 -> all_dec pan -> all_dec pin ->
  length (tsp_spec pan kidx pin) = 16%nat /\ all_dec (tsp_spec pan kidx pin).
Proof.
  intros Lp L Hk Fp F. unfold tsp_spec. split.
  - rewrite !app_length, pan_field_length, firstn_length by lia. cbn [length]. lia.
  - apply Forall_app. split; [apply pan_field_Forall; exact Fp|].
    apply Forall_app. split; [constructor; [exact Hk|constructor]|apply Forall_firstn; exact F].
Qed.
Lemma tsp_bytes pan kidx pin : (12 <= length pan)%nat -> (4 <= length pin)%nat -> kidx < 10 -> all_dec pan -> all_dec pin ->
  unhexlify_str (dstr (tsp_spec pan kidx pin)) = Ok (bytes_of_nibbles (tsp_spec pan kidx pin)) /\
  length (bytes_of_nibbles (tsp_spec pan kidx pin)) = 8%nat.
Proof.
  intros Lp L Hk Fp F. destruct (tsp_spec_shape pan kidx pin Lp L Hk Fp F) as [Lt Ft].
  split; [|apply bytes_of_nibbles_length; rewrite Lt; reflexivity].
  rewrite <- hexch_dstr by exact Ft. apply unhexlify_str_nibbles; [rewrite Lt; reflexivity|apply nib_of_dec; exact Ft].
Qed.

Lemma filter_digit_nibs ns : all_nib ns -> filter is_digit (map hexch ns) = map hexch (filter (fun d => d <? 10) ns).
Proof.
  induction 1 as [|d ns Hd F IH]; cbn [map filter]; [reflexivity|].
  destruct (nib_facts d Hd) as [_ [_ [-> _]]]. destruct (d <? 10); cbn [map]; rewrite IH; reflexivity.
Qed.
Lemma pass2_nibs ns : all_nib ns ->
  flat_map pvv_pass2 (map hexch ns) = map (fun d => [dch (d - 10)]) (filter (fun d => 10 <=? d) ns).
Proof.
  induction 1 as [|d ns Hd F IH]; cbn [map flat_map filter]; [reflexivity|].
  destruct (nib_facts d Hd) as [_ [_ [_ [-> _]]]]. destruct (10 <=? d); cbn [map app]; rewrite IH; reflexivity.
Qed.
Lemma filter_split_length (l : list N) :
  Nat.add (length (filter (fun d => d <? 10) l)) (length (filter (fun d => 10 <=? d) l)) = length l.
Proof.
  induction l as [|d l IH]; cbn [filter]; [reflexivity|].
  destruct (d <? 10) eqn:E1; destruct (10 <=? d) eqn:E2; cbn [length]; lia.
Qed.

Lemma pvv_of_ct_spec ct : pvv_of_ct ct = dstr (visa_spec (nibbles_of_bytes ct)).
Proof.
  unfold pvv_of_ct, visa_spec. rewrite hexlify_nibbles.
  pose proof (nibbles_of_bytes_nib ct) as F. set (ns := nibbles_of_bytes ct) in *.
  rewrite (filter_digit_nibs ns F), (pass2_nibs ns F).
  set (A := filter (fun d => d <? 10) ns). set (B := filter (fun d => 10 <=? d) ns).
  assert (FA: all_dec A).
  { apply Forall_forall. intros d Hd. apply filter_In in Hd. destruct Hd as [_ Hd]. apply N.ltb_lt. exact Hd. }
  rewrite (hexch_dstr A FA). rewrite map_length.
  replace (map (fun d => [dch (d - 10)]) B) with (map (fun c : N => [c]) (dstr (map (fun d => d - 10) B)))
    by (unfold dstr; rewrite !map_map; reflexivity).
  replace (dstr (firstn 4 (A ++ map (fun d => d - 10) B)))
    with (firstn 4 (dstr A ++ dstr (map (fun d => d - 10) B)))
    by (unfold dstr; rewrite <- map_app, firstn_map; reflexivity).
  destruct (Nat.ltb_spec (length (dstr A)) 4) as [H|H].
  - rewrite <- map_app, firstn_map, concat_singletons. reflexivity.
  - rewrite firstn_map, concat_singletons. rewrite firstn_app.
    replace (4 - length (dstr A))%nat with 0%nat by lia. cbn [firstn]. rewrite app_nil_r. reflexivity.
Qed.
Lemma visa_spec_shape ns : all_nib ns -> (4 <= length ns)%nat -> length (visa_spec ns) = 4%nat /\ all_dec (visa_spec ns).
Proof.
  intros F L. unfold visa_spec. split.
  - rewrite firstn_length, app_length, map_length. pose proof (filter_split_length ns). lia.
  - apply Forall_firstn. apply Forall_app. split.
    + apply Forall_forall. intros d Hd. apply filter_In in Hd. destruct Hd as [_ Hd]. apply N.ltb_lt. exact Hd.
    + apply Forall_forall. intros d Hd. apply in_map_iff in Hd. destruct Hd as [x [<- Hx]].
      apply filter_In in Hx. destruct Hx as [Hx _]. unfold all_nib in F. rewrite Forall_forall in F. specialize (F x Hx). lia.
Qed.

(* ================= key components ================= *)
Definition hexstr (s : str) : Prop := s <> [] /\ forallb is_hex s = true.
(* the number a hex string denotes, read nibble by nibble *)
Definition hexN (s : str) : N := N_of_nibbles (nibs_of_hex s).

Lemma zeros32 : repeat c0 32 = fmt_0x 32 0 /\ N_of_nibbles (repeat 0 32) = 0.
Proof. vm_compute. auto. Qed.

Lemma zmk_fold_spec parts : Forall hexstr parts -> forall a,
  zmk_fold (fmt_0x 32 a) parts = Ok (fmt_0x 32 (fold_left N.lxor (map hexN parts) a)).
Proof.
  induction 1 as [|s parts [Hne Hs] F IH]; intros a; cbn [zmk_fold map fold_left]; [reflexivity|].
  rewrite py_int16_fmt_0x by discriminate. cbn [bind]. rewrite (py_int16_hexstr s Hne Hs). cbn [bind]. apply IH.
Qed.
Lemma fold_lxor l : fold_left N.lxor l 0 = combine_N l.
Proof.
  unfold combine_N. apply fold_symmetric.
  - intros x y z. symmetry. apply N.lxor_assoc.
  - intros y. rewrite N.lxor_0_l, N.lxor_0_r. reflexivity.
Qed.
Lemma zmk_combine_spec parts : Forall hexstr parts -> zmk_combine parts = Ok (fmt_0x 32 (combine_N (map hexN parts))).
Proof.
  intros F. unfold zmk_combine. destruct zeros32 as [-> _]. rewrite (zmk_fold_spec parts F 0), fold_lxor. reflexivity.
Qed.

Lemma combine_N_perm l1 l2 : Permutation l1 l2 -> combine_N l1 = combine_N l2.
Proof.
  unfold combine_N. induction 1 as [|x l1 l2 P IH|x y l|l1 l2 l3 P1 IH1 P2 IH2]; cbn [fold_right].
  - reflexivity.
  - rewrite IH. reflexivity.
  - rewrite <- !N.lxor_assoc, (N.lxor_comm y x). reflexivity.
  - congruence.
Qed.
Lemma combine_N_twice k l : combine_N (k :: k :: l) = combine_N l.
Proof. unfold combine_N. cbn [fold_right]. rewrite <- N.lxor_assoc, N.lxor_nilpotent, N.lxor_0_l. reflexivity. Qed.

Lemma zmk_combine_perm ps qs : Forall hexstr ps -> Permutation ps qs -> zmk_combine ps = zmk_combine qs.
Proof.
  intros F P. rewrite (zmk_combine_spec ps F), (zmk_combine_spec qs (Permutation_Forall P F)).
  rewrite (combine_N_perm _ _ (Permutation_map hexN P)). reflexivity.
Qed.
Lemma zmk_combine_twice k ps : hexstr k -> Forall hexstr ps -> zmk_combine (k :: k :: ps) = zmk_combine ps.
Proof.
  intros Hk F. rewrite (zmk_combine_spec ps F), (zmk_combine_spec (k :: k :: ps))
    by (constructor; [exact Hk|constructor; [exact Hk|exact F]]).
  cbn [map]. rewrite combine_N_twice. reflexivity.
Qed.

Lemma lxor_lt_pow2 a b n : a < 2 ^ n -> b < 2 ^ n -> N.lxor a b < 2 ^ n.
Proof.
  intros Ha Hb.
  destruct (N.eq_dec a 0) as [->|Ha0]; [rewrite N.lxor_0_l; exact Hb|].
  destruct (N.eq_dec b 0) as [->|Hb0]; [rewrite N.lxor_0_r; exact Ha|].
  destruct (N.eq_dec (N.lxor a b) 0) as [->|Hn]; [lia|].
  apply N.log2_lt_pow2; [lia|]. eapply N.le_lt_trans; [apply N.log2_lxor|].
  apply N.max_lub_lt; apply N.log2_lt_pow2; auto; lia.
Qed.
Lemma combine_N_lt n l : Forall (fun x => x < 2 ^ n) l -> combine_N l < 2 ^ n.
Proof.
  unfold combine_N. induction 1 as [|x l Hx F IH]; cbn [fold_right].
  - apply N.neq_0_lt_0, N.pow_nonzero. lia.
  - apply lxor_lt_pow2; auto.
Qed.
Lemma pow16_32 : 16 ^ 32 = 2 ^ 128.
Proof. vm_compute. reflexivity. Qed.

Lemma hexval_lt c v : hexval c = Some v -> v < 16.
Proof.
  unfold hexval. destruct ((48 <=? c) && (c <=? 57)) eqn:E1; [intros H; inversion H; lia|].
  destruct ((97 <=? c) && (c <=? 102)) eqn:E2; [intros H; inversion H; lia|].
  destruct ((65 <=? c) && (c <=? 70)) eqn:E3; [intros H; inversion H; lia|discriminate].
Qed.
Lemma nibs_of_hex_nib s : all_nib (nibs_of_hex s).
Proof.
  unfold nibs_of_hex. apply Forall_forall. intros d Hd. apply in_map_iff in Hd. destruct Hd as [c [<- _]].
  unfold hexnib. destruct (hexval c) eqn:E; [apply (hexval_lt c); exact E|lia].
Qed.
Lemma hexN_lt s : (length s <= 32)%nat -> hexN s < 2 ^ 128.
Proof.
  intros L. unfold hexN. pose proof (N_of_nibbles_lt _ (nibs_of_hex_nib s)) as H.
  unfold nibs_of_hex in H at 2. rewrite map_length in H. rewrite <- pow16_32.
  eapply N.lt_le_trans; [exact H|]. apply N.pow_le_mono_r; lia.
Qed.

(* components of at most 32 hex digits: the result is a 32-digit string, i.e. a 16-byte key *)
Lemma zmk_combine_bounded ps : Forall (fun s => hexstr s /\ (length s <= 32)%nat) ps ->
  let nibs := nibbles_of_N 32 (combine_N (map hexN ps)) in
  zmk_combine ps = Ok (map hexch nibs) /\ length nibs = 32%nat /\ all_nib nibs /\
  N_of_nibbles nibs = combine_N (map hexN ps) /\
  unhexlify_str (map hexch nibs) = Ok (bytes_of_nibbles nibs) /\ length (bytes_of_nibbles nibs) = 16%nat.
Proof.
  intros F nibs.
  assert (F1: Forall hexstr ps) by (eapply Forall_impl; [|exact F]; intros s [H _]; exact H).
  assert (B: combine_N (map hexN ps) < 16 ^ N.of_nat 32).
  { change (N.of_nat 32) with 32. rewrite pow16_32. apply combine_N_lt. apply Forall_forall. intros x Hx.
    apply in_map_iff in Hx. destruct Hx as [s [<- Hs]]. rewrite Forall_forall in F. apply hexN_lt, (F s Hs). }
  assert (Ln: length nibs = 32%nat) by apply nibbles_of_N_length.
  assert (Fn: all_nib nibs) by apply nibbles_of_N_nib.
  split; [rewrite (zmk_combine_spec ps F1); f_equal; apply fmt_0x_small; exact B|].
  split; [exact Ln|]. split; [exact Fn|]. split; [apply N_of_nibbles_of_N; exact B|].
  split; [apply unhexlify_str_nibbles; auto; rewrite Ln; reflexivity|apply bytes_of_nibbles_length; rewrite Ln; reflexivity].
Qed.

(* components of exactly 32 hex digits: the nibble-wise XOR of the components *)
Lemma combine_fields_fold fs : Forall (fun f => length f = 32%nat /\ all_nib f) fs -> forall acc, length acc = 32%nat -> all_nib acc ->
  let r := fold_left xor2 fs acc in
  N_of_nibbles r = fold_left N.lxor (map N_of_nibbles fs) (N_of_nibbles acc) /\ length r = 32%nat /\ all_nib r.
Proof.
  induction 1 as [|f fs [Lf Ff] F IH]; intros acc La Fa; cbn [fold_left map].
  - auto.
  - destruct (IH (xor2 acc f)) as [E [L' F']].
    + rewrite xor2_length; lia.
    + apply xor2_nib; auto.
    + split; [|auto]. cbv zeta in E. rewrite E. rewrite N_of_nibbles_xor by (auto; lia). reflexivity.
Qed.
Lemma zmk_combine_fields ps : Forall (fun s => length s = 32%nat /\ forallb is_hex s = true) ps ->
  zmk_combine ps = Ok (map hexch (combine_fields (map nibs_of_hex ps))).
Proof.
  intros F.
  assert (F1: Forall hexstr ps).
  { eapply Forall_impl; [|exact F]. intros s [L H]. split; [|exact H]. intros ->. discriminate. }
  assert (F2: Forall (fun f => length f = 32%nat /\ all_nib f) (map nibs_of_hex ps)).
  { apply Forall_forall. intros f Hf. apply in_map_iff in Hf. destruct Hf as [s [<- Hs]].
    rewrite Forall_forall in F. destruct (F s Hs) as [L _]. split; [unfold nibs_of_hex; rewrite map_length; exact L|apply nibs_of_hex_nib]. }
  assert (Z0: all_nib (repeat 0 32)) by (apply Forall_repeat; lia).
  destruct (combine_fields_fold _ F2 (repeat 0 32) (repeat_length _ _) Z0) as [E [L' F']].
  cbv zeta in E, L', F'. fold (combine_fields (map nibs_of_hex ps)) in E, L', F'.
  rewrite (zmk_combine_spec ps F1). rewrite <- fold_lxor.
  destruct zeros32 as [_ Z]. rewrite Z in E. unfold hexN. rewrite <- (map_map nibs_of_hex N_of_nibbles). rewrite <- E.
  rewrite fmt_0x_nibs; auto.
Qed.

(* key check value: leading hex digits of the cipher output *)
Lemma kcv_of_ct_spec ct n : kcv_of_ct ct n = map hexch (kcv_spec (nibbles_of_bytes ct) n).
Proof. unfold kcv_of_ct, kcv_spec, slice. rewrite Nat.sub_0_r. cbn [skipn]. rewrite hexlify_nibbles, firstn_map. reflexivity. Qed.

Close Scope N_scope.

(* ================= everything that goes through the external cipher ================= *)
Section Ciphers.
  Variables E D : bytes -> bytes -> bytes.
  Hypothesis DE : forall k x, D k (E k x) = x.
  (* ECB without padding returns as many bytes as it is given *)
  Hypothesis E_len : forall k x, length (E k x) = length x.

  Lemma ecb_apply_ok a F key k data : unhexlify_str key = Ok k -> key_size_ok a k = true ->
    Nat.modulo (length data) (alg_block a) = 0 -> ecb_apply a F key data = Ok (F k data).
  Proof. intros Hk Hs Hl. unfold ecb_apply. rewrite Hk. cbn [bind]. rewrite Hs, Hl. reflexivity. Qed.

  Lemma iso0_enc_spec a key k pin pan :
    unhexlify_str key = Ok k -> key_size_ok a k = true -> Nat.modulo 8 (alg_block a) = 0 ->
    length pin <= 14 -> all_dec pin -> all_dec pan -> 13 <= length pan ->
    let clear := bytes_of_nibbles (spec0 pin pan) in
    iso0_to_enc a E key (dstr pin) (dstr pan) = Ok (E k clear) /\
    iso0_from_enc a D key (E k clear) (dstr pan) = Ok (dstr pin).
  Proof.
    intros Hk Hs Hb L F Fp Lp clear.
    destruct (spec0_shape pin pan L F Fp Lp) as [Ls Fs].
    assert (Lc: length clear = 8) by (apply bytes_of_nibbles_length; rewrite Ls; reflexivity).
    unfold iso0_to_enc, iso0_from_enc. rewrite (iso0_to_bytes_spec pin pan L F Fp Lp). cbn [bind]. fold clear.
    rewrite (ecb_apply_ok a E key k clear Hk Hs) by (rewrite Lc; exact Hb).
    rewrite (ecb_apply_ok a D key k (E k clear) Hk Hs) by (rewrite E_len, Lc; exact Hb).
    cbn [bind]. rewrite DE. split; [reflexivity|]. apply iso0_from_bytes_spec; auto.
  Qed.

  Lemma iso4_enc_spec a key k pin rnd :
    unhexlify_str key = Ok k -> key_size_ok a k = true -> Nat.modulo 16 (alg_block a) = 0 ->
    length pin <= 14 -> all_dec pin -> (rnd < 2 ^ 64)%N ->
    let clear := bytes_of_nibbles (spec4 pin rnd) in
    iso4_to_enc a E key (dstr pin) rnd = Ok (E k clear) /\
    iso4_from_enc a D key (E k clear) = Ok (dstr pin).
  Proof.
    intros Hk Hs Hb L F Hr clear.
    destruct (spec4_shape pin rnd L F) as [Ls Fs].
    assert (Lc: length clear = 16) by (apply bytes_of_nibbles_length; rewrite Ls; reflexivity).
    unfold iso4_to_enc, iso4_from_enc. rewrite (iso4_to_bytes_spec pin rnd L F Hr). cbn [bind]. fold clear.
    rewrite (ecb_apply_ok a E key k clear Hk Hs) by (rewrite Lc; exact Hb).
    rewrite (ecb_apply_ok a D key k (E k clear) Hk Hs) by (rewrite E_len, Lc; exact Hb).
    cbn [bind]. rewrite DE. split; [reflexivity|]. apply iso4_from_bytes_spec; auto.
  Qed.

End Ciphers.

Section CipherE.
  Variable E : bytes -> bytes -> bytes.
  Hypothesis E_len : forall k x, length (E k x) = length x.

  Lemma calculate_pvv_spec pin key k kidx pan :
    unhexlify_str key = Ok k -> key_size_ok TDES k = true ->
    12 <= length pan -> 4 <= length pin -> (kidx < 10)%N -> all_dec pan -> all_dec pin ->
    let ct := E k (bytes_of_nibbles (tsp_spec pan kidx pin)) in
    calculate_pvv E (dstr pin) key kidx (dstr pan) = Ok (dstr (visa_spec (nibbles_of_bytes ct))) /\
    to_pvv E (dstr pin) key kidx (dstr pan) = Ok (dstr (visa_spec (nibbles_of_bytes ct))) /\
    length (visa_spec (nibbles_of_bytes ct)) = 4 /\ all_dec (visa_spec (nibbles_of_bytes ct)).
  Proof.
    intros Hk Hs Lp L Hi Fp F ct.
    destruct (tsp_bytes pan kidx pin Lp L Hi Fp F) as [U Lb].
    assert (C: calculate_pvv E (dstr pin) key kidx (dstr pan) = Ok (dstr (visa_spec (nibbles_of_bytes ct)))).
    { unfold calculate_pvv. rewrite Hk. cbn [bind]. rewrite Hs. rewrite (get_tsp_spec pan kidx pin Hi), U. cbn [bind].
      rewrite Lb. change (Nat.eqb (Nat.modulo 8 8) 0) with true. cbv iota. rewrite pvv_of_ct_spec. reflexivity. }
    split; [exact C|]. split.
    - unfold to_pvv. destruct pan as [|p pan]; [cbn in Lp; lia|]. cbn [dstr map]. exact C.
    - apply visa_spec_shape; [apply nibbles_of_bytes_nib|].
      rewrite nibbles_of_bytes_length. subst ct. rewrite E_len, Lb. lia.
  Qed.

  Lemma calculate_kcv_spec k n : key_size_ok TDES k = true ->
    calculate_kcv E k n = Ok (map hexch (kcv_spec (nibbles_of_bytes (E k (repeat x00 16))) n)).
  Proof. intros Hs. unfold calculate_kcv. rewrite Hs, kcv_of_ct_spec. reflexivity. Qed.

  Lemma key16_ok k : length k = 16 -> key_size_ok TDES k = true.
  Proof. intros L. unfold key_size_ok. rewrite L. reflexivity. Qed.

  Lemma zone_master_key_spec ps master mk :
    Forall (fun s => hexstr s /\ length s <= 32) ps ->
    unhexlify_str master = Ok mk -> key_size_ok TDES mk = true ->
    let nibs := nibbles_of_N 32 (combine_N (map hexN ps)) in
    let key := bytes_of_nibbles nibs in
    let kcv := map hexch (kcv_spec (nibbles_of_bytes (E key (repeat x00 16))) 6) in
    get_zone_master_key E ps = Ok (map hexch nibs, kcv) /\
    get_enc_zone_master_key E master ps = Ok (hexlify (E mk key), kcv).
  Proof.
    intros F Hm Hs nibs key kcv.
    destruct (zmk_combine_bounded ps F) as [Z [Ln [Fn [_ [U Lk]]]]]. fold nibs in Z, Ln, Fn, U, Lk. fold key in U, Lk.
    assert (G: get_zone_master_key E ps = Ok (map hexch nibs, kcv)).
    { unfold get_zone_master_key. rewrite Z. cbn [bind]. rewrite U. cbn [bind].
      rewrite (calculate_kcv_spec key 6 (key16_ok key Lk)). reflexivity. }
    split; [exact G|].
    unfold get_enc_zone_master_key. rewrite G. cbn [bind fst snd]. unfold encrypt_key. rewrite Hm. cbn [bind].
    rewrite U. cbn [bind]. rewrite Hs, Lk. reflexivity.
  Qed.
End CipherE.

(* ================= the specification decodes (it is not vacuous) ================= *)
Lemma xor2_involutive a b : length a = length b -> xor2 (xor2 a b) b = a.
Proof.
  revert b. induction a as [|x a IH]; intros [|y b] L; try discriminate; cbn [xor2]; [reflexivity|].
  rewrite lxor_cancel_r, IH; auto.
Qed.
Lemma pin_of_field_pin_field ctl fill pin rest : pin_of_field (pin_field ctl fill pin ++ rest) = pin.
Proof.
  unfold pin_field, pin_of_field. cbn [app]. rewrite Nat2N.id, <- app_assoc. apply firstn_exact. reflexivity.
Qed.
Lemma spec_decodes pin pan rnd : length pin <= 14 -> 13 <= length pan ->
  pin_of_field (xor2 (spec0 pin pan) ([0; 0; 0; 0]%N ++ pan_field 12 pan)) = pin /\ pin_of_field (spec4 pin rnd) = pin.
Proof.
  intros L Lp. split.
  - unfold spec0. rewrite xor2_involutive by (rewrite pin_field_length, pan0_length; auto).
    rewrite <- (app_nil_r (pin_field 0 15 pin)). apply pin_of_field_pin_field.
  - unfold spec4. apply pin_of_field_pin_field.
Qed.

(* ================= statements in the form used by props/C13.v and props/C14.v ================= *)
Lemma key_size_ok_iff a k : key_size_ok a k = true <-> In (length k) (alg_keys a).
Proof.
  unfold key_size_ok. rewrite existsb_exists. split.
  - intros [n [Hn E]]. apply Nat.eqb_eq in E. rewrite E. exact Hn.
  - intros H. exists (length k). split; [exact H|apply Nat.eqb_refl].
Qed.

Lemma format0_property pin pan : 4 <= length pin <= 12 -> all_dec pin -> all_dec pan -> 13 <= length pan ->
  iso0_to_bytes (dstr pin) (dstr pan) = Ok (bytes_of_nibbles (spec0 pin pan)) /\
  length (spec0 pin pan) = 16 /\ all_nib (spec0 pin pan) /\ length (bytes_of_nibbles (spec0 pin pan)) = 8 /\
  iso0_from_bytes (bytes_of_nibbles (spec0 pin pan)) (dstr pan) = Ok (dstr pin).
Proof.
  intros L F Fp Lp. assert (L14: length pin <= 14) by lia.
  destruct (spec0_shape pin pan L14 F Fp Lp) as [Ls Fs].
  split; [apply iso0_to_bytes_spec; auto|]. split; [exact Ls|]. split; [exact Fs|].
  split; [apply bytes_of_nibbles_length; rewrite Ls; reflexivity|apply iso0_from_bytes_spec; auto].
Qed.

Lemma format4_property pin rnd : 4 <= length pin <= 12 -> all_dec pin -> (rnd < 2 ^ 64)%N ->
  iso4_to_bytes (dstr pin) rnd = Ok (bytes_of_nibbles (spec4 pin rnd)) /\
  length (spec4 pin rnd) = 32 /\ all_nib (spec4 pin rnd) /\ length (bytes_of_nibbles (spec4 pin rnd)) = 16 /\
  iso4_from_bytes (bytes_of_nibbles (spec4 pin rnd)) = Ok (dstr pin).
Proof.
  intros L F Hr. assert (L14: length pin <= 14) by lia.
  destruct (spec4_shape pin rnd L14 F) as [Ls Fs].
  split; [apply iso4_to_bytes_spec; auto|]. split; [exact Ls|]. split; [exact Fs|].
  split; [apply bytes_of_nibbles_length; rewrite Ls; reflexivity|apply iso4_from_bytes_spec; auto].
Qed.

Lemma encrypted_property (E D : bytes -> bytes -> bytes) :
  (forall k x, D k (E k x) = x) -> (forall k x, length (E k x) = length x) ->
  forall key k pin pan rnd, unhexlify_str key = Ok k ->
  4 <= length pin <= 12 -> all_dec pin -> all_dec pan -> 13 <= length pan -> (rnd < 2 ^ 64)%N ->
  (In (length k) [8; 16; 24] ->
     iso0_to_enc TDES E key (dstr pin) (dstr pan) = Ok (E k (bytes_of_nibbles (spec0 pin pan))) /\
     iso0_from_enc TDES D key (E k (bytes_of_nibbles (spec0 pin pan))) (dstr pan) = Ok (dstr pin)) /\
  (In (length k) [16; 24; 32] ->
     iso4_to_enc AES E key (dstr pin) rnd = Ok (E k (bytes_of_nibbles (spec4 pin rnd))) /\
     iso4_from_enc AES D key (E k (bytes_of_nibbles (spec4 pin rnd))) = Ok (dstr pin)) /\
  (In (length k) [8; 16; 24] ->
     iso4_to_enc TDES E key (dstr pin) rnd = Ok (E k (bytes_of_nibbles (spec4 pin rnd))) /\
     iso4_from_enc TDES D key (E k (bytes_of_nibbles (spec4 pin rnd))) = Ok (dstr pin)).
Proof.
  intros DE E_len key k pin pan rnd Hk L F Fp Lp Hr. assert (L14: length pin <= 14) by lia.
  split; [|split]; intros Hs.
  - apply (iso0_enc_spec E D DE E_len TDES key k pin pan); auto. apply key_size_ok_iff. exact Hs.
  - apply (iso4_enc_spec E D DE E_len AES key k pin rnd); auto. apply key_size_ok_iff. exact Hs.
  - apply (iso4_enc_spec E D DE E_len TDES key k pin rnd); auto. apply key_size_ok_iff. exact Hs.
Qed.

Lemma tsp_property pan kidx pin : 12 <= length pan -> 4 <= length pin -> (kidx < 10)%N -> all_dec pan -> all_dec pin ->
  get_tsp (dstr pan) kidx (dstr pin) = dstr (tsp_spec pan kidx pin) /\
  length (tsp_spec pan kidx pin) = 16 /\ all_dec (tsp_spec pan kidx pin) /\
  unhexlify_str (dstr (tsp_spec pan kidx pin)) = Ok (bytes_of_nibbles (tsp_spec pan kidx pin)) /\
  length (bytes_of_nibbles (tsp_spec pan kidx pin)) = 8.
Proof.
  intros Lp L Hk Fp F. destruct (tsp_spec_shape pan kidx pin Lp L Hk Fp F) as [Lt Ft].
  destruct (tsp_bytes pan kidx pin Lp L Hk Fp F) as [U Lb].
  split; [apply get_tsp_spec; exact Hk|]. auto.
Qed.

Lemma decimalise_property (ct : bytes) :
  pvv_of_ct ct = dstr (visa_spec (nibbles_of_bytes ct)) /\
  (2 <= length ct -> length (pvv_of_ct ct) = 4 /\ all_dec (visa_spec (nibbles_of_bytes ct))).
Proof.
  split; [apply pvv_of_ct_spec|]. intros L.
  destruct (visa_spec_shape (nibbles_of_bytes ct) (nibbles_of_bytes_nib ct)) as [L4 F4].
  - rewrite nibbles_of_bytes_length. lia.
  - split; [|exact F4]. rewrite pvv_of_ct_spec. unfold dstr. rewrite map_length. exact L4.
Qed.

Lemma pvv_property (E : bytes -> bytes -> bytes) : (forall k x, length (E k x) = length x) ->
  forall pin key k kidx pan, unhexlify_str key = Ok k -> In (length k) [8; 16; 24] ->
  12 <= length pan -> 4 <= length pin -> (kidx < 10)%N -> all_dec pan -> all_dec pin ->
  let ct := E k (bytes_of_nibbles (tsp_spec pan kidx pin)) in
  calculate_pvv E (dstr pin) key kidx (dstr pan) = Ok (dstr (visa_spec (nibbles_of_bytes ct))) /\
  to_pvv E (dstr pin) key kidx (dstr pan) = Ok (dstr (visa_spec (nibbles_of_bytes ct))) /\
  length (visa_spec (nibbles_of_bytes ct)) = 4 /\ all_dec (visa_spec (nibbles_of_bytes ct)).
Proof.
  intros E_len pin key k kidx pan Hk Hs Lp L Hi Fp F.
  apply (calculate_pvv_spec E E_len pin key k kidx pan); auto. apply key_size_ok_iff. exact Hs.
Qed.

Lemma xor_property :
  (forall ps, Forall hexstr ps -> zmk_combine ps = Ok (fmt_0x 32 (combine_N (map hexN ps)))) /\
  (forall ps qs, Forall hexstr ps -> Permutation ps qs -> zmk_combine ps = zmk_combine qs) /\
  (forall k ps, hexstr k -> Forall hexstr ps -> zmk_combine (k :: k :: ps) = zmk_combine ps) /\
  (forall ps, Forall (fun s => hexstr s /\ length s <= 32) ps ->
     let nibs := nibbles_of_N 32 (combine_N (map hexN ps)) in
     zmk_combine ps = Ok (map hexch nibs) /\ length nibs = 32 /\ all_nib nibs /\
     N_of_nibbles nibs = combine_N (map hexN ps) /\
     unhexlify_str (map hexch nibs) = Ok (bytes_of_nibbles nibs) /\ length (bytes_of_nibbles nibs) = 16) /\
  (forall ps, Forall (fun s => length s = 32 /\ forallb is_hex s = true) ps ->
     zmk_combine ps = Ok (map hexch (combine_fields (map nibs_of_hex ps)))).
Proof.
  split; [exact zmk_combine_spec|]. split; [exact zmk_combine_perm|]. split; [exact zmk_combine_twice|].
  split; [exact zmk_combine_bounded|exact zmk_combine_fields].
Qed.

Lemma kcv_enc_property (E : bytes -> bytes -> bytes) :
  (forall k n, In (length k) [8; 16; 24] ->
     calculate_kcv E k n = Ok (map hexch (kcv_spec (nibbles_of_bytes (E k (repeat x00 16))) n))) /\
  (forall ps master mk, Forall (fun s => hexstr s /\ length s <= 32) ps ->
     unhexlify_str master = Ok mk -> In (length mk) [8; 16; 24] ->
     let nibs := nibbles_of_N 32 (combine_N (map hexN ps)) in
     let key := bytes_of_nibbles nibs in
     let kcv := map hexch (kcv_spec (nibbles_of_bytes (E key (repeat x00 16))) 6) in
     get_zone_master_key E ps = Ok (map hexch nibs, kcv) /\
     get_enc_zone_master_key E master ps = Ok (hexlify (E mk key), kcv)).
Proof.
  split.
  - intros k n Hs. apply calculate_kcv_spec. apply key_size_ok_iff. exact Hs.
  - intros ps master mk F Hm Hs. apply (zone_master_key_spec E ps master mk F Hm). apply key_size_ok_iff. exact Hs.
Qed.
