(* PinProofs.v — lemmas about model/Pin.v against spec/PinSpec.v: the code's route through hex strings and big
   integers equals the nibble-level layouts of ISO 9564 formats 0 and 4, the Visa PVV decimalisation and the
   XOR combination of key components.  The external ciphers appear only as variables E, D of a Section. *)
From Coq Require Import List Arith NArith ZArith Lia Bool ZifyBool ZifyNat ZifyN Permutation.
From Coq Require Import Strings.Byte.
Require Import CU.model.Prim CU.model.Unicode CU.model.Pin CU.spec.PinSpec.
Import ListNotations.
Ltac Zify.zify_post_hook ::= Z.to_euclidean_division_equations.
Open Scope nat_scope.

(* ================= generic list facts ================= *)
Lemma firstn_exact {A} n (a b : list A) : length a = n -> firstn n (a ++ b) = a.
Proof. intros <-. rewrite firstn_app, firstn_all, Nat.sub_diag. cbn. apply app_nil_r. Qed.
Lemma skipn_exact {A} n (a b : list A) : length a = n -> skipn n (a ++ b) = b.
Proof. intros <-. rewrite skipn_app, skipn_all, Nat.sub_diag. reflexivity. Qed.

Lemma Forall_firstn {A} (P : A -> Prop) n l : Forall P l -> Forall P (firstn n l).
Proof. intros F. revert n. induction F; intros [|n]; cbn; auto. Qed.
Lemma Forall_skipn {A} (P : A -> Prop) n l : Forall P l -> Forall P (skipn n l).
Proof. intros F. revert n. induction F; intros [|n]; cbn; auto. Qed.
Lemma Forall_rev' {A} (P : A -> Prop) l : Forall P l -> Forall P (rev l).
Proof. intros F. apply Forall_forall. intros x Hx. apply in_rev in Hx. rewrite Forall_forall in F. auto. Qed.
Lemma Forall_repeat {A} (P : A -> Prop) x n : P x -> Forall P (repeat x n).
Proof. intros H. induction n; cbn; auto. Qed.
Lemma Forall_tl {A} (P : A -> Prop) l : Forall P l -> Forall P (tl l).
Proof. intros F. destruct F; cbn; auto. Qed.

Lemma concat_singletons {A} (l : list A) : concat (map (fun c => [c]) l) = l.
Proof. induction l as [|x l IH]; cbn; auto. rewrite IH. reflexivity. Qed.

(* s[-(n+1):-1] is "drop the last element, keep the n rightmost", for every length *)
Lemma py_slice_neg_last {A} n (s : list A) : py_slice_neg (S n) 1 s = rev (firstn n (tl (rev s))).
Proof.
  unfold py_slice_neg, slice. destruct s as [|x s] using rev_ind; [destruct n; reflexivity|]. clear IHs.
  rewrite rev_app_distr. cbn [rev app tl]. rewrite firstn_rev, rev_involutive.
  rewrite app_length. cbn [length].
  replace (length s + 1 - S n) with (length s - n) by lia.
  rewrite skipn_app. replace (length s - n - length s) with 0 by lia. cbn [skipn].
  apply firstn_exact. rewrite skipn_length. lia.
Qed.
Lemma tl_map {A B} (f : A -> B) l : tl (map f l) = map f (tl l).
Proof. destruct l; reflexivity. Qed.
Lemma pan_field_map {A B} (f : A -> B) n (s : list A) :
  rev (firstn n (tl (rev (map f s)))) = map f (rev (firstn n (tl (rev s)))).
Proof. rewrite <- map_rev, tl_map, firstn_map, map_rev. reflexivity. Qed.
Lemma pan_field_length n pan : S n <= length pan -> length (pan_field n pan) = n.
Proof.
  intros H. unfold pan_field. rewrite rev_length, firstn_length.
  assert (length (tl (rev pan)) = length pan - 1).
  { rewrite <- (rev_length pan). destruct (rev pan); cbn; lia. }
  lia.
Qed.
Lemma pan_field_Forall (P : N -> Prop) n pan : Forall P pan -> Forall P (pan_field n pan).
Proof. intros F. unfold pan_field. apply Forall_rev', Forall_firstn, Forall_tl, Forall_rev', F. Qed.

(* ================= nibbles and numbers ================= *)
Open Scope N_scope.

Lemma nib_of_dec l : all_dec l -> all_nib l.
Proof. unfold all_dec, all_nib. apply Forall_impl. intros; lia. Qed.

Lemma list_eqb_eq {A} (eqb : A -> A -> bool) : (forall x y, eqb x y = true -> x = y) ->
  forall a b, list_eqb eqb a b = true -> a = b.
Proof.
  intros H a. induction a as [|x a IH]; intros [|y b]; cbn [list_eqb]; try discriminate; auto.
  intros E. apply andb_true_iff in E. destruct E as [E1 E2]. f_equal; auto.
Qed.
Lemma str_eqb_eq' s t : str_eqb s t = true -> s = t.
Proof. apply list_eqb_eq. intros x y E. apply N.eqb_eq. assumption. Qed.
Lemma strs_eqb_eq (a b : list str) : list_eqb str_eqb a b = true -> a = b.
Proof. apply list_eqb_eq. exact str_eqb_eq'. Qed.

Definition nibs16 : list N := [0;1;2;3;4;5;6;7;8;9;10;11;12;13;14;15].
Lemma in_nibs16 d : d < 16 -> In d nibs16.
Proof.
  intros H. unfold nibs16.
  assert (E: d = 0 \/ d = 1 \/ d = 2 \/ d = 3 \/ d = 4 \/ d = 5 \/ d = 6 \/ d = 7 \/ d = 8 \/ d = 9 \/ d = 10
          \/ d = 11 \/ d = 12 \/ d = 13 \/ d = 14 \/ d = 15) by lia.
  cbn [In]. intuition auto.
Qed.
(* finite facts about one hex character: by computation over the 16 nibbles (the isdigit/isalpha tables are
   the generated ones, so this is re-checked against CPython's tables on every run) *)
Lemma nib_facts d : d < 16 ->
  hexval (hexch d) = Some d /\ hexch d < 128 /\ is_digit (hexch d) = (d <? 10) /\
  pvv_pass2 (hexch d) = (if 10 <=? d then [[dch (d - 10)]] else []) /\
  (d < 10 -> hexch d = dch d).
Proof.
  intros H.
  assert (T: forallb (fun d =>
      match hexval (hexch d) with Some v => v =? d | None => false end && (hexch d <? 128)
      && Bool.eqb (is_digit (hexch d)) (d <? 10)
      && list_eqb str_eqb (pvv_pass2 (hexch d)) (if 10 <=? d then [[dch (d - 10)]] else [])
      && ((10 <=? d) || (hexch d =? dch d))) nibs16 = true) by (vm_compute; reflexivity).
  rewrite forallb_forall in T. specialize (T d (in_nibs16 d H)).
  repeat (apply andb_true_iff in T; destruct T as [T ?]).
  repeat split.
  - destruct (hexval (hexch d)); [|discriminate]. apply N.eqb_eq in T. congruence.
  - apply N.ltb_lt. assumption.
  - apply Bool.eqb_prop. assumption.
  - apply strs_eqb_eq. assumption.
  - intros Hd. apply orb_true_iff in H0. destruct H0 as [H0|H0]; [lia|]. apply N.eqb_eq. assumption.
Qed.

Lemma hexch_dstr l : all_dec l -> map hexch l = dstr l.
Proof.
  intros F. unfold dstr. apply map_ext_in. intros d Hd. unfold all_dec in F. rewrite Forall_forall in F.
  specialize (F d Hd). apply nib_facts; lia.
Qed.

Lemma N_of_nibbles_app l d : N_of_nibbles (l ++ [d]) = N_of_nibbles l * 16 + d.
Proof. unfold N_of_nibbles. rewrite fold_left_app. reflexivity. Qed.
Lemma N_of_nibbles_fold l a : fold_left (fun a d => a * 16 + d) l a = a * 16 ^ N.of_nat (length l) + N_of_nibbles l.
Proof.
  revert a. induction l as [|d l IH] using rev_ind; intros a.
  - cbn. lia.
  - rewrite fold_left_app, app_length. cbn [fold_left length]. rewrite IH, N_of_nibbles_app.
    replace (N.of_nat (length l + 1)) with (N.succ (N.of_nat (length l))) by lia. rewrite N.pow_succ_r'. lia.
Qed.
Lemma N_of_nibbles_cons d l : N_of_nibbles (d :: l) = d * 16 ^ N.of_nat (length l) + N_of_nibbles l.
Proof. unfold N_of_nibbles at 1. cbn [fold_left]. rewrite N_of_nibbles_fold. lia. Qed.
Lemma N_of_nibbles_app2 l1 l2 : N_of_nibbles (l1 ++ l2) = N_of_nibbles l1 * 16 ^ N.of_nat (length l2) + N_of_nibbles l2.
Proof. unfold N_of_nibbles at 1. rewrite fold_left_app. apply N_of_nibbles_fold. Qed.

Lemma N_of_nibbles_lt l : all_nib l -> N_of_nibbles l < 16 ^ N.of_nat (length l).
Proof.
  induction l as [|d l IH] using rev_ind; intros F; [cbn; lia|].
  apply Forall_app in F. destruct F as [F Fd]. inversion Fd; subst.
  rewrite N_of_nibbles_app, app_length. cbn [length].
  replace (N.of_nat (length l + 1)) with (N.succ (N.of_nat (length l))) by lia. rewrite N.pow_succ_r'.
  specialize (IH F). lia.
Qed.

(* the code reads a hex string as a number; the specification reads it as nibbles *)
Lemma hexnum_nibs s : hexnum s = N_of_nibbles (nibs_of_hex s).
Proof.
  unfold hexnum, N_of_nibbles, nibs_of_hex.
  assert (G: forall a, fold_left (fun a c => a * 16 + match hexval c with Some v => v | None => 0 end) s a
                       = fold_left (fun a d => a * 16 + d) (map hexnib s) a).
  { induction s as [|c s IH]; intros a; cbn [map fold_left]; [reflexivity|]. exact (IH _). }
  apply G.
Qed.
Lemma nibs_of_hex_hexch l : all_nib l -> nibs_of_hex (map hexch l) = l.
Proof.
  intros F. unfold nibs_of_hex. rewrite map_map. rewrite <- (map_id l) at 2. apply map_ext_in. intros d Hd.
  unfold all_nib in F. rewrite Forall_forall in F. unfold hexnib. destruct (nib_facts d (F d Hd)) as [-> _]. reflexivity.
Qed.
Lemma is_hex_hexch l : all_nib l -> forallb is_hex (map hexch l) = true.
Proof.
  intros F. apply forallb_forall. intros c Hc. apply in_map_iff in Hc. destruct Hc as [d [<- Hd]].
  unfold all_nib in F. rewrite Forall_forall in F. unfold is_hex. destruct (nib_facts d (F d Hd)) as [-> _]. reflexivity.
Qed.
Lemma py_int16_hexstr s : s <> [] -> forallb is_hex s = true -> py_int16 s = Ok (N_of_nibbles (nibs_of_hex s)).
Proof. intros Hne H. unfold py_int16. destruct s; [contradiction|]. rewrite H, hexnum_nibs. reflexivity. Qed.
Lemma py_int16_nibs l : l <> [] -> all_nib l -> py_int16 (map hexch l) = Ok (N_of_nibbles l).
Proof.
  intros Hne F. rewrite py_int16_hexstr.
  - rewrite nibs_of_hex_hexch; auto.
  - destruct l; [contradiction|discriminate].
  - apply is_hex_hexch; auto.
Qed.

(* fixed-width hex digits *)
Lemma hexdigs_nibbles w n : hexdigs w n = nibbles_of_N w n.
Proof. revert n. induction w as [|w IH]; intros n; cbn [hexdigs nibbles_of_N]; [reflexivity|]. rewrite IH. reflexivity. Qed.
Lemma nibbles_of_N_length w n : length (nibbles_of_N w n) = w.
Proof. revert n. induction w as [|w IH]; intros n; cbn [nibbles_of_N]; [reflexivity|]. rewrite app_length, IH. cbn [length]. lia. Qed.
Lemma nibbles_of_N_nib w n : all_nib (nibbles_of_N w n).
Proof.
  revert n. induction w as [|w IH]; intros n; cbn [nibbles_of_N]; [constructor|].
  apply Forall_app. split; [apply IH|]. constructor; [|constructor]. lia.
Qed.
Lemma nibbles_of_N_inv w l : length l = w -> all_nib l -> nibbles_of_N w (N_of_nibbles l) = l.
Proof.
  revert l. induction w as [|w IH]; intros l L F.
  - destruct l; [reflexivity|discriminate].
  - destruct l as [|d l _] using rev_ind; [discriminate|]. rewrite app_length in L. cbn in L.
    apply Forall_app in F. destruct F as [F Fd]. inversion Fd; subst.
    cbn [nibbles_of_N]. rewrite N_of_nibbles_app.
    replace ((N_of_nibbles l * 16 + d) / 16) with (N_of_nibbles l) by lia.
    replace ((N_of_nibbles l * 16 + d) mod 16) with d by lia.
    rewrite IH; auto. lia.
Qed.
Lemma N_of_nibbles_of_N w n : n < 16 ^ N.of_nat w -> N_of_nibbles (nibbles_of_N w n) = n.
Proof.
  revert n. induction w as [|w IH]; intros n H.
  - cbn in *. lia.
  - cbn [nibbles_of_N]. rewrite N_of_nibbles_app.
    replace (N.of_nat (S w)) with (N.succ (N.of_nat w)) in H by lia. rewrite N.pow_succ_r' in H.
    rewrite IH by lia. lia.
Qed.

Lemma fmt_0x_small w n : n < 16 ^ N.of_nat w -> fmt_0x w n = map hexch (nibbles_of_N w n).
Proof. intros H. unfold fmt_0x. apply N.ltb_lt in H. rewrite H, hexdigs_nibbles. reflexivity. Qed.
Lemma fmt_0x_nibs w l : length l = w -> all_nib l -> fmt_0x w (N_of_nibbles l) = map hexch l.
Proof.
  intros L F. rewrite fmt_0x_small.
  - rewrite nibbles_of_N_inv; auto.
  - rewrite <- L. apply N_of_nibbles_lt; auto.
Qed.

(* unpadded hex digits: format(n, 'x') *)
Lemma hex_aux_spec fuel : forall n acc, n < 16 ^ N.of_nat fuel -> all_nib acc ->
  let r := hex_aux fuel n acc in
  N_of_nibbles r = n * 16 ^ N.of_nat (length acc) + N_of_nibbles acc /\ all_nib r /\ (fuel <> 0%nat -> r <> []).
Proof.
  induction fuel as [|f IH]; intros n acc H F; cbn [hex_aux].
  - cbn in H. replace n with 0 by lia. split; [lia|]. split; auto. intros; congruence.
  - replace (N.of_nat (S f)) with (N.succ (N.of_nat f)) in H by lia. rewrite N.pow_succ_r' in H.
    destruct (N.ltb_spec n 16) as [Hn|Hn].
    + split; [apply N_of_nibbles_cons|]. split; [constructor; auto|]. intros; discriminate.
    + assert (Hq: n / 16 < 16 ^ N.of_nat f) by lia.
      assert (Fq: all_nib (n mod 16 :: acc)) by (constructor; auto; lia).
      destruct (IH (n / 16) (n mod 16 :: acc) Hq Fq) as [E [Fr Hne]].
      split; [|split; auto].
      * rewrite E, N_of_nibbles_cons. cbn [length].
        replace (N.of_nat (S (length acc))) with (N.succ (N.of_nat (length acc))) by lia. rewrite N.pow_succ_r'. nia.
      * intros _. apply Hne. intros ->. cbn in Hq. lia.
Qed.
Lemma pos_size_nat_gt p : N.pos p < 2 ^ N.of_nat (Pos.size_nat p).
Proof.
  induction p as [p IH|p IH|]; cbn [Pos.size_nat].
  - replace (N.of_nat (S (Pos.size_nat p))) with (N.succ (N.of_nat (Pos.size_nat p))) by lia. rewrite N.pow_succ_r'. lia.
  - replace (N.of_nat (S (Pos.size_nat p))) with (N.succ (N.of_nat (Pos.size_nat p))) by lia. rewrite N.pow_succ_r'. lia.
  - cbn. lia.
Qed.
Lemma pow2_le_pow16 k : 2 ^ k <= 16 ^ k.
Proof. apply N.pow_le_mono_l. lia. Qed.
Lemma hex_digits_spec n : N_of_nibbles (hex_digits n) = n /\ all_nib (hex_digits n) /\ hex_digits n <> [].
Proof.
  unfold hex_digits.
  assert (H: n < 16 ^ N.of_nat (S (N.size_nat n))).
  { destruct n as [|p]; [cbn; lia|]. cbn [N.size_nat].
    pose proof (pos_size_nat_gt p). pose proof (pow2_le_pow16 (N.of_nat (Pos.size_nat p))).
    replace (N.of_nat (S (Pos.size_nat p))) with (N.succ (N.of_nat (Pos.size_nat p))) by lia. rewrite N.pow_succ_r'. lia. }
  destruct (hex_aux_spec _ n [] H (Forall_nil _)) as [E [F Hne]].
  split; [rewrite E; cbn; lia|]. split; auto.
Qed.
Lemma hex_digits_small n : n < 16 -> hex_digits n = [n].
Proof. intros H. unfold hex_digits. cbn [hex_aux]. apply N.ltb_lt in H. rewrite H. reflexivity. Qed.
Lemma dec_digits_small n : n < 10 -> dec_digits n = [n].
Proof. intros H. unfold dec_digits. cbn [dec_aux]. apply N.ltb_lt in H. rewrite H. reflexivity. Qed.

(* int(f'{n:0<w>x}', 16) = n, for every n *)
Lemma py_int16_fmt_0x w n : w <> 0%nat -> py_int16 (fmt_0x w n) = Ok n.
Proof.
  intros Hw. unfold fmt_0x. destruct (N.ltb_spec n (16 ^ N.of_nat w)) as [H|H].
  - rewrite hexdigs_nibbles, py_int16_nibs.
    + rewrite N_of_nibbles_of_N; auto.
    + intros E. apply (f_equal (@length N)) in E. rewrite nibbles_of_N_length in E. cbn in E. contradiction.
    + apply nibbles_of_N_nib.
  - destruct (hex_digits_spec n) as [E [F Hne]]. unfold fmt_x. rewrite py_int16_nibs; auto. rewrite E. reflexivity.
Qed.

(* ---- xor: nibble-wise on fields = N.lxor on numbers ---- *)
Lemma tb a x n : x < 16 -> N.testbit (a * 16 + x) n = if n <? 4 then N.testbit x n else N.testbit a (n - 4).
Proof.
  intros Hx. destruct (N.ltb_spec n 4) as [Hn|Hn].
  - rewrite <- (N.mod_pow2_bits_low (a * 16 + x) 4 n Hn). change (2^4) with 16.
    rewrite N.add_comm, N.mod_add by lia. rewrite N.mod_small by auto. reflexivity.
  - replace n with ((n - 4) + 4) at 1 by lia. rewrite <- N.div_pow2_bits. change (2^4) with 16.
    rewrite N.div_add_l by lia. rewrite N.div_small by auto. rewrite N.add_0_r. reflexivity.
Qed.
Lemma lxor_lt16 x y : x < 16 -> y < 16 -> N.lxor x y < 16.
Proof.
  intros Hx Hy. destruct (N.eq_dec (N.lxor x y) 0) as [->|Hn]; [lia|]. change 16 with (2^4).
  apply N.log2_lt_pow2; [lia|]. eapply N.le_lt_trans; [apply N.log2_lxor|]. apply N.max_lub_lt.
  - destruct (N.eq_dec x 0) as [->|?]; [cbn; lia|]. apply N.log2_lt_pow2; [lia|]. exact Hx.
  - destruct (N.eq_dec y 0) as [->|?]; [cbn; lia|]. apply N.log2_lt_pow2; [lia|]. exact Hy.
Qed.
Lemma lxor_nib a b x y : x < 16 -> y < 16 -> N.lxor (a * 16 + x) (b * 16 + y) = N.lxor a b * 16 + N.lxor x y.
Proof.
  intros Hx Hy. apply N.bits_inj. intros n.
  rewrite N.lxor_spec, (tb a x n Hx), (tb b y n Hy), (tb _ _ n (lxor_lt16 x y Hx Hy)).
  destruct (n <? 4); rewrite N.lxor_spec; reflexivity.
Qed.
Lemma xor2_app l1 l2 a b : length l1 = length l2 -> xor2 (l1 ++ [a]) (l2 ++ [b]) = xor2 l1 l2 ++ [N.lxor a b].
Proof.
  revert l2. induction l1 as [|c l1 IH]; intros [|d l2] L; try discriminate; cbn [app xor2]; auto.
  rewrite IH; auto.
Qed.
Lemma xor2_length l1 l2 : length l1 = length l2 -> length (xor2 l1 l2) = length l1.
Proof. revert l2. induction l1 as [|c l1 IH]; intros [|d l2] L; try discriminate; cbn [xor2 length]; auto. Qed.
Lemma xor2_nib l1 l2 : all_nib l1 -> all_nib l2 -> all_nib (xor2 l1 l2).
Proof.
  intros F1. revert l2. induction F1 as [|a l1 Ha F1 IH]; intros l2 F2; cbn [xor2]; [constructor|].
  destruct F2 as [|b l2 Hb F2]; constructor; [apply lxor_lt16; auto|apply IH; auto].
Qed.
Lemma N_of_nibbles_xor : forall l1 l2, length l1 = length l2 -> all_nib l1 -> all_nib l2 ->
  N_of_nibbles (xor2 l1 l2) = N.lxor (N_of_nibbles l1) (N_of_nibbles l2).
Proof.
  intros l1. induction l1 as [|a l1 IH] using rev_ind; intros l2 Hl F1 F2.
  - destruct l2; [reflexivity|discriminate].
  - destruct l2 as [|b l2 _] using rev_ind; [rewrite app_length in Hl; cbn in Hl; lia|].
    rewrite !app_length in Hl. cbn in Hl.
    apply Forall_app in F1. destruct F1 as [F1 Fa]. apply Forall_app in F2. destruct F2 as [F2 Fb].
    inversion Fa; subst. inversion Fb; subst.
    rewrite xor2_app by lia. rewrite !N_of_nibbles_app, IH by (auto; lia). symmetry. apply lxor_nib; auto.
Qed.
Lemma lxor_cancel_r a b : N.lxor (N.lxor a b) b = a.
Proof. rewrite N.lxor_assoc, N.lxor_nilpotent, N.lxor_0_r. reflexivity. Qed.

(* ================= bytes ================= *)
Lemma N_of_byte_of_N n : n < 256 -> N_of_byte (byte_of_N n) = n.
Proof.
  intros H. unfold N_of_byte, byte_of_N. rewrite N.mod_small by auto.
  pose proof (Byte.to_of_N_option_map n) as T. destruct (Byte.of_N n) as [b|] eqn:E.
  - apply Byte.to_of_N. assumption.
  - cbn in T. destruct (N.leb_spec n 255); [discriminate|lia].
Qed.
Lemma byte_of_N_of_byte b : byte_of_N (N_of_byte b) = b.
Proof.
  unfold N_of_byte, byte_of_N. pose proof (Byte.to_N_bounded b). rewrite N.mod_small by lia.
  rewrite Byte.of_to_N. reflexivity.
Qed.
Lemma byte_of_N_mod n : byte_of_N (n mod 256) = byte_of_N n.
Proof. unfold byte_of_N. rewrite N.mod_mod by lia. reflexivity. Qed.

Lemma list_pair_ind {A} (P : list A -> Prop) :
  P [] -> (forall x, P [x]) -> (forall x y l, P l -> P (x :: y :: l)) -> forall l, P l.
Proof. intros H0 H1 H2. fix IH 1. intros [|x [|y l]]; auto. Qed.

Lemma bytes_of_nibbles_app l a b : Nat.even (length l) = true ->
  bytes_of_nibbles (l ++ [a; b]) = bytes_of_nibbles l ++ [byte_of_N (a * 16 + b)].
Proof.
  induction l as [|x|x y l IH] using list_pair_ind; intros Hev.
  - reflexivity.
  - discriminate.
  - cbn [app bytes_of_nibbles]. rewrite IH; auto.
Qed.
