(* RegexProofs.v — the backtracking matcher of model/Regex.v against the declarative semantics of spec/RegexSpec.v:
   it finds a match exactly when one exists, its captures lie inside the subject, and the DE43 entries derived from
   them are named groups of the pattern and contiguous pieces of the subject. *)
From Coq Require Import List NArith Bool Arith Lia.
Require Import CU.model.Prim CU.model.Types CU.model.Unicode CU.model.Regex CU.spec.RegexSpec.
Import ListNotations.

(* ---------- small facts ---------- *)

Lemma rx_list_eqb_N_eq : forall a b : list N, list_eqb N.eqb a b = true -> a = b.
Proof.
  induction a as [|x a IH]; intros [|y b] H; cbn in H; try discriminate; auto.
  apply andb_true_iff in H. destruct H as [H1 H2].
  apply N.eqb_eq in H1. apply IH in H2. subst. reflexivity.
Qed.

Lemma rx_str_eqb_eq : forall a b : str, str_eqb a b = true -> a = b.
Proof. exact rx_list_eqb_N_eq. Qed.

(* an induction principle for the nested inductive `re` *)
Fixpoint rx_re_ind (P : re -> Prop)
  (hc : forall c mn mx g, P (RChar c mn mx g))
  (hg : forall name body, Forall P body -> P (RGroup name body))
  (he : forall b, P (REnd b))
  (hs : P RStart) (r : re) {struct r} : P r :=
  match r with
  | RChar c mn mx g => hc c mn mx g
  | RGroup name body =>
    hg name body
       ((fix go (l : list re) : Forall P l :=
           match l with
           | [] => Forall_nil P
           | x :: t => Forall_cons x (rx_re_ind P hc hg he hs x) (go t)
           end) body)
  | REnd b => he b
  | RStart => hs
  end.

Lemma rx_all_re (P : re -> Prop) : (forall r, P r) -> forall l, Forall P l.
Proof. intros H l. apply Forall_forall. intros x _. apply H. Qed.

(* the group case of m_re / den is the top-level sequence function *)
Lemma rx_m_re_group name body k s pos cp :
  m_re (RGroup name body) k s pos cp =
  m_seq body (fun s' pos' cp' => k s' pos' (match name with Some n => (n, (pos, pos')) :: cp' | None => cp' end)) s pos cp.
Proof. reflexivity. Qed.

Lemma rx_den_group name body pos w rest : den (RGroup name body) pos w rest = den_seq body pos w rest.
Proof. reflexivity. Qed.

(* ---------- rep ---------- *)

Definition rep_more (c : cclass) (mn : nat) (mx : option nat) (greedy : bool) (k : K) (s : str) (pos : nat) (cp : caps)
  : option caps :=
  match s with
  | [] => None
  | ch :: s' =>
    if match mx with Some 0 => false | _ => cmatch c ch end
    then rep c (pred mn) (option_map pred mx) greedy k s' (S pos) cp
    else None
  end.

Lemma rep_eq c mn mx g k s pos cp :
  rep c mn mx g k s pos cp =
  if 0 <? mn then rep_more c mn mx g k s pos cp
  else if g then match rep_more c mn mx g k s pos cp with Some r => Some r | None => k s pos cp end
       else match k s pos cp with Some r => Some r | None => rep_more c mn mx g k s pos cp end.
Proof. destruct s; reflexivity. Qed.

Definition mx_ok (mx : option nat) (n : nat) : Prop := match mx with Some m => n <= m | None => True end.

Lemma rep_sound c g k : forall s mn mx pos cp out,
  rep c mn mx g k s pos cp = Some out ->
  exists w rest, s = w ++ rest /\ Forall (fun ch => cmatch c ch = true) w /\ mn <= length w /\ mx_ok mx (length w) /\
                 k rest (pos + length w) cp = Some out.
Proof.
  induction s as [|ch s IH]; intros mn mx pos cp out H; rewrite rep_eq in H.
  - assert (Hk : 0 <? mn = false /\ k [] pos cp = Some out).
    { unfold rep_more in H. destruct (0 <? mn); [discriminate|]. split; [reflexivity|].
      destruct g; [exact H|]. destruct (k [] pos cp); [exact H|discriminate]. }
    destruct Hk as [Hmn Hk]. apply Nat.ltb_ge in Hmn.
    exists [], []. cbn [app length]. rewrite Nat.add_0_r.
    repeat split; auto; try lia. destruct mx; cbn; auto; lia.
  - assert (Hcase : rep_more c mn mx g k (ch :: s) pos cp = Some out \/
                    (0 <? mn = false /\ k (ch :: s) pos cp = Some out)).
    { destruct (0 <? mn); [left; exact H|].
      destruct g.
      - destruct (rep_more _ _ _ _ _ _ _ _) eqn:E; [left; exact H|right; split; auto].
      - destruct (k (ch :: s) pos cp) eqn:E; [right; split; auto|left; exact H]. }
    clear H. destruct Hcase as [H | [Hmn Hk]].
    + unfold rep_more in H.
      destruct (match mx with Some 0 => false | _ => cmatch c ch end) eqn:Eg; [|discriminate].
      assert (Hc : cmatch c ch = true /\ mx <> Some 0).
      { destruct mx as [[|m]|]; try discriminate; split; auto; discriminate. }
      destruct Hc as [Hc Hmx].
      apply IH in H. destruct H as (w & rest & -> & HF & Hn & Hx & Hk).
      exists (ch :: w), rest. cbn [app length].
      split; [reflexivity|]. split; [constructor; auto|].
      split; [lia|]. split.
      * destruct mx as [[|m]|]; cbn in *; try lia; congruence.
      * replace (pos + S (length w)) with (S pos + length w) by lia. exact Hk.
    + apply Nat.ltb_ge in Hmn.
      exists [], (ch :: s). cbn [app length]. rewrite Nat.add_0_r.
      repeat split; auto; try lia. destruct mx; cbn; auto; lia.
Qed.

Lemma rep_compl c g k : forall w rest mn mx pos cp,
  Forall (fun ch => cmatch c ch = true) w -> mn <= length w -> mx_ok mx (length w) ->
  k rest (pos + length w) cp <> None ->
  rep c mn mx g k (w ++ rest) pos cp <> None.
Proof.
  induction w as [|ch w IH]; intros rest mn mx pos cp HF Hmn Hmx Hk; rewrite rep_eq.
  - cbn [length] in *. rewrite Nat.add_0_r in Hk. cbn [app].
    destruct (0 <? mn) eqn:E; [apply Nat.ltb_lt in E; lia|].
    destruct g.
    + destruct (rep_more _ _ _ _ _ _ _ _); [discriminate|exact Hk].
    + destruct (k rest pos cp); [discriminate|congruence].
  - inversion HF as [|? ? Hc HF']; subst.
    assert (Hm : rep_more c mn mx g k ((ch :: w) ++ rest) pos cp <> None).
    { unfold rep_more. cbn [app].
      assert (Eg : match mx with Some 0 => false | _ => cmatch c ch end = true).
      { destruct mx as [[|m]|]; cbn in Hmx; auto; lia. }
      rewrite Eg. apply IH; auto.
      - cbn [length] in Hmn. lia.
      - destruct mx as [[|m]|]; cbn in *; auto; lia.
      - replace (S pos + length w) with (pos + length (ch :: w)) by (cbn [length]; lia). exact Hk. }
    destruct (0 <? mn); [exact Hm|].
    destruct g.
    + destruct (rep_more _ _ _ _ _ _ _ _) eqn:E; [discriminate|congruence].
    + destruct (k _ pos cp); [discriminate|exact Hm].
Qed.

(* ---------- soundness of the matcher (with the captures invariant) ---------- *)

Definition caps_ok (T : nat) (cp : caps) : Prop := forall n a b, In (n, (a, b)) cp -> a <= b /\ b <= T.

Definition sound_re (r : re) : Prop := forall (k : K) s pos cp out,
  m_re r k s pos cp = Some out ->
  exists w rest cp', s = w ++ rest /\ den r pos w rest /\ k rest (pos + length w) cp' = Some out /\
                     (forall T, pos + length s = T -> caps_ok T cp -> caps_ok T cp').

Definition sound_seq (l : list re) : Prop := forall (k : K) s pos cp out,
  m_seq l k s pos cp = Some out ->
  exists w rest cp', s = w ++ rest /\ den_seq l pos w rest /\ k rest (pos + length w) cp' = Some out /\
                     (forall T, pos + length s = T -> caps_ok T cp -> caps_ok T cp').

Lemma sound_seq_of l : Forall sound_re l -> sound_seq l.
Proof.
  induction 1 as [|x t Hx _ IH]; intros k s pos cp out H.
  - cbn [m_seq] in H. exists [], s, cp. cbn [app length den_seq]. rewrite Nat.add_0_r.
    split; [reflexivity|]. split; [reflexivity|]. split; [exact H|]. intros; assumption.
  - cbn [m_seq] in H. apply Hx in H. destruct H as (w1 & s1 & cp1 & -> & D1 & H1 & C1).
    apply IH in H1. destruct H1 as (w2 & rest & cp2 & -> & D2 & H2 & C2).
    exists (w1 ++ w2), rest, cp2.
    split; [apply app_assoc|].
    split; [cbn [den_seq]; exists w1, w2; auto|].
    split; [rewrite app_length, Nat.add_assoc; exact H2|].
    intros T HT Hc. apply (C2 T).
    + rewrite app_length in HT. lia.
    + apply (C1 T); auto.
Qed.

Ltac rx_fin := repeat (split; [solve [auto] |]); intros; assumption.

Lemma rx_sound_re : forall r, sound_re r.
Proof.
  apply rx_re_ind.
  - intros c mn mx g k s pos cp out H. cbn [m_re] in H.
    apply rep_sound in H. destruct H as (w & rest & -> & HF & Hn & Hx & Hk).
    exists w, rest, cp. cbn [den]. rx_fin.
  - intros name body HB k s pos cp out H. rewrite rx_m_re_group in H.
    apply (sound_seq_of body HB) in H. destruct H as (w & rest & cp' & -> & D & Hk & C).
    exists w, rest, (match name with Some n => (n, (pos, pos + length w)) :: cp' | None => cp' end).
    split; [reflexivity|]. split; [rewrite rx_den_group; exact D|]. split; [exact Hk|].
    intros T HT Hc. specialize (C T HT Hc). destruct name as [n|]; [|exact C].
    intros n' a b [E|HIn]; [|eapply C; eauto].
    inversion E; subst. rewrite app_length. lia.
  - intros strict k s pos cp out H. cbn [m_re] in H.
    destruct s as [|ch [|ch2 s]]; try discriminate.
    + exists [], [], cp. cbn [app length den]. rewrite Nat.add_0_r. rx_fin.
    + destruct (negb strict && N.eqb ch 10) eqn:E; [|discriminate].
      apply andb_true_iff in E. destruct E as [E1 E2].
      apply negb_true_iff in E1. apply N.eqb_eq in E2. subst.
      exists [], [10%N], cp. cbn [app length den]. rewrite Nat.add_0_r. rx_fin.
  - intros k s pos cp out H. cbn [m_re] in H.
    destruct (Nat.eqb pos 0) eqn:E; [|discriminate]. apply Nat.eqb_eq in E.
    exists [], s, cp. cbn [app length den]. rewrite Nat.add_0_r. rx_fin.
Qed.

Lemma rx_sound_seq : forall l, sound_seq l.
Proof. intro l. apply sound_seq_of. apply rx_all_re. exact rx_sound_re. Qed.

(* ---------- completeness of the matcher ---------- *)

Definition compl_re (r : re) : Prop := forall (k : K) w rest pos cp,
  den r pos w rest -> (forall cp', k rest (pos + length w) cp' <> None) -> m_re r k (w ++ rest) pos cp <> None.

Definition compl_seq (l : list re) : Prop := forall (k : K) w rest pos cp,
  den_seq l pos w rest -> (forall cp', k rest (pos + length w) cp' <> None) -> m_seq l k (w ++ rest) pos cp <> None.

Lemma compl_seq_of l : Forall compl_re l -> compl_seq l.
Proof.
  induction 1 as [|x t Hx _ IH]; intros k w rest pos cp D Hk.
  - cbn [den_seq] in D. subst. cbn [m_seq app]. cbn [length] in Hk. rewrite Nat.add_0_r in Hk. apply Hk.
  - cbn [den_seq] in D. destruct D as (w1 & w2 & -> & D1 & D2).
    cbn [m_seq]. rewrite <- app_assoc. apply Hx; [exact D1|].
    intro cp'. apply IH; [exact D2|].
    intro cp''. rewrite <- Nat.add_assoc, <- app_length. apply Hk.
Qed.

Lemma rx_compl_re : forall r, compl_re r.
Proof.
  apply rx_re_ind.
  - intros c mn mx g k w rest pos cp D Hk. cbn [m_re]. cbn [den] in D. destruct D as (HF & Hn & Hx).
    apply rep_compl; auto.
  - intros name body HB k w rest pos cp D Hk. rewrite rx_m_re_group. rewrite rx_den_group in D.
    apply (compl_seq_of body HB); [exact D|]. intro cp'. apply Hk.
  - intros strict k w rest pos cp D Hk. cbn [den] in D. destruct D as [-> D].
    cbn [length] in Hk. rewrite Nat.add_0_r in Hk. cbn [m_re app].
    destruct D as [-> | [-> ->]]; [apply Hk|].
    cbn [negb andb]. change (N.eqb 10 10) with true. cbn iota. apply Hk.
  - intros k w rest pos cp D Hk. cbn [den] in D. destruct D as [-> ->].
    cbn [length] in Hk. cbn [m_re app Nat.eqb]. apply Hk.
Qed.

Lemma rx_compl_seq : forall l, compl_seq l.
Proof. intro l. apply compl_seq_of. apply rx_all_re. exact rx_compl_re. Qed.

(* ---------- the four statements used by props/C02de43.v ---------- *)

Lemma rx_match_iff : forall p s, (exists cp, re_match p s = Some cp) <-> matchable p s.
Proof.
  intros p s. split.
  - intros [cp H]. unfold re_match in H. apply rx_sound_seq in H.
    destruct H as (w & rest & cp' & E & D & _). exists w, rest. auto.
  - intros (w & rest & -> & D). unfold re_match.
    destruct (m_seq p (fun _ _ cp => Some cp) (w ++ rest) 0 []) as [cp|] eqn:E; [exists cp; reflexivity|].
    exfalso. revert E. apply rx_compl_seq; [exact D|]. intros cp'; discriminate.
Qed.

Lemma rx_cap_get_in : forall cp n se, cap_get cp n = Some se -> exists m, In (m, se) cp.
Proof.
  induction cp as [|[m se'] cp IH]; intros n se H; cbn [cap_get] in H; [discriminate|].
  destruct (str_eqb m n).
  - inversion H; subst. exists m. left; reflexivity.
  - apply IH in H. destruct H as [m' H]. exists m'. right; exact H.
Qed.

Lemma rx_captures_inside : forall p s cp n a b,
  re_match p s = Some cp -> cap_get cp n = Some (a, b) -> a <= b /\ b <= length s.
Proof.
  intros p s cp n a b H G. unfold re_match in H. apply rx_sound_seq in H.
  destruct H as (w & rest & cp' & E & D & Hk & C). inversion Hk; subst cp'.
  apply rx_cap_get_in in G. destruct G as [m G].
  apply (C (length s) eq_refl) in G; [exact G|].
  intros ? ? ? [].
Qed.

Lemma rx_de43_entries : forall d s gs n v,
  de43_fields d s = Some gs -> In (n, v) gs ->
  exists p a b, d = D43Re p /\ In n (regex_groups p) /\ a <= b /\ b <= length s /\
                (v = slice a b s \/ (n = de43_postcode /\ v = rstrip (slice a b s))).
Proof.
  intros d s gs n v H HIn. destruct d as [|p|]; cbn [de43_fields] in H.
  - inversion H; subst. destruct HIn.
  - destruct (re_match p s) as [cp|] eqn:E.
    + inversion H; subst; clear H. apply in_flat_map in HIn. destruct HIn as (n0 & Hn0 & HIn).
      destruct (cap_get cp n0) as [[a b]|] eqn:G; [|destruct HIn].
      destruct HIn as [HIn|[]]. inversion HIn; subst; clear HIn.
      destruct (rx_captures_inside _ _ _ _ _ _ E G) as [Hab Hb].
      exists p, a, b. split; [reflexivity|]. split; [exact Hn0|]. split; [exact Hab|]. split; [exact Hb|].
      destruct (str_eqb n de43_postcode) eqn:Es; [|left; reflexivity].
      apply rx_str_eqb_eq in Es.
      destruct (slice a b s) eqn:Sl; [left; reflexivity|right; split; [exact Es|reflexivity]].
    + inversion H; subst. destruct HIn.
  - discriminate.
Qed.

Lemma rx_de43_no_match : forall p s, ~ matchable p s -> de43_fields (D43Re p) s = Some [].
Proof.
  intros p s H. cbn [de43_fields]. destruct (re_match p s) as [cp|] eqn:E; [|reflexivity].
  exfalso. apply H. apply rx_match_iff. exists cp. exact E.
Qed.
