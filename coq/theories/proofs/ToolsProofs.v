(* ToolsProofs.v — proofs about the conversion tools (Tools.v): parameter files and IPM files converted from one
   encoding / format to another keep every record, and converting back reproduces the original file (C19). *)
From Coq Require Import List Arith NArith ZArith Lia Bool.
From Coq Require Import Strings.Byte.
Require Import CU.model.Prim CU.model.Types CU.model.Unicode CU.model.Codec CU.model.Dates CU.model.Block CU.model.Vbs
               CU.model.Iso CU.model.Ipm CU.model.Tools.
Require Import CU.model.Dec.
Require Import CU.spec.FramingSpec CU.spec.IsoSpec.
Require Import CU.proofs.NumProofs CU.proofs.BlockProofs CU.proofs.VbsProofs CU.proofs.PdsProofs CU.proofs.IsoWire CU.proofs.IsoRoundtrip CU.proofs.IpmProofs.
Require CU.gen.GenConfig CU.gen.GenCodec.
Import ListNotations.
Open Scope nat_scope.

(* ====================================================================== the domain of C19 (used by props/C19.v) *)

(* codecs between which conversion loses nothing: total, injective tables with the same repertoire *)
Definition totalb (c : codec) : bool := forallb (fun o => match o with Some _ => true | None => false end) (ctable c).
Definition covers (a b : codec) : bool :=      (* every character of a is encodable in b *)
  forallb (fun o => match o with Some ch => match cenc b ch with Some _ => true | None => false end | None => true end) (ctable a).
Definition compatibleb (a b : codec) : bool :=
  codec_injb a && codec_injb b && totalb a && totalb b && covers a b && covers b a.

(* configurations under which the IPM conversion tool preserves records: no element has a PAN or PAN-PREFIX
   processor.  Such a processor makes the READER return a masked / truncated value, which the writer would then
   write back in place of the original digits (the conversion tools read with the packaged configuration minus the
   PDS processors, so the masking is applied).  Nothing else is needed: PDS carriers are read as plain text by
   [cfg_nopds], ICC data is re-written from the raw bytes, integers and dates re-render to the same text. *)
Definition convertible_cfgb (cfg : cfgT) : bool :=
  forallb (fun bc => negb (proc_eqb (f_proc (snd bc)) PPAN || proc_eqb (f_proc (snd bc)) PPANPREFIX)) cfg.

(* ====================================================================== codecs *)

Lemma tp_find_idx_notin : forall t ch i acc,
  existsb (fun y => match y with Some z => (z =? ch)%N | None => false end) t = false ->
  find_idx t ch i acc = acc.
Proof.
  induction t as [|o r IH]; intros ch i acc H; [reflexivity|].
  cbn [existsb] in H. apply orb_false_iff in H. destruct H as [H1 H2].
  destruct o as [x|]; cbn [find_idx].
  - rewrite H1. apply IH. exact H2.
  - apply IH. exact H2.
Qed.

(* in a table without repeated code points the encoder finds THE position of the code point *)
Lemma tp_find_idx_nodup : forall t ch k i acc, nodup_opt t = true -> nth_error t k = Some (Some ch) ->
  find_idx t ch i acc = Some (i + N.of_nat k)%N.
Proof.
  induction t as [|o r IH]; intros ch k i acc Hn Hk.
  - destruct k; discriminate.
  - destruct k as [|k]; cbn [nth_error] in Hk.
    + inversion Hk; subst o. cbn [nodup_opt] in Hn. apply andb_true_iff in Hn. destruct Hn as [Hn1 Hn2].
      apply negb_true_iff in Hn1. cbn [find_idx]. rewrite N.eqb_refl.
      rewrite tp_find_idx_notin by exact Hn1. f_equal. lia.
    + destruct o as [x|]; cbn [nodup_opt] in Hn; cbn [find_idx].
      * apply andb_true_iff in Hn. destruct Hn as [_ Hn2].
        rewrite (IH ch k _ _ Hn2 Hk). f_equal. lia.
      * rewrite (IH ch k _ _ Hn Hk). f_equal. lia.
Qed.

Lemma tp_byte_of_to_N : forall x, byte_of_N (Byte.to_N x) = x.
Proof.
  intros x. unfold byte_of_N. pose proof (Byte.to_N_bounded x) as Hb.
  rewrite N.mod_small by lia. rewrite Byte.of_to_N. reflexivity.
Qed.

Lemma tp_cdec_nth_error : forall cd x ch, cdec cd x = Some ch ->
  nth_error (ctable cd) (N.to_nat (Byte.to_N x)) = Some (Some ch).
Proof.
  intros cd x ch H. unfold cdec in H.
  destruct (nth_error (ctable cd) (N.to_nat (Byte.to_N x))) as [o|] eqn:E.
  - rewrite (nth_error_nth _ _ None E) in H. subst o. reflexivity.
  - apply nth_error_None in E. rewrite nth_overflow in H by exact E. discriminate.
Qed.

Lemma tp_cenc_cdec : forall cd x ch, codec_injb cd = true -> cdec cd x = Some ch -> cenc cd ch = Some x.
Proof.
  intros cd x ch Hinj H. unfold codec_injb in Hinj. apply andb_true_iff in Hinj. destruct Hinj as [_ Hn].
  apply tp_cdec_nth_error in H. unfold cenc.
  rewrite (tp_find_idx_nodup _ _ _ 0%N None Hn H). cbn [option_map]. f_equal.
  rewrite N.add_0_l, N2Nat.id. apply tp_byte_of_to_N.
Qed.

(* re-encoding what was decoded gives the bytes back *)
Lemma encode_decode_inj : forall cd b s, codec_injb cd = true -> decode cd b = Ok s -> encode cd s = Ok b.
Proof.
  intros cd b. induction b as [|x r IH]; intros s Hinj H.
  - cbn [decode] in H. inversion H. reflexivity.
  - apply np_decode_cons_inv in H. destruct H as [ch [t [H1 [H2 H3]]]]. subst s.
    rewrite np_encode_cons, (tp_cenc_cdec cd x ch Hinj H1), (IH t Hinj H2). reflexivity.
Qed.

Lemma tp_injb_okb : forall cd, codec_injb cd = true -> codec_okb cd = true.
Proof. intros cd H. unfold codec_injb in H. apply andb_true_iff in H. exact (proj1 H). Qed.

(* a total table decodes every byte *)
Lemma tp_total_cdec : forall cd x, codec_okb cd = true -> totalb cd = true -> exists ch, cdec cd x = Some ch.
Proof.
  intros cd x Hok Ht. unfold codec_okb in Hok. apply Nat.eqb_eq in Hok.
  pose proof (Byte.to_N_bounded x) as Hb.
  destruct (nth_error (ctable cd) (N.to_nat (Byte.to_N x))) as [o|] eqn:E.
  - unfold totalb in Ht. rewrite forallb_forall in Ht. pose proof (Ht o (nth_error_In _ _ E)) as Ho.
    destruct o as [ch|]; [|discriminate]. exists ch. unfold cdec. apply (nth_error_nth _ _ None E).
  - apply nth_error_None in E. lia.
Qed.

Lemma tp_total_decode : forall cd b, codec_okb cd = true -> totalb cd = true -> exists s, decode cd b = Ok s.
Proof.
  intros cd b Hok Ht. induction b as [|x r IH].
  - exists []. reflexivity.
  - destruct IH as [t Hd]. destruct (tp_total_cdec cd x Hok Ht) as [ch Hc].
    exists (ch :: t). rewrite np_decode_cons, Hc, Hd. reflexivity.
Qed.

(* whatever table a holds, table b can encode *)
Lemma tp_covers_in : forall a b ch, covers a b = true -> In (Some ch) (ctable a) -> exists x, cenc b ch = Some x.
Proof.
  intros a b ch Hc Hin. unfold covers in Hc. rewrite forallb_forall in Hc. specialize (Hc _ Hin). cbv beta iota in Hc.
  destruct (cenc b ch) as [x|]; [|discriminate]. exists x. reflexivity.
Qed.

Lemma tp_cenc_in : forall cd ch x, cenc cd ch = Some x -> In (Some ch) (ctable cd).
Proof.
  intros cd ch x H. unfold cenc in H.
  destruct (find_idx (ctable cd) ch 0%N None) as [j|] eqn:E; [|discriminate].
  apply np_find_idx_spec in E. destruct E as [E|[H1 [H2 H3]]]; [discriminate|].
  rewrite <- H3. apply nth_In. lia.
Qed.

Lemma tp_covers_encodable : forall a b s, covers a b = true -> encodable a s = true -> encodable b s = true.
Proof.
  intros a b s Hc H. unfold encodable in *. rewrite forallb_forall in *. intros ch Hin.
  specialize (H ch Hin). destruct (cenc a ch) as [x|] eqn:E; [|discriminate].
  destruct (tp_covers_in a b ch Hc (tp_cenc_in a ch x E)) as [y Hy]. rewrite Hy. reflexivity.
Qed.

Lemma tp_decoded_encodable : forall cd b s, decode cd b = Ok s -> Forall (fun ch => In (Some ch) (ctable cd)) s.
Proof.
  intros cd b. induction b as [|x r IH]; intros s H.
  - cbn [decode] in H. inversion H. constructor.
  - apply np_decode_cons_inv in H. destruct H as [ch [t [H1 [H2 H3]]]]. subst s.
    constructor; [|apply IH; exact H2]. apply tp_cdec_nth_error in H1. apply (nth_error_In _ _ H1).
Qed.

Lemma tp_covers_encode : forall a b s, covers a b = true -> Forall (fun ch => In (Some ch) (ctable a)) s ->
  exists r, encode b s = Ok r.
Proof.
  intros a b s Hc H. apply encodable_encode. unfold encodable. apply forallb_forall. intros ch Hin.
  rewrite Forall_forall in H. destruct (tp_covers_in a b ch Hc (H ch Hin)) as [y Hy]. rewrite Hy. reflexivity.
Qed.

Lemma tp_compatible_parts : forall a b, compatibleb a b = true ->
  codec_injb a = true /\ codec_injb b = true /\ totalb a = true /\ totalb b = true /\
  covers a b = true /\ covers b a = true.
Proof.
  intros a b H. unfold compatibleb in H.
  apply andb_true_iff in H. destruct H as [H H6]. apply andb_true_iff in H. destruct H as [H H5].
  apply andb_true_iff in H. destruct H as [H H4]. apply andb_true_iff in H. destruct H as [H H3].
  apply andb_true_iff in H. destruct H as [H1 H2]. auto 6.
Qed.

Lemma tp_compatible_sym : forall a b, compatibleb a b = true -> compatibleb b a = true.
Proof.
  intros a b H. destruct (tp_compatible_parts a b H) as (H1 & H2 & H3 & H4 & H5 & H6).
  unfold compatibleb. rewrite H1, H2, H3, H4, H5, H6. reflexivity.
Qed.

(* one record through the parameter conversion: it always recodes, to the same length and the same text, and
   recoding back returns the original bytes *)
Lemma tp_recode_one : forall a b r, compatibleb a b = true ->
  exists s r', decode a r = Ok s /\ encode b s = Ok r' /\ length r' = length r /\
               decode b r' = Ok s /\ encode a s = Ok r.
Proof.
  intros a b r H. destruct (tp_compatible_parts a b H) as (Ia & Ib & Ta & Tb & Cab & Cba).
  destruct (tp_total_decode a r (tp_injb_okb a Ia) Ta) as [s Hs].
  destruct (tp_covers_encode a b s Cab (tp_decoded_encodable a r s Hs)) as [r' Hr'].
  exists s, r'. split; [exact Hs|]. split; [exact Hr'|]. split.
  - rewrite (encode_length _ _ _ Hr'). apply (decode_length _ _ _ Hs).
  - split; [apply (decode_encode b s r' (tp_injb_okb b Ib) Hr')|apply (encode_decode_inj a r s Ia Hs)].
Qed.

Definition tp_same_text (a b : codec) (r r' : bytes) : Prop := exists s, decode a r = Ok s /\ decode b r' = Ok s.

Lemma tp_recode_all : forall a b rs, compatibleb a b = true ->
  exists rs', recode_all a b rs = Ok rs' /\ recode_all b a rs' = Ok rs /\
              Forall2 (tp_same_text a b) rs rs' /\ Forall2 (fun r r' => length r' = length r) rs rs'.
Proof.
  intros a b rs H. induction rs as [|r rs IH].
  - exists []. repeat split; constructor.
  - destruct IH as (rs' & H1 & H2 & H3 & H4).
    destruct (tp_recode_one a b r H) as (s & r' & D1 & E1 & L & D2 & E2).
    exists (r' :: rs'). cbn [recode_all]. rewrite D1, D2. cbn [bind]. rewrite E1, E2. cbn [bind].
    rewrite H1, H2. cbn [bind]. split; [reflexivity|]. split; [reflexivity|]. split.
    + constructor; [|exact H3]. exists s. auto.
    + constructor; assumption.
Qed.

Lemma tp_wf_rec_len : forall maxlen rs rs', Forall2 (fun r r' : bytes => length r' = length r) rs rs' ->
  Forall (wf_rec maxlen) rs -> Forall (wf_rec maxlen) rs'.
Proof.
  intros maxlen rs rs' H. induction H as [|r r' rs rs' L H IH]; intros Hwf; [constructor|].
  inversion Hwf as [|x l Hr Hrs]; subst. constructor; [|apply IH; exact Hrs].
  unfold wf_rec in *. rewrite L. exact Hr.
Qed.

(* ====================================================================== C19, parameter files *)
Section ParamFiles.
Variable B : nat.
Hypothesis Bpos : 0 < B.
Variable maxlen : N.
Hypothesis maxlen_ok : (maxlen < 2 ^ 32)%N.

Definition tp_written (blocked : bool) (rs : list bytes) : bytes :=
  file_of (writer_run B blocked (map WWrite rs ++ [WClose])).

Lemma tp_pconvert : forall cdA cdB fa fb rs rs', Forall (wf_rec maxlen) rs -> recode_all cdA cdB rs = Ok rs' ->
  pconvert B maxlen cdA cdB fa fb (tp_written fa rs) = Ok (tp_written fb rs').
Proof.
  intros cdA cdB fa fb rs rs' Hwf Hr. unfold pconvert, tp_written.
  rewrite (c03_roundtrip B Bpos maxlen maxlen_ok fa rs Hwf). cbn [bind fst snd]. rewrite Hr. reflexivity.
Qed.

Lemma c19_param_records : forall cdA cdB fa fb rs,
  compatibleb cdA cdB = true -> Forall (wf_rec maxlen) rs ->
  exists rs', pconvert B maxlen cdA cdB fa fb (file_of (writer_run B fa (map WWrite rs ++ [WClose])))
              = Ok (file_of (writer_run B fb (map WWrite rs' ++ [WClose]))) /\
              Forall2 (fun r r' => exists s, decode cdA r = Ok s /\ decode cdB r' = Ok s) rs rs'.
Proof.
  intros cdA cdB fa fb rs Hc Hwf.
  destruct (tp_recode_all cdA cdB rs Hc) as (rs' & H1 & _ & H3 & _).
  exists rs'. split; [apply (tp_pconvert cdA cdB fa fb rs rs' Hwf H1)|exact H3].
Qed.

Lemma tp_ok_inj : forall {A} (x y : A), Ok x = Ok y -> x = y.
Proof. intros A x y H. inversion H. reflexivity. Qed.

Lemma c19_param_reversible : forall cdA cdB fa fb rs out,
  compatibleb cdA cdB = true -> Forall (wf_rec maxlen) rs ->
  pconvert B maxlen cdA cdB fa fb (file_of (writer_run B fa (map WWrite rs ++ [WClose]))) = Ok out ->
  pconvert B maxlen cdB cdA fb fa out = Ok (file_of (writer_run B fa (map WWrite rs ++ [WClose]))).
Proof.
  intros cdA cdB fa fb rs out Hc Hwf Hout.
  destruct (tp_recode_all cdA cdB rs Hc) as (rs' & H1 & H2 & _ & H4).
  pose proof (tp_pconvert cdA cdB fa fb rs rs' Hwf H1) as Hf. unfold tp_written in Hf.
  rewrite Hf in Hout. apply tp_ok_inj in Hout. subst out.
  apply (tp_pconvert cdB cdA fb fa rs' rs); [|exact H2].
  apply (tp_wf_rec_len maxlen rs rs' H4 Hwf).
Qed.
End ParamFiles.

(* ====================================================================== C19, IPM files *)

(* ---------- the reading configuration of the tools: PDS processors removed ---------- *)
Definition tp_noproc (c : fieldcfg) : fieldcfg :=
  if proc_eqb (f_proc c) PPDS then mkfc (f_type c) (f_len c) (f_ptype c) (f_datefmt c) PNone (f_de43 c) else c.

Lemma tp_cfg_get_nopds : forall cfg b, cfg_get (cfg_nopds cfg) b = option_map tp_noproc (cfg_get cfg b).
Proof.
  induction cfg as [|[b0 c0] r IH]; intros b; [reflexivity|].
  unfold cfg_nopds in *. cbn [map fst snd cfg_get]. destruct (Nat.eqb b0 b); [reflexivity|apply IH].
Qed.

Lemma tp_noproc_proj : forall c, f_type (tp_noproc c) = f_type c /\ f_len (tp_noproc c) = f_len c /\
  f_ptype (tp_noproc c) = f_ptype c /\ f_datefmt (tp_noproc c) = f_datefmt c.
Proof. intros c. unfold tp_noproc. destruct (proc_eqb (f_proc c) PPDS); auto. Qed.

Lemma tp_noproc_de43 : forall c, f_de43 (tp_noproc c) = f_de43 c.
Proof. intros c. unfold tp_noproc. destruct (proc_eqb (f_proc c) PPDS); reflexivity. Qed.

Lemma tp_noproc_proc : forall c, f_proc (tp_noproc c) = match f_proc c with PPDS => PNone | p => p end.
Proof. intros c. unfold tp_noproc. destruct (f_proc c) eqn:E; cbn [proc_eqb]; try exact E; reflexivity. Qed.

Lemma tp_field_to_iso_noproc : forall c v cd, field_to_iso (tp_noproc c) v cd = field_to_iso c v cd.
Proof. intros c v cd. unfold tp_noproc. destruct (proc_eqb (f_proc c) PPDS); reflexivity. Qed.

Lemma tp_enc_fields_nopds : forall cfg cd m bits, enc_fields (cfg_nopds cfg) cd m bits = enc_fields cfg cd m bits.
Proof.
  intros cfg cd m. induction bits as [|b bs IH]; [reflexivity|].
  cbn [enc_fields]. rewrite IH, tp_cfg_get_nopds.
  destruct (lookup m (KDE b)) as [v|]; [|reflexivity].
  destruct (truthy v); [|reflexivity].
  destruct (cfg_get cfg b) as [c|]; cbn [option_map]; [|reflexivity].
  rewrite tp_field_to_iso_noproc. reflexivity.
Qed.

Lemma tp_len_okb_noproc : forall c n, len_okb (tp_noproc c) n = len_okb c n.
Proof.
  intros c n. unfold len_okb. destruct (tp_noproc_proj c) as (H1 & H2 & _). rewrite H1, H2. reflexivity.
Qed.

Lemma tp_wf_fieldb_noproc : forall c, wf_fieldb c = true -> wf_fieldb (tp_noproc c) = true.
Proof.
  intros c H. unfold wf_fieldb, de43_for_text in *. destruct (tp_noproc_proj c) as (H1 & H2 & H3 & H4).
  rewrite H1, H2, H3, H4, tp_noproc_proc, ?tp_noproc_de43.
  destruct (f_len c) as [n|]; [|discriminate].
  destruct (f_ptype c); destruct (f_proc c); try exact H; try discriminate H;
    try (rewrite andb_false_r in H; discriminate H); reflexivity.
Qed.

Lemma tp_wf_valb_noproc : forall c cd v, wf_valb c cd v = true -> wf_valb (tp_noproc c) cd v = true.
Proof.
  intros c cd v H. unfold wf_valb in *. destruct (tp_noproc_proj c) as (H1 & H2 & H3 & H4).
  rewrite H2, H3, H4, tp_noproc_proc.
  destruct (f_ptype c); destruct v as [s|z|b|d]; try discriminate H.
  - destruct (f_proc c); try discriminate H; rewrite ?tp_len_okb_noproc; try exact H.
    apply andb_true_iff in H. exact (proj1 H).
  - destruct (f_proc c); try discriminate H; rewrite ?tp_len_okb_noproc; exact H.
  - destruct (f_len c) as [w|]; [|discriminate H]. rewrite tp_len_okb_noproc. exact H.
  - destruct (f_len c) as [w|]; [|discriminate H]. destruct (dec_parse s) as [d0| |]; try discriminate H.
    rewrite tp_len_okb_noproc. exact H.
  - destruct (strftime_m (f_datefmt c) d) as [s| | |]; rewrite ?tp_len_okb_noproc; exact H.
Qed.

Lemma tp_wf_fields_nopds : forall cfg cd m bits, ir_wf_fields cfg cd m bits -> ir_wf_fields (cfg_nopds cfg) cd m bits.
Proof.
  intros cfg cd m bits H b v Hb Hl. destruct (H b v Hb Hl) as (c & Hc & Hwc & Hwv).
  exists (tp_noproc c). rewrite tp_cfg_get_nopds, Hc. split; [reflexivity|].
  split; [apply tp_wf_fieldb_noproc; exact Hwc|apply tp_wf_valb_noproc; exact Hwv].
Qed.

(* ---------- well-formedness does not depend on the codec when the repertoires agree ---------- *)
Lemma tp_wf_valb_codec : forall a b c v, (forall s, encodable a s = true -> encodable b s = true) ->
  wf_valb c a v = true -> wf_valb c b v = true.
Proof.
  intros a b c v He H. unfold wf_valb in *.
  destruct (f_ptype c); destruct v as [s|z|bs|d]; try discriminate H.
  - destruct (f_proc c); try discriminate H;
      repeat (apply andb_true_iff in H; let H' := fresh "H" in destruct H as [H H']);
      repeat (apply andb_true_iff; split); try assumption; apply He; assumption.
  - exact H.
  - destruct (f_len c) as [w|]; [|discriminate H].
    apply andb_true_iff in H. destruct H as [H H2]. rewrite H. cbn [andb]. apply He. exact H2.
  - destruct (f_len c) as [w|]; [|discriminate H]. destruct (dec_parse s) as [d0| |]; try discriminate H.
    apply andb_true_iff in H. destruct H as [H H2]. rewrite H. cbn [andb]. apply He. exact H2.
  - apply andb_true_iff in H. destruct H as [H H2]. rewrite H. cbn [andb].
    destruct (strftime_m (f_datefmt c) d) as [s| | |]; try discriminate H2.
    apply andb_true_iff in H2. destruct H2 as [H2 H3]. rewrite H2. cbn [andb]. apply He. exact H3.
Qed.

Lemma tp_wf_fields_codec : forall a b cfg m bits, (forall s, encodable a s = true -> encodable b s = true) ->
  ir_wf_fields cfg a m bits -> ir_wf_fields cfg b m bits.
Proof.
  intros a b cfg m bits He H n v Hn Hl. destruct (H n v Hn Hl) as (c & Hc & Hwc & Hwv).
  exists c. split; [exact Hc|]. split; [exact Hwc|]. apply (tp_wf_valb_codec a b c v He Hwv).
Qed.

(* ---------- the decoded entries are a function of the configuration and the packed message ---------- *)
Lemma tp_ent_of_det : forall cfg m b es1 es2, ir_ent_of cfg m b es1 -> ir_ent_of cfg m b es2 -> es1 = es2.
Proof.
  intros cfg m b es1 es2 (c1 & v1 & C1 & V1 & F1) (c2 & v2 & C2 & V2 & F2).
  rewrite C1 in C2. inversion C2; subst c2. rewrite V1 in V2. inversion V2; subst v2.
  apply (ir_fent_det b c1 v1); assumption.
Qed.

Lemma tp_ents_det : forall cfg m l e1 e2, Forall2 (ir_ent_of cfg m) l e1 -> Forall2 (ir_ent_of cfg m) l e2 -> e1 = e2.
Proof.
  intros cfg m l e1 e2 H. revert e2. induction H as [|b es l e1 Hb H IH]; intros e2 H2.
  - inversion H2. reflexivity.
  - inversion H2 as [|b' es' l' e2' Hb' H2']; subst. f_equal; [apply (tp_ent_of_det cfg m b); assumption|apply IH; exact H2'].
Qed.

(* ---------- what the encoder looks at ---------- *)
Definition tp_eff (m : dict) (b : nat) : option value :=
  match lookup m (KDE b) with Some v => if truthy v then Some v else None | None => None end.

Lemma tp_enc_fields_ext : forall cfg cd m m' bits, (forall b, In b bits -> tp_eff m b = tp_eff m' b) ->
  enc_fields cfg cd m bits = enc_fields cfg cd m' bits.
Proof.
  intros cfg cd m m'. induction bits as [|b bs IH]; intros H; [reflexivity|].
  cbn [enc_fields]. rewrite IH by (intros b' Hb'; apply H; right; exact Hb').
  pose proof (H b (or_introl eq_refl)) as Hb. unfold tp_eff in Hb.
  destruct (lookup m (KDE b)) as [v|]; destruct (lookup m' (KDE b)) as [v'|].
  - destruct (truthy v) eqn:Tv; destruct (truthy v') eqn:Tv'; try discriminate Hb; [|reflexivity].
    inversion Hb; subst v'. reflexivity.
  - destruct (truthy v); [discriminate Hb|reflexivity].
  - destruct (truthy v'); [discriminate Hb|reflexivity].
  - reflexivity.
Qed.

Lemma tp_no_pds_entries : forall d, (forall t v, ~ In (KPDS t, v) d) -> pds_entries d = [].
Proof.
  induction d as [|[k v] r IH]; intros H; [reflexivity|].
  unfold pds_entries in *. cbn [flat_map fst snd].
  rewrite IH by (intros t x Hx; apply (H t x); right; exact Hx).
  destruct k; try reflexivity. exfalso. apply (H tag v). left. reflexivity.
Qed.

(* ---------- configurations whose decoder returns every element as it was written ---------- *)
Definition tp_plain (cfg : cfgT) : Prop :=
  forall n c, cfg_get cfg n = Some c -> f_proc c <> PPDS /\ f_proc c <> PPAN /\ f_proc c <> PPANPREFIX.

Lemma tp_plain_nopds : forall cfg, convertible_cfgb cfg = true -> tp_plain (cfg_nopds cfg).
Proof.
  intros cfg H n c Hc. rewrite tp_cfg_get_nopds in Hc.
  destruct (cfg_get cfg n) as [c0|] eqn:E; [|discriminate]. cbn [option_map] in Hc. inversion Hc; subst c.
  apply ir_cfg_get_in in E. unfold convertible_cfgb in H. rewrite forallb_forall in H. specialize (H _ E).
  cbn [snd] in H. rewrite tp_noproc_proc. destruct (f_proc c0); try discriminate H; repeat split; discriminate.
Qed.

Lemma tp_fexp_plain : forall c v, f_proc c <> PPAN -> f_proc c <> PPANPREFIX -> ir_fexp c v = v.
Proof.
  intros c v H1 H2. unfold ir_fexp. destruct v; try reflexivity. destruct (f_proc c); try reflexivity; contradiction.
Qed.

(* keys the encoder never looks at: ICC sub-elements and the named groups of a DE43 splitting pattern *)
Definition tp_side_key (k : key) : bool := match k with KTAG _ | KICC | KOther _ => true | _ => false end.

(* the dictionary read with a plain configuration: the MTI, exactly the elements that were encoded, no PDS keys *)
Lemma tp_plain_dict : forall cfg m1 mti ents, tp_plain cfg ->
  Forall2 (ir_ent_of cfg m1) (filter (ir_pres m1) bit_range) ents ->
  lookup (dupdate [(KMTI, VStr mti)] (concat ents)) KMTI = Some (VStr mti) /\
  (forall t v, ~ In (KPDS t, v) (dupdate [(KMTI, VStr mti)] (concat ents))) /\
  (forall b, In b bit_range -> tp_eff (dupdate [(KMTI, VStr mti)] (concat ents)) b = tp_eff m1 b).
Proof.
  intros cfg m1 mti ents Hpl Hents.
  assert (HE : forall k x, In (k, x) (concat ents) ->
            (exists b, ir_pres m1 b = true /\ lookup m1 (KDE b) = Some x /\ k = KDE b) \/ tp_side_key k = true).
  { intros k x Hin.
    destruct (ir_forall2_concat_in _ _ _ _ Hents Hin) as [b [es [Hb [[c [v [Hc [Hv Hf]]]] Hx]]]].
    apply filter_In in Hb. destruct Hb as [_ Hb].
    destruct (Hpl b c Hc) as (P1 & P2 & P3).
    destruct (ir_fent_in _ _ _ _ _ _ Hf Hx) as [[K1 K2]|[[K _]|[K|[p0 [n0 [_ [_ [K _]]]]]]]].
    - left. exists b. rewrite (tp_fexp_plain c v P2 P3) in K2. subst x. auto.
    - contradiction.
    - right. destruct k; try discriminate K; reflexivity.
    - right. subst k. reflexivity. }
  split; [|split].
  - rewrite ir_lookup_dupdate_notin.
    + cbn [lookup key_eqb]. reflexivity.
    + intros x Hx. destruct (HE _ _ Hx) as [[b [_ [_ K]]]|K]; discriminate.
  - intros t v Hin. apply ir_in_dupdate in Hin. destruct Hin as [Hin|Hin].
    + destruct Hin as [Hin|[]]. discriminate.
    + destruct (HE _ _ Hin) as [[b [_ [_ K]]]|K]; discriminate.
  - intros b Hb. unfold tp_eff. destruct (ir_pres m1 b) eqn:Ep.
    + pose proof Ep as Ep'. unfold ir_pres in Ep'. destruct (lookup m1 (KDE b)) as [v|] eqn:El; [|discriminate].
      rewrite Ep'.
      assert (Hpres : In b (filter (ir_pres m1) bit_range)) by (apply filter_In; auto).
      destruct (ir_forall2_concat_of _ _ _ _ Hents Hpres) as [es [[c [v' [Hc [Hv' Hf]]]] Hsub]].
      rewrite El in Hv'. inversion Hv'; subst v'.
      destruct (Hpl b c Hc) as (P1 & P2 & P3).
      pose proof (ir_fent_kde _ _ _ _ Hf) as Hk. rewrite (tp_fexp_plain c v P2 P3) in Hk.
      rewrite (ir_lookup_dupdate_unique (concat ents) [(KMTI, VStr mti)] (KDE b) v).
      * rewrite Ep'. reflexivity.
      * apply Hsub. exact Hk.
      * intros x Hx. destruct (HE _ _ Hx) as [[b' [_ [Hl K]]]|K]; [|discriminate].
        inversion K; subst b'. rewrite El in Hl. inversion Hl. reflexivity.
    + rewrite ir_lookup_dupdate_notin.
      * cbn [lookup key_eqb]. unfold ir_pres in Ep. destruct (lookup m1 (KDE b)) as [v|]; [|reflexivity].
        rewrite Ep. reflexivity.
      * intros x Hx. destruct (HE _ _ Hx) as [[b' [Hp' [_ K]]]|K]; [|discriminate].
        inversion K; subst b'. congruence.
Qed.

(* writing such a dictionary with the full configuration encodes the packed message again *)
Lemma tp_redump : forall cfgN cfg cd m1 mti ents pl body mb, tp_plain cfgN ->
  Forall2 (ir_ent_of cfgN m1) (filter (ir_pres m1) bit_range) ents ->
  enc_fields cfg cd m1 bit_range = Ok (pl, body) -> mti <> [] -> encode cd mti = Ok mb ->
  dumps cfg cd false (dupdate [(KMTI, VStr mti)] (concat ents)) = Ok (mb ++ ir_bmb false (bitmap_of pl) ++ body).
Proof.
  intros cfgN cfg cd m1 mti ents pl body mb Hpl Hents He Hne Hmb.
  destruct (tp_plain_dict cfgN m1 mti ents Hpl Hents) as (D1 & D2 & D3).
  apply (ir_dumps_eq cfg cd false _ [] (dupdate [(KMTI, VStr mti)] (concat ents)) pl body mti mb).
  - unfold pds_to_de. rewrite (tp_no_pds_entries _ D2). reflexivity.
  - reflexivity.
  - rewrite (tp_enc_fields_ext cfg cd _ m1 bit_range D3). exact He.
  - exact D1.
  - exact Hne.
  - exact Hmb.
Qed.

(* ---------- lengths on the wire do not depend on the codec ---------- *)
Lemma tp_field_len : forall c v cdA cdB eA eB, field_to_iso c v cdA = Ok eA -> field_to_iso c v cdB = Ok eB ->
  length eA = length eB.
Proof.
  intros c v cdA cdB eA eB HA HB. rewrite ir_field_to_iso_eq in HA, HB.
  destruct (pytype_to_string v c) as [fv| | |]; try discriminate HA. cbn [bind] in HA, HB.
  destruct fv as [s|z|b|d]; try discriminate HA.
  - unfold ir_enc_str in HA, HB. cbv zeta in HA, HB.
    destruct (0 <? psize (f_type c)).
    + destruct (10 ^ N.of_nat (psize (f_type c)) <=? N.of_nat (length s))%N; [discriminate HA|].
      apply iw_bind_ok in HA. destruct HA as [pA [HA1 HA]]. apply iw_bind_ok in HA. destruct HA as [bA [HA2 HA]].
      apply iw_bind_ok in HB. destruct HB as [pB [HB1 HB]]. apply iw_bind_ok in HB. destruct HB as [bB [HB2 HB]].
      apply tp_ok_inj in HA. apply tp_ok_inj in HB. subst eA eB. rewrite !app_length.
      rewrite (encode_length _ _ _ HA1), (encode_length _ _ _ HA2), (encode_length _ _ _ HB1), (encode_length _ _ _ HB2).
      reflexivity.
    + destruct (f_len c) as [n|]; [|discriminate HA].
      rewrite (encode_length _ _ _ HA), (encode_length _ _ _ HB). reflexivity.
  - unfold ir_enc_bytes in HA, HB. cbv zeta in HA, HB.
    destruct (0 <? psize (f_type c)).
    + destruct (10 ^ N.of_nat (psize (f_type c)) <=? N.of_nat (length b))%N; [discriminate HA|].
      apply iw_bind_ok in HA. destruct HA as [pA [HA1 HA]].
      apply iw_bind_ok in HB. destruct HB as [pB [HB1 HB]].
      apply tp_ok_inj in HA. apply tp_ok_inj in HB. subst eA eB. rewrite !app_length.
      rewrite (encode_length _ _ _ HA1), (encode_length _ _ _ HB1). reflexivity.
    + destruct (f_len c) as [n|]; [|discriminate HA].
      apply tp_ok_inj in HA. apply tp_ok_inj in HB. subst eA eB. reflexivity.
Qed.

Lemma tp_enc_fields_len : forall cfg cdA cdB m bits rA rB,
  enc_fields cfg cdA m bits = Ok rA -> enc_fields cfg cdB m bits = Ok rB -> length (snd rA) = length (snd rB).
Proof.
  intros cfg cdA cdB m. induction bits as [|b bs IH]; intros rA rB HA HB.
  - cbn [enc_fields] in HA, HB. apply tp_ok_inj in HA. apply tp_ok_inj in HB. subst rA rB. reflexivity.
  - cbn [enc_fields] in HA, HB.
    destruct (lookup m (KDE b)) as [v|]; [|apply (IH _ _ HA HB)].
    destruct (truthy v); [|apply (IH _ _ HA HB)].
    destruct (cfg_get cfg b) as [c|]; [|discriminate HA].
    apply iw_bind_ok in HA. destruct HA as [eA [HA1 HA]]. apply iw_bind_ok in HA. destruct HA as [tA [HA2 HA]].
    apply iw_bind_ok in HB. destruct HB as [eB [HB1 HB]]. apply iw_bind_ok in HB. destruct HB as [tB [HB2 HB]].
    apply tp_ok_inj in HA. apply tp_ok_inj in HB. subst rA rB. cbn [snd]. rewrite !app_length.
    rewrite (tp_field_len c v cdA cdB eA eB HA1 HB1), (IH _ _ HA2 HB2). reflexivity.
Qed.

(* ---------- the packed message of a well-formed message (what dumps hands to the element encoder) ---------- *)
Lemma tp_packed : forall cfg cd m, wf_cfgb cfg = true -> wf_msgb cfg cd m = true ->
  exists cs m1 mti, pds_to_de m = Ok cs /\ assign_pds m cs (pds_bits cfg) = Ok m1 /\
    lookup m KMTI = Some (VStr mti) /\ length mti = 4 /\ forallb ascii_digit mti = true /\
    encodable cd mti = true /\ ir_digits_enc cd /\ ir_wf_fields cfg cd m1 bit_range.
Proof.
  intros cfg cd m Hcfg Hm.
  destruct (ir_wf_msg_parts cfg cd m Hm) as [Hnd [[mti [Hmti [Hl4 [Hasc Henc]]]] [Hent [Hdig Hp]]]].
  destruct Hp as [Hnp|[Hhp [Hcar [cs [Hcs Hlen]]]]].
  - exists [], m, mti. split.
    { unfold pds_to_de. rewrite (ir_no_pds_entries m Hnp). reflexivity. }
    split; [reflexivity|]. repeat (split; [assumption|]).
    intros b v _ Hl. pose proof (Hent _ _ (ir_lookup_in _ _ _ Hl)) as Hw.
    destruct (ir_entry_wf_field cfg cd _ b v Hcfg Hw) as [_ [c [Hc [Hwc [Hwv _]]]]].
    exists c. auto.
  - rewrite Hhp in Hent.
    destruct (ir_pds_plan cfg cd m Hnd Hent) as [pds [groups [Hpnd [Hpok [Hpin [Hconcat [Hpd Hclen]]]]]]].
    pose proof Hcs as Hcs'. rewrite Hpd in Hcs'. apply tp_ok_inj in Hcs'. rename Hcs' into Hcseq.
    destruct (ir_assignment_in m cs (pds_bits cfg) Hlen (ir_pds_bits_nodup cfg)) as [m1 [Hm1 [A1 [A2 A3]]]].
    exists cs, m1, mti. split; [exact Hcs|]. split; [exact Hm1|]. repeat (split; [assumption|]).
    set (asg := firstn (length cs) (pds_bits cfg)) in *.
    assert (Hasg : forall f, In f asg -> In f (pds_bits cfg)).
    { intros f Hf. apply ir_firstn_in in Hf. destruct Hf as [i [_ Hi]]. apply (nth_error_In _ _ Hi). }
    assert (Hgrp : forall g, In g groups ->
       Forall (ir_tv_ok cd) g /\ 1 <= length (flat_map sub_of g) <= 999 /\
       pds_to_dict (flat_map sub_of g) = Ok (map ir_kv g)).
    { intros g Hg.
      assert (Hincl : forall tv, In tv g -> In tv pds).
      { intros tv Htv. rewrite <- Hconcat. apply in_concat. exists g. auto. }
      assert (Hok : Forall (ir_tv_ok cd) g).
      { apply Forall_forall. intros tv Htv. rewrite Forall_forall in Hpok. apply Hpok. apply Hincl. exact Htv. }
      split; [exact Hok|]. split.
      - rewrite Forall_forall in Hclen. apply Hclen. apply in_map. exact Hg.
      - apply PdsProofs.c12_recovery.
        + apply (ir_nodup_concat fst groups g); [rewrite Hconcat; exact Hpnd|exact Hg].
        + eapply Forall_impl; [|exact Hok]. intros tv [H1 [H2 _]]. split; [exact H1|].
          apply (Nat.le_trans _ 992); [exact H2|lia]. }
    intros b v Hb Hl.
    destruct (in_dec Nat.eq_dec b asg) as [Hin|Hnin].
    + destruct (ir_carrier_cfg cfg b Hcar (Hasg _ Hin)) as [_ [c [Hc [Ht [Hpt Hp]]]]].
      destruct (A2 b Hin) as [ch [Hc1 Hc2]]. rewrite Hl in Hc2. inversion Hc2; subst v.
      rewrite <- Hcseq in Hc1. apply in_map_iff in Hc1. destruct Hc1 as [g [Eg Hg]]. subst ch.
      destruct (Hgrp g Hg) as [G1 [G2 G3]].
      exists c. split; [exact Hc|]. split; [apply (ir_cfg_wf cfg b c Hcfg Hc)|].
      apply (ir_chunk_wf cd c _ _ Ht Hpt Hp (ir_encodable_sub cd g Hdig G1) G2 G3).
    + rewrite A3 in Hl.
      * pose proof (Hent _ _ (ir_lookup_in _ _ _ Hl)) as Hw.
        destruct (ir_entry_wf_field cfg cd true b v Hcfg Hw) as [_ [c [Hc [Hwc [Hwv _]]]]]. exists c. auto.
      * intros f Hf E. inversion E; subst f. contradiction.
Qed.

Lemma tp_ok_pair : forall {A C} (a a' : A) (x y : C), Ok (a, x) = Ok (a', y) -> x = y.
Proof. intros A C a a' x y H. inversion H. reflexivity. Qed.

(* ---------- one record through the conversion and back ---------- *)
Lemma tp_msg : forall cfg cdA cdB m,
  wf_cfgb cfg = true -> convertible_cfgb cfg = true -> compatibleb cdA cdB = true -> wf_msgb cfg cdA m = true ->
  exists bA bB dN D,
    dumps cfg cdA false m = Ok bA /\
    loads (cfg_nopds cfg) cdA false bA = Ok dN /\ dumps cfg cdB false dN = Ok bB /\
    loads (cfg_nopds cfg) cdB false bB = Ok dN /\ dumps cfg cdA false dN = Ok bA /\
    loads cfg cdA false bA = Ok D /\ loads cfg cdB false bB = Ok D /\ length bB = length bA.
Proof.
  intros cfg cdA cdB m Hcfg Hconv Hcomp Hm.
  destruct (tp_compatible_parts cdA cdB Hcomp) as (Ia & Ib & _ & _ & Cab & _).
  pose proof (tp_injb_okb cdA Ia) as OkA. pose proof (tp_injb_okb cdB Ib) as OkB.
  destruct (tp_packed cfg cdA m Hcfg Hm) as (cs & m1 & mti & Hcs & Hm1 & Hmti & Hl4 & Hasc & HencA & HdigA & WA).
  assert (Hcov : forall s, encodable cdA s = true -> encodable cdB s = true).
  { intros s. apply tp_covers_encodable. exact Cab. }
  pose proof (Hcov _ HencA) as HencB. pose proof (Hcov _ HdigA) as HdigB. fold (ir_digits_enc cdB) in HdigB.
  pose proof (tp_wf_fields_codec cdA cdB cfg m1 bit_range Hcov WA) as WB.
  pose proof (tp_wf_fields_nopds cfg cdA m1 bit_range WA) as WNA.
  pose proof (tp_wf_fields_nopds cfg cdB m1 bit_range WB) as WNB.
  pose proof (tp_plain_nopds cfg Hconv) as Hpl.
  assert (Hne : mti <> []) by (intro C; subst mti; discriminate).
  destruct (ir_loads_core cfg cdA false m1 mti OkA HdigA Hl4 Hasc HencA WA)
    as (bodyA & entsA & mbA & EA & FA & MA & LA).
  destruct (ir_loads_core cfg cdB false m1 mti OkB HdigB Hl4 Hasc HencB WB)
    as (bodyB & entsB & mbB & EB & FB & MB & LB).
  destruct (ir_loads_core (cfg_nopds cfg) cdA false m1 mti OkA HdigA Hl4 Hasc HencA WNA)
    as (bodyNA & entsNA & mbNA & ENA & FNA & MNA & LNA).
  destruct (ir_loads_core (cfg_nopds cfg) cdB false m1 mti OkB HdigB Hl4 Hasc HencB WNB)
    as (bodyNB & entsNB & mbNB & ENB & FNB & MNB & LNB).
  rewrite tp_enc_fields_nopds in ENA, ENB.
  rewrite EA in ENA. apply tp_ok_pair in ENA. subst bodyNA.
  rewrite EB in ENB. apply tp_ok_pair in ENB. subst bodyNB.
  rewrite MA in MNA. apply tp_ok_inj in MNA. subst mbNA.
  rewrite MB in MNB. apply tp_ok_inj in MNB. subst mbNB.
  pose proof (tp_ents_det _ _ _ _ _ FA FB) as E1. subst entsB.
  pose proof (tp_ents_det _ _ _ _ _ FNA FNB) as E2. subst entsNB.
  set (pl := filter (ir_pres m1) bit_range) in *.
  exists (mbA ++ ir_bmb false (bitmap_of pl) ++ bodyA), (mbB ++ ir_bmb false (bitmap_of pl) ++ bodyB),
         (dupdate [(KMTI, VStr mti)] (concat entsNA)), (dupdate [(KMTI, VStr mti)] (concat entsA)).
  split; [apply (ir_dumps_eq cfg cdA false m cs m1 pl bodyA mti mbA Hcs Hm1 EA Hmti Hne MA)|].
  split; [exact LNA|].
  split; [apply (tp_redump (cfg_nopds cfg) cfg cdB m1 mti entsNA pl bodyB mbB Hpl FNA EB Hne MB)|].
  split; [exact LNB|].
  split; [apply (tp_redump (cfg_nopds cfg) cfg cdA m1 mti entsNA pl bodyA mbA Hpl FNA EA Hne MA)|].
  split; [exact LA|]. split; [exact LB|].
  rewrite !app_length. rewrite (encode_length _ _ _ MA), (encode_length _ _ _ MB).
  pose proof (tp_enc_fields_len cfg cdA cdB m1 bit_range _ _ EA EB) as HL. cbn [snd] in HL. rewrite HL. reflexivity.
Qed.

(* ---------- files ---------- *)
Section IpmFiles.
Variable B : nat.
Hypothesis Bpos : 0 < B.
Variable maxlen : N.
Hypothesis maxlen_ok : (maxlen < 2 ^ 32)%N.

(* reading a file the writer produced: the decoded records, then the end *)
Lemma tp_read_written : forall cfg cd blocked bs ds,
  Forall2 (fun b d => loads cfg cd false b = Ok d) bs ds -> Forall (wf_rec maxlen) bs ->
  iread_all B maxlen cfg cd (file_of (writer_run B blocked (map WWrite bs ++ [WClose]))) blocked = Ok (ds, End).
Proof.
  intros cfg cd blocked bs ds Hl Hwf.
  destruct (ip_seen_written B Bpos blocked bs) as (t & Hs).
  rewrite (ip_read_goods B maxlen cfg cd maxlen_ok Bpos blocked _ bs ds _ Hl Hwf Hs).
  apply ip_iparse_zero.
Qed.

(* the four record lists of a file of well-formed messages: encodings under A and B, what the tool reads
   (dN), and what the library reads with the full configuration (D) *)
Lemma tp_msgs : forall cfg cdA cdB ms,
  wf_cfgb cfg = true -> convertible_cfgb cfg = true -> compatibleb cdA cdB = true ->
  Forall (fun m => wf_msgb cfg cdA m = true /\
                   forall b, dumps cfg cdA false m = Ok b -> (N.of_nat (length b) <= maxlen)%N) ms ->
  exists bAs bBs dNs Ds,
    Forall2 (fun m b => dumps cfg cdA false m = Ok b) ms bAs /\
    Forall2 (fun b d => loads (cfg_nopds cfg) cdA false b = Ok d) bAs dNs /\
    Forall2 (fun m b => dumps cfg cdB false m = Ok b) dNs bBs /\
    Forall2 (fun b d => loads (cfg_nopds cfg) cdB false b = Ok d) bBs dNs /\
    Forall2 (fun m b => dumps cfg cdA false m = Ok b) dNs bAs /\
    Forall2 (fun b d => loads cfg cdA false b = Ok d) bAs Ds /\
    Forall2 (fun b d => loads cfg cdB false b = Ok d) bBs Ds /\
    Forall (wf_rec maxlen) bAs /\ Forall (wf_rec maxlen) bBs.
Proof.
  intros cfg cdA cdB ms Hcfg Hconv Hcomp. induction 1 as [|m ms [Hm Hfit] Hms IH].
  - exists [], [], [], []. repeat split; constructor.
  - destruct IH as (bAs & bBs & dNs & Ds & H1 & H2 & H3 & H4 & H5 & H6 & H7 & H8 & H9).
    destruct (tp_msg cfg cdA cdB m Hcfg Hconv Hcomp Hm) as (bA & bB & dN & D & M1 & M2 & M3 & M4 & M5 & M6 & M7 & M8).
    assert (WA : wf_rec maxlen bA).
    { split; [pose proof (ip_loads_len cfg cdA bA D M6); lia|apply Hfit; exact M1]. }
    assert (WB : wf_rec maxlen bB).
    { unfold wf_rec in *. rewrite M8. exact WA. }
    exists (bA :: bAs), (bB :: bBs), (dN :: dNs), (D :: Ds).
    repeat split; constructor; assumption.
Qed.

Lemma tp_convert : forall rcfg wcfg cdA cdB fa fb bs ds bs',
  Forall2 (fun b d => loads rcfg cdA false b = Ok d) bs ds -> Forall (wf_rec maxlen) bs ->
  Forall2 (fun m b => dumps wcfg cdB false m = Ok b) ds bs' ->
  convert B maxlen rcfg wcfg cdA cdB fa fb (file_of (writer_run B fa (map WWrite bs ++ [WClose])))
  = Ok (file_of (writer_run B fb (map WWrite bs' ++ [WClose]))).
Proof.
  intros rcfg wcfg cdA cdB fa fb bs ds bs' Hl Hwf Hd. unfold convert.
  rewrite (tp_read_written rcfg cdA fa bs ds Hl Hwf). cbn [bind fst snd].
  apply (ip_ipm_file B wcfg cdB fb ds bs' Hd).
Qed.

Lemma c19_ipm_records : forall cfg cdA cdB fa fb ms file,
  wf_cfgb cfg = true -> convertible_cfgb cfg = true -> compatibleb cdA cdB = true ->
  Forall (fun m => wf_msgb cfg cdA m = true /\
                   forall b, dumps cfg cdA false m = Ok b -> (N.of_nat (length b) <= maxlen)%N) ms ->
  ipm_file B cfg cdA fa ms = Ok file ->
  exists out, convert B maxlen (cfg_nopds cfg) cfg cdA cdB fa fb file = Ok out /\
              iread_all B maxlen cfg cdB out fb = iread_all B maxlen cfg cdA file fa.
Proof.
  intros cfg cdA cdB fa fb ms file Hcfg Hconv Hcomp Hms Hfile.
  destruct (tp_msgs cfg cdA cdB ms Hcfg Hconv Hcomp Hms)
    as (bAs & bBs & dNs & Ds & H1 & H2 & H3 & H4 & H5 & H6 & H7 & H8 & H9).
  rewrite (ip_ipm_file B cfg cdA fa ms bAs H1) in Hfile. apply tp_ok_inj in Hfile. subst file.
  exists (file_of (writer_run B fb (map WWrite bBs ++ [WClose]))).
  split; [apply (tp_convert (cfg_nopds cfg) cfg cdA cdB fa fb bAs dNs bBs H2 H8 H3)|].
  rewrite (tp_read_written cfg cdB fb bBs Ds H7 H9), (tp_read_written cfg cdA fa bAs Ds H6 H8). reflexivity.
Qed.

Lemma c19_ipm_reversible : forall cfg cdA cdB fa fb ms file out,
  wf_cfgb cfg = true -> convertible_cfgb cfg = true -> compatibleb cdA cdB = true ->
  Forall (fun m => wf_msgb cfg cdA m = true /\
                   forall b, dumps cfg cdA false m = Ok b -> (N.of_nat (length b) <= maxlen)%N) ms ->
  ipm_file B cfg cdA fa ms = Ok file ->
  convert B maxlen (cfg_nopds cfg) cfg cdA cdB fa fb file = Ok out ->
  convert B maxlen (cfg_nopds cfg) cfg cdB cdA fb fa out = Ok file.
Proof.
  intros cfg cdA cdB fa fb ms file out Hcfg Hconv Hcomp Hms Hfile Hout.
  destruct (tp_msgs cfg cdA cdB ms Hcfg Hconv Hcomp Hms)
    as (bAs & bBs & dNs & Ds & H1 & H2 & H3 & H4 & H5 & H6 & H7 & H8 & H9).
  rewrite (ip_ipm_file B cfg cdA fa ms bAs H1) in Hfile. apply tp_ok_inj in Hfile. subst file.
  rewrite (tp_convert (cfg_nopds cfg) cfg cdA cdB fa fb bAs dNs bBs H2 H8 H3) in Hout.
  apply tp_ok_inj in Hout. subst out.
  apply (tp_convert (cfg_nopds cfg) cfg cdB cdA fb fa bBs dNs bAs H4 H9 H5).
Qed.
End IpmFiles.

(* ====================================================================== the packaged domain *)
Lemma c19_packaged :
  let l := mkcodec CU.gen.GenCodec.tbl_latin_1 in let e := mkcodec CU.gen.GenCodec.tbl_cp500 in
  let f := mkcodec CU.gen.GenCodec.tbl_cp037 in
  compatibleb l e = true /\ compatibleb l f = true /\ compatibleb e f = true /\
  compatibleb e l = true /\ compatibleb f l = true /\ compatibleb f e = true /\
  convertible_cfgb CU.gen.GenConfig.packaged_bit_config = true.
Proof. vm_compute. repeat split. Qed.

(* the same statement with both sides made explicit: the conversion succeeds, both files read to the end, to the same
   records, which are the records C06 promises for the original file (one per message, in order) *)
Lemma c19_ipm_records_explicit (B : nat) (Bpos : 0 < B) (maxlen : N) (maxlen_ok : (maxlen < 2 ^ 32)%N) :
  forall cfg cdA cdB fa fb ms file,
  wf_cfgb cfg = true -> convertible_cfgb cfg = true -> compatibleb cdA cdB = true ->
  Forall (fun m => wf_msgb cfg cdA m = true /\
                   forall b, dumps cfg cdA false m = Ok b -> (N.of_nat (length b) <= maxlen)%N) ms ->
  ipm_file B cfg cdA fa ms = Ok file ->
  exists out ds, convert B maxlen (cfg_nopds cfg) cfg cdA cdB fa fb file = Ok out /\
                 iread_all B maxlen cfg cdA file fa = Ok (ds, End) /\
                 iread_all B maxlen cfg cdB out fb = Ok (ds, End) /\
                 Forall2 (agrees cfg) ms ds.
Proof.
  intros cfg cdA cdB fa fb ms file Hcfg Hconv Hcomp Hms Hfile.
  destruct (c19_ipm_records B Bpos maxlen maxlen_ok cfg cdA cdB fa fb ms file Hcfg Hconv Hcomp Hms Hfile)
    as (out & Hout & Heq).
  destruct (tp_compatible_parts cdA cdB Hcomp) as (Ia & _).
  destruct (c06_roundtrip B Bpos maxlen maxlen_ok cfg cdA fa ms Hcfg (tp_injb_okb cdA Ia) Hms)
    as (file' & ds & F1 & F2 & F3).
  rewrite Hfile in F1. apply tp_ok_inj in F1. subst file'.
  exists out, ds. split; [exact Hout|]. split; [exact F2|]. split; [rewrite Heq; exact F2|exact F3].
Qed.
