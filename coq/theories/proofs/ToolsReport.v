(* ToolsReport.v — the operator line of a reading tool names the record that is wrong (C10, last sentence). *)
From Coq Require Import List Arith NArith.
From Coq Require Import Strings.Byte.
Require Import CU.model.Prim CU.model.Types CU.model.Codec CU.model.Block CU.model.Vbs CU.model.Iso CU.model.Ipm CU.model.Tools.
Import ListNotations.

Lemma c10_operator_message : forall B maxlen cfg cd blocked file ds k ctx,
  iread_all B maxlen cfg cd file blocked = Ok (ds, ErrData (S k) ctx) ->
  tool_read B maxlen cfg cd blocked file
  = Ok (ds, Some (Some (error_prefix ++ str_of_N (N.of_nat (S k))))).
Proof. intros B maxlen cfg cd blocked file ds k ctx H. unfold tool_read. rewrite H. reflexivity. Qed.
