(* ToolsTotal.v — the reading tools (mci_ipm_to_csv, mideu extract) stop with rows or the library's data error (C07). *)
From Coq Require Import List Arith NArith.
Require Import CU.model.Prim CU.model.Types CU.model.Codec CU.model.Block CU.model.Vbs CU.model.Iso CU.model.Ipm CU.model.Tools CU.model.Csv.
Require Import CU.proofs.IsoTotal.
Import ListNotations.

(* has_lengths / de43_on_text / benign as in props/C07.v *)
Definition tt_benign {A} (r : result A) : Prop :=
  match r with Ok _ | Raise EData | Unmodelled => True | _ => False end.

Lemma c07_tools_total : forall B maxlen cfg cd blocked cols f, 0 < B ->
  (forall n c, cfg_get cfg n = Some c -> f_len c <> None) ->
  (forall n c, cfg_get cfg n = Some c -> f_proc c = PDE43 -> f_ptype c <> PTStr -> f_de43 c = D43None) ->
  tt_benign (ipm_to_rows B maxlen cfg cd blocked cols f).
Proof.
  intros B maxlen cfg cd blocked cols f HB HL HD. unfold ipm_to_rows.
  pose proof (c07_ipm_reader_total B maxlen cfg cd f blocked HB HL HD) as H.
  destruct (iread_all B maxlen cfg cd f blocked) as [[ds e]|x| |]; cbn [bind snd fst].
  - destruct e; exact I.
  - destruct x; try contradiction. exact I.
  - contradiction.
  - exact I.
Qed.

(* the same at TEXT level: what mci_ipm_to_csv / mideu extract write (model/Csv.v) *)
Lemma tt_all_cells : forall row, match all_cells row with Ok _ | Unmodelled => True | _ => False end.
Proof.
  induction row as [|[s|] t IH]; cbn [all_cells]; [exact I| |exact I].
  destruct (all_cells t); cbn [bind]; try exact I; contradiction.
Qed.
Lemma tt_all_rows : forall rows, match all_rows rows with Ok _ | Unmodelled => True | _ => False end.
Proof.
  induction rows as [|r t IH]; cbn [all_rows]; [exact I|].
  pose proof (tt_all_cells r) as Hc. destruct (all_cells r); cbn [bind]; try exact I; try contradiction.
  destruct (all_rows t); cbn [bind]; try exact I; contradiction.
Qed.
Lemma c07_csv_tool_total : forall B maxlen cfg cd blocked cols f, 0 < B ->
  (forall n c, cfg_get cfg n = Some c -> f_len c <> None) ->
  (forall n c, cfg_get cfg n = Some c -> f_proc c = PDE43 -> f_ptype c <> PTStr -> f_de43 c = D43None) ->
  tt_benign (ipm_to_csv_text B maxlen cfg cd blocked cols f).
Proof.
  intros B maxlen cfg cd blocked cols f HB HL HD. unfold ipm_to_csv_text.
  pose proof (c07_tools_total B maxlen cfg cd blocked cols f HB HL HD) as H.
  destruct (ipm_to_rows B maxlen cfg cd blocked cols f) as [rows|x| |]; cbn [bind].
  - pose proof (tt_all_rows rows) as Hr. destruct (all_rows rows); cbn [bind]; try exact I; contradiction.
  - exact H.
  - contradiction.
  - exact I.
Qed.
