(* VbsProofs.v — proofs about the VBS writer / reader model (Vbs.v) against FramingSpec.v. *)
From Coq Require Import List Arith NArith Lia Bool.
From Coq Require Import Strings.Byte.
Require Import CU.model.Prim CU.model.Block CU.model.Vbs CU.spec.FramingSpec.
Require Import CU.proofs.BlockProofs.
Import ListNotations.
Open Scope nat_scope.

(* ---------- list helpers ---------- *)
Lemma firstn_exact {A} (a b : list A) n : length a = n -> firstn n (a ++ b) = a.
Proof.
  intros H. subst n. rewrite firstn_app, Nat.sub_diag, firstn_all. cbn [firstn]. apply app_nil_r.
Qed.

Lemma skipn_exact {A} (a b : list A) n : length a = n -> skipn n (a ++ b) = b.
Proof.
  intros H. subst n. rewrite skipn_app, Nat.sub_diag, skipn_all. reflexivity.
Qed.

Lemma skipn_skipn' {A} (a b : nat) (l : list A) : skipn a (skipn b l) = skipn (b + a) l.
Proof.
  revert l. induction b as [|b IH]; intros l; [reflexivity|].
  destruct l as [|x l]; [now rewrite !skipn_nil|]. cbn [skipn Nat.add]. apply IH.
Qed.

Lemma skipn_firstn_len {A} (n : nat) (l : list A) : skipn (length (firstn n l)) l = skipn n l.
Proof.
  rewrite firstn_length. destruct (Nat.le_ge_cases n (length l)) as [H|H].
  - now rewrite Nat.min_l.
  - rewrite Nat.min_r by exact H. rewrite skipn_all. symmetry. now apply skipn_all2.
Qed.

Lemma firstn_short {A} (n : nat) (l : list A) : length l <= n -> firstn n l = l.
Proof. apply firstn_all2. Qed.

(* ---------- be32 / unbe ---------- *)
Lemma N_of_byte_of_N n : N_of_byte (byte_of_N n) = (n mod 256)%N.
Proof.
  unfold N_of_byte, byte_of_N.
  destruct (Byte.of_N (n mod 256)) as [b|] eqn:E.
  - now apply Byte.to_of_N.
  - apply Byte.of_N_None_iff in E.
    assert (n mod 256 < 256)%N by (apply N.mod_lt; discriminate). lia.
Qed.

Lemma be32_length n : length (be32 n) = 4.
Proof. reflexivity. Qed.

Lemma unbe_be32 n : (n < 4294967296)%N -> unbe (be32 n) = n.
Proof.
  intros H. unfold be32, unbe. cbn [fold_left]. rewrite !N_of_byte_of_N.
  pose proof (N.div_mod n 256 ltac:(discriminate)) as H0.
  pose proof (N.div_mod (n / 256) 256 ltac:(discriminate)) as H1.
  pose proof (N.div_mod (n / 256 / 256) 256 ltac:(discriminate)) as H2.
  rewrite !N.div_div in H1, H2 by discriminate.
  change (256 * 256)%N with 65536%N in *. change (65536 * 256)%N with 16777216%N in *.
  replace (n / 65536 / 256)%N with (n / 16777216)%N in H2
    by (rewrite N.div_div by discriminate; reflexivity).
  assert (n / 16777216 < 256)%N as H4 by (apply N.div_lt_upper_bound; [discriminate|exact H]).
  rewrite (N.mod_small (n / 16777216) 256) by exact H4.
  lia.
Qed.

Lemma pow_2_32 : (2 ^ 32 = 4294967296)%N.
Proof. reflexivity. Qed.

Lemma c03_length_prefix : forall n, (n < 2 ^ 32)%N -> length (be32 n) = 4 /\ unbe (be32 n) = n.
Proof.
  intros n H. split; [apply be32_length|]. apply unbe_be32. rewrite <- pow_2_32. exact H.
Qed.

Lemma unbe_be32_0 : unbe (be32 0) = 0%N.
Proof. reflexivity. Qed.

Local Opaque be32.

(* ---------- spec-side helpers ---------- *)
Lemma frame_length r : length (frame r) = 4 + length r.
Proof. unfold frame. rewrite app_length, be32_length. reflexivity. Qed.

Lemma frames_cons r rs : frames (r :: rs) = frame r ++ frames rs.
Proof. reflexivity. Qed.

Lemma vbs_cons r rs : vbs (r :: rs) = frame r ++ vbs rs.
Proof. unfold vbs. rewrite frames_cons, app_assoc. reflexivity. Qed.

Lemma vbs_nil : vbs [] = be32 0.
Proof. reflexivity. Qed.

Lemma complete_prefix_all : forall rs m, length (frames rs) <= m -> complete_prefix rs m = rs.
Proof.
  induction rs as [|r rs IH]; intros m H; [reflexivity|].
  rewrite frames_cons, app_length in H. cbn [complete_prefix].
  replace (length (frame r) <=? m) with true by (symmetry; apply Nat.leb_le; lia).
  rewrite IH by lia. reflexivity.
Qed.

Lemma c09_prefix : forall rs k, exists rest, rs = complete_prefix rs k ++ rest.
Proof.
  induction rs as [|r rs IH]; intros k.
  - exists []. reflexivity.
  - cbn [complete_prefix]. destruct (length (frame r) <=? k).
    + destruct (IH (k - length (frame r))) as [rest Hrest]. exists rest.
      cbn [app]. rewrite <- Hrest. reflexivity.
    + exists (r :: rs). reflexivity.
Qed.

Lemma payload_fuel_length B : forall fuel f, length (payload_fuel B fuel f) <= length f.
Proof.
  induction fuel as [|k IH]; intros f; cbn [payload_fuel]; [cbn [length]; lia|].
  destruct f as [|x f']; [cbn [length]; lia|].
  set (f := x :: f') in *. rewrite app_length, firstn_length.
  pose proof (IH (skipn (B + 2) f)) as H. rewrite skipn_length in H. lia.
Qed.

Lemma payload_length_le B f : length (payload B f) <= length f.
Proof. apply payload_fuel_length. Qed.

(* ---------- file object in append mode ---------- *)
Lemma fwrite_append f b : fpos f = length (fdata f) ->
  fwrite f b = mkf (fdata f ++ b) (length (fdata f ++ b)).
Proof.
  intros H. unfold fwrite. rewrite H, firstn_all, Nat.sub_diag. cbn [repeat].
  rewrite skipn_all2 by lia. rewrite !app_nil_r, app_length. reflexivity.
Qed.

(* the chunks the writer hands to its output for a list of records *)
Definition chunks (rs : list bytes) : list bytes :=
  flat_map (fun r => [be32 (N.of_nat (length r)); r]) rs.

Lemma concat_chunks rs : concat (chunks rs) = frames rs.
Proof.
  induction rs as [|r rs IH]; [reflexivity|].
  rewrite frames_cons. unfold chunks in *. cbn [flat_map app concat]. rewrite IH.
  unfold frame. rewrite <- app_assoc. reflexivity.
Qed.

Lemma concat_chunks_close rs : concat (chunks rs ++ [be32 0]) = vbs rs.
Proof.
  rewrite concat_app, concat_chunks. cbn [concat]. rewrite app_nil_r. reflexivity.
Qed.

Definition fin_op (o : wop) : Prop := o = WClose \/ o = WExit.
Definition stops_at (e : rend) : Prop := e = End \/ exists n c, e = ErrData n c.

Section VbsProofs.
Variable B : nat.

(* ---------- writer ---------- *)
Lemma run_writes : forall rs w,
  fold_left (wstep B) (map WWrite rs) w
  = mkw (fold_left (owrite B) (chunks rs) (wout w)) (wfinalised w).
Proof.
  induction rs as [|r rs IH]; intros w.
  - destruct w; reflexivity.
  - cbn [map fold_left wstep]. rewrite IH. unfold chunks.
    cbn [wwrite wout wfinalised flat_map app fold_left]. reflexivity.
Qed.

Lemma plain_writes : forall ws f, fpos f = length (fdata f) ->
  fold_left (owrite B) ws (OPlain f) = OPlain (mkf (fdata f ++ concat ws) (length (fdata f ++ concat ws))).
Proof.
  induction ws as [|w ws IH]; intros f H.
  - cbn [fold_left concat]. rewrite app_nil_r. destruct f as [d p]. cbn [fdata fpos] in *. subst p. reflexivity.
  - cbn [fold_left owrite concat]. rewrite fwrite_append by exact H.
    rewrite IH by reflexivity. cbn [fdata]. rewrite <- app_assoc. reflexivity.
Qed.

Lemma blocked_writes : forall ws s,
  fold_left (owrite B) ws (OBlocked s) = OBlocked (fold_left (bwrite B) ws s).
Proof.
  induction ws as [|w ws IH]; intros s; [reflexivity|].
  cbn [fold_left owrite]. apply IH.
Qed.

Lemma written_eq blocked rs :
  writer_run B blocked (map WWrite rs ++ [WClose])
  = mkw (oseek B (fold_left (owrite B) (chunks rs ++ [be32 0])
                    (if blocked then OBlocked (binit B fempty) else OPlain fempty)) 0) true.
Proof.
  unfold writer_run. rewrite fold_left_app, run_writes. cbn [fold_left wstep].
  unfold wclose. cbn [wfinalised wout winit]. rewrite fold_left_app. reflexivity.
Qed.

Lemma c03_layout_unblocked_ : forall rs,
  file_of (writer_run B false (map WWrite rs ++ [WClose])) = vbs rs.
Proof.
  intros rs. rewrite written_eq. rewrite plain_writes by reflexivity.
  unfold file_of. cbn [wout oseek ofile fseek fdata app]. apply concat_chunks_close.
Qed.

Lemma written_blocked rs :
  file_of (writer_run B true (map WWrite rs ++ [WClose]))
  = fdata (bfile (bfinalise B (fold_left (bwrite B) (chunks rs ++ [be32 0]) (binit B fempty)))).
Proof.
  rewrite written_eq. rewrite blocked_writes. reflexivity.
Qed.

Lemma c03_list_to_bytes_ : forall blocked rs,
  vbs_list_to_bytes B blocked rs = file_of (writer_run B blocked (map WWrite rs ++ [WClose])).
Proof.
  intros blocked rs. unfold vbs_list_to_bytes, file_of. rewrite written_eq. cbn [wout].
  destruct (fold_left (owrite B) (chunks rs ++ [be32 0])
              (if blocked then OBlocked (binit B fempty) else OPlain fempty)) as [f|s]; reflexivity.
Qed.

(* finalisation histories *)
Lemma wclose_fin w : wfinalised w = true -> wclose B w = w.
Proof. intros H. unfold wclose. rewrite H. reflexivity. Qed.

Lemma wclose_finalised w : wfinalised (wclose B w) = true.
Proof. unfold wclose. destruct (wfinalised w) eqn:E; [exact E|reflexivity]. Qed.

Lemma fins_id : forall fins w, Forall fin_op fins -> wfinalised w = true ->
  fold_left (wstep B) fins w = w.
Proof.
  induction fins as [|o fins IH]; intros w Hf Hw; [reflexivity|].
  inversion Hf as [|o' fins' Ho Hfins]; subst. cbn [fold_left].
  assert (E : wstep B w o = w) by (destruct Ho as [-> | ->]; cbn [wstep]; apply wclose_fin; exact Hw).
  rewrite E. apply IH; assumption.
Qed.

Lemma fins_close fins w : fins <> [] -> Forall fin_op fins ->
  fold_left (wstep B) fins w = wclose B w.
Proof.
  intros Hne Hf. destruct fins as [|o fins]; [congruence|].
  inversion Hf as [|o' fins' Ho Hfins]; subst. cbn [fold_left].
  assert (E : wstep B w o = wclose B w) by (destruct Ho as [-> | ->]; reflexivity).
  rewrite E. apply fins_id; [exact Hfins|apply wclose_finalised].
Qed.

Lemma c11_any_finalisation_history_ : forall blocked rs fins, fins <> [] -> Forall fin_op fins ->
  file_of (writer_run B blocked (map WWrite rs ++ fins))
  = file_of (writer_run B blocked (map WWrite rs ++ [WClose])).
Proof.
  intros blocked rs fins Hne Hf. unfold writer_run. rewrite !fold_left_app.
  rewrite fins_close by assumption. reflexivity.
Qed.

(* ---------- streams: the bytes that remain to be read ---------- *)
Definition srem (s : stream) : bytes :=
  match s with SPlain f => skipn (fpos f) (fdata f) | SUnblock u => urem B u end.
Definition sok (s : stream) : Prop := match s with SPlain _ => True | SUnblock _ => 0 < B end.

Lemma sread_spec s n : sok s -> 0 < n ->
  exists s', sread B s n = Ok (firstn n (srem s), s') /\ srem s' = skipn n (srem s) /\ sok s'.
Proof.
  intros Hok Hn. destruct s as [f|u].
  - exists (SPlain (mkf (fdata f) (fpos f + length (firstn n (skipn (fpos f) (fdata f)))))).
    split; [reflexivity|]. split; [|exact I]. cbn [srem fdata fpos].
    rewrite <- skipn_skipn'. apply skipn_firstn_len.
  - cbn [sok] in Hok. destruct (uread_spec B Hok u n) as (o & u' & E & Ho & Hr).
    destruct n as [|n]; [lia|]. cbn [Nat.eqb] in Ho. subst o.
    exists (SUnblock u'). cbn [sread srem]. rewrite E. cbn [bind]. split; [reflexivity|].
    split; [|exact Hok]. rewrite Hr. apply skipn_firstn_len.
Qed.

(* ---------- the reader as a pure function of the remaining bytes ---------- *)
Section Reader.
Variable maxlen : N.

Fixpoint parse (fuel : nat) (p : bytes) (recno : nat) (acc : list bytes) : result (list bytes * rend) :=
  match fuel with
  | 0 => OutOfFuel
  | S k =>
    let raw := firstn 4 p in
    if negb (Nat.eqb (length raw) 4) then Ok (acc, End)
    else if (maxlen <? unbe raw)%N then Ok (acc, ErrData recno raw)
    else if (unbe raw =? 0)%N then Ok (acc, End)
    else let rec := firstn (N.to_nat (unbe raw)) (skipn 4 p) in
      if negb (Nat.eqb (length rec) (N.to_nat (unbe raw))) then Ok (acc, ErrData recno (raw ++ rec))
      else parse k (skipn (N.to_nat (unbe raw)) (skipn 4 p)) (S recno) (acc ++ [rec])
  end.

Lemma read_all_fuel_parse : forall fuel r acc, sok (rstream r) ->
  read_all_fuel B maxlen fuel r acc = parse fuel (srem (rstream r)) (rrecno r) acc.
Proof.
  induction fuel as [|k IH]; intros r acc Hok; [reflexivity|].
  cbn [read_all_fuel parse]. unfold rnext.
  destruct (sread_spec (rstream r) 4 Hok ltac:(lia)) as (s1 & E1 & R1 & Ok1).
  rewrite E1. cbn [bind].
  set (raw := firstn 4 (srem (rstream r))).
  destruct (negb (Nat.eqb (length raw) 4)); [reflexivity|].
  destruct (maxlen <? unbe raw)%N; [reflexivity|].
  destruct (unbe raw =? 0)%N eqn:E0; [reflexivity|].
  apply N.eqb_neq in E0.
  destruct (sread_spec s1 (N.to_nat (unbe raw)) Ok1 ltac:(lia)) as (s2 & E2 & R2 & Ok2).
  rewrite E2. cbn [bind]. rewrite R1.
  destruct (negb (Nat.eqb (length (firstn (N.to_nat (unbe raw)) (skipn 4 (srem (rstream r)))))
                    (N.to_nat (unbe raw)))); [reflexivity|].
  cbn [bind]. rewrite IH by exact Ok2. cbn [rstream rrecno]. rewrite R2, R1. reflexivity.
Qed.

Lemma parse_fuel : forall f1 f2 p recno acc, length p < f1 -> length p < f2 ->
  parse f1 p recno acc = parse f2 p recno acc.
Proof.
  induction f1 as [|k1 IH]; intros f2 p recno acc H1 H2; [lia|].
  destruct f2 as [|k2]; [lia|]. cbn [parse].
  destruct (negb (Nat.eqb (length (firstn 4 p)) 4)) eqn:E4; [reflexivity|].
  apply negb_false_iff, Nat.eqb_eq in E4. rewrite firstn_length in E4.
  destruct (maxlen <? unbe (firstn 4 p))%N; [reflexivity|].
  destruct (unbe (firstn 4 p) =? 0)%N; [reflexivity|].
  match goal with |- context [negb ?x] => destruct (negb x) end; [reflexivity|].
  apply IH; rewrite !skipn_length; lia.
Qed.

Lemma read_all_plain d : read_all B maxlen d false = parse (S (length d)) d 1 [].
Proof.
  unfold read_all. rewrite read_all_fuel_parse by exact I. reflexivity.
Qed.

Lemma parse_short k p recno acc : length p < 4 -> parse (S k) p recno acc = Ok (acc, End).
Proof.
  intros H. cbn [parse]. rewrite firstn_short by lia.
  replace (Nat.eqb (length p) 4) with false by (symmetry; apply Nat.eqb_neq; lia). reflexivity.
Qed.

Lemma parse_zero k t recno acc : parse (S k) (be32 0 ++ t) recno acc = Ok (acc, End).
Proof.
  cbn [parse]. rewrite (firstn_exact (be32 0) t 4) by apply be32_length.
  rewrite be32_length. cbn [Nat.eqb negb]. rewrite unbe_be32_0.
  replace (maxlen <? 0)%N with false by (symmetry; apply N.ltb_ge; lia). reflexivity.
Qed.

Hypothesis maxlen_ok : (maxlen < 2 ^ 32)%N.

Lemma wf_len r : wf_rec maxlen r ->
  unbe (be32 (N.of_nat (length r))) = N.of_nat (length r) /\
  (maxlen <? N.of_nat (length r))%N = false /\
  (N.of_nat (length r) =? 0)%N = false /\
  N.to_nat (N.of_nat (length r)) = length r.
Proof.
  intros [H1 H2]. rewrite pow_2_32 in maxlen_ok. split; [apply unbe_be32; lia|].
  split; [apply N.ltb_ge; exact H2|]. split; [apply N.eqb_neq; lia|]. apply Nat2N.id.
Qed.

Lemma parse_rec k r t recno acc : wf_rec maxlen r ->
  parse (S k) (frame r ++ t) recno acc = parse k t (S recno) (acc ++ [r]).
Proof.
  intros Hr. destruct (wf_len r Hr) as (U & M & Z & T).
  unfold frame. rewrite <- app_assoc. cbn [parse].
  rewrite (firstn_exact _ _ 4) by apply be32_length.
  rewrite (skipn_exact _ _ 4) by apply be32_length.
  rewrite be32_length. cbn [Nat.eqb negb]. rewrite U, M, Z, T.
  rewrite (firstn_exact r t) by reflexivity. rewrite (skipn_exact r t) by reflexivity.
  rewrite Nat.eqb_refl. reflexivity.
Qed.

Lemma parse_trunc k r x recno acc : wf_rec maxlen r -> length x < length r ->
  exists c, parse (S k) (be32 (N.of_nat (length r)) ++ x) recno acc = Ok (acc, ErrData recno c).
Proof.
  intros Hr Hx. destruct (wf_len r Hr) as (U & M & Z & T).
  cbn [parse].
  rewrite (firstn_exact _ _ 4) by apply be32_length.
  rewrite (skipn_exact _ _ 4) by apply be32_length.
  rewrite be32_length. cbn [Nat.eqb negb]. rewrite U, M, Z, T.
  rewrite (firstn_short (length r) x) by lia.
  replace (Nat.eqb (length x) (length r)) with false by (symmetry; apply Nat.eqb_neq; lia).
  cbn [negb]. eexists. reflexivity.
Qed.

Lemma parse_frames : forall rs t recno acc fuel, Forall (wf_rec maxlen) rs -> length rs < fuel ->
  parse fuel (frames rs ++ be32 0 ++ t) recno acc = Ok (acc ++ rs, End).
Proof.
  induction rs as [|r rs IH]; intros t recno acc fuel Hwf Hf.
  - destruct fuel as [|fuel]; [lia|]. cbn [frames flat_map app]. rewrite parse_zero, app_nil_r. reflexivity.
  - cbn [length] in Hf. destruct fuel as [|fuel]; [lia|].
    inversion Hwf as [|r' rs' Hr Hrs]; subst.
    rewrite frames_cons, <- app_assoc. rewrite parse_rec by exact Hr.
    rewrite IH by (try assumption; lia). rewrite <- app_assoc. reflexivity.
Qed.

(* a stream cut after k bytes *)
Lemma parse_cut : forall rs k recno acc fuel, Forall (wf_rec maxlen) rs ->
  k <= length (vbs rs) -> length rs < fuel ->
  exists e, parse fuel (firstn k (vbs rs)) recno acc = Ok (acc ++ complete_prefix rs k, e) /\ stops_at e.
Proof.
  induction rs as [|r rs IH]; intros k recno acc fuel Hwf Hk Hf.
  - destruct fuel as [|fuel]; [lia|]. rewrite vbs_nil in *. rewrite be32_length in Hk.
    cbn [complete_prefix]. rewrite app_nil_r. exists End. split; [|left; reflexivity].
    destruct (Nat.eq_dec k 4) as [->|Hne].
    + rewrite firstn_short by (rewrite be32_length; lia).
      rewrite <- (app_nil_r (be32 0)). apply parse_zero.
    + apply parse_short. pose proof (firstn_le_length k (be32 0)). lia.
  - cbn [length] in Hf. destruct fuel as [|fuel]; [lia|].
    inversion Hwf as [|r' rs' Hr Hrs]; subst.
    rewrite vbs_cons in *. rewrite app_length in Hk. cbn [complete_prefix].
    pose proof (frame_length r) as FL.
    destruct (length (frame r) <=? k) eqn:E.
    + apply Nat.leb_le in E.
      rewrite firstn_app, (firstn_short k (frame r)) by lia.
      rewrite parse_rec by exact Hr.
      destruct (IH (k - length (frame r)) (S recno) (acc ++ [r]) fuel Hrs ltac:(lia) ltac:(lia))
        as (e & He & Hs).
      exists e. split; [|exact Hs]. rewrite He, <- app_assoc. reflexivity.
    + apply Nat.leb_gt in E. rewrite app_nil_r.
      destruct (Nat.lt_ge_cases k 4) as [H4|H4].
      * exists End. split; [|left; reflexivity]. apply parse_short.
        pose proof (firstn_le_length k (frame r ++ vbs rs)). lia.
      * unfold frame at 1. rewrite <- app_assoc.
        rewrite firstn_app, be32_length, (firstn_short k (be32 _)) by (rewrite be32_length; lia).
        rewrite firstn_app. replace (k - 4 - length r) with 0 by lia. cbn [firstn]. rewrite app_nil_r.
        destruct (parse_trunc fuel r (firstn (k - 4) r) recno acc Hr) as (c & Hc).
        { rewrite firstn_length. lia. }
        exists (ErrData recno c). split; [exact Hc|]. right. eauto.
Qed.

Lemma parse_cut_padded : forall rs t m fuel, Forall (wf_rec maxlen) rs ->
  length (firstn m (vbs rs ++ t)) < fuel ->
  exists e, parse fuel (firstn m (vbs rs ++ t)) 1 [] = Ok (complete_prefix rs m, e) /\ stops_at e.
Proof.
  intros rs t m fuel Hwf Hfuel.
  rewrite (parse_fuel fuel (fuel + S (length rs))) by lia.
  destruct (Nat.le_gt_cases m (length (vbs rs))) as [Hm|Hm].
  - rewrite firstn_app. replace (m - length (vbs rs)) with 0 by lia. cbn [firstn]. rewrite app_nil_r.
    destruct (parse_cut rs m 1 [] (fuel + S (length rs)) Hwf Hm ltac:(lia)) as (e & He & Hs).
    exists e. split; [exact He|exact Hs].
  - exists End. split; [|left; reflexivity].
    rewrite firstn_app, (firstn_short m (vbs rs)) by lia.
    unfold vbs at 1. rewrite <- app_assoc. rewrite parse_frames by (try assumption; lia).
    rewrite complete_prefix_all; [reflexivity|]. unfold vbs in Hm. rewrite app_length in Hm. lia.
Qed.

Lemma c09_unblocked_ : forall rs k, Forall (wf_rec maxlen) rs -> k <= length (vbs rs) ->
  exists e, read_all B maxlen (firstn k (vbs rs)) false = Ok (complete_prefix rs k, e) /\ stops_at e.
Proof.
  intros rs k Hwf Hk. rewrite read_all_plain.
  rewrite <- (app_nil_r (vbs rs)). apply parse_cut_padded; [exact Hwf|lia].
Qed.

Lemma roundtrip_plain rs : Forall (wf_rec maxlen) rs ->
  read_all B maxlen (vbs rs) false = Ok (rs, End).
Proof.
  intros Hwf. rewrite read_all_plain.
  rewrite (parse_fuel _ (S (length (vbs rs)) + S (length rs))) by lia.
  unfold vbs. rewrite <- (app_nil_r (be32 0)).
  rewrite parse_frames by (try assumption; lia). reflexivity.
Qed.

End Reader.

(* ---------- blocked files ---------- *)
Section Blocked.
Hypothesis Bpos : 0 < B.

Lemma read_all_blocked maxlen d :
  read_all B maxlen d true = parse maxlen (S (length d)) (payload B d) 1 [].
Proof.
  unfold read_all. rewrite read_all_fuel_parse by exact Bpos.
  cbn [rinit sopen rstream rrecno srem]. rewrite (urem_init B Bpos). reflexivity.
Qed.

Lemma c05_reader_refines_ : forall maxlen f,
  read_all B maxlen f true = read_all B maxlen (payload B f) false.
Proof.
  intros maxlen f. rewrite read_all_blocked, read_all_plain.
  pose proof (payload_length_le B f). apply parse_fuel; lia.
Qed.

Lemma c03_layout_blocked_ : forall rs,
  wf_blocks B (file_of (writer_run B true (map WWrite rs ++ [WClose]))) = true /\
  exists n, n <= B /\
    payload B (file_of (writer_run B true (map WWrite rs ++ [WClose]))) = vbs rs ++ repeat pad n.
Proof.
  intros rs. rewrite written_blocked.
  destruct (c04_every_write_sequence B Bpos (chunks rs ++ [be32 0])) as (Hr & (k & Hk) & Ho).
  rewrite Ho. rewrite concat_chunks_close in *.
  set (n := brem (fold_left (bwrite B) (chunks rs ++ [be32 0]) (binit B fempty))) in *.
  assert (L : length (vbs rs ++ repeat pad n) = k * B) by (rewrite app_length, repeat_length; exact Hk).
  destruct (c04_layout_blocks B Bpos _ k L) as (_ & Hwf & Hp).
  split; [exact Hwf|]. exists n. split; [exact Hr|exact Hp].
Qed.

Section BlockedReader.
Variable maxlen : N.
Hypothesis maxlen_ok : (maxlen < 2 ^ 32)%N.

Lemma c03_roundtrip_ : forall blocked rs, Forall (wf_rec maxlen) rs ->
  read_all B maxlen (file_of (writer_run B blocked (map WWrite rs ++ [WClose]))) blocked = Ok (rs, End).
Proof.
  intros blocked rs Hwf. destruct blocked.
  - destruct (c03_layout_blocked_ rs) as (_ & n & _ & Hp).
    rewrite c05_reader_refines_, Hp.
    rewrite read_all_plain.
    rewrite (parse_fuel maxlen _ (S (length (vbs rs ++ repeat pad n)) + S (length rs))) by lia.
    unfold vbs. rewrite <- app_assoc. rewrite parse_frames by (try assumption; lia). reflexivity.
  - rewrite c03_layout_unblocked_. apply roundtrip_plain; assumption.
Qed.

Lemma c09_blocked_ : forall rs k, Forall (wf_rec maxlen) rs ->
  let f := file_of (writer_run B true (map WWrite rs ++ [WClose])) in
  k <= length f ->
  exists e, read_all B maxlen (firstn k f) true = Ok (complete_prefix rs (payload_len B k), e) /\ stops_at e.
Proof.
  intros rs k Hwf f _. destruct (c03_layout_blocked_ rs) as (_ & n & _ & Hp). fold f in Hp.
  rewrite read_all_blocked. rewrite (payload_firstn B Bpos), Hp.
  apply parse_cut_padded; [exact maxlen_ok|exact Hwf|].
  rewrite <- Hp, <- (payload_firstn B Bpos). pose proof (payload_length_le B (firstn k f)). lia.
Qed.

Lemma c11_reads_back_ : forall blocked rs fins, fins <> [] -> Forall fin_op fins ->
  Forall (wf_rec maxlen) rs ->
  read_all B maxlen (file_of (writer_run B blocked (map WWrite rs ++ fins))) blocked = Ok (rs, End).
Proof.
  intros blocked rs fins Hne Hf Hwf. rewrite c11_any_finalisation_history_ by assumption.
  apply c03_roundtrip_; exact Hwf.
Qed.

End BlockedReader.
End Blocked.
End VbsProofs.

(* ---------- the results used by props/C03.v, C05.v, C09.v, C11.v ---------- *)
Lemma c03_layout_unblocked (B : nat) : forall rs,
  file_of (writer_run B false (map WWrite rs ++ [WClose])) = vbs rs.
Proof. exact (c03_layout_unblocked_ B). Qed.

Lemma c03_layout_blocked (B : nat) (Bpos : 0 < B) : forall rs,
  wf_blocks B (file_of (writer_run B true (map WWrite rs ++ [WClose]))) = true /\
  exists n, n <= B /\
    payload B (file_of (writer_run B true (map WWrite rs ++ [WClose]))) = vbs rs ++ repeat pad n.
Proof. exact (c03_layout_blocked_ B Bpos). Qed.

Lemma c03_roundtrip (B : nat) (Bpos : 0 < B) (maxlen : N) (maxlen_ok : (maxlen < 2 ^ 32)%N) :
  forall blocked rs, Forall (wf_rec maxlen) rs ->
  read_all B maxlen (file_of (writer_run B blocked (map WWrite rs ++ [WClose]))) blocked = Ok (rs, End).
Proof. exact (c03_roundtrip_ B Bpos maxlen maxlen_ok). Qed.

Lemma c03_list_to_bytes (B : nat) (Bpos : 0 < B) : forall blocked rs,
  vbs_list_to_bytes B blocked rs = file_of (writer_run B blocked (map WWrite rs ++ [WClose])).
Proof. exact (c03_list_to_bytes_ B). Qed.

Lemma c05_reader_refines (B : nat) (Bpos : 0 < B) : forall maxlen f,
  read_all B maxlen f true = read_all B maxlen (payload B f) false.
Proof. exact (c05_reader_refines_ B Bpos). Qed.

Lemma c09_unblocked (B : nat) (maxlen : N) (maxlen_ok : (maxlen < 2 ^ 32)%N) :
  forall rs k, Forall (wf_rec maxlen) rs -> k <= length (vbs rs) ->
  exists e, read_all B maxlen (firstn k (vbs rs)) false = Ok (complete_prefix rs k, e) /\
            (e = End \/ exists n c, e = ErrData n c).
Proof. exact (c09_unblocked_ B maxlen maxlen_ok). Qed.

Lemma c09_blocked (B : nat) (Bpos : 0 < B) (maxlen : N) (maxlen_ok : (maxlen < 2 ^ 32)%N) :
  forall rs k, Forall (wf_rec maxlen) rs ->
  let f := file_of (writer_run B true (map WWrite rs ++ [WClose])) in
  k <= length f ->
  exists e, read_all B maxlen (firstn k f) true = Ok (complete_prefix rs (payload_len B k), e) /\
            (e = End \/ exists n c, e = ErrData n c).
Proof. exact (c09_blocked_ B Bpos maxlen maxlen_ok). Qed.

Lemma c11_any_finalisation_history (B : nat) : forall blocked rs fins, fins <> [] ->
  Forall (fun o => o = WClose \/ o = WExit) fins ->
  file_of (writer_run B blocked (map WWrite rs ++ fins))
  = file_of (writer_run B blocked (map WWrite rs ++ [WClose])).
Proof. exact (c11_any_finalisation_history_ B). Qed.

Lemma c11_reads_back (B : nat) (Bpos : 0 < B) (maxlen : N) (maxlen_ok : (maxlen < 2 ^ 32)%N) :
  forall blocked rs fins, fins <> [] -> Forall (fun o => o = WClose \/ o = WExit) fins ->
  Forall (wf_rec maxlen) rs ->
  read_all B maxlen (file_of (writer_run B blocked (map WWrite rs ++ fins))) blocked = Ok (rs, End).
Proof. exact (c11_reads_back_ B Bpos maxlen maxlen_ok). Qed.
