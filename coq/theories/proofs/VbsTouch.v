(* VbsTouch.v — finalisation histories in which the caller also moves the wrapped file object (C11, second theorem). *)
From Coq Require Import List Arith NArith Lia Bool.
Require Import CU.model.Prim CU.model.Block CU.model.Vbs CU.proofs.VbsProofs.
Import ListNotations.

Section VbsTouch.
Variable B : nat.

(* an operation of the extended history that is not a write: a finalisation or a position move *)
Definition later_op (o : wop2) : Prop :=
  match o with W2Op WClose | W2Op WExit | W2Touch _ => True | W2Op (WWrite _) => False end.

Lemma touch_data w p : file_of (wstep2 B w (W2Touch p)) = file_of w.
Proof. unfold file_of. destruct w as [[f|s] fin]; reflexivity. Qed.

Lemma touch_finalised w p : wfinalised (wstep2 B w (W2Touch p)) = wfinalised w.
Proof. reflexivity. Qed.

(* once finalised, no later finalisation or position move changes a byte of the file *)
Lemma later_ops_keep : forall ops w, Forall later_op ops -> wfinalised w = true ->
  file_of (fold_left (wstep2 B) ops w) = file_of w /\ wfinalised (fold_left (wstep2 B) ops w) = true.
Proof.
  induction ops as [|o ops IH]; intros w Hops Hfin; [split; [reflexivity|exact Hfin]|].
  inversion Hops as [|? ? Ho Hrest]; subst. cbn [fold_left].
  destruct o as [[r| |]|p]; cbn [later_op] in Ho; try contradiction.
  - cbn [wstep2 wstep]. rewrite (wclose_fin B w Hfin). apply IH; assumption.
  - cbn [wstep2 wstep]. rewrite (wclose_fin B w Hfin). apply IH; assumption.
  - destruct (IH (wstep2 B w (W2Touch p)) Hrest) as [H1 H2]; [rewrite touch_finalised; exact Hfin|].
    split; [rewrite H1; apply touch_data|exact H2].
Qed.

Lemma run2_ops : forall ops w, fold_left (wstep2 B) (map W2Op ops) w = fold_left (wstep B) ops w.
Proof. induction ops as [|o ops IH]; intros w; [reflexivity|]. cbn [map fold_left wstep2]. apply IH. Qed.

(* writes, a first finalisation, then ANY mix of finalisations and position moves of the wrapped file:
   the file is the one a single close() leaves *)
Lemma c11_touched_history : forall blocked rs fin0 ops,
  (fin0 = WClose \/ fin0 = WExit) -> Forall later_op ops ->
  file_of (writer_run2 B blocked (map W2Op (map WWrite rs ++ [fin0]) ++ ops))
  = file_of (writer_run B blocked (map WWrite rs ++ [WClose])).
Proof.
  intros blocked rs fin0 ops Hf Hops. unfold writer_run2. rewrite fold_left_app, run2_ops.
  assert (E : fold_left (wstep B) (map WWrite rs ++ [fin0]) (winit B fempty blocked)
              = writer_run B blocked (map WWrite rs ++ [WClose])).
  { unfold writer_run. rewrite !fold_left_app. cbn [fold_left]. destruct Hf as [->| ->]; reflexivity. }
  rewrite E.
  apply (later_ops_keep ops); [exact Hops|].
  unfold writer_run. rewrite fold_left_app. cbn [fold_left wstep]. apply wclose_finalised.
Qed.
End VbsTouch.
