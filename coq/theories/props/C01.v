(* C01 — ISO8583 round trip: decoding an encoded message returns every value unchanged. *)
From Coq Require Import List Arith NArith ZArith.
Require Import CU.model.Prim CU.model.Types CU.model.Unicode CU.model.Codec CU.model.Dates CU.model.Iso CU.spec.IsoSpec.
Require Import CU.proofs.IsoRoundtrip.
Import ListNotations.

(* every well-formed message, every well-formed configuration, every codec table of 256 entries,
   binary and hexadecimal bitmap: encoding succeeds, decoding the bytes succeeds, every original key comes
   back with its value (masked / prefixed for PAN processors), and every other key is a documented derived one *)
Theorem C01_roundtrip : forall cfg cd hexbm m,
  wf_cfgb cfg = true -> codec_okb cd = true -> wf_msgb cfg cd m = true ->
  exists b d, dumps cfg cd hexbm m = Ok b /\ loads cfg cd hexbm b = Ok d /\
    (forall k v, lookup m k = Some v -> lookup d k = Some (expected cfg k v)) /\
    (forall k, lookup d k <> None -> lookup m k <> None \/ derived_key cfg k = true).
Proof. exact c01_roundtrip. Qed.
Print Assumptions C01_roundtrip.

(* the hypotheses hold for the packaged configuration and every generated codec table (re-proved on every run) *)
Theorem C01_packaged_domain :
  wf_cfgb CU.gen.GenConfig.packaged_bit_config = true /\
  forallb (fun nt => codec_okb (mkcodec (snd nt))) CU.gen.GenCodec.codec_tables = true.
Proof. exact c01_packaged_domain. Qed.
Print Assumptions C01_packaged_domain.

(* a concrete instance for the packaged configuration and the latin_1 table: MTI 1144, a 16-digit DE2, an integer DE4,
   a date DE12 and two PDS keys given out of order.  The message is in the domain, both bitmap renderings round-trip,
   and the only additional key is the carrier DE48 holding the two packed sub-elements *)
Definition c01_ex_msg : dict :=
  [ (KMTI, VStr [49; 49; 52; 52]%N);
    (KDE 2, VStr [52; 52; 52; 52; 53; 53; 53; 53; 54; 54; 54; 54; 55; 55; 55; 55]%N);
    (KDE 4, VInt 9999%Z);
    (KDE 12, VDate (mkdt 2021 3 4 5 6 7));
    (KPDS [48; 49; 52; 56]%N, VStr [88; 89; 90]%N);
    (KPDS [48; 48; 50; 51]%N, VStr [65; 66]%N) ].
Definition c01_ex_decoded : dict :=
  [ (KMTI, VStr [49; 49; 52; 52]%N);
    (KDE 2, VStr [52; 52; 52; 52; 53; 53; 53; 53; 54; 54; 54; 54; 55; 55; 55; 55]%N);
    (KDE 4, VInt 9999%Z);
    (KDE 12, VDate (mkdt 2021 3 4 5 6 7));
    (KDE 48, VStr [48; 48; 50; 51; 48; 48; 50; 65; 66; 48; 49; 52; 56; 48; 48; 51; 88; 89; 90]%N);
    (KPDS [48; 48; 50; 51]%N, VStr [65; 66]%N);
    (KPDS [48; 49; 52; 56]%N, VStr [88; 89; 90]%N) ].

Definition c01_ex_trip (cfg : cfgT) (cd : codec) (hexbm : bool) (m : dict) : result (nat * dict) :=
  match dumps cfg cd hexbm m with
  | Ok b => match loads cfg cd hexbm b with Ok d => Ok (length b, d) | _ => Raise EOther end
  | _ => Raise EOther
  end.

Example C01_example :
  match codec_named [108; 97; 116; 105; 110; 95; 49]%N with
  | Some cd =>
    let cfg := CU.gen.GenConfig.packaged_bit_config in
    wf_msgb cfg cd c01_ex_msg = true /\
    c01_ex_trip cfg cd false c01_ex_msg = Ok (84, c01_ex_decoded) /\
    c01_ex_trip cfg cd true c01_ex_msg = Ok (100, c01_ex_decoded)
  | None => False
  end.
Proof. vm_compute. repeat split. Qed.
Print Assumptions C01_example.
