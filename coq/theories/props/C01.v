(* C01 — ISO8583 round trip: decoding an encoded message returns every value unchanged. *)
From Coq Require Import List Arith NArith ZArith.
Require Import CU.model.Prim CU.model.Types CU.model.Unicode CU.model.Codec CU.model.Dates CU.model.Iso CU.spec.IsoSpec.
Require Import CU.proofs.IsoRoundtrip.
Import ListNotations.

(* every well-formed message, every well-formed configuration, every codec table of 256 entries,
   binary and hexadecimal bitmap: encoding succeeds, decoding the bytes succeeds, every original key comes
   back with its value (masked / prefixed for PAN processors), and every other key is a documented derived one *)
Theorem C01_roundtrip : forall cfg cd hexbm m,
  wf_cfgb cfg = true -> codec_okb cd = true -> wf_msgb cfg cd m = true ->
  exists b d, dumps cfg cd hexbm m = Ok b /\ loads cfg cd hexbm b = Ok d /\
    (forall k v, lookup m k = Some v -> lookup d k = Some (expected cfg k v)) /\
    (forall k, lookup d k <> None -> lookup m k <> None \/ derived_key cfg k = true).
Proof. exact c01_roundtrip. Qed.
Print Assumptions C01_roundtrip.

(* the hypotheses hold for the packaged configuration and every generated codec table (re-proved on every run) *)
Theorem C01_packaged_domain :
  wf_cfgb CU.gen.GenConfig.packaged_bit_config = true /\
  forallb (fun nt => codec_okb (mkcodec (snd nt))) CU.gen.GenCodec.codec_tables = true.
Proof. exact c01_packaged_domain. Qed.
Print Assumptions C01_packaged_domain.
