(* C01 (decimal elements) — an element of Python type "decimal" keeps its value through encode / decode.
   A Decimal is carried by its text: `VStr t` with t = str(d) (model/Dec.v). *)
From Coq Require Import List Arith NArith ZArith.
Require Import CU.model.Prim CU.model.Types CU.model.Dec CU.model.Iso.
Require Import CU.proofs.DecProofs.
Import ListNotations.

(* every decimal element configuration with a width of at least 1, every plain fixed-point decimal d (digits 0..9, no
   leading zero, exponent <= 0) that Python prints without exponent notation as t: the encoder's conversion writes
   format(d, '0<w>f'), and the decoder's conversion of exactly that text gives back the decimal that prints as t *)
Theorem C01_decimal_element : forall c w d t,
  f_ptype c = PTDec -> f_len c = Some w -> 1 <= w -> wf_decb d = true -> dec_str d = Some t ->
  pytype_to_string (VStr t) c = Ok (VStr (dec_fmt w d)) /\
  string_to_pytype (dec_fmt w d) c = Ok (VStr t).
Proof. exact dec_element_roundtrip. Qed.
Print Assumptions C01_decimal_element.

(* Decimal('-12.50') in a fixed element of width 8: written "-0012.50", read back as "-12.50" *)
Example C01_decimal_example :
  let c := mkfc FIXED (Some 8) PTDec [] PNone D43None in
  let t := [45; 49; 50; 46; 53; 48]%N in
  dec_parse t = DPlain (mkdec true [1; 2; 5; 0]%N 2) /\
  pytype_to_string (VStr t) c = Ok (VStr [45; 48; 48; 49; 50; 46; 53; 48]%N) /\
  string_to_pytype [45; 48; 48; 49; 50; 46; 53; 48]%N c = Ok (VStr t).
Proof. vm_compute. repeat split; reflexivity. Qed.

(* ---------------------------------------------------------------------------------------------------------------
   Decimal elements are INSIDE the domain of the message-level theorems (spec/IsoSpec.v):
     wf_fieldb c, f_ptype c = PTDec :  f_len c = Some w with 1 <= w, and no processor (f_proc c = PNone);
     wf_valb c cd (VStr t)          :  dec_parse t = DPlain d, wf_decb d, dec_str d = Some t (t is what Python prints),
                                       len_okb c (length (dec_fmt w d)) (fixed: exactly w characters; LL / LLL: at
                                       most 99 / 999) and every character of dec_fmt w d encodable in the codec.
   So C01_roundtrip (and C02 / C06 / C08 / C09 / C19, all stated over wf_cfgb / wf_msgb) speak about messages with
   decimal elements as they stand.  The theorem below is C01_roundtrip read at one decimal element: it adds nothing to
   the proof (it is a corollary), it spells out what the general statement means there — the value of a decimal
   element of a well-formed message IS the canonical text t of a plain decimal d, the encoder's conversion writes
   format(d, '0<w>f'), and the decoded message holds the same text t for the element (no masking: expected = id). *)
Require Import CU.model.Unicode CU.model.Codec CU.spec.IsoSpec CU.proofs.IsoRoundtrip.

Theorem C01_decimal_message : forall cfg cd hexbm m n c v,
  wf_cfgb cfg = true -> codec_okb cd = true -> wf_msgb cfg cd m = true ->
  cfg_get cfg n = Some c -> f_ptype c = PTDec -> lookup m (KDE n) = Some v ->
  exists t w d b dd,
    v = VStr t /\ f_len c = Some w /\ 1 <= w /\ f_proc c = PNone /\
    dec_parse t = DPlain d /\ wf_decb d = true /\ dec_str d = Some t /\
    pytype_to_string v c = Ok (VStr (dec_fmt w d)) /\
    dumps cfg cd hexbm m = Ok b /\ loads cfg cd hexbm b = Ok dd /\ lookup dd (KDE n) = Some (VStr t).
Proof. exact c01_decimal_message. Qed.
Print Assumptions C01_decimal_message.

(* the widened domain is inhabited: a configuration with a fixed decimal element of width 8 (DE5) and an LLVAR decimal
   element of minimum width 6 (DE6); the message MTI 1144, DE5 = Decimal('-12.50'), DE6 = Decimal('0.007').  Both
   domain predicates evaluate to true, and under latin_1 the message is written as
   "1144" + bitmap (bits 1, 5, 6) + "-0012.50" + "06" + "00.007" and read back to the same three entries, with either
   bitmap rendering *)
Definition c01dec_cfg : cfgT :=
  [ (5, mkfc FIXED (Some 8) PTDec [] PNone D43None);
    (6, mkfc LLVAR (Some 6) PTDec [] PNone D43None) ].
Definition c01dec_msg : dict :=
  [ (KMTI, VStr [49; 49; 52; 52]%N);
    (KDE 5, VStr [45; 49; 50; 46; 53; 48]%N);            (* -12.50 *)
    (KDE 6, VStr [48; 46; 48; 48; 55]%N) ].               (* 0.007 *)

Example C01_decimal_message_example :
  match codec_named [108; 97; 116; 105; 110; 95; 49]%N with
  | Some cd =>
    wf_cfgb c01dec_cfg = true /\ codec_okb cd = true /\ wf_msgb c01dec_cfg cd c01dec_msg = true /\
    dumps c01dec_cfg cd false c01dec_msg
    = Ok (map byte_of_N ([49; 49; 52; 52] ++ [140] ++ repeat 0 15
                         ++ [45; 48; 48; 49; 50; 46; 53; 48]                      (* -0012.50 *)
                         ++ [48; 54] ++ [48; 48; 46; 48; 48; 55])%N) /\            (* 06 00.007 *)
    (do b <- dumps c01dec_cfg cd false c01dec_msg; loads c01dec_cfg cd false b) = Ok c01dec_msg /\
    (do b <- dumps c01dec_cfg cd true c01dec_msg; loads c01dec_cfg cd true b) = Ok c01dec_msg
  | None => False
  end.
Proof. vm_compute. repeat split; reflexivity. Qed.
Print Assumptions C01_decimal_message_example.
