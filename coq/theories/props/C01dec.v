(* C01 (decimal elements) — an element of Python type "decimal" keeps its value through encode / decode.
   A Decimal is carried by its text: `VStr t` with t = str(d) (model/Dec.v). *)
From Coq Require Import List Arith NArith ZArith.
Require Import CU.model.Prim CU.model.Types CU.model.Dec CU.model.Iso.
Require Import CU.proofs.DecProofs.
Import ListNotations.

(* every decimal element configuration with a width of at least 1, every plain fixed-point decimal d (digits 0..9, no
   leading zero, exponent <= 0) that Python prints without exponent notation as t: the encoder's conversion writes
   format(d, '0<w>f'), and the decoder's conversion of exactly that text gives back the decimal that prints as t *)
Theorem C01_decimal_element : forall c w d t,
  f_ptype c = PTDec -> f_len c = Some w -> 1 <= w -> wf_decb d = true -> dec_str d = Some t ->
  pytype_to_string (VStr t) c = Ok (VStr (dec_fmt w d)) /\
  string_to_pytype (dec_fmt w d) c = Ok (VStr t).
Proof. exact dec_element_roundtrip. Qed.
Print Assumptions C01_decimal_element.

(* Decimal('-12.50') in a fixed element of width 8: written "-0012.50", read back as "-12.50" *)
Example C01_decimal_example :
  let c := mkfc FIXED (Some 8) PTDec [] PNone D43None in
  let t := [45; 49; 50; 46; 53; 48]%N in
  dec_parse t = DPlain (mkdec true [1; 2; 5; 0]%N 2) /\
  pytype_to_string (VStr t) c = Ok (VStr [45; 48; 48; 49; 50; 46; 53; 48]%N) /\
  string_to_pytype [45; 48; 48; 49; 50; 46; 53; 48]%N c = Ok (VStr t).
Proof. vm_compute. repeat split; reflexivity. Qed.
