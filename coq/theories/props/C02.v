(* C02 — ISO8583 wire format conforms to the documented layout, in both directions. *)
From Coq Require Import List Arith NArith ZArith.
Require Import CU.model.Prim CU.model.Types CU.model.Unicode CU.model.Codec CU.model.Dates CU.model.Iso CU.spec.IsoSpec.
Require Import CU.proofs.IsoWire.
Import ListNotations.

(* the message as the encoder sees it after PDS packing: carriers filled with the packed chunks (C12 says which) *)
Definition packed (cfg : cfgT) (m m1 : dict) : Prop :=
  exists chunks, pds_to_de m = Ok chunks /\ assign_pds m chunks (pds_bits cfg) = Ok m1.

(* Whenever encoding returns, the bytes are exactly MTI, then the 128-bit bitmap (bit 1 set; bit n set iff element n
   is present; 16 raw bytes or their 32 lowercase hex characters), then the present elements in ascending order, each
   rendered per its configuration (IsoSpec.elem_wire). *)
Theorem C02_encode : forall cfg cd hexbm m b, dumps cfg cd hexbm m = Ok b ->
  exists m1 mti bm body,
    packed cfg m m1 /\
    b = mti ++ (if hexbm then map byte_of_N (hexlify bm) else bm) ++ body /\
    (match lookup m KMTI with Some (VStr s) => encode cd s = Ok mti | _ => mti = [] end) /\
    length bm = 16 /\
    (forall n, 1 <= n <= 128 -> bit_set bm n = (Nat.eqb n 1 || existsb (Nat.eqb n) (present_elems m1))) /\
    wire_body cfg cd m1 = Some body.
Proof. exact c02_encode. Qed.
Print Assumptions C02_encode.

(* lowercase hex rendering: 32 characters 0-9a-f that read back as the same 16 bytes *)
Theorem C02_hex_bitmap : forall bm, length bm = 16 ->
  length (hexlify bm) = 32 /\ Forall (fun c => ((48 <=? c) && (c <=? 57) || (97 <=? c) && (c <=? 102))%N = true) (hexlify bm) /\
  unhexlify (hexlify bm) = Some bm.
Proof. exact c02_hex_bitmap. Qed.
Print Assumptions C02_hex_bitmap.

(* a value that the layout cannot represent is refused with the library error, never emitted with a malformed prefix *)
Theorem C02_overlength_refused : forall c cd v s,
  is_var (f_type c) = true -> pytype_to_string v c = Ok (VStr s) -> vmax (f_type c) < length s ->
  field_to_iso c v cd = Raise EData.
Proof. exact c02_overlength_refused. Qed.
Print Assumptions C02_overlength_refused.

Theorem C02_overlength_refused_bytes : forall c cd b,
  is_var (f_type c) = true -> f_ptype c = PTStr -> vmax (f_type c) < length b ->
  field_to_iso c (VBytes b) cd = Raise EData.
Proof. exact c02_overlength_refused_bytes. Qed.
Print Assumptions C02_overlength_refused_bytes.

(* decoding direction: a message of the documented layout decodes to the values it carries — this is C08_sound
   (each value is the content of its own bytes) together with C01_roundtrip; the harness additionally compares the
   decoder with an independent reading of the same bytes. *)
