(* C02 — ISO8583 wire format conforms to the documented layout, in both directions. *)
From Coq Require Import List Bool Arith NArith ZArith.
Require Import CU.model.Prim CU.model.Types CU.model.Unicode CU.model.Codec CU.model.Dates CU.model.Iso CU.spec.IsoSpec.
Require Import CU.proofs.IsoWire.
Require Import CU.gen.GenConfig.
Import ListNotations.

(* the message as the encoder sees it after PDS packing: carriers filled with the packed chunks (C12 says which) *)
Definition packed (cfg : cfgT) (m m1 : dict) : Prop :=
  exists chunks, pds_to_de m = Ok chunks /\ assign_pds m chunks (pds_bits cfg) = Ok m1.

(* The library also accepts, for an int element, a numeral given as str (it applies int() to it) and, for a datetime
   element, an ISO 8601 date-time string (any spelling read by Dates.parse_iso_any); IsoSpec.elem_text only renders
   values of the element's own Python type.
   `native_valueb` says a value is of its element's own type, `as_native` reads such a str as the int / datetime it
   denotes (identity on every other value). *)
Definition native_valueb (c : fieldcfg) (v : value) : bool :=
  match f_ptype c, v with
  | PTInt, VStr _ | PTDate, VStr _ => false
  | _, _ => true
  end.
Definition as_native (c : fieldcfg) (v : value) : value :=
  match f_ptype c, v with
  | PTInt, VStr s => match py_int s with Some z => VInt z | None => v end
  | PTDate, VStr s => match parse_iso_any s with Some d => VDate d | None => v end
  | _, _ => v
  end.
(* every present element holds a value of its own Python type *)
Definition typed_values_native (cfg : cfgT) (m1 : dict) : bool :=
  forallb (fun n => match cfg_get cfg n, lookup m1 (KDE n) with
                    | Some c, Some v => native_valueb c v
                    | _, _ => true
                    end) (present_elems m1).
(* IsoSpec.wire_body with each value read through as_native *)
Definition wire_body_coerced (cfg : cfgT) (cd : codec) (m : dict) : option bytes :=
  concat_opt (map (fun n => match cfg_get cfg n, lookup m (KDE n) with
                            | Some c, Some v => elem_wire c cd (as_native c v)
                            | _, _ => None
                            end) (present_elems m)).

(* Whenever encoding returns, the bytes are exactly MTI, then the 128-bit bitmap (bit 1 set; bit n set iff element n
   is present; 16 raw bytes or their 32 lowercase hex characters), then the present elements in ascending order, each
   rendered per its configuration (IsoSpec.elem_wire): unconditionally for the values read through as_native, and for
   the values as given whenever they are all of their element's own type. *)
Theorem C02_encode : forall cfg cd hexbm m b, dumps cfg cd hexbm m = Ok b ->
  exists m1 mti bm body,
    packed cfg m m1 /\
    b = mti ++ (if hexbm then map byte_of_N (hexlify bm) else bm) ++ body /\
    (match lookup m KMTI with Some (VStr s) => encode cd s = Ok mti | _ => mti = [] end) /\
    length bm = 16 /\
    (forall n, 1 <= n <= 128 -> bit_set bm n = (Nat.eqb n 1 || existsb (Nat.eqb n) (present_elems m1))) /\
    wire_body_coerced cfg cd m1 = Some body /\
    (typed_values_native cfg m1 = true -> wire_body cfg cd m1 = Some body).
Proof. exact c02_encode. Qed.
Print Assumptions C02_encode.

(* lowercase hex rendering: 32 characters 0-9a-f that read back as the same 16 bytes *)
Theorem C02_hex_bitmap : forall bm, length bm = 16 ->
  length (hexlify bm) = 32 /\ Forall (fun c => ((48 <=? c) && (c <=? 57) || (97 <=? c) && (c <=? 102))%N = true) (hexlify bm) /\
  unhexlify (hexlify bm) = Some bm.
Proof. exact c02_hex_bitmap. Qed.
Print Assumptions C02_hex_bitmap.

(* a value that the layout cannot represent is refused with the library error, never emitted with a malformed prefix *)
Theorem C02_overlength_refused : forall c cd v s,
  is_var (f_type c) = true -> pytype_to_string v c = Ok (VStr s) -> vmax (f_type c) < length s ->
  field_to_iso c v cd = Raise EData.
Proof. exact c02_overlength_refused. Qed.
Print Assumptions C02_overlength_refused.

Theorem C02_overlength_refused_bytes : forall c cd b,
  is_var (f_type c) = true -> f_ptype c = PTStr -> vmax (f_type c) < length b ->
  field_to_iso c (VBytes b) cd = Raise EData.
Proof. exact c02_overlength_refused_bytes. Qed.
Print Assumptions C02_overlength_refused_bytes.

(* decoding direction: a message of the documented layout decodes to the values it carries — this is C08_sound
   (each value is the content of its own bytes) together with C01_roundtrip; the harness additionally compares the
   decoder with an independent reading of the same bytes. *)

(* the documented example of iso8583.py (DE2 only: bitmap c0 00.., "16" + PAN), and a message with an LLVAR, a fixed
   text and a fixed int element, under the packaged configuration and latin_1 *)
Definition ex_pan : str := [52; 52; 52; 52; 53; 53; 53; 53; 54; 54; 54; 54; 55; 55; 55; 55]%N.       (* 4444555566667777 *)
Definition ex_dumps (hexbm : bool) (m : dict) : result bytes :=
  match codec_named [108; 97; 116; 105; 110; 95; 49]%N with                                       (* latin_1 *)
  | Some cd => dumps packaged_bit_config cd hexbm m
  | None => Unmodelled
  end.

Example C02_example_doc :
  ex_dumps false [(KMTI, VStr [49; 49; 52; 52]%N); (KDE 2, VStr ex_pan)]
  = Ok (map byte_of_N ([49; 49; 52; 52] ++ [192] ++ repeat 0 15 ++ [49; 54] ++ ex_pan)%N).
Proof. vm_compute. reflexivity. Qed.

Example C02_example_doc_hex :
  ex_dumps true [(KMTI, VStr [49; 49; 52; 52]%N); (KDE 2, VStr ex_pan)]
  = Ok (map byte_of_N ([49; 49; 52; 52] ++ [99; 48] ++ repeat 48 30 ++ [49; 54] ++ ex_pan)%N).
Proof. vm_compute. reflexivity. Qed.

Example C02_example :
  ex_dumps false [(KMTI, VStr [49; 49; 52; 52]%N); (KDE 2, VStr ex_pan);
                  (KDE 3, VStr [49; 50; 51; 52; 53; 54]%N); (KDE 4, VInt 9999)]
  = Ok (map byte_of_N ([49; 49; 52; 52]                                   (* MTI 1144 *)
                       ++ [240] ++ repeat 0 15                            (* bits 1-4 *)
                       ++ [49; 54] ++ ex_pan                              (* DE2 LLVAR: "16" + 16 digits *)
                       ++ [49; 50; 51; 52; 53; 54]                        (* DE3 fixed 6 *)
                       ++ [48; 48; 48; 48; 48; 48; 48; 48; 57; 57; 57; 57])%N).   (* DE4 int, zero-padded to 12 *)
Proof. vm_compute. reflexivity. Qed.

(* a numeral given as str for the int element DE4 encodes to the same bytes: the case C02_encode covers through
   as_native (IsoSpec.wire_body itself is undefined on it) *)
Example C02_example_coerced :
  ex_dumps false [(KMTI, VStr [49; 49; 52; 52]%N); (KDE 4, VStr [57; 57; 57; 57]%N)]
  = ex_dumps false [(KMTI, VStr [49; 49; 52; 52]%N); (KDE 4, VInt 9999)]
  /\ match codec_named [108; 97; 116; 105; 110; 95; 49]%N with
     | Some cd => wire_body packaged_bit_config cd [(KMTI, VStr [49; 49; 52; 52]%N); (KDE 4, VStr [57; 57; 57; 57]%N)] = None
     | None => False
     end.
Proof. vm_compute. split; reflexivity. Qed.
