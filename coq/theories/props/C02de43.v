(* C02 (decode direction, merchant field) — the DE43_* entries are the named groups of a match of the configured pattern.
   The pattern itself is data: it is translated from /repo's configuration on every run (gen/GenConfig.v). *)
From Coq Require Import List Arith NArith.
Require Import CU.model.Prim CU.model.Types CU.model.Unicode CU.model.Regex CU.spec.RegexSpec CU.proofs.RegexProofs.
Require CU.gen.GenConfig.
Import ListNotations.

(* the backtracking matcher succeeds exactly when the subject has a prefix in the language of the pattern ... *)
Theorem C02_de43_match_iff : forall p s, (exists cp, re_match p s = Some cp) <-> matchable p s.
Proof. exact rx_match_iff. Qed.
Print Assumptions C02_de43_match_iff.

(* ... every capture it reports lies inside the subject ... *)
Theorem C02_de43_captures_inside : forall p s cp n a b,
  re_match p s = Some cp -> cap_get cp n = Some (a, b) -> a <= b /\ b <= length s.
Proof. exact rx_captures_inside. Qed.
Print Assumptions C02_de43_captures_inside.

(* ... so every derived entry is a named group of the pattern and a contiguous piece of the element's own value
   (DE43_POSTCODE: that piece without its trailing white space); no match, or no pattern: no entries *)
Theorem C02_de43_entries : forall d s gs n v,
  de43_fields d s = Some gs -> In (n, v) gs ->
  exists p a b, d = D43Re p /\ In n (regex_groups p) /\ a <= b /\ b <= length s /\
                (v = slice a b s \/ (n = de43_postcode /\ v = rstrip (slice a b s))).
Proof. exact rx_de43_entries. Qed.
Print Assumptions C02_de43_entries.

Theorem C02_de43_no_match : forall p s, ~ matchable p s -> de43_fields (D43Re p) s = Some [].
Proof. exact rx_de43_no_match. Qed.
Print Assumptions C02_de43_no_match.

(* the packaged merchant pattern, as translated from /repo on this run, on the documentation's example *)
Definition packaged_de43 : de43cfg :=
  match cfg_get CU.gen.GenConfig.packaged_bit_config 43 with Some c => f_de43 c | None => D43None end.
Definition s_of (l : list nat) : str := map N.of_nat l.
Example C02_de43_example :
  (* "BIG W\1 HIGH ST\SYDNEY       \2000      NSWAUS" *)
  de43_fields packaged_de43
    (s_of [66;73;71;32;87; 92; 49;32;72;73;71;72;32;83;84; 92; 83;89;68;78;69;89;32;32;32;32;32;32;32; 92;
           50;48;48;48;32;32;32;32;32;32; 78;83;87; 65;85;83])
  = Some [ (s_of [68;69;52;51;95;78;65;77;69], s_of [66;73;71;32;87]);
           (s_of [68;69;52;51;95;65;68;68;82;69;83;83], s_of [49;32;72;73;71;72;32;83;84]);
           (s_of [68;69;52;51;95;83;85;66;85;82;66], s_of [83;89;68;78;69;89]);
           (s_of [68;69;52;51;95;80;79;83;84;67;79;68;69], s_of [50;48;48;48]);
           (s_of [68;69;52;51;95;83;84;65;84;69], s_of [78;83;87]);
           (s_of [68;69;52;51;95;67;79;85;78;84;82;89], s_of [65;85;83]) ].
Proof. vm_compute. reflexivity. Qed.
