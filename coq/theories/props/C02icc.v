(* C02 (decode direction, chip data) — the TAGxxxx / ICC_DATA entries are exactly the items the field carries. *)
From Coq Require Import List Arith NArith.
From Coq Require Import Strings.Byte.
Require Import CU.model.Prim CU.model.Types CU.model.Iso CU.spec.IccSpec CU.proofs.IccProofs.
Import ListNotations.

(* the entries an item list stands for: ICC_DATA = the whole field in hex, then one TAG<upper-case hex of the tag> =
   <hex of the value> per item, in order (a tag that occurs twice keeps its first position and its last value: dict update) *)
Definition icc_entries (field : bytes) (items : list tlv) : dict :=
  fold_left (fun d i => dset d (KTAG (upper (hexlify (t_tag i)))) (VStr (hexlify (t_val i)))) items [(KICC, VStr (hexlify field))].

(* any sequence of well-formed items followed by any amount of low-values filler is read as exactly those items *)
Theorem C02_icc_entries : forall items filler, Forall tlv_ok items ->
  icc_to_dict (icc_wire items filler) = Ok (icc_entries (icc_wire items filler) items).
Proof. exact c02_icc_entries. Qed.
Print Assumptions C02_icc_entries.

(* 9F26 (8 bytes), 82 (2 bytes), 5F2A (2 bytes), three filler bytes *)
Example C02_icc_example :
  let items := [mktlv [x9f; x26] [x01; x02; x03; x04; x05; x06; x07; x08]; mktlv [x82] [x19; x80]; mktlv [x5f; x2a] [x00; x36]] in
  icc_to_dict (icc_wire items 3) = Ok (icc_entries (icc_wire items 3) items) /\
  map fst (icc_entries (icc_wire items 3) items)
  = [KICC; KTAG (map N.of_nat [57; 70; 50; 54]); KTAG (map N.of_nat [56; 50]); KTAG (map N.of_nat [53; 70; 50; 65])].
Proof. vm_compute. split; reflexivity. Qed.
