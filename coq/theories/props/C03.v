(* C03 — VBS framing: any record list survives write then read, with byte-exact layout. *)
From Coq Require Import List Arith NArith.
Require Import CU.model.Prim CU.model.Block CU.model.Vbs CU.spec.FramingSpec CU.proofs.BlockProofs CU.proofs.VbsProofs.
Import ListNotations.

Section C03.
Variable B : nat.
Hypothesis Bpos : 0 < B.
Variable maxlen : N.
Hypothesis maxlen_ok : (maxlen < 2 ^ 32)%N.

Definition written (blocked : bool) (rs : list bytes) : bytes :=
  file_of (writer_run B blocked (map WWrite rs ++ [WClose])).

(* unblocked file = each record preceded by its 4-byte big-endian length, then a zero length *)
Theorem C03_layout_unblocked : forall rs, written false rs = vbs rs.
Proof. exact (c03_layout_unblocked B). Qed.

(* blocked file = whole blocks with correct trailers carrying that same stream (plus 0x40 fill) as payload *)
Theorem C03_layout_blocked : forall rs,
  wf_blocks B (written true rs) = true /\
  exists n, n <= B /\ payload B (written true rs) = vbs rs ++ repeat pad n.
Proof. exact (c03_layout_blocked B Bpos). Qed.

(* be32 is the 4-byte big-endian integer *)
Theorem C03_length_prefix : forall n, (n < 2 ^ 32)%N -> length (be32 n) = 4 /\ unbe (be32 n) = n.
Proof. exact c03_length_prefix. Qed.

Theorem C03_roundtrip : forall blocked rs, Forall (wf_rec maxlen) rs ->
  read_all B maxlen (written blocked rs) blocked = Ok (rs, End).
Proof. exact (c03_roundtrip B Bpos maxlen maxlen_ok). Qed.

(* the list/bytes convenience function returns the same file *)
Theorem C03_list_to_bytes : forall blocked rs, vbs_list_to_bytes B blocked rs = written blocked rs.
Proof. exact (c03_list_to_bytes B Bpos). Qed.
End C03.

Print Assumptions C03_layout_unblocked.
Print Assumptions C03_layout_blocked.
Print Assumptions C03_length_prefix.
Print Assumptions C03_roundtrip.
Print Assumptions C03_list_to_bytes.

Example C03_example : written 3 true [[x01]; [x02; x03]]
  = [x00; x00; x00; x40; x40; x01; x01; x00; x40; x40; x00; x00; x02; x40; x40; x02; x03; x00; x40; x40;
     x00; x00; x00; x40; x40].
Proof. vm_compute. reflexivity. Qed.
