(* C04 — 1014 blocking: output is well-formed and data-exact for every write sequence.
   Generic in the payload size B > 0; the code's constant is B = 1012 (instance at the end). *)
From Coq Require Import List Arith NArith.
Require Import CU.model.Prim CU.model.Block CU.spec.FramingSpec CU.proofs.BlockProofs.
Import ListNotations.

Section C04.
Variable B : nat.
Hypothesis Bpos : 0 < B.

Definition run (ws : list bytes) : blocker := fold_left (bwrite B) ws (binit B fempty).
Definition out (ws : list bytes) : bytes := fdata (bfile (bfinalise B (run ws))).

(* however the data is split across write calls: the finalised output is the documented layout of
   (all bytes written, in order) ++ (0x40 fill), the total is a whole number of payloads, and the fill
   is at most one payload long (so at most one block holds fill only) *)
Theorem C04_every_write_sequence : forall ws,
  brem (run ws) <= B /\
  (exists k, length (concat ws) + brem (run ws) = k * B) /\
  out ws = lay B (concat ws ++ repeat pad (brem (run ws))).
Proof. exact (c04_every_write_sequence B Bpos). Qed.

(* what the documented layout of k whole payloads looks like: k blocks of B+2 bytes, each ending in
   two 0x40, whose payloads concatenated are exactly the data (nothing dropped, duplicated or moved) *)
Theorem C04_layout_blocks : forall d k, length d = k * B ->
  length (lay B d) = k * (B + 2) /\ wf_blocks B (lay B d) = true /\ payload B (lay B d) = d.
Proof. exact (c04_layout_blocks B Bpos). Qed.

(* the one-shot function produces the documented layout of data ++ minimal fill *)
Theorem C04_oneshot : forall d, block_oneshot B d = blocked_oneshot B d.
Proof. exact (c04_oneshot B Bpos). Qed.

(* streaming and one-shot agree, apart from an optional trailing all-fill block *)
Theorem C04_stream_vs_oneshot : forall ws,
  out ws = block_oneshot B (concat ws) ++ (if Nat.eqb (brem (run ws)) B then repeat pad (B + 2) else []).
Proof. exact (c04_stream_vs_oneshot B Bpos). Qed.
End C04.

Print Assumptions C04_every_write_sequence.
Print Assumptions C04_layout_blocks.
Print Assumptions C04_oneshot.
Print Assumptions C04_stream_vs_oneshot.

(* the code's instance *)
Corollary C04_1012 : forall ws,
  exists k fill, fill = repeat pad (brem (run 1012 ws)) /\ length fill <= 1012 /\
    length (out 1012 ws) = k * 1014 /\ wf_blocks 1012 (out 1012 ws) = true /\
    payload 1012 (out 1012 ws) = concat ws ++ fill.
Proof.
  intros ws. assert (P : 0 < 1012) by (apply Nat.lt_0_succ).
  destruct (C04_every_write_sequence 1012 P ws) as [Hr [[k Hk] Ho]].
  exists k, (repeat pad (brem (run 1012 ws))). split; [reflexivity|]. split; [rewrite repeat_length; exact Hr|].
  assert (L : length (concat ws ++ repeat pad (brem (run 1012 ws))) = k * 1012)
    by (rewrite app_length, repeat_length; exact Hk).
  destruct (C04_layout_blocks 1012 P _ k L) as [H1 [H2 H3]].
  rewrite Ho. auto.
Qed.
Print Assumptions C04_1012.

(* non-vacuity: a write that ends exactly on a block boundary (trailer pending), B = 3 *)
Example C04_example :
  out 3 [[x01; x02]; []; [x03; x04; x05; x06]; [x07]]
  = [x01; x02; x03; x40; x40; x04; x05; x06; x40; x40; x07; x40; x40; x40; x40].
Proof. vm_compute. reflexivity. Qed.
