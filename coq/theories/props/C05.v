(* C05 — 1014 unblocking: reads return the exact payload stream for every read sequence. *)
From Coq Require Import List Arith NArith.
Require Import CU.model.Prim CU.model.Block CU.model.Vbs CU.spec.FramingSpec CU.proofs.BlockProofs CU.proofs.VbsProofs.
Import ListNotations.

Section C05.
Variable B : nat.
Hypothesis Bpos : 0 < B.

(* any blocked input (also a damaged / short one), any sequence of read sizes; size 0 = "no size" *)
Theorem C05_every_read_sequence : forall f ns,
  ureads B (uinit (fopen f)) ns = Ok (slices (payload B f) ns).
Proof. exact (c05_every_read_sequence B Bpos). Qed.

(* record reading from a blocked file = record reading from the equivalent unblocked stream *)
Theorem C05_reader_refines : forall maxlen f,
  read_all B maxlen f true = read_all B maxlen (payload B f) false.
Proof. exact (c05_reader_refines B Bpos). Qed.

(* the one-shot unblocker inverts the one-shot blocker up to 0x40 fill *)
Theorem C05_unblock_block : forall d,
  unblock_oneshot B (block_oneshot B d) = Ok (d ++ repeat pad (fill_len B (length d))).
Proof. exact (c05_unblock_block B Bpos). Qed.

(* and accepts exactly the inputs that are whole blocks with correct trailers *)
Theorem C05_unblock_validates : forall f,
  (wf_blocks B f = true -> unblock_oneshot B f = Ok (payload B f)) /\
  (wf_blocks B f = false -> unblock_oneshot B f = Raise EData).
Proof. exact (c05_unblock_validates B Bpos). Qed.
End C05.

Print Assumptions C05_every_read_sequence.
Print Assumptions C05_reader_refines.
Print Assumptions C05_unblock_block.
Print Assumptions C05_unblock_validates.

Example C05_example :   (* B = 3; reads of 2, all, 1 over a file whose last block is short *)
  ureads 3 (uinit (fopen [x01; x02; x03; x40; x40; x04; x05])) [2; 0; 1]
  = Ok [[x01; x02]; [x03; x04; x05]; []].
Proof. vm_compute. reflexivity. Qed.
