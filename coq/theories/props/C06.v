(* C06 — IPM file round trip: messages written are the messages read back; instances are independent. *)
From Coq Require Import List Arith NArith ZArith.
Require Import CU.model.Prim CU.model.Types CU.model.Codec CU.model.Block CU.model.Vbs CU.model.Iso CU.model.Ipm.
Require Import CU.spec.FramingSpec CU.spec.IsoSpec CU.proofs.IpmProofs.
Require CU.gen.GenConfig.
Import ListNotations.

(* a decoded record agrees with the message written: the two clauses of C01 *)
Definition agrees (cfg : cfgT) (m d : dict) : Prop :=
  (forall k v, lookup m k = Some v -> lookup d k = Some (expected cfg k v)) /\
  (forall k, lookup d k <> None -> lookup m k <> None \/ derived_key cfg k = true).

(* a message whose encoding fits a VBS record *)
Definition fits (cfg : cfgT) (cd : codec) (maxlen : N) (m : dict) : Prop :=
  wf_msgb cfg cd m = true /\ forall b, dumps cfg cd false m = Ok b -> (N.of_nat (length b) <= maxlen)%N.

Section C06.
Variable B : nat.
Hypothesis Bpos : 0 < B.
Variable maxlen : N.
Hypothesis maxlen_ok : (maxlen < 2 ^ 32)%N.

(* any number of well-formed messages, any mix of shapes, VBS or 1014, any well-formed configuration and codec *)
Theorem C06_roundtrip : forall cfg cd blocked ms,
  wf_cfgb cfg = true -> codec_okb cd = true -> Forall (fits cfg cd maxlen) ms ->
  exists file ds, ipm_file B cfg cd blocked ms = Ok file /\
                  iread_all B maxlen cfg cd file blocked = Ok (ds, End) /\
                  Forall2 (agrees cfg) ms ds.
Proof. exact (c06_roundtrip B Bpos maxlen maxlen_ok). Qed.

(* instances do not influence each other: a system of instances, each stepped by its own operations, behaves for
   every interleaving as each instance run alone.  (In the model a reader/writer step is a function of the instance's
   own state only — there is no shared component; that the CODE has no shared state is what the interleaving runs of
   the harness check, including the class-level attributes of VbsReader.) *)
Theorem C06_isolation : forall (S Op : Type) (step : S -> Op -> S) (ops : list (nat * Op)) (insts : list S) i,
  nth_error (run_interleaved step ops insts) i =
  option_map (fun s => fold_left step (map snd (filter (fun o => Nat.eqb (fst o) i) ops)) s) (nth_error insts i).
Proof. exact c06_isolation. Qed.
End C06.

Print Assumptions C06_roundtrip.
Print Assumptions C06_isolation.

(* non-vacuity: a two-message blocked file for the packaged configuration under cp500 reads back as two records *)
Example C06_example :
  match codec_named [99;112;53;48;48]%N with
  | Some cd =>
    let m1 := [(KMTI, VStr [49;50;52;48]%N); (KDE 2, VStr [52;52;52;52;53;53;53;53;54;54;54;54;55;55;55;55]%N); (KDE 4, VInt 9999)] in
    let m2 := [(KMTI, VStr [49;50;52;48]%N); (KPDS [48;49;52;56]%N, VStr [65;66]%N)] in
    match ipm_file 1012 CU.gen.GenConfig.packaged_bit_config cd true [m1; m2] with
    | Ok f => match iread_all 1012 6000 CU.gen.GenConfig.packaged_bit_config cd f true with
              | Ok (ds, End) => length f = 1014 /\ length ds = 2 /\ lookup (nth 1 ds []) (KPDS [48;49;52;56]%N) = Some (VStr [65;66]%N)
                                /\ lookup (nth 0 ds []) (KDE 4) = Some (VInt 9999)
              | _ => False end
    | _ => False end
  | None => False
  end.
Proof. vm_compute. auto. Qed.
