(* C07 — decoding never hangs or crashes: any bytes give a result or the library error. *)
From Coq Require Import List Arith NArith ZArith.
Require Import CU.model.Prim CU.model.Types CU.model.Unicode CU.model.Codec CU.model.Dates CU.model.Iso CU.model.Block CU.model.Vbs CU.model.Ipm.
Require Import CU.model.Tools.
Require Import CU.spec.IsoSpec CU.proofs.IsoFraming CU.proofs.IsoTotal CU.proofs.ToolsTotal.
Require CU.gen.GenConfig.
Import ListNotations.

(* the only outcomes: a dictionary, the library's data error, or `Unmodelled` (input on which an external oracle —
   strptime on a non-canonical string, Decimal — decides; its outcome class is the oracle assumption of DESIGN.md).
   In particular never OutOfFuel: the explicit fuel (length + 1) always suffices, i.e. every loop terminates within a
   number of iterations linear in the input. *)
Definition benign {A} (r : result A) : Prop :=
  match r with Ok _ | Raise EData | Unmodelled => True | _ => False end.

Definition has_lengths (cfg : cfgT) : Prop := forall n c, cfg_get cfg n = Some c -> f_len c <> None.

(* the merchant-field processor splits text: a configuration that puts it, WITH a pattern, on an int / datetime element is a
   caller error (re.match then raises TypeError whatever the message says); without a pattern it does nothing *)
Definition de43_on_text (cfg : cfgT) : Prop :=
  forall n c, cfg_get cfg n = Some c -> f_proc c = PDE43 -> f_ptype c <> PTStr -> f_de43 c = D43None.

Theorem C07_loads_total : forall cfg cd hexbm b, has_lengths cfg -> de43_on_text cfg -> benign (loads cfg cd hexbm b).
Proof. exact c07_loads_total. Qed.
Print Assumptions C07_loads_total.

Theorem C07_pds_walk_total : forall s, pds_to_dict s = Raise EData \/ exists d, pds_to_dict s = Ok d.
Proof. exact c07_pds_walk_total. Qed.
Print Assumptions C07_pds_walk_total.

Theorem C07_icc_walk_total : forall b, icc_to_dict b = Raise EData \/ exists d, icc_to_dict b = Ok d.
Proof. exact c07_icc_walk_total. Qed.
Print Assumptions C07_icc_walk_total.

(* VBS reader: every file content yields records and then ends or raises the data error *)
Theorem C07_vbs_reader_total : forall B maxlen f blocked, 0 < B ->
  exists rs e, read_all B maxlen f blocked = Ok (rs, e).
Proof. exact c07_vbs_reader_total. Qed.
Print Assumptions C07_vbs_reader_total.

(* IPM reader *)
Theorem C07_ipm_reader_total : forall B maxlen cfg cd f blocked, 0 < B -> has_lengths cfg -> de43_on_text cfg ->
  benign (iread_all B maxlen cfg cd f blocked).
Proof. exact c07_ipm_reader_total. Qed.
Print Assumptions C07_ipm_reader_total.

(* the reading tools (mci_ipm_to_csv, mideu extract: rows of the requested columns for every record of the file) catch only
   the library's data error: for every file content they end with rows or with that error, never with another exception *)
Theorem C07_tools_total : forall B maxlen cfg cd blocked cols f, 0 < B -> has_lengths cfg -> de43_on_text cfg ->
  benign (ipm_to_rows B maxlen cfg cd blocked cols f).
Proof. exact c07_tools_total. Qed.
Print Assumptions C07_tools_total.

(* ... and so does the CSV text they write (csv writing is total: model/Csv.v) *)
Theorem C07_csv_tool_total : forall B maxlen cfg cd blocked cols f, 0 < B -> has_lengths cfg -> de43_on_text cfg ->
  benign (CU.model.Csv.ipm_to_csv_text B maxlen cfg cd blocked cols f).
Proof. exact c07_csv_tool_total. Qed.
Print Assumptions C07_csv_tool_total.

(* the packaged configuration is such a configuration (generated obligation, re-proved on every run) *)
Theorem C07_packaged_sane : has_lengths CU.gen.GenConfig.packaged_bit_config /\ de43_on_text CU.gen.GenConfig.packaged_bit_config.
Proof. exact c07_packaged_sane. Qed.
Print Assumptions C07_packaged_sane.

(* non-vacuity: the historical hanging input (PDS sub-length -07) is now refused, on the packaged configuration *)
Example C07_example :
  match codec_named [108;97;116;105;110;95;49]%N with
  | Some cd => loads CU.gen.GenConfig.packaged_bit_config cd false
                 (map byte_of_N [49;49;52;52; 0;0;0;0;0;1;0;0;0;0;0;0;0;0;0;0; 48;48;55; 48;48;48;49;45;48;55]%N) = Raise EData
  | None => False
  end.
Proof. vm_compute. reflexivity. Qed.
