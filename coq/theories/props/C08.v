(* C08 — decoding accepts exactly the well-framed messages and never mis-frames one. *)
From Coq Require Import List Arith NArith ZArith.
Require Import CU.model.Prim CU.model.Types CU.model.Unicode CU.model.Codec CU.model.Dates CU.model.Card CU.model.Iso CU.spec.IsoSpec.
Require Import CU.proofs.IsoFraming CU.proofs.IsoNoInvention.
Require CU.gen.GenConfig.
Import ListNotations.

(* header split of an accepted message *)
Definition hdr (hexbm : bool) : nat := if hexbm then 36 else 20.
Definition bitmap_of_msg (hexbm : bool) (b : bytes) : option bytes :=
  if hexbm then unhexlify (ascii_str (slice 4 36 b)) else Some (slice 4 20 b).

(* the value an element's own bytes carry: decode, processor, typed conversion (ICC: the raw bytes) *)
Definition elem_value (c : fieldcfg) (cd : codec) (raw : bytes) : result value :=
  match f_proc c with
  | PICC => Ok (VBytes raw)
  | p => do s0 <- decode cd raw;
         string_to_pytype (match p with PPAN => mask s0 star | PPANPREFIX => firstn 9 s0 | _ => s0 end) c
  end.

(* the declared length of a frame: the configured width, or the (non-negative) numeral in its prefix *)
Definition declared (c : fieldcfg) (cd : codec) (data : bytes) (f : frame) : Prop :=
  fr_plen f = psize (f_type c) /\
  (psize (f_type c) = 0 -> f_len c = Some (fr_dlen f)) /\
  (0 < psize (f_type c) -> exists s, decode cd (slice (fr_off f) (fr_off f + fr_plen f) data) = Ok s /\
                                     py_int s = Some (Z.of_nat (fr_dlen f))).

(* whenever decoding returns, the result is the one exact reading of the message *)
Theorem C08_sound : forall cfg cd hexbm b d, loads cfg cd hexbm b = Ok d ->
  exists bm frames,
    let data := skipn (hdr hexbm) b in
    bitmap_of_msg hexbm b = Some bm /\
    map fr_bit frames = filter (bit_set bm) bit_range /\                (* every flagged element, ascending *)
    tiles frames 0 (length data) /\                                     (* nothing left over, overlapping or skipped *)
    Forall (fun f => exists c v, cfg_get cfg (fr_bit f) = Some c /\ declared c cd data f /\
                      elem_value c cd (slice (fr_off f + fr_plen f) (fr_end f) data) = Ok v /\
                      lookup d (KDE (fr_bit f)) = Some v) frames.       (* each value is the content of its own bytes *)
Proof. exact c08_sound. Qed.
Print Assumptions C08_sound.

(* in particular every frame lies inside the message and has exactly its declared number of bytes *)
Corollary C08_inside : forall fs start total, tiles fs start total -> Forall (fun f => start <= fr_off f /\ fr_end f <= total) fs.
Proof. exact c08_inside. Qed.
Print Assumptions C08_inside.

(* nothing is invented: every entry of the result is the MTI or was contributed by one of the flagged elements — by the
   decoding of that element's own bytes (its value, and the entries derived from it: PDSxxxx, TAGxxxx / ICC_DATA, DE43_*,
   whose shape is fixed by C12_recovery, C02_icc_entries and C02_de43_entries) *)
Theorem C08_nothing_invented : forall cfg cd hexbm b d, loads cfg cd hexbm b = Ok d ->
  exists mti frames ess,
    let data := skipn (hdr hexbm) b in
    tiles frames 0 (length data) /\
    Forall2 (ni_contributes cfg cd data) frames ess /\
    forall k v, lookup d k = Some v ->
      (k = KMTI /\ v = VStr mti) \/ exists es, In es ess /\ In (k, v) es.
Proof. exact c08_nothing_invented. Qed.
Print Assumptions C08_nothing_invented.

(* conversely: a message that is well framed with plain decimal prefixes, decodable text, convertible typed values and
   walkable PDS / TLV sub-structure is accepted (a merchant-field element: its splitting pattern, if any, sits on text
   and is inside the modelled regex fragment; a pattern that does not match just adds nothing) *)
Theorem C08_complete : forall cfg cd hexbm b bm frames,
  (forall n c, cfg_get cfg n = Some c -> f_len c <> None) ->
  hdr hexbm <= length b ->
  bitmap_of_msg hexbm b = Some bm ->
  (exists s z, decode cd (firstn 4 b) = Ok s /\ py_int s = Some z) ->
  let data := skipn (hdr hexbm) b in
  map fr_bit frames = filter (bit_set bm) bit_range ->
  tiles frames 0 (length data) ->
  Forall (fun f => exists c v, cfg_get cfg (fr_bit f) = Some c /\ declared c cd data f /\
                    elem_value c cd (slice (fr_off f + fr_plen f) (fr_end f) data) = Ok v /\
                    match f_proc c, v with
                    | PPDS, VStr t => exists sub, pds_to_dict t = Ok sub
                    | PPDS, _ => False
                    | PICC, VBytes r => f_ptype c = PTStr /\ exists sub, icc_to_dict r = Ok sub
                    | PDE43, VStr _ => f_de43 c <> D43Unsupported      (* the splitting pattern is in the modelled fragment *)
                    | PDE43, _ => f_de43 c = D43None                   (* re.match on an int / datetime raises TypeError *)
                    | _, _ => True
                    end) frames ->
  exists d, loads cfg cd hexbm b = Ok d.
Proof. exact c08_complete. Qed.
Print Assumptions C08_complete.

(* non-vacuity: the documented example message is accepted (so C08_sound speaks about something), and its frame is the
   whole data: bit 2, offset 0, prefix 2, declared length 16 *)
Example C08_example :
  match codec_named [108;97;116;105;110;95;49]%N with
  | Some cd =>
    let b := map byte_of_N ([49;49;52;52] ++ [192] ++ repeat 0%N 15 ++ [49;54; 52;52;52;52;53;53;53;53;54;54;54;54;55;55;55;55])%N in
    loads CU.gen.GenConfig.packaged_bit_config cd false b
      = Ok [(KMTI, VStr [49;49;52;52]%N); (KDE 2, VStr [52;52;52;52;53;53;53;53;54;54;54;54;55;55;55;55]%N)]
    /\ tiles [mkfr 2 0 2 16] 0 (length (skipn 20 b))
  | None => False
  end.
Proof. vm_compute. auto. Qed.
