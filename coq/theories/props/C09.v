(* C09 — a file cut short at any byte yields only its complete records, then stops or raises the data error. *)
From Coq Require Import List Arith NArith.
Require Import CU.model.Prim CU.model.Block CU.model.Vbs CU.spec.FramingSpec CU.proofs.BlockProofs CU.proofs.VbsProofs.
Import ListNotations.

Section C09.
Variable B : nat.
Hypothesis Bpos : 0 < B.
Variable maxlen : N.
Hypothesis maxlen_ok : (maxlen < 2 ^ 32)%N.

Definition stops (e : rend) : Prop := e = End \/ exists n c, e = ErrData n c.

(* every cut position k of an unblocked file (also "writer killed before close": k <= length (frames rs)) *)
Theorem C09_unblocked : forall rs k, Forall (wf_rec maxlen) rs -> k <= length (vbs rs) ->
  exists e, read_all B maxlen (firstn k (vbs rs)) false = Ok (complete_prefix rs k, e) /\ stops e.
Proof. exact (c09_unblocked B maxlen maxlen_ok). Qed.

(* every cut position k of a blocked file: exactly the records whose frames lie in the surviving payload *)
Theorem C09_blocked : forall rs k, Forall (wf_rec maxlen) rs ->
  let f := file_of (writer_run B true (map WWrite rs ++ [WClose])) in
  k <= length f ->
  exists e, read_all B maxlen (firstn k f) true = Ok (complete_prefix rs (payload_len B k), e) /\ stops e.
Proof. exact (c09_blocked B Bpos maxlen maxlen_ok). Qed.

(* the records delivered are a prefix of the records written: nothing partial, altered or invented *)
Theorem C09_prefix : forall rs k, exists rest, rs = complete_prefix rs k ++ rest.
Proof. exact c09_prefix. Qed.
End C09.

Print Assumptions C09_unblocked.
Print Assumptions C09_blocked.
Print Assumptions C09_prefix.

Example C09_example :   (* cut inside the second record of a two-record file *)
  read_all 3 100 (firstn 11 (vbs [[x01]; [x02; x03; x04]])) false = Ok ([[x01]], ErrData 2 [x00; x00; x00; x03; x02; x03]).
Proof. vm_compute. reflexivity. Qed.
