(* C09 (IPM level) — an IPM file (VBS or 1014-blocked) cut short at any byte and read with IpmReader yields exactly
   the decodings of its complete records, in order, then stops or raises the data error.  The VBS level is C09.v. *)
From Coq Require Import List Arith NArith ZArith.
Require Import CU.model.Prim CU.model.Types CU.model.Codec CU.model.Block CU.model.Vbs CU.model.Iso CU.model.Ipm.
Require Import CU.spec.FramingSpec CU.spec.IsoSpec CU.proofs.IpmProofs CU.proofs.IpmTrunc.
Import ListNotations.

(* a decoded record agrees with the message written: the two clauses of C01 (as in C06.v) *)
Definition agrees (cfg : cfgT) (m d : dict) : Prop :=
  (forall k v, lookup m k = Some v -> lookup d k = Some (expected cfg k v)) /\
  (forall k, lookup d k <> None -> lookup m k <> None \/ derived_key cfg k = true).

(* a message whose encoding fits a VBS record (as in C06.v) *)
Definition fits (cfg : cfgT) (cd : codec) (maxlen : N) (m : dict) : Prop :=
  wf_msgb cfg cd m = true /\ forall b, dumps cfg cd false m = Ok b -> (N.of_nat (length b) <= maxlen)%N.

Section C09ipm.
Variable B : nat.
Hypothesis Bpos : 0 < B.
Variable maxlen : N.
Hypothesis maxlen_ok : (maxlen < 2 ^ 32)%N.

Definition stops (e : rend) : Prop := e = End \/ exists n c, e = ErrData n c.

(* a file of records bs, every one of which decodes (bs_i to ds_i), cut after k bytes: the reader delivers the
   decodings of exactly the records whose frames lie wholly in the surviving bytes (of the surviving payload for a
   blocked file) — the first j of ds, unchanged and in order, nothing else — and then ends or raises the data error;
   no other outcome (no other exception, no divergence) is possible *)
Theorem C09_ipm : forall cfg cd blocked bs ds k,
  Forall (wf_rec maxlen) bs ->
  Forall2 (fun b d => loads cfg cd false b = Ok d) bs ds ->
  let file := file_of (writer_run B blocked (map WWrite bs ++ [WClose])) in
  k <= length file ->
  exists e, iread_all B maxlen cfg cd (firstn k file) blocked
            = Ok (firstn (length (complete_prefix bs (if blocked then payload_len B k else k))) ds, e)
            /\ (e = End \/ exists n c, e = ErrData n c).
Proof. exact (c09_ipm B Bpos maxlen maxlen_ok). Qed.

(* a file written by IpmWriter from well-formed messages ms (any well-formed configuration and codec), cut after k
   bytes: with bs the encodings of ms and ds the records an uncut read delivers (each agreeing with its message, C06),
   the reader delivers the first j of ds, j the number of encodings wholly contained in the surviving bytes *)
Theorem C09_ipm_written : forall cfg cd blocked ms file k,
  wf_cfgb cfg = true -> codec_okb cd = true -> Forall (fits cfg cd maxlen) ms ->
  ipm_file B cfg cd blocked ms = Ok file ->
  k <= length file ->
  exists bs ds e,
    Forall2 (fun m b => dumps cfg cd false m = Ok b) ms bs /\
    Forall2 (agrees cfg) ms ds /\
    let j := length (complete_prefix bs (if blocked then payload_len B k else k)) in
    j <= length ms /\
    iread_all B maxlen cfg cd (firstn k file) blocked = Ok (firstn j ds, e) /\
    stops e.
Proof. exact (c09_ipm_written B Bpos maxlen maxlen_ok). Qed.

(* the link to the VBS level (C09.v, C03.v, C10.v): whenever the VBS reader delivers raw records that all decode,
   the IPM reader delivers their decodings and stops the same way — on any file, cut or not *)
Theorem C09_ipm_of_read : forall cfg cd f blocked rs e ds,
  read_all B maxlen f blocked = Ok (rs, e) ->
  Forall2 (fun r d => loads cfg cd false r = Ok d) rs ds ->
  iread_all B maxlen cfg cd f blocked = Ok (ds, e).
Proof. exact (c09_ipm_of_read B Bpos maxlen). Qed.
End C09ipm.

Print Assumptions C09_ipm.
Print Assumptions C09_ipm_written.
Print Assumptions C09_ipm_of_read.

(* a concrete run (B = 3, maximum record length 100, one LLVAR element, latin_1): a two-message file, its records 25
   and 24 bytes long (61 bytes unblocked, 105 bytes blocked).  Cut after 40 bytes (7 bytes into the second record's
   data) the first message is delivered and the data error names record 2 with the 4 + 7 bytes read of it; the
   blocked file cut after 62 bytes (38 payload bytes) likewise with 4 + 5 bytes; the blocked file cut after 50 bytes
   (30 payload bytes: one byte of the second length prefix) delivers the first message and ends *)
Example C09_ipm_example :
  match codec_named [108;97;116;105;110;95;49]%N with
  | Some cd =>
    let cfg := [(2, mkfc LLVAR (Some 0) PTStr [] PNone D43None)] in
    let m1 := [(KMTI, VStr [49;49;52;52]%N); (KDE 2, VStr [49;50;51]%N)] in
    let m2 := [(KMTI, VStr [49;50;52;48]%N); (KDE 2, VStr [52;53]%N)] in
    let part := map byte_of_N [0;0;0;24; 49;50;52;48; 192;0;0]%N in
    match ipm_file 3 cfg cd false [m1; m2], ipm_file 3 cfg cd true [m1; m2] with
    | Ok f, Ok fb =>
      length f = 61 /\ length fb = 105 /\
      iread_all 3 100 cfg cd f false = Ok ([m1; m2], End) /\
      iread_all 3 100 cfg cd fb true = Ok ([m1; m2], End) /\
      iread_all 3 100 cfg cd (firstn 40 f) false = Ok ([m1], ErrData 2 part) /\
      iread_all 3 100 cfg cd (firstn 62 fb) true = Ok ([m1], ErrData 2 (firstn 9 part)) /\
      iread_all 3 100 cfg cd (firstn 50 fb) true = Ok ([m1], End)
    | _, _ => False
    end
  | None => False
  end.
Proof. vm_compute. repeat split; reflexivity. Qed.
