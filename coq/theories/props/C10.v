(* C10 — a bad record is reported with its own record number and raw bytes. *)
From Coq Require Import List Arith NArith ZArith.
Require Import CU.model.Prim CU.model.Types CU.model.Codec CU.model.Block CU.model.Vbs CU.model.Iso CU.model.Ipm.
Require Import CU.spec.FramingSpec CU.proofs.IpmProofs.
Import ListNotations.

Section C10.
Variable B : nat.
Hypothesis Bpos : 0 < B.
Variable maxlen : N.
Hypothesis maxlen_ok : (maxlen < 2 ^ 32)%N.
Variable cfg : cfgT.
Variable cd : codec.

(* the byte stream a reader sees: the file itself, or the payload of a blocked file *)
Definition seen (blocked : bool) (file : bytes) : bytes := if blocked then payload B file else file.

(* records 1..k-1 are good (each decodes to d_i), record k is framed correctly but its message does not decode:
   the k-1 records are delivered unchanged, then the data error names record k and carries its raw bytes including
   the length prefix — whatever follows in the file *)
Theorem C10_message_level : forall blocked file goods ds bad tail,
  Forall2 (fun r d => loads cfg cd false r = Ok d) goods ds ->
  Forall (wf_rec maxlen) (goods ++ [bad]) ->
  loads cfg cd false bad = Raise EData ->
  seen blocked file = frames goods ++ frame bad ++ tail ->
  iread_all B maxlen cfg cd file blocked = Ok (ds, ErrData (length goods + 1) (frame bad)).
Proof. exact (c10_message_level B Bpos maxlen maxlen_ok cfg cd). Qed.

(* record k cut short: the error names record k and carries the bytes that could be read of it *)
Theorem C10_truncated : forall blocked file goods ds L part,
  Forall2 (fun r d => loads cfg cd false r = Ok d) goods ds ->
  Forall (wf_rec maxlen) goods ->
  (0 < L)%N -> (L <= maxlen)%N -> length part < N.to_nat L ->
  seen blocked file = frames goods ++ be32 L ++ part ->
  iread_all B maxlen cfg cd file blocked = Ok (ds, ErrData (length goods + 1) (be32 L ++ part)).
Proof. exact (c10_truncated B Bpos maxlen maxlen_ok cfg cd). Qed.

(* record k with a length above the configured maximum: the error names record k and carries the length prefix *)
Theorem C10_oversize : forall blocked file goods ds L tail,
  Forall2 (fun r d => loads cfg cd false r = Ok d) goods ds ->
  Forall (wf_rec maxlen) goods ->
  (maxlen < L)%N -> (L < 2 ^ 32)%N ->
  seen blocked file = frames goods ++ be32 L ++ tail ->
  iread_all B maxlen cfg cd file blocked = Ok (ds, ErrData (length goods + 1) (be32 L)).
Proof. exact (c10_oversize B Bpos maxlen maxlen_ok cfg cd). Qed.
End C10.

Print Assumptions C10_message_level.
Print Assumptions C10_truncated.
Print Assumptions C10_oversize.
