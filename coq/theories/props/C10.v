(* C10 — a bad record is reported with its own record number and raw bytes. *)
From Coq Require Import List Arith NArith ZArith.
Require Import CU.model.Prim CU.model.Types CU.model.Codec CU.model.Block CU.model.Vbs CU.model.Iso CU.model.Ipm CU.model.Tools.
Require Import CU.spec.FramingSpec CU.proofs.IpmProofs CU.proofs.IpmEvents CU.proofs.ToolsReport.
Import ListNotations.

Section C10.
Variable B : nat.
Hypothesis Bpos : 0 < B.
Variable maxlen : N.
Hypothesis maxlen_ok : (maxlen < 2 ^ 32)%N.
Variable cfg : cfgT.
Variable cd : codec.

(* the byte stream a reader sees: the file itself, or the payload of a blocked file *)
Definition seen (blocked : bool) (file : bytes) : bytes := if blocked then payload B file else file.

(* records 1..k-1 are good (each decodes to d_i), record k is framed correctly but its message does not decode:
   the k-1 records are delivered unchanged, then the data error names record k and carries its raw bytes including
   the length prefix — whatever follows in the file *)
Theorem C10_message_level : forall blocked file goods ds bad tail,
  Forall2 (fun r d => loads cfg cd false r = Ok d) goods ds ->
  Forall (wf_rec maxlen) (goods ++ [bad]) ->
  loads cfg cd false bad = Raise EData ->
  seen blocked file = frames goods ++ frame bad ++ tail ->
  iread_all B maxlen cfg cd file blocked = Ok (ds, ErrData (length goods + 1) (frame bad)).
Proof. exact (c10_message_level B Bpos maxlen maxlen_ok cfg cd). Qed.

(* record k cut short: the error names record k and carries the bytes that could be read of it *)
Theorem C10_truncated : forall blocked file goods ds L part,
  Forall2 (fun r d => loads cfg cd false r = Ok d) goods ds ->
  Forall (wf_rec maxlen) goods ->
  (0 < L)%N -> (L <= maxlen)%N -> length part < N.to_nat L ->
  seen blocked file = frames goods ++ be32 L ++ part ->
  iread_all B maxlen cfg cd file blocked = Ok (ds, ErrData (length goods + 1) (be32 L ++ part)).
Proof. exact (c10_truncated B Bpos maxlen maxlen_ok cfg cd). Qed.

(* record k with a length above the configured maximum: the error names record k and carries the length prefix *)
Theorem C10_oversize : forall blocked file goods ds L tail,
  Forall2 (fun r d => loads cfg cd false r = Ok d) goods ds ->
  Forall (wf_rec maxlen) goods ->
  (maxlen < L)%N -> (L < 2 ^ 32)%N ->
  seen blocked file = frames goods ++ be32 L ++ tail ->
  iread_all B maxlen cfg cd file blocked = Ok (ds, ErrData (length goods + 1) (be32 L)).
Proof. exact (c10_oversize B Bpos maxlen maxlen_ok cfg cd). Qed.

(* SEVERAL bad records in one file, read by a consumer that keeps the same reader after each data error (ievents:
   next() until StopIteration, collecting records and data errors).  In a well-framed file, whatever number of records
   fail to decode, record i yields its message or the data error whose record number is i and whose context data are
   record i's own frame (outcome_of i r): an earlier bad record never shifts the number reported for a later one *)
Theorem C10_every_bad_record : forall blocked file rs evs tail,
  Forall (wf_rec maxlen) rs ->
  Forall2 (fun ir e => outcome_of cfg cd (fst ir) (snd ir) = Some e) (numbered 1 rs) evs ->
  seen blocked file = frames rs ++ be32 0 ++ tail ->
  ievents B maxlen cfg cd file blocked = Ok evs.
Proof. exact (c10_every_bad_record B Bpos maxlen maxlen_ok cfg cd). Qed.

(* what the operator sees: a reading tool (mci_ipm_to_csv, mideu extract) that stops on the data error of record k has
   delivered the records before it and prints 'Error detected in record k' — with the three theorems above, k is the
   record that is actually wrong, for framing-level and message-level faults alike *)
Theorem C10_operator_message : forall blocked file ds k ctx,
  iread_all B maxlen cfg cd file blocked = Ok (ds, ErrData (S k) ctx) ->
  tool_read B maxlen cfg cd blocked file
  = Ok (ds, Some (Some (error_prefix ++ str_of_N (N.of_nat (S k))))).
Proof. exact (c10_operator_message B maxlen cfg cd). Qed.
End C10.

Print Assumptions C10_message_level.
Print Assumptions C10_truncated.
Print Assumptions C10_oversize.
Print Assumptions C10_every_bad_record.
Print Assumptions C10_operator_message.

(* a concrete run (B = 3, maximum record length 100, one LLVAR element, latin_1): the second record's LLVAR length
   prefix is "0x" — record 1 is delivered, then the data error names record 2 and carries its 4 + 25 raw bytes;
   the same for the file written 1014-blocked and read blocked *)
Example C10_example :
  match codec_named [108;97;116;105;110;95;49]%N with
  | Some cd =>
    let cfg := [(2, mkfc LLVAR (Some 0) PTStr [] PNone D43None)] in
    let good := map byte_of_N [49;49;52;52; 64;0;0;0;0;0;0;0;0;0;0;0;0;0;0;0; 48;51; 49;50;51]%N in
    let bad := map byte_of_N [49;49;52;52; 64;0;0;0;0;0;0;0;0;0;0;0;0;0;0;0; 48;120; 49;50;51]%N in
    let d1 := [(KMTI, VStr [49;49;52;52]%N); (KDE 2, VStr [49;50;51]%N)] in
    loads cfg cd false bad = Raise EData /\
    iread_all 3 100 cfg cd (frame good ++ frame bad ++ be32 0) false = Ok ([d1], ErrData 2 (frame bad)) /\
    iread_all 3 100 cfg cd (vbs_list_to_bytes 3 true [good; bad]) true = Ok ([d1], ErrData 2 (frame bad))
  | None => False
  end.
Proof. vm_compute. repeat split; reflexivity. Qed.

(* bad, good, bad: records 1 and 3 are reported as 1 and 3, record 2 is delivered between them *)
Example C10_example_several :
  match codec_named [108;97;116;105;110;95;49]%N with
  | Some cd =>
    let cfg := [(2, mkfc LLVAR (Some 0) PTStr [] PNone D43None)] in
    let good := map byte_of_N [49;49;52;52; 64;0;0;0;0;0;0;0;0;0;0;0;0;0;0;0; 48;51; 49;50;51]%N in
    let bad := map byte_of_N [49;49;52;52; 64;0;0;0;0;0;0;0;0;0;0;0;0;0;0;0; 48;120; 49;50;51]%N in
    let d := [(KMTI, VStr [49;49;52;52]%N); (KDE 2, VStr [49;50;51]%N)] in
    ievents 3 100 cfg cd (vbs_list_to_bytes 3 true [bad; good; bad]) true
    = Ok [EvErr 1 (frame bad); EvRec d; EvErr 3 (frame bad)]
  | None => False
  end.
Proof. vm_compute. reflexivity. Qed.

(* the operator line for record 12: "Error detected in record 12" *)
Example C10_example_operator_line :
  error_line 12 = Some (map N.of_nat [69;114;114;111;114;32;100;101;116;101;99;116;101;100;32;105;110;32;114;101;99;111;114;100;32;49;50]).
Proof. vm_compute. reflexivity. Qed.
