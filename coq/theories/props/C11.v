(* C11 — closing a writer finalises the file exactly once, however close is reached (VbsWriter, and IpmWriter
   = VbsWriter composed with the message encoder). *)
From Coq Require Import List Arith NArith.
Require Import CU.model.Prim CU.model.Types CU.model.Codec CU.model.Block CU.model.Vbs CU.model.Iso CU.model.Ipm CU.spec.FramingSpec CU.proofs.BlockProofs CU.proofs.VbsProofs CU.proofs.VbsTouch CU.proofs.IpmTouch.
Import ListNotations.

Section C11.
Variable B : nat.
Hypothesis Bpos : 0 < B.
Variable maxlen : N.
Hypothesis maxlen_ok : (maxlen < 2 ^ 32)%N.

Definition is_fin (o : wop) : Prop := o = WClose \/ o = WExit.

(* any non-empty history of close() calls and context-manager exits leaves the file of a single close *)
Theorem C11_any_finalisation_history : forall blocked rs fins, fins <> [] -> Forall is_fin fins ->
  file_of (writer_run B blocked (map WWrite rs ++ fins)) = file_of (writer_run B blocked (map WWrite rs ++ [WClose])).
Proof. exact (c11_any_finalisation_history B). Qed.

(* ... which reads back as exactly the records written *)
Theorem C11_reads_back : forall blocked rs fins, fins <> [] -> Forall is_fin fins -> Forall (wf_rec maxlen) rs ->
  read_all B maxlen (file_of (writer_run B blocked (map WWrite rs ++ fins))) blocked = Ok (rs, End).
Proof. exact (c11_reads_back B Bpos maxlen maxlen_ok). Qed.

(* the caller may also use the wrapped file object between finalisations (seek it, read from it: W2Touch p puts its
   position at p without the writer knowing).  After the records and a first finalisation, ANY mix of further
   close() / exit calls and such position moves leaves the file a single close() leaves: a later finalisation
   writes nothing, wherever the stream then stands *)
Theorem C11_touched_history : forall blocked rs fin0 ops,
  is_fin fin0 -> Forall (later_op) ops ->
  file_of (writer_run2 B blocked (map W2Op (map WWrite rs ++ [fin0]) ++ ops))
  = file_of (writer_run B blocked (map WWrite rs ++ [WClose])).
Proof. exact (c11_touched_history B). Qed.

(* IpmWriter: the messages ms have been written (w is the writer after write_many(ms), which succeeded); a first
   finalisation and then any mix of close() / exits / position moves leaves the file of `with IpmWriter(...) as w:
   w.write_many(ms)` — which, by C06_roundtrip, reads back as the messages *)
Theorem C11_ipm_history : forall cfg cd blocked ms w fin0 ops,
  iwrite_many B cfg cd (winit B fempty blocked) ms = Ok w ->
  is_fin fin0 -> Forall later_op ops ->
  ipm_file B cfg cd blocked ms = Ok (file_of (fold_left (wstep2 B) (W2Op fin0 :: ops) w)).
Proof. exact (c11_ipm_history B). Qed.
End C11.

Print Assumptions C11_any_finalisation_history.
Print Assumptions C11_reads_back.
Print Assumptions C11_touched_history.
Print Assumptions C11_ipm_history.

Example C11_example :
  file_of (writer_run 3 false [WWrite [x01]; WClose; WExit; WClose]) = [x00; x00; x00; x01; x01; x00; x00; x00; x00].
Proof. vm_compute. reflexivity. Qed.

(* blocked, B = 3: close, the caller seeks to offset 5, a `with` exit, a seek to 0, another close *)
Example C11_example_touched :
  file_of (writer_run2 3 true [W2Op (WWrite [x01]); W2Op WClose; W2Touch 5; W2Op WExit; W2Touch 0; W2Op WClose])
  = file_of (writer_run 3 true [WWrite [x01]; WClose]).
Proof. vm_compute. reflexivity. Qed.
