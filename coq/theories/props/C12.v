(* C12 — PDS sub-elements are packed into carrier elements and recovered without loss. *)
From Coq Require Import List Arith NArith ZArith Sorting.Permutation Sorting.Sorted.
Require Import CU.model.Prim CU.model.Types CU.model.Unicode CU.model.Codec CU.model.Iso CU.spec.IsoSpec CU.proofs.PdsProofs.
Import ListNotations.

(* a PDS set: distinct 4-digit tags in ascending order, values of 0..992 characters *)
Definition wf_pds (pds : list (N * str)) : Prop :=
  StronglySorted N.lt (map fst pds) /\ Forall (fun tv => (fst tv < 10000)%N /\ length (snd tv) <= 992) pds.
Definition pds_entry (tv : N * str) : str * value := (tag4 (fst tv), VStr (snd tv)).

(* packing: whatever the order of the keys in the dict, the chunks are the sub-elements tag(4) length(3) value in
   ascending tag order, nothing lost or added, each chunk 1..999 characters, no sub-element split *)
Theorem C12_packing : forall pds m, wf_pds pds -> Permutation (pds_entries m) (map pds_entry pds) ->
  exists cs groups, pds_to_de m = Ok cs /\
    concat groups = pds /\ cs = map (flat_map sub_of) groups /\
    concat cs = flat_map sub_of pds /\
    Forall (fun c => 1 <= length c <= 999) cs.
Proof. exact c12_packing. Qed.
Print Assumptions C12_packing.

(* the greedy packing uses the fewest carriers: any order-preserving unsplit partition into chunks of at most
   999 characters has at least as many chunks *)
Theorem C12_greedy_optimal : forall pds m cs groups', wf_pds pds -> Permutation (pds_entries m) (map pds_entry pds) ->
  pds_to_de m = Ok cs ->
  concat groups' = pds -> Forall (fun g => g <> [] /\ length (flat_map sub_of g) <= 999) groups' ->
  length cs <= length groups'.
Proof. exact c12_greedy_optimal. Qed.
Print Assumptions C12_greedy_optimal.

(* within capacity, chunk i goes to the i-th carrier in ascending element order (and nothing else is touched) *)
Theorem C12_assignment : forall m cs fields, length cs <= length fields -> NoDup fields ->
  exists m1, assign_pds m cs fields = Ok m1 /\
    (forall i c, nth_error cs i = Some c -> exists f, nth_error fields i = Some f /\ lookup m1 (KDE f) = Some (VStr c)) /\
    (forall k, (forall i f, nth_error fields i = Some f -> i < length cs -> k <> KDE f) -> lookup m1 k = lookup m k).
Proof. exact c12_assignment. Qed.
Print Assumptions C12_assignment.

(* beyond capacity the encoder refuses (IndexError in the code: not the library error — recorded as an observation) *)
Theorem C12_over_capacity : forall m cs fields, length fields < length cs -> assign_pds m cs fields = Raise EIndex.
Proof. exact c12_over_capacity. Qed.
Print Assumptions C12_over_capacity.

(* recovery: walking a carrier value returns exactly its sub-elements, wherever the carrier boundaries fall *)
Theorem C12_recovery : forall g, NoDup (map fst g) -> Forall (fun tv => (fst tv < 10000)%N /\ length (snd tv) <= 999) g ->
  pds_to_dict (flat_map sub_of g) = Ok (map (fun tv => (KPDS (tag4 (fst tv)), VStr (snd tv))) g).
Proof. exact c12_recovery. Qed.
Print Assumptions C12_recovery.

(* the packaged configuration: carriers are exactly 48, 62, 123, 124, 125, all LLLVAR text (generated obligation:
   re-proved against config.py on every run) *)
Theorem C12_packaged_carriers :
  pds_bits CU.gen.GenConfig.packaged_bit_config = [48; 62; 123; 124; 125] /\ carriers_okb CU.gen.GenConfig.packaged_bit_config = true.
Proof. exact c12_packaged_carriers. Qed.
Print Assumptions C12_packaged_carriers.

Example C12_example :
  pds_to_de [(KPDS [48;49;52;56]%N, VStr [65;66]%N); (KDE 2, VStr [49]%N); (KPDS [48;48;50;51]%N, VStr []%N)]
  = Ok [[48;48;50;51;48;48;48;48;49;52;56;48;48;50;65;66]%N].
Proof. vm_compute. reflexivity. Qed.
