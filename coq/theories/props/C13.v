(* C13 — PIN blocks follow ISO 9564 formats 0 and 4 and return the PIN, for 4-12 digits.
   This file holds only the property theorems; each is closed by a lemma of proofs/PinProofs.v.
   pin, pan are digit lists (all_dec); dstr gives the Python str of ASCII digits handed to the code;
   spec0 / spec4 (spec/PinSpec.v) are the nibble layouts of the standard:
     spec0 pin pan = [0; len; p1..pn; F..F] XOR [0;0;0;0; 12 rightmost PAN digits excluding the check digit]
     spec4 pin rnd = [4; len; p1..pn; A..A (to 16)] ++ the 64 bits of rnd as 16 nibbles. *)
From Coq Require Import List Arith NArith.
From Coq Require Import Strings.Byte.
Require Import CU.model.Prim CU.model.Pin CU.spec.PinSpec CU.proofs.PinProofs.
Import ListNotations.
Open Scope nat_scope.

(* format 0: every PIN of 4..12 digits, every PAN of at least 13 digits (no upper bound) *)
Theorem C13_format0 : forall pin pan, 4 <= length pin <= 12 -> all_dec pin -> all_dec pan -> 13 <= length pan ->
  iso0_to_bytes (dstr pin) (dstr pan) = Ok (bytes_of_nibbles (spec0 pin pan)) /\
  length (spec0 pin pan) = 16 /\ all_nib (spec0 pin pan) /\ length (bytes_of_nibbles (spec0 pin pan)) = 8 /\
  iso0_from_bytes (bytes_of_nibbles (spec0 pin pan)) (dstr pan) = Ok (dstr pin).
Proof. exact format0_property. Qed.
Print Assumptions C13_format0.

(* format 4: every PIN of 4..12 digits, every 64-bit fill.  rnd is the value held by the block object: the supplied
   one (the constructor takes a supplied value when it is non-zero, i.e. 1 <= rnd) or the one drawn from
   secrets.randbits(64); which of the two it is, and that each construction draws afresh, is checked by the harness. *)
Theorem C13_format4 : forall pin rnd, 4 <= length pin <= 12 -> all_dec pin -> (rnd < 2 ^ 64)%N ->
  iso4_to_bytes (dstr pin) rnd = Ok (bytes_of_nibbles (spec4 pin rnd)) /\
  length (spec4 pin rnd) = 32 /\ all_nib (spec4 pin rnd) /\ length (bytes_of_nibbles (spec4 pin rnd)) = 16 /\
  iso4_from_bytes (bytes_of_nibbles (spec4 pin rnd)) = Ok (dstr pin).
Proof. exact format4_property. Qed.
Print Assumptions C13_format4.

(* encrypted forms, for any cipher pair E, D (key bytes -> data -> data) that is an ECB-style bijection:
   D undoes E and the output is as long as the input.  key is the hex string given by the caller, k its bytes.
   Format 0 under 3DES (Iso0TDESPinBlockWithVisaPVV), format 4 under AES (Iso4AESPinBlockWithVisaPVV) and the
   remaining admissible mix-in combination, format 4 under 3DES. *)
Theorem C13_encrypted : forall (E D : bytes -> bytes -> bytes),
  (forall k x, D k (E k x) = x) -> (forall k x, length (E k x) = length x) ->
  forall key k pin pan rnd, unhexlify_str key = Ok k ->
  4 <= length pin <= 12 -> all_dec pin -> all_dec pan -> 13 <= length pan -> (rnd < 2 ^ 64)%N ->
  (In (length k) [8; 16; 24] ->
     iso0_to_enc TDES E key (dstr pin) (dstr pan) = Ok (E k (bytes_of_nibbles (spec0 pin pan))) /\
     iso0_from_enc TDES D key (E k (bytes_of_nibbles (spec0 pin pan))) (dstr pan) = Ok (dstr pin)) /\
  (In (length k) [16; 24; 32] ->
     iso4_to_enc AES E key (dstr pin) rnd = Ok (E k (bytes_of_nibbles (spec4 pin rnd))) /\
     iso4_from_enc AES D key (E k (bytes_of_nibbles (spec4 pin rnd))) = Ok (dstr pin)) /\
  (In (length k) [8; 16; 24] ->
     iso4_to_enc TDES E key (dstr pin) rnd = Ok (E k (bytes_of_nibbles (spec4 pin rnd))) /\
     iso4_from_enc TDES D key (E k (bytes_of_nibbles (spec4 pin rnd))) = Ok (dstr pin)).
Proof. exact encrypted_property. Qed.
Print Assumptions C13_encrypted.

(* the nibble layouts themselves decode to the PIN (the specification is not vacuous) *)
Theorem C13_spec_decodes : forall pin pan rnd, length pin <= 14 -> 13 <= length pan ->
  pin_of_field (xor2 (spec0 pin pan) ([0; 0; 0; 0]%N ++ pan_field 12 pan)) = pin /\ pin_of_field (spec4 pin rnd) = pin.
Proof. exact spec_decodes. Qed.
Print Assumptions C13_spec_decodes.

(* non-vacuity: the documented example (PIN 1234, card 1111222233334444 -> 041226dddccccbbb), a 12-digit PIN whose
   length is the single hex digit c, and the format-4 example of the class docstring *)
Example C13_example :
  let pan := [1;1;1;1;2;2;2;2;3;3;3;3;4;4;4;4]%N in
  let pin12 := [1;2;3;4;5;6;7;8;9;0;1;2]%N in
  iso0_to_bytes (dstr [1;2;3;4]%N) (dstr pan)
    = Ok [x04; x12; x26; xdd; xdc; xcc; xcb; xbb] /\
  bytes_of_nibbles (spec0 [1;2;3;4]%N pan) = [x04; x12; x26; xdd; xdc; xcc; xcb; xbb] /\
  iso0_from_bytes [x04; x12; x26; xdd; xdc; xcc; xcb; xbb] (dstr pan) = Ok (dstr [1;2;3;4]%N) /\
  iso0_to_bytes (dstr pin12) (dstr pan) = Ok [x0c; x12; x26; x74; x5b; xa3; x26; xbb] /\
  iso0_from_bytes [x0c; x12; x26; x74; x5b; xa3; x26; xbb] (dstr pan) = Ok (dstr pin12) /\
  iso4_to_bytes (dstr [1;2;3;4]%N) 9474559317417942297%N
    = Ok [x44; x12; x34; xaa; xaa; xaa; xaa; xaa; x83; x7c; x65; x80; x36; x10; x5d; x19] /\
  iso4_from_bytes [x4c; x12; x34; x56; x78; x90; x12; xaa; x83; x7c; x65; x80; x36; x10; x5d; x19] = Ok (dstr pin12).
Proof. vm_compute. repeat split; reflexivity. Qed.
