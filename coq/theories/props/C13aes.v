(* C13aes — C13_encrypted (props/C13.v) instantiated with a concrete cipher: the AES-128/192/256 ECB model of
   model/Aes.v (FIPS 197), whose decryption is proved to undo its encryption for every key and data
   (proofs/AesProofs.v: aes_dec_enc, aes_enc_length).  Format 4 under AES is Iso4AESPinBlockWithVisaPVV.
   key is the hex string given by the caller, k its bytes; pin is a digit list, dstr pin the Python str. *)
From Coq Require Import List Arith NArith.
From Coq Require Import Strings.Byte.
Require Import CU.model.Prim CU.model.Pin CU.model.Aes CU.spec.PinSpec CU.proofs.PinProofs CU.proofs.AesProofs.
Import ListNotations.
Open Scope nat_scope.

Theorem C13_aes : forall key k pin rnd, unhexlify_str key = Ok k ->
  4 <= length pin <= 12 -> all_dec pin -> (rnd < 2 ^ 64)%N -> In (length k) [16; 24; 32] ->
  iso4_to_enc AES aes_ecb_enc key (dstr pin) rnd = Ok (aes_ecb_enc k (bytes_of_nibbles (spec4 pin rnd))) /\
  iso4_from_enc AES aes_ecb_dec key (aes_ecb_enc k (bytes_of_nibbles (spec4 pin rnd))) = Ok (dstr pin) /\
  length (aes_ecb_enc k (bytes_of_nibbles (spec4 pin rnd))) = 16.
Proof.
  intros key k pin rnd Hk L F Hr Hs.
  assert (Fp: all_dec (repeat 0%N 13)) by (apply Forall_forall; intros x Hx; apply repeat_spec in Hx; subst x; reflexivity).
  destruct (encrypted_property aes_ecb_enc aes_ecb_dec aes_dec_enc aes_enc_length
              key k pin (repeat 0%N 13) rnd Hk L F Fp (le_n 13) Hr) as [_ [H _]].
  destruct (H Hs) as [H1 H2]. split; [exact H1|]. split; [exact H2|].
  rewrite aes_enc_length. apply (format4_property pin rnd L F Hr).
Qed.
Print Assumptions C13_aes.

(* the model cipher is the standard's: FIPS 197 Appendix A (key schedule), B, C.1-C.3, SP 800-38A F.1.1, four random
   vectors checked against the Python cryptography package, and the totality rules outside cardutil's domain *)
Definition C13_aes_known_answers :=
  (aes_key_schedule_fips197_A, aes_kat_fips197_C1, aes_kat_fips197_C2, aes_kat_fips197_C3, aes_kat_fips197_B,
   aes_kat_sp800_38a_F11, aes_kat_random1, aes_kat_random2, aes_kat_random3, aes_kat_random4, aes_total_rules).

(* end to end, ciphertexts taken from cardutil itself:
     pb = Iso4AESPinBlockWithVisaPVV(pin='1234', random_value=0x0123456789abcdef)
     pb.to_enc_bytes('00112233445566778899aabbccddeeff').hex()  == 'ce4cf13804091b324930e585aaaac994'
     pb.to_enc_bytes('000102...1e1f').hex()                     == '8d8cf4d575ac0f48644750d15188cc90'
     Iso4AESPinBlockWithVisaPVV.from_enc_bytes(ct, key).pin     == '1234' *)
Example C13_aes_example :
  let pin := [1; 2; 3; 4]%N in
  let rnd := 81985529216486895%N in
  let kb16 := [x00; x11; x22; x33; x44; x55; x66; x77; x88; x99; xaa; xbb; xcc; xdd; xee; xff] in
  let kb32 := [x00; x01; x02; x03; x04; x05; x06; x07; x08; x09; x0a; x0b; x0c; x0d; x0e; x0f;
               x10; x11; x12; x13; x14; x15; x16; x17; x18; x19; x1a; x1b; x1c; x1d; x1e; x1f] in
  let ct16 := [xce; x4c; xf1; x38; x04; x09; x1b; x32; x49; x30; xe5; x85; xaa; xaa; xc9; x94] in
  let ct32 := [x8d; x8c; xf4; xd5; x75; xac; x0f; x48; x64; x47; x50; xd1; x51; x88; xcc; x90] in
  unhexlify_str (hexlify kb16) = Ok kb16 /\
  iso4_to_bytes (dstr pin) rnd
    = Ok [x44; x12; x34; xaa; xaa; xaa; xaa; xaa; x01; x23; x45; x67; x89; xab; xcd; xef] /\
  iso4_to_enc AES aes_ecb_enc (hexlify kb16) (dstr pin) rnd = Ok ct16 /\
  iso4_from_enc AES aes_ecb_dec (hexlify kb16) ct16 = Ok (dstr pin) /\
  iso4_to_enc AES aes_ecb_enc (hexlify kb32) (dstr pin) rnd = Ok ct32 /\
  iso4_from_enc AES aes_ecb_dec (hexlify kb32) ct32 = Ok (dstr pin).
Proof. vm_compute. repeat split; reflexivity. Qed.
