(* C13tdes — the encrypted PIN-block, PVV and key-check-value theorems of C13 / C14 with the abstract cipher pair
   replaced by the Triple-DES model of model/Des.v (FIPS 46-3 / SP 800-67, ECB, keying options 1-3).
   The two hypotheses of C13_encrypted / C14_pvv (D undoes E; E keeps the length) are discharged by
   tdes_dec_enc and tdes_enc_length of proofs/DesProofs.v, which hold for every key and every data string.
   This file holds only the instantiations; the known-answer vectors are proofs/DesProofs.v's Examples. *)
From Coq Require Import List Arith NArith.
From Coq Require Import Strings.Byte.
Require Import CU.model.Prim CU.model.Pin CU.model.Des CU.spec.PinSpec CU.proofs.PinProofs CU.proofs.DesProofs.
Import ListNotations.
Open Scope nat_scope.

(* format 0 under 3DES (Iso0TDESPinBlockWithVisaPVV) and format 4 under 3DES: the enciphered block is the
   Triple-DES encipherment of the ISO 9564 layout, and deciphering it returns the PIN *)
Theorem C13_tdes : forall key k pin pan rnd, unhexlify_str key = Ok k ->
  4 <= length pin <= 12 -> all_dec pin -> all_dec pan -> 13 <= length pan -> (rnd < 2 ^ 64)%N ->
  In (length k) [8; 16; 24] ->
  (iso0_to_enc TDES tdes_ecb_enc key (dstr pin) (dstr pan) = Ok (tdes_ecb_enc k (bytes_of_nibbles (spec0 pin pan))) /\
   iso0_from_enc TDES tdes_ecb_dec key (tdes_ecb_enc k (bytes_of_nibbles (spec0 pin pan))) (dstr pan) = Ok (dstr pin)) /\
  (iso4_to_enc TDES tdes_ecb_enc key (dstr pin) rnd = Ok (tdes_ecb_enc k (bytes_of_nibbles (spec4 pin rnd))) /\
   iso4_from_enc TDES tdes_ecb_dec key (tdes_ecb_enc k (bytes_of_nibbles (spec4 pin rnd))) = Ok (dstr pin)).
Proof.
  intros key k pin pan rnd Hk L F Fp Lp Hr Hs.
  destruct (encrypted_property tdes_ecb_enc tdes_ecb_dec tdes_dec_enc tdes_enc_length key k pin pan rnd Hk L F Fp Lp Hr)
    as [H0 [_ H4]].
  split; [exact (H0 Hs) | exact (H4 Hs)].
Qed.
Print Assumptions C13_tdes.

(* the cipher these theorems speak of is the standard one: FIPS worked example for DES, and vectors for the one-,
   two- and three-key bundles computed with the cryptography package (the cipher cardutil calls) *)
Definition C13_tdes_known_answers :=
  (des_kat, des_kat_subkey, tdes_kat_one_key, tdes_kat_two_key, tdes_kat_three_key, tdes_kat_three_blocks,
   tdes_kat_zero_block).

(* non-vacuity, end to end through the model of cardutil, against cardutil's own answers (cardutil with cryptography
   50.0.1): PIN 1234, card 1111222233334444, two-key bundle 0123456789abcdeffedcba9876543210:
   Iso0TDESPinBlockWithVisaPVV(...).to_enc_bytes(key) = 6ce18584a8185453 (clear block 041226dddccccbbb), which
   deciphers to the PIN; to_pvv(pvv_key=key, key_index=1) = '9806'; key.calculate_kcv(key bytes) = '08d7b4' *)
Example C13_tdes_example :
  let key := map hexch [0;1;2;3;4;5;6;7;8;9;10;11;12;13;14;15;15;14;13;12;11;10;9;8;7;6;5;4;3;2;1;0]%N in
  let pan := [1;1;1;1;2;2;2;2;3;3;3;3;4;4;4;4]%N in
  tdes_ecb_enc kat_k16 [x04; x12; x26; xdd; xdc; xcc; xcb; xbb] = [x6c; xe1; x85; x84; xa8; x18; x54; x53] /\
  iso0_to_enc TDES tdes_ecb_enc key (dstr [1;2;3;4]%N) (dstr pan) = Ok [x6c; xe1; x85; x84; xa8; x18; x54; x53] /\
  iso0_from_enc TDES tdes_ecb_dec key [x6c; xe1; x85; x84; xa8; x18; x54; x53] (dstr pan) = Ok (dstr [1;2;3;4]%N) /\
  to_pvv tdes_ecb_enc (dstr [1;2;3;4]%N) key 1 (dstr pan) = Ok (dstr [9;8;0;6]%N) /\
  calculate_kcv tdes_ecb_enc kat_k16 6 = Ok (map hexch [0;8;13;7;11;4]%N).
Proof. vm_compute. repeat split; reflexivity. Qed.
