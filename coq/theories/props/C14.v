(* C14 — PVV, key check value and key-part combination match the published algorithms.
   This file holds only the property theorems; each is closed by a lemma of proofs/PinProofs.v.
   The cipher (3DES in ECB mode, from the cryptography package) is any function E : key bytes -> data -> data
   that returns as many bytes as it is given; DES itself is compared with a from-scratch reference and FIPS
   known-answer vectors by the harness, not proved. *)
From Coq Require Import List Arith NArith Permutation.
From Coq Require Import Strings.Byte.
Require Import CU.model.Prim CU.model.Pin CU.spec.PinSpec CU.proofs.PinProofs.
Import ListNotations.
Open Scope nat_scope.

(* the transformed security parameter: 11 rightmost PAN digits excluding the check digit, key index,
   4 leftmost PIN digits - 16 decimal digits, i.e. one 8-byte cipher block; any PIN of 4 or more digits *)
Theorem C14_tsp : forall pan kidx pin, 12 <= length pan -> 4 <= length pin -> (kidx < 10)%N -> all_dec pan -> all_dec pin ->
  get_tsp (dstr pan) kidx (dstr pin) = dstr (tsp_spec pan kidx pin) /\
  length (tsp_spec pan kidx pin) = 16 /\ all_dec (tsp_spec pan kidx pin) /\
  unhexlify_str (dstr (tsp_spec pan kidx pin)) = Ok (bytes_of_nibbles (tsp_spec pan kidx pin)) /\
  length (bytes_of_nibbles (tsp_spec pan kidx pin)) = 8.
Proof. exact tsp_property. Qed.
Print Assumptions C14_tsp.

(* decimalisation, for every cipher output: first scan keeps the decimal nibbles, second scan maps A..F to 0..5,
   first four digits; always four decimal digits (any output of 2 bytes or more, in particular the 8 of 3DES) *)
Theorem C14_decimalise : forall ct : bytes,
  pvv_of_ct ct = dstr (visa_spec (nibbles_of_bytes ct)) /\
  (2 <= length ct -> length (pvv_of_ct ct) = 4 /\ all_dec (visa_spec (nibbles_of_bytes ct))).
Proof. exact decimalise_property. Qed.
Print Assumptions C14_decimalise.

(* the PVV: every PIN of 4 or more digits (so 4..12), PAN of 12 or more digits, index 0..9, key of 8/16/24 bytes;
   both the function and the mix-in method *)
Theorem C14_pvv : forall (E : bytes -> bytes -> bytes), (forall k x, length (E k x) = length x) ->
  forall pin key k kidx pan, unhexlify_str key = Ok k -> In (length k) [8; 16; 24] ->
  12 <= length pan -> 4 <= length pin -> (kidx < 10)%N -> all_dec pan -> all_dec pin ->
  let ct := E k (bytes_of_nibbles (tsp_spec pan kidx pin)) in
  calculate_pvv E (dstr pin) key kidx (dstr pan) = Ok (dstr (visa_spec (nibbles_of_bytes ct))) /\
  to_pvv E (dstr pin) key kidx (dstr pan) = Ok (dstr (visa_spec (nibbles_of_bytes ct))) /\
  length (visa_spec (nibbles_of_bytes ct)) = 4 /\ all_dec (visa_spec (nibbles_of_bytes ct)).
Proof. exact pvv_property. Qed.
Print Assumptions C14_pvv.

(* combining components (hexstr: a non-empty string of hex digits of either case; hexN: the number it denotes):
   (1) the result is the XOR of all components, for components of any size;
   (2) it does not depend on their order; (3) a component given twice cancels;
   (4) components of at most 32 digits give a 32-digit string, i.e. a 16-byte key;
   (5) for components of exactly 32 digits it is the nibble-wise XOR of the component fields *)
Theorem C14_xor :
  (forall ps, Forall hexstr ps -> zmk_combine ps = Ok (fmt_0x 32 (combine_N (map hexN ps)))) /\
  (forall ps qs, Forall hexstr ps -> Permutation ps qs -> zmk_combine ps = zmk_combine qs) /\
  (forall k ps, hexstr k -> Forall hexstr ps -> zmk_combine (k :: k :: ps) = zmk_combine ps) /\
  (forall ps, Forall (fun s => hexstr s /\ length s <= 32) ps ->
     let nibs := nibbles_of_N 32 (combine_N (map hexN ps)) in
     zmk_combine ps = Ok (map hexch nibs) /\ length nibs = 32 /\ all_nib nibs /\
     N_of_nibbles nibs = combine_N (map hexN ps) /\
     unhexlify_str (map hexch nibs) = Ok (bytes_of_nibbles nibs) /\ length (bytes_of_nibbles nibs) = 16) /\
  (forall ps, Forall (fun s => length s = 32 /\ forallb is_hex s = true) ps ->
     zmk_combine ps = Ok (map hexch (combine_fields (map nibs_of_hex ps)))).
Proof. exact xor_property. Qed.
Print Assumptions C14_xor.

(* key check value = the n leading hex digits of E key (16 zero bytes); the zone master key functions return the
   combined key with its 6-digit check value, and the encryption of the combined key under the master key *)
Theorem C14_kcv_enc : forall (E : bytes -> bytes -> bytes),
  (forall k n, In (length k) [8; 16; 24] ->
     calculate_kcv E k n = Ok (map hexch (kcv_spec (nibbles_of_bytes (E k (repeat x00 16))) n))) /\
  (forall ps master mk, Forall (fun s => hexstr s /\ length s <= 32) ps ->
     unhexlify_str master = Ok mk -> In (length mk) [8; 16; 24] ->
     let nibs := nibbles_of_N 32 (combine_N (map hexN ps)) in
     let key := bytes_of_nibbles nibs in
     let kcv := map hexch (kcv_spec (nibbles_of_bytes (E key (repeat x00 16))) 6) in
     get_zone_master_key E ps = Ok (map hexch nibs, kcv) /\
     get_enc_zone_master_key E master ps = Ok (hexlify (E mk key), kcv)).
Proof. exact kcv_enc_property. Qed.
Print Assumptions C14_kcv_enc.

(* non-vacuity: the TSP of a 6-digit PIN (card 1111222233334444, index 1, PIN 123456 -> 2222333344411234);
   decimalisation needing 0 substituted digits, 1 (three decimal nibbles) and 4 (abcdefabcdefabcd -> 0123);
   the two components of key.py's own example give 0a227e33f5c0beacd7b7db09723abb48 in either order *)
Example C14_example :
  let k1 := [54;68;54;66;69;53;49;70;48;52;70;55;54;49;54;55;52;57;49;53;53;52;70;69;50;53;70;55;65;66;69;70]%N in
  let k2 := [54;55;52;57;57;66;50;67;70;49;51;55;68;70;67;66;57;69;65;50;56;70;70;55;53;55;67;68;49;48;65;55]%N in
  let r := map hexch [0;10;2;2;7;14;3;3;15;5;12;0;11;14;10;12;13;7;11;7;13;11;0;9;7;2;3;10;11;11;4;8]%N in
  get_tsp (dstr [1;1;1;1;2;2;2;2;3;3;3;3;4;4;4;4]%N) 1 (dstr [1;2;3;4;5;6]%N)
    = dstr [2;2;2;2;3;3;3;3;4;4;4;1;1;2;3;4]%N /\
  pvv_of_ct [x6a; x2b; x6c; x4d; xee; xff; xab; xcd] = dstr [6;2;6;4]%N /\
  pvv_of_ct [xab; xcd; x1f; xfe; x2d; xcb; xa3; xff] = dstr [1;2;3;0]%N /\
  visa_substituted (nibbles_of_bytes [xab; xcd; x1f; xfe; x2d; xcb; xa3; xff]) = 1 /\
  pvv_of_ct [xab; xcd; xef; xab; xcd; xef; xab; xcd] = dstr [0;1;2;3]%N /\
  zmk_combine [k1; k2] = Ok r /\ zmk_combine [k2; k1] = Ok r /\ zmk_combine [k1; k2; k2] = zmk_combine [k1] /\
  kcv_of_ct [x05; xee; x1d; x33] 6 = map hexch [0;5;14;14;1;13]%N.
Proof. vm_compute. repeat split; reflexivity. Qed.
