(* C14tdes — the encrypted PIN-block, PVV and key-check-value theorems of C13 / C14 with the abstract cipher pair
   replaced by the Triple-DES model of model/Des.v (FIPS 46-3 / SP 800-67, ECB, keying options 1-3).
   The two hypotheses of C13_encrypted / C14_pvv (D undoes E; E keeps the length) are discharged by
   tdes_dec_enc and tdes_enc_length of proofs/DesProofs.v, which hold for every key and every data string.
   This file holds only the instantiations; the known-answer vectors are proofs/DesProofs.v's Examples. *)
From Coq Require Import List Arith NArith.
From Coq Require Import Strings.Byte.
Require Import CU.model.Prim CU.model.Pin CU.model.Des CU.spec.PinSpec CU.proofs.PinProofs CU.proofs.DesProofs.
Import ListNotations.
Open Scope nat_scope.

(* the PVV under 3DES *)
Theorem C14_pvv_tdes : forall pin key k kidx pan, unhexlify_str key = Ok k -> In (length k) [8; 16; 24] ->
  12 <= length pan -> 4 <= length pin -> (kidx < 10)%N -> all_dec pan -> all_dec pin ->
  let ct := tdes_ecb_enc k (bytes_of_nibbles (tsp_spec pan kidx pin)) in
  calculate_pvv tdes_ecb_enc (dstr pin) key kidx (dstr pan) = Ok (dstr (visa_spec (nibbles_of_bytes ct))) /\
  to_pvv tdes_ecb_enc (dstr pin) key kidx (dstr pan) = Ok (dstr (visa_spec (nibbles_of_bytes ct))) /\
  length (visa_spec (nibbles_of_bytes ct)) = 4 /\ all_dec (visa_spec (nibbles_of_bytes ct)).
Proof. exact (pvv_property tdes_ecb_enc tdes_enc_length). Qed.
Print Assumptions C14_pvv_tdes.

(* key check value and zone master key functions under 3DES *)
Theorem C14_kcv_tdes :
  (forall k n, In (length k) [8; 16; 24] ->
     calculate_kcv tdes_ecb_enc k n = Ok (map hexch (kcv_spec (nibbles_of_bytes (tdes_ecb_enc k (repeat x00 16))) n))) /\
  (forall ps master mk, Forall (fun s => hexstr s /\ length s <= 32) ps ->
     unhexlify_str master = Ok mk -> In (length mk) [8; 16; 24] ->
     let nibs := nibbles_of_N 32 (combine_N (map hexN ps)) in
     let key := bytes_of_nibbles nibs in
     let kcv := map hexch (kcv_spec (nibbles_of_bytes (tdes_ecb_enc key (repeat x00 16))) 6) in
     get_zone_master_key tdes_ecb_enc ps = Ok (map hexch nibs, kcv) /\
     get_enc_zone_master_key tdes_ecb_enc master ps = Ok (hexlify (tdes_ecb_enc mk key), kcv)).
Proof. exact (kcv_enc_property tdes_ecb_enc). Qed.
Print Assumptions C14_kcv_tdes.

