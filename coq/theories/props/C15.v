(* C15 — Luhn check digits are correct and validation really rejects bad numbers.
   This file holds only the property theorems; each is closed by a lemma of proofs/CardProofs.v. *)
From Coq Require Import List Arith NArith.
Require Import CU.model.Prim CU.model.Card CU.spec.LuhnSpec CU.proofs.CardProofs.
Import ListNotations.

(* the computed digit is the Luhn digit: it makes the number valid and is the only digit that does *)
Theorem C15_check_digit : forall ds, all_digits ds ->
  calculate_check_digit (ascii_digits ds) = Ok [dchar (calc ds)] /\
  luhn_valid (ds ++ [calc ds]) /\
  forall c, c < 10 -> luhn_valid (ds ++ [c]) -> c = calc ds.
Proof.
  intros ds F. split; [exact (calculate_digits ds F)|]. split; [exact (check_digit_valid ds F)|].
  intros c Hc V. exact (check_digit_unique ds c F Hc V).
Qed.
Print Assumptions C15_check_digit.

(* appending always validates: every string the calculation accepts (any separators), every mode *)
Theorem C15_append_validates : forall m s s', add_check_digit s = Ok s' -> validate_check_digit m s' = Ok tt.
Proof. exact append_validates. Qed.
Print Assumptions C15_append_validates.

(* validation accepts exactly the Luhn-valid numbers and otherwise raises AssertionError, in every mode *)
Theorem C15_validate_iff : forall m ds, all_digits ds -> ds <> [] ->
  (validate_check_digit m (ascii_digits ds) = Ok tt <-> luhn_valid ds) /\
  (validate_check_digit m (ascii_digits ds) = Ok tt \/ validate_check_digit m (ascii_digits ds) = Raise EAssert).
Proof. exact validate_iff. Qed.
Print Assumptions C15_validate_iff.

Theorem C15_substitution : forall p a b q, all_digits (p ++ a :: q) -> b < 10 -> a <> b ->
  luhn_valid (p ++ a :: q) -> ~ luhn_valid (p ++ b :: q).
Proof. exact substitution_detected. Qed.
Print Assumptions C15_substitution.

Theorem C15_transposition : forall p a b q, all_digits (p ++ a :: b :: q) -> a <> b ->
  ~ (a = 0 /\ b = 9) -> ~ (a = 9 /\ b = 0) ->
  luhn_valid (p ++ a :: b :: q) -> ~ luhn_valid (p ++ b :: a :: q).
Proof. exact transposition_detected. Qed.
Print Assumptions C15_transposition.

(* consequence used by the harness: a rejected number is rejected in optimised mode too *)
Corollary C15_reject_every_mode : forall ds, all_digits ds -> ds <> [] -> ~ luhn_valid ds ->
  validate_check_digit Normal (ascii_digits ds) = Raise EAssert /\
  validate_check_digit Optimised (ascii_digits ds) = Raise EAssert.
Proof.
  intros ds F Hne NV. split.
  - destruct (C15_validate_iff Normal ds F Hne) as [[H _] [E|E]]; auto. exfalso; auto.
  - destruct (C15_validate_iff Optimised ds F Hne) as [[H _] [E|E]]; auto. exfalso; auto.
Qed.
Print Assumptions C15_reject_every_mode.

(* non-vacuity: 7992739871 is the textbook example, check digit 3 *)
Example C15_example : all_digits [7;9;9;2;7;3;9;8;7;1] /\ calc [7;9;9;2;7;3;9;8;7;1] = 3 /\
  validate_check_digit Optimised (ascii_digits [7;9;9;2;7;3;9;8;7;1;3]) = Ok tt /\
  validate_check_digit Optimised (ascii_digits [7;9;9;2;7;3;9;8;7;1;0]) = Raise EAssert.
Proof. split; [repeat constructor|]. vm_compute. auto. Qed.
