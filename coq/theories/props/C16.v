(* C16 — masking never discloses more than the first six and last four digits. *)
From Coq Require Import List Arith NArith ZArith.
Require Import CU.model.Prim CU.model.Types CU.model.Unicode CU.model.Codec CU.model.Dates CU.model.Card CU.model.Iso CU.spec.IsoSpec.
Require Import CU.proofs.CardProofs CU.proofs.IsoFraming.
Import ListNotations.

Theorem C16_mask : forall s c, 10 <= length s ->
  let m := mask s [c] in
  length m = length s /\ firstn 6 m = firstn 6 s /\ lastn 4 m = lastn 4 s /\
  (forall i, 6 <= i < length s - 4 -> nth_error m i = Some c).
Proof. exact mask_spec. Qed.
Print Assumptions C16_mask.

(* what one element contributes to the decoded dictionary *)
Definition contributes (cfg : cfgT) (cd : codec) (data : bytes) (f : frame) (es : dict) : Prop :=
  exists c, cfg_get cfg (fr_bit f) = Some c /\
            iso_to_field (fr_bit f) c (skipn (fr_off f) data) cd = Ok (es, fr_plen f + fr_dlen f).

(* the decoded dictionary is the MTI plus the contributions of the frames, merged in order; an element configured
   for PAN masking contributes exactly one entry, its masked value; one configured for PAN prefix, the first nine
   characters.  So the clear value of such an element reaches the dictionary nowhere. *)
Theorem C16_decode : forall cfg cd hexbm b d, loads cfg cd hexbm b = Ok d ->
  exists mti frames ess,
    let data := skipn (if hexbm then 36 else 20) b in
    tiles frames 0 (length data) /\
    Forall2 (contributes cfg cd data) frames ess /\
    d = fold_left dupdate ess [(KMTI, VStr mti)] /\
    Forall2 (fun f es => forall c, cfg_get cfg (fr_bit f) = Some c ->
               forall clear, decode cd (slice (fr_off f + fr_plen f) (fr_end f) data) = Ok clear ->
               (f_proc c = PPAN -> f_ptype c = PTStr -> es = [(KDE (fr_bit f), VStr (mask clear star))]) /\
               (f_proc c = PPANPREFIX -> f_ptype c = PTStr -> es = [(KDE (fr_bit f), VStr (firstn 9 clear))])) frames ess.
Proof. exact c16_decode. Qed.
Print Assumptions C16_decode.

Example C16_mask_example :
  mask (map (fun d => dch d) [5;1;2;3;4;5;6;7;8;9;0;1;2;3;4;6]%N) star
  = map N.of_nat [53;49;50;51;52;53;42;42;42;42;42;42;50;51;52;54].
Proof. vm_compute. reflexivity. Qed.
