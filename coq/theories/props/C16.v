(* C16 (part 1) — masking never discloses more than the first six and last four characters. *)
From Coq Require Import List Arith NArith.
Require Import CU.model.Prim CU.model.Card CU.proofs.CardProofs.
Import ListNotations.

Theorem C16_mask : forall s c, 10 <= length s ->
  let m := mask s [c] in
  length m = length s /\ firstn 6 m = firstn 6 s /\ lastn 4 m = lastn 4 s /\
  (forall i, 6 <= i < length s - 4 -> nth_error m i = Some c).
Proof. exact mask_spec. Qed.
Print Assumptions C16_mask.

Example C16_mask_example :
  mask (map (fun d => dch d) [5;1;2;3;4;5;6;7;8;9;0;1;2;3;4;6]%N) star
  = map N.of_nat [53;49;50;51;52;53;42;42;42;42;42;42;50;51;52;54].
Proof. vm_compute. reflexivity. Qed.
