(* C16 — masking never discloses more than the first six and last four digits. *)
From Coq Require Import List Arith NArith ZArith.
Require Import CU.model.Prim CU.model.Types CU.model.Unicode CU.model.Codec CU.model.Dates CU.model.Card CU.model.Iso CU.spec.IsoSpec.
Require Import CU.proofs.CardProofs CU.proofs.IsoFraming.
Import ListNotations.

Theorem C16_mask : forall s c, 10 <= length s ->
  let m := mask s [c] in
  length m = length s /\ firstn 6 m = firstn 6 s /\ lastn 4 m = lastn 4 s /\
  (forall i, 6 <= i < length s - 4 -> nth_error m i = Some c).
Proof. exact mask_spec. Qed.
Print Assumptions C16_mask.

(* what one element contributes to the decoded dictionary *)
Definition contributes (cfg : cfgT) (cd : codec) (data : bytes) (f : frame) (es : dict) : Prop :=
  exists c, cfg_get cfg (fr_bit f) = Some c /\
            iso_to_field (fr_bit f) c (skipn (fr_off f) data) cd = Ok (es, fr_plen f + fr_dlen f).

(* the decoded dictionary is the MTI plus the contributions of the frames, merged in order; an element configured
   for PAN masking contributes exactly one entry, its masked value; one configured for PAN prefix, the first nine
   characters.  So the clear value of such an element reaches the dictionary nowhere. *)
Theorem C16_decode : forall cfg cd hexbm b d, loads cfg cd hexbm b = Ok d ->
  exists mti frames ess,
    let data := skipn (if hexbm then 36 else 20) b in
    tiles frames 0 (length data) /\
    Forall2 (contributes cfg cd data) frames ess /\
    d = fold_left dupdate ess [(KMTI, VStr mti)] /\
    Forall2 (fun f es => forall c, cfg_get cfg (fr_bit f) = Some c ->
               forall clear, decode cd (slice (fr_off f + fr_plen f) (fr_end f) data) = Ok clear ->
               (f_proc c = PPAN -> f_ptype c = PTStr -> es = [(KDE (fr_bit f), VStr (mask clear star))]) /\
               (f_proc c = PPANPREFIX -> f_ptype c = PTStr -> es = [(KDE (fr_bit f), VStr (firstn 9 clear))])) frames ess.
Proof. exact c16_decode. Qed.
Print Assumptions C16_decode.

(* the same whatever python type the element is configured with (int, long, decimal, datetime): the entry is the typed
   conversion of the MASKED text, or of the nine-character prefix - a function of those, never of the clear value; when
   the conversion fails (a masked value is not a number) decoding as a whole fails, so nothing is returned at all *)
Theorem C16_decode_typed : forall cfg cd hexbm b d, loads cfg cd hexbm b = Ok d ->
  exists mti frames ess,
    let data := skipn (if hexbm then 36 else 20) b in
    tiles frames 0 (length data) /\
    d = fold_left dupdate ess [(KMTI, VStr mti)] /\
    Forall2 (fun f es => forall c, cfg_get cfg (fr_bit f) = Some c ->
               forall clear, decode cd (slice (fr_off f + fr_plen f) (fr_end f) data) = Ok clear ->
               (f_proc c = PPAN -> exists v, string_to_pytype (mask clear star) c = Ok v /\ es = [(KDE (fr_bit f), v)]) /\
               (f_proc c = PPANPREFIX -> exists v, string_to_pytype (firstn 9 clear) c = Ok v /\ es = [(KDE (fr_bit f), v)])) frames ess.
Proof. exact c16_decode_typed. Qed.
Print Assumptions C16_decode_typed.

(* a PAN-PREFIX element of python type int: 4444555566667777 comes back as the NUMBER 444455556; with PAN masking the
   same element is refused (44445555******7777 is not a number) *)
Example C16_typed_example :
  match codec_named [108;97;116;105;110;95;49]%N with
  | Some cd =>
    let b := map byte_of_N ([49;49;52;52] ++ [192] ++ repeat 0%N 15 ++ [49;54; 52;52;52;52;53;53;53;53;54;54;54;54;55;55;55;55])%N in
    loads [(2, mkfc LLVAR (Some 0) PTInt [] PPANPREFIX D43None)] cd false b
      = Ok [(KMTI, VStr [49;49;52;52]%N); (KDE 2, VInt 444455556)] /\
    loads [(2, mkfc LLVAR (Some 0) PTInt [] PPAN D43None)] cd false b = Raise EData
  | None => False
  end.
Proof. vm_compute. auto. Qed.

Example C16_mask_example :
  mask (map (fun d => dch d) [5;1;2;3;4;5;6;7;8;9;0;1;2;3;4;6]%N) star
  = map N.of_nat [53;49;50;51;52;53;42;42;42;42;42;42;50;51;52;54].
Proof. vm_compute. reflexivity. Qed.
