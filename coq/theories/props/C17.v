(* C17 — file inspection recognises writer output: validity, encoding family, blocking. *)
From Coq Require Import List Arith NArith ZArith.
From Coq Require Import Strings.Byte.
Require Import CU.model.Prim CU.model.Types CU.model.Unicode CU.model.Codec CU.model.Block CU.model.Vbs CU.model.Iso CU.model.Ipm CU.model.Info.
Require Import CU.spec.FramingSpec CU.spec.IsoSpec CU.proofs.InfoProofs.
Require CU.gen.GenConfig CU.gen.GenCodec.
Import ListNotations.

Definition packaged := CU.gen.GenConfig.packaged_bit_config.
Definition maxlen := CU.gen.GenConfig.max_vbs_record_length.
Definition latin1 := mkcodec CU.gen.GenCodec.tbl_latin_1.
Definition cp037 := mkcodec CU.gen.GenCodec.tbl_cp037.
Definition inspect (file : bytes) : info := ipm_info 1012 packaged maxlen latin1 cp037 file.

(* the two families: the ten digits are written as 0x30..0x39, or as 0xF0..0xF9 *)
Definition ascii_digitsb (cd : codec) : bool :=
  forallb (fun d => match cenc cd (dch d) with Some b => (Byte.to_N b =? 48 + d)%N | None => false end) [0;1;2;3;4;5;6;7;8;9]%N.
Definition ebcdic_digitsb (cd : codec) : bool :=
  forallb (fun d => match cenc cd (dch d) with Some b => (Byte.to_N b =? 240 + d)%N | None => false end) [0;1;2;3;4;5;6;7;8;9]%N.

(* every file the writer produces from at least one well-formed message (packaged configuration), any number of
   records and blocks: valid, matching encoding family, blocked reported for every blocked file, and an unblocked
   file reported unblocked unless its bytes 1012-1013 are both 0x40 *)
Theorem C17_writer_output : forall cd blocked ms file,
  ms <> [] -> codec_okb cd = true ->
  Forall (fun m => wf_msgb packaged cd m = true /\ forall b, dumps packaged cd false m = Ok b -> (N.of_nat (length b) <= maxlen)%N) ms ->
  ipm_file 1012 packaged cd blocked ms = Ok file ->
  exists b e, inspect file = Valid b e /\
    (ascii_digitsb cd = true -> e = GLatin1) /\
    (ebcdic_digitsb cd = true -> e = GCp037) /\
    (blocked = true -> b = true) /\
    (blocked = false -> slice 1012 1014 file <> trailer -> b = false).
Proof. exact c17_writer_output. Qed.
Print Assumptions C17_writer_output.

(* the generated codec tables fall into the two families as listed (re-proved on every run) *)
Theorem C17_families :
  forallb (fun n => match codec_named n with Some cd => ascii_digitsb cd | None => false end) CU.gen.GenCodec.ascii_family = true /\
  forallb (fun n => match codec_named n with Some cd => ebcdic_digitsb cd | None => false end) CU.gen.GenCodec.ebcdic_family = true.
Proof. exact c17_families. Qed.
Print Assumptions C17_families.

(* invalid inputs are reported invalid with a reason *)
Theorem C17_invalid : forall file,
  (length file < 24 -> inspect file = Invalid 1) /\
  (24 <= length file -> (maxlen < unbe (firstn 4 file))%N -> inspect file = Invalid 2) /\
  (24 <= length file -> (unbe (firstn 4 file) <= maxlen)%N ->
     (exists n, 2 <= n <= 128 /\ bit_set (slice 8 24 file) n = true /\ cfg_get packaged n = None) -> inspect file = Invalid 3).
Proof. exact c17_invalid. Qed.
Print Assumptions C17_invalid.

Example C17_example :
  match codec_named [99;112;53;48;48]%N with
  | Some cd => match ipm_file 1012 packaged cd true [[(KMTI, VStr [49;50;52;48]%N); (KDE 2, VStr [52;52;52;52;53;53;53;53;54;54;54;54;55;55;55;55]%N)]] with
               | Ok f => inspect f = Valid true GCp037
               | _ => False end
  | None => False
  end.
Proof. vm_compute. reflexivity. Qed.
