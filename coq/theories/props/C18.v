(* C18 — IPM table extraction returns exactly the requested table's rows and columns.
   This file holds only the property theorems; each is closed by a lemma of proofs/ParamProofs.v.

   Model: model/Param.v (IpmParamReader over the VBS records of the file and the way their iteration ended).
   Spec:  spec/ParamSpec.v (rows as text; file = index rows, trailer record, data rows, encoded record-wise). *)
From Coq Require Import Strings.Byte Strings.String.
From Coq Require Import List Arith NArith Lia.
Require Import CU.model.Prim CU.model.Codec CU.model.Block CU.model.Vbs CU.model.Param.
Require Import CU.spec.ParamSpec CU.spec.FramingSpec CU.proofs.ParamProofs.
Require Import CU.gen.GenConfig CU.gen.GenCodec.
Import ListNotations.
Open Scope nat_scope.

(* Every layout with admissible positions (19 <= start <= end, distinct column names), every index assignment (distinct
   sub ids are needed for compressed rows only), every list of data rows of any tables in any order, any body
   contents and lengths (short bodies give short / empty columns on both sides), both representations, every codec
   whose table has at most 256 entries, every way e the framing can end after the last complete record:
   the reader returns exactly the rows of the requested table, in file order, each as
   table_id, effective_timestamp, active_inactive_code, then every configured column = body[start-19 : end-19]. *)
Theorem C18_rows : forall ls c table lay expanded irows tail rows recs e,
  codec_fits c ->
  playout_get ls table = Some lay -> lay <> [] -> layout_ok lay -> fields_ok lay ->
  Forall wf_irow irows -> Forall (wf_drow expanded) rows ->
  (expanded = false -> NoDup (map i_sub irows)) ->
  param_file c irows tail rows = Ok recs ->
  param_read ls c table expanded recs e =
    Ok (expected_rows lay expanded (index_of irows) table rows, pend_of_rend e).
Proof. exact c18_rows. Qed.
Print Assumptions C18_rows.

(* The same rows written expanded (table id in the row) and compressed (sub id, resolved through the index):
   both files are read completely and the returned rows agree in every column but the timestamp, whose
   format differs between the representations (same column names in the same order, same values). *)
Theorem C18_compressed_eq_expanded :
  forall ls c table lay irows_e irows_c tail_e tail_c rows_e rows_c recs_e recs_c,
  codec_fits c ->
  playout_get ls table = Some lay -> lay <> [] -> layout_ok lay -> fields_ok lay ->
  Forall wf_irow irows_e -> Forall wf_irow irows_c -> NoDup (map i_sub irows_c) ->
  Forall (wf_drow true) rows_e -> Forall (wf_drow false) rows_c ->
  Forall2 (same_row (index_of irows_c)) rows_e rows_c ->
  param_file c irows_e tail_e rows_e = Ok recs_e ->
  param_file c irows_c tail_c rows_c = Ok recs_c ->
  exists out_e out_c,
    param_read ls c table true recs_e End = Ok (out_e, PEnd) /\
    param_read ls c table false recs_c End = Ok (out_c, PEnd) /\
    Forall2 rows_agree out_e out_c.
Proof. exact c18_compressed_eq_expanded. Qed.
Print Assumptions C18_compressed_eq_expanded.

(* Refusals, with the library's error (MciIpmDataError = Raise EData), raised by the constructor:
   (1) a table without configuration (absent, or an empty column dict) — for any records at all;
   (2) no record is the index trailer — for any decodable records and any end of the framing;
   (3) in particular the spec-built file with the trailer record left out. *)
Theorem C18_refusals :
  (forall ls c table expanded recs e,
     playout_get ls table = None \/ playout_get ls table = Some [] ->
     param_read ls c table expanded recs e = Raise EData) /\
  (forall ls c table lay expanded recs e,
     playout_get ls table = Some lay -> lay <> [] -> layout_ok lay ->
     Forall (fun b => exists t, decode c b = Ok t /\ starts_with k_trailer t = false) recs ->
     param_read ls c table expanded recs e = Raise EData) /\
  (forall ls c table lay expanded irows rows recs e,
     codec_fits c ->
     playout_get ls table = Some lay -> lay <> [] -> layout_ok lay ->
     Forall wf_irow irows -> Forall (fun r => forall tail, drow_text r <> trailer_text tail) rows ->
     encode_all c (map irow_text irows ++ map drow_text rows) = Ok recs ->
     param_read ls c table expanded recs e = Raise EData).
Proof.
  split; [exact c18_refuse_no_layout|]. split; [exact c18_refuse_no_trailer|exact c18_refuse_file_without_trailer].
Qed.
Print Assumptions C18_refusals.

(* ---------- the packaged configuration (GENERATED from config.py on every run) ---------- *)
(* every packaged table has columns, 19 <= start <= end everywhere, distinct column names that do not collide with
   the three automatic columns, and table names are distinct: an inadmissible edit of config.py breaks this *)
Theorem C18_packaged_layouts_ok : layouts_okb packaged_param_tables = true.
Proof. vm_compute. reflexivity. Qed.
Print Assumptions C18_packaged_layouts_ok.

(* hence C18_rows holds for every packaged table as it stands *)
Theorem C18_rows_packaged : forall table lay c expanded irows tail rows recs e,
  In (table, lay) packaged_param_tables ->
  codec_fits c ->
  Forall wf_irow irows -> Forall (wf_drow expanded) rows ->
  (expanded = false -> NoDup (map i_sub irows)) ->
  param_file c irows tail rows = Ok recs ->
  param_read packaged_param_tables c table expanded recs e =
    Ok (expected_rows lay expanded (index_of irows) table rows, pend_of_rend e).
Proof. exact (c18_rows_checked packaged_param_tables C18_packaged_layouts_ok). Qed.
Print Assumptions C18_rows_packaged.

(* ---------- the packaged codecs (GENERATED from the running CPython) ---------- *)
(* the hypothesis on the codec holds for every generated table *)
Theorem C18_codecs_fit : forall name tbl, In (name, tbl) codec_tables -> codec_fits (mkcodec tbl).
Proof. apply (c18_codecs_fit codec_tables). vm_compute. reflexivity. Qed.
Print Assumptions C18_codecs_fit.

(* latin_1 and cp500 map the 256 bytes one-to-one, so EVERY list of byte records is the encoding of its decoding:
   quantifying over row texts in the theorems above loses no file *)
Theorem C18_every_record_is_a_text : forall c, c = mkcodec tbl_latin_1 \/ c = mkcodec tbl_cp500 ->
  forall recs, exists texts, encode_all c texts = Ok recs /\ Forall2 (fun r t => decode c r = Ok t) recs texts.
Proof.
  intros c [E|E]; subst c; apply pp_roundtrips_cover_all; intros b; destruct b; vm_compute; reflexivity.
Qed.
Print Assumptions C18_every_record_is_a_text.

(* ---------- on the bytes of the file: VbsWriter output (blocked or not) read back through VbsReader ---------- *)
Theorem C18_file_bytes : forall ls c table lay expanded blocked irows tail rows recs,
  codec_fits c ->
  playout_get ls table = Some lay -> lay <> [] -> layout_ok lay -> fields_ok lay ->
  Forall wf_irow irows -> Forall (wf_drow expanded) rows ->
  (expanded = false -> NoDup (map i_sub irows)) ->
  Forall (fun t => (N.of_nat (length t) <= max_vbs_record_length)%N) (param_file_text irows tail rows) ->
  param_file c irows tail rows = Ok recs ->
  (do x <- read_all 1012 max_vbs_record_length
             (file_of (writer_run 1012 blocked (map WWrite recs ++ [WClose]))) blocked;
   param_read ls c table expanded (fst x) (snd x)) =
    Ok (expected_rows lay expanded (index_of irows) table rows, PEnd).
Proof.
  apply (c18_file_bytes 1012); [lia|]. vm_compute. reflexivity.
Qed.
Print Assumptions C18_file_bytes.

(* ---------- non-vacuity: an EBCDIC compressed extract with rows of two tables interleaved and an unknown sub id ---------- *)
Example C18_example :
  let c := mkcodec tbl_cp500 in
  let irows := [mkirow (lit "2011101414A") (lit "IP0040T1") (repeat 46%N 216) (lit "036") (lit "  ");
                mkirow (lit "2011101415A") (lit "IP0075T1") (repeat 32%N 216) (lit "075") []] in
  let rows := [mkdrow (lit "2401241") (lit "A") (lit "075") (lit "5411 CAB1AXB-rest-of-row");
               mkdrow (lit "2401242") (lit "A") (lit "036") (lit "5116545113000000000MCC");
               mkdrow (lit "2401243") (lit "I") (lit "xxx") (lit "....");
               mkdrow (lit "2401244") (lit "I") (lit "075") (lit "5812")] in
  Forall wf_irow irows /\ Forall (wf_drow false) rows /\ NoDup (map i_sub irows) /\
  (do recs <- param_file c irows (lit "  00000218") rows;
   param_read packaged_param_tables c (lit "IP0075T1") false recs End) =
  Ok ([[(lit "table_id", lit "IP0075T1"); (lit "effective_timestamp", lit "2401241");
        (lit "active_inactive_code", lit "A");
        (lit "card_acceptor_business_code_mcc", lit "5411 ");
        (lit "card_acceptor_business_cab_program", lit "CAB1");
        (lit "card_acceptor_business_cab_program_life_cycle_indicator", lit "A");
        (lit "card_acceptor_business_cab_type", lit "X");
        (lit "card_acceptor_business_cab_life_cycle_indicator", lit "B")];
       [(lit "table_id", lit "IP0075T1"); (lit "effective_timestamp", lit "2401244");
        (lit "active_inactive_code", lit "I");
        (lit "card_acceptor_business_code_mcc", lit "5812");
        (lit "card_acceptor_business_cab_program", []);
        (lit "card_acceptor_business_cab_program_life_cycle_indicator", []);
        (lit "card_acceptor_business_cab_type", []);
        (lit "card_acceptor_business_cab_life_cycle_indicator", [])]], PEnd) /\
  (do recs <- param_file c irows (lit "  00000218") rows;
   param_read packaged_param_tables c (lit "IP9999T1") false recs End) = Raise EData /\
  (do recs <- encode_all c (map irow_text irows ++ map drow_text rows);
   param_read packaged_param_tables c (lit "IP0075T1") false recs End) = Raise EData.
Proof.
  cbv zeta. split; [repeat constructor|]. split; [repeat constructor|]. split.
  - repeat constructor; cbn [In map i_sub]; intros H; repeat destruct H as [H|H]; try discriminate H; exact H.
  - vm_compute. auto.
Qed.
