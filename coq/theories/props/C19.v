(* C19 — encoding/format conversion tools preserve every record and are reversible. *)
From Coq Require Import List Arith NArith ZArith.
From Coq Require Import Strings.Byte.
Require Import CU.model.Prim CU.model.Types CU.model.Codec CU.model.Block CU.model.Vbs CU.model.Iso CU.model.Ipm CU.model.Tools.
Require Import CU.spec.FramingSpec CU.spec.IsoSpec CU.proofs.ToolsProofs.
Require CU.gen.GenConfig CU.gen.GenCodec.
Import ListNotations.

(* The domain of the property is defined ONCE, in proofs/ToolsProofs.v (restating it here and closing the theorems
   with `exact` against other constants of the same body makes the unifier unfold both):
     totalb c            every byte of the table decodes;
     covers a b          every character of table a is encodable in b;
     compatibleb a b     := codec_injb a && codec_injb b && totalb a && totalb b && covers a b && covers b a
                         (total, injective tables with the same repertoire: conversion loses nothing);
     convertible_cfgb g  no element of g has a PAN or PAN-PREFIX processor (the tools' reader would return the masked /
                         truncated value and the writer would write THAT back; nothing else is required). *)

Section C19.
Variable B : nat.
Hypothesis Bpos : 0 < B.
Variable maxlen : N.
Hypothesis maxlen_ok : (maxlen < 2 ^ 32)%N.

Definition written (blocked : bool) (rs : list bytes) : bytes :=
  file_of (writer_run B blocked (map WWrite rs ++ [WClose])).

(* parameter files: records of ARBITRARY bytes.  A -> B yields the records re-encoded one by one (same count, same
   order, each decoding under B to what the original decodes to under A), in the requested output format *)
Theorem C19_param_records : forall cdA cdB fa fb rs,
  compatibleb cdA cdB = true -> Forall (wf_rec maxlen) rs ->
  exists rs', pconvert B maxlen cdA cdB fa fb (written fa rs) = Ok (written fb rs') /\
              Forall2 (fun r r' => exists s, decode cdA r = Ok s /\ decode cdB r' = Ok s) rs rs'.
Proof. exact (c19_param_records B Bpos maxlen maxlen_ok). Qed.

(* ... and converting the result back with the original format reproduces the original file byte for byte *)
Theorem C19_param_reversible : forall cdA cdB fa fb rs out,
  compatibleb cdA cdB = true -> Forall (wf_rec maxlen) rs ->
  pconvert B maxlen cdA cdB fa fb (written fa rs) = Ok out ->
  pconvert B maxlen cdB cdA fb fa out = Ok (written fa rs).
Proof. exact (c19_param_reversible B Bpos maxlen maxlen_ok). Qed.

(* IPM files written by the library from well-formed messages (packaged-style configuration without PAN processors):
   the converted file decodes under B to the records the input decodes to under A *)
Theorem C19_ipm_records : forall cfg cdA cdB fa fb ms file,
  wf_cfgb cfg = true -> convertible_cfgb cfg = true -> compatibleb cdA cdB = true ->
  Forall (fun m => wf_msgb cfg cdA m = true /\ forall b, dumps cfg cdA false m = Ok b -> (N.of_nat (length b) <= maxlen)%N) ms ->
  ipm_file B cfg cdA fa ms = Ok file ->
  exists out, convert B maxlen (cfg_nopds cfg) cfg cdA cdB fa fb file = Ok out /\
              iread_all B maxlen cfg cdB out fb = iread_all B maxlen cfg cdA file fa.
Proof. exact (c19_ipm_records B Bpos maxlen maxlen_ok). Qed.

(* the same with both sides explicit (the equality above is not vacuous): the conversion succeeds, both files read to
   the end and to the same records ds — ICC data are the VBytes values of ds, hence byte-identical — and ds are the
   records C06 promises for the original file, one per message and in order *)
Theorem C19_ipm_records_explicit : forall cfg cdA cdB fa fb ms file,
  wf_cfgb cfg = true -> convertible_cfgb cfg = true -> compatibleb cdA cdB = true ->
  Forall (fun m => wf_msgb cfg cdA m = true /\ forall b, dumps cfg cdA false m = Ok b -> (N.of_nat (length b) <= maxlen)%N) ms ->
  ipm_file B cfg cdA fa ms = Ok file ->
  exists out ds, convert B maxlen (cfg_nopds cfg) cfg cdA cdB fa fb file = Ok out /\
                 iread_all B maxlen cfg cdA file fa = Ok (ds, End) /\
                 iread_all B maxlen cfg cdB out fb = Ok (ds, End) /\
                 Forall2 (CU.proofs.IpmProofs.agrees cfg) ms ds.
Proof. exact (c19_ipm_records_explicit B Bpos maxlen maxlen_ok). Qed.

Theorem C19_ipm_reversible : forall cfg cdA cdB fa fb ms file out,
  wf_cfgb cfg = true -> convertible_cfgb cfg = true -> compatibleb cdA cdB = true ->
  Forall (fun m => wf_msgb cfg cdA m = true /\ forall b, dumps cfg cdA false m = Ok b -> (N.of_nat (length b) <= maxlen)%N) ms ->
  ipm_file B cfg cdA fa ms = Ok file ->
  convert B maxlen (cfg_nopds cfg) cfg cdA cdB fa fb file = Ok out ->
  convert B maxlen (cfg_nopds cfg) cfg cdB cdA fb fa out = Ok file.
Proof. exact (c19_ipm_reversible B Bpos maxlen maxlen_ok). Qed.
End C19.

Print Assumptions C19_param_records.
Print Assumptions C19_param_reversible.
Print Assumptions C19_ipm_records.
Print Assumptions C19_ipm_records_explicit.
Print Assumptions C19_ipm_reversible.

(* the three encodings of the property are pairwise compatible, and the packaged configuration is convertible
   (generated obligations, re-proved on every run) *)
Theorem C19_packaged :
  let l := mkcodec CU.gen.GenCodec.tbl_latin_1 in let e := mkcodec CU.gen.GenCodec.tbl_cp500 in let f := mkcodec CU.gen.GenCodec.tbl_cp037 in
  compatibleb l e = true /\ compatibleb l f = true /\ compatibleb e f = true /\
  compatibleb e l = true /\ compatibleb f l = true /\ compatibleb f e = true /\
  convertible_cfgb CU.gen.GenConfig.packaged_bit_config = true.
Proof. exact c19_packaged. Qed.
Print Assumptions C19_packaged.

(* a concrete instance: a two-record parameter file ("AB", "1"), unblocked latin_1, converted to 1014-blocked cp500
   (block payload 3 to keep it readable) and back *)
Example C19_example :
  let l := mkcodec CU.gen.GenCodec.tbl_latin_1 in let e := mkcodec CU.gen.GenCodec.tbl_cp500 in
  let orig := written 3 false [[x41; x42]; [x31]] in
  let conv := [x00; x00; x00; x40; x40; x02; xc1; xc2; x40; x40; x00; x00; x00; x40; x40; x01; xf1; x00; x40; x40;
               x00; x00; x00; x40; x40] in
  orig = [x00; x00; x00; x02; x41; x42; x00; x00; x00; x01; x31; x00; x00; x00; x00] /\
  conv = written 3 true [[xc1; xc2]; [xf1]] /\
  pconvert 3 6000 l e false true orig = Ok conv /\
  pconvert 3 6000 e l true false conv = Ok orig.
Proof. vm_compute. repeat split. Qed.
Print Assumptions C19_example.
