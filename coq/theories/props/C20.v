(* C20 — CSV to IPM to CSV returns the same rows. *)
From Coq Require Import List Arith NArith ZArith.
Require Import CU.model.Prim CU.model.Types CU.model.Unicode CU.model.Codec CU.model.Dates CU.model.Block CU.model.Vbs CU.model.Iso CU.model.Ipm CU.model.Tools.
Require Import CU.spec.FramingSpec CU.spec.IsoSpec CU.proofs.CsvProofs.
Require CU.gen.GenConfig.
Import ListNotations.

(* csv parsing/printing itself is CPython's csv module: an oracle whose only assumed property is
   read (write rows) = rows for cells without CR/LF.  The theorem is about the rows. *)
Section C20.
Variable B : nat.
Hypothesis Bpos : 0 < B.
Variable maxlen : N.
Hypothesis maxlen_ok : (maxlen < 2 ^ 32)%N.

(* a table of well-formed messages expressed as CSV: `canonical_tableb cfg cd maxlen cols rows` (CsvProofs.v) says:
   - the columns are distinct, contain MTI, and each is MTI, a configured data element DEn with 2 <= n <= 127, or a PDS
     sub-element with a tag of 4 ASCII digits; if there is any PDS column, no PDS carrier element is a column;
   - every row has as many cells as there are columns; an empty cell means absent (the MTI cell is never empty);
   - the MTI cell is 4 ASCII digits; a non-empty cell of an int element is a plain decimal numeral (ASCII digits, no sign,
     no leading zeros: `str_of_N n`) whose zero-padded rendering fits the field; of a date element the ISO form
     "YYYY-MM-DD HH:MM:SS" (`parse_iso`) of a date-time representable in the element's format (`wf_dateb`) whose rendering
     fits; of a fixed text element exactly the field width; of a variable one 1..99 / 1..999 characters (a carrier given
     directly must parse as PDS data); of a PDS column at most 992 characters; no cell of an ICC (bytes) or decimal element;
     everything that is written is encodable in the codec (also the ten digits, for the length prefixes);
   - when the row supplies PDS cells the configured carriers are LLLVAR text elements 2..127 and the packing fits them;
   - the encoded record is at most maxlen bytes.
   `csv_cfgb cfg`: no element has a PAN / PAN-PREFIX processor (a masked or shortened value does not come back).
   The native message of such a row (numerals as int, ISO strings as datetime: `native_row`) satisfies `wf_msgb`
   (CsvProofs.cs_native_wf), and the encoder does not tell a cell from its native value (cs_dumps_native). *)
Theorem C20_rows : forall cfg cd blocked cols rows,
  wf_cfgb cfg = true -> csv_cfgb cfg = true -> codec_okb cd = true ->
  canonical_tableb cfg cd maxlen cols rows = true ->
  exists file, csv_to_ipm B cfg cd blocked cols rows = Ok file /\
               ipm_to_rows B maxlen cfg cd blocked cols file = Ok (map (map (@Some str)) rows).
Proof. exact (c20_rows B Bpos maxlen maxlen_ok). Qed.
End C20.
Print Assumptions C20_rows.

(* the value lemmas behind it: printing what was parsed gives back the canonical cell *)
Theorem C20_int_cell : forall n, py_int (str_of_N n) = Some (Z.of_N n) /\ cell_of (VInt (Z.of_N n)) = Some (str_of_N n).
Proof. exact c20_int_cell. Qed.
Print Assumptions C20_int_cell.
Theorem C20_date_cell : forall s d, parse_iso s = Some d -> iso_of d = s.
Proof. exact c20_date_cell. Qed.
Print Assumptions C20_date_cell.

(* A date-time cell may also be given in the other plain ISO 8601 spellings that dateutil.parser.parse and
   datetime.fromisoformat both read (`parse_iso_any`: 'T' for the blank, no seconds, the date alone).  Whatever the
   accepted spelling, the cell that is written back (`iso_of d` = str(datetime)) reads as the same date-time, in the
   canonical reading and therefore in any (the text itself comes back only for the canonical spelling: C20_date_cell). *)
Theorem C20_date_spellings : forall s d, parse_iso_any s = Some d ->
  parse_iso (iso_of d) = Some d /\ parse_iso_any (iso_of d) = Some d.
Proof. exact c20_date_spellings. Qed.
Print Assumptions C20_date_spellings.

Example C20_date_spellings_example :
  (* 2021-03-04 05:06:00 *) parse_iso_any [50; 48; 50; 49; 45; 48; 51; 45; 48; 52; 32; 48; 53; 58; 48; 54; 58; 48; 48]%N = Some (mkdt 2021 3 4 5 6 0) /\
  (* 2021-03-04T05:06:00 *) parse_iso_any [50; 48; 50; 49; 45; 48; 51; 45; 48; 52; 84; 48; 53; 58; 48; 54; 58; 48; 48]%N = Some (mkdt 2021 3 4 5 6 0) /\
  (* 2021-03-04 05:06    *) parse_iso_any [50; 48; 50; 49; 45; 48; 51; 45; 48; 52; 32; 48; 53; 58; 48; 54]%N = Some (mkdt 2021 3 4 5 6 0) /\
  (* 2021-03-04T05:06    *) parse_iso_any [50; 48; 50; 49; 45; 48; 51; 45; 48; 52; 84; 48; 53; 58; 48; 54]%N = Some (mkdt 2021 3 4 5 6 0) /\
  (* 2021-03-04          *) parse_iso_any [50; 48; 50; 49; 45; 48; 51; 45; 48; 52]%N = Some (mkdt 2021 3 4 0 0 0) /\
  (* 2021-03-04X05:06:00 *) parse_iso_any [50; 48; 50; 49; 45; 48; 51; 45; 48; 52; 88; 48; 53; 58; 48; 54; 58; 48; 48]%N = None /\
  (* 2021-13-04          *) parse_iso_any [50; 48; 50; 49; 45; 49; 51; 45; 48; 52]%N = None /\
  (* 2021-03-04T05:06:0  *) parse_iso_any [50; 48; 50; 49; 45; 48; 51; 45; 48; 52; 84; 48; 53; 58; 48; 54; 58; 48]%N = None.
Proof. vm_compute. repeat split. Qed.

(* the domain is inhabited and the round trip computes: the packaged configuration, latin_1, blocked and unblocked, a cell
   with a comma, a quote and spaces, empty cells, DE4 = "0", DE12 = "2021-03-04 05:06:07" *)
Definition ex_cd : codec :=
  match codec_named [108; 97; 116; 105; 110; 95; 49]%N with Some cd => cd | None => mkcodec [] end.
Definition ex_cols : list key := [KMTI; KDE 2; KDE 4; KDE 12; KPDS [48; 48; 50; 51]%N].
Definition ex_rows : list (list str) :=
  [ [[49; 50; 52; 48]%N;                                                                   (* 1240 *)
     [53; 52; 49; 50; 51; 52; 53; 54; 55; 56; 57; 48; 49; 50; 51; 52]%N;                   (* 5412345678901234 *)
     [48]%N;                                                                               (* 0 *)
     [50; 48; 50; 49; 45; 48; 51; 45; 48; 52; 32; 48; 53; 58; 48; 54; 58; 48; 55]%N;       (* 2021-03-04 05:06:07 *)
     [84; 44; 32; 34; 120; 34; 32; 121]%N];                                                (* T, "x" y *)
    [[49; 50; 52; 48]%N;
     [];
     [49; 50; 51; 52; 53]%N;                                                               (* 12345 *)
     [50; 48; 50; 49; 45; 48; 51; 45; 48; 52; 32; 48; 53; 58; 48; 54; 58; 48; 55]%N;
     []] ].

Example C20_example_domain :
  wf_cfgb CU.gen.GenConfig.packaged_bit_config = true /\ csv_cfgb CU.gen.GenConfig.packaged_bit_config = true /\
  codec_okb ex_cd = true /\
  canonical_tableb CU.gen.GenConfig.packaged_bit_config ex_cd 6000 ex_cols ex_rows = true.
Proof. repeat split; vm_compute; reflexivity. Qed.

Example C20_example_roundtrip : forall blocked : bool,
  (do file <- csv_to_ipm 1012 CU.gen.GenConfig.packaged_bit_config ex_cd blocked ex_cols ex_rows;
   ipm_to_rows 1012 6000 CU.gen.GenConfig.packaged_bit_config ex_cd blocked ex_cols file)
  = Ok (map (map (@Some str)) ex_rows).
Proof. intros [|]; vm_compute; reflexivity. Qed.
