(* C20 — CSV to IPM to CSV returns the same rows. *)
From Coq Require Import List Arith NArith ZArith.
Require Import CU.model.Prim CU.model.Types CU.model.Unicode CU.model.Codec CU.model.Dates CU.model.Block CU.model.Vbs CU.model.Iso CU.model.Ipm CU.model.Tools.
Require Import CU.spec.FramingSpec CU.spec.IsoSpec CU.proofs.ToolsProofs CU.proofs.CsvProofs.
Import ListNotations.

(* csv parsing/printing itself is CPython's csv module: an oracle whose only assumed property is
   read (write rows) = rows for cells without CR/LF.  The theorem is about the rows. *)
Section C20.
Variable B : nat.
Hypothesis Bpos : 0 < B.
Variable maxlen : N.
Hypothesis maxlen_ok : (maxlen < 2 ^ 32)%N.

(* a table of well-formed messages expressed as CSV: `canonical_tableb` (CsvProofs.v) says: distinct columns drawn from
   MTI / configured data elements / PDS sub-elements (not the PDS carriers together with PDS columns); an MTI cell of 4
   digits in every row; numbers in plain decimal (no sign, no leading zeros) within the field width; date-times in
   ISO form "YYYY-MM-DD HH:MM:SS" representable in the element's format; fixed text of exactly the field width;
   variable text of 1..99 / 1..999 characters; empty cells = absent; every character encodable; records fit. *)
Theorem C20_rows : forall cfg cd blocked cols rows,
  wf_cfgb cfg = true -> csv_cfgb cfg = true -> codec_okb cd = true ->
  canonical_tableb cfg cd maxlen cols rows = true ->
  exists file, csv_to_ipm B cfg cd blocked cols rows = Ok file /\
               ipm_to_rows B maxlen cfg cd blocked cols file = Ok (map (map (@Some str)) rows).
Proof. exact (c20_rows B Bpos maxlen maxlen_ok). Qed.
End C20.
Print Assumptions C20_rows.

(* the value lemmas behind it: printing what was parsed gives back the canonical cell *)
Theorem C20_int_cell : forall n, py_int (str_of_N n) = Some (Z.of_N n) /\ cell_of (VInt (Z.of_N n)) = Some (str_of_N n).
Proof. exact c20_int_cell. Qed.
Print Assumptions C20_int_cell.
Theorem C20_date_cell : forall s d, parse_iso s = Some d -> iso_of d = s.
Proof. exact c20_date_cell. Qed.
Print Assumptions C20_date_cell.
