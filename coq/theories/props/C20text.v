(* C20 at text level — the csv file itself: mci_csv_to_ipm on the TEXT of a csv file that expresses a table of
   well-formed messages, then mci_ipm_to_csv, gives back the same text.  csv reading/writing is the transcription of
   CPython's csv module in model/Csv.v (tied to CPython by the correspondence run), no longer an assumed oracle. *)
From Coq Require Import List Arith NArith ZArith.
Require Import CU.model.Prim CU.model.Types CU.model.Unicode CU.model.Codec CU.model.Dates CU.model.Block CU.model.Vbs CU.model.Iso CU.model.Ipm CU.model.Tools CU.model.Csv.
Require Import CU.spec.FramingSpec CU.spec.IsoSpec CU.proofs.CsvProofs CU.proofs.CsvText.
Require CU.gen.GenConfig.
Require Import CU.props.C20.
Import ListNotations.

Section C20text.
Variable B : nat.
Hypothesis Bpos : 0 < B.
Variable maxlen : N.
Hypothesis maxlen_ok : (maxlen < 2 ^ 32)%N.

(* the domain is that of C20_rows (`canonical_tableb`, props/C20.v) with two conditions of the csv layer on the cells:
   no CR (csv.writer(lineterminator="\n") does not quote a CR and csv.reader ends the line at it) and at most
   csv.field_size_limit() = 131072 characters (`canonical_tableb` does not bound the width of a fixed-length element).
   The text is the header line of the column names followed by the rows, as csv.writer writes them. *)
Theorem C20_text : forall cfg cd blocked cols rows,
  wf_cfgb cfg = true -> csv_cfgb cfg = true -> codec_okb cd = true ->
  canonical_tableb cfg cd maxlen cols rows = true ->
  Forall (Forall (fun s => ~ In 13%N s)) rows ->
  Forall (Forall (fun s => (N.of_nat (length s) <= 131072)%N)) rows ->
  let text := csv_table (map name_of_key cols :: rows) in
  exists file, csv_text_to_ipm B cfg cd blocked text = Ok file /\
               ipm_to_csv_text B maxlen cfg cd blocked cols file = Ok text.
Proof. exact (c20_text B Bpos maxlen maxlen_ok). Qed.
End C20text.
Print Assumptions C20_text.

(* csv.reader reads back what csv.writer wrote: every table, including rows without fields and empty cells *)
Theorem C20_csv_roundtrip : forall rows, Forall (Forall csv_cell_ok) rows -> csv_parse (csv_table rows) = Ok rows.
Proof. exact csv_parse_table. Qed.
Print Assumptions C20_csv_roundtrip.

(* such a text holds no CR: a text file opened with newline=None delivers it unchanged *)
Theorem C20_csv_text_file : forall rows, Forall (Forall (fun s => ~ In 13%N s)) rows ->
  universal_nl (csv_table rows) = csv_table rows.
Proof. exact csv_table_universal. Qed.
Print Assumptions C20_csv_text_file.

(* column names and dictionary keys *)
Theorem C20_column_names :
  (forall s, name_of_key (key_of_name s) = s) /\
  (forall k, (match k with KDE n => (N.of_nat n < 10000)%N | KOther _ => False | _ => True end) -> key_of_name (name_of_key k) = k).
Proof. exact (conj name_of_key_of_name key_of_name_of_key). Qed.
Print Assumptions C20_column_names.

(* the round trip computes on the text of the example table of props/C20.v, blocked and unblocked *)
Example C20_text_example : forall blocked : bool,
  (do file <- csv_text_to_ipm 1012 CU.gen.GenConfig.packaged_bit_config ex_cd blocked
                (csv_table (map name_of_key ex_cols :: ex_rows));
   ipm_to_csv_text 1012 6000 CU.gen.GenConfig.packaged_bit_config ex_cd blocked ex_cols file)
  = Ok (csv_table (map name_of_key ex_cols :: ex_rows)).
Proof. intros [|]; vm_compute; reflexivity. Qed.
