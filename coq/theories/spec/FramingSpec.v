(* FramingSpec.v — what the documentation of mciipm.py promises about VBS framing and 1014 blocking,
   written independently of the code's loops.  Short enough to audit in minutes. *)
From Coq Require Import List NArith Bool Arith.
From Coq Require Import Strings.Byte.
Require Import CU.model.Prim CU.model.Block.
Import ListNotations.

Section FramingSpec.
Variable B : nat.        (* payload bytes per block: 1012 *)

(* "Block to 1014 by adding 2 * x'40' characters every 1012 characters in the data":
   after every complete B bytes insert the two-byte trailer; an incomplete tail is left as it is. *)
Fixpoint layout (fuel : nat) (d : bytes) : bytes :=
  match fuel with
  | 0 => d
  | S f => if length d <? B then d else firstn B d ++ trailer ++ layout f (skipn B d)
  end.
Definition lay (d : bytes) : bytes := layout (length d) d.

(* "fill with x'40' characters to next 1014 increment": the fill needed to complete the last block *)
Definition fill_len (n : nat) : nat := (B - n mod B) mod B.
Definition blocked_oneshot (d : bytes) : bytes := lay (d ++ repeat pad (fill_len (length d))).

(* the payload of a blocked byte string: bytes B and B+1 of every B+2 dropped (also for a short last block) *)
Fixpoint payload_fuel (fuel : nat) (f : bytes) : bytes :=
  match fuel with
  | 0 => []
  | S k => match f with [] => [] | _ => firstn B f ++ payload_fuel k (skipn (B + 2) f) end
  end.
Definition payload (f : bytes) : bytes := payload_fuel (length f) f.

(* a well-formed blocked file: whole blocks, each ending in the trailer *)
Fixpoint wf_blocks_fuel (fuel : nat) (f : bytes) : bool :=
  match fuel with
  | 0 => match f with [] => true | _ => false end
  | S k => match f with
           | [] => true
           | _ => Nat.eqb (length (firstn (B + 2) f)) (B + 2)
                  && bytes_eqb (skipn B (firstn (B + 2) f)) trailer
                  && wf_blocks_fuel k (skipn (B + 2) f)
           end
  end.
Definition wf_blocks (f : bytes) : bool := wf_blocks_fuel (length f) f.

(* successive reads of a byte stream: n > 0 gives the next n bytes or all that remain, n = 0 everything *)
Fixpoint slices (p : bytes) (ns : list nat) : list bytes :=
  match ns with
  | [] => []
  | n :: r => let k := if Nat.eqb n 0 then length p else n in firstn k p :: slices (skipn k p) r
  end.

End FramingSpec.

(* VBS: "each record is prefixed with a 4 byte binary length ... finishing with a zero length" *)
Definition frame (r : bytes) : bytes := be32 (N.of_nat (length r)) ++ r.
Definition frames (rs : list bytes) : bytes := flat_map frame rs.
Definition vbs (rs : list bytes) : bytes := frames rs ++ be32 0.

(* the records wholly contained in the first k bytes of the framed stream *)
Fixpoint complete_prefix (rs : list bytes) (k : nat) : list bytes :=
  match rs with
  | [] => []
  | r :: rest => if length (frame r) <=? k then r :: complete_prefix rest (k - length (frame r)) else []
  end.

(* payload bytes surviving when a blocked file is cut after k bytes *)
Definition payload_len (B k : nat) : nat := (k / (B + 2)) * B + Nat.min (k mod (B + 2)) B.

(* a record the reader accepts: non-empty and within the configured maximum *)
Definition wf_rec (maxlen : N) (r : bytes) : Prop := 1 <= length r /\ (N.of_nat (length r) <= maxlen)%N.
