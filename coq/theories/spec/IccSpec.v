(* IccSpec.v — what chip data (DE55) is, written from the documentation: a sequence of BER-like TLV items
   tag (one byte; two bytes when the first is 9F or 5F) · length (one byte) · value, optionally followed by low-values
   filler.  Independent of the walker in model/Iso.v. *)
From Coq Require Import List NArith Bool Arith.
From Coq Require Import Strings.Byte.
Require Import CU.model.Prim CU.model.Types.
Import ListNotations.

Record tlv := mktlv { t_tag : bytes; t_val : bytes }.

(* a tag as the documentation describes it; 00 is not a tag (it is filler) *)
Definition tag_ok (t : bytes) : Prop :=
  match t with
  | [b] => b <> x00 /\ b <> x9f /\ b <> x5f
  | [a; _] => a = x9f \/ a = x5f
  | _ => False
  end.
Definition tlv_ok (i : tlv) : Prop := tag_ok (t_tag i) /\ length (t_val i) < 256.

Definition tlv_wire (i : tlv) : bytes := t_tag i ++ [byte_of_N (N.of_nat (length (t_val i)))] ++ t_val i.
Definition icc_wire (items : list tlv) (filler : nat) : bytes := flat_map tlv_wire items ++ repeat x00 filler.
