(* IsoSpec.v — domains and declarative specifications for the ISO8583 properties (C01, C02, C08, C12, C16).
   Everything here is computable (boolean predicates / functions), so the harness can evaluate the same
   definitions through the extracted driver, and the theorems' hypotheses can be checked on examples. *)
From Coq Require Import List NArith ZArith Bool Arith.
From Coq Require Import Strings.Byte.
Require Import CU.model.Prim CU.model.Types CU.model.Unicode CU.model.Regex CU.model.Codec CU.model.Card CU.model.Dates CU.model.Dec CU.model.Iso.
Import ListNotations.

(* ------------------------------------------------------------------ configurations *)
Definition vmax (t : ftype) : nat := match t with LLVAR => 99 | LLLVAR => 999 | _ => 0 end.
Definition is_var (t : ftype) : bool := match t with LLVAR | LLLVAR => true | _ => false end.

Definition date_width (fmt : str) : option nat :=
  match parse_fmt fmt with
  | Some ds => if fmt_ok ds then Some (list_sum (map dwidth ds)) else None
  | None => None
  end.

(* the merchant-field processor splits TEXT with a pattern: on an int / datetime element it is admissible only without a
   pattern (then it does nothing; with one, re.match raises TypeError) *)
Definition de43_noneb (d : de43cfg) : bool := match d with D43None => true | _ => false end.
Definition de43_modelledb (d : de43cfg) : bool := match d with D43Unsupported => false | _ => true end.
Definition de43_for_text (c : fieldcfg) : bool :=
  match f_proc c with PDE43 => de43_noneb (f_de43 c) | _ => true end.

(* an element configuration the library handles consistently in both directions *)
Definition wf_fieldb (c : fieldcfg) : bool :=
  match f_len c with
  | None => false
  | Some n =>
    match f_ptype c with
    | PTDec => (1 <=? n) &&                                        (* decimal (model/Dec.v): format(d, '0<n>f') needs n >= 1 *)
               match f_proc c with PNone => true | _ => false end  (* and no processor at all *)
    | PTStr => match f_proc c with
               | PICC | PPDS => is_var (f_type c)
               | PDE43 => de43_modelledb (f_de43 c)                (* a splitting pattern inside the modelled regex fragment *)
               | _ => true
               end
    | PTInt => match f_proc c with PNone => true | PDE43 => de43_noneb (f_de43 c) | _ => false end
    | PTDate => match f_proc c with
                | PNone | PDE43 => de43_for_text c &&
                                   match date_width (f_datefmt c) with
                                   | Some w => is_var (f_type c) || Nat.eqb n w
                                   | None => false
                                   end
                | _ => false
                end
    end
  end.
Definition wf_cfgb (cfg : cfgT) : bool := forallb (fun bc => wf_fieldb (snd bc)) cfg.

(* ------------------------------------------------------------------ well-formed values *)
Definition encodable (cd : codec) (s : str) : bool := forallb (fun ch => match cenc cd ch with Some _ => true | None => false end) s.

(* admissible rendered length for the element type *)
Definition len_okb (c : fieldcfg) (n : nat) : bool :=
  if is_var (f_type c) then (1 <=? n) && (n <=? vmax (f_type c))
  else match f_len c with Some w => (1 <=? w) && Nat.eqb n w | None => false end.

Definition wf_dateb (fmt : str) (d : datetime) : bool :=
  match parse_fmt fmt with
  | None => false
  | Some ds =>
    let has x := existsb (dirv_eqb x) ds in
    fmt_ok ds && valid_dt d
    && (if has Dy then (1969 <=? dt_Y d)%N && (dt_Y d <=? 2068)%N
        else if has DY then (1000 <=? dt_Y d)%N && (dt_Y d <=? 9999)%N else (dt_Y d =? 1900)%N)
    && (has Dm || (dt_m d =? 1)%N) && (has Dd || (dt_d d =? 1)%N)
    && (has DH || (dt_H d =? 0)%N) && (has DM || (dt_M d =? 0)%N) && (has DS || (dt_S d =? 0)%N)
  end.

Definition is_ok {A} (r : result A) : bool := match r with Ok _ => true | _ => false end.

(* "a value that fits its configured field" *)
Definition wf_valb (c : fieldcfg) (cd : codec) (v : value) : bool :=
  match f_ptype c, v with
  | PTStr, VStr s =>
    match f_proc c with
    | PICC => false
    | PPDS => encodable cd s && len_okb c (length s) && is_ok (pds_to_dict s)     (* a carrier supplied directly *)
    | _ => encodable cd s && len_okb c (length s)
    end
  | PTStr, VBytes b =>
    match f_proc c with
    | PICC => len_okb c (length b) && is_ok (icc_to_dict b)
    | _ => false
    end
  | PTInt, VInt z =>
    match f_len c with
    | Some w => (0 <=? z)%Z && len_okb c (length (fmt0Z w z)) && encodable cd (fmt0Z w z)
    | None => false
    end
  | PTDate, VDate d =>
    wf_dateb (f_datefmt c) d &&
    match strftime_m (f_datefmt c) d with Ok s => len_okb c (length s) && encodable cd s | _ => false end
  (* a decimal element: the value is a Decimal carried by its text t (model/Dec.v): t reads as a plain fixed-point
     decimal d (digits 0..9, no leading zero), t is exactly what Python prints for it (str(d), no exponent notation),
     and the rendered text format(d, '0<w>f') has an admissible length (fixed: exactly the width, i.e. the number
     needs at most w characters; LL / LLL: at most 99 / 999) and only characters of the codec (digits, '-', '.').
     An int given for a decimal element is outside: it comes back as a Decimal, not as the int *)
  | PTDec, VStr t =>
    match f_len c, dec_parse t with
    | Some w, DPlain d =>
      wf_decb d && match dec_str d with Some t' => str_eqb t' t | None => false end
      && len_okb c (length (dec_fmt w d)) && encodable cd (dec_fmt w d)
    | _, _ => false
    end
  | _, _ => false
  end.

(* ------------------------------------------------------------------ well-formed messages *)
Definition ascii_digit (c : N) : bool := (48 <=? c)%N && (c <=? 57)%N.
Definition is_pds_key (k : key) : bool := match k with KPDS _ => true | _ => false end.
Fixpoint nodup_keys (m : dict) : bool :=
  match m with [] => true | (k, _) :: r => negb (existsb (fun kv => key_eqb (fst kv) k) r) && nodup_keys r end.

Definition wf_entryb (cfg : cfgT) (cd : codec) (has_pds : bool) (kv : key * value) : bool :=
  match kv with
  | (KMTI, VStr s) => Nat.eqb (length s) 4 && forallb ascii_digit s && encodable cd s
  | (KDE n, v) =>
    (2 <=? n) && (n <=? 127) &&
    match cfg_get cfg n with
    | Some c => wf_valb c cd v && negb (has_pds && proc_eqb (f_proc c) PPDS)
    | None => false
    end
  | (KPDS t, VStr s) => Nat.eqb (length t) 4 && forallb ascii_digit t && (length s <=? 992) && encodable cd s
  | _ => false
  end.

Definition carriers_okb (cfg : cfgT) : bool :=
  forallb (fun b => (2 <=? b) && (b <=? 127) &&
                    match cfg_get cfg b with
                    | Some c => match f_type c, f_ptype c with LLLVAR, PTStr => true | _, _ => false end
                    | None => false
                    end) (pds_bits cfg).

Definition wf_msgb (cfg : cfgT) (cd : codec) (m : dict) : bool :=
  let has_pds := existsb (fun kv => is_pds_key (fst kv)) m in
  nodup_keys m
  && existsb (fun kv => key_eqb (fst kv) KMTI) m
  && forallb (wf_entryb cfg cd has_pds) m
  && encodable cd (map dch [0; 1; 2; 3; 4; 5; 6; 7; 8; 9]%N)         (* the codec can write length prefixes *)
  && (negb has_pds ||
      (carriers_okb cfg &&
       match pds_to_de m with
       | Ok chunks => length chunks <=? length (pds_bits cfg)           (* within the capacity of the carriers *)
       | _ => false
       end)).

(* what decoding returns for an original entry: identity, masked PAN, or PAN prefix *)
Definition expected (cfg : cfgT) (k : key) (v : value) : value :=
  match k, v with
  | KDE n, VStr s =>
    match cfg_get cfg n with
    | Some c => match f_proc c with
                | PPAN => VStr (mask s star)
                | PPANPREFIX => VStr (firstn 9 s)
                | _ => v
                end
    | None => v
    end
  | _, _ => v
  end.

(* the documented derived keys: PDS carriers, PDSxxxx, TAGxxxx, ICC_DATA, and the named groups of the splitting pattern
   of an element with the DE43 processor (DE43_*: the translator refuses patterns with other group names) *)
Definition de43_key (cfg : cfgT) (s : str) : bool :=
  existsb (fun bc => proc_eqb (f_proc (snd bc)) PDE43 &&
                     match f_de43 (snd bc) with D43Re p => existsb (str_eqb s) (regex_groups p) | _ => false end) cfg.
Definition derived_key (cfg : cfgT) (k : key) : bool :=
  match k with
  | KDE n => match cfg_get cfg n with Some c => proc_eqb (f_proc c) PPDS | None => false end
  | KPDS _ | KTAG _ | KICC => true
  | KOther s => de43_key cfg s
  | _ => false
  end.

(* ------------------------------------------------------------------ the documented wire layout (C02) *)
Definition bit_set (bm : bytes) (n : nat) : bool :=            (* bit n (1..128), most significant bit of byte 0 is bit 1 *)
  match nth_error bm ((n - 1) / 8) with
  | Some b => N.testbit (Byte.to_N b) (N.of_nat (7 - (n - 1) mod 8))
  | None => false
  end.

(* elements present in a message, ascending *)
Definition present_elems (m : dict) : list nat :=
  filter (fun n => match lookup m (KDE n) with Some v => truthy v | None => false end) bit_range.

(* text of an element per its configuration *)
Definition elem_text (c : fieldcfg) (v : value) : option str :=
  match f_ptype c, v with
  | PTStr, VStr s => Some s
  | PTInt, VInt z => match f_len c with Some w => Some (fmt0Z w z) | None => None end
  | PTDate, VDate d => match strftime_m (f_datefmt c) d with Ok s => Some s | _ => None end
  (* a decimal element: the value is the text of a plain fixed-point numeral (or an int), written with the sign first
     and zeros up to the configured width (model/Dec.v) *)
  | PTDec, VStr s => match f_len c with
                     | Some (S w) => match dec_parse s with DPlain d => Some (dec_fmt (S w) d) | _ => None end
                     | _ => None
                     end
  | PTDec, VInt z => match f_len c with Some (S w) => Some (dec_fmt (S w) (dec_of_Z z)) | _ => None end
  | _, _ => None
  end.

(* one element on the wire: fixed = left-justified, space padded / truncated to the width; LL/LLL = decimal
   count + exactly that many bytes; binary (ICC) data untouched *)
Definition elem_wire (c : fieldcfg) (cd : codec) (v : value) : option bytes :=
  let enc s := match encode cd s with Ok b => Some b | _ => None end in
  match v, f_ptype c with
  | VBytes b, PTStr =>
    if is_var (f_type c) then
      if length b <=? vmax (f_type c) then
        match enc (map dch (digs (psize (f_type c)) (N.of_nat (length b)))) with Some p => Some (p ++ b) | None => None end
      else None
    else match f_len c with Some w => Some (firstn w b) | None => None end
  | _, _ =>
    match elem_text c v with
    | None => None
    | Some s =>
      if is_var (f_type c) then
        if length s <=? vmax (f_type c) then
          match enc (map dch (digs (psize (f_type c)) (N.of_nat (length s)))), enc s with
          | Some p, Some b => Some (p ++ b)
          | _, _ => None
          end
        else None
      else match f_len c with
           | Some w => enc (firstn w s ++ repeat chr_space (w - length s))
           | None => None
           end
    end
  end.

Fixpoint concat_opt {A} (l : list (option (list A))) : option (list A) :=
  match l with
  | [] => Some []
  | Some x :: r => match concat_opt r with Some t => Some (x ++ t) | None => None end
  | None :: _ => None
  end.

(* body of a message whose carriers are already filled in *)
Definition wire_body (cfg : cfgT) (cd : codec) (m : dict) : option bytes :=
  concat_opt (map (fun n => match cfg_get cfg n, lookup m (KDE n) with
                            | Some c, Some v => elem_wire c cd v
                            | _, _ => None
                            end) (present_elems m)).

(* ------------------------------------------------------------------ frames (C08) *)
Record frame := mkfr { fr_bit : nat; fr_off : nat; fr_plen : nat; fr_dlen : nat }.
Definition fr_end (f : frame) : nat := fr_off f + fr_plen f + fr_dlen f.

(* frames tile [0, total): first starts at 0, each starts where the previous ends, last ends at total *)
Fixpoint tiles (fs : list frame) (start total : nat) : Prop :=
  match fs with
  | [] => start = total
  | f :: r => fr_off f = start /\ tiles r (fr_end f) total
  end.

(* PDS (C12) *)
Definition tag4 (t : N) : str := map dch (digs 4 t).
Definition sub_of (tv : N * str) : str := tag4 (fst tv) ++ map dch (digs 3 (N.of_nat (length (snd tv)))) ++ snd tv.
