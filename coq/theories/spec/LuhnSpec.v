(* LuhnSpec.v — the Luhn (mod 10) formula as published, independent of the code's arithmetic. *)
From Coq Require Import List Arith Bool.
Import ListNotations.

(* doubling a digit; a two-digit product is reduced by adding its digits (= subtracting 9) *)
Definition dbl (d : nat) : nat := if 9 <? 2 * d then 2 * d - 9 else 2 * d.

(* rds: the digits from the right (check digit first); every second digit is doubled *)
Fixpoint luhn_sum (double : bool) (rds : list nat) : nat :=
  match rds with
  | [] => 0
  | d :: r => (if double then dbl d else d) + luhn_sum (negb double) r
  end.

Definition luhn_valid (ds : list nat) : Prop := luhn_sum false (rev ds) mod 10 = 0.
Definition luhn_validb (ds : list nat) : bool := Nat.eqb (luhn_sum false (rev ds) mod 10) 0.
Definition all_digits (ds : list nat) : Prop := Forall (fun d => d < 10) ds.
