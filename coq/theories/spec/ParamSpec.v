(* ParamSpec.v — independent specification for C18: what a Mastercard IPM extract of table rows looks like
   and which rows / columns a reader has to return.  Executable definitions and predicates only (no proofs);
   does not depend on the model (model/Param.v).

   Rows are described as TEXT (code points) and the file is the record-wise encoding of the texts in the file's
   codec.  Reason: the property speaks about "character positions of that row"; quantifying over texts and
   encoding them covers, for a codec that is a bijection between the 256 bytes and 256 code points (latin_1, cp500:
   checked from the generated tables in props/C18.v), every possible byte record, and also says something for
   partial codecs (ascii): every encodable text. *)
From Coq Require Import Strings.Byte Strings.String.
From Coq Require Import List NArith Bool Arith.
Require Import CU.model.Prim CU.model.Codec.
Import ListNotations.

(* a literal as a Python str *)
Definition lit (s : string) : str := map Byte.to_N (list_byte_of_string s).

(* ---------- rows of the table index IP0000T1 ---------- *)
(* positions: 0..11 anything (timestamp, code), 11..19 'IP0000T1', 19..27 the table id, 27..243 anything,
   243..246 the table sub id, then anything *)
Record irow := mkirow { i_pre : str; i_table : str; i_mid : str; i_sub : str; i_post : str }.
Definition wf_irow (i : irow) : Prop :=
  length (i_pre i) = 11 /\ length (i_table i) = 8 /\ length (i_mid i) = 216 /\ length (i_sub i) = 3.
Definition irow_text (i : irow) : str :=
  i_pre i ++ lit "IP0000T1" ++ i_table i ++ i_mid i ++ i_sub i ++ i_post i.
(* the index trailer *)
Definition trailer_text (tail : str) : str := lit "TRAILER RECORD IP0000T1" ++ tail.

(* the index assignment sub id -> table id carried by the index rows *)
Definition index_of (irows : list irow) : list (str * str) := map (fun i => (i_sub i, i_table i)) irows.
Fixpoint assoc (ix : list (str * str)) (k : str) : option str :=
  match ix with
  | [] => None
  | (k', v) :: r => if str_eqb k' k then Some v else assoc r k
  end.

(* ---------- data rows ---------- *)
(* expanded:   timestamp (10) code (1) table id (8) body      — body starts at position 19
   compressed: timestamp (7)  code (1) sub id (3)   body      — body starts at position 11
   d_key is the table id (expanded) resp. the table sub id (compressed) *)
Record drow := mkdrow { d_ts : str; d_code : str; d_key : str; d_body : str }.
Definition wf_drow (expanded : bool) (r : drow) : Prop :=
  length (d_ts r) = (if expanded then 10 else 7) /\ length (d_code r) = 1 /\
  length (d_key r) = (if expanded then 8 else 3).
Definition drow_text (r : drow) : str := d_ts r ++ d_code r ++ d_key r ++ d_body r.
Definition expanded_row (ts10 code table body : str) : str := drow_text (mkdrow ts10 code table body).
Definition compressed_row (ts7 code subid body : str) : str := drow_text (mkdrow ts7 code subid body).

(* ---------- the file: table index, index trailer, data rows (as texts, then as VBS records) ---------- *)
Definition param_file_text (irows : list irow) (tail : str) (rows : list drow) : list str :=
  map irow_text irows ++ trailer_text tail :: map drow_text rows.
Fixpoint encode_all (c : codec) (l : list str) : result (list bytes) :=
  match l with
  | [] => Ok []
  | t :: r => do b <- encode c t; do bs <- encode_all c r; Ok (b :: bs)
  end.
Definition param_file (c : codec) (irows : list irow) (tail : str) (rows : list drow) : result (list bytes) :=
  encode_all c (param_file_text irows tail rows).

(* ---------- which rows belong to a table, and what is expected for them ---------- *)
Definition table_of (expanded : bool) (ix : list (str * str)) (r : drow) : option str :=
  if expanded then Some (d_key r) else assoc ix (d_key r).
Definition belongs (expanded : bool) (ix : list (str * str)) (table : str) (r : drow) : bool :=
  match table_of expanded ix r with Some t => str_eqb t table | None => false end.

(* configured positions count from the start of the EXPANDED row, whose body starts at 19 *)
Definition column (body : str) (f : str * (nat * nat)) : str * str :=
  (fst f, slice (fst (snd f) - 19) (snd (snd f) - 19) body).
Definition expected_row (lay : list (str * (nat * nat))) (table : str) (r : drow) : list (str * str) :=
  [(lit "table_id", table); (lit "effective_timestamp", d_ts r); (lit "active_inactive_code", d_code r)]
  ++ map (column (d_body r)) lay.
Definition expected_rows (lay : list (str * (nat * nat))) (expanded : bool) (ix : list (str * str))
                         (table : str) (rows : list drow) : list (list (str * str)) :=
  map (expected_row lay table) (filter (belongs expanded ix table) rows).

(* the same logical row in the two representations *)
Definition same_row (ix : list (str * str)) (re rc : drow) : Prop :=
  d_code re = d_code rc /\ d_body re = d_body rc /\ assoc ix (d_key rc) = Some (d_key re).

(* two returned rows agree: same columns in the same order, same value for every column but the timestamp
   (whose format differs: 10 resp. 7 characters) *)
Definition rows_agree (a b : list (str * str)) : Prop :=
  map fst a = map fst b /\
  forall k, k <> lit "effective_timestamp" -> assoc a k = assoc b k.

(* ---------- admissible layouts ---------- *)
Definition layout_ok (lay : list (str * (nat * nat))) : Prop :=
  Forall (fun f => 19 <= fst (snd f) /\ fst (snd f) <= snd (snd f)) lay.
Definition header_names : list str := [lit "table_id"; lit "effective_timestamp"; lit "active_inactive_code"].
(* no field is configured twice and none collides with the three automatic columns *)
Definition fields_ok (lay : list (str * (nat * nat))) : Prop := NoDup (header_names ++ map fst lay).

(* boolean versions, to be evaluated on the packaged configuration *)
Definition layout_okb (lay : list (str * (nat * nat))) : bool :=
  forallb (fun f => (19 <=? fst (snd f)) && (fst (snd f) <=? snd (snd f))) lay.
Fixpoint nodup_strb (l : list str) : bool :=
  match l with
  | [] => true
  | x :: r => negb (existsb (str_eqb x) r) && nodup_strb r
  end.
Definition fields_okb (lay : list (str * (nat * nat))) : bool := nodup_strb (header_names ++ map fst lay).
Definition is_nil {A} (l : list A) : bool := match l with [] => true | _ => false end.
(* every table has columns, admissible positions and distinct names; table names are distinct *)
Definition layouts_okb (ls : list (str * list (str * (nat * nat)))) : bool :=
  nodup_strb (map fst ls) &&
  forallb (fun tl => negb (is_nil (snd tl)) && layout_okb (snd tl) && fields_okb (snd tl)) ls.

(* ---------- codecs ---------- *)
(* the table has at most one entry per byte value: what the theorems need of a codec *)
Definition codec_fits (c : codec) : Prop := length (ctable c) <= 256.
(* every byte decodes and is what its character encodes to (a bijection bytes <-> 256 code points) *)
Definition byte_roundtrips (c : codec) (b : byte) : bool :=
  match cdec c b with
  | Some ch => match cenc c ch with Some b' => Byte.eqb b' b | None => false end
  | None => false
  end.
